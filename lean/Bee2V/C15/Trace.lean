/-
What the monitor flags mean for the event trace alone (no monitor state in the statements):
`lost = false ∧ noLive` at the end  ⇒  every successful allocation is later closed by blobClose
with no direct free in between;  `crash = false`  ⇒  no use of a blob after its allocation
failed;  output not dirty  ⇒  every write is followed by a zeroisation.
-/
import Bee2V.C15.Sound
namespace Bee2V.C15

theorem getAt_setAt {α} (d : α) : ∀ (l : List α) (i j : Nat) (x : α),
    getAt d (setAt d l i x) j = if i = j then x else getAt d l j := by
  intro l
  induction l with
  | nil =>
    intro i
    induction i with
    | zero => intro j x; cases j <;> simp [setAt, getAt]
    | succ i ih =>
      intro j x
      cases j with
      | zero => simp [setAt, getAt]
      | succ j => simp only [setAt, getAt, ih j x]; simp
  | cons y l ih =>
    intro i j x
    cases i with
    | zero => cases j <;> simp [setAt, getAt]
    | succ i =>
      cases j with
      | zero => simp [setAt, getAt]
      | succ j => simp [setAt, getAt, ih i j x]

theorem st_setv (s : St) (v w : Nat) (x : VS) : (s.setv v x).st w = if v = w then x else s.st w := by
  simp [St.setv, St.st, getAt_setAt]

@[simp] theorem lost_setv (s : St) (v : Nat) (x : VS) : (s.setv v x).lost = s.lost := rfl
@[simp] theorem crash_setv (s : St) (v : Nat) (x : VS) : (s.setv v x).crash = s.crash := rfl
@[simp] theorem failed_setv (s : St) (v : Nat) (x : VS) : (s.setv v x).failed = s.failed := rfl
@[simp] theorem dirty_setv (s : St) (v : Nat) (x : VS) : (s.setv v x).dirty = s.dirty := rfl
@[simp] theorem vst_setv (s : St) (v : Nat) (x : VS) : (s.setv v x).vst = s.vst := rfl
@[simp] theorem codeV_setv (s : St) (v : Nat) (x : VS) : (s.setv v x).codeV = s.codeV := rfl
@[simp] theorem early_setv (s : St) (v : Nat) (x : VS) : (s.setv v x).early = s.early := rfl
@[simp] theorem errSeen_setv (s : St) (v : Nat) (x : VS) : (s.setv v x).errSeen = s.errSeen := rfl
@[simp] theorem reset_setv (s : St) (v : Nat) (x : VS) : (s.setv v x).reset = s.reset := rfl
@[simp] theorem late_setv (s : St) (v : Nat) (x : VS) : (s.setv v x).late = s.late := rfl

theorem getAt_of_all (p : VS → Bool) (hp : p .unk = true) (l : List VS) (h : l.all p = true) :
    ∀ v, p (getAt .unk l v) = true := by
  induction l with
  | nil => intro v; simpa [getAt] using hp
  | cons y l ih =>
    intro v
    simp only [List.all_cons, Bool.and_eq_true] at h
    cases v with
    | zero => simpa [getAt] using h.1
    | succ v => simpa [getAt] using ih h.2 v

theorem not_held_of_noLive {s : St} (h : s.noLive = true) (v : Nat) :
    s.st v ≠ .live ∧ s.st v ≠ .raw ∧ s.st v ≠ .wiped := by
  have := getAt_of_all (fun x => x != .live && x != .raw && x != .wiped) (by decide) s.vs h v
  simpa [St.st, and_assoc] using this

theorem not_live_of_noLive {s : St} (h : s.noLive = true) (v : Nat) : s.st v ≠ .live :=
  (not_held_of_noLive h v).1

/-! #### sticky flags -/

theorem lost_step {s : St} (e : Ev) (h : s.lost = true) : (s.apply e).lost = true := by
  cases e <;> simp [St.apply, h]
  all_goals (first | split <;> simp_all | skip)

theorem lost_fold (tr : List Ev) : ∀ s : St, s.lost = true → (tr.foldl St.apply s).lost = true := by
  induction tr with
  | nil => intro s h; exact h
  | cons e t ih => intro s h; exact ih _ (lost_step e h)

theorem crash_step {s : St} (e : Ev) (h : s.crash = true) : (s.apply e).crash = true := by
  cases e <;> simp [St.apply, h]
  all_goals (first | split <;> simp_all | skip)

theorem crash_fold (tr : List Ev) : ∀ s : St, s.crash = true → (tr.foldl St.apply s).crash = true := by
  induction tr with
  | nil => intro s h; exact h
  | cons e t ih => intro s h; exact ih _ (crash_step e h)

theorem failed_step {s : St} (e : Ev) (h : s.failed = true) : (s.apply e).failed = true := by
  cases e <;> simp [St.apply, h]
  all_goals (first | split <;> simp_all | skip)

theorem failed_fold (tr : List Ev) : ∀ s : St, s.failed = true → (tr.foldl St.apply s).failed = true := by
  induction tr with
  | nil => intro s h; exact h
  | cons e t ih => intro s h; exact ih _ (failed_step e h)

/-! #### C15: open blobs -/

/-- the blob variable an event is about -/
def Ev.var? : Ev → Option Nat
  | .allocOk v | .allocFail v | .resizeOk v | .resizeFail v | .close v | .free v
  | .setnull v | .setunk v | .rawOk v | .rawFail v | .wipe v => some v
  | _ => none

/-- events about other variables (or about no variable) leave the status of `v` alone -/
theorem st_apply_of_ne (s : St) (e : Ev) (v : Nat) (h : e.var? ≠ some v) :
    (s.apply e).st v = s.st v := by
  cases e <;> simp only [Ev.var?, ne_eq, Option.some.injEq] at h <;>
    simp only [St.apply]
  case close w => split <;> simp [St.st, St.setv, getAt_setAt, h]
  case free w => split <;> simp [St.st, St.setv, getAt_setAt, h]
  case wipe w => split <;> simp [St.st, St.setv, getAt_setAt, h]
  all_goals simp [St.st, St.setv, getAt_setAt, h]

/-- an open blob stays open (or the path is flagged) under any event except its own close -/
theorem live_step {s : St} {v : Nat} (hl : s.st v = .live) (e : Ev) (hne : e ≠ .close v) :
    (s.apply e).st v = .live ∨ (s.apply e).lost = true := by
  by_cases hv : e.var? = some v
  · have hil : s.isLive v = true := by simp [St.isLive, hl]
    cases e with
    | allocOk w => simp only [Ev.var?, Option.some.injEq] at hv; subst hv; right; simp [St.apply, hil]
    | allocFail w => simp only [Ev.var?, Option.some.injEq] at hv; subst hv; right; simp [St.apply, hil]
    | resizeOk w =>
      simp only [Ev.var?, Option.some.injEq] at hv; subst hv; left
      simp [St.apply, St.st, St.setv, getAt_setAt]
    | resizeFail w => simp only [Ev.var?, Option.some.injEq] at hv; subst hv; right; simp [St.apply, hil]
    | close w => simp only [Ev.var?, Option.some.injEq] at hv; subst hv; exact absurd rfl hne
    | free w => simp only [Ev.var?, Option.some.injEq] at hv; subst hv; right; simp [St.apply, hl]
    | setnull w => simp only [Ev.var?, Option.some.injEq] at hv; subst hv; right; simp [St.apply, hil]
    | setunk w => simp only [Ev.var?, Option.some.injEq] at hv; subst hv; right; simp [St.apply, hil]
    | rawOk w => simp only [Ev.var?, Option.some.injEq] at hv; subst hv; right; simp [St.apply, hil]
    | rawFail w => simp only [Ev.var?, Option.some.injEq] at hv; subst hv; right; simp [St.apply, hil]
    | wipe w => simp only [Ev.var?, Option.some.injEq] at hv; subst hv; left; simp only [St.apply, hl]
    | use w | call w | wr w | zero w | code w | resizeKeep w | calleeFail w | cls w => simp [Ev.var?] at hv
    | test c | vcall c | vres c => simp [Ev.var?] at hv
  · left; rw [st_apply_of_ne s e v hv]; exact hl

/-- a raw block stays raw (or the path is flagged) under any event except its own wipe -/
theorem raw_step {s : St} {v : Nat} (hl : s.st v = .raw) (e : Ev) (hne : e ≠ .wipe v) :
    (s.apply e).st v = .raw ∨ (s.apply e).lost = true := by
  by_cases hv : e.var? = some v
  · have hil : s.isLive v = true := by simp [St.isLive, hl]
    cases e with
    | allocOk w => simp only [Ev.var?, Option.some.injEq] at hv; subst hv; right; simp [St.apply, hil]
    | allocFail w => simp only [Ev.var?, Option.some.injEq] at hv; subst hv; right; simp [St.apply, hil]
    | resizeOk w => simp only [Ev.var?, Option.some.injEq] at hv; subst hv; right; simp [St.apply, hl]
    | resizeFail w => simp only [Ev.var?, Option.some.injEq] at hv; subst hv; right; simp [St.apply, hil]
    | close w => simp only [Ev.var?, Option.some.injEq] at hv; subst hv; right; simp [St.apply, hl]
    | free w => simp only [Ev.var?, Option.some.injEq] at hv; subst hv; right; simp [St.apply, hl]
    | setnull w => simp only [Ev.var?, Option.some.injEq] at hv; subst hv; right; simp [St.apply, hil]
    | setunk w => simp only [Ev.var?, Option.some.injEq] at hv; subst hv; right; simp [St.apply, hil]
    | rawOk w => simp only [Ev.var?, Option.some.injEq] at hv; subst hv; right; simp [St.apply, hil]
    | rawFail w => simp only [Ev.var?, Option.some.injEq] at hv; subst hv; right; simp [St.apply, hil]
    | wipe w => simp only [Ev.var?, Option.some.injEq] at hv; subst hv; exact absurd rfl hne
    | use w | call w | wr w | zero w | code w | resizeKeep w | calleeFail w | cls w => simp [Ev.var?] at hv
    | test c | vcall c | vres c => simp [Ev.var?] at hv
  · left; rw [st_apply_of_ne s e v hv]; exact hl

/-- a wiped raw block stays wiped (or the path is flagged) under any event except its own free -/
theorem wiped_step {s : St} {v : Nat} (hl : s.st v = .wiped) (e : Ev) (hne : e ≠ .free v) :
    (s.apply e).st v = .wiped ∨ (s.apply e).lost = true := by
  by_cases hv : e.var? = some v
  · have hil : s.isLive v = true := by simp [St.isLive, hl]
    cases e with
    | allocOk w => simp only [Ev.var?, Option.some.injEq] at hv; subst hv; right; simp [St.apply, hil]
    | allocFail w => simp only [Ev.var?, Option.some.injEq] at hv; subst hv; right; simp [St.apply, hil]
    | resizeOk w => simp only [Ev.var?, Option.some.injEq] at hv; subst hv; right; simp [St.apply, hl]
    | resizeFail w => simp only [Ev.var?, Option.some.injEq] at hv; subst hv; right; simp [St.apply, hil]
    | close w => simp only [Ev.var?, Option.some.injEq] at hv; subst hv; right; simp [St.apply, hl]
    | free w => simp only [Ev.var?, Option.some.injEq] at hv; subst hv; exact absurd rfl hne
    | setnull w => simp only [Ev.var?, Option.some.injEq] at hv; subst hv; right; simp [St.apply, hil]
    | setunk w => simp only [Ev.var?, Option.some.injEq] at hv; subst hv; right; simp [St.apply, hil]
    | rawOk w => simp only [Ev.var?, Option.some.injEq] at hv; subst hv; right; simp [St.apply, hil]
    | rawFail w => simp only [Ev.var?, Option.some.injEq] at hv; subst hv; right; simp [St.apply, hil]
    | wipe w => simp only [Ev.var?, Option.some.injEq] at hv; subst hv; left; simp only [St.apply, hl]
    | use w | call w | wr w | zero w | code w | resizeKeep w | calleeFail w | cls w => simp [Ev.var?] at hv
    | test c | vcall c | vres c => simp [Ev.var?] at hv
  · left; rw [st_apply_of_ne s e v hv]; exact hl

/-- an open blob is closed later on any path that ends unflagged with nothing open, and no
direct free of it happens before that close -/
theorem pending_closed (tr : List Ev) : ∀ (s : St) (v : Nat), s.st v = .live →
    (tr.foldl St.apply s).lost = false → (tr.foldl St.apply s).noLive = true →
    ∃ j : Nat, tr[j]? = some (Ev.close v) ∧ ∀ k : Nat, k < j → tr[k]? ≠ some (Ev.free v) := by
  induction tr with
  | nil =>
    intro s v hl _ hn
    exact absurd hl (not_live_of_noLive hn v)
  | cons e t ih =>
    intro s v hl hlost hn
    by_cases he : e = .close v
    · exact ⟨0, by simp [he], by intro k hk; omega⟩
    · rcases live_step hl e he with h1 | h1
      · obtain ⟨j, hj, hk⟩ := ih (s.apply e) v h1 hlost hn
        refine ⟨j + 1, by simpa using hj, ?_⟩
        intro k hkj
        cases k with
        | zero =>
          simp only [List.getElem?_cons_zero, ne_eq, Option.some.injEq]
          intro hf
          subst hf
          have : (s.apply (.free v)).lost = true := by simp [St.apply, hl]
          have := lost_fold t _ this
          simp [List.foldl_cons] at hlost
          rw [this] at hlost
          cases hlost
        | succ k => simpa using hk k (by omega)
      · have := lost_fold t _ h1
        simp only [List.foldl_cons] at hlost
        rw [this] at hlost
        cases hlost

/-- **C15 path property**: every successful blobCreate/blobResize of `v` is followed, later on
the path, by `blobClose(v)`, with no `memFree(v)`/`free(v)` in between. -/
def ClosesAll (tr : List Ev) : Prop :=
  ∀ (i : Nat) (v : Nat), (tr[i]? = some (Ev.allocOk v) ∨ tr[i]? = some (Ev.resizeOk v)) →
    ∃ j : Nat, i < j ∧ tr[j]? = some (Ev.close v) ∧ ∀ k : Nat, i < k → k < j → tr[k]? ≠ some (Ev.free v)

theorem closesAll_of_fold (tr : List Ev) : ∀ s : St,
    (tr.foldl St.apply s).lost = false → (tr.foldl St.apply s).noLive = true → ClosesAll tr := by
  unfold ClosesAll
  induction tr with
  | nil => intro s _ _ i v h; simp at h
  | cons e t ih =>
    intro s hlost hn i v h
    cases i with
    | zero =>
      have hl : (s.apply e).st v = .live := by
        simp only [List.getElem?_cons_zero, Option.some.injEq] at h
        rcases h with rfl | rfl <;> simp [St.apply, St.st, St.setv, getAt_setAt]
      obtain ⟨j, hj, hk⟩ := pending_closed t (s.apply e) v hl hlost hn
      refine ⟨j + 1, by omega, by simpa using hj, ?_⟩
      intro k h0 hkj
      cases k with
      | zero => omega
      | succ k => simpa using hk k (by omega)
    | succ i =>
      obtain ⟨j, hij, hj, hk⟩ := ih (s.apply e) hlost hn i v (by simpa using h)
      refine ⟨j + 1, by omega, by simpa using hj, ?_⟩
      intro k h0 hkj
      cases k with
      | zero => omega
      | succ k => simpa using hk k (by omega) (by omega)

/-! #### C15: raw blocks (memAlloc / malloc) are wiped before they are freed -/

theorem pending_wiped (tr : List Ev) : ∀ (s : St) (v : Nat), s.st v = .wiped →
    (tr.foldl St.apply s).lost = false → (tr.foldl St.apply s).noLive = true →
    ∃ j : Nat, tr[j]? = some (Ev.free v) ∧ ∀ k : Nat, k < j → tr[k]? ≠ some (Ev.free v) := by
  induction tr with
  | nil =>
    intro s v hl _ hn
    exact absurd hl (not_held_of_noLive hn v).2.2
  | cons e t ih =>
    intro s v hl hlost hn
    by_cases he : e = .free v
    · exact ⟨0, by simp [he], by intro k hk; omega⟩
    · rcases wiped_step hl e he with h1 | h1
      · obtain ⟨j, hj, hk⟩ := ih (s.apply e) v h1 hlost hn
        refine ⟨j + 1, by simpa using hj, ?_⟩
        intro k hkj
        cases k with
        | zero => simpa using he
        | succ k => simpa using hk k (by omega)
      · have := lost_fold t _ h1
        simp only [List.foldl_cons] at hlost
        rw [this] at hlost
        cases hlost

theorem pending_raw (tr : List Ev) : ∀ (s : St) (v : Nat), s.st v = .raw →
    (tr.foldl St.apply s).lost = false → (tr.foldl St.apply s).noLive = true →
    ∃ w j : Nat, w < j ∧ tr[w]? = some (Ev.wipe v) ∧ tr[j]? = some (Ev.free v) ∧
      ∀ k : Nat, k < j → tr[k]? ≠ some (Ev.free v) := by
  induction tr with
  | nil =>
    intro s v hl _ hn
    exact absurd hl (not_held_of_noLive hn v).2.1
  | cons e t ih =>
    intro s v hl hlost hn
    by_cases he : e = .wipe v
    · have hw : (s.apply e).st v = .wiped := by
        subst he; simp only [St.apply, hl]; simp [St.st, St.setv, getAt_setAt]
      obtain ⟨j, hj, hk⟩ := pending_wiped t (s.apply e) v hw hlost hn
      refine ⟨0, j + 1, by omega, by simp [he], by simpa using hj, ?_⟩
      intro k hkj
      cases k with
      | zero => subst he; simp
      | succ k => simpa using hk k (by omega)
    · by_cases hf : e = .free v
      · have : (s.apply e).lost = true := by subst hf; simp [St.apply, hl]
        have := lost_fold t _ this
        simp only [List.foldl_cons] at hlost
        rw [this] at hlost
        cases hlost
      · rcases raw_step hl e he with h1 | h1
        · obtain ⟨w, j, hwj, hw, hj, hk⟩ := ih (s.apply e) v h1 hlost hn
          refine ⟨w + 1, j + 1, by omega, by simpa using hw, by simpa using hj, ?_⟩
          intro k hkj
          cases k with
          | zero => simpa using hf
          | succ k => simpa using hk k (by omega)
        · have := lost_fold t _ h1
          simp only [List.foldl_cons] at hlost
          rw [this] at hlost
          cases hlost

/-- **C15 path property for raw blocks**: every successful memAlloc/malloc into `v` is followed, later
on the path, by `memFree(v)`/`free(v)`, and between the allocation and that (first) free there is a
`memWipe(v, size)` over the size the block was allocated with. -/
def WipesAll (tr : List Ev) : Prop :=
  ∀ (i : Nat) (v : Nat), tr[i]? = some (Ev.rawOk v) →
    ∃ w j : Nat, i < w ∧ w < j ∧ tr[w]? = some (Ev.wipe v) ∧ tr[j]? = some (Ev.free v) ∧
      ∀ k : Nat, i < k → k < j → tr[k]? ≠ some (Ev.free v)

theorem wipesAll_of_fold (tr : List Ev) : ∀ s : St,
    (tr.foldl St.apply s).lost = false → (tr.foldl St.apply s).noLive = true → WipesAll tr := by
  unfold WipesAll
  induction tr with
  | nil => intro s _ _ i v h; simp at h
  | cons e t ih =>
    intro s hlost hn i v h
    cases i with
    | zero =>
      have hl : (s.apply e).st v = .raw := by
        simp only [List.getElem?_cons_zero, Option.some.injEq] at h
        subst h; simp [St.apply, St.st, St.setv, getAt_setAt]
      obtain ⟨w, j, hwj, hw, hj, hk⟩ := pending_raw t (s.apply e) v hl hlost hn
      refine ⟨w + 1, j + 1, by omega, by omega, by simpa using hw, by simpa using hj, ?_⟩
      intro k h0 hkj
      cases k with
      | zero => omega
      | succ k => simpa using hk k (by omega)
    | succ i =>
      obtain ⟨w, j, hiw, hwj, hw, hj, hk⟩ := ih (s.apply e) hlost hn i v (by simpa using h)
      refine ⟨w + 1, j + 1, by omega, by omega, by simpa using hw, by simpa using hj, ?_⟩
      intro k h0 hkj
      cases k with
      | zero => omega
      | succ k => simpa using hk k (by omega) (by omega)

/-! #### C09: null blobs are not used -/

def IsNulling (v : Nat) (e : Ev) : Prop :=
  e = .allocFail v ∨ e = .resizeFail v ∨ e = .setnull v ∨ e = .rawFail v
def IsReassign (v : Nat) (e : Ev) : Prop :=
  e = .allocOk v ∨ e = .resizeOk v ∨ e = .setunk v ∨ e = .rawOk v

theorem null_step {s : St} {v : Nat} (hn : s.st v = .null) (e : Ev) (hne : ¬ IsReassign v e) :
    (s.apply e).st v = .null := by
  by_cases hv : e.var? = some v
  · cases e with
    | allocOk w => simp only [Ev.var?, Option.some.injEq] at hv; subst hv; exact absurd (Or.inl rfl) hne
    | resizeOk w =>
      simp only [Ev.var?, Option.some.injEq] at hv; subst hv; exact absurd (Or.inr (Or.inl rfl)) hne
    | setunk w =>
      simp only [Ev.var?, Option.some.injEq] at hv; subst hv; exact absurd (Or.inr (Or.inr (Or.inl rfl))) hne
    | allocFail w =>
      simp only [Ev.var?, Option.some.injEq] at hv; subst hv; simp [St.apply, St.st, St.setv, getAt_setAt]
    | resizeFail w =>
      simp only [Ev.var?, Option.some.injEq] at hv; subst hv; simp [St.apply, St.st, St.setv, getAt_setAt]
    | setnull w =>
      simp only [Ev.var?, Option.some.injEq] at hv; subst hv; simp [St.apply, St.st, St.setv, getAt_setAt]
    | close w => simp only [Ev.var?, Option.some.injEq] at hv; subst hv; simp only [St.apply, hn]
    | free w => simp only [Ev.var?, Option.some.injEq] at hv; subst hv; simp only [St.apply, hn]
    | rawOk w =>
      simp only [Ev.var?, Option.some.injEq] at hv; subst hv; exact absurd (Or.inr (Or.inr (Or.inr rfl))) hne
    | rawFail w =>
      simp only [Ev.var?, Option.some.injEq] at hv; subst hv; simp [St.apply, St.st, St.setv, getAt_setAt]
    | wipe w => simp only [Ev.var?, Option.some.injEq] at hv; subst hv; simp only [St.apply, hn]
    | use w | call w | wr w | zero w | code w | resizeKeep w | calleeFail w | cls w => simp [Ev.var?] at hv
    | test c | vcall c | vres c => simp [Ev.var?] at hv
  · rw [st_apply_of_ne s e v hv]; exact hn

theorem null_pending (tr : List Ev) : ∀ (s : St) (v : Nat), s.st v = .null →
    (tr.foldl St.apply s).crash = false →
    ∀ j : Nat, tr[j]? = some (Ev.use v) → ∃ k : Nat, k < j ∧ ∃ e, tr[k]? = some e ∧ IsReassign v e := by
  induction tr with
  | nil => intro s v _ _ j h; simp at h
  | cons e t ih =>
    intro s v hn hc j hj
    cases j with
    | zero =>
      simp only [List.getElem?_cons_zero, Option.some.injEq] at hj
      subst hj
      have : (s.apply (.use v)).crash = true := by simp [St.apply, hn]
      have := crash_fold t _ this
      simp only [List.foldl_cons] at hc
      rw [this] at hc
      cases hc
    | succ j =>
      by_cases hr : IsReassign v e
      · exact ⟨0, by omega, e, by simp, hr⟩
      · obtain ⟨k, hk, e', he', hr'⟩ := ih (s.apply e) v (null_step hn e hr) hc j (by simpa using hj)
        exact ⟨k + 1, by omega, e', by simpa using he', hr'⟩

/-- **C09 path property (no null dereference)**: between an allocation of `v` that failed (or
`v = 0`) and any later use of `v` the variable has been given a new value. -/
def NoNullUse (tr : List Ev) : Prop :=
  ∀ (i j v : Nat) (e : Ev), tr[i]? = some e → IsNulling v e → i < j → tr[j]? = some (Ev.use v) →
    ∃ k : Nat, i < k ∧ k < j ∧ ∃ e', tr[k]? = some e' ∧ IsReassign v e'

theorem noNullUse_of_fold (tr : List Ev) : ∀ s : St,
    (tr.foldl St.apply s).crash = false → NoNullUse tr := by
  unfold NoNullUse
  induction tr with
  | nil => intro s _ i j v e h; simp at h
  | cons e0 t ih =>
    intro s hc i j v e hi hnul hij hj
    cases j with
    | zero => omega
    | succ j =>
      cases i with
      | zero =>
        simp only [List.getElem?_cons_zero, Option.some.injEq] at hi
        subst hi
        have hn : (s.apply e0).st v = .null := by
          rcases hnul with rfl | rfl | rfl | rfl <;> simp [St.apply, St.st, St.setv, getAt_setAt]
        obtain ⟨k, hk, e', he', hr⟩ := null_pending t (s.apply e0) v hn hc j (by simpa using hj)
        exact ⟨k + 1, by omega, by omega, e', by simpa using he', hr⟩
      | succ i =>
        obtain ⟨k, h1, h2, e', he', hr⟩ := ih (s.apply e0) hc i j v e (by simpa using hi) hnul (by omega) (by simpa using hj)
        exact ⟨k + 1, by omega, by omega, e', by simpa using he', hr⟩

/-- the events by which an allocation fails -/
def IsAllocFailure (e : Ev) : Prop :=
  ∃ v, e = .allocFail v ∨ e = .resizeFail v ∨ e = .resizeKeep v ∨ e = .calleeFail v ∨ e = .rawFail v

theorem failed_of_mem (tr : List Ev) : ∀ (s : St),
    (∃ e ∈ tr, IsAllocFailure e) → (tr.foldl St.apply s).failed = true := by
  induction tr with
  | nil => intro s h; simp at h
  | cons e t ih =>
    intro s h
    by_cases he : IsAllocFailure e
    · have : (s.apply e).failed = true := by
        obtain ⟨v, rfl | rfl | rfl | rfl | rfl⟩ := he <;> simp [St.apply]
      exact failed_fold t _ this
    · apply ih (s.apply e)
      obtain ⟨e', hm, hf⟩ := h
      rcases List.mem_cons.mp hm with rfl | hm
      · exact absurd hf he
      · exact ⟨e', hm, hf⟩

/-! #### C09: outputs on error paths -/

theorem dirty_pending (tr : List Ev) : ∀ (s : St) (d : Nat), s.isDirty d = true →
    (tr.foldl St.apply s).isDirty d = false → ∃ j : Nat, tr[j]? = some (Ev.zero d) := by
  induction tr with
  | nil => intro s d h1 h2; simp at h2; rw [h1] at h2; cases h2
  | cons e t ih =>
    intro s d h1 h2
    by_cases he : e = .zero d
    · exact ⟨0, by simp [he]⟩
    · have : (s.apply e).isDirty d = true := by
        cases e with
        | wr w => simp [St.apply, St.isDirty, getAt_setAt]; right; simpa [St.isDirty] using h1
        | zero w =>
          have hw : w ≠ d := fun h => he (by rw [h])
          simp [St.apply, St.isDirty, getAt_setAt, hw]; simpa [St.isDirty] using h1
        | close w =>
          simp only [St.apply]; split <;> simpa [St.isDirty, St.setv] using h1
        | free w =>
          simp only [St.apply]; split <;> simpa [St.isDirty, St.setv] using h1
        | wipe w =>
          simp only [St.apply]; split <;> simpa [St.isDirty, St.setv] using h1
        | _ => simpa [St.apply, St.isDirty, St.setv] using h1
      obtain ⟨j, hj⟩ := ih (s.apply e) d this h2
      exact ⟨j + 1, by simpa using hj⟩

/-- **C09 path property (no unauthenticated output)**: every write to output `d` is followed
by a zeroisation of `d` later on the path. -/
def CleanOutput (d : Nat) (tr : List Ev) : Prop :=
  ∀ i : Nat, tr[i]? = some (Ev.wr d) → ∃ j : Nat, i < j ∧ tr[j]? = some (Ev.zero d)

theorem cleanOutput_of_fold (d : Nat) (tr : List Ev) : ∀ s : St,
    (tr.foldl St.apply s).isDirty d = false → CleanOutput d tr := by
  unfold CleanOutput
  induction tr with
  | nil => intro s _ i h; simp at h
  | cons e t ih =>
    intro s h i hi
    cases i with
    | zero =>
      simp only [List.getElem?_cons_zero, Option.some.injEq] at hi
      subst hi
      have : (s.apply (.wr d)).isDirty d = true := by simp [St.apply, St.isDirty, getAt_setAt]
      obtain ⟨j, hj⟩ := dirty_pending t _ d this h
      exact ⟨j + 1, by omega, by simpa using hj⟩
    | succ i =>
      obtain ⟨j, hij, hj⟩ := ih (s.apply e) h i (by simpa using hi)
      exact ⟨j + 1, by omega, by simpa using hj⟩

/-! #### C09: verification precedes the first write -/

theorem early_step {s : St} (d : Nat) (e : Ev) (h : s.isEarly d = true) : (s.apply e).isEarly d = true := by
  cases e <;> simp only [St.apply]
  case close w => split <;> simpa [St.isEarly, St.setv] using h
  case free w => split <;> simpa [St.isEarly, St.setv] using h
  case wipe w => split <;> simpa [St.isEarly, St.setv] using h
  case wr w =>
    simp only [St.isEarly]
    split
    · simpa [St.isEarly] using h
    · simp only [getAt_setAt]; split
      · rfl
      · simpa [St.isEarly] using h
  all_goals simpa [St.isEarly, St.setv] using h

theorem early_fold (d : Nat) (tr : List Ev) : ∀ s : St, s.isEarly d = true →
    (tr.foldl St.apply s).isEarly d = true := by
  induction tr with
  | nil => intro s h; exact h
  | cons e t ih => intro s h; exact ih _ (early_step d e h)

/-- The authentication automaton read off the bare trace (no monitor state): after a verification
call the state is `pending`; it becomes `passed`/`failed` when the result of THAT call is tested — at
once (`vres`) or, if the call assigned `code`, by the next test of `code` (`test`) provided `code` was
not assigned in between (an assignment loses the result: `failed`). -/
structure VA where
  st : VSt := .none
  codeV : Bool := false

def VA.step (a : VA) : Ev → VA
  | .vcall toCode => ⟨.pending, toCode⟩
  | .vres okv => ⟨if !a.codeV && a.st == .pending then (if okv then .passed else .failed) else a.st, a.codeV⟩
  | .test c => ⟨if a.codeV && a.st == .pending then (if c = .ok then .passed else .failed) else a.st, a.codeV⟩
  | .code _ => ⟨if a.codeV && a.st == .pending then .failed else a.st, false⟩
  | _ => a

def vstate (tr : List Ev) : VSt := (tr.foldl VA.step {}).st

def St.va (s : St) : VA := ⟨s.vst, s.codeV⟩

theorem va_apply (s : St) (e : Ev) : (s.apply e).va = s.va.step e := by
  cases e <;> simp only [St.apply, St.va, VA.step]
  case close w => split <;> rfl
  case free w => split <;> rfl
  case wipe w => split <;> rfl
  all_goals rfl

theorem va_fold (tr : List Ev) : ∀ s : St, (tr.foldl St.apply s).va = tr.foldl VA.step s.va := by
  induction tr with
  | nil => intro s; rfl
  | cons e t ih => intro s; simp only [List.foldl_cons]; rw [ih, va_apply]

/-- **C09 path property (verify before release, result tested)**: if the path calls a verification
routine at all, then at every write to output `d` the authentication automaton is in state
`passed`: a verification call precedes the write, its result has been tested, the test said
success, and no later verification call is pending or failed. -/
def VerifyFirst (d : Nat) (tr : List Ev) : Prop :=
  (∃ b, Ev.vcall b ∈ tr) → ∀ pre post, tr = pre ++ Ev.wr d :: post → vstate pre = .passed

theorem early_of_write {s : St} (d : Nat) (h : s.vst ≠ .passed) : (s.apply (.wr d)).isEarly d = true := by
  simp [St.apply, St.isEarly, h, getAt_setAt]

theorem written_passed (d : Nat) (tr : List Ev) : ∀ s : St,
    (tr.foldl St.apply s).isEarly d = false →
    ∀ pre post, tr = pre ++ Ev.wr d :: post → (pre.foldl St.apply s).vst = .passed := by
  induction tr with
  | nil => intro s _ pre post h; simp at h
  | cons e t ih =>
    intro s he pre post h
    cases pre with
    | nil =>
      simp only [List.nil_append, List.cons.injEq] at h
      obtain ⟨rfl, rfl⟩ := h
      by_cases hp : s.vst = .passed
      · simpa using hp
      · have := early_fold d t _ (early_of_write d hp)
        simp only [List.foldl_cons] at he
        rw [this] at he
        cases he
    | cons e' pre' =>
      simp only [List.cons_append, List.cons.injEq] at h
      obtain ⟨rfl, rfl⟩ := h
      simpa using ih (s.apply e) he pre' post rfl

theorem vst_ne_none_step {s : St} (e : Ev) (h : s.vst ≠ .none) : (s.apply e).vst ≠ .none := by
  cases e <;> simp only [St.apply]
  case close w => split <;> simpa [St.setv] using h
  case free w => split <;> simpa [St.setv] using h
  case wipe w => split <;> simpa [St.setv] using h
  case code c => split <;> simp_all
  case test c =>
    split
    · split <;> simp
    · exact h
  case vcall b => simp
  case vres b =>
    split
    · split <;> simp
    · exact h
  all_goals simpa [St.setv] using h

theorem vst_of_mem (tr : List Ev) : ∀ s : St, (∃ b, Ev.vcall b ∈ tr) →
    (tr.foldl St.apply s).vst ≠ .none := by
  induction tr with
  | nil => intro s h; simp at h
  | cons e t ih =>
    intro s h
    have keep : ∀ (t : List Ev) (s : St), s.vst ≠ .none → (t.foldl St.apply s).vst ≠ .none := by
      intro t
      induction t with
      | nil => intro s h; exact h
      | cons e t ih => intro s h; exact ih _ (vst_ne_none_step e h)
    obtain ⟨b, hb⟩ := h
    rcases List.mem_cons.mp hb with rfl | hb
    · exact keep t _ (by simp [St.apply])
    · exact ih _ ⟨b, hb⟩

theorem verifyFirst_of_fold (d : Nat) (tr : List Ev)
    (h : (tr.foldl St.apply St.init).vst = .none ∨ (tr.foldl St.apply St.init).isEarly d = false) :
    VerifyFirst d tr := by
  intro hv pre post htr
  rcases h with h | h
  · exact absurd h (vst_of_mem tr St.init hv)
  · have := written_passed d tr St.init h pre post htr
    have hva := va_fold pre St.init
    unfold vstate
    have : (pre.foldl St.apply St.init).va.st = .passed := this
    rw [hva] at this
    exact this

/-! #### C09: a recorded error is never overwritten, nothing is written after it -/

def IsErrMark (e : Ev) : Prop := e = .code .bad ∨ e = .test .bad
def IsAfterErrBad (e : Ev) : Prop :=
  e = .code .ok ∨ e = .code .unk ∨ e = .vcall true ∨ ∃ d, e = .wr d

theorem errSeen_step {s : St} (e : Ev) (h : s.errSeen = true) : (s.apply e).errSeen = true := by
  cases e <;> simp [St.apply, h]
  all_goals (first | split <;> simp_all | skip)

theorem reset_step {s : St} (e : Ev) (h : s.reset = true) : (s.apply e).reset = true := by
  cases e <;> simp [St.apply, h]
  all_goals (first | split <;> simp_all | skip)

theorem late_step {s : St} (e : Ev) (h : s.late = true) : (s.apply e).late = true := by
  cases e <;> simp [St.apply, h]
  all_goals (first | split <;> simp_all | skip)

theorem reset_fold (tr : List Ev) : ∀ s : St, s.reset = true → (tr.foldl St.apply s).reset = true := by
  induction tr with
  | nil => intro s h; exact h
  | cons e t ih => intro s h; exact ih _ (reset_step e h)

theorem late_fold (tr : List Ev) : ∀ s : St, s.late = true → (tr.foldl St.apply s).late = true := by
  induction tr with
  | nil => intro s h; exact h
  | cons e t ih => intro s h; exact ih _ (late_step e h)

theorem flagged_of_bad {s : St} (e : Ev) (hs : s.errSeen = true) (hb : IsAfterErrBad e) :
    (s.apply e).reset = true ∨ (s.apply e).late = true := by
  rcases hb with rfl | rfl | rfl | ⟨d, rfl⟩
  · left; simp [St.apply, hs]
  · left; simp [St.apply, hs]
  · left; simp [St.apply, hs]
  · right; simp [St.apply, hs]

theorem after_error_clean (tr : List Ev) : ∀ s : St, s.errSeen = true →
    (tr.foldl St.apply s).reset = false → (tr.foldl St.apply s).late = false →
    ∀ (j : Nat) (e : Ev), tr[j]? = some e → ¬ IsAfterErrBad e := by
  induction tr with
  | nil => intro s _ _ _ j e h; simp at h
  | cons e0 t ih =>
    intro s hs hr hl j e hj hb
    cases j with
    | zero =>
      simp only [List.getElem?_cons_zero, Option.some.injEq] at hj
      subst hj
      rcases flagged_of_bad e0 hs hb with h | h
      · have := reset_fold t _ h
        simp only [List.foldl_cons] at hr
        rw [this] at hr; cases hr
      · have := late_fold t _ h
        simp only [List.foldl_cons] at hl
        rw [this] at hl; cases hl
    | succ j => exact ih (s.apply e0) (errSeen_step e0 hs) hr hl j e (by simpa using hj) hb

/-- **C09 path property (error monotonicity)**: after `code` has been assigned an error constant or has been
tested to differ from ERR_OK, the path never assigns ERR_OK or a fresh (call) value to `code`, and never
writes an output (zeroisation / wiping excepted). -/
def ErrorSticky (tr : List Ev) : Prop :=
  ∀ (i j : Nat) (e e' : Ev), i < j → tr[i]? = some e → IsErrMark e → tr[j]? = some e' → ¬ IsAfterErrBad e'

theorem errorSticky_of_fold (tr : List Ev) : ∀ s : St,
    (tr.foldl St.apply s).reset = false → (tr.foldl St.apply s).late = false → ErrorSticky tr := by
  unfold ErrorSticky
  induction tr with
  | nil => intro s _ _ i j e e' _ h; simp at h
  | cons e0 t ih =>
    intro s hr hl i j e e' hij hi hm hj
    cases j with
    | zero => omega
    | succ j =>
      cases i with
      | zero =>
        simp only [List.getElem?_cons_zero, Option.some.injEq] at hi
        subst hi
        have hs : (s.apply e0).errSeen = true := by
          rcases hm with rfl | rfl <;> simp [St.apply]
        exact after_error_clean t (s.apply e0) hs hr hl j e' (by simpa using hj)
      | succ i =>
        exact ih (s.apply e0) hr hl i j e e' (by omega) (by simpa using hi) hm (by simpa using hj)

/-! #### the events of a path are events of the skeleton -/

theorem exec_events {c : Cfg} {s s' : St} {tr : List Ev} {o : Out} (hx : Exec c s tr s' o) :
    ∀ e ∈ tr, e ∈ c.events ∨ ∃ x, e = .test x := by
  induction hx with
  | skip | brk | cont | ret => intro e he; simp at he
  | atom hm => intro e he; simp only [List.mem_singleton] at he; subst he; exact Or.inl (by simpa [Cfg.events] using hm)
  | seqN _ _ ih1 ih2 =>
    intro e he
    rcases List.mem_append.mp he with h | h
    · rcases ih1 e h with h | h
      · exact Or.inl (by simp [Cfg.events, h])
      · exact Or.inr h
    · rcases ih2 e h with h | h
      · exact Or.inl (by simp [Cfg.events, h])
      · exact Or.inr h
  | seqX _ _ ih =>
    intro e he
    rcases ih e he with h | h
    · exact Or.inl (by simp [Cfg.events, h])
    · exact Or.inr h
  | iteT _ ih | ifnullT _ _ ih =>
    intro e he
    rcases ih e he with h | h
    · exact Or.inl (by simp [Cfg.events, h])
    · exact Or.inr h
  | iteF _ ih | ifnullF _ _ ih =>
    intro e he
    rcases ih e he with h | h
    · exact Or.inl (by simp [Cfg.events, h])
    · exact Or.inr h
  | ifcodeT _ _ ih =>
    intro e he
    rcases List.mem_cons.mp he with rfl | h
    · exact Or.inr ⟨_, rfl⟩
    · rcases ih e h with h | h
      · exact Or.inl (by simp [Cfg.events, h])
      · exact Or.inr h
  | ifcodeF _ _ ih =>
    intro e he
    rcases List.mem_cons.mp he with rfl | h
    · exact Or.inr ⟨_, rfl⟩
    · rcases ih e h with h | h
      · exact Or.inl (by simp [Cfg.events, h])
      · exact Or.inr h
  | loopStop => intro e he; simp at he
  | loopStep _ _ _ ih1 ih2 =>
    intro e he
    rcases List.mem_append.mp he with h | h
    · rcases ih1 e h with h | h
      · exact Or.inl (by simpa [Cfg.events] using h)
      · exact Or.inr h
    · exact ih2 e h
  | loopBrk _ ih | loopRet _ ih =>
    intro e he
    rcases ih e he with h | h
    · exact Or.inl (by simpa [Cfg.events] using h)
    · exact Or.inr h
  | blk _ ih =>
    intro e he
    rcases ih e he with h | h
    · exact Or.inl (by simpa [Cfg.events] using h)
    · exact Or.inr h

end Bee2V.C15

import Bee2V.C15.Blob
namespace Bee2V.C15.Blob

theorem wipeLoop_outside : ∀ (n p ctr : Nat) (m : Mem) (a : Nat), (a < p ∨ p + n ≤ a) →
    (wipeLoop p n ctr m).1 a = m a := by
  intro n
  induction n with
  | zero => intro p ctr m a _; rfl
  | succ n ih =>
    intro p ctr m a h
    simp only [wipeLoop]
    rw [ih (p + 1) _ _ a (by omega)]
    have : a ≠ p := by omega
    simp [upd, this]

theorem wipeLoop_inside : ∀ (n p ctr : Nat) (m m' : Mem) (a : Nat), p ≤ a → a < p + n →
    (wipeLoop p n ctr m).1 a = (wipeLoop p n ctr m').1 a := by
  intro n
  induction n with
  | zero => intro p ctr m m' a h1 h2; omega
  | succ n ih =>
    intro p ctr m m' a h1 h2
    simp only [wipeLoop]
    by_cases hp : a = p
    · subst hp
      rw [wipeLoop_outside n _ _ _ a (by omega), wipeLoop_outside n _ _ _ a (by omega)]
      simp [upd]
    · exact ih (p + 1) _ _ _ a (by omega) (by omega)

theorem wipeLoop_ctr : ∀ (n p ctr : Nat) (m m' : Mem),
    (wipeLoop p n ctr m).2 = (wipeLoop p n ctr m').2 := by
  intro n
  induction n with
  | zero => intro p ctr m m'; rfl
  | succ n ih => intro p ctr m m'; simp only [wipeLoop]; exact ih _ _ _ _

theorem snapshot_congr : ∀ (n p : Nat) (m m' : Mem), (∀ a, p ≤ a → a < p + n → m a = m' a) →
    snapshot m p n = snapshot m' p n := by
  intro n
  induction n with
  | zero => intro p m m' _; rfl
  | succ n ih =>
    intro p m m' h
    simp only [snapshot]
    rw [h p (by omega) (by omega), ih (p + 1) m m' (fun a h1 h2 => h a (by omega) (by omega))]

theorem snapshot_length : ∀ (n p : Nat) (m : Mem), (snapshot m p n).length = n := by
  intro n
  induction n with
  | zero => intro p m; rfl
  | succ n ih => intro p m; simp [snapshot, ih]

theorem snapshot_get : ∀ (n p : Nat) (m : Mem) (i : Nat), i < n → (snapshot m p n)[i]? = some (m (p + i)) := by
  intro n
  induction n with
  | zero => intro p m i h; omega
  | succ n ih =>
    intro p m i h
    cases i with
    | zero => simp [snapshot]
    | succ i => simp only [snapshot, List.getElem?_cons_succ]; rw [ih (p + 1) m i (by omega)]; congr 2; omega

end Bee2V.C15.Blob

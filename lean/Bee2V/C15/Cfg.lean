/-
Control-flow skeletons of the err_t functions of bee2 (shared by C09 and C15).

`Cfg` is what `xlate/x_cfg.py` regenerates from the C sources on every run
(`Bee2V.Gen.CfgAll`).  This file gives it a *path semantics* (`Exec`: which event traces a
skeleton can produce, with the tests on blob variables and on the error code tracked and
every other condition opaque) and an executable *reachability analysis* (`reach`) over a
finite monitor state.  `Bee2V/C15/Sound.lean` proves the analysis sound w.r.t. `Exec`.
No Mathlib here: the drivers import this file.
-/
namespace Bee2V.C15

/-- what is known about a blob variable on a path (`raw`/`wiped`: a block obtained from memAlloc/malloc
directly, not yet / already overwritten by memWipe over its full size) -/
inductive VS | unk | null | live | closed | raw | wiped
deriving DecidableEq, Repr

/-- progress of authentication on a path: no verification call yet / result pending / the result
of the most recent call was tested and is success / it was tested and is failure (or was lost) -/
inductive VSt | none | pending | passed | failed
deriving DecidableEq, Repr

/-- what is known about the error code (the function's `err_t` local / a returned value) -/
inductive CS | unk | ok | bad
deriving DecidableEq, Repr

/-- events of a path -/
inductive Ev
  | allocOk (v : Nat)     -- v = blobCreate(..) succeeded
  | allocFail (v : Nat)   -- v = blobCreate(..) returned 0
  | resizeOk (v : Nat)    -- v = blobResize(v, ..) succeeded
  | resizeFail (v : Nat)  -- v = blobResize(v, ..) returned 0 (v overwritten with 0)
  | rawOk (v : Nat)       -- v = memAlloc(n) / malloc(n) succeeded (a block WITHOUT the blob wrapper)
  | rawFail (v : Nat)     -- … returned 0
  | wipe (v : Nat)        -- memWipe(v, n) with n the size v was allocated with
  | resizeKeep (v : Nat)  -- t = blobResize(v, ..) returned 0 into a temporary: v keeps its block
  | cls (n : Nat)         -- the err_t constant n occurs in the value being returned / assigned to `code`
  | calleeFail (f : Nat)  -- an err_t callee that allocates failed and its result was DISCARDED
  | close (v : Nat)       -- blobClose(v)
  | free (v : Nat)        -- memFree(v) / free(v)
  | setnull (v : Nat)     -- v = 0
  | setunk (v : Nat)      -- v = some other pointer
  | use (v : Nat)         -- v (or a pointer derived from it) dereferenced / passed to a callee
  | call (f : Nat)        -- any other call
  | wr (d : Nat)          -- output parameter d may be written
  | zero (d : Nat)        -- memSetZero(d, ..)
  | code (c : CS)         -- code = …   (also: the fact learnt by a test of `code`)
  | test (c : CS)         -- the fact learnt by a test of `code` (emitted by `ifcode`, never by an atom)
  | vcall (toCode : Bool) -- a verification routine (MAC / key-token check) was called; toCode: its
                          -- result is the new value of `code`, otherwise it is tested at once
  | vres (okv : Bool)     -- the boolean result of the verification call just made was tested
deriving DecidableEq, Repr

inductive RetV | ok | err (n : Nat) | code | unk
deriving DecidableEq, Repr

inductive Cfg
  | skip
  | seq (a b : Cfg)
  | ite (c : Nat) (t e : Cfg)      -- opaque condition
  | loop (b : Cfg)                 -- zero or more passes of b; `brk` leaves
  | blk (b : Cfg)                  -- loop body: `cont` ends the pass
  | brk
  | cont
  | ret (r : RetV)
  | atom (es : List Ev)            -- one step emitting one of the events
  | ifnull (v : Nat) (t e : Cfg)   -- if (v == 0) t else e
  | ifcode (t e : Cfg)             -- if (code != ERR_OK) t else e
deriving Repr

namespace Cfg
def seqs : List Cfg → Cfg
  | [] => .skip
  | [a] => a
  | a :: rest => .seq a (seqs rest)
@[reducible] def alloc (v : Nat) : Cfg := .atom [.allocOk v, .allocFail v]
/-- `return ERR_X;` with X = n ≠ 0 -/
@[reducible] def retErr (n : Nat) : Cfg := .seq (.atom [.cls n]) (.ret (.err n))
/-- all events that occur syntactically in a skeleton -/
def events : Cfg → List Ev
  | .atom es => es
  | .seq a b => a.events ++ b.events
  | .ite _ t e => t.events ++ e.events
  | .ifnull _ t e => t.events ++ e.events
  | .ifcode t e => t.events ++ e.events
  | .loop b => b.events
  | .blk b => b.events
  | _ => []
/-- does the skeleton return the value of `code` or of an expression (a callee's code passed through)? -/
def passes : Cfg → Bool
  | .ret .code => true
  | .ret .unk => true
  | .seq a b => a.passes || b.passes
  | .ite _ t e => t.passes || e.passes
  | .ifnull _ t e => t.passes || e.passes
  | .ifcode t e => t.passes || e.passes
  | .loop b => b.passes
  | .blk b => b.passes
  | _ => false
/-- the err_t constants the skeleton itself can return (directly or through `code`) -/
def classes (c : Cfg) : List Nat := c.events.filterMap fun e => match e with | .cls n => some n | _ => none
@[reducible] def resize (v : Nat) : Cfg := .atom [.resizeOk v, .resizeFail v]
end Cfg

/-! ### maps Nat → α as padded lists (canonical enough to compare states) -/

def getAt {α} (d : α) : List α → Nat → α
  | [], _ => d
  | x :: _, 0 => x
  | _ :: l, n + 1 => getAt d l n

def setAt {α} (d : α) : List α → Nat → α → List α
  | [], 0, x => [x]
  | [], n + 1, x => d :: setAt d [] n x
  | _ :: l, 0, x => x :: l
  | y :: l, n + 1, x => y :: setAt d l n x

/-- monitor state carried along a path -/
structure St where
  vs : List VS := []        -- blob variable i
  code : CS := .unk
  failed : Bool := false    -- some allocation on this path has failed
  dirty : List Bool := []   -- output d written and not zeroised since
  vst : VSt := .none        -- state of authentication (see `VSt`)
  codeV : Bool := false     -- `code` currently holds the result of the pending verification call
  early : List Bool := []   -- output d was written while authentication had not passed
  errSeen : Bool := false   -- `code` has held an error on this path (assigned a non-zero constant / tested != ERR_OK)
  reset : Bool := false     -- C09: … and was assigned ERR_OK / a fresh value afterwards (recorded error overwritten)
  late : Bool := false      -- C09: … and an output was written afterwards (other than memSetZero / memWipe)
  lost : Bool := false      -- C15: a live blob was overwritten / freed directly / closed twice
  crash : Bool := false     -- C09: a null or closed blob was used
deriving DecidableEq, Repr

namespace St
def init : St := {}
def st (s : St) (v : Nat) : VS := getAt .unk s.vs v
/-- v holds a block this function owns (open blob, or raw block wiped or not) -/
def isLive (s : St) (v : Nat) : Bool := s.st v == .live || s.st v == .raw || s.st v == .wiped
def setv (s : St) (v : Nat) (x : VS) : St := { s with vs := setAt .unk s.vs v x }
def noLive (s : St) : Bool := s.vs.all (fun x => x != .live && x != .raw && x != .wiped)
def isDirty (s : St) (d : Nat) : Bool := getAt false s.dirty d
def isEarly (s : St) (d : Nat) : Bool := getAt false s.early d

/-- effect of one event on the monitor -/
def apply (s : St) : Ev → St
  | .allocOk v => { s.setv v .live with lost := s.lost || s.isLive v }
  | .allocFail v => { s.setv v .null with lost := s.lost || s.isLive v, failed := true }
  | .resizeOk v => { s.setv v .live with lost := s.lost || s.st v == .raw || s.st v == .wiped }
  | .rawOk v => { s.setv v .raw with lost := s.lost || s.isLive v }
  | .rawFail v => { s.setv v .null with lost := s.lost || s.isLive v, failed := true }
  | .wipe v =>
    match s.st v with
    | .raw => s.setv v .wiped
    | _ => s
  | .resizeFail v => { s.setv v .null with lost := s.lost || s.isLive v, failed := true }
  | .resizeKeep _ => { s with failed := true }
  | .calleeFail _ => { s with failed := true }
  | .cls _ => s
  | .close v =>
    match s.st v with
    | .live => s.setv v .closed
    | .closed => { s with lost := true }
    | .raw => { s with lost := true }       -- blobClose of a block that has no blob header
    | .wiped => { s with lost := true }
    | _ => s
  | .free v =>
    match s.st v with
    | .live => { s.setv v .closed with lost := true }    -- blob freed directly (not wiped)
    | .raw => { s.setv v .closed with lost := true }     -- raw block freed without a wipe
    | .wiped => s.setv v .closed
    | _ => s
  | .setnull v => { s.setv v .null with lost := s.lost || s.isLive v }
  | .setunk v => { s.setv v .unk with lost := s.lost || s.isLive v }
  | .use v => { s with crash := s.crash || s.st v == .null || s.st v == .closed }
  | .call _ => s
  | .wr d => { s with late := s.late || s.errSeen, dirty := setAt false s.dirty d true,
                      early := if s.vst = .passed then s.early else setAt false s.early d true }
  | .zero d => { s with dirty := setAt false s.dirty d false }
  | .code c => { s with code := c, codeV := false, errSeen := s.errSeen || c == .bad,
                        reset := s.reset || (s.errSeen && c != .bad),
                        vst := if s.codeV && s.vst == .pending then .failed else s.vst }
  | .test c =>
    { s with code := c, errSeen := s.errSeen || c == .bad,
             vst := if s.codeV && s.vst == .pending then (if c = .ok then .passed else .failed) else s.vst }
  | .vcall toCode => { s with vst := .pending, codeV := toCode, code := if toCode then .unk else s.code,
                              reset := s.reset || (s.errSeen && toCode) }
  | .vres okv =>
    { s with vst := if !s.codeV && s.vst == .pending then (if okv then .passed else .failed) else s.vst }
end St

def RetV.eval (s : St) : RetV → CS
  | .ok => .ok
  | .err n => if n = 0 then .ok else .bad
  | .code => s.code
  | .unk => .unk

/-- a status that says the pointer is not null -/
def VS.nonNull : VS → Bool
  | .live | .closed | .raw | .wiped => true
  | _ => false

inductive Out | norm | brk | cont | ret (r : CS)
deriving DecidableEq, Repr

/-- Path semantics: `Exec c s tr s' o` — from monitor state `s` the skeleton `c` can emit the
event trace `tr`, ending in `s'` with outcome `o`.  Opaque conditions take either arm; a test
of a blob variable / of `code` takes only the arms compatible with what the path has
established. -/
inductive Exec : Cfg → St → List Ev → St → Out → Prop
  | skip {s} : Exec .skip s [] s .norm
  | brk {s} : Exec .brk s [] s .brk
  | cont {s} : Exec .cont s [] s .cont
  | ret {s r} : Exec (.ret r) s [] s (.ret (r.eval s))
  | atom {s es e} : e ∈ es → Exec (.atom es) s [e] (s.apply e) .norm
  | seqN {a b s t1 s1 t2 s2 o} : Exec a s t1 s1 .norm → Exec b s1 t2 s2 o →
      Exec (.seq a b) s (t1 ++ t2) s2 o
  | seqX {a b s t1 s1 o} : Exec a s t1 s1 o → o ≠ .norm → Exec (.seq a b) s t1 s1 o
  | iteT {c t e s tr s' o} : Exec t s tr s' o → Exec (.ite c t e) s tr s' o
  | iteF {c t e s tr s' o} : Exec e s tr s' o → Exec (.ite c t e) s tr s' o
  | ifnullT {v t e s tr s' o} : (s.st v).nonNull = false → Exec t s tr s' o →
      Exec (.ifnull v t e) s tr s' o
  | ifnullF {v t e s tr s' o} : s.st v ≠ .null → Exec e s tr s' o →
      Exec (.ifnull v t e) s tr s' o
  | ifcodeT {t e s tr s' o} : s.code ≠ .ok → Exec t (s.apply (.test .bad)) tr s' o →
      Exec (.ifcode t e) s (.test .bad :: tr) s' o
  | ifcodeF {t e s tr s' o} : s.code ≠ .bad → Exec e (s.apply (.test .ok)) tr s' o →
      Exec (.ifcode t e) s (.test .ok :: tr) s' o
  | loopStop {b s} : Exec (.loop b) s [] s .norm
  | loopStep {b s t1 s1 o1 t2 s2 o} : Exec b s t1 s1 o1 → (o1 = .norm ∨ o1 = .cont) →
      Exec (.loop b) s1 t2 s2 o → Exec (.loop b) s (t1 ++ t2) s2 o
  | loopBrk {b s t1 s1} : Exec b s t1 s1 .brk → Exec (.loop b) s t1 s1 .norm
  | loopRet {b s t1 s1 r} : Exec b s t1 s1 (.ret r) → Exec (.loop b) s t1 s1 (.ret r)
  | blk {b s tr s' o} : Exec b s tr s' o → Exec (.blk b) s tr s' (if o = .cont then .norm else o)

/-! ### reachability analysis (sets of monitor states as duplicate-free lists) -/

def uni (a b : List St) : List St := a.foldr (fun x acc => if x ∈ acc then acc else x :: acc) b
def uniR (a b : List (St × CS)) : List (St × CS) :=
  a.foldr (fun x acc => if x ∈ acc then acc else x :: acc) b
def subset (a b : List St) : Bool := a.all (fun x => decide (x ∈ b))

structure Res where
  norm : List St := []
  brk : List St := []
  cont : List St := []
  rets : List (St × CS) := []
  ok : Bool := true
deriving Repr

/-- least set ⊇ S closed under the normal/continue exits of `f`; `none` if fuel runs out -/
def iter (f : List St → Res) : Nat → List St → Option (List St)
  | 0, S => if subset (uni (f S).norm (f S).cont) S then some S else none
  | n + 1, S =>
    if subset (uni (f S).norm (f S).cont) S then some S
    else iter f n (uni (uni (f S).norm (f S).cont) S)

def loopFuel : Nat := 12

def reach : Cfg → List St → Res
  | .skip, S => { norm := S }
  | .brk, S => { brk := S }
  | .cont, S => { cont := S }
  | .ret r, S => { rets := uniR (S.map fun s => (s, r.eval s)) [] }
  | .atom es, S => { norm := uni (S.flatMap fun s => es.map s.apply) [] }
  | .seq a b, S =>
    let ra := reach a S
    let rb := reach b ra.norm
    { norm := rb.norm, brk := uni ra.brk rb.brk, cont := uni ra.cont rb.cont,
      rets := uniR ra.rets rb.rets, ok := ra.ok && rb.ok }
  | .ite _ t e, S =>
    let rt := reach t S
    let re := reach e S
    { norm := uni rt.norm re.norm, brk := uni rt.brk re.brk, cont := uni rt.cont re.cont,
      rets := uniR rt.rets re.rets, ok := rt.ok && re.ok }
  | .ifnull v t e, S =>
    let rt := reach t (S.filter fun s => !(s.st v).nonNull)
    let re := reach e (S.filter fun s => s.st v != .null)
    { norm := uni rt.norm re.norm, brk := uni rt.brk re.brk, cont := uni rt.cont re.cont,
      rets := uniR rt.rets re.rets, ok := rt.ok && re.ok }
  | .ifcode t e, S =>
    let rt := reach t (uni ((S.filter fun s => s.code != .ok).map fun s => s.apply (.test .bad)) [])
    let re := reach e (uni ((S.filter fun s => s.code != .bad).map fun s => s.apply (.test .ok)) [])
    { norm := uni rt.norm re.norm, brk := uni rt.brk re.brk, cont := uni rt.cont re.cont,
      rets := uniR rt.rets re.rets, ok := rt.ok && re.ok }
  | .blk b, S =>
    let r := reach b S
    { r with norm := uni r.norm r.cont, cont := [] }
  | .loop b, S =>
    match iter (reach b) loopFuel S with
    | none => { ok := false }
    | some F =>
      let r := reach b F
      { norm := uni F r.brk, rets := r.rets, ok := r.ok }

/-- C15 checker: on every path every blob of the function is closed by `blobClose` before the
return, never freed directly, never overwritten while open. -/
def allPathsClose (c : Cfg) : Bool :=
  let r := reach c [St.init]
  r.ok && r.rets.all fun p => !p.1.lost && p.1.noLive

/-- C09(ii) checker: a path on which an allocation failed returns a code known to differ from
ERR_OK, with every blob closed; and no path uses a null or closed blob. -/
def allocFailSafe (c : Cfg) : Bool :=
  let r := reach c [St.init]
  r.ok && r.rets.all fun p =>
    !p.1.crash && (!p.1.failed || (decide (p.2 = .bad) && !p.1.lost && p.1.noLive))

/-- C09(iii) checker for output `d`: a path that may return an error leaves `d` unwritten or
zeroised after its last write. -/
def releaseSafe (d : Nat) (c : Cfg) : Bool :=
  let r := reach c [St.init]
  r.ok && r.rets.all fun p => decide (p.2 = .ok) || !p.1.isDirty d

/-- C09(iii), second shape, for output `d`: on a path that calls a verification routine, `d` is
written only while the result of the most recent verification call has been TESTED and is success. -/
def verifyFirst (d : Nat) (c : Cfg) : Bool :=
  let r := reach c [St.init]
  r.ok && r.rets.all fun p => decide (p.1.vst = .none) || !p.1.isEarly d

/-- C09 checker (error code monotonicity): once `code` has held an error on a path it is never assigned
ERR_OK or a fresh value again, and no output is written after that point except by memSetZero / memWipe. -/
def errorSticky (c : Cfg) : Bool :=
  let r := reach c [St.init]
  r.ok && r.rets.all fun p => !p.1.reset && !p.1.late

end Bee2V.C15

import Bee2V.C15.Drv
/-- driver executable of area C15 (`drv_c15`) -/
def main : IO Unit := Bee2V.Proto.runLoop fun
  | "path" :: args => Bee2V.C15.Drv.handlePath args
  | "wipe" :: args => Bee2V.C15.Drv.handleWipe args
  | _ => "bad-op"

/-
Driver side of C15 (and, for `path`, of C09): executable checks that tie the generated
skeletons and the blob model to what the C harness observes.
  path <function> <ok|bad> <A,N,C,C0,R,RN,… | ->   does the skeleton of <function> have a path whose
        blobCreate/blobClose/blobResize events are exactly the observed ones, with a compatible result?
  wipe <size> <ptr mod 16> <page>                   released block of blobClose in the model:
        length, whether the size header survived, first differences of the octets
-/
import Bee2V.C15.Cfg
import Bee2V.C15.Blob
import Bee2V.Gen.CfgAll
import Bee2V.Base.Proto
namespace Bee2V.C15.Drv
open Bee2V.C15 Bee2V.Proto

abbrev Pt := St × List String

structure SimRes where
  norm : List Pt := []
  brk : List Pt := []
  cont : List Pt := []
  rets : List (Pt × CS) := []
deriving Inhabited

def addAll {α} [BEq α] (a b : List α) : List α := a.foldl (fun acc x => if acc.contains x then acc else acc ++ [x]) b

/-- observable token of an event in state `s` (none = not observable by the blob interposers) -/
def tokOf (s : St) : Ev → Option (List String)
  | .allocOk _ => some ["A"]
  | .allocFail _ => some ["N"]
  | .rawOk _ => none
  | .rawFail _ => none
  | .resizeOk _ => some ["R"]
  | .resizeFail _ => some ["RN"]
  | .resizeKeep _ => some ["RN"]
  | .close v => match s.st v with
    | .live => some ["C"]
    | .null => some ["C0"]
    | _ => some ["C", "C0"]
  | _ => none

def lookup (name : String) : Option (List String × Cfg) :=
  (Bee2V.Gen.CfgAll.all.find? fun x => x.1 == name).map fun x => (x.2.2.1, x.2.2.2)

def stepEv (p : Pt) (e : Ev) : List Pt :=
  match tokOf p.1 e with
  | none => [(p.1.apply e, p.2)]
  | some ts =>
    match p.2 with
    | [] => []
    | t :: rest => if ts.contains t then [(p.1.apply e, rest)] else []

def iterSim (f : List Pt → SimRes) : Nat → List Pt → List Pt
  | 0, S => S
  | n + 1, S =>
    let r := f S
    let S' := addAll (addAll r.norm r.cont) S
    if S'.length == S.length then S else iterSim f n S'

/-- nondeterministic simulation against the observed token list.  A callee that has a skeleton
may have been inlined by the compiler (its blob events are then attributed to the caller):
`depth` levels of callees are optionally expanded. -/
partial def sim (depth : Nat) (calls : List String) : Cfg → List Pt → SimRes
  | .skip, S => { norm := S }
  | .brk, S => { brk := S }
  | .cont, S => { cont := S }
  | .ret r, S => { rets := S.map fun p => (p, r.eval p.1) }
  | .atom es, S =>
    { norm := addAll (S.flatMap fun p => es.flatMap fun e =>
        match e with
        | .call k =>
          let plain := [(p.1.apply e, p.2)]
          if depth == 0 then plain else
          match calls[k]? >>= lookup with
          | none => plain
          | some (cc, c) =>
            let r := sim (depth - 1) cc c [(St.init, p.2)]
            plain ++ r.rets.map fun q => (p.1.apply e, q.1.2)
        | _ => stepEv p e) [] }
  | .seq a b, S =>
    let ra := sim depth calls a S
    let rb := sim depth calls b ra.norm
    { norm := rb.norm, brk := addAll ra.brk rb.brk, cont := addAll ra.cont rb.cont, rets := ra.rets ++ rb.rets }
  | .ite _ t e, S =>
    let rt := sim depth calls t S
    let re := sim depth calls e S
    { norm := addAll rt.norm re.norm, brk := addAll rt.brk re.brk, cont := addAll rt.cont re.cont, rets := rt.rets ++ re.rets }
  | .ifnull v t e, S =>
    let rt := sim depth calls t (S.filter fun p => !(p.1.st v).nonNull)
    let re := sim depth calls e (S.filter fun p => p.1.st v != .null)
    { norm := addAll rt.norm re.norm, brk := addAll rt.brk re.brk, cont := addAll rt.cont re.cont, rets := rt.rets ++ re.rets }
  | .ifcode t e, S =>
    let rt := sim depth calls t ((S.filter fun p => p.1.code != .ok).map fun p => (p.1.apply (.test .bad), p.2))
    let re := sim depth calls e ((S.filter fun p => p.1.code != .bad).map fun p => (p.1.apply (.test .ok), p.2))
    { norm := addAll rt.norm re.norm, brk := addAll rt.brk re.brk, cont := addAll rt.cont re.cont, rets := rt.rets ++ re.rets }
  | .blk b, S =>
    let r := sim depth calls b S
    { r with norm := addAll r.norm r.cont, cont := [] }
  | .loop b, S =>
    let F := iterSim (sim depth calls b) 64 S
    let r := sim depth calls b F
    { norm := addAll F r.brk, rets := r.rets }

def hasPath (depth : Nat) (calls : List String) (c : Cfg) (okRes : Bool) (toks : List String) : Bool :=
  (sim depth calls c [(St.init, toks)]).rets.any fun (p, r) =>
    p.2.isEmpty && (r == .unk || (okRes && r == .ok) || (!okRes && r == .bad))

/-- `path f ok|bad toks` -> yes (a path of the skeleton itself) | yes-inlined (with callees
expanded) | no -/
def handlePath : List String → String
  | [name, res, toks] =>
    match lookup name with
    | none => "unknown-function"
    | some (calls, c) =>
      let ts := if toks == "-" then [] else toks.splitOn ","
      if hasPath 0 calls c (res == "ok") ts then "yes"
      else if hasPath 2 calls c (res == "ok") ts then "yes-inlined" else "no"
  | _ => "bad-op"

open Blob in
/-- `wipe <size> <ptrmod> <page>`: model of blobClose on a blob of `size` octets filled with 0x5A -/
def handleWipe : List String → String
  | [size, pm, page] =>
    match parseNat size, parseNat pm, parseNat page with
    | some size, some pm, some page =>
      let ptr := 4096 + pm           -- any address with the same residue modulo 16
      let szb := natLE 8 size
      let mem : Mem := fun a =>
        if ptr ≤ a ∧ a < ptr + 8 then szb.getD (a - ptr) 0 else 0x5A
      let h := blobClose page { mem := mem } (ptr + 8) 0
      match h.released with
      | (_, blk) :: _ =>
        let hdr := blk.take 8 == szb
        let fill := (List.range (blk.length - 7)).any fun i => (blk.drop i).take 8 == List.replicate 8 (0x5A : UInt8)
        s!"len={blk.length} header_intact={if hdr then 1 else 0} fill_left={if fill then 1 else 0} deltas={toHex (deltas blk)}"
      | [] => "not-released"
    | _, _, _ => "bad-op"
  | _ => "bad-op"

end Bee2V.C15.Drv

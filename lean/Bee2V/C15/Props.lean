/-
C15 — secret state is wiped before its memory is released.

Property theorems (the per-function obligations `allPathsClose cfg_f = true` on the skeletons
regenerated from the sources are in `Bee2V/Gen/C15Obl.lean`, one `decide` each):

* `allPathsClose_sound` — the checker is sound for the path semantics: on EVERY path of the
  skeleton (any number of loop passes, any outcome of the opaque conditions) every successful
  blobCreate/blobResize is followed by blobClose of the same variable before the return, with
  no memFree/free of it in between.
* `memWipe_overwrites`, `memWipe_frame` — the model of memWipe writes every octet of the range
  (the result inside the range does not depend on what was there) and nothing else.
* `blobClose_releases_wiped`, `blobClose_covers_allocation` — the block handed to memFree by
  blobClose has been overwritten over its whole actual size, size header included.
* `blobResize_releases_unwiped` — blobResize, when the block moves, hands the OLD block to the
  allocator as it is (hazard; see docs/C15.md: no secret-bearing blob is resized in bee2).
-/
import Bee2V.C15.Trace
import Bee2V.C15.BlobLemmas
namespace Bee2V.C15
open Blob

/-- **Soundness of `allPathsClose`.** -/
theorem allPathsClose_sound (c : Cfg) (h : allPathsClose c = true) :
    ∀ (tr : List Ev) (s' : St) (r : CS), Exec c St.init tr s' (.ret r) → ClosesAll tr ∧ WipesAll tr := by
  intro tr s' r hx
  simp only [allPathsClose, Bool.and_eq_true, List.all_eq_true] at h
  have hm := reach_sound hx [St.init] h.1 (by simp)
  have hp := h.2 (s', r) hm
  simp only [Bool.not_eq_true'] at hp
  have hf := exec_fold hx
  subst hf
  exact ⟨closesAll_of_fold tr St.init hp.1 hp.2, wipesAll_of_fold tr St.init hp.1 hp.2⟩

/-- non-vacuity: the skeleton `state = blobCreate(); if (state == 0) return ERR; use; blobClose; return OK`
has a path with trace `[allocOk 0, use 0, close 0]`, passes the checker, and the variant that
forgets the close on the error exit of a later check does not. -/
example : Exec (Cfg.seqs [.alloc 0, .ifnull 0 (.ret (.err 110)) .skip, .atom [.use 0], .atom [.close 0], .ret .ok])
    St.init [.allocOk 0, .use 0, .close 0] ((((St.init.apply (.allocOk 0)).apply (.use 0))).apply (.close 0)) (.ret .ok) := by
  have h1 : Exec (Cfg.alloc 0) St.init [.allocOk 0] (St.init.apply (.allocOk 0)) .norm := Exec.atom (by simp)
  have h2 : Exec (.ifnull 0 (.ret (.err 110)) .skip) (St.init.apply (.allocOk 0)) [] (St.init.apply (.allocOk 0)) .norm :=
    Exec.ifnullF (by decide) Exec.skip
  have h3 : Exec (.atom [.use 0]) (St.init.apply (.allocOk 0)) [.use 0] ((St.init.apply (.allocOk 0)).apply (.use 0)) .norm :=
    Exec.atom (by simp)
  have h4 := @Exec.atom ((St.init.apply (.allocOk 0)).apply (.use 0)) [.close 0] (.close 0) (by simp)
  have h5 := @Exec.ret (((St.init.apply (.allocOk 0)).apply (.use 0)).apply (.close 0)) .ok
  exact Exec.seqN h1 (Exec.seqN h2 (Exec.seqN h3 (Exec.seqN h4 h5)))
example : allPathsClose (Cfg.seqs [.alloc 0, .ifnull 0 (.ret (.err 110)) .skip, .atom [.use 0], .atom [.close 0], .ret .ok]) = true := by decide
example : allPathsClose (Cfg.seqs [.alloc 0, .ifnull 0 (.ret (.err 110)) .skip, .ite 0 (.ret (.err 109)) .skip, .atom [.close 0], .ret .ok]) = false := by decide
example : allPathsClose (Cfg.seqs [.alloc 0, .ifnull 0 (.ret (.err 110)) .skip, .atom [.free 0], .ret .ok]) = false := by decide
/-- raw block (memAlloc): wipe then free on every exit / one exit frees without the wipe / wipe only -/
example : allPathsClose (Cfg.seqs [.atom [.rawOk 0, .rawFail 0], .ifnull 0 (.ret (.err 110)) .skip,
    .ite 0 (Cfg.seqs [.atom [.wipe 0], .atom [.free 0], .ret (.err 521)]) .skip, .atom [.wipe 0], .atom [.free 0], .ret .ok]) = true := by decide
example : allPathsClose (Cfg.seqs [.atom [.rawOk 0, .rawFail 0], .ifnull 0 (.ret (.err 110)) .skip,
    .ite 0 (Cfg.seqs [.atom [.free 0], .ret .code]) .skip, .atom [.wipe 0], .atom [.free 0], .ret .ok]) = false := by decide
example : allPathsClose (Cfg.seqs [.atom [.rawOk 0, .rawFail 0], .ifnull 0 (.ret (.err 110)) .skip, .atom [.wipe 0], .ret .ok]) = false := by decide

/-- `memWipe` overwrites: inside `[p, p+n)` the memory after the wipe does not depend on the
memory before it (for every start value of the hidden counter). -/
theorem memWipe_overwrites (m m' : Mem) (p n ctr a : Nat) (h1 : p ≤ a) (h2 : a < p + n) :
    memWipe m p n ctr a = memWipe m' p n ctr a :=
  wipeLoop_inside n p ctr m m' a h1 h2

/-- … and writes nothing outside the range. -/
theorem memWipe_frame (m : Mem) (p n ctr a : Nat) (h : a < p ∨ p + n ≤ a) :
    memWipe m p n ctr a = m a :=
  wipeLoop_outside n p ctr m a h

example : memWipe (fun _ => 0xAA) 16 4 0 17 = 18 := by decide   -- second octet: 0 + 17 + (17 % 16)

/-- What `blobClose` hands to the allocator is a function of the address, the recorded size and
the wipe counter only: two heaps that differ arbitrarily in the contents of the blob (but agree
on its size header) release identical blocks. -/
theorem blobClose_releases_wiped (P : Nat) (h h' : Heap) (blob ctr : Nat) (hb : blob ≠ 0)
    (hsz : readLE h.mem (blob - 8) 8 = readLE h'.mem (blob - 8) 8) :
    (blobClose P h blob ctr).released.head? = (blobClose P h' blob ctr).released.head? := by
  simp only [blobClose, hb, if_false, hsz, List.head?_cons, Option.some.injEq, Prod.mk.injEq, true_and]
  apply snapshot_congr
  intro a h1 h2
  exact wipeLoop_inside _ _ _ _ _ a h1 h2

/-- The released (wiped) block is the whole allocation: its length is `blobActualSize(size)`,
which covers the 8-octet header and the `size` octets of the blob. -/
theorem blobClose_covers_allocation (P : Nat) (hP : 0 < P) (h : Heap) (blob ctr : Nat) (hb : blob ≠ 0) :
    ∃ blk, (blobClose P h blob ctr).released.head? = some (blob - 8, blk) ∧
      blk.length = actualSize P (readLE h.mem (blob - 8) 8) ∧
      readLE h.mem (blob - 8) 8 + 8 ≤ blk.length := by
  refine ⟨snapshot (memWipe h.mem (blob - 8) (actualSize P (readLE h.mem (blob - 8) 8)) ctr) (blob - 8)
      (actualSize P (readLE h.mem (blob - 8) 8)),
    by simp only [blobClose, hb, if_false, List.head?_cons], snapshot_length _ _ _, ?_⟩
  rw [snapshot_length]
  simp only [actualSize]
  generalize readLE h.mem (blob - 8) 8 = sz
  have h1 := Nat.div_add_mod (sz + 8 + P - 1) P
  have h2 := Nat.mod_lt (sz + 8 + P - 1) hP
  rw [Nat.mul_comm] at h1
  omega

/-- Hazard recorded by the model: when `blobResize` has to move the block, the old block is
released with its contents intact (every octet of the snapshot is the old memory). -/
theorem blobResize_releases_unwiped (P : Nat) (h : Heap) (blob size q i : Nat)
    (hi : i < actualSize P (readLE h.mem (blob - 8) 8)) :
    ∃ blk, (blobResizeMove P h blob size q).released.head? = some (blob - 8, blk) ∧
      blk[i]? = some (h.mem (blob - 8 + i)) :=
  ⟨_, rfl, snapshot_get _ _ _ i hi⟩

end Bee2V.C15

/-
Model of blob.c (blobCreate / blobClose / blobResize) and of mem.c memWipe over a byte memory
with a log of the blocks handed to the deallocator (snapshot taken at the moment of release —
the same observation harness/c15.c makes with --wrap=free / --wrap=realloc).
No Mathlib: the driver imports this file.
-/
namespace Bee2V.C15.Blob

abbrev Mem := Nat → UInt8

def upd (m : Mem) (a : Nat) (x : UInt8) : Mem := fun b => if b = a then x else m b

/-- the loop of `memWipe`:  `while (i--) *(p++) = (octet)ctr, ctr += 17 + ((size_t)p & 15);` -/
def wipeLoop : Nat → Nat → Nat → Mem → Mem × Nat
  | _, 0, ctr, m => (m, ctr)
  | p, n + 1, ctr, m => wipeLoop (p + 1) n (ctr + 17 + (p + 1) % 16) (upd m p (UInt8.ofNat ctr))

/-- `memWipe(buf, count)` with the static counter `wipe_ctr` as an explicit input; the final
`memchr`-dependent update of the counter does not touch memory and is left out. -/
def memWipe (m : Mem) (p n ctr : Nat) : Mem := (wipeLoop p n ctr m).1

def readLE (m : Mem) (a : Nat) : Nat → Nat
  | 0 => 0
  | k + 1 => (m a).toNat + 256 * readLE m (a + 1) k

def snapshot (m : Mem) (a : Nat) : Nat → List UInt8
  | 0 => []
  | k + 1 => m a :: snapshot m (a + 1) k

/-- `blobActualSize(size)` for page size `P` (1024, or 1 under BEE2_VERIF), header = 8 octets -/
def actualSize (P size : Nat) : Nat := (size + 8 + P - 1) / P * P

structure Heap where
  mem : Mem
  released : List (Nat × List UInt8) := []   -- (address, contents when released), newest first

/-- `blobClose(blob)`: wipe `[ptr, ptr + actualSize)` — size header included — then memFree(ptr). -/
def blobClose (P : Nat) (h : Heap) (blob ctr : Nat) : Heap :=
  if blob = 0 then h else
    let ptr := blob - 8
    let n := actualSize P (readLE h.mem ptr 8)
    let m' := memWipe h.mem ptr n ctr
    { mem := m', released := (ptr, snapshot m' ptr n) :: h.released }

/-- `blobResize(blob, size)` in the case where the block has to move (realloc returns a new
block `q`, copies min(old,new) octets and releases the old block as it is).  blob.c does not
wipe anything before calling realloc. -/
def blobResizeMove (P : Nat) (h : Heap) (blob size q : Nat) : Heap :=
  let ptr := blob - 8
  let old := actualSize P (readLE h.mem ptr 8)
  let keep := min old (actualSize P size)
  { mem := fun a => if q ≤ a ∧ a < q + keep then h.mem (ptr + (a - q)) else h.mem a,
    released := (ptr, snapshot h.mem ptr old) :: h.released }

/-- first differences of a released block: for a block written by memWipe they depend only on
the address modulo 16 (`17 + ((p + i + 1) & 15)`), not on the hidden counter -/
def deltas : List UInt8 → List UInt8
  | a :: b :: rest => (b - a) :: deltas (b :: rest)
  | _ => []

end Bee2V.C15.Blob

/-
Soundness of the reachability analysis of `Bee2V.C15.Cfg` w.r.t. the path semantics `Exec`,
and the meaning of the monitor state in terms of the event trace alone.
-/
import Bee2V.C15.Cfg
namespace Bee2V.C15

/-! ### finite sets as lists -/

theorem mem_uni {a b : List St} {x : St} : x ∈ uni a b ↔ x ∈ a ∨ x ∈ b := by
  induction a with
  | nil => simp [uni]
  | cons y a ih =>
    have : uni (y :: a) b = (if y ∈ uni a b then uni a b else y :: uni a b) := rfl
    rw [this]
    by_cases h : y ∈ uni a b
    · simp only [h, if_true, List.mem_cons]
      constructor
      · intro hx; rcases ih.mp hx with h1 | h1 <;> simp [h1]
      · rintro ((rfl | h1) | h1)
        · exact h
        · exact ih.mpr (Or.inl h1)
        · exact ih.mpr (Or.inr h1)
    · simp only [h, if_false, List.mem_cons, ih]
      constructor
      · rintro (rfl | h1 | h1) <;> simp [*]
      · rintro ((rfl | h1) | h1) <;> simp [*]

theorem mem_uniR {a b : List (St × CS)} {x : St × CS} : x ∈ uniR a b ↔ x ∈ a ∨ x ∈ b := by
  induction a with
  | nil => simp [uniR]
  | cons y a ih =>
    have : uniR (y :: a) b = (if y ∈ uniR a b then uniR a b else y :: uniR a b) := rfl
    rw [this]
    by_cases h : y ∈ uniR a b
    · simp only [h, if_true, List.mem_cons]
      constructor
      · intro hx; rcases ih.mp hx with h1 | h1 <;> simp [h1]
      · rintro ((rfl | h1) | h1)
        · exact h
        · exact ih.mpr (Or.inl h1)
        · exact ih.mpr (Or.inr h1)
    · simp only [h, if_false, List.mem_cons, ih]
      constructor
      · rintro (rfl | h1 | h1) <;> simp [*]
      · rintro ((rfl | h1) | h1) <;> simp [*]

theorem subset_sound {a b : List St} (h : subset a b = true) : ∀ x ∈ a, x ∈ b := by
  intro x hx
  have := List.all_eq_true.mp h x hx
  simpa using this

/-- outcome `o` in state `s` is covered by the analysis result -/
def Res.has (r : Res) (s : St) : Out → Prop
  | .norm => s ∈ r.norm
  | .brk => s ∈ r.brk
  | .cont => s ∈ r.cont
  | .ret c => (s, c) ∈ r.rets

theorem iter_spec (f : List St → Res) : ∀ (n : Nat) (S F : List St), iter f n S = some F →
    (∀ x ∈ S, x ∈ F) ∧ subset (uni (f F).norm (f F).cont) F = true ∧ ∀ m, iter f m F = some F := by
  intro n
  induction n with
  | zero =>
    intro S F h
    unfold iter at h
    split at h
    · rename_i hs
      cases h
      refine ⟨fun _ hx => hx, hs, ?_⟩
      intro m; cases m <;> simp [iter, hs]
    · cases h
  | succ n ih =>
    intro S F h
    unfold iter at h
    split at h
    · rename_i hs
      cases h
      refine ⟨fun _ hx => hx, hs, ?_⟩
      intro m; cases m <;> simp [iter, hs]
    · obtain ⟨h1, h2, h3⟩ := ih _ F h
      exact ⟨fun x hx => h1 x (mem_uni.mpr (Or.inr hx)), h2, h3⟩

theorem reach_loop_eq (b : Cfg) (S F : List St) (h : iter (reach b) loopFuel S = some F) :
    reach (.loop b) S = reach (.loop b) F := by
  have h3 := (iter_spec (reach b) loopFuel S F h).2.2 loopFuel
  simp only [reach, h, h3]

/-- **Soundness of `reach`.**  Every execution from a state of `S` ends in an outcome that
the analysis of `S` lists (provided the analysis did not run out of fuel). -/
theorem reach_sound {c : Cfg} {s s' : St} {tr : List Ev} {o : Out} (hx : Exec c s tr s' o) :
    ∀ S, (reach c S).ok = true → s ∈ S → (reach c S).has s' o := by
  induction hx with
  | skip => intro S _ hs; simpa [reach, Res.has] using hs
  | brk => intro S _ hs; simpa [reach, Res.has] using hs
  | cont => intro S _ hs; simpa [reach, Res.has] using hs
  | @ret s r =>
    intro S _ hs
    simp only [reach, Res.has]
    exact mem_uniR.mpr (Or.inl (List.mem_map.mpr ⟨s, hs, rfl⟩))
  | @atom s es e he =>
    intro S _ hs
    simp only [reach, Res.has]
    exact mem_uni.mpr (Or.inl (List.mem_flatMap.mpr ⟨s, hs, List.mem_map.mpr ⟨e, he, rfl⟩⟩))
  | @seqN a b s t1 s1 t2 s2 o _ _ ih1 ih2 =>
    intro S hok hs
    simp only [reach, Bool.and_eq_true] at hok
    have h1 := ih1 S hok.1 hs
    have h2 := ih2 _ hok.2 h1
    cases o <;> simp only [reach, Res.has] at h2 ⊢
    · exact h2
    · exact mem_uni.mpr (Or.inr h2)
    · exact mem_uni.mpr (Or.inr h2)
    · exact mem_uniR.mpr (Or.inr h2)
  | @seqX a b s t1 s1 o _ hne ih =>
    intro S hok hs
    simp only [reach, Bool.and_eq_true] at hok
    have h1 := ih S hok.1 hs
    cases o <;> simp only [reach, Res.has] at h1 ⊢
    · exact absurd rfl hne
    · exact mem_uni.mpr (Or.inl h1)
    · exact mem_uni.mpr (Or.inl h1)
    · exact mem_uniR.mpr (Or.inl h1)
  | @iteT c t e s tr s' o _ ih =>
    intro S hok hs
    simp only [reach, Bool.and_eq_true] at hok
    have h1 := ih S hok.1 hs
    cases o <;> simp only [reach, Res.has] at h1 ⊢
    · exact mem_uni.mpr (Or.inl h1)
    · exact mem_uni.mpr (Or.inl h1)
    · exact mem_uni.mpr (Or.inl h1)
    · exact mem_uniR.mpr (Or.inl h1)
  | @iteF c t e s tr s' o _ ih =>
    intro S hok hs
    simp only [reach, Bool.and_eq_true] at hok
    have h1 := ih S hok.2 hs
    cases o <;> simp only [reach, Res.has] at h1 ⊢
    · exact mem_uni.mpr (Or.inr h1)
    · exact mem_uni.mpr (Or.inr h1)
    · exact mem_uni.mpr (Or.inr h1)
    · exact mem_uniR.mpr (Or.inr h1)
  | @ifnullT v t e s tr s' o hl _ ih =>
    intro S hok hs
    simp only [reach, Bool.and_eq_true] at hok
    have hm : s ∈ S.filter (fun s => !(s.st v).nonNull) := by
      simp [List.mem_filter, hs, hl]
    have h1 := ih _ hok.1 hm
    cases o <;> simp only [reach, Res.has] at h1 ⊢
    · exact mem_uni.mpr (Or.inl h1)
    · exact mem_uni.mpr (Or.inl h1)
    · exact mem_uni.mpr (Or.inl h1)
    · exact mem_uniR.mpr (Or.inl h1)
  | @ifnullF v t e s tr s' o hn _ ih =>
    intro S hok hs
    simp only [reach, Bool.and_eq_true] at hok
    have hm : s ∈ S.filter (fun s => s.st v != .null) := by
      simp [List.mem_filter, hs, hn]
    have h1 := ih _ hok.2 hm
    cases o <;> simp only [reach, Res.has] at h1 ⊢
    · exact mem_uni.mpr (Or.inr h1)
    · exact mem_uni.mpr (Or.inr h1)
    · exact mem_uni.mpr (Or.inr h1)
    · exact mem_uniR.mpr (Or.inr h1)
  | @ifcodeT t e s tr s' o hc _ ih =>
    intro S hok hs
    simp only [reach, Bool.and_eq_true] at hok
    have hm : s.apply (.test .bad) ∈
        uni ((S.filter fun s => s.code != .ok).map fun s => s.apply (.test .bad)) [] := by
      refine mem_uni.mpr (Or.inl (List.mem_map.mpr ⟨s, ?_, rfl⟩))
      simp [List.mem_filter, hs, hc]
    have h1 := ih _ hok.1 hm
    cases o <;> simp only [reach, Res.has] at h1 ⊢
    · exact mem_uni.mpr (Or.inl h1)
    · exact mem_uni.mpr (Or.inl h1)
    · exact mem_uni.mpr (Or.inl h1)
    · exact mem_uniR.mpr (Or.inl h1)
  | @ifcodeF t e s tr s' o hc _ ih =>
    intro S hok hs
    simp only [reach, Bool.and_eq_true] at hok
    have hm : s.apply (.test .ok) ∈
        uni ((S.filter fun s => s.code != .bad).map fun s => s.apply (.test .ok)) [] := by
      refine mem_uni.mpr (Or.inl (List.mem_map.mpr ⟨s, ?_, rfl⟩))
      simp [List.mem_filter, hs, hc]
    have h1 := ih _ hok.2 hm
    cases o <;> simp only [reach, Res.has] at h1 ⊢
    · exact mem_uni.mpr (Or.inr h1)
    · exact mem_uni.mpr (Or.inr h1)
    · exact mem_uni.mpr (Or.inr h1)
    · exact mem_uniR.mpr (Or.inr h1)
  | @loopStop b s =>
    intro S hok hs
    cases hit : iter (reach b) loopFuel S with
    | none => simp [reach, hit] at hok
    | some F =>
      have hsp := iter_spec (reach b) loopFuel S F hit
      simp only [reach, hit, Res.has]
      exact mem_uni.mpr (Or.inl (hsp.1 s hs))
  | @loopStep b s t1 s1 o1 t2 s2 o _ ho1 _ ih1 ih2 =>
    intro S hok hs
    cases hit : iter (reach b) loopFuel S with
    | none => simp [reach, hit] at hok
    | some F =>
      have hsp := iter_spec (reach b) loopFuel S F hit
      have heq := reach_loop_eq b S F hit
      have hokF : (reach b F).ok = true := by simpa [reach, hit] using hok
      have h1 := ih1 F hokF (hsp.1 s hs)
      have hs1 : s1 ∈ F := by
        apply subset_sound hsp.2.1
        rcases ho1 with rfl | rfl
        · exact mem_uni.mpr (Or.inl h1)
        · exact mem_uni.mpr (Or.inr h1)
      rw [heq]
      exact ih2 F (heq ▸ hok) hs1
  | @loopBrk b s t1 s1 _ ih =>
    intro S hok hs
    cases hit : iter (reach b) loopFuel S with
    | none => simp [reach, hit] at hok
    | some F =>
      have hsp := iter_spec (reach b) loopFuel S F hit
      have hokF : (reach b F).ok = true := by simpa [reach, hit] using hok
      have h1 := ih F hokF (hsp.1 s hs)
      simp only [reach, hit, Res.has] at h1 ⊢
      exact mem_uni.mpr (Or.inr h1)
  | @loopRet b s t1 s1 r _ ih =>
    intro S hok hs
    cases hit : iter (reach b) loopFuel S with
    | none => simp [reach, hit] at hok
    | some F =>
      have hsp := iter_spec (reach b) loopFuel S F hit
      have hokF : (reach b F).ok = true := by simpa [reach, hit] using hok
      have h1 := ih F hokF (hsp.1 s hs)
      simp only [reach, hit, Res.has] at h1 ⊢
      exact h1
  | @blk b s tr s' o _ ih =>
    intro S hok hs
    have hokb : (reach b S).ok = true := by simpa [reach] using hok
    have h1 := ih S hokb hs
    cases o <;> simp only [reach, Res.has] at h1 ⊢
    · exact mem_uni.mpr (Or.inl h1)
    · exact h1
    · simp only [if_true]; exact mem_uni.mpr (Or.inr h1)
    · exact h1

/-- the monitor state at the end of an execution is the fold of `apply` over its trace -/
theorem exec_fold {c : Cfg} {s s' : St} {tr : List Ev} {o : Out} (hx : Exec c s tr s' o) :
    s' = tr.foldl St.apply s := by
  induction hx with
  | skip | brk | cont | ret => rfl
  | atom _ => rfl
  | seqN _ _ ih1 ih2 => rw [List.foldl_append, ← ih1, ← ih2]
  | seqX _ _ ih => exact ih
  | iteT _ ih | iteF _ ih => exact ih
  | ifnullT _ _ ih => exact ih
  | ifnullF _ _ ih => exact ih
  | ifcodeT _ _ ih | ifcodeF _ _ ih => simpa [List.foldl_cons] using ih
  | loopStop => rfl
  | loopStep _ _ _ ih1 ih2 => rw [List.foldl_append, ← ih1, ← ih2]
  | loopBrk _ ih | loopRet _ ih => exact ih
  | blk _ ih => exact ih

end Bee2V.C15

import Bee2V.Gen.Pwd
import Bee2V.Base.Proto
namespace Bee2V.C20.Drv
open Bee2V.Gen.Pwd Bee2V.Proto

/-- `pwd <pin> <auth> <event>`  ->  `<ret> <pin'> <auth'>` -/
def handle : List String → String
  | [p, a, e] =>
    match parseNat p, parseNat a, parseNat e with
    | some p, some a, some e =>
      let r := step ⟨p, a⟩ e
      s!"{if r.1 then 1 else 0} {r.2.pin} {r.2.auth}"
    | _, _, _ => "bad-op"
  | _ => "bad-op"

end Bee2V.C20.Drv

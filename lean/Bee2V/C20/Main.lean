import Bee2V.C20.Drv
/-- driver executable of area C20 (`drv_c20`) -/
def main : IO Unit := Bee2V.Proto.runLoop fun
  | "pwd" :: args => Bee2V.C20.Drv.handle args
  | _ => "bad-op"

/-
C20 — PIN/CAN/PUK automaton.  Property theorems only.

The model `Bee2V.Gen.Pwd.step` is REGENERATED from
src/crypto/btok/btok_pwd.c:btokPwdTransition on every run (xlate/x_pwd.py), so
everything below is re-checked by the kernel against what the code says now.
All rules are stated over *all finite event lists* (events are arbitrary
naturals; values that are not events are rejected by the code and the model).
-/
import Bee2V.Gen.Pwd

namespace Bee2V.C20
open Bee2V.Gen.Pwd

set_option synthInstance.maxSize 1024

/-! ### Runs -/

def accepted (s : St) (e : Nat) : Bool := (step s e).1
def next (s : St) (e : Nat) : St := (step s e).2

def run (s : St) : List Nat → St
  | [] => s
  | e :: es => run (next s e) es

/-- enum-valid state -/
abbrev Valid (s : St) : Prop := s.pin < pinCount ∧ s.auth < authCount
/-- start of a session: any persistent PIN state, no authentication -/
abbrev Init (s : St) : Prop := Valid s ∧ s.auth = c_auth_none
/-- reachability invariant: PIN authentication is only held in `pin3` -/
abbrev Inv (s : St) : Prop := s.auth = c_auth_pin → s.pin = c_pin3


theorem step_not_event (s : St) (e : Nat) (h : eventCount ≤ e) : step s e = (false, s) := by
  unfold eventCount at h
  have h0 : e ≠ 0 := by omega
  have h1 : e ≠ 1 := by omega
  have h2 : e ≠ 2 := by omega
  have h3 : e ≠ 3 := by omega
  have h4 : e ≠ 4 := by omega
  have h5 : e ≠ 5 := by omega
  have h6 : e ≠ 6 := by omega
  have h7 : e ≠ 7 := by omega
  have h8 : e ≠ 8 := by omega
  simp [step, h0, h1, h2, h3, h4, h5, h6, h7, h8]

/-- lifts a fact checked on the whole finite table to all valid states and all naturals as events -/
theorem table_lift (P : St → Nat → Prop)
    (htab : ∀ p < pinCount, ∀ a < authCount, ∀ e < eventCount, P ⟨p, a⟩ e)
    (hbad : ∀ s e, eventCount ≤ e → P s e) :
    ∀ s, Valid s → ∀ e, P s e := by
  intro s hv e
  by_cases he : e < eventCount
  · exact htab s.pin hv.1 s.auth hv.2 e he
  · exact hbad s e (by omega)

/-! ### Rule 6: rejected events leave the state unchanged -/

theorem reject_unchanged_tab : ∀ p < pinCount, ∀ a < authCount, ∀ e < eventCount,
    accepted ⟨p, a⟩ e = false → next ⟨p, a⟩ e = ⟨p, a⟩ := by decide

theorem reject_unchanged (s : St) (hv : Valid s) (e : Nat) :
    accepted s e = false → next s e = s :=
  table_lift (fun s e => accepted s e = false → next s e = s) reject_unchanged_tab
    (by intro s e h _; simp [next, step_not_event s e h]) s hv e

/-! ### Closure: valid states stay valid; the invariant is preserved -/

theorem valid_step_tab : ∀ p < pinCount, ∀ a < authCount, ∀ e < eventCount,
    Valid (next ⟨p, a⟩ e) := by decide

theorem valid_next (s : St) (hv : Valid s) (e : Nat) : Valid (next s e) := by
  by_cases he : e < eventCount
  · exact valid_step_tab s.pin hv.1 s.auth hv.2 e he
  · simpa [next, step_not_event s e (by omega)] using hv

theorem valid_run (s : St) (hv : Valid s) (es : List Nat) : Valid (run s es) := by
  induction es generalizing s with
  | nil => exact hv
  | cons e es ih => exact ih _ (valid_next s hv e)

theorem inv_step_tab : ∀ p < pinCount, ∀ a < authCount, ∀ e < eventCount,
    Inv ⟨p, a⟩ → Inv (next ⟨p, a⟩ e) := by decide

theorem inv_next (s : St) (hv : Valid s) (hi : Inv s) (e : Nat) : Inv (next s e) := by
  by_cases he : e < eventCount
  · exact inv_step_tab s.pin hv.1 s.auth hv.2 e he hi
  · simpa [next, step_not_event s e (by omega)] using hi

theorem init_inv (s : St) (h : Init s) : Inv s := by
  intro ha; have := h.2; rw [this] at ha; exact absurd ha (by decide)

theorem inv_run (s : St) (hv : Valid s) (hi : Inv s) (es : List Nat) : Inv (run s es) := by
  induction es generalizing s with
  | nil => exact hi
  | cons e es ih => exact ih _ (valid_next s hv e) (inv_next s hv hi e)

/-! ### Rule 1: at most three consecutive wrong PINs, then blocked -/

/-- PIN attempts left in a PIN state -/
def left (p : Nat) : Nat :=
  if p = c_pin3 then 3 else if p = c_pin2 then 2 else if p = c_pins ∨ p = c_pin1 then 1 else 0

/-- accepted event that may legitimately restore attempts: correct PIN, correct PUK, activation (needs PUK auth) -/
def isReset (s : St) (e : Nat) : Bool :=
  accepted s e && (e == c_pin_ok || e == c_puk_ok || e == c_pin_activate)

def badCount (s : St) : List Nat → Nat
  | [] => 0
  | e :: es => (if e = c_pin_bad ∧ accepted s e = true then 1 else 0) + badCount (next s e) es

def noReset (s : St) : List Nat → Prop
  | [] => True
  | e :: es => isReset s e = false ∧ noReset (next s e) es

instance noResetDec : (s : St) → (es : List Nat) → Decidable (noReset s es)
  | _, [] => isTrue trivial
  | s, e :: es => by
    unfold noReset
    exact @instDecidableAnd _ _ _ (noResetDec (next s e) es)

theorem strike_tab : ∀ p < pinCount, ∀ a < authCount, ∀ e < eventCount,
    isReset ⟨p, a⟩ e = false →
    (if e = c_pin_bad ∧ accepted ⟨p, a⟩ e = true then 1 else 0) + left (next ⟨p, a⟩ e).pin ≤ left p := by
  decide

theorem strike_step (s : St) (hv : Valid s) (e : Nat) (h : isReset s e = false) :
    (if e = c_pin_bad ∧ accepted s e = true then 1 else 0) + left (next s e).pin ≤ left s.pin :=
  table_lift (fun s e => isReset s e = false →
      (if e = c_pin_bad ∧ accepted s e = true then 1 else 0) + left (next s e).pin ≤ left s.pin)
    strike_tab
    (by intro s e h _; simp [next, accepted, step_not_event s e h]) s hv e h

/-- **Rule 1.** In every window of a history that contains no accepted correct-PIN /
correct-PUK / activation event, the number of accepted wrong PINs plus the attempts
still left never exceeds the attempts left at the start of the window. -/
theorem three_strikes (s : St) (hv : Valid s) (es : List Nat) (h : noReset s es) :
    badCount s es + left (run s es).pin ≤ left s.pin := by
  induction es generalizing s with
  | nil => simp [badCount, run]
  | cons e es ih =>
    have h1 := strike_step s hv e h.1
    have h2 := ih (next s e) (valid_next s hv e) h.2
    simp only [badCount, run]
    omega

theorem left_le_three (p : Nat) : left p ≤ 3 := by unfold left; split <;> (try split) <;> (try split) <;> omega

/-- never more than three accepted wrong PINs in such a window … -/
theorem three_strikes_count (s : St) (hv : Valid s) (es : List Nat) (h : noReset s es) :
    badCount s es ≤ 3 := by
  have := three_strikes s hv es h; have := left_le_three s.pin; omega

/-- … and after the third no attempts are left: -/
theorem three_strikes_blocked (s : St) (hv : Valid s) (es : List Nat) (h : noReset s es)
    (h3 : badCount s es = 3) : left (run s es).pin = 0 := by
  have := three_strikes s hv es h; have := left_le_three s.pin; omega

theorem no_attempt_tab : ∀ p < pinCount, ∀ a < authCount, left p = 0 →
    accepted ⟨p, a⟩ c_pin_bad = false ∧ accepted ⟨p, a⟩ c_pin_ok = false := by decide

/-- with no attempts left both a wrong and a correct PIN are refused (PIN blocked or deactivated) -/
theorem no_attempt_refused (s : St) (hv : Valid s) (h : left s.pin = 0) :
    accepted s c_pin_bad = false ∧ accepted s c_pin_ok = false :=
  no_attempt_tab s.pin hv.1 s.auth hv.2 h

theorem left_zero_tab : ∀ p < pinCount, left p = 0 → (p ≤ c_pin0 ∨ p = c_pind) := by decide

/-! ### Rule 2: a correct CAN is demanded between the second and the last PIN attempt -/

theorem second_bad_suspends_tab : ∀ a < authCount,
    accepted ⟨c_pin2, a⟩ c_pin_bad = true ∧ (next ⟨c_pin2, a⟩ c_pin_bad).pin = c_pins := by decide

theorem enter_pin1_tab : ∀ p < pinCount, ∀ a < authCount, ∀ e < eventCount,
    (next ⟨p, a⟩ e).pin = c_pin1 → p ≠ c_pin1 → p = c_pins ∧ e = c_can_ok := by decide

/-- the last-attempt state is entered only from the suspended state and only by a correct CAN -/
theorem enter_pin1 (s : St) (hv : Valid s) (e : Nat)
    (h : (next s e).pin = c_pin1) (hne : s.pin ≠ c_pin1) : s.pin = c_pins ∧ e = c_can_ok :=
  table_lift (fun s e => (next s e).pin = c_pin1 → s.pin ≠ c_pin1 → s.pin = c_pins ∧ e = c_can_ok)
    enter_pin1_tab
    (by intro s e h h1 h2; simp [next, step_not_event s e h] at h1; exact absurd h1 h2) s hv e h hne

def pinAttempts (s : St) : List Nat → Nat
  | [] => 0
  | e :: es => (if (e = c_pin_ok ∨ e = c_pin_bad) ∧ accepted s e = true then 1 else 0)
      + pinAttempts (next s e) es

abbrev Susp (s : St) : Prop := s.pin = c_pins ∨ s.pin = c_pind

theorem susp_tab : ∀ p < pinCount, ∀ a < authCount, ∀ e < eventCount,
    (Susp ⟨p, a⟩ ∧ e ≠ c_can_ok ∧ e ≠ c_puk_ok ∧ e ≠ c_pin_activate) →
    (Susp (next ⟨p, a⟩ e) ∧ ((e = c_pin_ok ∨ e = c_pin_bad) → accepted ⟨p, a⟩ e = false)) := by decide

/-- **Rule 2.** After the second wrong PIN (state suspended) no PIN attempt, right or wrong,
is accepted in any continuation that contains no correct CAN (nor a correct PUK / activation). -/
theorem can_demanded (s : St) (hv : Valid s) (hs : Susp s) (es : List Nat)
    (h : ∀ e ∈ es, e ≠ c_can_ok ∧ e ≠ c_puk_ok ∧ e ≠ c_pin_activate) :
    pinAttempts s es = 0 ∧ Susp (run s es) := by
  induction es generalizing s with
  | nil => exact ⟨rfl, hs⟩
  | cons e es ih =>
    have he := h e (by simp)
    have hstep : Susp (next s e) ∧ ((e = c_pin_ok ∨ e = c_pin_bad) → accepted s e = false) := by
      by_cases hlt : e < eventCount
      · exact susp_tab s.pin hv.1 s.auth hv.2 e hlt ⟨hs, he.1, he.2.1, he.2.2⟩
      · have hb := step_not_event s e (by omega)
        simp [next, accepted, hb]; exact hs
    have := ih (next s e) (valid_next s hv e) hstep.1 (fun e' he' => h e' (by simp [he']))
    refine ⟨?_, this.2⟩
    simp only [pinAttempts, this.1]
    by_cases hpa : (e = c_pin_ok ∨ e = c_pin_bad)
    · simp [hstep.2 hpa]
    · simp [hpa]

/-! ### Rule 3: unblocking only by a correct PUK; ten wrong PUKs block for ever -/

abbrev Blocked (p : Nat) : Prop := p ≤ c_pin0

theorem unblock_tab : ∀ p < pinCount, ∀ a < authCount, ∀ e < eventCount,
    Inv ⟨p, a⟩ → Blocked p → ¬ Blocked (next ⟨p, a⟩ e).pin → (e = c_puk_ok ∨ a = c_auth_puk) := by decide

/-- a blocked PIN leaves the blocked states only by a correct PUK (the event itself, or an
action performed under a PUK authentication obtained earlier in the session) -/
theorem unblock_only_by_puk (s : St) (hv : Valid s) (hi : Inv s) (e : Nat)
    (hb : Blocked s.pin) (hn : ¬ Blocked (next s e).pin) : e = c_puk_ok ∨ s.auth = c_auth_puk := by
  by_cases hlt : e < eventCount
  · exact unblock_tab s.pin hv.1 s.auth hv.2 e hlt hi hb hn
  · rw [show next s e = s by simp [next, step_not_event s e (by omega)]] at hn; exact absurd hb hn

theorem puk_bad_counts_tab : ∀ p < pinCount, ∀ a < authCount, c_puk1 ≤ p → p ≤ c_pin0 →
    accepted ⟨p, a⟩ c_puk_bad = true ∧ (next ⟨p, a⟩ c_puk_bad).pin + 1 = p := by decide

theorem ten_wrong_puks : ∀ a < authCount,
    (run ⟨c_pin0, a⟩ (List.replicate 10 c_puk_bad)).pin = c_puk0 := by decide

theorem terminated_tab : ∀ a < authCount, ∀ e < eventCount, (next ⟨c_puk0, a⟩ e).pin = c_puk0 := by decide

/-- **Rule 3 (permanence).** Once the PUK counter is exhausted no event sequence changes the PIN state. -/
theorem terminated_permanent (s : St) (hv : Valid s) (h0 : s.pin = c_puk0) (es : List Nat) :
    (run s es).pin = c_puk0 := by
  induction es generalizing s with
  | nil => exact h0
  | cons e es ih =>
    apply ih (next s e) (valid_next s hv e)
    by_cases hlt : e < eventCount
    · have := terminated_tab s.auth hv.2 e hlt
      have hs : s = ⟨c_puk0, s.auth⟩ := by cases s; simp_all
      rw [hs]; exact this
    · simp [next, step_not_event s e (by omega), h0]

/-! ### Rule 4: the deactivated state is left only by activation under PUK authentication -/

theorem deactivated_exit_tab : ∀ a < authCount, ∀ e < eventCount,
    (next ⟨c_pind, a⟩ e).pin ≠ c_pind → e = c_pin_activate ∧ a = c_auth_puk := by decide

theorem deactivated_exit (s : St) (hv : Valid s) (hd : s.pin = c_pind) (e : Nat)
    (hx : (next s e).pin ≠ c_pind) : e = c_pin_activate ∧ s.auth = c_auth_puk := by
  by_cases hlt : e < eventCount
  · have hs : s = ⟨c_pind, s.auth⟩ := by cases s; simp_all
    rw [hs] at hx; exact deactivated_exit_tab s.auth hv.2 e hlt hx
  · simp [next, step_not_event s e (by omega)] at hx; exact absurd hd hx

/-! ### Rule 5: at most the authentication of the most recent successful password -/

def isOk (e : Nat) : Bool := e == c_pin_ok || e == c_can_ok || e == c_puk_ok
def authOf (e : Nat) : Nat :=
  if e = c_pin_ok then c_auth_pin else if e = c_can_ok then c_auth_can
  else if e = c_puk_ok then c_auth_puk else c_auth_none

/-- authentication status belonging to the most recent accepted `*_ok` event (`d` if there is none) -/
def lastAuth (s : St) (d : Nat) : List Nat → Nat
  | [] => d
  | e :: es => lastAuth (next s e) (if accepted s e = true ∧ isOk e = true then authOf e else d) es

theorem auth_step_tab : ∀ p < pinCount, ∀ a < authCount, ∀ e < eventCount,
    (next ⟨p, a⟩ e).auth = c_auth_none ∨
    (next ⟨p, a⟩ e).auth = (if accepted ⟨p, a⟩ e = true ∧ isOk e = true then authOf e else a) := by decide

theorem single_auth_gen (s : St) (hv : Valid s) (d : Nat) (hd : s.auth = c_auth_none ∨ s.auth = d)
    (es : List Nat) : (run s es).auth = c_auth_none ∨ (run s es).auth = lastAuth s d es := by
  induction es generalizing s d with
  | nil => exact hd
  | cons e es ih =>
    apply ih (next s e) (valid_next s hv e)
    by_cases hlt : e < eventCount
    · rcases auth_step_tab s.pin hv.1 s.auth hv.2 e hlt with h | h
      · exact Or.inl h
      · by_cases hc : accepted s e = true ∧ isOk e = true
        · right; simpa [hc] using h
        · rw [if_neg hc] at h ⊢
          rcases hd with hd | hd
          · left; rw [h]; exact hd
          · right; rw [h]; exact hd
    · have hb := step_not_event s e (by omega)
      simpa [next, accepted, hb] using hd

/-- **Rule 5.** From a session start, after any history the automaton holds either no
authentication or exactly that of the most recent accepted successful password. -/
theorem single_auth (s : St) (hi : Init s) (es : List Nat) :
    (run s es).auth = c_auth_none ∨ (run s es).auth = lastAuth s c_auth_none es :=
  single_auth_gen s hi.1 c_auth_none (Or.inl hi.2) es

/-! ### Rule 3 (counting form): at most ten wrong PUKs, over every history -/

/-- wrong-PUK events that hit a live PUK counter (in `puk0` the event is accepted but there is nothing left to count) -/
def pukBadCount (s : St) : List Nat → Nat
  | [] => 0
  | e :: es => (if e = c_puk_bad ∧ s.pin ≠ c_puk0 then 1 else 0) + pukBadCount (next s e) es

/-- blocked, and neither PUK nor PIN authentication is held -/
abbrev BInv (s : St) : Prop := Blocked s.pin ∧ s.auth ≠ c_auth_puk ∧ s.auth ≠ c_auth_pin

theorem puk_strike_tab : ∀ p < pinCount, ∀ a < authCount, ∀ e < eventCount,
    BInv ⟨p, a⟩ → e ≠ c_puk_ok →
    BInv (next ⟨p, a⟩ e) ∧ (if e = c_puk_bad ∧ p ≠ c_puk0 then 1 else 0) + (next ⟨p, a⟩ e).pin ≤ p := by
  decide

theorem puk_strike_step (s : St) (hv : Valid s) (hb : BInv s) (e : Nat) (he : e ≠ c_puk_ok) :
    BInv (next s e) ∧ (if e = c_puk_bad ∧ s.pin ≠ c_puk0 then 1 else 0) + (next s e).pin ≤ s.pin := by
  by_cases hlt : e < eventCount
  · exact puk_strike_tab s.pin hv.1 s.auth hv.2 e hlt hb he
  · have hne : e ≠ c_puk_bad := by unfold eventCount at hlt; unfold c_puk_bad; omega
    have hs : next s e = s := by simp [next, step_not_event s e (by omega)]
    rw [hs]; exact ⟨hb, by simp [hne]⟩

/-- **Rule 3 (counting form).** From a blocked state held without PUK authentication, in every
history that contains no correct-PUK event the PIN stays blocked, and the number of wrong PUKs
counted plus the PUK attempts still left never exceeds the attempts left at the start. -/
theorem puk_strikes (s : St) (hv : Valid s) (hb : BInv s) (es : List Nat) (h : c_puk_ok ∉ es) :
    BInv (run s es) ∧ pukBadCount s es + (run s es).pin ≤ s.pin := by
  induction es generalizing s with
  | nil => exact ⟨hb, by simp [pukBadCount, run]⟩
  | cons e es ih =>
    have he : e ≠ c_puk_ok := fun hh => h (by simp [hh])
    have h1 := puk_strike_step s hv hb e he
    have h2 := ih (next s e) (valid_next s hv e) h1.1 (fun hh => h (List.mem_cons_of_mem _ hh))
    refine ⟨h2.1, ?_⟩
    simp only [pukBadCount, run]
    omega

/-- never more than ten counted wrong PUKs in such a history … -/
theorem puk_strikes_count (s : St) (hv : Valid s) (hb : BInv s) (es : List Nat) (h : c_puk_ok ∉ es) :
    pukBadCount s es ≤ 10 := by
  have h1 := (puk_strikes s hv hb es h).2
  have h2 : s.pin ≤ 10 := hb.1
  omega

/-- … and when all attempts that were left have been used the token is in `puk0`, for ever
(whatever follows, correct PUKs included): -/
theorem puk_strikes_terminated (s : St) (hv : Valid s) (hb : BInv s) (es : List Nat) (h : c_puk_ok ∉ es)
    (hc : pukBadCount s es = s.pin) (fs : List Nat) : (run (run s es) fs).pin = c_puk0 := by
  have h1 := (puk_strikes s hv hb es h).2
  exact terminated_permanent (run s es) (valid_run s hv es) (by unfold c_puk0; omega) fs

/-! ### The PIN state rises only through an accepted unlock event -/

/-- accepted event that may raise the PIN state: correct PIN, correct CAN, correct PUK, activation, deactivation -/
def isUnlock (e : Nat) : Bool :=
  e == c_pin_ok || e == c_can_ok || e == c_puk_ok || e == c_pin_activate || e == c_pin_deactivate

theorem pin_rise_tab : ∀ p < pinCount, ∀ a < authCount, ∀ e < eventCount,
    p < (next ⟨p, a⟩ e).pin → isUnlock e = true ∧ accepted ⟨p, a⟩ e = true := by decide

/-- every step that increases the PIN state is an accepted unlock event; wrong passwords,
`can_bad`, `auth_close` and non-events never do -/
theorem pin_rise_only_by_unlock (s : St) (hv : Valid s) (e : Nat) (h : s.pin < (next s e).pin) :
    isUnlock e = true ∧ accepted s e = true := by
  by_cases hlt : e < eventCount
  · exact pin_rise_tab s.pin hv.1 s.auth hv.2 e hlt h
  · rw [show next s e = s by simp [next, step_not_event s e (by omega)]] at h; omega

/-- over every history without unlock events the PIN state is non-increasing -/
theorem pin_monotone (s : St) (hv : Valid s) (es : List Nat) (h : ∀ e ∈ es, isUnlock e = false) :
    (run s es).pin ≤ s.pin := by
  induction es generalizing s with
  | nil => simp [run]
  | cons e es ih =>
    have h1 : (next s e).pin ≤ s.pin := by
      by_cases hr : s.pin < (next s e).pin
      · have := (pin_rise_only_by_unlock s hv e hr).1
        rw [h e (by simp)] at this; exact absurd this (by decide)
      · omega
    have h2 := ih (next s e) (valid_next s hv e) (fun x hx => h x (List.mem_cons_of_mem _ hx))
    simp only [run]; omega

/-! ### Non-vacuity: the hypotheses are inhabited by non-trivial histories -/

example : Init ⟨c_pin3, c_auth_none⟩ := by decide
-- three wrong PINs with the CAN in between: blocked
example : noReset ⟨c_pin3, c_auth_none⟩ [c_pin_bad, c_pin_bad, c_can_ok, c_pin_bad] := by decide
example : badCount ⟨c_pin3, c_auth_none⟩ [c_pin_bad, c_pin_bad, c_can_ok, c_pin_bad] = 3 := by decide
example : (run ⟨c_pin3, c_auth_none⟩ [c_pin_bad, c_pin_bad, c_can_ok, c_pin_bad]).pin = c_pin0 := by decide
example : Susp (run ⟨c_pin3, c_auth_none⟩ [c_pin_bad, c_pin_bad]) := by decide
example : lastAuth ⟨c_pin3, c_auth_none⟩ c_auth_none [c_pin_ok, c_can_ok, c_pin_bad] = c_auth_can := by decide
example : (run ⟨c_pin3, c_auth_none⟩ [c_pin_ok, c_can_ok, c_pin_bad]).auth = c_auth_can := by decide

-- ten wrong PUKs with CAN traffic and a session close in between: terminated, and a correct PUK no longer helps
example : BInv ⟨c_pin0, c_auth_none⟩ := by decide
example : pukBadCount ⟨c_pin0, c_auth_none⟩ (List.replicate 5 c_puk_bad ++ [c_can_ok, c_auth_close] ++ List.replicate 5 c_puk_bad) = 10 := by decide
example : (run ⟨c_pin0, c_auth_none⟩ (List.replicate 5 c_puk_bad ++ [c_can_ok, c_auth_close] ++ List.replicate 5 c_puk_bad ++ [c_puk_ok])).pin = c_puk0 := by decide
example : (run ⟨c_pin3, c_auth_none⟩ [c_pin_bad, c_can_bad, c_pin_bad, c_auth_close]).pin < c_pin3 := by decide

end Bee2V.C20

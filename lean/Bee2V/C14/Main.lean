import Bee2V.C14.Drv
import Bee2V.C14.DrvCmp32
open Bee2V.C14.Drv in
/-- driver executable of area C14 (`drv_c14`) -/
def main : IO Unit := Bee2V.Proto.runLoop fun
  | "ir" :: args => handleIr g64 false args
  | "trace" :: args => handleIr g64 true args
  | "sf" :: args => handleSf g64 args
  | "stepv" :: args => handleStepV g64 args
  | "irx" :: args => handleIr gx false args
  | "stepvx" :: args => handleStepVX args
  | "kwp" :: args => handleKwp args
  | "ir32" :: args => handleIr g32 false args
  | "trace32" :: args => handleIr g32 true args
  | "sf32" :: args => handleSf g32 args
  | "stepv32" :: args => handleStepV g32 args
  | toks => Bee2V.C14.Cmp.handle32 toks

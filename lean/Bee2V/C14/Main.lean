import Bee2V.C14.Drv
import Bee2V.C14.DrvCmp
/-- driver executable of area C14 (`drv_c14`) -/
def main : IO Unit := Bee2V.Proto.runLoop fun
  | "ir" :: args => Bee2V.C14.Drv.handleIr false args
  | "trace" :: args => Bee2V.C14.Drv.handleIr true args
  | "stepv" :: args => Bee2V.C14.Drv.handleStepV args
  | toks => Bee2V.C14.Cmp.handle toks

/-
C14 — comparison family, helper lemmas, part 11: SAFE(uNNCTZ) / SAFE(uNNCLZ).
The SWAR weight is only ever applied to words of the form "top k bits set" (w | -w, resp. the
complement of the smeared word), so it is evaluated on those n+1 words only (n = 16, 32, 64);
everything else is generic bit-level reasoning.
-/
import Bee2V.C14.LemmasCmp10
namespace Bee2V.C14.Cmp
variable {n : Nat}

/-- the top `k` bits set -/
def hiMask (n k : Nat) : BitVec n := BitVec.allOnes n <<< (n - k)

theorem hiMask_getLsbD (k i : Nat) : (hiMask n k).getLsbD i = (decide (i < n) && decide (n - k ≤ i)) := by
  unfold hiMask
  rw [BitVec.getLsbD_shiftLeft]
  by_cases h1 : i < n
  · by_cases h2 : i < n - k
    · simp [h1, h2]; omega
    · simp [h1, h2]; omega
  · simp [h1]

theorem u16Weight_hiMask : ∀ k < 17, u16Weight (hiMask 16 k) = k := by decide
theorem u32Weight_hiMask : ∀ k < 33, u32Weight (hiMask 32 k) = k := by decide
theorem u64Weight_hiMask : ∀ k < 65, u64Weight (hiMask 64 k) = k := by decide

/-- `w | -w` sets exactly the bits from the lowest set bit upwards -/
theorem or_neg_eq_hiMask (w : BitVec n) : w ||| (0 - w) = hiMask n (n - ctzSpec w) := by
  have hle : ctzSpec w ≤ n := fi_le n _
  apply BitVec.eq_of_getLsbD_eq
  intro i hi
  have e0 : (0 : BitVec n) - w = -w := by simp
  rw [e0, BitVec.getLsbD_or, BitVec.getLsbD_neg, hiMask_getLsbD]
  have hsub : n - (n - ctzSpec w) = ctzSpec w := by omega
  rw [hsub]
  by_cases hc : ctzSpec w ≤ i
  · have hb : w.getLsbD (ctzSpec w) = true := fi_bit n _ (by unfold ctzSpec firstIdx at *; omega)
    simp only [hi, decide_true, hc, Bool.and_self, Bool.true_and]
    by_cases he : ctzSpec w = i
    · rw [← he, hb]; rfl
    · have : ∃ j, j < i ∧ w.getLsbD j = true := ⟨ctzSpec w, by omega, hb⟩
      simp [this]
  · have hci : i < ctzSpec w := by omega
    have hlow : ∀ j, j ≤ i → w.getLsbD j = false := fun j hj =>
      fi_low n (fun i => w.getLsbD i) j (show j < ctzSpec w from Nat.lt_of_le_of_lt hj hci)
    have : ¬ ∃ j, j < i ∧ w.getLsbD j = true := by
      rintro ⟨j, hj, hb⟩; rw [hlow j (by omega)] at hb; cases hb
    simp [hlow i (Nat.le_refl _), this, hc]

/-- smearing invariant: bit i of x = OR of bits i .. i+d-1 of w -/
def Smear (w x : BitVec n) (d : Nat) : Prop :=
  ∀ i, x.getLsbD i = true ↔ ∃ j, i ≤ j ∧ j < i + d ∧ w.getLsbD j = true

theorem smear_init (w : BitVec n) : Smear w w 1 := by
  intro i
  constructor
  · intro h; exact ⟨i, Nat.le_refl _, by omega, h⟩
  · rintro ⟨j, h1, h2, h3⟩
    have : j = i := by omega
    subst this; exact h3

theorem smear_step (w x : BitVec n) (d : Nat) (h : Smear w x d) : Smear w (x ||| x >>> d) (2 * d) := by
  intro i
  rw [BitVec.getLsbD_or, BitVec.getLsbD_ushiftRight, Bool.or_eq_true, h i, h (d + i)]
  constructor
  · rintro (⟨j, h1, h2, h3⟩ | ⟨j, h1, h2, h3⟩)
    · exact ⟨j, h1, by omega, h3⟩
    · exact ⟨j, by omega, by omega, h3⟩
  · rintro ⟨j, h1, h2, h3⟩
    by_cases hj : j < i + d
    · exact Or.inl ⟨j, h1, hj, h3⟩
    · exact Or.inr ⟨j, by omega, by omega, h3⟩

/-- a fully smeared word, complemented, is the mask of the leading zeros -/
theorem not_smear_eq_hiMask (w x : BitVec n) (h : Smear w x n) : ~~~x = hiMask n (clzSpec w) := by
  have hle : clzSpec w ≤ n := fi_le n _
  apply BitVec.eq_of_getLsbD_eq
  intro i hi
  rw [BitVec.getLsbD_not, hiMask_getLsbD]
  simp only [hi, decide_true, Bool.true_and]
  by_cases hc : n - clzSpec w ≤ i
  · have : x.getLsbD i = false := by
      cases hb : x.getLsbD i
      · rfl
      · obtain ⟨j, h1, h2, h3⟩ := (h i).mp hb
        have hjn : j < n := by
          apply Nat.lt_of_not_le; intro hge
          rw [BitVec.getLsbD_of_ge _ _ hge] at h3; cases h3
        have := fi_low n (fun k => w.getMsbD k) (n - 1 - j) (by unfold clzSpec firstIdx at *; omega)
        simp only [BitVec.getMsbD_eq_getLsbD] at this
        rw [show n - 1 - (n - 1 - j) = j by omega, h3] at this
        simp [show n - 1 - j < n by omega] at this
    simp [this, hc]
  · have hcl : clzSpec w < n := by omega
    have hb : w.getMsbD (clzSpec w) = true :=
      fi_bit n (fun k => w.getMsbD k) (by unfold clzSpec firstIdx at *; omega)
    rw [BitVec.getMsbD_eq_getLsbD] at hb
    have hb' : w.getLsbD (n - 1 - clzSpec w) = true := by simpa [hcl] using hb
    have : x.getLsbD i = true := (h i).mpr ⟨n - 1 - clzSpec w, by omega, by omega, hb'⟩
    simp [this, hc]

theorem u16CTZ_safe_eq (w : BitVec 16) : u16CTZ_safe w = ctzSpec w := by
  have hle : ctzSpec w ≤ 16 := fi_le 16 _
  rw [u16CTZ_safe, or_neg_eq_hiMask, u16Weight_hiMask _ (by omega)]; omega

theorem u32CTZ_safe_eq (w : BitVec 32) : u32CTZ_safe w = ctzSpec w := by
  have hle : ctzSpec w ≤ 32 := fi_le 32 _
  rw [u32CTZ_safe, or_neg_eq_hiMask, u32Weight_hiMask _ (by omega)]; omega

theorem u64CTZ_safe_eq (w : BitVec 64) : u64CTZ_safe w = ctzSpec w := by
  have hle : ctzSpec w ≤ 64 := fi_le 64 _
  rw [u64CTZ_safe, or_neg_eq_hiMask, u64Weight_hiMask _ (by omega)]; omega

theorem u16CLZ_safe_eq (w : BitVec 16) : u16CLZ_safe w = clzSpec w := by
  have hle : clzSpec w ≤ 16 := fi_le 16 _
  unfold u16CLZ_safe
  simp only
  rw [not_smear_eq_hiMask w _ (smear_step w _ 8 (smear_step w _ 4 (smear_step w _ 2 (smear_step w _ 1 (smear_init w))))),
    u16Weight_hiMask _ (by omega)]

theorem u32CLZ_safe_eq (w : BitVec 32) : u32CLZ_safe w = clzSpec w := by
  have hle : clzSpec w ≤ 32 := fi_le 32 _
  unfold u32CLZ_safe
  simp only
  rw [not_smear_eq_hiMask w _ (smear_step w _ 16 (smear_step w _ 8 (smear_step w _ 4 (smear_step w _ 2
      (smear_step w _ 1 (smear_init w)))))),
    u32Weight_hiMask _ (by omega)]

theorem u64CLZ_safe_eq (w : BitVec 64) : u64CLZ_safe w = clzSpec w := by
  have hle : clzSpec w ≤ 64 := fi_le 64 _
  unfold u64CLZ_safe
  simp only
  rw [not_smear_eq_hiMask w _ (smear_step w _ 32 (smear_step w _ 16 (smear_step w _ 8 (smear_step w _ 4
      (smear_step w _ 2 (smear_step w _ 1 (smear_init w))))))),
    u64Weight_hiMask _ (by omega)]

end Bee2V.C14.Cmp

/-
C14 — comparison family, helper lemmas, part 8: SAFE(memCmp) — the big-endian packing whose
registers are never cleared (old octets are shifted out modulo 2^B_PER_W).
-/
import Bee2V.C14.LemmasCmp7
namespace Bee2V.C14.Cmp
variable (O : Nat)

/-- what SAFE(memCmp) does after its loop -/
def memCmp_finish (st : BitVec (8 * O) × BitVec (8 * O) × BitVec (8 * O) × BitVec (8 * O) × Nat) : Int :=
  let lg := if st.2.2.2.2 ≠ 0 then
      lgStep st.1 st.2.1 (st.2.2.1.ult st.2.2.2.1) (st.2.2.2.1.ult st.2.2.1)
    else (st.1, st.2.1)
  lgRet lg.1 lg.2

theorem memCmp_safe_def (a b : List Octet) :
    memCmp_safe O a b = memCmp_finish O (memCmp_safe.loop O a b 0 0 0 0 0) := rfl

/-- (X·P + T) mod (Q·P) keeps T and the low part of X -/
theorem mod_window (X P Q T : Nat) (hT : T < P) : (X * P + T) % (Q * P) = (X % Q) * P + T := by
  by_cases hQ : Q = 0
  · subst hQ; simp
  have hlt : (X % Q) * P + T < Q * P := by
    have h1 : X % Q < Q := Nat.mod_lt _ (by omega)
    have h2 : (X % Q + 1) * P ≤ Q * P := Nat.mul_le_mul_right _ h1
    rw [Nat.add_mul] at h2; omega
  have hX : X * P + T = (X % Q) * P + T + (Q * P) * (X / Q) := by
    conv => lhs; rw [← Nat.div_add_mod X Q]
    rw [Nat.add_mul]
    have : Q * (X / Q) * P = Q * P * (X / Q) := by ac_rfl
    omega
  rw [hX, Nat.add_mul_mod_self_left, Nat.mod_eq_of_lt hlt]

theorem cmp3_add_left (K x y : Nat) : cmp3 (K + x) (K + y) = cmp3 x y := by
  unfold cmp3
  by_cases h1 : x < y
  · rw [if_pos h1, if_pos (by omega)]
  · rw [if_neg h1, if_neg (by omega)]
    by_cases h2 : y < x
    · rw [if_pos h2, if_pos (by omega)]
    · rw [if_neg h2, if_neg (by omega)]

theorem shiftIn_toNat (e t : List Octet) (w1 : BitVec (8 * O)) (x : Octet)
    (hw : w1.toNat = beNat (e ++ t) % 256 ^ O) :
    (w1 <<< 8 ||| x.setWidth (8 * O)).toNat = beNat (e ++ (t ++ [x])) % 256 ^ O := by
  rw [shl8_or_toNat, hw, two_pow_8mul, mod_mul_add_mod, ← List.append_assoc, beNat_snoc]
  congr 1; ac_rfl

theorem beNat_window (e t : List Octet) (ht : t.length = O) : beNat (e ++ t) % 256 ^ O = beNat t := by
  have := beNat_lt t
  rw [beNat_append, ht, Nat.add_comm, Nat.add_mul_mod_self_right, Nat.mod_eq_of_lt (ht ▸ this)]

theorem memCmp_loop (hO : 0 < O) (r1 r2 e1 e2 t1 t2 : List Octet) (w1 w2 : BitVec (8 * O))
    (he : e1.length = e2.length) (ht : t1.length = t2.length) (hf : t1.length < O)
    (hr : r1.length = r2.length)
    (hw1 : w1.toNat = beNat (e1 ++ t1) % 256 ^ O) (hw2 : w2.toNat = beNat (e2 ++ t2) % 256 ^ O) :
    memCmp_finish O (memCmp_safe.loop O r1 r2 (enc (lexCmp e1 e2)).1 (enc (lexCmp e1 e2)).2 w1 w2 t1.length)
      = lexCmp (e1 ++ t1 ++ r1) (e2 ++ t2 ++ r2) := by
  induction r1 generalizing r2 e1 e2 t1 t2 w1 w2 with
  | nil =>
    have : r2 = [] := List.length_eq_zero_iff.mp (by simpa using hr.symm)
    subst this
    simp only [memCmp_safe.loop, memCmp_finish, List.append_nil]
    have hs := lexCmp_sign e1 e2
    rw [lexCmp_append e1 e2 t1 t2 he]
    by_cases hf0 : t1.length = 0
    · have h1 : t1 = [] := List.length_eq_zero_iff.mp hf0
      have h2 : t2 = [] := List.length_eq_zero_iff.mp (by omega)
      subst h1 h2
      simp only [List.length_nil, ne_eq, not_true_eq_false, if_false]
      rw [lgRet_enc (by omega) _ hs]
      simp [lexCmp]
    · simp only [ne_eq, hf0, not_false_eq_true, if_true]
      rw [lgStep_cmp3 _ hs, lgRet_enc (by omega) _ (by
        split
        · exact cmp3_sign _ _
        · exact hs)]
      by_cases h0 : lexCmp e1 e2 = 0
      · have hee : e1 = e2 := lexCmp_eq_zero e1 e2 he h0
        subst hee
        simp only [h0, if_true]
        have hP : 256 ^ O = 256 ^ (O - t1.length) * 256 ^ t1.length := by
          rw [← Nat.pow_add]; congr 1; omega
        rw [hw1, hw2, beNat_append, beNat_append, ← ht, hP,
          mod_window _ _ _ _ (beNat_lt t1), mod_window _ _ _ _ (ht ▸ beNat_lt t2), cmp3_add_left,
          lexCmp_eq_cmp3 t1 t2 ht]
      · simp only [h0, if_false]
  | cons x r1 ih =>
    cases r2 with
    | nil => simp at hr
    | cons y r2 =>
      have hr' : r1.length = r2.length := by simpa using hr
      rw [memCmp_safe.loop]
      simp only
      have hw1' := shiftIn_toNat O e1 t1 w1 x hw1
      have hw2' := shiftIn_toNat O e2 t2 w2 y hw2
      have hl1 : e1 ++ t1 ++ x :: r1 = (e1 ++ (t1 ++ [x])) ++ [] ++ r1 := by simp
      have hl2 : e2 ++ t2 ++ y :: r2 = (e2 ++ (t2 ++ [y])) ++ [] ++ r2 := by simp
      have hl1' : e1 ++ t1 ++ x :: r1 = e1 ++ (t1 ++ [x]) ++ r1 := by simp
      have hl2' : e2 ++ t2 ++ y :: r2 = e2 ++ (t2 ++ [y]) ++ r2 := by simp
      by_cases hfull : t1.length + 1 = O
      · rw [if_pos hfull, lgStep_cmp3 _ (lexCmp_sign e1 e2)]
        have ht1 : (t1 ++ [x]).length = O := by simpa using hfull
        have ht2 : (t2 ++ [y]).length = O := by simp; omega
        have hs : (if lexCmp e1 e2 = 0 then
              cmp3 (w1 <<< 8 ||| BitVec.setWidth (8 * O) x).toNat (w2 <<< 8 ||| BitVec.setWidth (8 * O) y).toNat
            else lexCmp e1 e2) = lexCmp (e1 ++ (t1 ++ [x])) (e2 ++ (t2 ++ [y])) := by
          rw [lexCmp_append _ _ _ _ he, hw1', hw2', beNat_window O _ _ ht1, beNat_window O _ _ ht2,
            lexCmp_eq_cmp3 (t1 ++ [x]) (t2 ++ [y]) (by rw [ht1, ht2])]
        rw [hs, hl1, hl2]
        exact ih r2 (e1 ++ (t1 ++ [x])) (e2 ++ (t2 ++ [y])) [] [] _ _ (by simp; omega) rfl hO hr'
          (by simpa using hw1') (by simpa using hw2')
      · rw [if_neg hfull, hl1', hl2']
        have := ih r2 e1 e2 (t1 ++ [x]) (t2 ++ [y]) _ _ he (by simp; omega) (by simp; omega) hr' hw1' hw2'
        simpa using this

theorem memCmp_safe_eq (hO : 0 < O) (a b : List Octet) (h : a.length = b.length) :
    memCmp_safe O a b = lexCmp a b := by
  rw [memCmp_safe_def]
  have := memCmp_loop O hO a b [] [] [] [] 0 0 rfl rfl hO h (by simp [beNat, leNat]) (by simp [beNat, leNat])
  simpa [lexCmp, enc_zero] using this

end Bee2V.C14.Cmp

/-
C14 — comparison family, helper lemmas, part 10: first-set-bit index, the dichotomy steps of
FAST(uNNCTZ) / FAST(uNNCLZ) (generic in the width and in the direction).
-/
import Bee2V.C14.LemmasCmp9
namespace Bee2V.C14.Cmp

/-- index of the first `true` of `f` below `n` (`n` if none) -/
def firstIdx (n : Nat) (f : Nat → Bool) : Nat := (List.range n).findIdx f

theorem fi_le (n : Nat) (f : Nat → Bool) : firstIdx n f ≤ n := by
  have := @List.findIdx_le_length _ f (List.range n)
  simpa [firstIdx] using this

theorem fi_low (n : Nat) (f : Nat → Bool) (j : Nat) (h : j < firstIdx n f) : f j = false := by
  have hj : j < n := Nat.lt_of_lt_of_le h (fi_le n f)
  have := @List.not_of_lt_findIdx _ f (List.range n) j h
  simpa using this

theorem fi_bit (n : Nat) (f : Nat → Bool) (h : firstIdx n f < n) : f (firstIdx n f) = true := by
  have := @List.findIdx_getElem _ f (List.range n) (by simpa [firstIdx] using h)
  simpa [firstIdx] using this

theorem fi_unique (n : Nat) (f : Nat → Bool) (k : Nat) (hk : k ≤ n) (hlow : ∀ j < k, f j = false)
    (hbit : k < n → f k = true) : firstIdx n f = k := by
  rcases Nat.lt_trichotomy (firstIdx n f) k with h | h | h
  · have h1 := fi_bit n f (by omega)
    rw [hlow _ h] at h1; cases h1
  · exact h
  · have h1 := fi_low n f k h
    have := fi_le n f
    rw [hbit (by omega)] at h1; cases h1

theorem fi_eq_n_iff (n : Nat) (f : Nat → Bool) : firstIdx n f = n ↔ ∀ i < n, f i = false := by
  constructor
  · intro h i hi; exact fi_low n f i (by omega)
  · intro h; exact fi_unique n f n (Nat.le_refl _) h (fun h => absurd h (Nat.lt_irrefl _))

/-- the bit reader after shifting by `s` towards higher indices -/
def shiftF (n s : Nat) (f : Nat → Bool) : Nat → Bool :=
  fun i => decide (i < n) && (!decide (i < s) && f (i - s))

theorem fi_shift (n s : Nat) (f : Nat → Bool) (h : ∃ i, i < n ∧ shiftF n s f i = true) :
    firstIdx n (shiftF n s f) = firstIdx n f + s := by
  obtain ⟨i, hi, hb⟩ := h
  simp only [shiftF, Bool.and_eq_true, decide_eq_true_eq, Bool.not_eq_true', decide_eq_false_iff_not] at hb
  have hc : firstIdx n f ≤ i - s := by
    apply Nat.le_of_not_lt
    intro hlt
    have := fi_low n f _ hlt
    rw [hb.2.2] at this; cases this
  apply fi_unique
  · omega
  · intro j hj
    simp only [shiftF]
    by_cases h1 : j < s
    · simp [h1]
    · have := fi_low n f (j - s) (by omega)
      simp [this]
  · intro hk
    have := fi_bit n f (by omega)
    simp only [shiftF, Nat.add_sub_cancel, this, Bool.and_true, Bool.and_eq_true, decide_eq_true_eq,
      Bool.not_eq_true', decide_eq_false_iff_not]
    omega

theorem fi_shift_none (n s : Nat) (f : Nat → Bool) (h : ∀ i, i < n → shiftF n s f i = false) :
    n - s ≤ firstIdx n f := by
  apply Nat.le_of_not_lt
  intro hlt
  have hb := fi_bit n f (by omega)
  have := h (firstIdx n f + s) (by omega)
  simp only [shiftF, Nat.add_sub_cancel, hb, Bool.and_true, Bool.and_eq_false_iff, decide_eq_false_iff_not,
    Bool.not_eq_false', decide_eq_true_eq] at this
  omega

/-- one dichotomy step on an abstract state: `c0 + (n - l) = c` is preserved, the bound improves -/
theorem step_generic (n s c0 l c c' : Nat) (hl : l ≤ n) (hinv : c0 + (n - l) = c) (hb : n - 2 * s ≤ c)
    (hc' : c' = c + s) (hlt : c' < n) :
    l - s ≤ n ∧ c0 + (n - (l - s)) = c' ∧ n - s ≤ c' := by omega

variable {n : Nat}

/-- a direction: a bit reader `r` and a shift `sh` that moves bits to higher reader indices -/
structure Dir (n : Nat) where
  r : BitVec n → Nat → Bool
  sh : BitVec n → Nat → BitVec n
  r_sh : ∀ x s i, r (sh x s) i = shiftF n s (r x) i
  zero_iff : ∀ x, x = 0 ↔ ∀ i, i < n → r x i = false

def Dir.idx (d : Dir n) (x : BitVec n) : Nat := firstIdx n (d.r x)

def dStep (d : Dir n) (s : Nat) (lw : Nat × BitVec n) : Nat × BitVec n :=
  let t := d.sh lw.2 s
  if t ≠ 0 then (lw.1 - s, t) else lw

def dRet (d : Dir n) (lw : Nat × BitVec n) : Nat :=
  if d.sh lw.2 1 ≠ 0 then lw.1 - 2 else lw.1 - (if lw.2 ≠ 0 then 1 else 0)

def DInv (d : Dir n) (x0 : BitVec n) (b : Nat) (st : Nat × BitVec n) : Prop :=
  st.1 ≤ n ∧ d.idx x0 + (n - st.1) = d.idx st.2 ∧ n - b ≤ d.idx st.2

theorem Dir.ne_zero_iff (d : Dir n) (x : BitVec n) : x ≠ 0 ↔ ∃ i, i < n ∧ d.r x i = true := by
  rw [Ne, d.zero_iff]
  constructor
  · intro h
    apply Classical.byContradiction
    intro hne
    apply h
    intro i hi
    cases hb : d.r x i
    · rfl
    · exact absurd ⟨i, hi, hb⟩ hne
  · rintro ⟨i, hi, hb⟩ h
    rw [h i hi] at hb; cases hb

theorem Dir.idx_lt_iff (d : Dir n) (x : BitVec n) : d.idx x < n ↔ x ≠ 0 := by
  rw [d.ne_zero_iff]
  constructor
  · intro h; exact ⟨_, h, fi_bit n _ h⟩
  · rintro ⟨i, hi, hb⟩
    apply Nat.lt_of_le_of_lt _ hi
    apply Nat.le_of_not_lt
    intro hlt
    have := fi_low n _ _ hlt
    rw [hb] at this; cases this

theorem Dir.idx_sh (d : Dir n) (x : BitVec n) (s : Nat) (h : d.sh x s ≠ 0) :
    d.idx (d.sh x s) = d.idx x + s := by
  obtain ⟨i, hi, hb⟩ := (d.ne_zero_iff _).mp h
  have e : d.r (d.sh x s) = shiftF n s (d.r x) := funext (d.r_sh x s)
  unfold Dir.idx
  rw [e]
  exact fi_shift n s _ ⟨i, hi, by rw [← e]; exact hb⟩

theorem Dir.idx_sh_zero (d : Dir n) (x : BitVec n) (s : Nat) (h : d.sh x s = 0) :
    n - s ≤ d.idx x := by
  apply fi_shift_none
  intro i hi
  rw [← d.r_sh]
  exact (d.zero_iff _).mp h i hi

theorem dStep_inv (d : Dir n) (x0 : BitVec n) (s : Nat) (st : Nat × BitVec n)
    (h : DInv d x0 (2 * s) st) : DInv d x0 s (dStep d s st) := by
  obtain ⟨l, w⟩ := st
  obtain ⟨h1, h2, h3⟩ := h
  simp only at h1 h2 h3
  unfold dStep
  simp only
  by_cases ht : d.sh w s = 0
  · rw [if_neg (by simpa using ht)]
    exact ⟨h1, h2, d.idx_sh_zero w s ht⟩
  · rw [if_pos ht]
    have e := d.idx_sh w s ht
    have hlt := (d.idx_lt_iff _).mpr ht
    unfold DInv
    simp only
    omega

theorem dRet_eq (d : Dir n) (x0 : BitVec n) (hn : 2 ≤ n) (st : Nat × BitVec n)
    (h : DInv d x0 2 st) : dRet d st = d.idx x0 := by
  obtain ⟨l, w⟩ := st
  obtain ⟨h1, h2, h3⟩ := h
  simp only at h1 h2 h3
  unfold dRet
  simp only
  by_cases ht : d.sh w 1 = 0
  · rw [if_neg (by simpa using ht)]
    have hb := d.idx_sh_zero w 1 ht
    by_cases hw : w = 0
    · rw [if_neg (by simpa using hw)]
      have : ¬ d.idx w < n := fun h => (d.idx_lt_iff w).mp h hw
      have := fi_le n (d.r w)
      unfold Dir.idx at *
      omega
    · rw [if_pos hw]
      have := (d.idx_lt_iff w).mpr hw
      omega
  · rw [if_pos ht]
    have e := d.idx_sh w 1 ht
    have hlt := (d.idx_lt_iff _).mpr ht
    omega

/-- the CTZ direction: reader = LSB-first bits, shift = `<<<` -/
def ctzDir (n : Nat) : Dir n where
  r x i := x.getLsbD i
  sh x s := x <<< s
  r_sh x s i := by
    simp only [shiftF, BitVec.getLsbD_shiftLeft, Bool.and_assoc]
  zero_iff x := by
    constructor
    · rintro rfl i _; simp
    · intro h; apply BitVec.eq_of_getLsbD_eq; intro i hi; simp [h i hi]

/-- the CLZ direction: reader = MSB-first bits, shift = `>>>` -/
def clzDir (n : Nat) : Dir n where
  r x i := x.getMsbD i
  sh x s := x >>> s
  r_sh x s i := by
    simp only [shiftF, BitVec.getMsbD_ushiftRight]
  zero_iff x := by
    constructor
    · rintro rfl i _; simp
    · intro h; apply BitVec.eq_of_getLsbD_eq; intro i hi
      have := h (n - 1 - i) (by omega)
      rw [BitVec.getMsbD_eq_getLsbD] at this
      have e : n - 1 - (n - 1 - i) = i := by omega
      rw [e] at this
      simpa [show n - 1 - i < n by omega] using this

theorem ctzDir_idx (x : BitVec n) : (ctzDir n).idx x = ctzSpec x := rfl
theorem clzDir_idx (x : BitVec n) : (clzDir n).idx x = clzSpec x := rfl
theorem ctzStep_eq (s : Nat) (st : Nat × BitVec n) : ctzStep s st = dStep (ctzDir n) s st := rfl
theorem clzStep_eq (s : Nat) (st : Nat × BitVec n) : clzStep s st = dStep (clzDir n) s st := rfl
theorem ctzRet_eq (st : Nat × BitVec n) : ctzRet st = dRet (ctzDir n) st := rfl
theorem clzRet_eq (st : Nat × BitVec n) : clzRet st = dRet (clzDir n) st := rfl

theorem DInv_init (d : Dir n) (x : BitVec n) : DInv d x n (n, x) := by
  unfold DInv; simp

theorem u16CTZ_fast_eq (w : BitVec 16) : u16CTZ_fast w = ctzSpec w := by
  unfold u16CTZ_fast
  simp only [ctzStep_eq, ctzRet_eq]
  exact dRet_eq _ w (by decide) _ (dStep_inv _ w 2 _ (dStep_inv _ w 4 _ (dStep_inv _ w 8 _ (DInv_init _ w))))

theorem u32CTZ_fast_eq (w : BitVec 32) : u32CTZ_fast w = ctzSpec w := by
  unfold u32CTZ_fast
  simp only [ctzStep_eq, ctzRet_eq]
  exact dRet_eq _ w (by decide) _ (dStep_inv _ w 2 _ (dStep_inv _ w 4 _ (dStep_inv _ w 8 _
    (dStep_inv _ w 16 _ (DInv_init _ w)))))

theorem u64CTZ_fast_eq (w : BitVec 64) : u64CTZ_fast w = ctzSpec w := by
  unfold u64CTZ_fast
  simp only [ctzStep_eq, ctzRet_eq]
  exact dRet_eq _ w (by decide) _ (dStep_inv _ w 2 _ (dStep_inv _ w 4 _ (dStep_inv _ w 8 _
    (dStep_inv _ w 16 _ (dStep_inv _ w 32 _ (DInv_init _ w))))))

theorem u16CLZ_fast_eq (w : BitVec 16) : u16CLZ_fast w = clzSpec w := by
  unfold u16CLZ_fast
  simp only [clzStep_eq, clzRet_eq]
  exact dRet_eq _ w (by decide) _ (dStep_inv _ w 2 _ (dStep_inv _ w 4 _ (dStep_inv _ w 8 _ (DInv_init _ w))))

theorem u32CLZ_fast_eq (w : BitVec 32) : u32CLZ_fast w = clzSpec w := by
  unfold u32CLZ_fast
  simp only [clzStep_eq, clzRet_eq]
  exact dRet_eq _ w (by decide) _ (dStep_inv _ w 2 _ (dStep_inv _ w 4 _ (dStep_inv _ w 8 _
    (dStep_inv _ w 16 _ (DInv_init _ w)))))

theorem u64CLZ_fast_eq (w : BitVec 64) : u64CLZ_fast w = clzSpec w := by
  unfold u64CLZ_fast
  simp only [clzStep_eq, clzRet_eq]
  exact dRet_eq _ w (by decide) _ (dStep_inv _ w 2 _ (dStep_inv _ w 4 _ (dStep_inv _ w 8 _
    (dStep_inv _ w 16 _ (dStep_inv _ w 32 _ (DInv_init _ w))))))

end Bee2V.C14.Cmp

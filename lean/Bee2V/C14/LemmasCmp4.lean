/-
C14 — comparison family, helper lemmas, part 4: octet strings as numbers, the little-endian
word load, the shift-in step `w << 8 | octet`.
-/
import Bee2V.C14.LemmasCmp3
namespace Bee2V.C14.Cmp

theorem shl8_or_toNat {W : Nat} (v : BitVec W) (x : Octet) :
    (v <<< 8 ||| x.setWidth W).toNat = (v.toNat * 256 + x.toNat) % 2 ^ W := by
  have h : v <<< 8 &&& x.setWidth W = 0 := by
    ext i hi
    simp only [BitVec.getElem_and, BitVec.getElem_shiftLeft, BitVec.getElem_setWidth]
    by_cases h8 : i < 8
    · simp [h8]
    · have : x.getLsbD i = false := by
        apply BitVec.getLsbD_of_ge; omega
      simp [this]
  rw [← BitVec.add_eq_or_of_and_eq_zero _ _ h, BitVec.toNat_add, BitVec.toNat_shiftLeft,
    BitVec.toNat_setWidth, Nat.shiftLeft_eq]
  simp only [Nat.mod_add_mod, Nat.add_mod_mod]

theorem leNat_lt (l : List Octet) : leNat l < 256 ^ l.length := by
  induction l with
  | nil => simp [leNat]
  | cons x l ih =>
    simp only [leNat, List.length_cons, Nat.pow_succ]
    have := x.isLt
    omega

theorem leNat_eq_zero (l : List Octet) : leNat l = 0 ↔ ∀ x ∈ l, x = 0 := by
  induction l with
  | nil => simp [leNat]
  | cons x l ih =>
    simp only [leNat, List.mem_cons, forall_eq_or_imp, ← ih]
    constructor
    · intro h
      exact ⟨BitVec.eq_of_toNat_eq (by simp; omega), by omega⟩
    · rintro ⟨rfl, h⟩; simp [h]

theorem leNat_inj (a b : List Octet) (h : a.length = b.length) (he : leNat a = leNat b) : a = b := by
  induction a generalizing b with
  | nil => cases b with
    | nil => rfl
    | cons _ _ => simp at h
  | cons x a ih =>
    cases b with
    | nil => simp at h
    | cons y b =>
      simp only [leNat] at he
      have hx := x.isLt; have hy := y.isLt
      have h1 : x.toNat = y.toNat := by omega
      have h2 : leNat a = leNat b := by omega
      rw [BitVec.eq_of_toNat_eq h1, ih b (by simpa using h) h2]

theorem leNat_append (a b : List Octet) : leNat (a ++ b) = leNat a + 256 ^ a.length * leNat b := by
  induction a with
  | nil => simp [leNat]
  | cons x a ih =>
    simp only [List.cons_append, leNat, ih, List.length_cons, Nat.pow_succ]
    rw [Nat.mul_add, Nat.add_assoc]; congr 2; ac_rfl

theorem two_pow_8mul (O : Nat) : 2 ^ (8 * O) = 256 ^ O := by
  rw [Nat.pow_mul]

theorem loadLE_foldr_toNat (O : Nat) (l : List Octet) (h : l.length ≤ O) :
    (l.foldr (fun x (acc : BitVec (8 * O)) => acc <<< 8 ||| x.setWidth (8 * O)) 0).toNat = leNat l := by
  induction l with
  | nil => simp [leNat]
  | cons x l ih =>
    simp only [List.foldr_cons, shl8_or_toNat, leNat]
    rw [ih (by simp at h; omega)]
    have h1 := leNat_lt (x :: l)
    have h2 : 256 ^ (x :: l).length ≤ 256 ^ O := Nat.pow_le_pow_right (by decide) h
    rw [two_pow_8mul, Nat.mod_eq_of_lt]
    · omega
    · simp only [leNat] at h1; omega

theorem loadLE_toNat (O : Nat) (l : List Octet) : (loadLE O l).toNat = leNat (l.take O) := by
  unfold loadLE
  exact loadLE_foldr_toNat O (l.take O) (by simp; omega)

theorem loadLE_eq_zero (O : Nat) (l : List Octet) : loadLE O l = 0 ↔ ∀ x ∈ l.take O, x = 0 := by
  rw [← leNat_eq_zero, ← loadLE_toNat]
  constructor
  · intro h; rw [h]; simp
  · intro h; exact BitVec.eq_of_toNat_eq (by simpa using h)

theorem loadLE_inj (O : Nat) (a b : List Octet) (h : a.length = b.length) :
    loadLE O a = loadLE O b ↔ a.take O = b.take O := by
  constructor
  · intro he
    apply leNat_inj _ _ (by simp [h])
    rw [← loadLE_toNat, ← loadLE_toNat, he]
  · intro he; unfold loadLE; rw [he]

theorem eq_iff_take_drop {α} (k : Nat) (a b : List α) : a = b ↔ a.take k = b.take k ∧ a.drop k = b.drop k := by
  constructor
  · rintro rfl; exact ⟨rfl, rfl⟩
  · rintro ⟨h1, h2⟩
    rw [← List.take_append_drop k a, ← List.take_append_drop k b, h1, h2]

end Bee2V.C14.Cmp

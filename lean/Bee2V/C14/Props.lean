/-
C14 — regularity of the SAFE routines and of the verification paths.  Property theorems only.

`Bee2V.Gen.C14IR.prog` is REGENERATED from the C sources on every run (xlate/x_c14_ir.py): the
bodies of all 33 `SAFE(f)` routines, of the helpers they call (zzSubAndW, zzAddAndW, zzAddW2,
zzSubW2, zzAddMulW, zzMul, zzSub, zzSub2, zzSubW, uNNWeight, hexToO, ...), of
belt{MAC,DWP,CHE,Hash,HMAC}StepV[2], bashHashStepV and of beltKWPUnwrap.

* `checker_sound` — the information-flow checker `ctProg` is sound for the trace semantics of
  the IR (proved once, for every program, in IRSound.lean): accepted ⇒ the sequence of branch
  outcomes, loop-exit tests and load/store addresses of every function is the same for any two
  inputs that agree on lengths / pointers (the public variables) and on public memory.
* `prog_regular` — the program regenerated from the current source is accepted (kernel
  evaluation of the checker; the per-routine obligations are in Gen/C14Obl.lean).
* `safe_routines_trace_independent` — the conclusion for every translated function.

Secret = every word/octet operand passed by value, all memory reached through any pointer
(operands, moduli, tags, keys, states), except the hex string of hexEq/hexEqRev and constant tables.
Public = pointers, size_t lengths, and what the checker can derive from them (loop counters).
-/
import Bee2V.C14.IRSound
import Bee2V.Gen.C14IR
import Bee2V.Gen.C14IR32
import Bee2V.Gen.C14OblPrim

namespace Bee2V.C14
open Bee2V.C14.IR Bee2V.Gen.C14IR

/-- Soundness of the checker, for every program and both observation models
(`strict = true`: branches and addresses; `strict = false`: branches only). -/
theorem checker_sound (P : Prog) (strict : Bool) (hP : ctProg P strict = true)
    (fn : Fun) (hfn : fn ∈ P.funs) (fuel : Nat) (e1 e2 : Env) (h : LowEq fn e1 e2) :
    (exec P strict fuel fn.body e1).2 = (exec P strict fuel fn.body e2).2 :=
  fun_trace_ni P strict hP fn hfn fuel e1 e2 h

/-- The program extracted from the current C source passes the checker in the
address-observing semantics (every branch condition and every load/store address is public;
no call of an external routine outside the allow-list). -/
theorem prog_regular : ctProg prog true = true := by decide

/-- Every translated routine (all SAFE routines, their helpers, the Verify steps, the header
check of beltKWPUnwrap up to the consumption of the verdict): the observation trace does not
depend on secret data. -/
theorem safe_routines_trace_independent (fn : Fun) (hfn : fn ∈ prog.funs) (fuel : Nat)
    (e1 e2 : Env) (h : LowEq fn e1 e2) :
    (exec prog true fuel fn.body e1).2 = (exec prog true fuel fn.body e2).2 :=
  checker_sound prog true prog_regular fn hfn fuel e1 e2 h

/-- The same for the 32-bit-word configuration (`B_PER_W = 32`, `-U__SIZEOF_INT128__`: the
`#if B_PER_W` branches, `dword = u64`), extracted into `Gen.C14IR32`. -/
theorem prog32_regular : ctProg Bee2V.Gen.C14IR32.prog true = true := by decide

theorem safe_routines_trace_independent_w32 (fn : Fun) (hfn : fn ∈ Bee2V.Gen.C14IR32.prog.funs) (fuel : Nat)
    (e1 e2 : Env) (h : LowEq fn e1 e2) :
    (exec Bee2V.Gen.C14IR32.prog true fuel fn.body e1).2 = (exec Bee2V.Gen.C14IR32.prog true fuel fn.body e2).2 :=
  checker_sound _ true prog32_regular fn hfn fuel e1 e2 h

theorem roots_translated_w32 :
    Bee2V.Gen.C14IR32.roots.all (fun r => Bee2V.Gen.C14IR32.names.any (fun n => n.1 == r)) = true := by decide

/-- Block primitives (beltBlockEncr/Decr[2,3], beltCompr[2], beltPolyMul with ppMul1/2/4 and ppRedBelt,
beltBlockMulC, bashF with bashF0), re-extracted into `Gen.C14Prim`: accepted by the checker in the
BRANCHES-ONLY observation model (`strict = false`; table look-ups `H[x]` indexed by secret octets are
outside the model, as safe.h says; every `if`, loop test, `&&`, `||`, `?:` is inside).  Kernel evaluation of the
checker in Gen/C14OblPrim.lean (per routine and for the whole program). -/
theorem primitives_regular : ctProg Bee2V.Gen.C14Prim.prog false = true := Bee2V.C14.OblPrim.ct_prog

/-- the executed branches of every block primitive do not depend on key, block or state contents -/
theorem block_primitives_branch_independent (fn : Fun) (hfn : fn ∈ Bee2V.Gen.C14Prim.prog.funs) (fuel : Nat)
    (e1 e2 : Env) (h : LowEq fn e1 e2) :
    (exec Bee2V.Gen.C14Prim.prog false fuel fn.body e1).2 = (exec Bee2V.Gen.C14Prim.prog false fuel fn.body e2).2 :=
  checker_sound _ false primitives_regular fn hfn fuel e1 e2 h

/-- Every routine that the source defines as `SAFE(f)` (found by scanning the source text) and
every verification path has a translated body in `prog`. -/
theorem roots_translated : roots.all (fun r => names.any (fun n => n.1 == r)) = true := by decide

theorem safe_routines_are_roots : safeRoutines.all (fun r => roots.contains r) = true := by decide

/-- the checker is not vacuous: it rejects an early-exit comparison
`for (i = 0; i < n; ++i) if (a[i] != b[i]) return 0; return 1`
(variables 0=a 1=b 2=n public, 3=i) -/
theorem checker_rejects_early_exit : ctProg exEarlyExit true = false := by decide

/-- ... and a call of an external routine that is not on the allow-list (e.g. libc memcmp) -/
theorem checker_rejects_unknown_callee : ctProg exUnknownCallee true = false := by decide

/-! non-vacuity: two environments that differ in the secret memory and in a secret variable
are low-equivalent for memEq (index 0 of `prog`), and memEq is a member of `prog` -/
example : prog.funs[0]? = some f_memEq := rfl

example : LowEq f_memEq
    { vars := wr (wr (wr ∅ 0 4096) 1 8192) 2 16, sec := wr ∅ 4096 1, pub := ∅, st := 0, rv := 0, ora := [] }
    { vars := wr (wr (wr (wr ∅ 0 4096) 1 8192) 2 16) 3 77, sec := wr ∅ 4096 200, pub := ∅, st := 0, rv := 0, ora := [] } := by
  refine ⟨?_, fun _ => rfl, rfl, fun _ => rfl, rfl⟩
  intro x hx
  have : x = 0 ∨ x = 1 ∨ x = 2 ∨ x = 4 := by
    simp [Fun.L, f_memEq] at hx
    omega
  rcases this with h | h | h | h <;> subst h <;> simp [rd_wr, rd_empty]

end Bee2V.C14

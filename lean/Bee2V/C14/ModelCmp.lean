/-
C14 — comparison family: hand-written, code-shaped, executable models of BOTH editions
(SAFE = regular, FAST = early exit) of

  src/core/mem.c   memEq memCmp memCmpRev memIsZero memIsRep
  src/core/hex.c   hexEq hexEqRev (with the static hexToO / hex_dec_table)
  src/math/ww.c    wwEq wwCmp wwCmp2 wwCmpW wwIsZero wwIsW wwIsRepW
  src/core/u16.c, u32.c, u64.c   uNNWeight, uNNCTZ, uNNCLZ

Conventions (no Mathlib, the driver links this file):
* octet = `BitVec 8`; machine word = `BitVec w` (ww.c) resp. `BitVec (8*O)` with
  `O = O_PER_W` (mem.c, hex.c, where the octet/word relation matters);
* C `int` = `BitVec 32` two's complement (`CInt`); the value returned by a comparison is its
  `.toInt`; `bool_t` results are `Bool` (`&=` on 0/1 values is `&&`);
* a pointer walked with `p = p + 1` is a list consumed from the head; an array read as `a[n]`
  with a running index is `a.getD n 0` (every theorem fixes the lengths, so the default of
  `getD` is never observed);
* `while (n--)` is structural recursion on `n` (pattern `n+1` = value tested, `n` = value used
  in the body); `while (--n)` likewise, with the extra test `n ≠ 0` after the decrement.
The default build (no SAFE_FAST) is modelled: an unsuffixed callee inside a SAFE edition is the
SAFE edition (wwCmp2/wwCmpW call `wwIsZero`, `wwCmp`).
-/
namespace Bee2V.C14.Cmp

abbrev Octet := BitVec 8
/-- C `int` -/
abbrev CInt := BitVec 32

/-- result of a C comparison operator as `int` -/
def b2i (b : Bool) : CInt := if b then 1 else 0
/-- the same converted to `word` (`wordLess01` etc., or the implicit conversion in `word & int`) -/
def b2w {w : Nat} (b : Bool) : BitVec w := if b then 1 else 0
/-- `int` → `word` conversion (value modulo 2^w: sign extension / truncation) -/
def i2w {w : Nat} (i : CInt) : BitVec w := i.signExtend w
/-- octet operand after integer promotion -/
def o2i (x : Octet) : CInt := x.setWidth 32

/-- one step `less |= ~greater & lt; greater |= ~less & gt;` (note: the NEW less is used) -/
def lgStep {w : Nat} (less greater : BitVec w) (lt gt : Bool) : BitVec w × BitVec w :=
  let less := less ||| (~~~greater &&& b2w lt)
  let greater := greater ||| (~~~less &&& b2w gt)
  (less, greater)

/-- `return (wordEq(less, 0) - 1) | wordNeq(greater, 0);` -/
def lgRet {w : Nat} (less greater : BitVec w) : Int :=
  ((b2i (less == 0) - 1) ||| b2i (greater != 0)).toInt

/-! ## mem.c -/
section Mem
variable (O : Nat)

/-- `*(const word*)buf` on a little-endian machine: the first `O` octets of `l` -/
def loadLE (l : List Octet) : BitVec (8 * O) :=
  (l.take O).foldr (fun x acc => acc <<< 8 ||| x.setWidth (8 * O)) 0

/-- first loop of SAFE(memEq): `for (; count >= O_PER_W; count -= O_PER_W)`; `count` is the
length of the remaining lists -/
def memEq_safe.words (hO : 0 < O) (b1 b2 : List Octet) (diff : BitVec (8 * O)) :
    List Octet × List Octet × BitVec (8 * O) :=
  if O ≤ b1.length then
    memEq_safe.words hO (b1.drop O) (b2.drop O) (diff ||| (loadLE O b1 ^^^ loadLE O b2))
  else (b1, b2, diff)
termination_by b1.length
decreasing_by simp only [List.length_drop]; omega

/-- second loop of SAFE(memEq): `while (count--) diff |= *b1 ^ *b2` (octets promoted to int) -/
def memEq_safe.octets : List Octet → List Octet → BitVec (8 * O) → BitVec (8 * O)
  | x :: b1, y :: b2, diff => memEq_safe.octets b1 b2 (diff ||| i2w (o2i x ^^^ o2i y))
  | _, _, diff => diff

def memEq_safe (hO : 0 < O) (buf1 buf2 : List Octet) : Bool :=
  let (b1, b2, diff) := memEq_safe.words O hO buf1 buf2 0
  let diff := memEq_safe.octets O b1 b2 diff
  diff == 0

/-- libc `memcmp`: first differing octet decides (sign of the difference as int) -/
def memcmp : List Octet → List Octet → Int
  | x :: b1, y :: b2 => if x ≠ y then (x.toNat : Int) - y.toNat else memcmp b1 b2
  | _, _ => 0

def memEq_fast (buf1 buf2 : List Octet) : Bool := memcmp buf1 buf2 == 0

/-- loop of SAFE(memCmp); `w1`, `w2` are NOT cleared when `filled` is reset: the old octets are
shifted out modulo 2^B_PER_W -/
def memCmp_safe.loop : List Octet → List Octet →
    (less greater w1 w2 : BitVec (8 * O)) → (filled : Nat) →
    BitVec (8 * O) × BitVec (8 * O) × BitVec (8 * O) × BitVec (8 * O) × Nat
  | x :: b1, y :: b2, less, greater, w1, w2, filled =>
    let w1 := w1 <<< 8 ||| x.setWidth (8 * O)
    let w2 := w2 <<< 8 ||| y.setWidth (8 * O)
    let filled := filled + 1
    if filled = O then
      let lg := lgStep less greater (w1.ult w2) (w2.ult w1)
      memCmp_safe.loop b1 b2 lg.1 lg.2 w1 w2 0
    else
      memCmp_safe.loop b1 b2 less greater w1 w2 filled
  | _, _, less, greater, w1, w2, filled => (less, greater, w1, w2, filled)

def memCmp_safe (buf1 buf2 : List Octet) : Int :=
  let (less, greater, w1, w2, filled) := memCmp_safe.loop O buf1 buf2 0 0 0 0 0
  let lg := if filled ≠ 0 then lgStep less greater (w1.ult w2) (w2.ult w1) else (less, greater)
  lgRet lg.1 lg.2

def memCmp_fast : List Octet → List Octet → Int
  | x :: b1, y :: b2 =>
    if y.ult x then 1 else if x.ult y then -1 else memCmp_fast b1 b2
  | _, _ => 0

/-- `while (count % O_PER_W) { w1 = w1 << 8 | buf1[--count]; w2 = w2 << 8 | buf2[count]; }` -/
def memCmpRev_safe.tail (buf1 buf2 : List Octet) :
    (count : Nat) → (w1 w2 : BitVec (8 * O)) → Nat × BitVec (8 * O) × BitVec (8 * O)
  | 0, w1, w2 => (0, w1, w2)
  | count + 1, w1, w2 =>
    if (count + 1) % O ≠ 0 then
      memCmpRev_safe.tail buf1 buf2 count
        (w1 <<< 8 ||| (buf1.getD count 0).setWidth (8 * O))
        (w2 <<< 8 ||| (buf2.getD count 0).setWidth (8 * O))
    else (count + 1, w1, w2)

/-- `while (count--) { w1 = ((const word*)buf1)[count]; ... }` (count in words) -/
def memCmpRev_safe.words (buf1 buf2 : List Octet) :
    (count : Nat) → (less greater : BitVec (8 * O)) → BitVec (8 * O) × BitVec (8 * O)
  | 0, less, greater => (less, greater)
  | count + 1, less, greater =>
    let w1 := loadLE O (buf1.drop (count * O))
    let w2 := loadLE O (buf2.drop (count * O))
    let lg := lgStep less greater (w1.ult w2) (w2.ult w1)
    memCmpRev_safe.words buf1 buf2 count lg.1 lg.2

def memCmpRev_safe (buf1 buf2 : List Octet) (count : Nat) : Int :=
  let (count, less, greater) :=
    if count % O ≠ 0 then
      let (count, w1, w2) := memCmpRev_safe.tail O buf1 buf2 count 0 0
      let lg := lgStep 0 0 (w1.ult w2) (w2.ult w1)
      (count, lg.1, lg.2)
    else (count, 0, 0)
  let count := count / O
  let lg := memCmpRev_safe.words O buf1 buf2 count less greater
  lgRet lg.1 lg.2

/-- `b1 = buf1 + count; while (count--) if (*--b1 > *--b2) ...`: `b1 - buf1 = count` throughout -/
def memCmpRev_fast (buf1 buf2 : List Octet) : (count : Nat) → Int
  | 0 => 0
  | count + 1 =>
    if (buf2.getD count 0).ult (buf1.getD count 0) then 1
    else if (buf1.getD count 0).ult (buf2.getD count 0) then -1
    else memCmpRev_fast buf1 buf2 count

def memIsZero_safe.words (hO : 0 < O) (buf : List Octet) (diff : BitVec (8 * O)) :
    List Octet × BitVec (8 * O) :=
  if O ≤ buf.length then
    memIsZero_safe.words hO (buf.drop O) (diff ||| loadLE O buf)
  else (buf, diff)
termination_by buf.length
decreasing_by simp only [List.length_drop]; omega

def memIsZero_safe.octets : List Octet → BitVec (8 * O) → BitVec (8 * O)
  | x :: buf, diff => memIsZero_safe.octets buf (diff ||| x.setWidth (8 * O))
  | [], diff => diff

def memIsZero_safe (hO : 0 < O) (buf : List Octet) : Bool :=
  let (buf, diff) := memIsZero_safe.words O hO buf 0
  let diff := memIsZero_safe.octets O buf diff
  diff == 0

/-- first loop of FAST(memIsZero); `none` = `return FALSE` -/
def memIsZero_fast.words (hO : 0 < O) (buf : List Octet) : Option (List Octet) :=
  if O ≤ buf.length then
    if loadLE O buf ≠ 0 then none else memIsZero_fast.words hO (buf.drop O)
  else some buf
termination_by buf.length
decreasing_by simp only [List.length_drop]; omega

def memIsZero_fast.octets : List Octet → Bool
  | x :: buf => if x ≠ 0 then false else memIsZero_fast.octets buf
  | [] => true

def memIsZero_fast (hO : 0 < O) (buf : List Octet) : Bool :=
  match memIsZero_fast.words O hO buf with
  | none => false
  | some buf => memIsZero_fast.octets buf

/-- `for (; count--; buf++) diff |= *buf ^ o;` (int promotion, then int → word) -/
def memIsRep_safe.loop (o : Octet) : List Octet → BitVec (8 * O) → BitVec (8 * O)
  | x :: buf, diff => memIsRep_safe.loop o buf (diff ||| i2w (o2i x ^^^ o2i o))
  | [], diff => diff

def memIsRep_safe (buf : List Octet) (o : Octet) : Bool :=
  memIsRep_safe.loop O o buf 0 == 0

def memIsRep_fast (buf : List Octet) (o : Octet) : Bool :=
  match buf with
  | x :: buf => if x ≠ o then false else memIsRep_fast buf o
  | [] => true

end Mem

/-! ## hex.c -/
section Hex
variable (O : Nat)

/-- `hex_dec_table[(octet)c]` : '0'..'9', 'A'..'F', 'a'..'f' → value, everything else 0xFF -/
def hexDecTable (c : Octet) : Octet :=
  if 0x30 ≤ c ∧ c ≤ 0x39 then c - 0x30
  else if 0x41 ≤ c ∧ c ≤ 0x46 then c - 0x41 + 0x0A
  else if 0x61 ≤ c ∧ c ≤ 0x66 then c - 0x61 + 0x0A
  else 0xFF

/-- static `hexToO`: `return hi << 4 | lo;` computed in int, truncated to octet -/
def hexToO (c0 c1 : Octet) : Octet :=
  let hi := hexDecTable c0
  let lo := hexDecTable c1
  (o2i hi <<< 4 ||| o2i lo).setWidth 8

/-- `hexIsValid`: even length and every character a hex digit -/
def hexIsValid (hex : List Octet) : Bool :=
  if hex.length % 2 ≠ 0 then false
  else hex.all (fun c => hexDecTable c != 0xFF)

/-- `for (; count; count -= 2, hex += 2, buf++) diff |= *buf ^ hexToO(hex);`
(`count` = remaining length of `hex`) -/
def hexEq_safe.loop : List Octet → List Octet → BitVec (8 * O) → BitVec (8 * O)
  | x :: buf, c0 :: c1 :: hex, diff =>
    hexEq_safe.loop buf hex (diff ||| i2w (o2i x ^^^ o2i (hexToO c0 c1)))
  | _, _, diff => diff

def hexEq_safe (buf hex : List Octet) : Bool := hexEq_safe.loop O buf hex 0 == 0

def hexEq_fast : List Octet → List Octet → Bool
  | x :: buf, c0 :: c1 :: hex => if x ≠ hexToO c0 c1 then false else hexEq_fast buf hex
  | _, _ => true

/-- `hex = hex + count; for (; count; count -= 2, buf++) diff |= *buf ^ hexToO(hex -= 2);`
`pos` is the offset of the running `hex` pointer -/
def hexEqRev_safe.loop (hex : List Octet) :
    (count : Nat) → (pos : Nat) → List Octet → BitVec (8 * O) → BitVec (8 * O)
  | count + 2, pos, x :: buf, diff =>
    let pos := pos - 2
    hexEqRev_safe.loop hex count pos buf
      (diff ||| i2w (o2i x ^^^ o2i (hexToO (hex.getD pos 0) (hex.getD (pos + 1) 0))))
  | _, _, _, diff => diff

def hexEqRev_safe (buf hex : List Octet) : Bool :=
  hexEqRev_safe.loop O hex hex.length hex.length buf 0 == 0

def hexEqRev_fast.loop (hex : List Octet) : (count : Nat) → (pos : Nat) → List Octet → Bool
  | count + 2, pos, x :: buf =>
    let pos := pos - 2
    if x ≠ hexToO (hex.getD pos 0) (hex.getD (pos + 1) 0) then false
    else hexEqRev_fast.loop hex count pos buf
  | _, _, _ => true

def hexEqRev_fast (buf hex : List Octet) : Bool :=
  hexEqRev_fast.loop hex hex.length hex.length buf

end Hex

/-! ## ww.c -/
section WW
variable {w : Nat}

def wwEq_safe.loop (a b : List (BitVec w)) : Nat → BitVec w → BitVec w
  | 0, diff => diff
  | n + 1, diff => wwEq_safe.loop a b n (diff ||| (a.getD n 0 ^^^ b.getD n 0))

def wwEq_safe (a b : List (BitVec w)) (n : Nat) : Bool := wwEq_safe.loop a b n 0 == 0

def wwEq_fast (a b : List (BitVec w)) : Nat → Bool
  | 0 => true
  | n + 1 => if a.getD n 0 ≠ b.getD n 0 then false else wwEq_fast a b n

def wwCmp_safe.loop (a b : List (BitVec w)) : Nat → BitVec w → BitVec w → BitVec w × BitVec w
  | 0, less, greater => (less, greater)
  | n + 1, less, greater =>
    let lg := lgStep less greater ((a.getD n 0).ult (b.getD n 0)) ((b.getD n 0).ult (a.getD n 0))
    wwCmp_safe.loop a b n lg.1 lg.2

/-- SAFE(wwCmp) as C `int` -/
def wwCmp_safe.int (a b : List (BitVec w)) (n : Nat) : CInt :=
  let lg := wwCmp_safe.loop a b n 0 0
  (b2i (lg.1 == 0) - 1) ||| b2i (lg.2 != 0)

def wwCmp_safe (a b : List (BitVec w)) (n : Nat) : Int := (wwCmp_safe.int a b n).toInt

def wwCmp_fast (a b : List (BitVec w)) : Nat → Int
  | 0 => 0
  | n + 1 =>
    if (b.getD n 0).ult (a.getD n 0) then 1
    else if (a.getD n 0).ult (b.getD n 0) then -1
    else wwCmp_fast a b n

def wwIsZero_safe.loop (a : List (BitVec w)) : Nat → BitVec w → BitVec w
  | 0, diff => diff
  | n + 1, diff => wwIsZero_safe.loop a n (diff ||| a.getD n 0)

def wwIsZero_safe (a : List (BitVec w)) (n : Nat) : Bool := wwIsZero_safe.loop a n 0 == 0

def wwIsZero_fast (a : List (BitVec w)) : Nat → Bool
  | 0 => true
  | n + 1 => if a.getD n 0 ≠ 0 then false else wwIsZero_fast a n

/-- SAFE(wwCmp2): `ret = -z & ret | (z - 1) & 1` resp. `& -1`, in int arithmetic;
`a + m` is `a.drop m` -/
def wwCmp2_safe (a : List (BitVec w)) (n : Nat) (b : List (BitVec w)) (m : Nat) : Int :=
  let ret : CInt :=
    if n > m then
      let z : CInt := b2i (wwIsZero_safe (a.drop m) (n - m))
      let ret := wwCmp_safe.int a b m
      (-z &&& ret) ||| ((z - 1) &&& 1)
    else if n < m then
      let z : CInt := b2i (wwIsZero_safe (b.drop n) (m - n))
      let ret := wwCmp_safe.int a b n
      (-z &&& ret) ||| ((z - 1) &&& -1)
    else wwCmp_safe.int a b n
  ret.toInt

def wwCmp2_fast (a : List (BitVec w)) (n : Nat) (b : List (BitVec w)) (m : Nat) : Int :=
  if n > m then
    if wwIsZero_fast (a.drop m) (n - m) then wwCmp_fast a b m else 1
  else if n < m then
    if wwIsZero_fast (b.drop n) (m - n) then wwCmp_fast a b n else -1
  else wwCmp_fast a b m

/-- SAFE(wwCmpW) -/
def wwCmpW_safe (a : List (BitVec w)) (n : Nat) (x : BitVec w) : Int :=
  let ret : CInt :=
    if n = 0 then b2i (x == 0) - 1
    else
      let z : CInt := b2i (wwIsZero_safe (a.drop 1) (n - 1))
      let ret : CInt := (-b2i ((a.getD 0 0).ult x) &&& -1) ||| (-b2i (x.ult (a.getD 0 0)) &&& 1)
      (-z &&& ret) ||| ((z - 1) &&& 1)
  ret.toInt

/-- `while (--n && cmp == 0) cmp = (a[n] == 0 ? 0 : 1);` — first argument is `n` BEFORE `--n`
(0 is unreachable: entered with n ≥ 1 and continued only while the decremented n ≠ 0) -/
def wwCmpW_fast.loop (a : List (BitVec w)) : Nat → CInt → CInt
  | 0, cmp => cmp
  | n + 1, cmp =>
    if n ≠ 0 && cmp == 0 then wwCmpW_fast.loop a n (if a.getD n 0 == 0 then 0 else 1)
    else cmp

def wwCmpW_fast (a : List (BitVec w)) (n : Nat) (x : BitVec w) : Int :=
  let cmp : CInt :=
    if n = 0 then (if x ≠ 0 then -1 else 0)
    else
      let cmp := wwCmpW_fast.loop a n 0
      if cmp == 0 then
        if (a.getD 0 0).ult x then -1
        else if x.ult (a.getD 0 0) then 1
        else cmp
      else cmp
  cmp.toInt

/-- `while (--n) ret &= wordEq(a[n], 0);` — first argument is `n` before `--n` -/
def wwIsW_safe.loop (a : List (BitVec w)) : Nat → Bool → Bool
  | 0, ret => ret
  | n + 1, ret => if n ≠ 0 then wwIsW_safe.loop a n (ret && (a.getD n 0 == 0)) else ret

def wwIsW_safe (a : List (BitVec w)) (n : Nat) (x : BitVec w) : Bool :=
  if n = 0 then x == 0
  else wwIsW_safe.loop a n (a.getD 0 0 == x)

/-- `while (ret && --n) ret = (a[n] == 0);` -/
def wwIsW_fast.loop (a : List (BitVec w)) : Nat → Bool → Bool
  | 0, ret => ret
  | n + 1, ret => if ret && n ≠ 0 then wwIsW_fast.loop a n (a.getD n 0 == 0) else ret

def wwIsW_fast (a : List (BitVec w)) (n : Nat) (x : BitVec w) : Bool :=
  if n = 0 then x == 0
  else wwIsW_fast.loop a n (a.getD 0 0 == x)

def wwIsRepW_safe.loop (a : List (BitVec w)) (x : BitVec w) : Nat → Bool → Bool
  | 0, ret => ret
  | n + 1, ret => if n ≠ 0 then wwIsRepW_safe.loop a x n (ret && (a.getD n 0 == x)) else ret

def wwIsRepW_safe (a : List (BitVec w)) (n : Nat) (x : BitVec w) : Bool :=
  if n = 0 then x == 0
  else wwIsRepW_safe.loop a x n (a.getD 0 0 == x)

/-- `do ret = (a[--n] == w); while (ret && n);` — entered with n ≥ 1 -/
def wwIsRepW_fast.loop (a : List (BitVec w)) (x : BitVec w) : Nat → Bool
  | 0 => true
  | n + 1 =>
    let ret := a.getD n 0 == x
    if ret && n ≠ 0 then wwIsRepW_fast.loop a x n else ret

def wwIsRepW_fast (a : List (BitVec w)) (n : Nat) (x : BitVec w) : Bool :=
  if n = 0 then x == 0
  else wwIsRepW_fast.loop a x n

end WW

/-! ## u16.c / u32.c / u64.c -/
section UNN

/-- u16Weight: arithmetic on `u16` after promotion to int and truncation back = arithmetic
modulo 2^16 -/
def u16Weight (w : BitVec 16) : Nat :=
  let w := w - ((w >>> 1) &&& 0x5555)
  let w := (w &&& 0x3333) + ((w >>> 2) &&& 0x3333)
  let w := (w + (w >>> 4)) &&& 0x0F0F
  let w := w + (w >>> 8)
  (w &&& 0x001F).toNat

def u32Weight (w : BitVec 32) : Nat :=
  let w := w - ((w >>> 1) &&& 0x55555555)
  let w := (w &&& 0x33333333) + ((w >>> 2) &&& 0x33333333)
  let w := (w + (w >>> 4)) &&& 0x0F0F0F0F
  let w := w + (w >>> 8)
  let w := w + (w >>> 16)
  (w &&& 0x0000003F).toNat

def u64Weight (w : BitVec 64) : Nat :=
  let w := w - ((w >>> 1) &&& 0x5555555555555555)
  let w := (w &&& 0x3333333333333333) + ((w >>> 2) &&& 0x3333333333333333)
  let w := (w + (w >>> 4)) &&& 0x0F0F0F0F0F0F0F0F
  let w := w + (w >>> 8)
  let w := w + (w >>> 16)
  let w := w + (w >>> 32)
  (w &&& 0x000000000000007F).toNat

def u16CTZ_safe (w : BitVec 16) : Nat := 16 - u16Weight (w ||| (0 - w))
def u32CTZ_safe (w : BitVec 32) : Nat := 32 - u32Weight (w ||| (0 - w))
def u64CTZ_safe (w : BitVec 64) : Nat := 64 - u64Weight (w ||| (0 - w))

/-- one dichotomy step of FAST(uNNCTZ): `if (t = w << s) l -= s, w = t;` -/
def ctzStep {n : Nat} (s : Nat) (lw : Nat × BitVec n) : Nat × BitVec n :=
  let t := lw.2 <<< s
  if t ≠ 0 then (lw.1 - s, t) else lw

/-- `return ((uNN)(w << 1)) ? l - 2 : l - (w ? 1 : 0);` -/
def ctzRet {n : Nat} (lw : Nat × BitVec n) : Nat :=
  if lw.2 <<< 1 ≠ 0 then lw.1 - 2 else lw.1 - (if lw.2 ≠ 0 then 1 else 0)

def u16CTZ_fast (w : BitVec 16) : Nat :=
  ctzRet (ctzStep 2 (ctzStep 4 (ctzStep 8 (16, w))))
def u32CTZ_fast (w : BitVec 32) : Nat :=
  ctzRet (ctzStep 2 (ctzStep 4 (ctzStep 8 (ctzStep 16 (32, w)))))
def u64CTZ_fast (w : BitVec 64) : Nat :=
  ctzRet (ctzStep 2 (ctzStep 4 (ctzStep 8 (ctzStep 16 (ctzStep 32 (64, w))))))

def u16CLZ_safe (w : BitVec 16) : Nat :=
  let w := w ||| w >>> 1
  let w := w ||| w >>> 2
  let w := w ||| w >>> 4
  let w := w ||| w >>> 8
  u16Weight (~~~w)

def u32CLZ_safe (w : BitVec 32) : Nat :=
  let w := w ||| w >>> 1
  let w := w ||| w >>> 2
  let w := w ||| w >>> 4
  let w := w ||| w >>> 8
  let w := w ||| w >>> 16
  u32Weight (~~~w)

def u64CLZ_safe (w : BitVec 64) : Nat :=
  let w := w ||| w >>> 1
  let w := w ||| w >>> 2
  let w := w ||| w >>> 4
  let w := w ||| w >>> 8
  let w := w ||| w >>> 16
  let w := w ||| w >>> 32
  u64Weight (~~~w)

/-- one dichotomy step of FAST(uNNCLZ): `if (t = w >> s) l -= s, w = t;` -/
def clzStep {n : Nat} (s : Nat) (lw : Nat × BitVec n) : Nat × BitVec n :=
  let t := lw.2 >>> s
  if t ≠ 0 then (lw.1 - s, t) else lw

/-- `return (w >> 1) ? l - 2 : l - (w ? 1 : 0);` -/
def clzRet {n : Nat} (lw : Nat × BitVec n) : Nat :=
  if lw.2 >>> 1 ≠ 0 then lw.1 - 2 else lw.1 - (if lw.2 ≠ 0 then 1 else 0)

def u16CLZ_fast (w : BitVec 16) : Nat :=
  clzRet (clzStep 2 (clzStep 4 (clzStep 8 (16, w))))
def u32CLZ_fast (w : BitVec 32) : Nat :=
  clzRet (clzStep 2 (clzStep 4 (clzStep 8 (clzStep 16 (32, w)))))
def u64CLZ_fast (w : BitVec 64) : Nat :=
  clzRet (clzStep 2 (clzStep 4 (clzStep 8 (clzStep 16 (clzStep 32 (64, w))))))

end UNN

/-! ## specification predicates (structure-free) -/
section Spec

/-- three-way comparison of naturals as -1/0/1 -/
def cmp3 (x y : Nat) : Int := if x < y then -1 else if y < x then 1 else 0

/-- little-endian number of an octet string -/
def leNat : List Octet → Nat
  | [] => 0
  | x :: l => x.toNat + 256 * leNat l

/-- big-endian number of an octet string -/
def beNat (l : List Octet) : Nat := leNat l.reverse

/-- little-endian number of a word string -/
def wwNat {w : Nat} : List (BitVec w) → Nat
  | [] => 0
  | x :: l => x.toNat + 2 ^ w * wwNat l

/-- lexicographic comparison from the first element -/
def lexCmp : List Octet → List Octet → Int
  | x :: a, y :: b => if x.toNat < y.toNat then -1 else if y.toNat < x.toNat then 1 else lexCmp a b
  | _, _ => 0

/-- value of a hex digit character (spec side: by character classes, in ℕ) -/
def hexVal (c : Octet) : Nat :=
  let c := c.toNat
  if 48 ≤ c ∧ c ≤ 57 then c - 48
  else if 65 ≤ c ∧ c ≤ 70 then c - 55
  else if 97 ≤ c ∧ c ≤ 102 then c - 87
  else 255

def isHexDigit (c : Octet) : Prop := hexVal c < 16

/-- decoded hex string: octet i is 16·hex[2i] + hex[2i+1] -/
def hexDecode : List Octet → List Octet
  | c0 :: c1 :: hex => BitVec.ofNat 8 (16 * hexVal c0 + hexVal c1) :: hexDecode hex
  | _ => []

/-- number of trailing zero bits (n for 0) -/
def ctzSpec {n : Nat} (x : BitVec n) : Nat :=
  (List.range n).findIdx (fun i => x.getLsbD i)

/-- number of leading zero bits (n for 0) -/
def clzSpec {n : Nat} (x : BitVec n) : Nat :=
  (List.range n).findIdx (fun i => x.getMsbD i)

end Spec

end Bee2V.C14.Cmp

/-
C14 — line-protocol handler for the comparison family (w = 64, O_PER_W = 8).
Tokens of one op line, first token = routine name; see ModelCmp.lean for the models.
-/
import Bee2V.C14.ModelCmp
import Bee2V.Base.Proto
namespace Bee2V.C14.Cmp
open Bee2V.Proto

def edOf (s : String) : Option Bool :=
  if s = "safe" then some true else if s = "fast" then some false else none

def octs (s : String) : Option (List Octet) := (parseHex s).map (·.map (·.toBitVec))

/-- word array given as little-endian octets, length a multiple of 8 -/
def wordsOfOctets (l : List Octet) : Option (List (BitVec 64)) :=
  if l.length = 0 then some []
  else if l.length < 8 then none
  else (wordsOfOctets (l.drop 8)).map (loadLE 8 l :: ·)
termination_by l.length
decreasing_by simp only [List.length_drop]; omega

def words (s : String) : Option (List (BitVec 64)) := (octs s).bind wordsOfOctets

def word (s : String) : Option (BitVec 64) :=
  (parseNat s).bind fun v => if v < 2 ^ 64 then some (BitVec.ofNat 64 v) else none

def bit (b : Bool) : String := if b then "1" else "0"
def int (i : Int) : String := toString i

/-- the ASCII string itself as C chars ("-" = empty) -/
def cstr (s : String) : Option (List Octet) :=
  if s = "-" then some []
  else
    let cs := s.toList
    if cs.all (fun c => c.toNat < 256) then some (cs.map (fun c => BitVec.ofNat 8 c.toNat)) else none

def fits (n : Nat) (s : String) : Option (BitVec n) :=
  (parseNat s).bind fun v => if v < 2 ^ n then some (BitVec.ofNat n v) else none

theorem h8 : 0 < 8 := by decide

def handle : List String → String
  | ["memEq", ed, a, b] =>
    match edOf ed, octs a, octs b with
    | some e, some a, some b =>
      if a.length ≠ b.length then "bad-op"
      else bit (if e then memEq_safe 8 h8 a b else memEq_fast a b)
    | _, _, _ => "bad-op"
  | ["memCmp", ed, a, b] =>
    match edOf ed, octs a, octs b with
    | some e, some a, some b =>
      if a.length ≠ b.length then "bad-op"
      else int (if e then memCmp_safe 8 a b else memCmp_fast a b)
    | _, _, _ => "bad-op"
  | ["memCmpRev", ed, a, b] =>
    match edOf ed, octs a, octs b with
    | some e, some a, some b =>
      if a.length ≠ b.length then "bad-op"
      else int (if e then memCmpRev_safe 8 a b a.length else memCmpRev_fast a b a.length)
    | _, _, _ => "bad-op"
  | ["memIsZero", ed, a] =>
    match edOf ed, octs a with
    | some e, some a => bit (if e then memIsZero_safe 8 h8 a else memIsZero_fast 8 h8 a)
    | _, _ => "bad-op"
  | ["memIsRep", ed, a, o] =>
    match edOf ed, octs a, fits 8 o with
    | some e, some a, some o => bit (if e then memIsRep_safe 8 a o else memIsRep_fast a o)
    | _, _, _ => "bad-op"
  | ["hexEq", ed, buf, hex] =>
    match edOf ed, octs buf, cstr hex with
    | some e, some buf, some hex =>
      if !hexIsValid hex || hex.length ≠ 2 * buf.length then "bad-op"
      else bit (if e then hexEq_safe 8 buf hex else hexEq_fast buf hex)
    | _, _, _ => "bad-op"
  | ["hexEqRev", ed, buf, hex] =>
    match edOf ed, octs buf, cstr hex with
    | some e, some buf, some hex =>
      if !hexIsValid hex || hex.length ≠ 2 * buf.length then "bad-op"
      else bit (if e then hexEqRev_safe 8 buf hex else hexEqRev_fast buf hex)
    | _, _, _ => "bad-op"
  | ["wwEq", ed, a, b] =>
    match edOf ed, words a, words b with
    | some e, some a, some b =>
      if a.length ≠ b.length then "bad-op"
      else bit (if e then wwEq_safe a b a.length else wwEq_fast a b a.length)
    | _, _, _ => "bad-op"
  | ["wwCmp", ed, a, b] =>
    match edOf ed, words a, words b with
    | some e, some a, some b =>
      if a.length ≠ b.length then "bad-op"
      else int (if e then wwCmp_safe a b a.length else wwCmp_fast a b a.length)
    | _, _, _ => "bad-op"
  | ["wwCmp2", ed, a, b] =>
    match edOf ed, words a, words b with
    | some e, some a, some b =>
      int (if e then wwCmp2_safe a a.length b b.length else wwCmp2_fast a a.length b b.length)
    | _, _, _ => "bad-op"
  | ["wwCmpW", ed, a, x] =>
    match edOf ed, words a, word x with
    | some e, some a, some x =>
      int (if e then wwCmpW_safe a a.length x else wwCmpW_fast a a.length x)
    | _, _, _ => "bad-op"
  | ["wwIsZero", ed, a] =>
    match edOf ed, words a with
    | some e, some a => bit (if e then wwIsZero_safe a a.length else wwIsZero_fast a a.length)
    | _, _ => "bad-op"
  | ["wwIsW", ed, a, x] =>
    match edOf ed, words a, word x with
    | some e, some a, some x =>
      bit (if e then wwIsW_safe a a.length x else wwIsW_fast a a.length x)
    | _, _, _ => "bad-op"
  | ["wwIsRepW", ed, a, x] =>
    match edOf ed, words a, word x with
    | some e, some a, some x =>
      bit (if e then wwIsRepW_safe a a.length x else wwIsRepW_fast a a.length x)
    | _, _, _ => "bad-op"
  | ["u16CTZ", ed, v] =>
    match edOf ed, fits 16 v with
    | some e, some v => toString (if e then u16CTZ_safe v else u16CTZ_fast v)
    | _, _ => "bad-op"
  | ["u16CLZ", ed, v] =>
    match edOf ed, fits 16 v with
    | some e, some v => toString (if e then u16CLZ_safe v else u16CLZ_fast v)
    | _, _ => "bad-op"
  | ["u32CTZ", ed, v] =>
    match edOf ed, fits 32 v with
    | some e, some v => toString (if e then u32CTZ_safe v else u32CTZ_fast v)
    | _, _ => "bad-op"
  | ["u32CLZ", ed, v] =>
    match edOf ed, fits 32 v with
    | some e, some v => toString (if e then u32CLZ_safe v else u32CLZ_fast v)
    | _, _ => "bad-op"
  | ["u64CTZ", ed, v] =>
    match edOf ed, fits 64 v with
    | some e, some v => toString (if e then u64CTZ_safe v else u64CTZ_fast v)
    | _, _ => "bad-op"
  | ["u64CLZ", ed, v] =>
    match edOf ed, fits 64 v with
    | some e, some v => toString (if e then u64CLZ_safe v else u64CLZ_fast v)
    | _, _ => "bad-op"
  | _ => "bad-op"

end Bee2V.C14.Cmp

/-
C14 — comparison family, helper lemmas, part 9: hex.c (table, hexToO, hexEq, hexEqRev).
-/
import Bee2V.C14.LemmasCmp8
namespace Bee2V.C14.Cmp
variable (O : Nat)

theorem hexDecTable_toNat (c : Octet) : (hexDecTable c).toNat = hexVal c := by
  unfold hexDecTable hexVal
  simp only
  by_cases g1 : 48 ≤ c.toNat ∧ c.toNat ≤ 57
  · rw [if_pos (by bv_omega), if_pos g1]; bv_omega
  · rw [if_neg (by bv_omega), if_neg g1]
    by_cases g2 : 65 ≤ c.toNat ∧ c.toNat ≤ 70
    · rw [if_pos (by bv_omega), if_pos g2]; bv_omega
    · rw [if_neg (by bv_omega), if_neg g2]
      by_cases g3 : 97 ≤ c.toNat ∧ c.toNat ≤ 102
      · rw [if_pos (by bv_omega), if_pos g3]; bv_omega
      · rw [if_neg (by bv_omega), if_neg g3]; rfl

theorem hexToO_table : ∀ h < 16, ∀ l < 16,
    (o2i (BitVec.ofNat 8 h) <<< 4 ||| o2i (BitVec.ofNat 8 l)).setWidth 8 = BitVec.ofNat 8 (16 * h + l) := by
  decide

theorem hexToO_eq (c0 c1 : Octet) (h0 : hexVal c0 < 16) (h1 : hexVal c1 < 16) :
    hexToO c0 c1 = BitVec.ofNat 8 (16 * hexVal c0 + hexVal c1) := by
  unfold hexToO
  simp only
  have e0 : hexDecTable c0 = BitVec.ofNat 8 (hexVal c0) :=
    BitVec.eq_of_toNat_eq (by rw [hexDecTable_toNat, BitVec.toNat_ofNat]; omega)
  have e1 : hexDecTable c1 = BitVec.ofNat 8 (hexVal c1) :=
    BitVec.eq_of_toNat_eq (by rw [hexDecTable_toNat, BitVec.toNat_ofNat]; omega)
  rw [e0, e1]
  exact hexToO_table _ h0 _ h1

theorem hexIsValid_iff (hex : List Octet) :
    hexIsValid hex = true ↔ hex.length % 2 = 0 ∧ ∀ c ∈ hex, hexVal c < 16 := by
  unfold hexIsValid
  by_cases hl : hex.length % 2 = 0
  · simp only [hl, ne_eq, not_true_eq_false, if_false, List.all_eq_true, bne_iff_ne, true_and]
    constructor
    · intro h c hc
      have := h c hc
      have hv := hexDecTable_toNat c
      have : (hexDecTable c).toNat ≠ 255 := fun he => this (BitVec.eq_of_toNat_eq (by simpa using he))
      rw [hv] at this
      unfold hexVal at this ⊢
      simp only at this ⊢
      split <;> rename_i g1
      · omega
      · rw [if_neg g1] at this
        split <;> rename_i g2
        · omega
        · rw [if_neg g2] at this
          split <;> rename_i g3
          · omega
          · rw [if_neg g3] at this; omega
    · intro h c hc he
      have := h c hc
      rw [← hexDecTable_toNat, he] at this
      simp at this
  · simp [hl]

theorem hexEq_safe_loop_zero (hO : 0 < O) (buf hex : List Octet) (diff : BitVec (8 * O))
    (hl : hex.length = 2 * buf.length) (hv : ∀ c ∈ hex, hexVal c < 16) :
    hexEq_safe.loop O buf hex diff = 0 ↔ diff = 0 ∧ buf = hexDecode hex := by
  induction buf generalizing hex diff with
  | nil =>
    have : hex = [] := List.length_eq_zero_iff.mp (by simpa using hl)
    subst this
    simp [hexEq_safe.loop, hexDecode]
  | cons x buf ih =>
    match hex, hl, hv with
    | c0 :: c1 :: hex, hl, hv =>
      rw [hexEq_safe.loop, ih hex _ (by simp at hl; omega) (fun c hc => hv c (by simp [hc])),
        or_eq_zero, i2w_xor_eq_zero (by omega), hexDecode,
        hexToO_eq c0 c1 (hv c0 (by simp)) (hv c1 (by simp))]
      simp only [List.cons.injEq, and_assoc]
    | [], hl, _ => simp at hl
    | [_], hl, _ => simp at hl; omega

theorem hexEq_fast_iff (buf hex : List Octet)
    (hl : hex.length = 2 * buf.length) (hv : ∀ c ∈ hex, hexVal c < 16) :
    hexEq_fast buf hex = true ↔ buf = hexDecode hex := by
  induction buf generalizing hex with
  | nil =>
    have : hex = [] := List.length_eq_zero_iff.mp (by simpa using hl)
    subst this
    simp [hexEq_fast, hexDecode]
  | cons x buf ih =>
    match hex, hl, hv with
    | c0 :: c1 :: hex, hl, hv =>
      rw [hexEq_fast, hexDecode, hexToO_eq c0 c1 (hv c0 (by simp)) (hv c1 (by simp))]
      by_cases hx : x = BitVec.ofNat 8 (16 * hexVal c0 + hexVal c1)
      · rw [if_neg (by simpa using hx), ih hex (by simp at hl; omega) (fun c hc => hv c (by simp [hc]))]
        simp only [List.cons.injEq, hx, true_and]
      · rw [if_pos hx]
        exact false_iff_of_not (fun h => hx (List.cons.inj h).1)
    | [], hl, _ => simp at hl
    | [_], hl, _ => simp at hl; omega

theorem hexDecode_append (a b : List Octet) (ha : a.length % 2 = 0) :
    hexDecode (a ++ b) = hexDecode a ++ hexDecode b := by
  fun_induction hexDecode a with
  | case1 c0 c1 hex ih =>
    simp only [List.cons_append, hexDecode]
    rw [ih (by simp at ha; omega)]
  | case2 a hne =>
    match a, hne, ha with
    | [], _, _ => simp
    | [_], _, ha => simp at ha
    | c0 :: c1 :: t, hne, _ => exact absurd rfl (hne c0 c1 t)

theorem take_add_two (l : List Octet) (n : Nat) (h : n + 2 ≤ l.length) :
    l.take (n + 2) = l.take n ++ [l.getD n 0, l.getD (n + 1) 0] := by
  have h1 : l.getD n 0 = l[n] := by simp [List.getD_eq_getElem?_getD, show n < l.length by omega]
  have h2 : l.getD (n + 1) 0 = l[n + 1] := by simp [List.getD_eq_getElem?_getD, show n + 1 < l.length by omega]
  have e : n + 2 = n + 1 + 1 := rfl
  have g1 : l[n]? = some l[n] := List.getElem?_eq_getElem (by omega)
  have g2 : l[n + 1]? = some l[n + 1] := List.getElem?_eq_getElem (by omega)
  rw [h1, h2, e]
  rw [List.take_add_one]
  rw [List.take_add_one]
  rw [g1, g2]
  simp only [Option.toList_some, List.append_assoc, List.cons_append, List.nil_append]

theorem hexDecode_take_add_two (hex : List Octet) (n : Nat) (hn : n % 2 = 0) (h : n + 2 ≤ hex.length) :
    hexDecode (hex.take (n + 2)) = hexDecode (hex.take n) ++
      [BitVec.ofNat 8 (16 * hexVal (hex.getD n 0) + hexVal (hex.getD (n + 1) 0))] := by
  rw [take_add_two hex n h, hexDecode_append _ _ (by simp; omega)]
  simp [hexDecode]

theorem hexEqRev_safe_loop_zero (hO : 0 < O) (hex buf : List Octet) (diff : BitVec (8 * O))
    (hl : 2 * buf.length ≤ hex.length) (hv : ∀ c ∈ hex, hexVal c < 16) :
    hexEqRev_safe.loop O hex (2 * buf.length) (2 * buf.length) buf diff = 0 ↔
      diff = 0 ∧ buf = (hexDecode (hex.take (2 * buf.length))).reverse := by
  induction buf generalizing diff with
  | nil => simp [hexEqRev_safe.loop, hexDecode]
  | cons x buf ih =>
    have hlen : 2 * (x :: buf).length = 2 * buf.length + 2 := by simp; omega
    rw [hlen] at hl ⊢
    have hm0 : hex.getD (2 * buf.length) 0 ∈ hex := by
      have : hex.getD (2 * buf.length) 0 = hex[2 * buf.length] := by
        simp [List.getD_eq_getElem?_getD, show 2 * buf.length < hex.length by omega]
      rw [this]; exact List.getElem_mem _
    have hm1 : hex.getD (2 * buf.length + 1) 0 ∈ hex := by
      have : hex.getD (2 * buf.length + 1) 0 = hex[2 * buf.length + 1] := by
        simp [List.getD_eq_getElem?_getD, show 2 * buf.length + 1 < hex.length by omega]
      rw [this]; exact List.getElem_mem _
    rw [hexEqRev_safe.loop]
    simp only [Nat.add_sub_cancel]
    rw [ih _ (by omega), or_eq_zero, i2w_xor_eq_zero (by omega),
      hexDecode_take_add_two hex _ (by omega) hl, hexToO_eq _ _ (hv _ hm0) (hv _ hm1)]
    simp only [List.reverse_append, List.reverse_cons, List.reverse_nil, List.nil_append, List.cons_append,
      List.cons.injEq, and_assoc]

theorem hexEqRev_fast_loop_iff (hex buf : List Octet)
    (hl : 2 * buf.length ≤ hex.length) (hv : ∀ c ∈ hex, hexVal c < 16) :
    hexEqRev_fast.loop hex (2 * buf.length) (2 * buf.length) buf = true ↔
      buf = (hexDecode (hex.take (2 * buf.length))).reverse := by
  induction buf with
  | nil => simp [hexEqRev_fast.loop, hexDecode]
  | cons x buf ih =>
    have hlen : 2 * (x :: buf).length = 2 * buf.length + 2 := by simp; omega
    rw [hlen] at hl ⊢
    have hm0 : hex.getD (2 * buf.length) 0 ∈ hex := by
      have : hex.getD (2 * buf.length) 0 = hex[2 * buf.length] := by
        simp [List.getD_eq_getElem?_getD, show 2 * buf.length < hex.length by omega]
      rw [this]; exact List.getElem_mem _
    have hm1 : hex.getD (2 * buf.length + 1) 0 ∈ hex := by
      have : hex.getD (2 * buf.length + 1) 0 = hex[2 * buf.length + 1] := by
        simp [List.getD_eq_getElem?_getD, show 2 * buf.length + 1 < hex.length by omega]
      rw [this]; exact List.getElem_mem _
    rw [hexEqRev_fast.loop]
    simp only [Nat.add_sub_cancel]
    rw [hexDecode_take_add_two hex _ (by omega) hl, hexToO_eq _ _ (hv _ hm0) (hv _ hm1)]
    simp only [List.reverse_append, List.reverse_cons, List.reverse_nil, List.nil_append, List.cons_append,
      List.cons.injEq]
    by_cases hx : x = BitVec.ofNat 8 (16 * hexVal (hex.getD (2 * buf.length) 0) + hexVal (hex.getD (2 * buf.length + 1) 0))
    · rw [if_neg (by simpa using hx), ih (by omega)]
      simp only [hx, true_and]
    · rw [if_pos hx]
      exact false_iff_of_not (fun h => hx h.1)

end Bee2V.C14.Cmp

/-
C14 — the small imperative IR into which xlate/x_c14_ir.py translates the SAFE (regular)
routines of bee2 and the verification paths, its executable *trace semantics*, the
information-flow checker `ctProg`, and (in `IRSound.lean`) the soundness theorem of the checker.

No Mathlib (this file is imported by the native driver `drv_c14`).

Values are naturals; every arithmetic node carries the C type (width, signedness) that clang
assigned to it, and wraps its result to that width (two's complement for signed types).
Memory is byte addressed and split in two address spaces: `sec` (operand values, tags, keys,
data — SECRET) and `pub` (contents that are public by policy: the hex string of hexEq, ...);
which space an access goes to is fixed statically by the translator from the base pointer.
Pointers themselves (addresses) are ordinary values and are public by policy.

Observations (`Obs`):
  * `br b`      — outcome of every executed conditional: `if`, loop test, `&&`, `||`, `?:`;
  * `addr p a`  — address of every load/store (only in the address-observing semantics
                  `strict = true`, used for the arithmetic/comparison routines);
  * `ext f`     — a call of an external routine that is not translated (opaque).
-/
import Std.Data.HashMap

namespace Bee2V.C14.IR

structure Ty where
  bits : Nat
  sg : Bool
deriving DecidableEq, Repr, Inhabited

inductive UnOp | neg | bnot | lnot
deriving DecidableEq, Repr

inductive BinOp | add | sub | mul | band | bor | bxor | shl | shr | lt | le | gt | ge | eq | ne | div | rem
deriving DecidableEq, Repr

inductive Expr
  | var (x : Nat)
  | const (n : Nat)
  | un (op : UnOp) (t : Ty) (e : Expr)
  | bin (op : BinOp) (t : Ty) (a b : Expr)
  | cast (src dst : Ty) (e : Expr)
  | load (pub : Bool) (bytes : Nat) (addr : Expr)
  | land (a b : Expr)
  | lor (a b : Expr)
  | cond (c a b : Expr)
deriving Repr, Inhabited

inductive Stmt
  | skip
  | assign (x : Nat) (e : Expr)
  | store (pub : Bool) (bytes : Nat) (addr val : Expr)
  | seq (a b : Stmt)
  | ite (c : Expr) (a b : Stmt)
  /-- `for (;; step) { pre; if (!c) break; body }` — `pre` holds the side effects of the C
      condition (e.g. `count--`), `continue` jumps to `step`. -/
  | loop (pre : Stmt) (c : Expr) (body step : Stmt)
  | ret (e : Expr)
  | brk
  | cont
  | call (dst : Option Nat) (f : Nat) (args : List Expr)
  /-- call of an untranslated routine: no effect on the frame except that `dst` receives the next
      value of the oracle stream `Env.ora` (results of external routines are PUBLIC by assumption) -/
  | ext (dst : Option Nat) (f : Nat) (args : List Expr)
deriving Repr, Inhabited

/-- one translated C function: parameters are variables `0 .. nparams-1`;
`pubv` lists the PUBLIC variables (lengths, pointers, counters); every other variable is secret -/
structure Fun where
  nparams : Nat
  pubv : List Nat
  retPub : Bool
  body : Stmt
deriving Repr, Inhabited

def Fun.L (f : Fun) (x : Nat) : Bool := f.pubv.contains x

structure Prog where
  funs : List Fun
  /-- external (untranslated) routines that the policy accepts as opaque primitives -/
  allowExt : List Nat
deriving Repr, Inhabited

inductive Obs
  | br (b : Bool)
  | addr (pub : Bool) (a : Nat)
  | ext (f : Nat)
deriving DecidableEq, Repr

/-! ### values -/

def wrap (t : Ty) (v : Nat) : Nat := v % 2 ^ t.bits

def toInt (t : Ty) (v : Nat) : Int :=
  if t.sg && decide (2 ^ (t.bits - 1) ≤ v) then (v : Int) - (2 ^ t.bits : Nat) else (v : Int)

def ofInt (t : Ty) (i : Int) : Nat := (i % ((2 ^ t.bits : Nat) : Int)).toNat

def b2n (b : Bool) : Nat := if b then 1 else 0

def unop (op : UnOp) (t : Ty) (a : Nat) : Nat :=
  match op with
  | .neg => ofInt t (-(a : Int))
  | .bnot => wrap t (2 ^ t.bits - 1 - wrap t a)
  | .lnot => b2n (a == 0)

def binop (op : BinOp) (t : Ty) (a b : Nat) : Nat :=
  match op with
  | .add => wrap t (a + b)
  | .sub => ofInt t ((a : Int) - (b : Int))
  | .mul => wrap t (a * b)
  | .band => a &&& b
  | .bor => a ||| b
  | .bxor => a ^^^ b
  | .shl => if b < t.bits then wrap t (a <<< b) else 0
  | .shr => if t.sg then ofInt t (toInt t a >>> b) else a >>> b
  | .lt => b2n (decide (toInt t a < toInt t b))
  | .le => b2n (decide (toInt t a ≤ toInt t b))
  | .gt => b2n (decide (toInt t a > toInt t b))
  | .ge => b2n (decide (toInt t a ≥ toInt t b))
  | .eq => b2n (a == b)
  | .ne => b2n (a != b)
  | .div => if t.sg then ofInt t (Int.tdiv (toInt t a) (toInt t b)) else a / b
  | .rem => if t.sg then ofInt t (Int.tmod (toInt t a) (toInt t b)) else a % b

/-! ### stores, environment -/

abbrev Store := Std.HashMap Nat Nat

def rd (s : Store) (k : Nat) : Nat := s.getD k 0
def wr (s : Store) (k v : Nat) : Store := s.insert k v

theorem rd_wr (s : Store) (k v k' : Nat) : rd (wr s k v) k' = if k = k' then v else rd s k' := by
  simp [rd, wr, Std.HashMap.getD_insert]

/-- little-endian load of `n` octets -/
def loadN (m : Store) (a : Nat) : Nat → Nat
  | 0 => 0
  | n + 1 => rd m a + 256 * loadN m (a + 1) n

/-- little-endian store of `n` octets -/
def storeN (m : Store) (a v : Nat) : Nat → Store
  | 0 => m
  | n + 1 => storeN (wr m a (v % 256)) (a + 1) (v / 256) n

/-- frame status: 0 running, 1 `break`, 2 `continue`, 3 returned, 8 stuck (unknown callee), 9 out of fuel -/
structure Env where
  vars : Store
  sec : Store
  pub : Store
  st : Nat
  rv : Nat
  /-- results that the external (untranslated) routines will return, in call order -/
  ora : List Nat

def Env.setVar (e : Env) (x v : Nat) : Env := { e with vars := wr e.vars x v }

/-! ### expressions: value and trace -/

def evalE (strict : Bool) (e : Env) : Expr → Nat × List Obs
  | .var x => (rd e.vars x, [])
  | .const n => (n, [])
  | .un op t a => let r := evalE strict e a; (unop op t r.1, r.2)
  | .bin op t a b =>
      let ra := evalE strict e a
      let rb := evalE strict e b
      (binop op t ra.1 rb.1, ra.2 ++ rb.2)
  | .cast s d a => let r := evalE strict e a; (ofInt d (toInt s r.1), r.2)
  | .load p n a =>
      let r := evalE strict e a
      (loadN (if p then e.pub else e.sec) r.1 n, r.2 ++ (if strict then [Obs.addr p r.1] else []))
  | .land a b =>
      let ra := evalE strict e a
      if ra.1 = 0 then (0, ra.2 ++ [Obs.br false])
      else let rb := evalE strict e b; (b2n (rb.1 != 0), ra.2 ++ Obs.br true :: rb.2)
  | .lor a b =>
      let ra := evalE strict e a
      if ra.1 = 0 then let rb := evalE strict e b; (b2n (rb.1 != 0), ra.2 ++ Obs.br false :: rb.2)
      else (1, ra.2 ++ [Obs.br true])
  | .cond c a b =>
      let rc := evalE strict e c
      if rc.1 = 0 then let rb := evalE strict e b; (rb.1, rc.2 ++ Obs.br false :: rb.2)
      else let ra := evalE strict e a; (ra.1, rc.2 ++ Obs.br true :: ra.2)

def evalArgs (strict : Bool) (e : Env) : List Expr → List Nat × List Obs
  | [] => ([], [])
  | a :: as =>
      let r := evalE strict e a
      let rs := evalArgs strict e as
      (r.1 :: rs.1, r.2 ++ rs.2)

def bindArgs : Nat → List Nat → Store → Store
  | _, [], s => s
  | i, v :: vs, s => bindArgs (i + 1) vs (wr s i v)

/-! ### statements: state and trace (fuel bounds the recursion depth) -/

def exec (P : Prog) (strict : Bool) : Nat → Stmt → Env → Env × List Obs
  | 0, _, e => ({ e with st := 9 }, [])
  | _ + 1, .skip, e => (e, [])
  | _ + 1, .assign x a, e => let r := evalE strict e a; (e.setVar x r.1, r.2)
  | _ + 1, .store p n a v, e =>
      let ra := evalE strict e a
      let rv := evalE strict e v
      ((if p then { e with pub := storeN e.pub ra.1 rv.1 n } else { e with sec := storeN e.sec ra.1 rv.1 n }),
        ra.2 ++ rv.2 ++ (if strict then [Obs.addr p ra.1] else []))
  | f + 1, .seq a b, e =>
      let r1 := exec P strict f a e
      if r1.1.st = 0 then
        let r2 := exec P strict f b r1.1
        (r2.1, r1.2 ++ r2.2)
      else r1
  | f + 1, .ite c a b, e =>
      let rc := evalE strict e c
      if rc.1 = 0 then
        let r := exec P strict f b e
        (r.1, rc.2 ++ Obs.br false :: r.2)
      else
        let r := exec P strict f a e
        (r.1, rc.2 ++ Obs.br true :: r.2)
  | f + 1, .loop pre c body step, e =>
      let r0 := exec P strict f pre e
      if r0.1.st = 0 then
        let rc := evalE strict r0.1 c
        if rc.1 = 0 then (r0.1, r0.2 ++ (rc.2 ++ [Obs.br false]))
        else
          let r1 := exec P strict f body r0.1
          if r1.1.st = 1 then ({ r1.1 with st := 0 }, r0.2 ++ (rc.2 ++ Obs.br true :: r1.2))
          else if r1.1.st = 0 ∨ r1.1.st = 2 then
            let r2 := exec P strict f step { r1.1 with st := 0 }
            if r2.1.st = 0 then
              let r3 := exec P strict f (.loop pre c body step) r2.1
              (r3.1, r0.2 ++ (rc.2 ++ Obs.br true :: (r1.2 ++ (r2.2 ++ r3.2))))
            else (r2.1, r0.2 ++ (rc.2 ++ Obs.br true :: (r1.2 ++ r2.2)))
          else (r1.1, r0.2 ++ (rc.2 ++ Obs.br true :: r1.2))
      else r0
  | _ + 1, .ret a, e => let r := evalE strict e a; ({ e with rv := r.1, st := 3 }, r.2)
  | _ + 1, .brk, e => ({ e with st := 1 }, [])
  | _ + 1, .cont, e => ({ e with st := 2 }, [])
  | f + 1, .call dst g args, e =>
      let ra := evalArgs strict e args
      match P.funs[g]? with
      | none => ({ e with st := 8 }, ra.2)
      | some fn =>
        let r := exec P strict f fn.body
          { vars := bindArgs 0 ra.1 ∅, sec := e.sec, pub := e.pub, st := 0, rv := 0, ora := e.ora }
        let e' : Env := { e with sec := r.1.sec, pub := r.1.pub, ora := r.1.ora,
                                 st := if r.1.st = 8 ∨ r.1.st = 9 then r.1.st else 0 }
        ((match dst with
          | some x => e'.setVar x r.1.rv
          | none => e'), ra.2 ++ r.2)
  | _ + 1, .ext dst g args, e =>
      let ra := evalArgs strict e args
      ((match dst with
        | some x => { e with vars := wr e.vars x (e.ora.headD 0), ora := e.ora.tail }
        | none => e), ra.2 ++ [Obs.ext g])

/-! ### the checker -/

/-- label of an expression: `true` = may depend on secret data -/
def lab (L : Nat → Bool) : Expr → Bool
  | .var x => !L x
  | .const _ => false
  | .un _ _ a => lab L a
  | .bin _ _ a b => lab L a || lab L b
  | .cast _ _ a => lab L a
  | .load p _ a => !p || lab L a
  | .land a b => lab L a || lab L b
  | .lor a b => lab L a || lab L b
  | .cond c a b => lab L c || lab L a || lab L b

/-- an expression is accepted iff every `&&`, `||`, `?:` inside it tests a public value and
(address-observing semantics) every load address is public -/
def ctE (strict : Bool) (L : Nat → Bool) : Expr → Bool
  | .var _ => true
  | .const _ => true
  | .un _ _ a => ctE strict L a
  | .bin _ _ a b => ctE strict L a && ctE strict L b
  | .cast _ _ a => ctE strict L a
  | .load _ _ a => ctE strict L a && (!strict || !lab L a)
  | .land a b => ctE strict L a && ctE strict L b && !lab L a
  | .lor a b => ctE strict L a && ctE strict L b && !lab L a
  | .cond c a b => ctE strict L c && ctE strict L a && ctE strict L b && !lab L c

def ctArgs (strict : Bool) (L : Nat → Bool) (cal : Fun) : Nat → List Expr → Bool
  | _, [] => true
  | i, a :: as => ctE strict L a && (!cal.L i || !lab L a) && ctArgs strict L cal (i + 1) as

def ctExt (strict : Bool) (L : Nat → Bool) : List Expr → Bool
  | [] => true
  | a :: as => ctE strict L a && ctExt strict L as

def ctS (P : Prog) (strict : Bool) (fn : Fun) : Stmt → Bool
  | .skip => true
  | .assign x a => ctE strict fn.L a && (!fn.L x || !lab fn.L a)
  | .store p _ a v =>
      ctE strict fn.L a && ctE strict fn.L v && (!strict || !lab fn.L a) &&
      (!p || (!lab fn.L a && !lab fn.L v))
  | .seq a b => ctS P strict fn a && ctS P strict fn b
  | .ite c a b => ctE strict fn.L c && !lab fn.L c && ctS P strict fn a && ctS P strict fn b
  | .loop pre c body step =>
      ctS P strict fn pre && ctE strict fn.L c && !lab fn.L c && ctS P strict fn body && ctS P strict fn step
  | .ret a => ctE strict fn.L a && (!fn.retPub || !lab fn.L a)
  | .brk => true
  | .cont => true
  | .call dst g args =>
      match P.funs[g]? with
      | none => false
      | some cal =>
        ctArgs strict fn.L cal 0 args &&
        (match dst with
         | none => true
         | some x => !fn.L x || cal.retPub)
  | .ext _ g args => P.allowExt.contains g && ctExt strict fn.L args

def ctFun (P : Prog) (strict : Bool) (fn : Fun) : Bool := ctS P strict fn fn.body

/-- every function of the program is accepted -/
def ctProg (P : Prog) (strict : Bool) : Bool := P.funs.all (ctFun P strict)

end Bee2V.C14.IR

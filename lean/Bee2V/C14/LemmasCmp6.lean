/-
C14 — comparison family, helper lemmas, part 6: big-endian value, lexicographic comparison,
the FAST editions of memCmp / memCmpRev.
-/
import Bee2V.C14.LemmasCmp5
namespace Bee2V.C14.Cmp

theorem beNat_snoc (l : List Octet) (x : Octet) : beNat (l ++ [x]) = x.toNat + 256 * beNat l := by
  simp [beNat, leNat]

theorem beNat_append (a b : List Octet) : beNat (a ++ b) = beNat a * 256 ^ b.length + beNat b := by
  simp only [beNat, List.reverse_append, leNat_append, List.length_reverse]
  rw [Nat.add_comm, Nat.mul_comm]

theorem beNat_cons (x : Octet) (l : List Octet) : beNat (x :: l) = x.toNat * 256 ^ l.length + beNat l := by
  have := beNat_append [x] l
  simpa [beNat, leNat] using this

theorem beNat_lt (l : List Octet) : beNat l < 256 ^ l.length := by
  have := leNat_lt l.reverse
  simpa [beNat] using this

theorem lexCmp_sign (a b : List Octet) : Sign (lexCmp a b) := by
  fun_induction lexCmp a b with
  | case1 => simp [Sign]
  | case2 => simp [Sign]
  | case3 _ _ _ _ _ _ ih => exact ih
  | case4 => simp [Sign]

theorem lexCmp_eq_cmp3 (a b : List Octet) (h : a.length = b.length) :
    lexCmp a b = cmp3 (beNat a) (beNat b) := by
  induction a generalizing b with
  | nil => cases b with
    | nil => simp [lexCmp, cmp3]
    | cons _ _ => simp at h
  | cons x a ih =>
    cases b with
    | nil => simp at h
    | cons y b =>
      have hl : a.length = b.length := by simpa using h
      rw [lexCmp, beNat_cons, beNat_cons, hl, Nat.add_comm _ (beNat a), Nat.add_comm _ (beNat b),
        Nat.mul_comm x.toNat, Nat.mul_comm y.toNat,
        cmp3_top _ _ _ _ _ (hl ▸ beNat_lt a) (beNat_lt b), ih b hl]
      by_cases h1 : y.toNat < x.toNat
      · rw [if_neg (by omega), if_pos h1, if_pos h1]
      · rw [if_neg h1, if_neg h1]

theorem lexCmp_append (e1 e2 t1 t2 : List Octet) (h : e1.length = e2.length) :
    lexCmp (e1 ++ t1) (e2 ++ t2) = if lexCmp e1 e2 = 0 then lexCmp t1 t2 else lexCmp e1 e2 := by
  induction e1 generalizing e2 with
  | nil => cases e2 with
    | nil => simp [lexCmp]
    | cons _ _ => simp at h
  | cons x e1 ih =>
    cases e2 with
    | nil => simp at h
    | cons y e2 =>
      simp only [List.cons_append, lexCmp]
      by_cases h1 : x.toNat < y.toNat
      · simp [h1]
      · by_cases h2 : y.toNat < x.toNat
        · simp [h1, h2]
        · simp only [h1, h2, if_false]; exact ih e2 (by simpa using h)

theorem lexCmp_eq_zero (a b : List Octet) (h : a.length = b.length) (h0 : lexCmp a b = 0) : a = b := by
  induction a generalizing b with
  | nil => cases b with
    | nil => rfl
    | cons _ _ => simp at h
  | cons x a ih =>
    cases b with
    | nil => simp at h
    | cons y b =>
      rw [lexCmp] at h0
      by_cases h1 : x.toNat < y.toNat
      · simp [h1] at h0
      · by_cases h2 : y.toNat < x.toNat
        · simp [h1, h2] at h0
        · simp only [h1, h2, if_false] at h0
          rw [ih b (by simpa using h) h0, BitVec.eq_of_toNat_eq (show x.toNat = y.toNat by omega)]

theorem memCmp_fast_eq (a b : List Octet) : memCmp_fast a b = lexCmp a b := by
  fun_induction memCmp_fast a b with
  | case1 x b1 y b2 h =>
    rw [lexCmp]
    have : y.toNat < x.toNat := by simpa [BitVec.ult_iff_lt, BitVec.lt_def] using h
    rw [if_neg (by omega), if_pos this]
  | case2 x b1 y b2 h1 h2 =>
    rw [lexCmp]
    have : x.toNat < y.toNat := by simpa [BitVec.ult_iff_lt, BitVec.lt_def] using h2
    rw [if_pos this]
  | case3 x b1 y b2 h1 h2 ih =>
    rw [lexCmp, ih]
    have h1' : ¬ y.toNat < x.toNat := by simpa [BitVec.ult_iff_lt, BitVec.lt_def] using h1
    have h2' : ¬ x.toNat < y.toNat := by simpa [BitVec.ult_iff_lt, BitVec.lt_def] using h2
    rw [if_neg h2', if_neg h1']
  | case4 a b hne =>
    unfold lexCmp
    split
    · exact absurd rfl (hne _ _ _ _ rfl)
    · rfl

theorem leNat_take_succ (a : List Octet) (n : Nat) (hn : n < a.length) :
    leNat (a.take (n + 1)) = leNat (a.take n) + 256 ^ n * (a.getD n 0).toNat := by
  have : a.getD n 0 = a[n] := by simp [List.getD_eq_getElem?_getD, hn]
  rw [List.take_add_one, leNat_append, this]
  simp [List.getElem?_eq_getElem hn, leNat, Nat.min_eq_left (Nat.le_of_lt hn)]

theorem memCmpRev_fast_eq_take (a b : List Octet) (n : Nat) (ha : n ≤ a.length) (hb : n ≤ b.length) :
    memCmpRev_fast a b n = cmp3 (leNat (a.take n)) (leNat (b.take n)) := by
  induction n with
  | zero => simp [memCmpRev_fast, cmp3, leNat]
  | succ n ih =>
    rw [memCmpRev_fast, leNat_take_succ a n (by omega), leNat_take_succ b n (by omega), cmp3_top,
      ih (by omega) (by omega)]
    · simp only [BitVec.ult_iff_lt, BitVec.lt_def]
    · have := leNat_lt (a.take n); simpa [Nat.min_eq_left (show n ≤ a.length by omega)] using this
    · have := leNat_lt (b.take n); simpa [Nat.min_eq_left (show n ≤ b.length by omega)] using this

end Bee2V.C14.Cmp

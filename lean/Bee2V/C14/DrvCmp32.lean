/-
C14 — comparison family on 32-bit words (B_PER_W = 32, O_PER_W = 4): the same generic models of
ModelCmp.lean instantiated at w = 32.  Ops `wwEq32 … wwIsRepW32`; word arrays are little-endian
octets, length a multiple of 4.
-/
import Bee2V.C14.DrvCmp
namespace Bee2V.C14.Cmp
open Bee2V.Proto

def wordsOfOctets32 (l : List Octet) : Option (List (BitVec 32)) :=
  if l.length = 0 then some []
  else if l.length < 4 then none
  else (wordsOfOctets32 (l.drop 4)).map (loadLE 4 l :: ·)
termination_by l.length
decreasing_by simp only [List.length_drop]; omega

def words32 (s : String) : Option (List (BitVec 32)) := (octs s).bind wordsOfOctets32

def handle32 : List String → String
  | ["wwEq32", ed, a, b] =>
    match edOf ed, words32 a, words32 b with
    | some e, some a, some b =>
      if a.length ≠ b.length then "bad-op"
      else bit (if e then wwEq_safe a b a.length else wwEq_fast a b a.length)
    | _, _, _ => "bad-op"
  | ["wwCmp32", ed, a, b] =>
    match edOf ed, words32 a, words32 b with
    | some e, some a, some b =>
      if a.length ≠ b.length then "bad-op"
      else int (if e then wwCmp_safe a b a.length else wwCmp_fast a b a.length)
    | _, _, _ => "bad-op"
  | ["wwCmp232", ed, a, b] =>
    match edOf ed, words32 a, words32 b with
    | some e, some a, some b =>
      int (if e then wwCmp2_safe a a.length b b.length else wwCmp2_fast a a.length b b.length)
    | _, _, _ => "bad-op"
  | ["wwCmpW32", ed, a, x] =>
    match edOf ed, words32 a, fits 32 x with
    | some e, some a, some x =>
      int (if e then wwCmpW_safe a a.length x else wwCmpW_fast a a.length x)
    | _, _, _ => "bad-op"
  | ["wwIsZero32", ed, a] =>
    match edOf ed, words32 a with
    | some e, some a => bit (if e then wwIsZero_safe a a.length else wwIsZero_fast a a.length)
    | _, _ => "bad-op"
  | ["wwIsW32", ed, a, x] =>
    match edOf ed, words32 a, fits 32 x with
    | some e, some a, some x =>
      bit (if e then wwIsW_safe a a.length x else wwIsW_fast a a.length x)
    | _, _, _ => "bad-op"
  | ["wwIsRepW32", ed, a, x] =>
    match edOf ed, words32 a, fits 32 x with
    | some e, some a, some x =>
      bit (if e then wwIsRepW_safe a a.length x else wwIsRepW_fast a a.length x)
    | _, _, _ => "bad-op"
  | toks => handle toks

end Bee2V.C14.Cmp

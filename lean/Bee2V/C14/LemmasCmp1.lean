/-
C14 — comparison family, helper lemmas, part 1: index/list bridges and the equality-type
loops of ww.c (wwEq, wwIsZero, wwIsW, wwIsRepW).
-/
import Bee2V.C14.ModelCmp
namespace Bee2V.C14.Cmp

theorem forall_lt_succ {P : Nat → Prop} (n : Nat) :
    (∀ i < n + 1, P i) ↔ (∀ i < n, P i) ∧ P n := by
  constructor
  · intro h; exact ⟨fun i hi => h i (by omega), h n (by omega)⟩
  · intro ⟨h1, h2⟩ i hi
    by_cases h : i = n
    · subst h; exact h2
    · exact h1 i (by omega)

theorem list_eq_iff_getD {α} (d : α) (a b : List α) (n : Nat) (ha : a.length = n) (hb : b.length = n) :
    a = b ↔ ∀ i < n, a.getD i d = b.getD i d := by
  constructor
  · intro h _ _; rw [h]
  · intro h
    apply List.ext_getElem (by omega)
    intro i h1 h2
    have := h i (by omega)
    simpa [List.getD_eq_getElem?_getD, h1, h2] using this

variable {w : Nat}

theorem or_eq_zero (x y : BitVec w) : x ||| y = 0 ↔ x = 0 ∧ y = 0 := by
  simp [BitVec.or_eq_zero_iff]
theorem xor_eq_zero (x y : BitVec w) : x ^^^ y = 0 ↔ x = y := by
  simp [BitVec.xor_eq_zero_iff]

theorem wwEq_safe_loop_zero (a b : List (BitVec w)) (n : Nat) (diff : BitVec w) :
    wwEq_safe.loop a b n diff = 0 ↔ diff = 0 ∧ ∀ i < n, a.getD i 0 = b.getD i 0 := by
  induction n generalizing diff with
  | zero => simp [wwEq_safe.loop]
  | succ n ih =>
    rw [wwEq_safe.loop, ih, forall_lt_succ, or_eq_zero, xor_eq_zero]
    constructor <;> (intro h; simp_all)

theorem wwEq_fast_iff (a b : List (BitVec w)) (n : Nat) :
    wwEq_fast a b n = true ↔ ∀ i < n, a.getD i 0 = b.getD i 0 := by
  induction n with
  | zero => simp [wwEq_fast]
  | succ n ih =>
    rw [wwEq_fast, forall_lt_succ, ← ih]
    by_cases h : a.getD n 0 = b.getD n 0 <;> simp only [h, ne_eq, not_true_eq_false, not_false_eq_true, if_true, if_false] <;> simp

theorem forall_pos_lt_succ {P : Nat → Prop} (n : Nat) (hn : n ≠ 0) :
    (∀ i, 0 < i → i < n + 1 → P i) ↔ (∀ i, 0 < i → i < n → P i) ∧ P n := by
  constructor
  · intro h; exact ⟨fun i h0 hi => h i h0 (by omega), h n (by omega) (by omega)⟩
  · intro ⟨h1, h2⟩ i h0 hi
    by_cases h : i = n
    · subst h; exact h2
    · exact h1 i h0 (by omega)

theorem bool_eq_decide {b : Bool} {p : Prop} [Decidable p] (h : b = true ↔ p) : b = decide p := by
  cases b <;> simp_all

theorem forall_getD_iff_mem {α} (d : α) (P : α → Prop) (a : List α) (n : Nat) (ha : a.length = n) :
    (∀ i < n, P (a.getD i d)) ↔ ∀ x ∈ a, P x := by
  subst ha
  constructor
  · intro h x hx
    obtain ⟨i, hi, rfl⟩ := List.getElem_of_mem hx
    simpa [List.getD_eq_getElem?_getD, hi] using h i hi
  · intro h i hi
    have : a.getD i d = a[i] := by simp [List.getD_eq_getElem?_getD, hi]
    rw [this]; exact h _ (List.getElem_mem hi)


theorem wwIsZero_safe_loop_zero (a : List (BitVec w)) (n : Nat) (diff : BitVec w) :
    wwIsZero_safe.loop a n diff = 0 ↔ diff = 0 ∧ ∀ i < n, a.getD i 0 = 0 := by
  induction n generalizing diff with
  | zero => simp [wwIsZero_safe.loop]
  | succ n ih =>
    rw [wwIsZero_safe.loop, ih, forall_lt_succ, or_eq_zero]
    constructor <;> (intro h; simp_all)

theorem wwIsZero_fast_iff (a : List (BitVec w)) (n : Nat) :
    wwIsZero_fast a n = true ↔ ∀ i < n, a.getD i 0 = 0 := by
  induction n with
  | zero => simp [wwIsZero_fast]
  | succ n ih =>
    rw [wwIsZero_fast, forall_lt_succ, ← ih]
    by_cases h : a.getD n 0 = 0 <;> simp only [h, ne_eq, not_true_eq_false, not_false_eq_true, if_true, if_false] <;> simp

theorem wwIsZero_safe_iff (a : List (BitVec w)) (n : Nat) :
    wwIsZero_safe a n = true ↔ ∀ i < n, a.getD i 0 = 0 := by
  simp only [wwIsZero_safe, beq_iff_eq, wwIsZero_safe_loop_zero, true_and]

theorem wwIsW_safe_loop_iff (a : List (BitVec w)) (n : Nat) (ret : Bool) :
    wwIsW_safe.loop a n ret = true ↔ ret = true ∧ ∀ i, 0 < i → i < n → a.getD i 0 = 0 := by
  induction n generalizing ret with
  | zero => simp [wwIsW_safe.loop]
  | succ n ih =>
    rw [wwIsW_safe.loop]
    by_cases hn : n = 0
    · subst hn; simp; intro _ i h1 h2; omega
    · rw [if_pos hn, ih, forall_pos_lt_succ n hn]
      simp only [Bool.and_eq_true, beq_iff_eq, and_assoc]
      constructor <;> (intro h; simp_all)

theorem wwIsW_fast_loop_iff (a : List (BitVec w)) (n : Nat) (ret : Bool) :
    wwIsW_fast.loop a n ret = true ↔ ret = true ∧ ∀ i, 0 < i → i < n → a.getD i 0 = 0 := by
  induction n generalizing ret with
  | zero => simp [wwIsW_fast.loop]
  | succ n ih =>
    rw [wwIsW_fast.loop]
    by_cases hn : n = 0
    · subst hn; simp; intro _ i h1 h2; omega
    · cases ret
      · simp
      · simp only [Bool.true_and, ne_eq, hn, not_false_eq_true, decide_true, if_true, ih,
          beq_iff_eq, forall_pos_lt_succ n hn, true_and]
        constructor <;> (intro h; simp_all)

theorem wwIsRepW_safe_loop_iff (a : List (BitVec w)) (x : BitVec w) (n : Nat) (ret : Bool) :
    wwIsRepW_safe.loop a x n ret = true ↔ ret = true ∧ ∀ i, 0 < i → i < n → a.getD i 0 = x := by
  induction n generalizing ret with
  | zero => simp [wwIsRepW_safe.loop]
  | succ n ih =>
    rw [wwIsRepW_safe.loop]
    by_cases hn : n = 0
    · subst hn; simp; intro _ i h1 h2; omega
    · rw [if_pos hn, ih, forall_pos_lt_succ n hn]
      simp only [Bool.and_eq_true, beq_iff_eq, and_assoc]
      constructor <;> (intro h; simp_all)

theorem wwIsRepW_fast_loop_iff (a : List (BitVec w)) (x : BitVec w) (n : Nat) (hn : n ≠ 0) :
    wwIsRepW_fast.loop a x n = true ↔ ∀ i < n, a.getD i 0 = x := by
  induction n with
  | zero => simp at hn
  | succ n ih =>
    rw [wwIsRepW_fast.loop, forall_lt_succ]
    by_cases h0 : n = 0
    · subst h0; simp
    · by_cases hx : a.getD n 0 = x
      · simp only [hx, beq_self_eq_true, Bool.true_and, ne_eq, h0, not_false_eq_true, decide_true, if_true, ih h0, and_true]
      · have hb : (a.getD n 0 == x) = false := by simpa using hx
        simp only [hb, Bool.false_and, hx, and_false]; simp

end Bee2V.C14.Cmp

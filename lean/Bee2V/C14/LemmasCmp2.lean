/-
C14 — comparison family, helper lemmas, part 2: the (less, greater) accumulator, the numeric
value of a word string, wwCmp.
-/
import Bee2V.C14.LemmasCmp1
namespace Bee2V.C14.Cmp
variable {w : Nat}

def enc (c : Int) : BitVec w × BitVec w := (b2w (c == -1), b2w (c == 1))
def Sign (c : Int) : Prop := c = -1 ∨ c = 0 ∨ c = 1
theorem lgStep_enc (c : Int) (hc : Sign c) (lt gt : Bool) (hx : ¬(lt = true ∧ gt = true)) :
    lgStep (enc c).1 (enc c).2 lt gt
      = (enc (if c = 0 then (if gt then 1 else if lt then -1 else 0) else c) : BitVec w × BitVec w) := by
  rcases hc with rfl | rfl | rfl <;> cases lt <;> cases gt <;>
    simp_all [lgStep, enc, b2w, BitVec.not_and_self]
theorem lgRet_enc (hw : 0 < w) (c : Int) (hc : Sign c) : lgRet (enc c : BitVec w × BitVec w).1 (enc c).2 = c := by
  have h1 : w ≠ 0 := by omega
  rcases hc with rfl | rfl | rfl <;> simp [lgRet, enc, b2w, b2i, h1] <;> decide

theorem ult_asymm (x y : BitVec w) : ¬(x.ult y = true ∧ y.ult x = true) := by
  simp only [BitVec.ult_iff_lt, BitVec.lt_def]; omega

theorem wwCmp_fast_sign (a b : List (BitVec w)) (n : Nat) : Sign (wwCmp_fast a b n) := by
  induction n with
  | zero => simp [wwCmp_fast, Sign]
  | succ n ih =>
    rw [wwCmp_fast]; split
    · simp [Sign]
    · split
      · simp [Sign]
      · exact ih

theorem wwCmp_safe_loop_enc (a b : List (BitVec w)) (n : Nat) (c : Int) (hc : Sign c) :
    wwCmp_safe.loop a b n (enc c).1 (enc c).2 = enc (if c = 0 then wwCmp_fast a b n else c) := by
  induction n generalizing c with
  | zero => rcases hc with rfl | rfl | rfl <;> simp [wwCmp_safe.loop, wwCmp_fast]
  | succ n ih =>
    rw [wwCmp_safe.loop]
    rw [lgStep_enc c hc _ _ (ult_asymm _ _), wwCmp_fast]
    by_cases h0 : c = 0
    · subst h0
      simp only [if_true]
      cases h1 : (b.getD n 0).ult (a.getD n 0)
      · cases h2 : (a.getD n 0).ult (b.getD n 0)
        · simp only [Bool.false_eq_true, if_false]; rw [ih 0 (by simp [Sign])]; simp
        · simp only [Bool.false_eq_true, if_false, if_true]; rw [ih (-1) (by simp [Sign])]; simp
      · simp only [if_true]; rw [ih 1 (by simp [Sign])]; simp
    · simp only [h0, if_false]; rw [ih c hc]; simp [h0]

theorem wwNat_append (a b : List (BitVec w)) :
    wwNat (a ++ b) = wwNat a + 2 ^ (w * a.length) * wwNat b := by
  induction a with
  | nil => simp [wwNat]
  | cons x a ih =>
    simp only [List.cons_append, wwNat, ih, List.length_cons, Nat.mul_add, Nat.mul_one, Nat.pow_add]
    ac_rfl

theorem wwNat_lt (a : List (BitVec w)) : wwNat a < 2 ^ (w * a.length) := by
  induction a with
  | nil => simp [wwNat]
  | cons x a ih =>
    simp only [wwNat, List.length_cons, Nat.mul_add, Nat.mul_one, Nat.pow_add]
    have hx := x.isLt
    have : 2 ^ w * (wwNat a + 1) ≤ 2 ^ w * 2 ^ (w * a.length) := Nat.mul_le_mul_left _ ih
    rw [Nat.mul_comm (2 ^ (w * a.length))]
    rw [Nat.mul_add] at this
    omega

theorem wwNat_eq_zero (a : List (BitVec w)) : wwNat a = 0 ↔ ∀ x ∈ a, x = 0 := by
  induction a with
  | nil => simp [wwNat]
  | cons x a ih =>
    simp only [wwNat, List.mem_cons, forall_eq_or_imp, ← ih]
    have hp : 0 < 2 ^ w := Nat.two_pow_pos w
    constructor
    · intro h
      have h1 : x.toNat = 0 := by omega
      have h2 : 2 ^ w * wwNat a = 0 := by omega
      refine ⟨BitVec.eq_of_toNat_eq (by simpa using h1), ?_⟩
      rcases Nat.mul_eq_zero.mp h2 with h | h
      · omega
      · exact h
    · rintro ⟨rfl, h⟩; simp [h]

theorem wwNat_take_succ (a : List (BitVec w)) (n : Nat) (hn : n < a.length) :
    wwNat (a.take (n + 1)) = wwNat (a.take n) + 2 ^ (w * n) * (a.getD n 0).toNat := by
  have : a.getD n 0 = a[n] := by simp [List.getD_eq_getElem?_getD, hn]
  rw [List.take_add_one, wwNat_append, this]
  simp [List.getElem?_eq_getElem hn, wwNat, Nat.min_eq_left (Nat.le_of_lt hn)]

/-- top-digit comparison decides -/
theorem cmp3_top (A B x y M : Nat) (hA : A < M) (hB : B < M) :
    cmp3 (A + M * x) (B + M * y) = if y < x then 1 else if x < y then -1 else cmp3 A B := by
  by_cases h1 : y < x
  · have : M * (y + 1) ≤ M * x := Nat.mul_le_mul_left _ h1
    rw [Nat.mul_add] at this
    simp only [h1, if_true, cmp3]
    rw [if_neg (by omega), if_pos (by omega)]
  · by_cases h2 : x < y
    · have : M * (x + 1) ≤ M * y := Nat.mul_le_mul_left _ h2
      rw [Nat.mul_add] at this
      simp only [h1, h2, if_true, if_false, cmp3]
      rw [if_pos (by omega)]
    · have : x = y := by omega
      subst this
      simp only [h1, if_false, cmp3]
      congr 1 <;> simp

theorem wwCmp_fast_eq_take (a b : List (BitVec w)) (n : Nat) (ha : n ≤ a.length) (hb : n ≤ b.length) :
    wwCmp_fast a b n = cmp3 (wwNat (a.take n)) (wwNat (b.take n)) := by
  induction n with
  | zero => simp [wwCmp_fast, cmp3, wwNat]
  | succ n ih =>
    rw [wwCmp_fast, wwNat_take_succ a n (by omega), wwNat_take_succ b n (by omega), cmp3_top, ih (by omega) (by omega)]
    · simp only [BitVec.ult_iff_lt, BitVec.lt_def]
    · have := wwNat_lt (a.take n); simpa [Nat.min_eq_left (show n ≤ a.length by omega)] using this
    · have := wwNat_lt (b.take n); simpa [Nat.min_eq_left (show n ≤ b.length by omega)] using this

end Bee2V.C14.Cmp

/-
C14 — comparison family.  Property theorems only (models: ModelCmp.lean, lemmas: LemmasCmp*.lean).

For every routine both editions are proved equal to a structure-free predicate, for ALL lengths:
  SAFE edition = spec,  FAST edition = spec,  hence SAFE = FAST.
Word strings: `wwNat a` is the little-endian number of the word list `a` (any word width `w`;
the comparison theorems need `0 < w`, the C has w ∈ {16, 32, 64}).
Each theorem is followed by an `example` with concrete non-trivial operands satisfying the
hypotheses (and evaluating the executable model on them).
-/
import Bee2V.C14.LemmasCmp11
namespace Bee2V.C14
open Cmp

/-! ### mem.c  (`O` = O_PER_W > 0, word width 8·O) -/
section Mem
variable (O : Nat)

/-- SAFE(memEq) (word-at-a-time, then octet tail) decides equality of the buffers -/
theorem memEq_safe_spec (hO : 0 < O) (a b : List Octet) (h : a.length = b.length) :
    memEq_safe O hO a b = decide (a = b) := bool_eq_decide (memEq_safe_iff O hO a b h)

/-- FAST(memEq) (`memcmp(..) == 0`) decides equality of the buffers -/
theorem memEq_fast_spec (a b : List Octet) (h : a.length = b.length) :
    memEq_fast a b = decide (a = b) := bool_eq_decide (memEq_fast_iff a b h)

theorem memEq_safe_eq_fast (hO : 0 < O) (a b : List Octet) (h : a.length = b.length) :
    memEq_safe O hO a b = memEq_fast a b := by
  rw [memEq_safe_spec O hO a b h, memEq_fast_spec a b h]

example : ([1, 2, 3, 4, 5] : List Octet).length = [1, 2, 3, 4, 6].length := rfl
example : memEq_safe 2 (by decide) [1, 2, 3, 4, 5] [1, 2, 3, 4, 6] = false
    ∧ memEq_fast [1, 2, 3, 4, 5] [1, 2, 3, 4, 5] = true := by
  rw [memEq_safe_spec 2 (by decide) [1, 2, 3, 4, 5] [1, 2, 3, 4, 6] rfl]; decide

/-- SAFE(memIsZero): all octets are zero -/
theorem memIsZero_safe_spec (hO : 0 < O) (a : List Octet) :
    memIsZero_safe O hO a = decide (∀ x ∈ a, x = 0) := bool_eq_decide (memIsZero_safe_iff O hO a)

theorem memIsZero_fast_spec (hO : 0 < O) (a : List Octet) :
    memIsZero_fast O hO a = decide (∀ x ∈ a, x = 0) := bool_eq_decide (memIsZero_fast_iff O hO a)

theorem memIsZero_safe_eq_fast (hO : 0 < O) (a : List Octet) :
    memIsZero_safe O hO a = memIsZero_fast O hO a := by
  rw [memIsZero_safe_spec, memIsZero_fast_spec]

example : memIsZero_safe 2 (by decide) [0, 0, 0, 0, 1] = false
    ∧ memIsZero_fast 2 (by decide) [0, 0, 0, 0, 0] = true := by
  rw [memIsZero_safe_spec, memIsZero_fast_spec]; decide

/-- SAFE(memIsRep): all octets equal `o` -/
theorem memIsRep_safe_spec (hO : 0 < O) (a : List Octet) (o : Octet) :
    memIsRep_safe O a o = decide (∀ x ∈ a, x = o) := bool_eq_decide (memIsRep_safe_iff O hO a o)

theorem memIsRep_fast_spec (a : List Octet) (o : Octet) :
    memIsRep_fast a o = decide (∀ x ∈ a, x = o) := bool_eq_decide (memIsRep_fast_iff a o)

theorem memIsRep_safe_eq_fast (hO : 0 < O) (a : List Octet) (o : Octet) :
    memIsRep_safe O a o = memIsRep_fast a o := by
  rw [memIsRep_safe_spec O hO, memIsRep_fast_spec]

example : memIsRep_safe 8 [7, 7, 7] 7 = true ∧ memIsRep_fast [7, 7, 6] 7 = false := by decide

/-- SAFE(memCmp) is the lexicographic comparison from the FIRST octet.  (The registers w1, w2
are never cleared in the C; the proof shows the stale high octets cannot change the verdict.) -/
theorem memCmp_safe_spec (hO : 0 < O) (a b : List Octet) (h : a.length = b.length) :
    memCmp_safe O a b = lexCmp a b := memCmp_safe_eq O hO a b h

theorem memCmp_fast_spec (a b : List Octet) : memCmp_fast a b = lexCmp a b := memCmp_fast_eq a b

/-- the lexicographic order from the first octet is the order of the big-endian numbers -/
theorem memCmp_safe_value (hO : 0 < O) (a b : List Octet) (h : a.length = b.length) :
    memCmp_safe O a b = cmp3 (beNat a) (beNat b) ∧ memCmp_fast a b = cmp3 (beNat a) (beNat b) := by
  rw [memCmp_safe_spec O hO a b h, memCmp_fast_spec, lexCmp_eq_cmp3 a b h]; exact ⟨rfl, rfl⟩

example : memCmp_safe 2 [1, 2, 3, 4, 5] [1, 2, 3, 4, 6] = -1 ∧ memCmp_fast [1, 2, 9, 4, 5] [1, 2, 3, 4, 6] = 1
    ∧ memCmp_safe 2 [9, 9, 3, 4, 5] [9, 9, 3, 4, 5] = 0 ∧ memCmp_safe 2 [1, 2, 3, 5, 5] [1, 2, 3, 4, 6] = 1 := by
  decide

/-- SAFE(memCmpRev) compares from the LAST octet: the order of the little-endian numbers -/
theorem memCmpRev_safe_spec (hO : 0 < O) (a b : List Octet) (count : Nat)
    (ha : a.length = count) (hb : b.length = count) :
    memCmpRev_safe O a b count = cmp3 (leNat a) (leNat b) := memCmpRev_safe_eq O hO a b count ha hb

theorem memCmpRev_fast_spec (a b : List Octet) (count : Nat) (ha : a.length = count) (hb : b.length = count) :
    memCmpRev_fast a b count = cmp3 (leNat a) (leNat b) := by
  rw [memCmpRev_fast_eq_take a b count (by omega) (by omega), List.take_of_length_le (by omega),
    List.take_of_length_le (by omega)]

example : memCmpRev_safe 2 [1, 2, 3, 4, 5] [9, 2, 3, 4, 5] 5 = -1
    ∧ memCmpRev_fast [1, 2, 3, 4, 5] [9, 2, 3, 4, 4] 5 = 1
    ∧ memCmpRev_safe 2 [1, 2, 3, 4, 5] [1, 2, 3, 4, 5] 5 = 0 := by decide

end Mem

/-! ### hex.c  (C strings as lists of chars-as-octets; precondition `hexIsValid hex`) -/
section Hex
variable (O : Nat)

/-- SAFE(hexEq): the buffer is the decoded hex string (octet i = 16·digit(2i) + digit(2i+1)) -/
theorem hexEq_safe_spec (hO : 0 < O) (buf hex : List Octet) (hv : hexIsValid hex = true)
    (hl : hex.length = 2 * buf.length) :
    hexEq_safe O buf hex = decide (buf = hexDecode hex) :=
  bool_eq_decide (by
    rw [hexEq_safe, beq_iff_eq, hexEq_safe_loop_zero O hO buf hex 0 hl ((hexIsValid_iff hex).mp hv).2]
    simp)

theorem hexEq_fast_spec (buf hex : List Octet) (hv : hexIsValid hex = true)
    (hl : hex.length = 2 * buf.length) :
    hexEq_fast buf hex = decide (buf = hexDecode hex) :=
  bool_eq_decide (hexEq_fast_iff buf hex hl ((hexIsValid_iff hex).mp hv).2)

/-- "0A1b" (as chars) is valid and has length 2·2 -/
example : hexIsValid [0x30, 0x41, 0x31, 0x62] = true ∧ hexDecode [0x30, 0x41, 0x31, 0x62] = [0x0A, 0x1B] := by
  decide
example : hexEq_safe 8 [0x0A, 0x1B] [0x30, 0x41, 0x31, 0x62] = true
    ∧ hexEq_fast [0x0A, 0x1C] [0x30, 0x41, 0x31, 0x62] = false := by decide

/-- SAFE(hexEqRev): the buffer is the decoded hex string in reverse octet order -/
theorem hexEqRev_safe_spec (hO : 0 < O) (buf hex : List Octet) (hv : hexIsValid hex = true)
    (hl : hex.length = 2 * buf.length) :
    hexEqRev_safe O buf hex = decide (buf = (hexDecode hex).reverse) :=
  bool_eq_decide (by
    have := hexEqRev_safe_loop_zero O hO hex buf 0 (by omega) ((hexIsValid_iff hex).mp hv).2
    rw [← hl, List.take_length] at this
    rw [hexEqRev_safe, beq_iff_eq, this]; simp)

theorem hexEqRev_fast_spec (buf hex : List Octet) (hv : hexIsValid hex = true)
    (hl : hex.length = 2 * buf.length) :
    hexEqRev_fast buf hex = decide (buf = (hexDecode hex).reverse) :=
  bool_eq_decide (by
    have := hexEqRev_fast_loop_iff hex buf (by omega) ((hexIsValid_iff hex).mp hv).2
    rw [← hl, List.take_length] at this
    rw [hexEqRev_fast, this])

example : hexEqRev_safe 8 [0x1B, 0x0A] [0x30, 0x41, 0x31, 0x62] = true
    ∧ hexEqRev_fast [0x0A, 0x1B] [0x30, 0x41, 0x31, 0x62] = false := by decide

end Hex

/-! ### ww.c -/
section WW
variable {w : Nat}

/-- SAFE(wwEq) decides equality of the two word strings -/
theorem wwEq_safe_spec (a b : List (BitVec w)) (n : Nat) (ha : a.length = n) (hb : b.length = n) :
    wwEq_safe a b n = decide (a = b) :=
  bool_eq_decide (by
    rw [wwEq_safe, beq_iff_eq, wwEq_safe_loop_zero, list_eq_iff_getD 0 a b n ha hb]; simp)

/-- FAST(wwEq) decides equality of the two word strings -/
theorem wwEq_fast_spec (a b : List (BitVec w)) (n : Nat) (ha : a.length = n) (hb : b.length = n) :
    wwEq_fast a b n = decide (a = b) :=
  bool_eq_decide (by rw [wwEq_fast_iff, list_eq_iff_getD 0 a b n ha hb])

theorem wwEq_safe_eq_fast (a b : List (BitVec w)) (n : Nat) (ha : a.length = n) (hb : b.length = n) :
    wwEq_safe a b n = wwEq_fast a b n := by
  rw [wwEq_safe_spec a b n ha hb, wwEq_fast_spec a b n ha hb]

example : wwEq_safe [1, 2, 3#64] [1, 2, 3] 3 = true ∧ wwEq_fast [1, 2, 3#64] [5, 2, 3] 3 = false := by
  decide

/-- SAFE(wwIsZero): all words are zero -/
theorem wwIsZero_safe_spec (a : List (BitVec w)) (n : Nat) (ha : a.length = n) :
    wwIsZero_safe a n = decide (∀ x ∈ a, x = 0) :=
  bool_eq_decide (by rw [wwIsZero_safe_eq_fast, wwIsZero_fast_iff_mem a n ha])

theorem wwIsZero_fast_spec (a : List (BitVec w)) (n : Nat) (ha : a.length = n) :
    wwIsZero_fast a n = decide (∀ x ∈ a, x = 0) :=
  bool_eq_decide (wwIsZero_fast_iff_mem a n ha)

/-- the same as a statement about the number: `a` is zero iff its value is 0 -/
theorem wwIsZero_safe_value (a : List (BitVec w)) (n : Nat) (ha : a.length = n) :
    wwIsZero_safe a n = decide (wwNat a = 0) ∧ wwIsZero_fast a n = decide (wwNat a = 0) := by
  rw [wwIsZero_safe_spec a n ha, wwIsZero_fast_spec a n ha]
  simp only [wwNat_eq_zero, and_self]

example : wwIsZero_safe [0, 0, 0#64] 3 = true ∧ wwIsZero_fast [0, 4, 0#64] 3 = false := by decide

/-- SAFE(wwCmp) is the three-way comparison of the numbers -/
theorem wwCmp_safe_spec (hw : 0 < w) (a b : List (BitVec w)) (n : Nat)
    (ha : a.length = n) (hb : b.length = n) :
    wwCmp_safe a b n = cmp3 (wwNat a) (wwNat b) := by
  rw [wwCmp_safe_eq_fast hw, wwCmp_fast_eq_take a b n (by omega) (by omega),
    List.take_of_length_le (by omega), List.take_of_length_le (by omega)]

theorem wwCmp_fast_spec (a b : List (BitVec w)) (n : Nat) (ha : a.length = n) (hb : b.length = n) :
    wwCmp_fast a b n = cmp3 (wwNat a) (wwNat b) := by
  rw [wwCmp_fast_eq_take a b n (by omega) (by omega),
    List.take_of_length_le (by omega), List.take_of_length_le (by omega)]

/-- the editions agree on every prefix length, whatever the operands -/
theorem wwCmp_safe_eq_fast_all (hw : 0 < w) (a b : List (BitVec w)) (n : Nat) :
    wwCmp_safe a b n = wwCmp_fast a b n := wwCmp_safe_eq_fast hw a b n

example : wwCmp_safe [7, 2, 3#64] [1, 9, 3] 3 = -1 ∧ wwCmp_fast [7, 2, 3#64] [9, 1, 3] 3 = 1 := by
  decide

/-- SAFE(wwCmp2): comparison of numbers given with different word counts -/
theorem wwCmp2_safe_spec (hw : 0 < w) (a b : List (BitVec w)) (n m : Nat)
    (ha : a.length = n) (hb : b.length = m) :
    wwCmp2_safe a n b m = cmp3 (wwNat a) (wwNat b) := by
  rw [wwCmp2_safe_eq_fast hw, wwCmp2_fast_eq a b n m ha hb]

theorem wwCmp2_fast_spec (a b : List (BitVec w)) (n m : Nat) (ha : a.length = n) (hb : b.length = m) :
    wwCmp2_fast a n b m = cmp3 (wwNat a) (wwNat b) := wwCmp2_fast_eq a b n m ha hb

example : wwCmp2_safe [7, 2, 0#64] 3 [1, 9] 2 = -1 ∧ wwCmp2_fast [7#64] 1 [9, 0, 1] 3 = -1
    ∧ wwCmp2_safe [7, 2, 1#64] 3 [1, 9] 2 = 1 := by decide

/-- SAFE(wwCmpW): comparison of the number with a single word (n = 0: the number is 0) -/
theorem wwCmpW_safe_spec (a : List (BitVec w)) (n : Nat) (x : BitVec w) (ha : a.length = n) :
    wwCmpW_safe a n x = cmp3 (wwNat a) x.toNat := wwCmpW_safe_eq a n x ha

theorem wwCmpW_fast_spec (a : List (BitVec w)) (n : Nat) (x : BitVec w) (ha : a.length = n) :
    wwCmpW_fast a n x = cmp3 (wwNat a) x.toNat := wwCmpW_fast_eq a n x ha

example : wwCmpW_safe [7, 0, 0#64] 3 9 = -1 ∧ wwCmpW_fast [7, 0, 1#64] 3 9 = 1
    ∧ wwCmpW_safe ([] : List (BitVec 64)) 0 9 = -1 := by decide

/-- SAFE(wwIsW): the number equals the word (n = 0: the word is 0) -/
theorem wwIsW_safe_spec (a : List (BitVec w)) (n : Nat) (x : BitVec w) (ha : a.length = n) :
    wwIsW_safe a n x = decide (wwNat a = x.toNat) := bool_eq_decide (wwIsW_safe_iff a n x ha)

theorem wwIsW_fast_spec (a : List (BitVec w)) (n : Nat) (x : BitVec w) (ha : a.length = n) :
    wwIsW_fast a n x = decide (wwNat a = x.toNat) := bool_eq_decide (wwIsW_fast_iff a n x ha)

example : wwIsW_safe [7, 0, 0#64] 3 7 = true ∧ wwIsW_fast [7, 0, 1#64] 3 7 = false
    ∧ wwIsW_fast ([] : List (BitVec 64)) 0 0 = true := by decide

/-- SAFE(wwIsRepW): every word equals `x` (n = 0: `x` is 0) -/
theorem wwIsRepW_safe_spec (a : List (BitVec w)) (n : Nat) (x : BitVec w) (ha : a.length = n) :
    wwIsRepW_safe a n x = if n = 0 then decide (x = 0) else decide (∀ y ∈ a, y = x) := by
  by_cases hn : n = 0
  · subst hn; rw [if_pos rfl]; exact bool_eq_decide (by simp [wwIsRepW_safe])
  · rw [if_neg hn]; exact bool_eq_decide (wwIsRepW_safe_iff a n x ha hn)

theorem wwIsRepW_fast_spec (a : List (BitVec w)) (n : Nat) (x : BitVec w) (ha : a.length = n) :
    wwIsRepW_fast a n x = if n = 0 then decide (x = 0) else decide (∀ y ∈ a, y = x) := by
  by_cases hn : n = 0
  · subst hn; rw [if_pos rfl]; exact bool_eq_decide (by simp [wwIsRepW_fast])
  · rw [if_neg hn]; exact bool_eq_decide (wwIsRepW_fast_iff a n x ha hn)

example : wwIsRepW_safe [7, 7, 7#64] 3 7 = true ∧ wwIsRepW_fast [7, 7, 1#64] 3 7 = false
    ∧ wwIsRepW_fast [1, 7, 7#64] 3 7 = false := by decide

end WW

/-! ### u16.c / u32.c / u64.c
`ctzSpec x` / `clzSpec x`: index of the first set bit from the bottom / from the top (the width
for x = 0).  SAFE = SWAR weight of `w | -w` resp. of the complemented smear; FAST = dichotomy. -/
section UNN

theorem u16CTZ_safe_spec (w : BitVec 16) : u16CTZ_safe w = ctzSpec w := u16CTZ_safe_eq w
theorem u16CTZ_fast_spec (w : BitVec 16) : u16CTZ_fast w = ctzSpec w := u16CTZ_fast_eq w
theorem u32CTZ_safe_spec (w : BitVec 32) : u32CTZ_safe w = ctzSpec w := u32CTZ_safe_eq w
theorem u32CTZ_fast_spec (w : BitVec 32) : u32CTZ_fast w = ctzSpec w := u32CTZ_fast_eq w
theorem u64CTZ_safe_spec (w : BitVec 64) : u64CTZ_safe w = ctzSpec w := u64CTZ_safe_eq w
theorem u64CTZ_fast_spec (w : BitVec 64) : u64CTZ_fast w = ctzSpec w := u64CTZ_fast_eq w

theorem u16CLZ_safe_spec (w : BitVec 16) : u16CLZ_safe w = clzSpec w := u16CLZ_safe_eq w
theorem u16CLZ_fast_spec (w : BitVec 16) : u16CLZ_fast w = clzSpec w := u16CLZ_fast_eq w
theorem u32CLZ_safe_spec (w : BitVec 32) : u32CLZ_safe w = clzSpec w := u32CLZ_safe_eq w
theorem u32CLZ_fast_spec (w : BitVec 32) : u32CLZ_fast w = clzSpec w := u32CLZ_fast_eq w
theorem u64CLZ_safe_spec (w : BitVec 64) : u64CLZ_safe w = clzSpec w := u64CLZ_safe_eq w
theorem u64CLZ_fast_spec (w : BitVec 64) : u64CLZ_fast w = clzSpec w := u64CLZ_fast_eq w

/-- the spec really counts zeros: below `ctzSpec x` all bits are clear, the bit at it is set -/
theorem ctzSpec_char {n : Nat} (x : BitVec n) :
    ctzSpec x ≤ n ∧ (∀ j < ctzSpec x, x.getLsbD j = false) ∧ (ctzSpec x < n → x.getLsbD (ctzSpec x) = true) :=
  ⟨fi_le n _, fun j hj => fi_low n (fun i => x.getLsbD i) j hj, fun h => fi_bit n (fun i => x.getLsbD i) h⟩

theorem clzSpec_char {n : Nat} (x : BitVec n) :
    clzSpec x ≤ n ∧ (∀ j < clzSpec x, x.getMsbD j = false) ∧ (clzSpec x < n → x.getMsbD (clzSpec x) = true) :=
  ⟨fi_le n _, fun j hj => fi_low n (fun i => x.getMsbD i) j hj, fun h => fi_bit n (fun i => x.getMsbD i) h⟩

example : u16CTZ_safe 0x0500 = 8 ∧ u16CTZ_fast 0x0500 = 8 ∧ u16CLZ_safe 0x0500 = 5 ∧ u16CLZ_fast 0x0500 = 5
    ∧ u16CTZ_safe 0 = 16 ∧ u16CLZ_fast 0 = 16 := by decide
example : u32CTZ_safe 0x00050000 = 16 ∧ u32CTZ_fast 0x00050000 = 16 ∧ u32CLZ_safe 0x00050000 = 13
    ∧ u32CLZ_fast 0x00050000 = 13 ∧ u32CTZ_fast 0 = 32 ∧ u32CLZ_safe 0 = 32 := by decide
example : u64CTZ_safe 0x0000050000000000 = 40 ∧ u64CTZ_fast 0x0000050000000000 = 40
    ∧ u64CLZ_safe 0x0000050000000000 = 21 ∧ u64CLZ_fast 0x0000050000000000 = 21
    ∧ u64CTZ_safe 0 = 64 ∧ u64CLZ_fast 0 = 64 := by decide
example : ctzSpec (0x0500 : BitVec 16) = 8 ∧ clzSpec (0x0500 : BitVec 16) = 5 := by decide

end UNN

end Bee2V.C14

/-
C14 — comparison family, helper lemmas, part 5: the equality-type loops of mem.c
(memEq, memIsZero, memIsRep).
-/
import Bee2V.C14.LemmasCmp4
namespace Bee2V.C14.Cmp
variable (O : Nat)

/-- an octet after promotion to int and conversion to word is its zero extension -/
theorem i2w_o2i_xor {W : Nat} (x y : Octet) : (i2w (o2i x ^^^ o2i y) : BitVec W) = (x ^^^ y).setWidth W := by
  have h : o2i x ^^^ o2i y = (x ^^^ y).setWidth 32 := by
    unfold o2i; ext i hi; simp
  rw [h, i2w, BitVec.signExtend_eq_setWidth_of_msb_false]
  · ext i hi
    simp only [BitVec.getElem_setWidth, BitVec.getLsbD_setWidth]
    by_cases h32 : i < 32
    · simp [h32]
    · have : (x ^^^ y).getLsbD i = false := BitVec.getLsbD_of_ge _ _ (by omega)
      simp [this]
  · simp [BitVec.msb_setWidth]

theorem setWidth_octet_eq_zero {W : Nat} (hW : 8 ≤ W) (z : Octet) : z.setWidth W = 0 ↔ z = 0 := by
  constructor
  · intro h
    have := congrArg BitVec.toNat h
    simp only [BitVec.toNat_setWidth] at this
    have hz := z.isLt
    have : 2 ^ 8 ≤ 2 ^ W := Nat.pow_le_pow_right (by decide) hW
    rw [Nat.mod_eq_of_lt (by omega)] at *
    exact BitVec.eq_of_toNat_eq (by simpa using ‹z.toNat = 0›)
  · rintro rfl; simp

theorem i2w_xor_eq_zero {W : Nat} (hW : 8 ≤ W) (x y : Octet) :
    (i2w (o2i x ^^^ o2i y) : BitVec W) = 0 ↔ x = y := by
  rw [i2w_o2i_xor, setWidth_octet_eq_zero hW, xor_eq_zero]

theorem memEq_safe_octets_zero (hO : 0 < O) (b1 b2 : List Octet) (diff : BitVec (8 * O))
    (h : b1.length = b2.length) :
    memEq_safe.octets O b1 b2 diff = 0 ↔ diff = 0 ∧ b1 = b2 := by
  induction b1 generalizing b2 diff with
  | nil => cases b2 with
    | nil => simp [memEq_safe.octets]
    | cons _ _ => simp at h
  | cons x b1 ih =>
    cases b2 with
    | nil => simp at h
    | cons y b2 =>
      rw [memEq_safe.octets, ih _ _ (by simpa using h), or_eq_zero, i2w_xor_eq_zero (by omega)]
      simp only [List.cons.injEq, and_assoc]

theorem memEq_safe_words_zero (hO : 0 < O) (b1 b2 : List Octet) (diff : BitVec (8 * O))
    (h : b1.length = b2.length) :
    (memEq_safe.octets O (memEq_safe.words O hO b1 b2 diff).1 (memEq_safe.words O hO b1 b2 diff).2.1
      (memEq_safe.words O hO b1 b2 diff).2.2 = 0) ↔ diff = 0 ∧ b1 = b2 := by
  fun_induction memEq_safe.words O hO b1 b2 diff with
  | case1 b1 b2 diff hle ih =>
    rw [ih (by simp [h]), or_eq_zero, xor_eq_zero, loadLE_inj O b1 b2 h, eq_iff_take_drop O b1 b2]
    simp only [and_assoc]
  | case2 b1 b2 diff hlt =>
    exact memEq_safe_octets_zero O hO b1 b2 diff h

theorem memEq_safe_iff (hO : 0 < O) (b1 b2 : List Octet) (h : b1.length = b2.length) :
    memEq_safe O hO b1 b2 = true ↔ b1 = b2 := by
  unfold memEq_safe
  simp only [beq_iff_eq]
  rw [memEq_safe_words_zero O hO b1 b2 0 h]; simp

theorem memcmp_eq_zero (b1 b2 : List Octet) (h : b1.length = b2.length) :
    memcmp b1 b2 = 0 ↔ b1 = b2 := by
  induction b1 generalizing b2 with
  | nil => cases b2 with
    | nil => simp [memcmp]
    | cons _ _ => simp at h
  | cons x b1 ih =>
    cases b2 with
    | nil => simp at h
    | cons y b2 =>
      rw [memcmp]
      by_cases hxy : x = y
      · subst hxy; simp [ih b2 (by simpa using h)]
      · rw [if_pos hxy]
        have : x.toNat ≠ y.toNat := fun he => hxy (BitVec.eq_of_toNat_eq he)
        simp only [List.cons.injEq, hxy, false_and, iff_false]
        omega

theorem memEq_fast_iff (b1 b2 : List Octet) (h : b1.length = b2.length) :
    memEq_fast b1 b2 = true ↔ b1 = b2 := by
  rw [memEq_fast, beq_iff_eq, memcmp_eq_zero b1 b2 h]

theorem forall_mem_iff_take_drop {α} (k : Nat) (l : List α) (P : α → Prop) :
    (∀ x ∈ l, P x) ↔ (∀ x ∈ l.take k, P x) ∧ (∀ x ∈ l.drop k, P x) := by
  conv => lhs; rw [← List.take_append_drop k l]
  simp only [List.mem_append]
  constructor
  · intro h; exact ⟨fun x hx => h x (Or.inl hx), fun x hx => h x (Or.inr hx)⟩
  · rintro ⟨h1, h2⟩ x (hx | hx)
    · exact h1 x hx
    · exact h2 x hx

theorem false_iff_of_not {p : Prop} (h : ¬p) : (false = true ↔ p) :=
  ⟨fun h' => (by cases h'), fun h' => absurd h' h⟩

theorem memIsZero_safe_octets_zero (hO : 0 < O) (buf : List Octet) (diff : BitVec (8 * O)) :
    memIsZero_safe.octets O buf diff = 0 ↔ diff = 0 ∧ ∀ x ∈ buf, x = 0 := by
  induction buf generalizing diff with
  | nil => simp [memIsZero_safe.octets]
  | cons x buf ih =>
    rw [memIsZero_safe.octets, ih, or_eq_zero, setWidth_octet_eq_zero (by omega)]
    simp only [List.mem_cons, forall_eq_or_imp, and_assoc]

theorem memIsZero_safe_words_zero (hO : 0 < O) (buf : List Octet) (diff : BitVec (8 * O)) :
    (memIsZero_safe.octets O (memIsZero_safe.words O hO buf diff).1
      (memIsZero_safe.words O hO buf diff).2 = 0) ↔ diff = 0 ∧ ∀ x ∈ buf, x = 0 := by
  fun_induction memIsZero_safe.words O hO buf diff with
  | case1 buf diff hle ih =>
    rw [ih, or_eq_zero, loadLE_eq_zero, forall_mem_iff_take_drop O buf]
    simp only [and_assoc]
  | case2 buf diff hlt =>
    exact memIsZero_safe_octets_zero O hO buf diff

theorem memIsZero_safe_iff (hO : 0 < O) (buf : List Octet) :
    memIsZero_safe O hO buf = true ↔ ∀ x ∈ buf, x = 0 := by
  unfold memIsZero_safe
  simp only [beq_iff_eq]
  rw [memIsZero_safe_words_zero O hO buf 0]; simp

theorem memIsZero_fast_octets_iff (buf : List Octet) :
    memIsZero_fast.octets buf = true ↔ ∀ x ∈ buf, x = 0 := by
  induction buf with
  | nil => simp [memIsZero_fast.octets]
  | cons x buf ih =>
    rw [memIsZero_fast.octets]
    by_cases hx : x = 0
    · subst hx; simp [ih]
    · rw [if_pos hx]; exact false_iff_of_not (fun h => hx (h x (by simp)))

theorem memIsZero_fast_iff (hO : 0 < O) (buf : List Octet) :
    memIsZero_fast O hO buf = true ↔ ∀ x ∈ buf, x = 0 := by
  unfold memIsZero_fast
  fun_induction memIsZero_fast.words O hO buf with
  | case1 buf hle hne =>
    rw [forall_mem_iff_take_drop O buf, ← loadLE_eq_zero]
    exact false_iff_of_not (fun h => hne h.1)
  | case2 buf hle he ih =>
    have he' : loadLE O buf = 0 := by simpa using he
    rw [ih, forall_mem_iff_take_drop O buf, ← loadLE_eq_zero]
    exact ⟨fun h => ⟨he', h⟩, fun h => h.2⟩
  | case3 buf hlt => exact memIsZero_fast_octets_iff buf

theorem memIsRep_safe_loop_zero (hO : 0 < O) (o : Octet) (buf : List Octet) (diff : BitVec (8 * O)) :
    memIsRep_safe.loop O o buf diff = 0 ↔ diff = 0 ∧ ∀ x ∈ buf, x = o := by
  induction buf generalizing diff with
  | nil => simp [memIsRep_safe.loop]
  | cons x buf ih =>
    rw [memIsRep_safe.loop, ih, or_eq_zero, i2w_xor_eq_zero (by omega)]
    simp only [List.mem_cons, forall_eq_or_imp, and_assoc]

theorem memIsRep_safe_iff (hO : 0 < O) (buf : List Octet) (o : Octet) :
    memIsRep_safe O buf o = true ↔ ∀ x ∈ buf, x = o := by
  rw [memIsRep_safe, beq_iff_eq, memIsRep_safe_loop_zero O hO]; simp

theorem memIsRep_fast_iff (buf : List Octet) (o : Octet) :
    memIsRep_fast buf o = true ↔ ∀ x ∈ buf, x = o := by
  induction buf with
  | nil => simp [memIsRep_fast]
  | cons x buf ih =>
    rw [memIsRep_fast]
    by_cases hx : x = o
    · subst hx; simp [ih]
    · rw [if_pos hx]; exact false_iff_of_not (fun h => hx (h x (by simp)))

end Bee2V.C14.Cmp

/-
C14 driver handlers for the generated IR (executable trace semantics of `IR.lean`).

  ir <fname> <arg>...        run the IR of <fname> (address-observing semantics) and print
                             `<ret> <buffers after the call>`
     arg:  n<dec>   scalar               s<hex>  new SECRET buffer, its address is passed
           p<hex>   new PUBLIC buffer    z<dec>  new zeroed SECRET scratch buffer (not printed)
           @<k>+<off>  address of buffer k (0-based, in order of appearance) plus <off> octets
  stepv <fname> <key> <iv> <data> <tag_given> <len> <true_tag> <off> <size>
                             run the IR of the verification step on a state of <size> zero octets
                             whose field at <off> holds <true_tag> (external calls are no-ops)
  trace <fname> <arg>...     like `ir`, but prints a digest of the observation trace
-/
import Bee2V.Base.Proto
import Bee2V.C14.IR
import Bee2V.Gen.C14IR
import Bee2V.Gen.C14IR32
import Bee2V.Gen.C14Exec

namespace Bee2V.C14.Drv
open Bee2V.Proto Bee2V.C14.IR

/-- one generated module: the IR of one word-size configuration -/
structure G where
  prog : Prog
  names : List (String × Nat × Bool)
  globals : List (Nat × List Nat)
  wordOctets : Nat

def g64 : G := ⟨Bee2V.Gen.C14IR.prog, Bee2V.Gen.C14IR.names, Bee2V.Gen.C14IR.globals, 8⟩
/-- the program executed for the value tie of the Verify steps, beltKWPUnwrap and the block primitives:
nothing opaque except the allocator (not used by any theorem) -/
def gx : G := ⟨Bee2V.Gen.C14Exec.prog, Bee2V.Gen.C14Exec.names, Bee2V.Gen.C14Exec.globals, 8⟩
def g32 : G := ⟨Bee2V.Gen.C14IR32.prog, Bee2V.Gen.C14IR32.names, Bee2V.Gen.C14IR32.globals, 4⟩

def fuel : Nat := 4000000

def bufBase (k : Nat) : Nat := (k + 1) * 1048576

def putBytes (m : Store) (a : Nat) : List UInt8 → Store
  | [] => m
  | b :: bs => putBytes (wr m a b.toNat) (a + 1) bs

def getBytes (m : Store) (a : Nat) : Nat → List UInt8
  | 0 => []
  | n + 1 => UInt8.ofNat (rd m a) :: getBytes m (a + 1) n

def putNats (m : Store) (a : Nat) : List Nat → Store
  | [] => m
  | b :: bs => putNats (wr m a b) (a + 1) bs

def initPub (g : G) : Store := g.globals.foldl (fun m x => putNats m x.1 x.2) ∅

/-- (is public, length, printed) of each buffer -/
structure Buf where
  pub : Bool
  len : Nat
  show_ : Bool

structure Parsed where
  vals : List Nat := []
  bufs : List Buf := []
  sec : Store := ∅
  pub : Store := ∅

def parseArg (p : Parsed) (a : String) : Option Parsed :=
  let tag := a.take 1
  let rest := (a.drop 1).toString
  let k := p.bufs.length
  if tag == "n" || tag == "w" then
    (parseNat rest).map fun v => { p with vals := p.vals ++ [v] }
  else if tag == "s" then
    (parseHex rest).map fun bs =>
      { p with vals := p.vals ++ [bufBase k], bufs := p.bufs ++ [⟨false, bs.length, true⟩],
               sec := putBytes p.sec (bufBase k) bs }
  else if tag == "p" then
    (parseHex rest).map fun bs =>
      { p with vals := p.vals ++ [bufBase k], bufs := p.bufs ++ [⟨true, bs.length, true⟩],
               pub := putBytes p.pub (bufBase k) bs }
  else if tag == "z" then
    (parseNat rest).map fun n =>
      { p with vals := p.vals ++ [bufBase k], bufs := p.bufs ++ [⟨false, n, false⟩],
               sec := putBytes p.sec (bufBase k) (List.replicate n 0) }
  else if tag == "@" then
    match rest.splitOn "+" with
    | [ks, os] =>
      match parseNat ks, parseNat os with
      | some kk, some o => some { p with vals := p.vals ++ [bufBase kk + o] }
      | _, _ => none
    | _ => none
  else none

def parseArgs : Parsed → List String → Option Parsed
  | p, [] => some p
  | p, a :: as => match parseArg p a with
    | some p' => parseArgs p' as
    | none => none

def findFun (g : G) (name : String) : Option (Nat × Nat × Bool) :=
  let rec go (i : Nat) : List (String × Nat × Bool) → Option (Nat × Nat × Bool)
    | [] => none
    | (n, b, s) :: r => if n == name then some (i, b, s) else go (i + 1) r
  go 0 g.names

def showRet (bits : Nat) (sg : Bool) (v : Nat) : String :=
  if bits == 0 then "-" else toString (toInt ⟨bits, sg⟩ v)

def dumpBufs (e : Env) (bufs : List Buf) (trunc0 : Nat := 0) : String :=
  let rec go (k : Nat) : List Buf → List String
    | [] => []
    | b :: r =>
      (if b.show_ then [toHex (getBytes (if b.pub then e.pub else e.sec) (bufBase k)
          (if k == 0 && trunc0 != 0 && trunc0 < b.len then trunc0 else b.len))] else []) ++ go (k + 1) r
  " ".intercalate (go 0 bufs)

def runFun (g : G) (idx : Nat) (p : Parsed) : Option (Env × List Obs) :=
  match g.prog.funs[idx]? with
  | none => none
  | some fn =>
    if p.vals.length != fn.nparams then none else
    some (exec g.prog true fuel fn.body
      { vars := bindArgs 0 p.vals ∅, sec := p.sec, pub := p.pub, st := 0, rv := 0, ora := [] })

def obsCode : Obs → Nat
  | .br b => if b then 3 else 2
  | .addr p a => 5 + 2 * a + (if p then 1 else 0)
  | .ext f => 1000003 * (f + 1)

def digest (os : List Obs) : Nat :=
  os.foldl (fun h o => (h * 1000003 + obsCode o + 7) % 18446744073709551557) 0

def branches (os : List Obs) : Nat := (os.filter fun o => match o with | .br _ => true | _ => false).length

def handleIr (g : G) (trace : Bool) : List String → String
  | name :: args =>
    match findFun g name, parseArgs { pub := initPub g } args with
    | some (idx, bits, sg), some p =>
      match runFun g idx p with
      | none => "bad-op"
      | some (e, os) =>
        if e.st == 9 then "out-of-fuel"
        else if e.st == 8 then "stuck"
        else if trace then s!"{os.length} {branches os} {digest os}"
        else
          let d := dumpBufs e p.bufs
          showRet bits sg e.rv ++ (if d.isEmpty then "" else " " ++ d)
    | _, _ => "bad-op"
  | _ => "bad-op"

/-- the program in which the `…StepG_internal` routines are replaced by `skip`: their effect (the
true tag in the state field) is supplied by the op line, because the block primitives they call
are opaque in the IR -/
def progStepV (g : G) : Prog :=
  { g.prog with funs := (g.prog.funs.zip g.names).map fun (fn, nm) =>
      if nm.1.endsWith "StepG_internal" then { fn with body := .skip } else fn }

/-- `sf` line: the IR is the regular edition; the fast edition must give the same result, so the
model's answer is `r | r` (for the reductions only the first n words of `a` are the result) -/
def handleSf (g : G) : List String → String
  | name :: args =>
    match findFun g name, parseArgs { pub := initPub g } args with
    | some (idx, bits, sg), some p =>
      match runFun g idx p with
      | none => "bad-op"
      | some (e, _) =>
        if e.st == 9 then "out-of-fuel"
        else if e.st == 8 then "stuck"
        else
          let tr := if name.startsWith "zzRed" then (p.vals.getD 2 0) * g.wordOctets else 0
          let d := dumpBufs e p.bufs tr
          let r := showRet bits sg e.rv ++ (if d.isEmpty then "" else " " ++ d)
          r ++ " | " ++ r
    | _, _ => "bad-op"
  | _ => "bad-op"

def handleStepV (g : G) : List String → String
  | [name, _key, _iv, _data, tag, len, truetag, off, size] =>
    match findFun g name, parseHex tag, parseNat len, parseHex truetag, parseNat off, parseNat size with
    | some (idx, bits, sg), some tg, some ln, some tt, some o, some sz =>
      match g.prog.funs[idx]? with
      | none => "bad-op"
      | some fn =>
        let tagA := bufBase 0
        let stA := bufBase 1
        let sec := putBytes (putBytes (putBytes ∅ tagA tg) stA (List.replicate sz 0)) (stA + o) tt
        let vals := if fn.nparams == 3 then [tagA, ln, stA] else [tagA, stA]
        let r := exec (progStepV g) true fuel fn.body
          { vars := bindArgs 0 vals ∅, sec := sec, pub := initPub g, st := 0, rv := 0, ora := [] }
        if r.1.st == 9 then "out-of-fuel" else if r.1.st == 8 then "stuck" else showRet bits sg r.1.rv
    | _, _, _, _, _, _ => "bad-op"
  | _ => "bad-op"

def copyRange (src dst : Store) (a : Nat) : Nat → Store
  | 0 => dst
  | n + 1 => copyRange src (wr dst a (rd src a)) (a + 1) n

/-- "off:size,off:size" or "-" -/
def parseRanges (s : String) : Option (List (Nat × Nat)) :=
  if s == "-" then some [] else
  (s.splitOn ",").mapM fun p => match p.splitOn ":" with
    | [a, b] => match parseNat a, parseNat b with
      | some x, some y => some (x, y)
      | _, _ => none
    | _ => none

/-- `stepvx <fname> <state> <tag> <len> <public ranges>`: the whole Verify step (StepG_internal and the
block primitives included) on a state given octet by octet; prints the result and the state afterwards -/
def handleStepVX : List String → String
  | [name, state, tag, len, ranges] =>
    match findFun gx name, parseHex state, parseHex tag, parseNat len, parseRanges ranges with
    | some (idx, bits, sg), some stb, some tg, some ln, some rs =>
      match gx.prog.funs[idx]? with
      | none => "bad-op"
      | some fn =>
        let tagA := bufBase 0
        let stA := bufBase 1
        let sec := putBytes (putBytes (putBytes ∅ tagA tg) stA (stb ++ List.replicate 4096 0)) stA stb
        let pub := rs.foldl (fun m r => copyRange sec m (stA + r.1) r.2) (initPub gx)
        let vals := if fn.nparams == 3 then [tagA, ln, stA] else [tagA, stA]
        let r := exec gx.prog false fuel fn.body
          { vars := bindArgs 0 vals ∅, sec := sec, pub := pub, st := 0, rv := 0, ora := [] }
        if r.1.st == 9 then "out-of-fuel" else if r.1.st == 8 then "stuck" else
        let sec' := rs.foldl (fun m x => copyRange r.1.pub m (stA + x.1) x.2) r.1.sec
        showRet bits sg r.1.rv ++ " " ++ toHex (getBytes sec' stA stb.length)
    | _, _, _, _, _ => "bad-op"
  | _ => "bad-op"

/-- `kwp <key> <header|-> <token>`: the IR of beltKWPUnwrap (with beltWBLStart / beltWBLStepD2 / the block
cipher) on the same operands as the real routine; the allocator returns a scratch buffer -/
def handleKwp : List String → String
  | [key, hdr, tok] =>
    match findFun gx "beltKWPUnwrap", parseHex key, parseHex hdr, parseHex tok with
    | some (idx, _, _), some k, some h, some t =>
      match gx.prog.funs[idx]? with
      | none => "bad-op"
      | some fn =>
        if t.length < 32 || (h.length != 0 && h.length != 16) then "bad-op" else
        let dA := bufBase 0
        let sA := bufBase 1
        let hA := bufBase 2
        let kA := bufBase 3
        let blob := bufBase 4
        let sec := putBytes (putBytes (putBytes (putBytes (putBytes ∅ dA (List.replicate (t.length - 16) 0)) sA t) hA h) kA k)
                     blob (List.replicate 8192 0)
        let vals := [dA, sA, t.length, (if h.length == 0 then 0 else hA), kA, k.length]
        let r := exec gx.prog false fuel fn.body
          { vars := bindArgs 0 vals ∅, sec := sec, pub := initPub gx, st := 0, rv := 0, ora := [blob, 0, 0, 0] }
        if r.1.st == 9 then "out-of-fuel" else if r.1.st == 8 then "stuck" else
        toString r.1.rv ++ " " ++ (if r.1.rv == 0 then toHex (getBytes r.1.sec dA (t.length - 16)) else "-")
    | _, _, _, _ => "bad-op"
  | _ => "bad-op"

end Bee2V.C14.Drv

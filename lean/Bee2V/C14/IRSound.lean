/-
C14 — soundness of the information-flow checker of `IR.lean`, proved once, for every program:

  ctProg P strict = true →
    for every function `fn` of `P`, every fuel, every two environments that agree on the PUBLIC
    variables of `fn` and on the public memory (and may differ arbitrarily in every secret
    variable and in the whole secret memory), the two executions of `fn.body` produce the
    SAME observation trace (branch outcomes, loop-exit tests, and — address-observing
    semantics — the addresses of all loads and stores).
-/
import Bee2V.C14.IR

namespace Bee2V.C14.IR

/-- agreement of two environments on everything the policy of `fn` declares public -/
structure LowEq (fn : Fun) (e1 e2 : Env) : Prop where
  vars : ∀ x, fn.L x = true → rd e1.vars x = rd e2.vars x
  pub : ∀ k, rd e1.pub k = rd e2.pub k
  st : e1.st = e2.st
  rv : fn.retPub = true → e1.rv = e2.rv
  ora : e1.ora = e2.ora

theorem rd_empty (k : Nat) : rd (∅ : Store) k = 0 := by simp [rd]

theorem loadN_congr (m1 m2 : Store) (h : ∀ k, rd m1 k = rd m2 k) (a n : Nat) :
    loadN m1 a n = loadN m2 a n := by
  induction n generalizing a with
  | zero => rfl
  | succ n ih => simp [loadN, h, ih]

theorem storeN_congr (n : Nat) : ∀ (m1 m2 : Store), (∀ k, rd m1 k = rd m2 k) → ∀ (a v k : Nat),
    rd (storeN m1 a v n) k = rd (storeN m2 a v n) k := by
  induction n with
  | zero => intro m1 m2 h a v k; simpa [storeN] using h k
  | succ n ih =>
    intro m1 m2 h a v k
    simp only [storeN]
    apply ih
    intro k'
    simp [rd_wr, h]

/-- expressions: same trace; same value when the label is public -/
theorem evalE_ni (strict : Bool) (L : Nat → Bool) (e1 e2 : Env)
    (hv : ∀ x, L x = true → rd e1.vars x = rd e2.vars x)
    (hp : ∀ k, rd e1.pub k = rd e2.pub k) :
    ∀ x : Expr, ctE strict L x = true →
      (evalE strict e1 x).2 = (evalE strict e2 x).2 ∧
      (lab L x = false → (evalE strict e1 x).1 = (evalE strict e2 x).1) := by
  intro x
  induction x with
  | var x =>
    intro _
    refine ⟨rfl, ?_⟩
    intro h
    simp only [lab, Bool.not_eq_false'] at h
    simpa [evalE] using hv x h
  | const n => intro _; exact ⟨rfl, fun _ => rfl⟩
  | un op t a ih =>
    intro h
    simp only [ctE] at h
    have := ih h
    refine ⟨by simpa [evalE] using this.1, ?_⟩
    intro hl
    simp only [lab] at hl
    simp [evalE, this.2 hl]
  | bin op t a b iha ihb =>
    intro h
    simp only [ctE, Bool.and_eq_true] at h
    have ha := iha h.1
    have hb := ihb h.2
    refine ⟨by simp [evalE, ha.1, hb.1], ?_⟩
    intro hl
    simp only [lab, Bool.or_eq_false_iff] at hl
    simp [evalE, ha.2 hl.1, hb.2 hl.2]
  | cast s d a ih =>
    intro h
    simp only [ctE] at h
    have := ih h
    refine ⟨by simpa [evalE] using this.1, ?_⟩
    intro hl
    simp only [lab] at hl
    simp [evalE, this.2 hl]
  | load p n a ih =>
    intro h
    simp only [ctE, Bool.and_eq_true, Bool.or_eq_true, Bool.not_eq_true'] at h
    have ha := ih h.1
    constructor
    · cases strict with
      | false => simp [evalE, ha.1]
      | true =>
        have hl : lab L a = false := by simpa using h.2
        simp [evalE, ha.1, ha.2 hl]
    · intro hl
      simp only [lab, Bool.or_eq_false_iff, Bool.not_eq_false'] at hl
      have hpv : p = true := hl.1
      subst hpv
      simp only [evalE, if_true]
      rw [ha.2 hl.2]
      exact loadN_congr _ _ hp _ _
  | land a b iha ihb =>
    intro h
    simp only [ctE, Bool.and_eq_true, Bool.not_eq_true'] at h
    have ha := iha h.1.1
    have hb := ihb h.1.2
    have hva := ha.2 h.2
    simp only [evalE, hva, ha.1, hb.1]
    constructor
    · split <;> rfl
    · intro hl
      simp only [lab, Bool.or_eq_false_iff] at hl
      split
      · rfl
      · simp [hb.2 hl.2]
  | lor a b iha ihb =>
    intro h
    simp only [ctE, Bool.and_eq_true, Bool.not_eq_true'] at h
    have ha := iha h.1.1
    have hb := ihb h.1.2
    have hva := ha.2 h.2
    simp only [evalE, hva, ha.1, hb.1]
    constructor
    · split <;> rfl
    · intro hl
      simp only [lab, Bool.or_eq_false_iff] at hl
      split
      · simp [hb.2 hl.2]
      · rfl
  | cond c a b ihc iha ihb =>
    intro h
    simp only [ctE, Bool.and_eq_true, Bool.not_eq_true'] at h
    have hc := ihc h.1.1.1
    have ha := iha h.1.1.2
    have hb := ihb h.1.2
    have hvc := hc.2 h.2
    simp only [evalE, hvc, hc.1, ha.1, hb.1]
    constructor
    · split <;> rfl
    · intro hl
      simp only [lab, Bool.or_eq_false_iff] at hl
      split
      · simp [hb.2 hl.2]
      · simp [ha.2 hl.1.2]

theorem evalArgs_trace (strict : Bool) (L : Nat → Bool) (e1 e2 : Env)
    (hv : ∀ x, L x = true → rd e1.vars x = rd e2.vars x)
    (hp : ∀ k, rd e1.pub k = rd e2.pub k) (cal : Fun) :
    ∀ (as : List Expr) (i : Nat), ctArgs strict L cal i as = true →
      (evalArgs strict e1 as).2 = (evalArgs strict e2 as).2 := by
  intro as
  induction as with
  | nil => intro _ _; rfl
  | cons a as ih =>
    intro i h
    simp only [ctArgs, Bool.and_eq_true] at h
    have ha := evalE_ni strict L e1 e2 hv hp a h.1.1
    simp [evalArgs, ha.1, ih (i + 1) h.2]

theorem evalExt_trace (strict : Bool) (L : Nat → Bool) (e1 e2 : Env)
    (hv : ∀ x, L x = true → rd e1.vars x = rd e2.vars x)
    (hp : ∀ k, rd e1.pub k = rd e2.pub k) :
    ∀ (as : List Expr), ctExt strict L as = true →
      (evalArgs strict e1 as).2 = (evalArgs strict e2 as).2 := by
  intro as
  induction as with
  | nil => intro _; rfl
  | cons a as ih =>
    intro h
    simp only [ctExt, Bool.and_eq_true] at h
    have ha := evalE_ni strict L e1 e2 hv hp a h.1
    simp [evalArgs, ha.1, ih h.2]

/-- the callee frames built from the evaluated arguments agree on the callee's public variables -/
theorem bindArgs_loweq (strict : Bool) (L : Nat → Bool) (e1 e2 : Env)
    (hv : ∀ x, L x = true → rd e1.vars x = rd e2.vars x)
    (hp : ∀ k, rd e1.pub k = rd e2.pub k) (cal : Fun) :
    ∀ (as : List Expr) (i : Nat) (s1 s2 : Store), ctArgs strict L cal i as = true →
      (∀ x, cal.L x = true → rd s1 x = rd s2 x) →
      ∀ x, cal.L x = true →
        rd (bindArgs i (evalArgs strict e1 as).1 s1) x = rd (bindArgs i (evalArgs strict e2 as).1 s2) x := by
  intro as
  induction as with
  | nil => intro i s1 s2 _ hs x hx; simpa [evalArgs, bindArgs] using hs x hx
  | cons a as ih =>
    intro i s1 s2 h hs x hx
    simp only [ctArgs, Bool.and_eq_true, Bool.or_eq_true, Bool.not_eq_true'] at h
    have ha := evalE_ni strict L e1 e2 hv hp a h.1.1
    simp only [evalArgs, bindArgs]
    apply ih (i + 1) _ _ h.2 _ x hx
    intro y hy
    simp only [rd_wr]
    by_cases hiy : i = y
    · subst hiy
      simp only [if_true]
      rcases h.1.2 with hh | hh
      · rw [hh] at hy; cases hy
      · exact ha.2 hh
    · simp [hiy, hs y hy]

/-- **Soundness of the checker** (non-interference on traces), all statements of all functions. -/
theorem exec_ni (P : Prog) (strict : Bool) (hP : ctProg P strict = true) :
    ∀ (fuel : Nat) (fn : Fun) (s : Stmt), ctS P strict fn s = true →
      ∀ e1 e2 : Env, LowEq fn e1 e2 →
        (exec P strict fuel s e1).2 = (exec P strict fuel s e2).2 ∧
        LowEq fn (exec P strict fuel s e1).1 (exec P strict fuel s e2).1 := by
  intro fuel
  induction fuel with
  | zero =>
    intro fn s _ e1 e2 h
    exact ⟨rfl, ⟨h.vars, h.pub, rfl, h.rv, h.ora⟩⟩
  | succ f ih =>
    intro fn s hs e1 e2 h
    cases s with
    | skip => exact ⟨rfl, h⟩
    | assign x a =>
      simp only [ctS, Bool.and_eq_true, Bool.or_eq_true, Bool.not_eq_true'] at hs
      have ha := evalE_ni strict fn.L e1 e2 h.vars h.pub a hs.1
      refine ⟨by simpa [exec] using ha.1, ?_⟩
      simp only [exec, Env.setVar]
      refine ⟨?_, h.pub, h.st, h.rv, h.ora⟩
      intro y hy
      simp only [rd_wr]
      by_cases hxy : x = y
      · subst hxy
        simp only [if_true]
        rcases hs.2 with hh | hh
        · rw [hh] at hy; cases hy
        · exact ha.2 hh
      · simp [hxy, h.vars y hy]
    | store p n a v =>
      simp only [ctS, Bool.and_eq_true, Bool.or_eq_true, Bool.not_eq_true'] at hs
      obtain ⟨⟨⟨hca, hcv⟩, hsa⟩, hpp⟩ := hs
      have ha := evalE_ni strict fn.L e1 e2 h.vars h.pub a hca
      have hv := evalE_ni strict fn.L e1 e2 h.vars h.pub v hcv
      constructor
      · cases strict with
        | false => simp [exec, ha.1, hv.1]
        | true =>
          have hl : lab fn.L a = false := by simpa using hsa
          simp [exec, ha.1, hv.1, ha.2 hl]
      · cases p with
        | false =>
          simp only [exec]
          exact ⟨h.vars, h.pub, h.st, h.rv, h.ora⟩
        | true =>
          have hl : lab fn.L a = false ∧ lab fn.L v = false := by simpa using hpp
          simp only [exec, if_true]
          refine ⟨h.vars, ?_, h.st, h.rv, h.ora⟩
          rw [ha.2 hl.1, hv.2 hl.2]
          exact storeN_congr _ _ _ h.pub _ _
    | seq a b =>
      simp only [ctS, Bool.and_eq_true] at hs
      have h1 := ih fn a hs.1 e1 e2 h
      simp only [exec]
      rw [← h1.2.st]
      split
      · have h2 := ih fn b hs.2 _ _ h1.2
        exact ⟨by simp [h1.1, h2.1], h2.2⟩
      · exact h1
    | ite c a b =>
      simp only [ctS, Bool.and_eq_true, Bool.not_eq_true'] at hs
      obtain ⟨⟨⟨hcc, hlc⟩, hsa⟩, hsb⟩ := hs
      have hc := evalE_ni strict fn.L e1 e2 h.vars h.pub c hcc
      simp only [exec]
      rw [← hc.2 hlc, ← hc.1]
      split
      · have h2 := ih fn b hsb e1 e2 h
        exact ⟨by simp [h2.1], h2.2⟩
      · have h2 := ih fn a hsa e1 e2 h
        exact ⟨by simp [h2.1], h2.2⟩
    | loop pre c body step =>
      have hs' := hs
      simp only [ctS, Bool.and_eq_true, Bool.not_eq_true'] at hs
      obtain ⟨⟨⟨⟨hpre, hcc⟩, hlc⟩, hbody⟩, hstep⟩ := hs
      have h0 := ih fn pre hpre e1 e2 h
      simp only [exec]
      rw [← h0.2.st, ← h0.1]
      split
      · have hc := evalE_ni strict fn.L _ _ h0.2.vars h0.2.pub c hcc
        rw [← hc.2 hlc, ← hc.1]
        split
        · exact ⟨rfl, h0.2⟩
        · have h1 := ih fn body hbody _ _ h0.2
          rw [← h1.2.st, ← h1.1]
          split
          · exact ⟨rfl, ⟨h1.2.vars, h1.2.pub, rfl, h1.2.rv, h1.2.ora⟩⟩
          · split
            · have hz : LowEq fn { (exec P strict f body (exec P strict f pre e1).1).1 with st := 0 }
                  { (exec P strict f body (exec P strict f pre e2).1).1 with st := 0 } :=
                ⟨h1.2.vars, h1.2.pub, rfl, h1.2.rv, h1.2.ora⟩
              have h2 := ih fn step hstep _ _ hz
              rw [← h2.2.st, ← h2.1]
              split
              · have h3 := ih fn (.loop pre c body step) hs' _ _ h2.2
                exact ⟨by rw [h3.1], h3.2⟩
              · exact ⟨rfl, h2.2⟩
            · exact ⟨rfl, h1.2⟩
      · exact h0
    | ret a =>
      simp only [ctS, Bool.and_eq_true, Bool.or_eq_true, Bool.not_eq_true'] at hs
      have ha := evalE_ni strict fn.L e1 e2 h.vars h.pub a hs.1
      refine ⟨by simpa [exec] using ha.1, ?_⟩
      simp only [exec]
      refine ⟨h.vars, h.pub, rfl, ?_, h.ora⟩
      intro hr
      rcases hs.2 with hh | hh
      · rw [hh] at hr; cases hr
      · exact ha.2 hh
    | brk => exact ⟨rfl, ⟨h.vars, h.pub, rfl, h.rv, h.ora⟩⟩
    | cont => exact ⟨rfl, ⟨h.vars, h.pub, rfl, h.rv, h.ora⟩⟩
    | call dst g args =>
      simp only [ctS] at hs
      simp only [exec]
      cases hg : P.funs[g]? with
      | none => simp [hg] at hs
      | some cal =>
        simp only [hg, Bool.and_eq_true] at hs
        have hmem : cal ∈ P.funs := List.mem_of_getElem? hg
        have hcal : ctS P strict cal cal.body = true := by
          have := List.all_eq_true.mp hP cal hmem
          simpa [ctFun] using this
        have htr := evalArgs_trace strict fn.L e1 e2 h.vars h.pub cal args 0 hs.1
        have hfr : LowEq cal
            { vars := bindArgs 0 (evalArgs strict e1 args).1 ∅, sec := e1.sec, pub := e1.pub, st := 0, rv := 0, ora := e1.ora }
            { vars := bindArgs 0 (evalArgs strict e2 args).1 ∅, sec := e2.sec, pub := e2.pub, st := 0, rv := 0, ora := e2.ora } := by
          refine ⟨?_, h.pub, rfl, fun _ => rfl, h.ora⟩
          exact bindArgs_loweq strict fn.L e1 e2 h.vars h.pub cal args 0 ∅ ∅ hs.1 (fun _ _ => rfl)
        have hr := ih cal cal.body hcal _ _ hfr
        refine ⟨by simp only [htr, hr.1], ?_⟩
        cases dst with
        | none =>
          simp only
          refine ⟨h.vars, hr.2.pub, ?_, h.rv, hr.2.ora⟩
          simp only [hr.2.st]
        | some x =>
          simp only [Env.setVar]
          refine ⟨?_, hr.2.pub, ?_, h.rv, hr.2.ora⟩
          · intro y hy
            simp only [rd_wr]
            by_cases hxy : x = y
            · subst hxy
              simp only [if_true]
              have : cal.retPub = true := by
                have h2 := hs.2
                simp only [Bool.or_eq_true, Bool.not_eq_true'] at h2
                rcases h2 with hh | hh
                · rw [hh] at hy; cases hy
                · exact hh
              exact hr.2.rv this
            · simp [hxy, h.vars y hy]
          · simp only [hr.2.st]
    | ext dst g args =>
      simp only [ctS, Bool.and_eq_true] at hs
      have htr := evalExt_trace strict fn.L e1 e2 h.vars h.pub args hs.2
      refine ⟨by simp [exec, htr], ?_⟩
      cases dst with
      | none => exact h
      | some x =>
        simp only [exec]
        refine ⟨?_, h.pub, h.st, h.rv, by rw [h.ora]⟩
        intro y hy
        simp only [rd_wr, h.ora]
        by_cases hxy : x = y
        · simp [hxy]
        · simp [hxy, h.vars y hy]

/-- **Trace non-interference of a checked function**: the executed branches (and accessed
addresses) of `fn.body` are the same for any two inputs that agree on `fn`'s public variables
and on the public memory. -/
theorem fun_trace_ni (P : Prog) (strict : Bool) (hP : ctProg P strict = true)
    (fn : Fun) (hfn : fn ∈ P.funs) (fuel : Nat) (e1 e2 : Env) (h : LowEq fn e1 e2) :
    (exec P strict fuel fn.body e1).2 = (exec P strict fuel fn.body e2).2 := by
  have hc : ctS P strict fn fn.body = true := by
    have := List.all_eq_true.mp hP fn hfn
    simpa [ctFun] using this
  exact (exec_ni P strict hP fuel fn fn.body hc e1 e2 h).1

/-! two small programs used by the non-vacuity theorems of Props.lean -/

/-- `for (i = 0; i < n; ++i) if (a[i] != b[i]) return 0; return 1` (0=a 1=b 2=n public, 3=i) -/
def exEarlyExit : Prog :=
  { funs := [{ nparams := 3, pubv := [0, 1, 2, 3], retPub := false,
               body :=
                .seq (.assign 3 (.const 0))
                  (.seq (.loop .skip (.bin .lt ⟨64, false⟩ (.var 3) (.var 2))
                    (.ite (.bin .ne ⟨64, false⟩
                        (.load false 8 (.bin .add ⟨64, false⟩ (.var 0) (.bin .mul ⟨64, false⟩ (.var 3) (.const 8))))
                        (.load false 8 (.bin .add ⟨64, false⟩ (.var 1) (.bin .mul ⟨64, false⟩ (.var 3) (.const 8)))))
                      (.ret (.const 0)) .skip)
                    (.assign 3 (.bin .add ⟨64, false⟩ (.var 3) (.const 1))))
                  (.ret (.const 1))) }],
    allowExt := [] }

/-- `return memcmp(a, b, n) == 0` with memcmp = external routine 7, not on the allow-list -/
def exUnknownCallee : Prog :=
  { funs := [{ nparams := 3, pubv := [0, 1, 2], retPub := false,
               body := .seq (.ext (some 3) 7 [.var 0, .var 1, .var 2])
                        (.ret (.bin .eq ⟨32, true⟩ (.var 3) (.const 0))) }],
    allowExt := [0, 1] }

end Bee2V.C14.IR

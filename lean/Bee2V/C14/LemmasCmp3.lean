/-
C14 — comparison family, helper lemmas, part 3: int mask arithmetic, wwCmp2, wwCmpW.
-/
import Bee2V.C14.LemmasCmp2
namespace Bee2V.C14.Cmp
variable {w : Nat}

theorem lgInt_enc (hw : 0 < w) (c : Int) (hc : Sign c) :
    (b2i ((enc c : BitVec w × BitVec w).1 == 0) - 1) ||| b2i ((enc c : BitVec w × BitVec w).2 != 0)
      = BitVec.ofInt 32 c := by
  have h1 : w ≠ 0 := by omega
  rcases hc with rfl | rfl | rfl <;> simp [enc, b2w, b2i, h1] <;> decide

theorem wwCmp_safe_int_eq (hw : 0 < w) (a b : List (BitVec w)) (n : Nat) :
    wwCmp_safe.int a b n = BitVec.ofInt 32 (wwCmp_fast a b n) := by
  have h := wwCmp_safe_loop_enc a b n 0 (by simp [Sign])
  have e0 : (enc 0 : BitVec w × BitVec w) = (0, 0) := by simp [enc, b2w]
  rw [e0] at h
  simp only [if_true] at h
  simp only [wwCmp_safe.int, h]
  exact lgInt_enc hw _ (wwCmp_fast_sign a b n)

theorem toInt_ofInt_sign (c : Int) (hc : Sign c) : (BitVec.ofInt 32 c).toInt = c := by
  rcases hc with rfl | rfl | rfl <;> decide

theorem mask_pos (zb : Bool) (c : Int) (hc : Sign c) :
    ((-(b2i zb) &&& BitVec.ofInt 32 c) ||| ((b2i zb - 1) &&& 1)).toInt = if zb then c else 1 := by
  rcases hc with rfl | rfl | rfl <;> cases zb <;> decide

theorem mask_neg (zb : Bool) (c : Int) (hc : Sign c) :
    ((-(b2i zb) &&& BitVec.ofInt 32 c) ||| ((b2i zb - 1) &&& -1)).toInt = if zb then c else -1 := by
  rcases hc with rfl | rfl | rfl <;> cases zb <;> decide

theorem wwCmp_safe_eq_fast (hw : 0 < w) (a b : List (BitVec w)) (n : Nat) :
    wwCmp_safe a b n = wwCmp_fast a b n := by
  rw [wwCmp_safe, wwCmp_safe_int_eq hw, toInt_ofInt_sign _ (wwCmp_fast_sign a b n)]

theorem wwIsZero_safe_eq_fast (a : List (BitVec w)) (n : Nat) :
    wwIsZero_safe a n = wwIsZero_fast a n := by
  rw [Bool.eq_iff_iff, wwIsZero_safe_iff, wwIsZero_fast_iff]

theorem wwCmp2_safe_eq_fast (hw : 0 < w) (a b : List (BitVec w)) (n m : Nat) :
    wwCmp2_safe a n b m = wwCmp2_fast a n b m := by
  unfold wwCmp2_safe wwCmp2_fast
  by_cases h1 : n > m
  · simp only [h1, if_true, wwCmp_safe_int_eq hw, wwIsZero_safe_eq_fast]
    exact mask_pos _ _ (wwCmp_fast_sign a b m)
  · by_cases h2 : n < m
    · simp only [h1, h2, if_true, if_false, wwCmp_safe_int_eq hw, wwIsZero_safe_eq_fast]
      exact mask_neg _ _ (wwCmp_fast_sign a b n)
    · have : n = m := by omega
      subst this
      simp only [h1, if_false, wwCmp_safe_int_eq hw]
      exact toInt_ofInt_sign _ (wwCmp_fast_sign a b n)

theorem getD_drop {α} (a : List α) (k i : Nat) (d : α) : (a.drop k).getD i d = a.getD (k + i) d := by
  simp [List.getD_eq_getElem?_getD, List.getElem?_drop]

theorem wwIsZero_fast_iff_mem (a : List (BitVec w)) (n : Nat) (ha : a.length = n) :
    wwIsZero_fast a n = true ↔ ∀ x ∈ a, x = 0 := by
  rw [wwIsZero_fast_iff, forall_getD_iff_mem 0 (fun x => x = 0) a n ha]

theorem cmp3_sign (x y : Nat) : Sign (cmp3 x y) := by
  unfold cmp3 Sign; split
  · simp
  · split <;> simp

theorem cmp3_hi (A M r B : Nat) (hr : 0 < r) (hB : B < M) :
    cmp3 (A + M * r) B = 1 ∧ cmp3 B (A + M * r) = -1 := by
  have : M * 1 ≤ M * r := Nat.mul_le_mul_left _ hr
  generalize M * r = P at *
  unfold cmp3
  constructor
  · rw [if_neg (by omega), if_pos (by omega)]
  · rw [if_pos (by omega)]

theorem wwCmp2_fast_eq (a b : List (BitVec w)) (n m : Nat) (ha : a.length = n) (hb : b.length = m) :
    wwCmp2_fast a n b m = cmp3 (wwNat a) (wwNat b) := by
  unfold wwCmp2_fast
  by_cases h1 : n > m
  · simp only [h1, if_true]
    have hsplit : wwNat a = wwNat (a.take m) + 2 ^ (w * m) * wwNat (a.drop m) := by
      conv => lhs; rw [← List.take_append_drop m a]
      rw [wwNat_append]; simp [Nat.min_eq_left (show m ≤ a.length by omega)]
    have hbt : b.take m = b := by rw [List.take_of_length_le (by omega)]
    have hz := wwIsZero_fast_iff_mem (a.drop m) (n - m) (by simp [ha])
    rw [← wwNat_eq_zero] at hz
    by_cases hzz : wwIsZero_fast (a.drop m) (n - m) = true
    · simp only [hzz, if_true]
      rw [wwCmp_fast_eq_take a b m (by omega) (by omega), hbt, hsplit, hz.mp hzz]; simp
    · rw [if_neg hzz]
      have hpos : 0 < wwNat (a.drop m) := by
        have := mt hz.mpr hzz; omega
      have hlt := wwNat_lt b
      rw [hb] at hlt
      rw [hsplit, (cmp3_hi _ _ _ _ hpos hlt).1]
  · by_cases h2 : n < m
    · simp only [h1, h2, if_true, if_false]
      have hsplit : wwNat b = wwNat (b.take n) + 2 ^ (w * n) * wwNat (b.drop n) := by
        conv => lhs; rw [← List.take_append_drop n b]
        rw [wwNat_append]; simp [Nat.min_eq_left (show n ≤ b.length by omega)]
      have hat : a.take n = a := by rw [List.take_of_length_le (by omega)]
      have hz := wwIsZero_fast_iff_mem (b.drop n) (m - n) (by simp [hb])
      rw [← wwNat_eq_zero] at hz
      by_cases hzz : wwIsZero_fast (b.drop n) (m - n) = true
      · simp only [hzz, if_true]
        rw [wwCmp_fast_eq_take a b n (by omega) (by omega), hat, hsplit, hz.mp hzz]; simp
      · rw [if_neg hzz]
        have hpos : 0 < wwNat (b.drop n) := by
          have := mt hz.mpr hzz; omega
        have hlt := wwNat_lt a
        rw [ha] at hlt
        rw [hsplit, (cmp3_hi _ _ _ _ hpos hlt).2]
    · have : n = m := by omega
      subst this
      simp only [h1, if_false]
      rw [wwCmp_fast_eq_take a b n (by omega) (by omega), List.take_of_length_le (by omega),
        List.take_of_length_le (by omega)]

theorem forall_pos_iff_drop (a : List (BitVec w)) (n : Nat) (P : BitVec w → Prop) :
    (∀ i, 0 < i → i < n → P (a.getD i 0)) ↔ ∀ i < n - 1, P ((a.drop 1).getD i 0) := by
  constructor
  · intro h i hi; rw [getD_drop]; exact h (1 + i) (by omega) (by omega)
  · intro h i h0 hi
    have := h (i - 1) (by omega)
    rw [getD_drop] at this
    rwa [show 1 + (i - 1) = i by omega] at this

theorem tail_zero_iff (a : List (BitVec w)) (n : Nat) (ha : a.length = n) :
    (∀ i, 0 < i → i < n → a.getD i 0 = 0) ↔ wwNat (a.drop 1) = 0 := by
  rw [forall_pos_iff_drop a n (fun x => x = 0),
    forall_getD_iff_mem 0 (fun x => x = 0) (a.drop 1) (n - 1) (by simp [ha]), wwNat_eq_zero]

theorem wwNat_split1 (a : List (BitVec w)) (h : a ≠ []) :
    wwNat a = (a.getD 0 0).toNat + 2 ^ w * wwNat (a.drop 1) := by
  cases a with
  | nil => simp at h
  | cons x a => simp [wwNat]

theorem wwNat_eq_word_iff (a : List (BitVec w)) (n : Nat) (ha : a.length = n) (hn : n ≠ 0) (x : BitVec w) :
    wwNat a = x.toNat ↔ a.getD 0 0 = x ∧ ∀ i, 0 < i → i < n → a.getD i 0 = 0 := by
  have hne : a ≠ [] := by intro h; simp [h] at ha; omega
  rw [tail_zero_iff a n ha, wwNat_split1 a hne]
  constructor
  · intro h
    have hx := x.isLt
    have hT : wwNat (a.drop 1) = 0 := by
      rcases Nat.eq_zero_or_pos (wwNat (a.drop 1)) with h0 | hpos
      · exact h0
      · have : 2 ^ w * 1 ≤ 2 ^ w * wwNat (a.drop 1) := Nat.mul_le_mul_left _ hpos
        omega
    rw [hT] at h
    exact ⟨BitVec.eq_of_toNat_eq (by omega), hT⟩
  · rintro ⟨h1, h2⟩; rw [h1, h2]; simp

theorem forall_lt_iff_zero_and_pos {P : Nat → Prop} (n : Nat) (hn : n ≠ 0) :
    (∀ i < n, P i) ↔ P 0 ∧ ∀ i, 0 < i → i < n → P i := by
  constructor
  · intro h; exact ⟨h 0 (by omega), fun i _ hi => h i hi⟩
  · rintro ⟨h0, h⟩ i hi
    by_cases hz : i = 0
    · subst hz; exact h0
    · exact h i (by omega) hi

theorem wwIsW_safe_iff (a : List (BitVec w)) (n : Nat) (x : BitVec w) (ha : a.length = n) :
    wwIsW_safe a n x = true ↔ wwNat a = x.toNat := by
  unfold wwIsW_safe
  by_cases h0 : n = 0
  · subst h0
    have : a = [] := List.length_eq_zero_iff.mp ha
    subst this
    simp only [if_true, beq_iff_eq, show wwNat ([] : List (BitVec w)) = 0 from rfl]
    constructor
    · rintro rfl; simp
    · intro h; exact BitVec.eq_of_toNat_eq (by simpa using h.symm)
  · rw [if_neg h0, wwIsW_safe_loop_iff, wwNat_eq_word_iff a n ha h0, beq_iff_eq]

theorem wwIsW_fast_iff (a : List (BitVec w)) (n : Nat) (x : BitVec w) (ha : a.length = n) :
    wwIsW_fast a n x = true ↔ wwNat a = x.toNat := by
  unfold wwIsW_fast
  by_cases h0 : n = 0
  · subst h0
    have : a = [] := List.length_eq_zero_iff.mp ha
    subst this
    simp only [if_true, beq_iff_eq, show wwNat ([] : List (BitVec w)) = 0 from rfl]
    constructor
    · rintro rfl; simp
    · intro h; exact BitVec.eq_of_toNat_eq (by simpa using h.symm)
  · rw [if_neg h0, wwIsW_fast_loop_iff, wwNat_eq_word_iff a n ha h0, beq_iff_eq]

theorem wwIsRepW_safe_iff (a : List (BitVec w)) (n : Nat) (x : BitVec w) (ha : a.length = n) (hn : n ≠ 0) :
    wwIsRepW_safe a n x = true ↔ ∀ y ∈ a, y = x := by
  unfold wwIsRepW_safe
  rw [if_neg hn, wwIsRepW_safe_loop_iff, beq_iff_eq, ← forall_getD_iff_mem 0 (fun y => y = x) a n ha,
    forall_lt_iff_zero_and_pos n hn]

theorem wwIsRepW_fast_iff (a : List (BitVec w)) (n : Nat) (x : BitVec w) (ha : a.length = n) (hn : n ≠ 0) :
    wwIsRepW_fast a n x = true ↔ ∀ y ∈ a, y = x := by
  unfold wwIsRepW_fast
  rw [if_neg hn, wwIsRepW_fast_loop_iff a x n hn, ← forall_getD_iff_mem 0 (fun y => y = x) a n ha]

theorem cmpw_int (lt gt : Bool) (h : ¬(lt = true ∧ gt = true)) :
    ((-b2i lt &&& -1) ||| (-b2i gt &&& 1) : CInt) = BitVec.ofInt 32 (if lt then -1 else if gt then 1 else 0) := by
  cases lt <;> cases gt <;> first | decide | simp at h

theorem cmp3_zero_left (y : Nat) : cmp3 0 y = if y = 0 then 0 else -1 := by
  unfold cmp3
  by_cases h : y = 0
  · subst h; simp
  · rw [if_pos (by omega), if_neg h]

theorem wwCmpW_safe_eq (a : List (BitVec w)) (n : Nat) (x : BitVec w) (ha : a.length = n) :
    wwCmpW_safe a n x = cmp3 (wwNat a) x.toNat := by
  unfold wwCmpW_safe
  by_cases h0 : n = 0
  · subst h0
    have : a = [] := List.length_eq_zero_iff.mp ha
    subst this
    simp only [if_true]
    rw [show wwNat ([] : List (BitVec w)) = 0 from rfl, cmp3_zero_left]
    by_cases hx : x = 0
    · subst hx; simp [b2i]
    · have : x.toNat ≠ 0 := fun h => hx (BitVec.eq_of_toNat_eq (by simpa using h))
      have hb : (x == 0) = false := by simpa using hx
      rw [hb, if_neg this]; decide
  · simp only [h0, if_false]
    have hne : a ≠ [] := by intro h; simp [h] at ha; omega
    rw [cmpw_int _ _ (ult_asymm _ _)]
    have hs : Sign (if (a.getD 0 0).ult x then -1 else if x.ult (a.getD 0 0) then 1 else 0) := by
      unfold Sign; split
      · simp
      · split <;> simp
    rw [mask_pos _ _ hs, wwNat_split1 a hne]
    have hz : wwIsZero_safe (a.drop 1) (n - 1) = true ↔ wwNat (a.drop 1) = 0 := by
      rw [wwIsZero_safe_eq_fast, wwIsZero_fast_iff_mem _ _ (by simp [ha]), wwNat_eq_zero]
    by_cases hzz : wwIsZero_safe (a.drop 1) (n - 1) = true
    · rw [if_pos hzz, hz.mp hzz]
      simp only [BitVec.ult_iff_lt, BitVec.lt_def, Nat.mul_zero, Nat.add_zero, cmp3]
    · rw [if_neg hzz]
      have hpos : 0 < wwNat (a.drop 1) := by have := mt hz.mpr hzz; omega
      rw [(cmp3_hi _ _ _ _ hpos x.isLt).1]

open Classical in
theorem wwCmpW_fast_loop (a : List (BitVec w)) (n : Nat) (cmp : CInt) (hn : n ≠ 0) :
    wwCmpW_fast.loop a n cmp =
      if cmp ≠ 0 then cmp else if ∀ i, 0 < i → i < n → a.getD i 0 = 0 then 0 else 1 := by
  induction n generalizing cmp with
  | zero => simp at hn
  | succ n ih =>
    rw [wwCmpW_fast.loop]
    by_cases h0 : n = 0
    · subst h0
      have : ∀ i, 0 < i → i < 0 + 1 → a.getD i 0 = 0 := by intro i h1 h2; omega
      simp only [ne_eq, not_true_eq_false, decide_false, Bool.false_and, Bool.false_eq_true, if_false]
      split <;> simp_all
    · by_cases hc : cmp = 0
      · subst hc
        simp only [ne_eq, h0, not_false_eq_true, decide_true, beq_self_eq_true, Bool.and_self, if_true,
          not_true_eq_false, if_false]
        rw [ih _ h0, forall_pos_lt_succ n h0]
        by_cases ha : a.getD n 0 = 0
        · have hb : (a.getD n 0 == 0) = true := by simpa using ha
          rw [hb]; simp only [if_true, ne_eq, not_true_eq_false, if_false, ha, and_true]
        · have hb : (a.getD n 0 == 0) = false := by simpa using ha
          simp only [hb, Bool.false_eq_true, if_false, ha, and_false]
          rw [if_pos (by decide)]
      · have hb : (cmp == 0) = false := by simpa using hc
        simp only [hb, Bool.and_false, Bool.false_eq_true, if_false, ne_eq, hc, not_false_eq_true, if_true]

open Classical in
theorem wwCmpW_fast_eq (a : List (BitVec w)) (n : Nat) (x : BitVec w) (ha : a.length = n) :
    wwCmpW_fast a n x = cmp3 (wwNat a) x.toNat := by
  unfold wwCmpW_fast
  by_cases h0 : n = 0
  · subst h0
    have : a = [] := List.length_eq_zero_iff.mp ha
    subst this
    simp only [if_true]
    rw [show wwNat ([] : List (BitVec w)) = 0 from rfl, cmp3_zero_left]
    by_cases hx : x = 0
    · subst hx; simp
    · have : x.toNat ≠ 0 := fun h => hx (BitVec.eq_of_toNat_eq (by simpa using h))
      rw [if_pos hx, if_neg this]; decide
  · simp only [h0, if_false]
    have hne : a ≠ [] := by intro h; simp [h] at ha; omega
    rw [wwCmpW_fast_loop a n 0 h0, wwNat_split1 a hne, tail_zero_iff a n ha]
    simp only [ne_eq, not_true_eq_false, if_false]
    by_cases hz : wwNat (a.drop 1) = 0
    · simp only [hz, if_true, beq_self_eq_true, Nat.mul_zero, Nat.add_zero, cmp3,
        BitVec.ult_iff_lt, BitVec.lt_def]
      split
      · decide
      · split <;> decide
    · have hpos : 0 < wwNat (a.drop 1) := by omega
      rw [(cmp3_hi _ _ _ _ hpos x.isLt).1]
      simp only [hz, if_false]
      rw [if_neg (by decide)]; decide

end Bee2V.C14.Cmp

/-
C14 — comparison family, helper lemmas, part 7: SAFE(memCmpRev).
-/
import Bee2V.C14.LemmasCmp6
namespace Bee2V.C14.Cmp
variable (O : Nat)

theorem mod_mul_add_mod (a M c x : Nat) : ((a % M) * c + x) % M = (a * c + x) % M := by
  rw [Nat.add_mod, Nat.mul_mod, Nat.mod_mod, ← Nat.mul_mod, ← Nat.add_mod]

/-- the tail loop of SAFE(memCmpRev) started at `q*O + r` (r < O) stops at `q*O` having shifted in
octets `q*O + r - 1, ..., q*O` -/
theorem memCmpRev_tail (b1 b2 : List Octet) (q r : Nat) (hr : r < O) (w1 w2 : BitVec (8 * O))
    (h1 : q * O + r ≤ b1.length) (h2 : q * O + r ≤ b2.length) :
    (memCmpRev_safe.tail O b1 b2 (q * O + r) w1 w2).1 = q * O ∧
    (memCmpRev_safe.tail O b1 b2 (q * O + r) w1 w2).2.1.toNat
      = (w1.toNat * 256 ^ r + leNat ((b1.drop (q * O)).take r)) % 2 ^ (8 * O) ∧
    (memCmpRev_safe.tail O b1 b2 (q * O + r) w1 w2).2.2.toNat
      = (w2.toNat * 256 ^ r + leNat ((b2.drop (q * O)).take r)) % 2 ^ (8 * O) := by
  induction r generalizing w1 w2 with
  | zero =>
    simp only [Nat.add_zero, Nat.pow_zero, Nat.mul_one, List.take_zero, leNat]
    cases hq : q * O with
    | zero => simp [memCmpRev_safe.tail]
    | succ c =>
      rw [memCmpRev_safe.tail]
      have : (c + 1) % O = 0 := by rw [← hq]; exact Nat.mul_mod_left q O
      simp [this]
  | succ r ih =>
    have hmod : (q * O + r + 1) % O ≠ 0 := by
      rw [Nat.add_assoc, Nat.mul_add_mod_of_lt hr]; omega
    rw [show q * O + (r + 1) = (q * O + r) + 1 from rfl, memCmpRev_safe.tail, if_pos hmod]
    have ih' := ih (by omega) (w1 <<< 8 ||| (b1.getD (q * O + r) 0).setWidth (8 * O))
      (w2 <<< 8 ||| (b2.getD (q * O + r) 0).setWidth (8 * O)) (by omega) (by omega)
    refine ⟨ih'.1, ?_, ?_⟩
    · rw [ih'.2.1, shl8_or_toNat, mod_mul_add_mod, leNat_take_succ _ r (by simp; omega), getD_drop]
      congr 1
      rw [Nat.pow_succ, Nat.add_mul]
      ac_rfl
    · rw [ih'.2.2, shl8_or_toNat, mod_mul_add_mod, leNat_take_succ _ r (by simp; omega), getD_drop]
      congr 1
      rw [Nat.pow_succ, Nat.add_mul]
      ac_rfl

theorem leNat_take_add (l : List Octet) (m n : Nat) (h : m ≤ l.length) :
    leNat (l.take (m + n)) = leNat (l.take m) + 256 ^ m * leNat ((l.drop m).take n) := by
  rw [List.take_add, leNat_append]; simp [Nat.min_eq_left h]

theorem ult_iff_toNat {W : Nat} (x y : BitVec W) : x.ult y = decide (x.toNat < y.toNat) := by
  rw [Bool.eq_iff_iff]; simp [BitVec.ult_iff_lt, BitVec.lt_def]

theorem cmp3_eq_zero_iff (x y : Nat) : cmp3 x y = 0 ↔ x = y := by
  unfold cmp3
  by_cases h1 : x < y
  · simp [h1]; omega
  · by_cases h2 : y < x
    · simp [h1, h2]; omega
    · simp [h1, h2]; omega

/-- one accumulator step driven by two numbers -/
theorem lgStep_cmp3 {W : Nat} (c : Int) (hc : Sign c) (x y : BitVec W) :
    lgStep (enc c).1 (enc c).2 (x.ult y) (y.ult x)
      = (enc (if c = 0 then cmp3 x.toNat y.toNat else c) : BitVec W × BitVec W) := by
  rw [lgStep_enc c hc _ _ (ult_asymm _ _)]
  congr 1
  by_cases h0 : c = 0
  · simp only [h0, if_true, ult_iff_toNat, decide_eq_true_eq, cmp3]
    by_cases h1 : y.toNat < x.toNat
    · rw [if_pos h1, if_neg (by omega), if_pos h1]
    · rw [if_neg h1, if_neg h1]
  · simp only [h0, if_false]

theorem memCmpRev_words (b1 b2 : List Octet) (q : Nat) (c : Int) (hc : Sign c)
    (h1 : q * O ≤ b1.length) (h2 : q * O ≤ b2.length) :
    memCmpRev_safe.words O b1 b2 q (enc c).1 (enc c).2
      = enc (if c = 0 then cmp3 (leNat (b1.take (q * O))) (leNat (b2.take (q * O))) else c) := by
  induction q generalizing c with
  | zero => rcases hc with rfl | rfl | rfl <;> simp [memCmpRev_safe.words, cmp3, leNat]
  | succ q ih =>
    have hq : (q + 1) * O = q * O + O := Nat.succ_mul q O
    rw [hq] at h1 h2
    rw [memCmpRev_safe.words]
    rw [lgStep_cmp3 c hc, loadLE_toNat, loadLE_toNat]
    by_cases h0 : c = 0
    · subst h0
      simp only [if_true]
      rw [ih _ (cmp3_sign _ _) (by omega) (by omega), hq, leNat_take_add b1 _ _ (by omega),
        leNat_take_add b2 _ _ (by omega), cmp3_top]
      · congr 1
        generalize leNat (List.take O (List.drop (q * O) b1)) = X
        generalize leNat (List.take O (List.drop (q * O) b2)) = Y
        by_cases hxy : cmp3 X Y = 0
        · have : X = Y := (cmp3_eq_zero_iff X Y).mp hxy
          subst this
          simp [hxy]
        · rw [if_neg hxy]
          unfold cmp3 at hxy ⊢
          by_cases h1 : X < Y
          · rw [if_pos h1, if_neg (by omega), if_pos h1]
          · rw [if_neg h1] at hxy ⊢
            by_cases h2 : Y < X
            · rw [if_pos h2, if_pos h2]
            · rw [if_neg h2] at hxy; exact absurd rfl hxy
      · have := leNat_lt (b1.take (q * O)); simpa [Nat.min_eq_left (show q * O ≤ b1.length by omega)] using this
      · have := leNat_lt (b2.take (q * O)); simpa [Nat.min_eq_left (show q * O ≤ b2.length by omega)] using this
    · simp only [h0, if_false]
      rw [ih c hc (by omega) (by omega)]; simp [h0]

theorem lgRet_of_enc {W : Nat} (hW : 0 < W) (c : Int) (hc : Sign c) (p : BitVec W × BitVec W) (hp : p = enc c) :
    lgRet p.1 p.2 = c := by subst hp; exact lgRet_enc hW c hc

theorem enc_zero {W : Nat} : (enc 0 : BitVec W × BitVec W) = (0, 0) := by simp [enc, b2w]

theorem memCmpRev_safe_eq (hO : 0 < O) (a b : List Octet) (count : Nat)
    (ha : a.length = count) (hb : b.length = count) :
    memCmpRev_safe O a b count = cmp3 (leNat a) (leNat b) := by
  obtain ⟨q, r, hr, rfl⟩ : ∃ q r, r < O ∧ count = q * O + r :=
    ⟨count / O, count % O, Nat.mod_lt _ hO, by rw [Nat.mul_comm]; exact (Nat.div_add_mod count O).symm⟩
  have hmod : (q * O + r) % O = r := Nat.mul_add_mod_of_lt hr
  have hM : 2 ^ (8 * O) = 256 ^ O := two_pow_8mul O
  have hta : a.take (q * O + r) = a := List.take_of_length_le (by omega)
  have htb : b.take (q * O + r) = b := List.take_of_length_le (by omega)
  have hA := leNat_lt (a.take (q * O))
  have hB := leNat_lt (b.take (q * O))
  simp only [List.length_take, Nat.min_eq_left (show q * O ≤ a.length by omega)] at hA
  simp only [List.length_take, Nat.min_eq_left (show q * O ≤ b.length by omega)] at hB
  unfold memCmpRev_safe
  rw [hmod]
  by_cases hr0 : r = 0
  · subst hr0
    simp only [ne_eq, not_true_eq_false, if_false, Nat.add_zero, Nat.mul_div_cancel _ hO]
    have := memCmpRev_words O a b q 0 (by simp [Sign]) (by omega) (by omega)
    rw [enc_zero] at this
    simp only [if_true] at this
    rw [Nat.add_zero] at hta htb
    rw [hta, htb] at this
    exact lgRet_of_enc (by omega) _ (cmp3_sign _ _) _ this
  · obtain ⟨t1, t2, t3⟩ := memCmpRev_tail O a b q r hr 0 0 (by omega) (by omega)
    simp only [ne_eq, hr0, not_false_eq_true, if_true]
    generalize memCmpRev_safe.tail O a b (q * O + r) 0 0 = T at t1 t2 t3
    obtain ⟨c', w1, w2⟩ := T
    simp only at t1 t2 t3
    subst t1
    simp only [Nat.mul_div_cancel _ hO]
    have hlt1 : leNat ((a.drop (q * O)).take r) < 256 ^ O :=
      Nat.lt_of_lt_of_le (leNat_lt _) (Nat.pow_le_pow_right (by decide) (by simp; omega))
    have hlt2 : leNat ((b.drop (q * O)).take r) < 256 ^ O :=
      Nat.lt_of_lt_of_le (leNat_lt _) (Nat.pow_le_pow_right (by decide) (by simp; omega))
    have z0 : (0 : BitVec (8 * O)).toNat = 0 := by simp
    rw [z0, Nat.zero_mul, Nat.zero_add, hM, Nat.mod_eq_of_lt hlt1] at t2
    rw [z0, Nat.zero_mul, Nat.zero_add, hM, Nat.mod_eq_of_lt hlt2] at t3
    have hs := lgStep_cmp3 (W := 8 * O) 0 (by simp [Sign]) w1 w2
    rw [enc_zero] at hs
    simp only [if_true] at hs
    rw [hs, memCmpRev_words O a b q _ (cmp3_sign _ _) (by omega) (by omega)]
    refine lgRet_of_enc (by omega) _ (cmp3_sign _ _) _ ?_
    congr 1
    rw [← hta, ← htb, leNat_take_add a _ _ (by omega), leNat_take_add b _ _ (by omega), cmp3_top _ _ _ _ _ hA hB,
      t2, t3]
    generalize leNat (List.take r (List.drop (q * O) a)) = X
    generalize leNat (List.take r (List.drop (q * O) b)) = Y
    rw [hta, htb]
    by_cases hxy : cmp3 X Y = 0
    · have : X = Y := (cmp3_eq_zero_iff X Y).mp hxy
      subst this
      simp [hxy]
    · rw [if_neg hxy]
      unfold cmp3 at hxy ⊢
      by_cases h1 : X < Y
      · rw [if_pos h1, if_neg (by omega), if_pos h1]
      · rw [if_neg h1] at hxy ⊢
        by_cases h2 : Y < X
        · rw [if_pos h2, if_pos h2]
        · rw [if_neg h2] at hxy; exact absurd rfl hxy

end Bee2V.C14.Cmp

/-
C19 — all build configurations compute the same function: parametricity corollaries.

The models of the other areas are parametric in the machine-word size (`B_PER_W`), the edition
(SAFE / FAST) and the octets-per-word constant.  Each theorem below states that the OCTET-LEVEL
result of a model does not depend on that parameter; it is derived from the area's own
`model = specification` theorems (imported, not re-proved).  That the compiled configurations agree
with the models is the job of the multi-configuration replay in props/C19.py.
-/
import Bee2V.C01.PropsLcl
import Bee2V.C03.Props
import Bee2V.C14.PropsCmp

namespace Bee2V.C19

/-! ### word size -/

/-- belt DWP / CHE length block (`beltHalfBlockAddBitSizeW`): the `#if B_PER_W` branches for
16-, 32- and 64-bit machine words write the same 8 octets for every count < 2^64. -/
theorem addBitSize_word_size_independent (half : Bee2V.C01.Bytes) (count : Nat) (hl : half.length = 8)
    (hc : count < 2 ^ 64) :
    Bee2V.C01.addBitSizeW32 half count = Bee2V.C01.addBitSizeW64 half count ∧
    Bee2V.C01.addBitSizeW16 half count = Bee2V.C01.addBitSizeW64 half count :=
  (Bee2V.C01.addBitSizeW_word_size_independent 64 half count hl hc).2

/-- brng CTR counter (`brngBlockInc`): the word loop over 64-bit words and over 32-bit words
produces the same 32 octets (and leaves what follows the block untouched) for every counter
value, including 2^256 − 1. -/
theorem brngBlockInc_word_size_independent (s rest : Bee2V.C03.Bytes) (hs : s.length = 32) :
    Bee2V.C03.blockInc 8 (s ++ rest) = Bee2V.C03.blockInc 4 (s ++ rest) :=
  (Bee2V.C03.brngBlockInc_spec s rest hs).1.trans (Bee2V.C03.brngBlockInc_spec s rest hs).2.symm

/-! ### edition (SAFE / FAST, `BUILD_FAST`) and octets per word -/

/-- `memEq`: the regular and the fast edition return the same value, for every word size
(`O` = octets per word) — so `BUILD_FAST` does not change any comparison result. -/
theorem memEq_edition_independent (O : Nat) (hO : 0 < O) (a b : List Bee2V.C14.Cmp.Octet)
    (h : a.length = b.length) :
    Bee2V.C14.Cmp.memEq_safe O hO a b = Bee2V.C14.Cmp.memEq_fast a b :=
  Bee2V.C14.memEq_safe_eq_fast O hO a b h

end Bee2V.C19

/-
C19 — all build configurations compute the same function: parametricity corollaries.

The models of the other areas are parametric in the machine-word size (`B_PER_W`), the edition
(SAFE / FAST) and the octets-per-word constant.  Each theorem below states that the OCTET-LEVEL
result of a model does not depend on that parameter; it is derived from the area's own
`model = specification` theorems (imported, not re-proved).  That the compiled configurations agree
with the models is the job of the multi-configuration replay in props/C19.py.
-/
import Bee2V.C01.PropsLcl
import Bee2V.C03.Props
import Bee2V.C14.PropsCmp
import Bee2V.C05.PropsAdd
import Bee2V.C05.PropsMul
import Bee2V.C05.PropsDiv

namespace Bee2V.C19

/-! ### word size -/

/-- belt DWP / CHE length block (`beltHalfBlockAddBitSizeW`): the `#if B_PER_W` branches for
16-, 32- and 64-bit machine words write the same 8 octets for every count < 2^64. -/
theorem addBitSize_word_size_independent (half : Bee2V.C01.Bytes) (count : Nat) (hl : half.length = 8)
    (hc : count < 2 ^ 64) :
    Bee2V.C01.addBitSizeW32 half count = Bee2V.C01.addBitSizeW64 half count ∧
    Bee2V.C01.addBitSizeW16 half count = Bee2V.C01.addBitSizeW64 half count :=
  (Bee2V.C01.addBitSizeW_word_size_independent 64 half count hl hc).2

/-- brng CTR counter (`brngBlockInc`): the word loop over 64-bit words and over 32-bit words
produces the same 32 octets (and leaves what follows the block untouched) for every counter
value, including 2^256 − 1. -/
theorem brngBlockInc_word_size_independent (s rest : Bee2V.C03.Bytes) (hs : s.length = 32) :
    Bee2V.C03.blockInc 8 (s ++ rest) = Bee2V.C03.blockInc 4 (s ++ rest) :=
  (Bee2V.C03.brngBlockInc_spec s rest hs).1.trans (Bee2V.C03.brngBlockInc_spec s rest hs).2.symm

/-! ### edition (SAFE / FAST, `BUILD_FAST`) and octets per word -/

/-- `memEq`: the regular and the fast edition return the same value, for every word size
(`O` = octets per word) — so `BUILD_FAST` does not change any comparison result. -/
theorem memEq_edition_independent (O : Nat) (hO : 0 < O) (a b : List Bee2V.C14.Cmp.Octet)
    (h : a.length = b.length) :
    Bee2V.C14.Cmp.memEq_safe O hO a b = Bee2V.C14.Cmp.memEq_fast a b :=
  Bee2V.C14.memEq_safe_eq_fast O hO a b h

/-! ### big-integer layer: the value computed does not depend on the word size or the edition

`val w a` is the number a little-endian list of `w`-bit words represents.  The code-shaped models of
C05 are generic in `w`; their `= specification` theorems give: two builds with different word sizes,
fed word arrays that represent the same numbers, return word arrays that represent the same number. -/

open Bee2V.C05 in
/-- `zzMul`: 64-bit-word and 32-bit-word (any two word sizes) builds compute the same product. -/
theorem zzMul_word_size_independent (w1 w2 : Nat) (a1 b1 a2 b2 : List Nat)
    (ha1 : Wf w1 a1) (hb1 : Wf w1 b1) (ha2 : Wf w2 a2) (hb2 : Wf w2 b2)
    (ha : val w1 a1 = val w2 a2) (hb : val w1 b1 = val w2 b2) :
    val w1 (zzMul w1 a1 b1) = val w2 (zzMul w2 a2 b2) := by
  rw [(zzMul_spec w1 a1 b1 ha1 hb1).1, (zzMul_spec w2 a2 b2 ha2 hb2).1, ha, hb]

open Bee2V.C05 in
/-- `zzMod` (Knuth D with its normalisation, trial quotient and add-back): same remainder for any
two word sizes. -/
theorem zzMod_word_size_independent (w1 w2 : Nat) (a1 b1 a2 b2 : List Nat)
    (ha1 : Wf w1 a1) (hb1 : Wf w1 b1) (ha2 : Wf w2 a2) (hb2 : Wf w2 b2)
    (hne1 : b1 ≠ []) (hne2 : b2 ≠ []) (ht1 : b1.getLast hne1 ≠ 0) (ht2 : b2.getLast hne2 ≠ 0)
    (ha : val w1 a1 = val w2 a2) (hb : val w1 b1 = val w2 b2) :
    val w1 (zzMod w1 a1 b1) = val w2 (zzMod w2 a2 b2) := by
  rw [(zzMod_spec w1 a1 b1 ha1 hb1 hne1 ht1).1, (zzMod_spec w2 a2 b2 ha2 hb2 hne2 ht2).1, ha, hb]

open Bee2V.C05 in
/-- `zzAddMod`, regular edition on one word size versus fast edition on another: same residue
(word size AND `BUILD_FAST` at once). -/
theorem zzAddMod_config_independent (w1 w2 : Nat) (a1 b1 m1 a2 b2 m2 : List Nat)
    (ha1 : Wf w1 a1) (hb1 : Wf w1 b1) (hm1 : Wf w1 m1) (ha2 : Wf w2 a2) (hb2 : Wf w2 b2) (hm2 : Wf w2 m2)
    (hl1 : a1.length = b1.length) (hl1' : a1.length = m1.length)
    (hl2 : a2.length = b2.length) (hl2' : a2.length = m2.length)
    (hA1 : val w1 a1 < val w1 m1) (hB1 : val w1 b1 < val w1 m1)
    (hA2 : val w2 a2 < val w2 m2) (hB2 : val w2 b2 < val w2 m2)
    (ha : val w1 a1 = val w2 a2) (hb : val w1 b1 = val w2 b2) (hm : val w1 m1 = val w2 m2) :
    val w1 (zzAddMod_safe w1 a1 b1 m1) = val w2 (zzAddMod_fast w2 a2 b2 m2) := by
  rw [(zzAddMod_safe_spec w1 a1 b1 m1 ha1 hb1 hm1 hl1 hl1' hA1 hB1).1,
    (zzAddMod_fast_spec w2 a2 b2 m2 ha2 hb2 hm2 hl2 hl2' hA2 hB2).1, ha, hb, hm]

end Bee2V.C19

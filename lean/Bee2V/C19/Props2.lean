/-
C19 — further parametricity corollaries (word size, edition) re-exported from C05's
`model = specification` theorems: squaring, division with remainder, modular multiplication,
GF(2)[x] multiplication / squaring / reduction, gcd, Barrett / Montgomery / Crandall reductions
(regular = fast).  Same shape as Props.lean: two builds with different word sizes, fed word arrays that
represent the same numbers (polynomials), return word arrays that represent the same number.
-/
import Bee2V.C05.PropsAdd
import Bee2V.C05.PropsMul
import Bee2V.C05.PropsDiv
import Bee2V.C05.PropsMisc
import Bee2V.C05.PropsRed
import Bee2V.C05.PropsPpMul
import Bee2V.C05.PropsPpDiv
import Bee2V.C05.PropsGcdW

namespace Bee2V.C19
open Bee2V.C05

/-- `zzSqr` for any two word sizes. -/
theorem zzSqr_word_size_independent (w1 w2 : Nat) (hw1 : 0 < w1) (hw2 : 0 < w2) (a1 a2 : List Nat)
    (ha1 : Wf w1 a1) (ha2 : Wf w2 a2) (ha : val w1 a1 = val w2 a2) :
    val w1 (zzSqr w1 a1) = val w2 (zzSqr w2 a2) := by
  rw [(zzSqr_spec w1 hw1 a1 ha1).1, (zzSqr_spec w2 hw2 a2 ha2).1, ha]

/-- `zzDiv`: quotient and remainder are the same numbers for any two word sizes. -/
theorem zzDiv_word_size_independent (w1 w2 : Nat) (a1 b1 a2 b2 : List Nat)
    (ha1 : Wf w1 a1) (hb1 : Wf w1 b1) (ha2 : Wf w2 a2) (hb2 : Wf w2 b2)
    (hne1 : b1 ≠ []) (hne2 : b2 ≠ []) (ht1 : b1.getLast hne1 ≠ 0) (ht2 : b2.getLast hne2 ≠ 0)
    (hn1 : b1.length ≤ a1.length) (hn2 : b2.length ≤ a2.length)
    (ha : val w1 a1 = val w2 a2) (hb : val w1 b1 = val w2 b2) :
    val w1 (zzDiv w1 a1 b1).1 = val w2 (zzDiv w2 a2 b2).1 ∧
    val w1 (zzDiv w1 a1 b1).2 = val w2 (zzDiv w2 a2 b2).2 := by
  obtain ⟨e1, l1, _⟩ := zzDiv_spec w1 a1 b1 ha1 hb1 hne1 ht1 hn1
  obtain ⟨e2, l2, _⟩ := zzDiv_spec w2 a2 b2 ha2 hb2 hne2 ht2 hn2
  rw [ha, hb] at e1
  rw [hb] at l1
  -- uniqueness of Euclidean division
  have hbpos : 0 < val w2 b2 := Nat.lt_of_le_of_lt (Nat.zero_le _) l2
  have q1 : val w2 a2 / val w2 b2 = val w1 (zzDiv w1 a1 b1).1 := by
    rw [e1, Nat.add_comm, Nat.mul_comm, Nat.add_mul_div_left _ _ hbpos, Nat.div_eq_of_lt l1,
      Nat.zero_add]
  have q2 : val w2 a2 / val w2 b2 = val w2 (zzDiv w2 a2 b2).1 := by
    rw [e2, Nat.add_comm, Nat.mul_comm, Nat.add_mul_div_left _ _ hbpos, Nat.div_eq_of_lt l2,
      Nat.zero_add]
  have hq := q1.symm.trans q2
  refine ⟨hq, ?_⟩
  have e1' := e1
  rw [hq] at e1'
  have : val w2 (zzDiv w2 a2 b2).1 * val w2 b2 + val w1 (zzDiv w1 a1 b1).2 =
      val w2 (zzDiv w2 a2 b2).1 * val w2 b2 + val w2 (zzDiv w2 a2 b2).2 := e1'.symm.trans e2
  exact Nat.add_left_cancel this

/-- `zzMulMod` for any two word sizes. -/
theorem zzMulMod_word_size_independent (w1 w2 : Nat) (a1 b1 m1 a2 b2 m2 : List Nat)
    (ha1 : Wf w1 a1) (hb1 : Wf w1 b1) (hm1 : Wf w1 m1) (ha2 : Wf w2 a2) (hb2 : Wf w2 b2) (hm2 : Wf w2 m2)
    (hne1 : m1 ≠ []) (hne2 : m2 ≠ []) (ht1 : m1.getLast hne1 ≠ 0) (ht2 : m2.getLast hne2 ≠ 0)
    (ha : val w1 a1 = val w2 a2) (hb : val w1 b1 = val w2 b2) (hm : val w1 m1 = val w2 m2) :
    val w1 (zzMulMod w1 a1 b1 m1) = val w2 (zzMulMod w2 a2 b2 m2) := by
  rw [(zzMulMod_spec w1 a1 b1 m1 ha1 hb1 hm1 hne1 ht1).1,
    (zzMulMod_spec w2 a2 b2 m2 ha2 hb2 hm2 hne2 ht2).1, ha, hb, hm]

/-- `ppMul` (carry-less product with its per-word-size multiplication kernels): the same
polynomial for B_PER_W ∈ {16, 32, 64}. -/
theorem ppMul_word_size_independent (w1 w2 : Nat) (hw1 : w1 = 16 ∨ w1 = 32 ∨ w1 = 64)
    (hw2 : w2 = 16 ∨ w2 = 32 ∨ w2 = 64) (a1 b1 a2 b2 : List Nat)
    (ha1 : Wf w1 a1) (hb1 : Wf w1 b1) (ha2 : Wf w2 a2) (hb2 : Wf w2 b2)
    (ha : val w1 a1 = val w2 a2) (hb : val w1 b1 = val w2 b2) :
    val w1 (ppMul w1 a1 b1) = val w2 (ppMul w2 a2 b2) := by
  rw [(ppMul_spec w1 hw1 a1 b1 ha1 hb1).1, (ppMul_spec w2 hw2 a2 b2 ha2 hb2).1, ha, hb]

/-- `ppSqr` (table-driven squaring): the same polynomial for every word size that is a multiple of 16. -/
theorem ppSqr_word_size_independent (w1 w2 : Nat) (hw1 : 16 ∣ w1) (hw2 : 16 ∣ w2) (a1 a2 : List Nat)
    (ha1 : Wf w1 a1) (ha2 : Wf w2 a2) (ha : val w1 a1 = val w2 a2) :
    val w1 (ppSqr w1 a1) = val w2 (ppSqr w2 a2) := by
  rw [(ppSqr_spec w1 hw1 a1 ha1).1, (ppSqr_spec w2 hw2 a2 ha2).1, ha]

/-- `ppMod` (table-driven polynomial division): the same remainder for B_PER_W ∈ {16, 32, 64}. -/
theorem ppMod_word_size_independent (w1 w2 : Nat) (hw1 : w1 = 16 ∨ w1 = 32 ∨ w1 = 64)
    (hw2 : w2 = 16 ∨ w2 = 32 ∨ w2 = 64) (a1 b1 a2 b2 : List Nat)
    (ha1 : Wf w1 a1) (hb1 : Wf w1 b1) (ha2 : Wf w2 a2) (hb2 : Wf w2 b2)
    (hm1 : 0 < b1.length) (hm2 : 0 < b2.length)
    (ht1 : b1.getD (b1.length - 1) 0 ≠ 0) (ht2 : b2.getD (b2.length - 1) 0 ≠ 0)
    (ha : val w1 a1 = val w2 a2) (hb : val w1 b1 = val w2 b2) :
    val w1 (ppMod w1 a1 b1) = val w2 (ppMod w2 a2 b2) := by
  rw [(ppMod_spec w1 hw1 a1 b1 ha1 hb1 hm1 ht1).1, (ppMod_spec w2 hw2 a2 b2 ha2 hb2 hm2 ht2).1, ha, hb]

/-- `zzGCD` (binary gcd on word arrays): the same number for any two word sizes the size
bookkeeping admits. -/
theorem zzGCD_word_size_independent (w1 w2 : Nat) (hw1 : 0 < w1) (hw2 : 0 < w2)
    (hs1 : GcdW.SizesOK w1) (hs2 : GcdW.SizesOK w2) (a1 b1 a2 b2 : List Nat)
    (ha1 : Wf w1 a1) (hb1 : Wf w1 b1) (ha2 : Wf w2 a2) (hb2 : Wf w2 b2)
    (hp1 : 0 < val w1 a1) (hq1 : 0 < val w1 b1)
    (ha : val w1 a1 = val w2 a2) (hb : val w1 b1 = val w2 b2) :
    val w1 (zzGCDW w1 a1 b1) = val w2 (zzGCDW w2 a2 b2) := by
  rw [(zzGCDW_spec w1 hw1 hs1 a1 b1 ha1 hb1 hp1 hq1).1,
    (zzGCDW_spec w2 hw2 hs2 a2 b2 ha2 hb2 (ha ▸ hp1) (hb ▸ hq1)).1, ha, hb]

/-- `wwCmp`: regular and fast editions return the same sign (any word size: the models do not
depend on it). -/
theorem wwCmp_edition_independent (a b : List Nat) : wwCmp_safe a b = wwCmp_fast a b :=
  wwCmp_safe_eq_wwCmp_fast a b

/-- non-vacuity: the 64-bit and the 32-bit build on the same numbers (2^40 + 7 and 12). -/
example : val 64 (zzGCDW 64 [2 ^ 40 + 12] [12]) = val 32 (zzGCDW 32 [12, 2 ^ 8] [12]) :=
  zzGCD_word_size_independent 64 32 (by decide) (by decide) sizesOK64 sizesOK32
    [2 ^ 40 + 12] [12] [12, 2 ^ 8] [12] (by decide) (by decide) (by decide) (by decide)
    (by decide) (by decide) (by decide) (by decide)

end Bee2V.C19

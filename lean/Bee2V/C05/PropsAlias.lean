/-
C05 — aliasing: "for every aliasing of operands the documentation allows".

The list models (ModelAdd.lean, ModelMul.lean) are functions of the original contents of their
inputs.  Here the same loops run on a memory with addresses (ModelAlias.lean: `loop2`, `loop1`,
`loopIO`, `loop1Desc`, `loop2Post`, `loop1Post`, reading memory at the time of each iteration, in
the C order), and the theorems say: whenever the output region `c` is *the same as or disjoint
from* each input region (`SameOrDisj`, the `wwIsSameOrDisjoint` of the C ASSERTs — the header's
"Буфер c либо не пересекается, либо совпадает с каждым из буферов a, b"), the final contents of
`c` and the returned register equal the list model applied to the ORIGINAL contents of the input
regions, and no address outside `[c, c + n)` changes.  Nothing is assumed about how the input
regions overlap each other (`a == b`, partial overlap of `a` and `b`: they are only read).

`m : Mem = Nat → Nat` is arbitrary, `n` arbitrary, the word size `w` arbitrary.
Negative examples show that the hypothesis matters (partial overlap breaks the equality).
-/
import Bee2V.C05.LemmasAlias
namespace Bee2V.C05
open Bee2V.C05.Alias

/-! ## the generic theorems -/

/-- Binary ascending loop `for i: (s, v) = step(s, a[i], b[i]); c[i] = v` on memory, with `c`
    same-or-disjoint w.r.t. `a` and w.r.t. `b`: final `c` and state = the list computation on the
    original contents of `a`, `b`; everything outside `c` is unchanged. -/
theorem loop2_alias {σ : Type} (step : σ → Nat → Nat → σ × Nat) (a b c n : Nat) (s : σ) (m : Mem)
    (ha : SameOrDisj c a n) (hb : SameOrDisj c b n) :
    readN (loop2 step a b c n s m).1 c n = (pure2 step s (readN m a n) (readN m b n)).1
    ∧ (loop2 step a b c n s m).2 = (pure2 step s (readN m a n) (readN m b n)).2
    ∧ ∀ j, (j < c ∨ c + n ≤ j) → (loop2 step a b c n s m).1 j = m j := by
  simpa [loop2] using loop2I_spec step a b c n 0 s m (by simpa [SameOrDisj] using ha)
    (by simpa [SameOrDisj] using hb)

-- the five documented patterns satisfy the hypotheses (for every n, m):
example {σ : Type} (step : σ → Nat → Nat → σ × Nat) (a n : Nat) (s : σ) (m : Mem) :=
  loop2_alias step a a a n s m (Or.inl rfl) (Or.inl rfl)                       -- c == a == b
example {σ : Type} (step : σ → Nat → Nat → σ × Nat) (a n : Nat) (s : σ) (m : Mem) :=
  loop2_alias step a (a + n) a n s m (Or.inl rfl) (Or.inr (Or.inl (Nat.le_refl _)))  -- c == a, b disjoint
example {σ : Type} (step : σ → Nat → Nat → σ × Nat) (a n : Nat) (s : σ) (m : Mem) :=
  loop2_alias step (a + n) a a n s m (Or.inr (Or.inl (Nat.le_refl _))) (Or.inl rfl)  -- c == b, a disjoint
example {σ : Type} (step : σ → Nat → Nat → σ × Nat) (a n : Nat) (s : σ) (m : Mem) :=
  loop2_alias step a a (a + n) n s m (Or.inr (Or.inr (Nat.le_refl _)))
    (Or.inr (Or.inr (Nat.le_refl _)))                                          -- a == b, c disjoint

/-- The hypothesis matters: with a partially overlapping output (`c = a + 1`) the memory loop
    (here zzAdd(a + 1, a, a, 3)) does NOT compute the list function of the original contents —
    iteration 1 reads the word iteration 0 has just stored. -/
example :
    let m := ofList [1, 2, 3, 4] 0
    readN (zzAddMem 8 1 0 0 3 m).1 1 3 = [2, 4, 8]
    ∧ (zzAdd 8 (readN m 0 3) (readN m 0 3)).1 = [2, 4, 6]
    ∧ ¬ SameOrDisj 1 0 3 := by decide

/-- Unary ascending loop `for i: (s, v) = step(s, a[i]); c[i] = v`. -/
theorem loop1_alias {σ : Type} (step : σ → Nat → σ × Nat) (a c n : Nat) (s : σ) (m : Mem)
    (ha : SameOrDisj c a n) :
    readN (loop1 step a c n s m).1 c n = (pure1 step s (readN m a n)).1
    ∧ (loop1 step a c n s m).2 = (pure1 step s (readN m a n)).2
    ∧ ∀ j, (j < c ∨ c + n ≤ j) → (loop1 step a c n s m).1 j = m j := by
  simpa [loop1] using loop1I_spec step a c n 0 s m (by simpa [SameOrDisj] using ha)

/-- In/out loop `for i: (s, v) = step(s, b[i], a[i]); b[i] = v` (`b[i] op= …`), `b` same-or-disjoint
    w.r.t. `a`. -/
theorem loopIO_alias {σ : Type} (step : σ → Nat → Nat → σ × Nat) (b a n : Nat) (s : σ) (m : Mem)
    (ha : SameOrDisj b a n) :
    readN (loopIO step b a n s m).1 b n = (pure2 step s (readN m b n) (readN m a n)).1
    ∧ (loopIO step b a n s m).2 = (pure2 step s (readN m b n) (readN m a n)).2
    ∧ ∀ j, (j < b ∨ b + n ≤ j) → (loopIO step b a n s m).1 j = m j := by
  rw [loopIO_eq]
  exact loop2_alias step b a b n s m (Or.inl rfl) ha

/-- Descending loop `while (n--) { (s, v) = step(s, a[n]); c[n] = v; }`: the list computation
    threads the state from the top word down. -/
theorem loop1Desc_alias {σ : Type} (step : σ → Nat → σ × Nat) (a c n : Nat) (s : σ) (m : Mem)
    (ha : SameOrDisj c a n) :
    readN (loop1Desc step a c n s m).1 c n = (pure1Desc step s (readN m a n)).1
    ∧ (loop1Desc step a c n s m).2 = (pure1Desc step s (readN m a n)).2
    ∧ ∀ j, (j < c ∨ c + n ≤ j) → (loop1Desc step a c n s m).1 j = m j :=
  loop1Desc_spec step a c n s m ha

/-- The hypothesis matters for the descending loop too — in the other direction: `a = q + 1`
    (zzDivW(q, q + 1, 3, 3)) differs from the list function, while the same shift is harmless for
    an ascending loop and vice versa. -/
example :
    let m := ofList [9, 7, 5, 4] 0
    readN (zzDivWMem 8 0 1 3 3 m).1 0 3 ≠ (zzDivW 8 (readN m 1 3) 3).1
    ∧ ¬ SameOrDisj 0 1 3 := by decide

/-- Binary loop whose iteration reads `d[i]` and re-reads `c[i]` AFTER the store to `c[i]`
    (SAFE modular routines: `d` = `mod`): `c` same-or-disjoint w.r.t. `a`, `b` and DISJOINT from `d`. -/
theorem loop2Post_alias {σ : Type} (step : σ → Nat → Nat → σ × Nat) (post : σ → Nat → Nat → σ)
    (a b d c n : Nat) (s : σ) (m : Mem)
    (ha : SameOrDisj c a n) (hb : SameOrDisj c b n) (hd : Disj c d n) :
    readN (loop2Post step post a b d c n s m).1 c n
      = (pure2Post step post s (readN m a n) (readN m b n) (readN m d n)).1
    ∧ (loop2Post step post a b d c n s m).2
      = (pure2Post step post s (readN m a n) (readN m b n) (readN m d n)).2
    ∧ ∀ j, (j < c ∨ c + n ≤ j) → (loop2Post step post a b d c n s m).1 j = m j := by
  simpa [loop2Post] using loop2PostI_spec step post a b d c n 0 s m
    (by simpa [SameOrDisj] using ha) (by simpa [SameOrDisj] using hb) (by simpa using hd)

/-- Unary loop with the post-store reads. -/
theorem loop1Post_alias {σ : Type} (step : σ → Nat → σ × Nat) (post : σ → Nat → Nat → σ)
    (a d c n : Nat) (s : σ) (m : Mem) (ha : SameOrDisj c a n) (hd : Disj c d n) :
    readN (loop1Post step post a d c n s m).1 c n
      = (pure1Post step post s (readN m a n) (readN m d n)).1
    ∧ (loop1Post step post a d c n s m).2
      = (pure1Post step post s (readN m a n) (readN m d n)).2
    ∧ ∀ j, (j < c ∨ c + n ≤ j) → (loop1Post step post a d c n s m).1 j = m j := by
  simpa [loop1Post] using loop1PostI_spec step post a d c n 0 s m
    (by simpa [SameOrDisj] using ha) (by simpa using hd)

/-- `mod == c` is NOT allowed for the SAFE modular routines (the mask would compare c with itself):
    SAFE(zzAddMod)(c, a, b, c, 2) differs from the list function. -/
example :
    let m := ofList [3, 0, 200, 0, 100, 0] 0
    readN (zzAddModMem_safe 8 0 2 4 0 2 m) 0 2
      ≠ zzAddMod_safe 8 (readN m 2 2) (readN m 4 2) (readN m 0 2) := by decide

/-! ## zz_add.c -/

/-- zzAdd(c, a, b, n) with c == a, c == b, a == b, all equal, or c disjoint from a and b. -/
theorem zzAdd_alias (w c a b n : Nat) (m : Mem) (ha : SameOrDisj c a n) (hb : SameOrDisj c b n) :
    readN (zzAddMem w c a b n m).1 c n = (zzAdd w (readN m a n) (readN m b n)).1
    ∧ (zzAddMem w c a b n m).2 = (zzAdd w (readN m a n) (readN m b n)).2
    ∧ ∀ j, (j < c ∨ c + n ≤ j) → (zzAddMem w c a b n m).1 j = m j := by
  unfold zzAddMem zzAdd
  rw [zzAddLoop_eq]
  exact loop2_alias _ a b c n 0 m ha hb

example (w a n : Nat) (m : Mem) := zzAdd_alias w a a a n m (Or.inl rfl) (Or.inl rfl)
example : readN (zzAddMem 8 0 0 0 3 (ofList [255, 255, 1] 0)).1 0 3 = [254, 255, 3] := by decide

/-- zzSub(c, a, b, n), same patterns. -/
theorem zzSub_alias (w c a b n : Nat) (m : Mem) (ha : SameOrDisj c a n) (hb : SameOrDisj c b n) :
    readN (zzSubMem w c a b n m).1 c n = (zzSub w (readN m a n) (readN m b n)).1
    ∧ (zzSubMem w c a b n m).2 = (zzSub w (readN m a n) (readN m b n)).2
    ∧ ∀ j, (j < c ∨ c + n ≤ j) → (zzSubMem w c a b n m).1 j = m j := by
  unfold zzSubMem zzSub
  rw [zzSubLoop_eq]
  exact loop2_alias _ a b c n 0 m ha hb

example (w a b n : Nat) (m : Mem) (h : Disj b a n) := zzSub_alias w b a b n m (Or.inr h) (Or.inl rfl)
example : (zzSubMem 8 2 0 2 2 (ofList [1, 0, 2, 0] 0)).2 = 1 := by decide

/-- zzAdd2(b, a, n) with b == a or disjoint. -/
theorem zzAdd2_alias (w b a n : Nat) (m : Mem) (h : SameOrDisj b a n) :
    readN (zzAdd2Mem w b a n m).1 b n = (zzAdd2 w (readN m b n) (readN m a n)).1
    ∧ (zzAdd2Mem w b a n m).2 = (zzAdd2 w (readN m b n) (readN m a n)).2
    ∧ ∀ j, (j < b ∨ b + n ≤ j) → (zzAdd2Mem w b a n m).1 j = m j := by
  unfold zzAdd2Mem zzAdd2
  rw [zzAdd2Loop_eq]
  exact loopIO_alias _ b a n 0 m h

example (w a n : Nat) (m : Mem) := zzAdd2_alias w a a n m (Or.inl rfl)
example : readN (zzAdd2Mem 8 0 0 2 (ofList [200, 1] 0)).1 0 2 = [144, 3] := by decide

/-- zzSub2(b, a, n) with b == a or disjoint. -/
theorem zzSub2_alias (w b a n : Nat) (m : Mem) (h : SameOrDisj b a n) :
    readN (zzSub2Mem w b a n m).1 b n = (zzSub2 w (readN m b n) (readN m a n)).1
    ∧ (zzSub2Mem w b a n m).2 = (zzSub2 w (readN m b n) (readN m a n)).2
    ∧ ∀ j, (j < b ∨ b + n ≤ j) → (zzSub2Mem w b a n m).1 j = m j := by
  unfold zzSub2Mem zzSub2
  rw [zzSub2Loop_eq]
  exact loopIO_alias _ b a n 0 m h

example (w a n : Nat) (m : Mem) := zzSub2_alias w a a n m (Or.inl rfl)

/-- zzAddW(b, a, n, x) with b == a (this is also zzAddW2) or disjoint. -/
theorem zzAddW_alias (w b a n x : Nat) (m : Mem) (h : SameOrDisj b a n) :
    readN (zzAddWMem w b a n x m).1 b n = (zzAddW w (readN m a n) x).1
    ∧ (zzAddWMem w b a n x m).2 = (zzAddW w (readN m a n) x).2
    ∧ ∀ j, (j < b ∨ b + n ≤ j) → (zzAddWMem w b a n x m).1 j = m j := by
  unfold zzAddWMem
  rw [zzAddW_eq]
  exact loop1_alias _ a b n x m h

example (w a n x : Nat) (m : Mem) := zzAddW_alias w a a n x m (Or.inl rfl)
example : readN (zzAddWMem 8 0 0 2 1 (ofList [255, 7] 0)).1 0 2 = [0, 8] := by decide

/-- zzSubW(b, a, n, x) with b == a (zzSubW2) or disjoint. -/
theorem zzSubW_alias (w b a n x : Nat) (m : Mem) (h : SameOrDisj b a n) :
    readN (zzSubWMem w b a n x m).1 b n = (zzSubW w (readN m a n) x).1
    ∧ (zzSubWMem w b a n x m).2 = (zzSubW w (readN m a n) x).2
    ∧ ∀ j, (j < b ∨ b + n ≤ j) → (zzSubWMem w b a n x m).1 j = m j := by
  unfold zzSubWMem
  rw [zzSubW_eq]
  exact loop1_alias _ a b n x m h

example (w a n x : Nat) (m : Mem) := zzSubW_alias w a a n x m (Or.inl rfl)

/-! ## zz_etc.c -/

/-- zzAddAndW(b, a, n, msk) with b == a or disjoint. -/
theorem zzAddAndW_alias (w b a n msk : Nat) (m : Mem) (h : SameOrDisj b a n) :
    readN (zzAddAndWMem w b a n msk m).1 b n = zzAddAndW w (readN m b n) (readN m a n) msk
    ∧ ∀ j, (j < b ∨ b + n ≤ j) → (zzAddAndWMem w b a n msk m).1 j = m j := by
  unfold zzAddAndWMem zzAddAndW
  rw [zzAddAndWLoop_eq]
  obtain ⟨h1, _, h3⟩ := loopIO_alias (addAndWStep w msk) b a n 0 m h
  exact ⟨h1, h3⟩

example (w a n msk : Nat) (m : Mem) := zzAddAndW_alias w a a n msk m (Or.inl rfl)

/-- zzSubAndW(b, a, n, msk) with b == a or disjoint. -/
theorem zzSubAndW_alias (w b a n msk : Nat) (m : Mem) (h : SameOrDisj b a n) :
    readN (zzSubAndWMem w b a n msk m).1 b n = (zzSubAndW w (readN m b n) (readN m a n) msk).1
    ∧ (zzSubAndWMem w b a n msk m).2 = (zzSubAndW w (readN m b n) (readN m a n) msk).2
    ∧ ∀ j, (j < b ∨ b + n ≤ j) → (zzSubAndWMem w b a n msk m).1 j = m j := by
  unfold zzSubAndWMem zzSubAndW
  rw [zzSubAndWLoop_eq]
  exact loopIO_alias _ b a n 0 m h

example (w a n msk : Nat) (m : Mem) := zzSubAndW_alias w a a n msk m (Or.inl rfl)
example : readN (zzSubAndWMem 8 0 0 2 255 (ofList [5, 9] 0)).1 0 2 = [0, 0] := by decide

/-! ## zz_mul.c -/

/-- zzMulW(b, a, n, x) with b == a or disjoint. -/
theorem zzMulW_alias (w b a n x : Nat) (m : Mem) (h : SameOrDisj b a n) :
    readN (zzMulWMem w b a n x m).1 b n = (zzMulW w (readN m a n) x).1
    ∧ (zzMulWMem w b a n x m).2 = (zzMulW w (readN m a n) x).2
    ∧ ∀ j, (j < b ∨ b + n ≤ j) → (zzMulWMem w b a n x m).1 j = m j := by
  unfold zzMulWMem zzMulW
  rw [zzMulWLoop_eq]
  exact loop1_alias _ a b n 0 m h

example (w a n x : Nat) (m : Mem) := zzMulW_alias w a a n x m (Or.inl rfl)
example : (zzMulWMem 8 0 0 3 255 (ofList [255, 255, 255] 0)).2 = 254 := by decide

/-- zzAddMulW(b, a, n, x) with b == a or disjoint. -/
theorem zzAddMulW_alias (w b a n x : Nat) (m : Mem) (h : SameOrDisj b a n) :
    readN (zzAddMulWMem w b a n x m).1 b n = (zzAddMulW w (readN m b n) (readN m a n) x).1
    ∧ (zzAddMulWMem w b a n x m).2 = (zzAddMulW w (readN m b n) (readN m a n) x).2
    ∧ ∀ j, (j < b ∨ b + n ≤ j) → (zzAddMulWMem w b a n x m).1 j = m j := by
  unfold zzAddMulWMem zzAddMulW
  rw [zzAddMulWLoop_eq]
  exact loopIO_alias _ b a n 0 m h

example (w a n x : Nat) (m : Mem) := zzAddMulW_alias w a a n x m (Or.inl rfl)
example : readN (zzAddMulWMem 8 0 0 2 255 (ofList [255, 255] 0)).1 0 2 = [0, 255] := by decide

/-- zzSubMulW(b, a, n, x) with b == a or disjoint. -/
theorem zzSubMulW_alias (w b a n x : Nat) (m : Mem) (h : SameOrDisj b a n) :
    readN (zzSubMulWMem w b a n x m).1 b n = (zzSubMulW w (readN m b n) (readN m a n) x).1
    ∧ (zzSubMulWMem w b a n x m).2 = (zzSubMulW w (readN m b n) (readN m a n) x).2
    ∧ ∀ j, (j < b ∨ b + n ≤ j) → (zzSubMulWMem w b a n x m).1 j = m j := by
  unfold zzSubMulWMem zzSubMulW
  rw [zzSubMulWLoop_eq]
  exact loopIO_alias _ b a n 0 m h

example (w a n x : Nat) (m : Mem) := zzSubMulW_alias w a a n x m (Or.inl rfl)

/-- zzDivW(q, a, n, x) with q == a or disjoint; the loop runs from the top word down. -/
theorem zzDivW_alias (w q a n x : Nat) (m : Mem) (h : SameOrDisj q a n) :
    readN (zzDivWMem w q a n x m).1 q n = (zzDivW w (readN m a n) x).1
    ∧ (zzDivWMem w q a n x m).2 = (zzDivW w (readN m a n) x).2
    ∧ ∀ j, (j < q ∨ q + n ≤ j) → (zzDivWMem w q a n x m).1 j = m j := by
  unfold zzDivWMem
  rw [zzDivW_eq]
  exact loop1Desc_alias _ a q n 0 m h

example (w a n x : Nat) (m : Mem) := zzDivW_alias w a a n x m (Or.inl rfl)
example : (zzDivWMem 8 0 0 3 7 (ofList [1, 2, 3] 0)).2 = (1 + 2 * 256 + 3 * 65536) % 7 := by decide

/-! ## zz_mod.c -/

/-- the `b <- 2a` loop of FAST(zzDoubleMod)(b, a, …) with b == a or disjoint. -/
theorem zzDouble_alias (w b a n : Nat) (m : Mem) (h : SameOrDisj b a n) :
    readN (zzDoubleMem w b a n m).1 b n = (zzDoubleLoop w (readN m a n) 0).1
    ∧ (zzDoubleMem w b a n m).2 = (zzDoubleLoop w (readN m a n) 0).2
    ∧ ∀ j, (j < b ∨ b + n ≤ j) → (zzDoubleMem w b a n m).1 j = m j := by
  unfold zzDoubleMem
  rw [zzDoubleLoop_eq]
  exact loop1_alias _ a b n 0 m h

example (w a n : Nat) (m : Mem) := zzDouble_alias w a a n m (Or.inl rfl)

/-- the in-place shift loop of FAST(zzHalfMod) (`while (n--)` on b itself): ModelAdd's `zzHalfLoop`
    on the reversed contents, reversed back. -/
theorem zzHalfShift_alias (w b n carry : Nat) (m : Mem) :
    readN (zzHalfShiftMem w b n carry m).1 b n = (zzHalfLoop w (readN m b n).reverse carry).reverse
    ∧ ∀ j, (j < b ∨ b + n ≤ j) → (zzHalfShiftMem w b n carry m).1 j = m j := by
  unfold zzHalfShiftMem
  rw [zzHalfLoop_eq, List.reverse_reverse]
  obtain ⟨h1, _, h3⟩ := loop1Desc_alias (halfStep w) b b n carry m (Or.inl rfl)
  exact ⟨h1, h3⟩

example : readN (zzHalfShiftMem 8 0 2 1 (ofList [3, 1] 0)).1 0 2 = [129, 128] := by decide

/-- SAFE(zzAddMod)(c, a, b, mod, n) = add-and-compare loop, then zzSubAndW(c, mod, n, mask) on the
    memory the first loop left: c same-or-disjoint w.r.t. a and b, c disjoint from mod. -/
theorem zzAddMod_safe_alias (w c a b md n : Nat) (m : Mem)
    (ha : SameOrDisj c a n) (hb : SameOrDisj c b n) (hm : Disj c md n) :
    readN (zzAddModMem_safe w c a b md n m) c n
      = zzAddMod_safe w (readN m a n) (readN m b n) (readN m md n)
    ∧ ∀ j, (j < c ∨ c + n ≤ j) → zzAddModMem_safe w c a b md n m j = m j := by
  obtain ⟨h1, h2, h3⟩ := loop2Post_alias (addModStep w) maskPost a b md c n (0, 1) m ha hb hm
  have hmod : readN (loop2Post (addModStep w) maskPost a b md c n (0, 1) m).1 md n = readN m md n :=
    readN_congr _ _ _ _ (fun j h1 h2 => h3 j (by simp only [Disj] at hm; omega))
  simp only [zzAddModMem_safe, zzAddMod_safe, zzAddMod_safeLoop_eq]
  obtain ⟨g1, _, g3⟩ := zzSubAndW_alias w c md n
    (wneg w ((loop2Post (addModStep w) maskPost a b md c n (0, 1) m).2.2
      ||| (loop2Post (addModStep w) maskPost a b md c n (0, 1) m).2.1))
    (loop2Post (addModStep w) maskPost a b md c n (0, 1) m).1 (Or.inr hm)
  refine ⟨?_, fun j hj => by rw [g3 j hj, h3 j hj]⟩
  rw [g1, hmod, h1, h2]

example (w a n : Nat) (m : Mem) :=
  zzAddMod_safe_alias w a a a (a + n) n m (Or.inl rfl) (Or.inl rfl) (Or.inl (Nat.le_refl _))
example : readN (zzAddModMem_safe 8 0 0 0 2 2 (ofList [200, 0, 1, 1] 0)) 0 2 = [143, 0] := by decide

/-- SAFE(zzSubMod)(c, a, b, mod, n) = zzSub(c, a, b, n), then zzAddAndW(c, mod, n, mask). -/
theorem zzSubMod_safe_alias (w c a b md n : Nat) (m : Mem)
    (ha : SameOrDisj c a n) (hb : SameOrDisj c b n) (hm : Disj c md n) :
    readN (zzSubModMem_safe w c a b md n m) c n
      = zzSubMod_safe w (readN m a n) (readN m b n) (readN m md n)
    ∧ ∀ j, (j < c ∨ c + n ≤ j) → zzSubModMem_safe w c a b md n m j = m j := by
  obtain ⟨h1, h2, h3⟩ := zzSub_alias w c a b n m ha hb
  have hmod : readN (zzSubMem w c a b n m).1 md n = readN m md n :=
    readN_congr _ _ _ _ (fun j h1 h2 => h3 j (by simp only [Disj] at hm; omega))
  simp only [zzSubModMem_safe, zzSubMod_safe]
  obtain ⟨g1, g3⟩ := zzAddAndW_alias w c md n (wneg w (zzSubMem w c a b n m).2)
    (zzSubMem w c a b n m).1 (Or.inr hm)
  refine ⟨?_, fun j hj => by rw [g3 j hj, h3 j hj]⟩
  rw [g1, hmod, h1, h2]

example (w a n : Nat) (m : Mem) :=
  zzSubMod_safe_alias w a a a (a + n) n m (Or.inl rfl) (Or.inl rfl) (Or.inl (Nat.le_refl _))
example : readN (zzSubModMem_safe 8 0 0 2 4 2 (ofList [1, 0, 2, 0, 7, 1] 0)) 0 2 = [6, 1] := by decide

/-- SAFE(zzAddWMod)(b, a, x, mod, n): b == a or disjoint, b disjoint from mod. -/
theorem zzAddWMod_safe_alias (w b a x md n : Nat) (m : Mem)
    (ha : SameOrDisj b a n) (hm : Disj b md n) :
    readN (zzAddWModMem_safe w b a x md n m) b n
      = zzAddWMod_safe w (readN m a n) x (readN m md n)
    ∧ ∀ j, (j < b ∨ b + n ≤ j) → zzAddWModMem_safe w b a x md n m j = m j := by
  obtain ⟨h1, h2, h3⟩ := loop1Post_alias (addWModStep w) maskPost a md b n (x, 1) m ha hm
  have hmod : readN (loop1Post (addWModStep w) maskPost a md b n (x, 1) m).1 md n = readN m md n :=
    readN_congr _ _ _ _ (fun j h1 h2 => h3 j (by simp only [Disj] at hm; omega))
  simp only [zzAddWModMem_safe, zzAddWMod_safe, zzAddWMod_safeLoop_eq]
  obtain ⟨g1, _, g3⟩ := zzSubAndW_alias w b md n
    (wneg w ((loop1Post (addWModStep w) maskPost a md b n (x, 1) m).2.2
      ||| (loop1Post (addWModStep w) maskPost a md b n (x, 1) m).2.1))
    (loop1Post (addWModStep w) maskPost a md b n (x, 1) m).1 (Or.inr hm)
  refine ⟨?_, fun j hj => by rw [g3 j hj, h3 j hj]⟩
  rw [g1, hmod, h1, h2]

example (w a x n : Nat) (m : Mem) :=
  zzAddWMod_safe_alias w a a x (a + n) n m (Or.inl rfl) (Or.inl (Nat.le_refl _))
example : readN (zzAddWModMem_safe 8 0 0 9 2 2 (ofList [250, 0, 1, 1] 0)) 0 2 = [2, 0] := by decide

/-- SAFE(zzDoubleMod)(b, a, mod, n). -/
theorem zzDoubleMod_safe_alias (w b a md n : Nat) (m : Mem)
    (ha : SameOrDisj b a n) (hm : Disj b md n) :
    readN (zzDoubleModMem_safe w b a md n m) b n
      = zzDoubleMod_safe w (readN m a n) (readN m md n)
    ∧ ∀ j, (j < b ∨ b + n ≤ j) → zzDoubleModMem_safe w b a md n m j = m j := by
  obtain ⟨h1, h2, h3⟩ := loop1Post_alias (doubleModStep w) maskPost a md b n (0, 1) m ha hm
  have hmod : readN (loop1Post (doubleModStep w) maskPost a md b n (0, 1) m).1 md n = readN m md n :=
    readN_congr _ _ _ _ (fun j h1 h2 => h3 j (by simp only [Disj] at hm; omega))
  simp only [zzDoubleModMem_safe, zzDoubleMod_safe, zzDoubleMod_safeLoop_eq]
  obtain ⟨g1, _, g3⟩ := zzSubAndW_alias w b md n
    (wneg w ((loop1Post (doubleModStep w) maskPost a md b n (0, 1) m).2.2
      ||| (loop1Post (doubleModStep w) maskPost a md b n (0, 1) m).2.1))
    (loop1Post (doubleModStep w) maskPost a md b n (0, 1) m).1 (Or.inr hm)
  refine ⟨?_, fun j hj => by rw [g3 j hj, h3 j hj]⟩
  rw [g1, hmod, h1, h2]

example (w a n : Nat) (m : Mem) :=
  zzDoubleMod_safe_alias w a a (a + n) n m (Or.inl rfl) (Or.inl (Nat.le_refl _))
example : readN (zzDoubleModMem_safe 8 0 0 2 2 (ofList [200, 0, 1, 1] 0)) 0 2 = [143, 0] := by decide

/-- SAFE(zzSubWMod)(b, a, x, mod, n). -/
theorem zzSubWMod_safe_alias (w b a x md n : Nat) (m : Mem)
    (ha : SameOrDisj b a n) (hm : Disj b md n) :
    readN (zzSubWModMem_safe w b a x md n m) b n
      = zzSubWMod_safe w (readN m a n) x (readN m md n)
    ∧ ∀ j, (j < b ∨ b + n ≤ j) → zzSubWModMem_safe w b a x md n m j = m j := by
  obtain ⟨h1, h2, h3⟩ := zzSubW_alias w b a n x m ha
  have hmod : readN (zzSubWMem w b a n x m).1 md n = readN m md n :=
    readN_congr _ _ _ _ (fun j h1 h2 => h3 j (by simp only [Disj] at hm; omega))
  simp only [zzSubWModMem_safe, zzSubWMod_safe]
  obtain ⟨g1, g3⟩ := zzAddAndW_alias w b md n (wneg w (zzSubWMem w b a n x m).2)
    (zzSubWMem w b a n x m).1 (Or.inr hm)
  refine ⟨?_, fun j hj => by rw [g3 j hj, h3 j hj]⟩
  rw [g1, hmod, h1, h2]

example (w a x n : Nat) (m : Mem) :=
  zzSubWMod_safe_alias w a a x (a + n) n m (Or.inl rfl) (Or.inl (Nat.le_refl _))

/-- FAST(zzAddMod)(c, a, b, mod, n): zzAdd, a comparison that only reads, conditionally zzSub2(c, mod, n). -/
theorem zzAddMod_fast_alias (w c a b md n : Nat) (m : Mem)
    (ha : SameOrDisj c a n) (hb : SameOrDisj c b n) (hm : Disj c md n) :
    readN (zzAddModMem_fast w c a b md n m) c n
      = zzAddMod_fast w (readN m a n) (readN m b n) (readN m md n)
    ∧ ∀ j, (j < c ∨ c + n ≤ j) → zzAddModMem_fast w c a b md n m j = m j := by
  obtain ⟨h1, h2, h3⟩ := zzAdd_alias w c a b n m ha hb
  have hmod : readN (zzAddMem w c a b n m).1 md n = readN m md n :=
    readN_congr _ _ _ _ (fun j h1 h2 => h3 j (by simp only [Disj] at hm; omega))
  obtain ⟨g1, _, g3⟩ := zzSub2_alias w c md n (zzAddMem w c a b n m).1 (Or.inr hm)
  simp only [zzAddModMem_fast, zzAddMod_fast]
  rw [h2, h1, hmod]
  by_cases hc : (zzAdd w (readN m a n) (readN m b n)).2 ≠ 0
      ∨ wwCmp_fast (zzAdd w (readN m a n) (readN m b n)).1 (readN m md n) ≥ 0
  · simp only [if_pos hc]
    exact ⟨by rw [g1, h1, hmod], fun j hj => by rw [g3 j hj, h3 j hj]⟩
  · simp only [if_neg hc]
    exact ⟨h1, h3⟩

example (w a n : Nat) (m : Mem) :=
  zzAddMod_fast_alias w a a a (a + n) n m (Or.inl rfl) (Or.inl rfl) (Or.inl (Nat.le_refl _))
example : readN (zzAddModMem_fast 8 0 0 0 2 2 (ofList [200, 0, 1, 1] 0)) 0 2 = [143, 0] := by decide

/-- FAST(zzSubMod)(c, a, b, mod, n): zzSub, conditionally zzAdd2(c, mod, n). -/
theorem zzSubMod_fast_alias (w c a b md n : Nat) (m : Mem)
    (ha : SameOrDisj c a n) (hb : SameOrDisj c b n) (hm : Disj c md n) :
    readN (zzSubModMem_fast w c a b md n m) c n
      = zzSubMod_fast w (readN m a n) (readN m b n) (readN m md n)
    ∧ ∀ j, (j < c ∨ c + n ≤ j) → zzSubModMem_fast w c a b md n m j = m j := by
  obtain ⟨h1, h2, h3⟩ := zzSub_alias w c a b n m ha hb
  have hmod : readN (zzSubMem w c a b n m).1 md n = readN m md n :=
    readN_congr _ _ _ _ (fun j h1 h2 => h3 j (by simp only [Disj] at hm; omega))
  obtain ⟨g1, _, g3⟩ := zzAdd2_alias w c md n (zzSubMem w c a b n m).1 (Or.inr hm)
  simp only [zzSubModMem_fast, zzSubMod_fast]
  rw [h2]
  by_cases hc : (zzSub w (readN m a n) (readN m b n)).2 ≠ 0
  · simp only [if_pos hc]
    exact ⟨by rw [g1, h1, hmod], fun j hj => by rw [g3 j hj, h3 j hj]⟩
  · simp only [if_neg hc]
    exact ⟨h1, h3⟩

example (w a n : Nat) (m : Mem) :=
  zzSubMod_fast_alias w a a a (a + n) n m (Or.inl rfl) (Or.inl rfl) (Or.inl (Nat.le_refl _))

/-- FAST(zzAddWMod)(b, a, x, mod, n). -/
theorem zzAddWMod_fast_alias (w b a x md n : Nat) (m : Mem)
    (ha : SameOrDisj b a n) (hm : Disj b md n) :
    readN (zzAddWModMem_fast w b a x md n m) b n
      = zzAddWMod_fast w (readN m a n) x (readN m md n)
    ∧ ∀ j, (j < b ∨ b + n ≤ j) → zzAddWModMem_fast w b a x md n m j = m j := by
  obtain ⟨h1, h2, h3⟩ := zzAddW_alias w b a n x m ha
  have hmod : readN (zzAddWMem w b a n x m).1 md n = readN m md n :=
    readN_congr _ _ _ _ (fun j h1 h2 => h3 j (by simp only [Disj] at hm; omega))
  obtain ⟨g1, _, g3⟩ := zzSub2_alias w b md n (zzAddWMem w b a n x m).1 (Or.inr hm)
  simp only [zzAddWModMem_fast, zzAddWMod_fast]
  rw [h2, h1, hmod]
  by_cases hc : (zzAddW w (readN m a n) x).2 ≠ 0
      ∨ wwCmp_safe (zzAddW w (readN m a n) x).1 (readN m md n) ≥ 0
  · simp only [if_pos hc]
    exact ⟨by rw [g1, h1, hmod], fun j hj => by rw [g3 j hj, h3 j hj]⟩
  · simp only [if_neg hc]
    exact ⟨h1, h3⟩

example (w a x n : Nat) (m : Mem) :=
  zzAddWMod_fast_alias w a a x (a + n) n m (Or.inl rfl) (Or.inl (Nat.le_refl _))

/-- FAST(zzSubWMod)(b, a, x, mod, n). -/
theorem zzSubWMod_fast_alias (w b a x md n : Nat) (m : Mem)
    (ha : SameOrDisj b a n) (hm : Disj b md n) :
    readN (zzSubWModMem_fast w b a x md n m) b n
      = zzSubWMod_fast w (readN m a n) x (readN m md n)
    ∧ ∀ j, (j < b ∨ b + n ≤ j) → zzSubWModMem_fast w b a x md n m j = m j := by
  obtain ⟨h1, h2, h3⟩ := zzSubW_alias w b a n x m ha
  have hmod : readN (zzSubWMem w b a n x m).1 md n = readN m md n :=
    readN_congr _ _ _ _ (fun j h1 h2 => h3 j (by simp only [Disj] at hm; omega))
  obtain ⟨g1, _, g3⟩ := zzAdd2_alias w b md n (zzSubWMem w b a n x m).1 (Or.inr hm)
  simp only [zzSubWModMem_fast, zzSubWMod_fast]
  rw [h2]
  by_cases hc : (zzSubW w (readN m a n) x).2 ≠ 0
  · simp only [if_pos hc]
    exact ⟨by rw [g1, h1, hmod], fun j hj => by rw [g3 j hj, h3 j hj]⟩
  · simp only [if_neg hc]
    exact ⟨h1, h3⟩

example (w a x n : Nat) (m : Mem) :=
  zzSubWMod_fast_alias w a a x (a + n) n m (Or.inl rfl) (Or.inl (Nat.le_refl _))

/-- FAST(zzDoubleMod)(b, a, mod, n). -/
theorem zzDoubleMod_fast_alias (w b a md n : Nat) (m : Mem)
    (ha : SameOrDisj b a n) (hm : Disj b md n) :
    readN (zzDoubleModMem_fast w b a md n m) b n
      = zzDoubleMod_fast w (readN m a n) (readN m md n)
    ∧ ∀ j, (j < b ∨ b + n ≤ j) → zzDoubleModMem_fast w b a md n m j = m j := by
  obtain ⟨h1, h2, h3⟩ := zzDouble_alias w b a n m ha
  have hmod : readN (zzDoubleMem w b a n m).1 md n = readN m md n :=
    readN_congr _ _ _ _ (fun j h1 h2 => h3 j (by simp only [Disj] at hm; omega))
  obtain ⟨g1, _, g3⟩ := zzSub2_alias w b md n (zzDoubleMem w b a n m).1 (Or.inr hm)
  simp only [zzDoubleModMem_fast, zzDoubleMod_fast]
  rw [h2, h1, hmod]
  by_cases hc : (zzDoubleLoop w (readN m a n) 0).2 ≠ 0
      ∨ wwCmp_safe (zzDoubleLoop w (readN m a n) 0).1 (readN m md n) ≥ 0
  · simp only [if_pos hc]
    exact ⟨by rw [g1, h1, hmod], fun j hj => by rw [g3 j hj, h3 j hj]⟩
  · simp only [if_neg hc]
    exact ⟨h1, h3⟩

example (w a n : Nat) (m : Mem) :=
  zzDoubleMod_fast_alias w a a (a + n) n m (Or.inl rfl) (Or.inl (Nat.le_refl _))

/-- zzNeg(b, a, n): complement loop (b == a or disjoint), then zzAddW2(b, n, 1) in place. -/
theorem zzNeg_alias (w b a n : Nat) (m : Mem) (h : SameOrDisj b a n) :
    readN (zzNegMem w b a n m) b n = zzNeg w (readN m a n)
    ∧ ∀ j, (j < b ∨ b + n ≤ j) → zzNegMem w b a n m j = m j := by
  obtain ⟨h1, _, h3⟩ := loop1_alias (notStep w) a b n () m h
  obtain ⟨g1, _, g3⟩ := zzAddW_alias w b b n 1 (loop1 (notStep w) a b n () m).1 (Or.inl rfl)
  simp only [zzNegMem, zzNeg, zzAddW2]
  refine ⟨?_, fun j hj => by rw [g3 j hj, h3 j hj]⟩
  rw [g1, h1, pure1_notStep]

example (w a n : Nat) (m : Mem) := zzNeg_alias w a a n m (Or.inl rfl)
example : readN (zzNegMem 8 0 0 2 (ofList [0, 1] 0)) 0 2 = [0, 255] := by decide

/-- SAFE(zzNegMod)(b, a, mod, n): zzSub(b, mod, a, n) (b == a allowed: a is the SECOND input of the
    subtraction), wwEq reads only, zzSubAndW(b, mod, n, mask). -/
theorem zzNegMod_safe_alias (w b a md n : Nat) (m : Mem)
    (ha : SameOrDisj b a n) (hm : Disj b md n) :
    readN (zzNegModMem_safe w b a md n m) b n = zzNegMod_safe w (readN m a n) (readN m md n)
    ∧ ∀ j, (j < b ∨ b + n ≤ j) → zzNegModMem_safe w b a md n m j = m j := by
  obtain ⟨h1, _, h3⟩ := zzSub_alias w b md a n m (Or.inr hm) ha
  have hmod : readN (zzSubMem w b md a n m).1 md n = readN m md n :=
    readN_congr _ _ _ _ (fun j h1 h2 => h3 j (by simp only [Disj] at hm; omega))
  simp only [zzNegModMem_safe, zzNegMod_safe]
  obtain ⟨g1, _, g3⟩ := zzSubAndW_alias w b md n
    (wneg w (if wwEq_safe (readN (zzSubMem w b md a n m).1 b n) (readN (zzSubMem w b md a n m).1 md n)
      then 1 else 0))
    (zzSubMem w b md a n m).1 (Or.inr hm)
  refine ⟨?_, fun j hj => by rw [g3 j hj, h3 j hj]⟩
  rw [g1, hmod, h1]

example (w a n : Nat) (m : Mem) :=
  zzNegMod_safe_alias w a a (a + n) n m (Or.inl rfl) (Or.inl (Nat.le_refl _))
example : readN (zzNegModMem_safe 8 0 0 2 2 (ofList [0, 0, 1, 1] 0)) 0 2 = [0, 0] := by decide

/-- FAST(zzNegMod)(b, a, mod, n). -/
theorem zzNegMod_fast_alias (w b a md n : Nat) (m : Mem)
    (ha : SameOrDisj b a n) (hm : Disj b md n) :
    readN (zzNegModMem_fast w b a md n m) b n = zzNegMod_fast w (readN m a n) (readN m md n)
    ∧ ∀ j, (j < b ∨ b + n ≤ j) → zzNegModMem_fast w b a md n m j = m j := by
  simp only [zzNegModMem_fast, zzNegMod_fast]
  by_cases hc : (!wwIsZero_safe (readN m a n)) = true
  · simp only [if_pos hc]
    obtain ⟨h1, _, h3⟩ := zzSub_alias w b md a n m (Or.inr hm) ha
    exact ⟨h1, h3⟩
  · simp only [if_neg hc]
    obtain ⟨h1, _, h3⟩ := loop1_alias zeroStep b b n () m (Or.inl rfl)
    refine ⟨?_, h3⟩
    unfold wwSetZeroMem
    rw [h1, pure1_zeroStep]
    -- `a.map (fun _ => 0)` and `b.map (fun _ => 0)` for two lists of length n
    apply List.ext_getElem
    · simp
    · intro i _ _; simp

example (w a n : Nat) (m : Mem) :=
  zzNegMod_fast_alias w a a (a + n) n m (Or.inl rfl) (Or.inl (Nat.le_refl _))

/-- FAST(zzHalfMod)(b, a, mod, n): odd a — zzAdd(b, a, mod, n) then the in-place shift from the top;
    even a — the shift loop from a to b from the top. -/
theorem zzHalfMod_fast_alias (w b a md n : Nat) (m : Mem)
    (ha : SameOrDisj b a n) (hm : Disj b md n) :
    readN (zzHalfModMem_fast w b a md n m) b n = zzHalfMod_fast w (readN m a n) (readN m md n)
    ∧ ∀ j, (j < b ∨ b + n ≤ j) → zzHalfModMem_fast w b a md n m j = m j := by
  simp only [zzHalfModMem_fast, zzHalfMod_fast]
  by_cases hc : zzIsOdd (readN m a n) = true
  · simp only [if_pos hc]
    obtain ⟨h1, h2, h3⟩ := zzAdd_alias w b a md n m ha (Or.inr hm)
    obtain ⟨g1, g3⟩ := zzHalfShift_alias w b n (zzAddMem w b a md n m).2 (zzAddMem w b a md n m).1
    refine ⟨?_, fun j hj => by rw [g3 j hj, h3 j hj]⟩
    rw [g1, h1, h2]
  · simp only [if_neg hc]
    obtain ⟨h1, _, h3⟩ := loop1Desc_alias (halfStep w) a b n 0 m ha
    refine ⟨?_, h3⟩
    rw [h1, zzHalfLoop_eq, List.reverse_reverse]

example (w a n : Nat) (m : Mem) :=
  zzHalfMod_fast_alias w a a (a + n) n m (Or.inl rfl) (Or.inl (Nat.le_refl _))
example : readN (zzHalfModMem_fast 8 0 0 2 2 (ofList [3, 0, 1, 1] 0)) 0 2 = [130, 0] := by decide

/-- SAFE(zzHalfMod)(b, a, mod, n) — NOT an index-local loop: iteration i reads a[i], mod[i] and
    updates both b[i] and b[i-1] (several stores each); modelled statement by statement on memory
    (`zzHalfModMem_safe`).  With b == a or disjoint, and b disjoint from mod, the result is the list
    model on the original contents, and nothing outside b changes. -/
theorem zzHalfMod_safe_alias (w b a md n : Nat) (m : Mem)
    (ha : SameOrDisj b a n) (hm : Disj b md n) :
    readN (zzHalfModMem_safe w b a md n m) b n = zzHalfMod_safe w (readN m a n) (readN m md n)
    ∧ ∀ j, (j < b ∨ b + n ≤ j) → zzHalfModMem_safe w b a md n m j = m j := by
  cases n with
  | zero => exact ⟨rfl, fun j _ => rfl⟩
  | succ k =>
    simp only [SameOrDisj, Disj] at ha hm
    obtain ⟨h1, h3⟩ := halfSafeLoopMem_spec w a md b (wneg w (m a % 2)) k 0
      (wless01 (wadd w (m a) (wneg w (m a % 2) &&& m md)) (wneg w (m a % 2) &&& m md))
      (write (write m b (wadd w (m a) (wneg w (m a % 2) &&& m md))) b
        (wshr (wadd w (m a) (wneg w (m a % 2) &&& m md)) 1))
      (by simp only [Disj]; omega) (by simp only [Disj]; omega)
    simp only [Nat.add_zero, write_same] at h1 h3
    have hA : ∀ v v', readN (write (write m b v) b v') (a + 1) k = readN m (a + 1) k := fun v v' => by
      rw [readN_write _ _ _ _ _ (by omega), readN_write _ _ _ _ _ (by omega)]
    have hD : ∀ v v', readN (write (write m b v) b v') (md + 1) k = readN m (md + 1) k := fun v v' => by
      rw [readN_write _ _ _ _ _ (by omega), readN_write _ _ _ _ _ (by omega)]
    rw [hA, hD] at h1
    simp only [zzHalfModMem_safe, write_same, readN, zzHalfMod_safe]
    refine ⟨h1, fun j hj => ?_⟩
    have := h3 j (by omega)
    simp only [halfFinish] at this
    rw [this, write_other _ _ _ _ (by omega), write_other _ _ _ _ (by omega)]

example (w a n : Nat) (m : Mem) :=
  zzHalfMod_safe_alias w a a (a + n) n m (Or.inl rfl) (Or.inl (Nat.le_refl _))
example : readN (zzHalfModMem_safe 8 0 0 2 2 (ofList [3, 0, 1, 1] 0)) 0 2 = [130, 0] := by decide
example : zzHalfMod_safe 8 [3, 0] [1, 1] = zzHalfMod_fast 8 [3, 0] [1, 1] := by decide

/-! ## re-reading the word just stored -/

/-- A body that re-reads `c[i]` from memory after `c[i] = v` (e.g. `carry |= wordLess01(c[i], w)`)
    is the body that uses `v`: whatever the aliasing, the re-read returns the word just stored. -/
theorem loop2_reread {σ τ : Type} (pre : σ → Nat → Nat → τ × Nat) (fin : τ → Nat → σ)
    (a b c n : Nat) (s : σ) (m : Mem) :
    loop2RRI pre fin a b c 0 n s m
      = loop2 (fun s x y => (fin (pre s x y).1 (pre s x y).2, (pre s x y).2)) a b c n s m :=
  loop2RRI_eq pre fin a b c n 0 s m

theorem loop1_reread {σ τ : Type} (pre : σ → Nat → τ × Nat) (fin : τ → Nat → σ)
    (a c n : Nat) (s : σ) (m : Mem) :
    loop1RRI pre fin a c 0 n s m
      = loop1 (fun s x => (fin (pre s x).1 (pre s x).2, (pre s x).2)) a c n s m :=
  loop1RRI_eq pre fin a c n 0 s m

/-- zzAdd with `c[i]` re-read from memory is `zzAddMem` (so `zzAdd_alias` applies to it). -/
theorem zzAddMemRR_eq (w c a b n : Nat) (m : Mem) : zzAddMemRR w c a b n m = zzAddMem w c a b n m :=
  loop2_reread (addPre w) addFin a b c n 0 m

/-- zzAddW with `b[i]` re-read from memory is `zzAddWMem`. -/
theorem zzAddWMemRR_eq (w b a n x : Nat) (m : Mem) : zzAddWMemRR w b a n x m = zzAddWMem w b a n x m :=
  loop1_reread (addWPre w) addWFin a b n x m

example : readN (zzAddMemRR 8 0 0 0 3 (ofList [255, 255, 1] 0)).1 0 3 = [254, 255, 3] := by decide

end Bee2V.C05

/-
C05 — lemmas for the word-level models of the special reductions (ModelPpRed.lean).
  §1 `val` in xor / shift form; `xorAt`
  §2 a shifted copy of a word xored into two adjacent words
-/
import Bee2V.C05.ModelPpRed
import Bee2V.C05.LemmasPp
namespace Bee2V.C05.PpRed
open Bee2V.C05 Bee2V.C05.Spec Bee2V.C05.Pp

/-! ## §1 -/

/-- `a·2^i + b = (a <<< i) ^^^ b` when `b < 2^i` (no carries) -/
theorem add_shl_eq_xor {a b i : Nat} (hb : b < 2 ^ i) : 2 ^ i * a + b = (a <<< i) ^^^ b := by
  apply Nat.eq_of_testBit_eq
  intro j
  rw [Nat.testBit_two_pow_mul_add a hb j, Nat.testBit_xor, Nat.testBit_shiftLeft]
  by_cases hj : j < i
  · have : ¬ j ≥ i := by omega
    simp [hj, this]
  · have hge : j ≥ i := by omega
    have hbj : b.testBit j = false :=
      Nat.testBit_lt_two_pow (Nat.lt_of_lt_of_le hb (Nat.pow_le_pow_right (by omega) hge))
    simp [hj, hge, hbj]

theorem val_lt {w : Nat} {a : List Nat} (h : Wf w a) : val w a < 2 ^ (w * a.length) := by
  induction a with
  | nil => simp [val]
  | cons x xs ih =>
    obtain ⟨hx, hxs⟩ := Wf_cons.1 h
    have := ih hxs
    rw [val_cons, List.length_cons, Nat.mul_succ, Nat.pow_add]
    have h1 : 2 ^ w * val w xs + 2 ^ w ≤ 2 ^ w * 2 ^ (w * xs.length) := by
      rw [← Nat.mul_succ]; exact Nat.mul_le_mul_left _ this
    rw [Nat.mul_comm (2 ^ (w * xs.length))]
    omega

theorem val_cons_xor {w x : Nat} (xs : List Nat) (hx : x < 2 ^ w) :
    val w (x :: xs) = (val w xs) <<< w ^^^ x := by
  rw [val_cons, Nat.add_comm, add_shl_eq_xor hx]

theorem val_append (w : Nat) (a b : List Nat) :
    val w (a ++ b) = val w a + 2 ^ (w * a.length) * val w b := by
  induction a with
  | nil => simp [val]
  | cons x xs ih =>
    rw [List.cons_append, val_cons, val_cons, ih, List.length_cons, Nat.mul_succ, Nat.pow_add,
      Nat.mul_add, Nat.add_assoc, ← Nat.mul_assoc, Nat.mul_comm (2 ^ w),
      Nat.mul_comm (2 ^ (w * xs.length)) (2 ^ w)]

theorem Wf_append {w : Nat} {a b : List Nat} : Wf w (a ++ b) ↔ Wf w a ∧ Wf w b := by
  unfold Wf
  constructor
  · intro h; exact ⟨fun x hx => h x (List.mem_append_left _ hx), fun x hx => h x (List.mem_append_right _ hx)⟩
  · intro ⟨h1, h2⟩ x hx
    rcases List.mem_append.1 hx with h | h
    · exact h1 x h
    · exact h2 x h

theorem Wf_take {w : Nat} {a : List Nat} (h : Wf w a) (n : Nat) : Wf w (a.take n) :=
  fun x hx => h x (List.mem_of_mem_take hx)

/-- the low n words -/
theorem val_take {w : Nat} {a : List Nat} (h : Wf w a) (n : Nat) (hn : n ≤ a.length) :
    val w (a.take n) = val w a % 2 ^ (w * n) := by
  have h1 := val_append w (a.take n) (a.drop n)
  rw [List.take_append_drop, List.length_take, Nat.min_eq_left hn] at h1
  have h2 := val_lt (Wf_take h n)
  rw [List.length_take, Nat.min_eq_left hn] at h2
  rw [h1, Nat.add_mul_mod_self_left, Nat.mod_eq_of_lt h2]

theorem xorAt_cons_zero (x : Nat) (xs : List Nat) (v : Nat) : xorAt (x :: xs) 0 v = (x ^^^ v) :: xs := by
  simp [xorAt]
theorem xorAt_cons_succ (x : Nat) (xs : List Nat) (i v : Nat) :
    xorAt (x :: xs) (i + 1) v = x :: xorAt xs i v := by
  simp [xorAt]

/-- `a[i] ^= v` on the value: `val a ^^^ v·x^(w i)` -/
theorem val_xorAt {w : Nat} (a : List Nat) : ∀ (i v : Nat), Wf w a → i < a.length → v < 2 ^ w →
    Wf w (xorAt a i v) ∧ (xorAt a i v).length = a.length
    ∧ val w (xorAt a i v) = val w a ^^^ v <<< (w * i) := by
  induction a with
  | nil => intro i v _ hi; simp at hi
  | cons x xs ih =>
    intro i v h hi hv
    obtain ⟨hx, hxs⟩ := Wf_cons.1 h
    cases i with
    | zero =>
      rw [xorAt_cons_zero]
      have hxv := Nat.xor_lt_two_pow hx hv
      refine ⟨Wf_cons.2 ⟨hxv, hxs⟩, rfl, ?_⟩
      rw [val_cons_xor xs hxv, val_cons_xor xs hx, Nat.mul_zero, Nat.shiftLeft_zero, Nat.xor_assoc]
    | succ i =>
      rw [xorAt_cons_succ]
      obtain ⟨g1, g2, g3⟩ := ih i v hxs (by simpa using hi) hv
      refine ⟨Wf_cons.2 ⟨hx, g1⟩, by simp [g2], ?_⟩
      rw [val_cons_xor _ hx, val_cons_xor xs hx, g3, Nat.shiftLeft_xor_distrib, Nat.mul_succ,
        Nat.shiftLeft_add, Nat.xor_assoc, Nat.xor_assoc, Nat.xor_comm x]

/-- `a[i] ^= 0` changes nothing (in or out of range) -/
theorem xorAt_zero (a : List Nat) (i : Nat) : xorAt a i 0 = a := by
  unfold xorAt
  rw [Nat.xor_zero]
  apply List.ext_getElem
  · simp
  · intro j h1 h2
    by_cases hij : i = j
    · subst hij
      simp only [List.length_set] at h1
      simp [List.getD_eq_getElem?_getD, List.getElem?_eq_getElem h2]
    · simp [List.getElem_set_ne hij]

theorem getD_lt {w : Nat} {a : List Nat} (h : Wf w a) (n : Nat) : a.getD n 0 < 2 ^ w := by
  rw [List.getD_eq_getElem?_getD]
  by_cases hn : n < a.length
  · rw [List.getElem?_eq_getElem hn]; exact h _ (List.getElem_mem hn)
  · rw [List.getElem?_eq_none (by omega)]; exact Nat.two_pow_pos w

/-- one more word on top -/
theorem val_take_succ {w : Nat} {a : List Nat} (h : Wf w a) (n : Nat) (hn : n < a.length) :
    val w (a.take (n + 1)) = (a.getD n 0) <<< (w * n) ^^^ val w (a.take n) := by
  have h2 := val_lt (Wf_take h n)
  rw [List.length_take, Nat.min_eq_left (by omega)] at h2
  rw [List.take_succ_eq_append_getElem hn, val_append, List.length_take, Nat.min_eq_left (by omega),
    val_cons, val_nil, Nat.mul_zero, Nat.add_zero, Nat.add_comm, add_shl_eq_xor h2]
  congr 2
  simp [List.getD_eq_getElem?_getD, List.getElem?_eq_getElem hn]

/-- xoring something that lives below word n commutes with taking the low n words -/
theorem val_take_xor {w : Nat} {a a' : List Nat} (h : Wf w a) (h' : Wf w a') (hl : a'.length = a.length)
    (n : Nat) (hn : n ≤ a.length) {D : Nat} (hD : D < 2 ^ (w * n)) (hv : val w a' = val w a ^^^ D) :
    val w (a'.take n) = val w (a.take n) ^^^ D := by
  rw [val_take h' n (by omega), val_take h n hn, hv, Nat.xor_mod_two_pow, Nat.mod_eq_of_lt hD]

/-! ## §2 a shifted copy of a word xored into two adjacent words -/

theorem shl_lt {w v : Nat} (hv : v < 2 ^ w) (t : Nat) : v <<< t < 2 ^ (w + t) := by
  rw [Nat.shiftLeft_eq, Nat.pow_add]
  exact Nat.mul_lt_mul_of_pos_right hv (Nat.two_pow_pos t)

/-- `a[d] ^= sb ? v << (w - sb) : 0; a[d + 1] ^= v >> sb` -/
def pairXor (w : Nat) (a : List Nat) (d sb v : Nat) : List Nat :=
  xorAt (xorAt a d (if sb ≠ 0 then wshl w v (w - sb) else 0)) (d + 1) (wshr v sb)

theorem val_pairXor {w : Nat} (a : List Nat) (h : Wf w a) (d sb v : Nat) (hd : d + 1 < a.length)
    (hv : v < 2 ^ w) (hsb : sb < w) :
    Wf w (pairXor w a d sb v) ∧ (pairXor w a d sb v).length = a.length
    ∧ val w (pairXor w a d sb v) = val w a ^^^ v <<< (w * d + (w - sb)) := by
  have hlo : (if sb ≠ 0 then wshl w v (w - sb) else 0) < 2 ^ w := by
    split
    · exact Nat.mod_lt _ (Nat.two_pow_pos w)
    · exact Nat.two_pow_pos w
  have hhi : wshr v sb < 2 ^ w := Nat.lt_of_le_of_lt (Nat.div_le_self _ _) hv
  obtain ⟨f1, f2, f3⟩ := val_xorAt a d _ h (by omega) hlo
  obtain ⟨g1, g2, g3⟩ := val_xorAt _ (d + 1) _ f1 (by omega) hhi
  refine ⟨g1, by unfold pairXor; omega, ?_⟩
  unfold pairXor
  rw [g3, f3, Nat.xor_assoc]
  congr 1
  by_cases h0 : sb = 0
  · subst h0
    simp [wshr, Nat.mul_succ]
  · rw [if_pos h0]
    have hpow : 2 ^ w = 2 ^ (w - sb) * 2 ^ sb := by rw [← Nat.pow_add]; congr 1; omega
    have hdiv : v * 2 ^ (w - sb) / 2 ^ w = v / 2 ^ sb := by
      rw [hpow, ← Nat.div_div_eq_div_mul, Nat.mul_div_cancel _ (Nat.two_pow_pos _)]
    have hX : v * 2 ^ (w - sb) = (v / 2 ^ sb) <<< w ^^^ (v * 2 ^ (w - sb)) % 2 ^ w := by
      rw [← add_shl_eq_xor (Nat.mod_lt _ (Nat.two_pow_pos w)), ← hdiv, Nat.div_add_mod]
    rw [Nat.add_comm (w * d), Nat.shiftLeft_add, Nat.shiftLeft_eq v, hX, Nat.shiftLeft_xor_distrib,
      ← Nat.shiftLeft_add, Nat.mul_succ, Nat.add_comm w, Nat.xor_comm]

/-- the tail form: `if (sw < n && sb) a[n - sw - 1] ^= hi << (w - sb); a[n - sw] ^= hi >> sb` -/
def tailXor (w : Nat) (a : List Nat) (mw sw sb hi : Nat) : List Nat :=
  let a1 := if sw < mw ∧ sb ≠ 0 then xorAt a (mw - sw - 1) (wshl w hi (w - sb)) else a
  xorAt a1 (mw - sw) (wshr hi sb)

theorem wshl_exact {w hi' mb : Nat} (hmb : mb ≤ w) (hhi : hi' < 2 ^ (w - mb)) :
    wshl w hi' mb = hi' * 2 ^ mb ∧ hi' * 2 ^ mb < 2 ^ w := by
  have : hi' * 2 ^ mb < 2 ^ w := by
    have h1 := Nat.mul_lt_mul_of_pos_right hhi (Nat.two_pow_pos mb)
    rwa [← Nat.pow_add, Nat.sub_add_cancel hmb] at h1
  exact ⟨Nat.mod_eq_of_lt this, this⟩

theorem val_tailXor {w : Nat} (a : List Nat) (h : Wf w a) (mw mb sw sb hi' : Nat)
    (hmw : mw < a.length) (hmb : mb < w) (hsb : sb < w) (hsw : sw ≤ mw)
    (hs : w * sw + sb ≤ w * mw + mb) (hhi : hi' < 2 ^ (w - mb)) :
    Wf w (tailXor w a mw sw sb (wshl w hi' mb))
    ∧ (tailXor w a mw sw sb (wshl w hi' mb)).length = a.length
    ∧ val w (tailXor w a mw sw sb (wshl w hi' mb))
        = val w a ^^^ hi' <<< (w * mw + mb - (w * sw + sb)) := by
  obtain ⟨hex, hlt⟩ := wshl_exact (Nat.le_of_lt hmb) hhi
  rw [hex]
  by_cases hc : sw < mw
  · obtain ⟨d, hd⟩ : ∃ d, mw = sw + 1 + d := ⟨mw - sw - 1, by omega⟩
    have e1 : mw - sw - 1 = d := by omega
    have e2 : mw - sw = d + 1 := by omega
    have heq : tailXor w a mw sw sb (hi' * 2 ^ mb) = pairXor w a d sb (hi' * 2 ^ mb) := by
      unfold tailXor pairXor
      simp only [e2]
      by_cases h0 : sb = 0
      · subst h0; simp [xorAt_zero]
      · simp [hc, h0]
    rw [heq]
    obtain ⟨g1, g2, g3⟩ := val_pairXor a h d sb (hi' * 2 ^ mb) (by omega) hlt hsb
    refine ⟨g1, g2, ?_⟩
    rw [g3, ← Nat.shiftLeft_eq, ← Nat.shiftLeft_add]
    congr 2
    rw [hd, Nat.mul_add, Nat.mul_add, Nat.mul_one]
    omega
  · have hsm : sw = mw := by omega
    subst hsm
    have hsb' : sb ≤ mb := by omega
    have heq : tailXor w a sw sw sb (hi' * 2 ^ mb) = xorAt a 0 (hi' * 2 ^ (mb - sb)) := by
      unfold tailXor
      have hp : 2 ^ mb = 2 ^ (mb - sb) * 2 ^ sb := by rw [← Nat.pow_add]; congr 1; omega
      have hdv : wshr (hi' * 2 ^ mb) sb = hi' * 2 ^ (mb - sb) := by
        show hi' * 2 ^ mb / 2 ^ sb = _
        rw [hp, ← Nat.mul_assoc, Nat.mul_div_cancel _ (Nat.two_pow_pos _)]
      simp [hdv]
    rw [heq]
    have hv : hi' * 2 ^ (mb - sb) < 2 ^ w := by
      refine Nat.lt_of_le_of_lt ?_ hlt
      exact Nat.mul_le_mul_left _ (Nat.pow_le_pow_right (by omega) (by omega))
    obtain ⟨g1, g2, g3⟩ := val_xorAt a 0 _ h (by omega) hv
    refine ⟨g1, g2, ?_⟩
    rw [g3, Nat.mul_zero, Nat.shiftLeft_zero, ← Nat.shiftLeft_eq]
    congr 2
    omega

/-! ## §3 congruences -/

theorem xor_cancel_mid (T D H : Nat) : (T ^^^ D) ^^^ (H ^^^ T) = H ^^^ D := by
  rw [Nat.xor_comm H T, xor4_swap, Nat.xor_self, Nat.zero_xor, Nat.xor_comm]

theorem cong_symm {md x y : Nat} (h : Cong md x y) : Cong md y x := by
  obtain ⟨k, hk⟩ := h; exact ⟨k, by rw [Nat.xor_comm]; exact hk⟩

theorem cong_trans {md x y z : Nat} (h : Cong md x y) (h' : Cong md y z) : Cong md x z := by
  obtain ⟨k, hk⟩ := h
  obtain ⟨k', hk'⟩ := h'
  refine ⟨k ^^^ k', ?_⟩
  rw [xor_clmul, ← hk, ← hk', Nat.xor_assoc, ← Nat.xor_assoc y, Nat.xor_self, Nat.zero_xor]

/-- `x^m + x^k + 1` as a code -/
theorem triP_xor {m k : Nat} (hk : 0 < k) (hkm : k < m) :
    2 ^ m + 2 ^ k + 1 = (1 <<< m) ^^^ ((1 <<< k) ^^^ 1) ∧ (2 ^ m + 2 ^ k + 1).log2 = m := by
  have h1 : 1 < 2 ^ k := Nat.one_lt_two_pow (by omega)
  have h2 : 2 ^ k + 1 < 2 ^ m := by
    have : 2 ^ (k + 1) ≤ 2 ^ m := Nat.pow_le_pow_right (by omega) (by omega)
    rw [Nat.pow_succ] at this; omega
  have e1 : 2 ^ k + 1 = (1 <<< k) ^^^ 1 := by
    have := add_shl_eq_xor (a := 1) h1; rwa [Nat.mul_one] at this
  have e2 : 2 ^ m + (2 ^ k + 1) = (1 <<< m) ^^^ (2 ^ k + 1) := by
    have := add_shl_eq_xor (a := 1) h2; rwa [Nat.mul_one] at this
  refine ⟨by rw [Nat.add_assoc, e2, e1], ?_⟩
  apply (Nat.log2_eq_iff (by omega)).2
  rw [Nat.pow_succ]; omega

/-- `X·x^m ≡ X + X·x^k (mod x^m + x^k + 1)` -/
theorem tri_fold {m k : Nat} (hk : 0 < k) (hkm : k < m) (X : Nat) :
    X <<< m ^^^ (X ^^^ X <<< k) = clmul X (2 ^ m + 2 ^ k + 1) := by
  rw [(triP_xor hk hkm).1, clmul_xor, clmul_xor, Nat.one_shiftLeft, Nat.one_shiftLeft,
    clmul_two_pow, clmul_two_pow, clmul_one, Nat.xor_comm (X <<< k)]

/-! ## §4 ppRedTrinomial -/

theorem triBody_val {w : Nat} (a : List Nat) (mb mw kb kw k c e : Nat) (h : Wf w a)
    (hmw : mw = kw + e) (hmb0 : mb ≠ 0) (hmb : mb < w) (hkb : kb < w)
    (hk : w * kw + kb + k = w * mw + mb) (hn : mw + c + 1 < a.length) :
    Wf w (ppRedTriBody w mb mw kb kw (mw + c + 1) a)
    ∧ (ppRedTriBody w mb mw kb kw (mw + c + 1) a).length = a.length
    ∧ val w (ppRedTriBody w mb mw kb kw (mw + c + 1) a)
        = val w a ^^^ ((a.getD (mw + c + 1) 0) <<< (w * c + (w - mb))
            ^^^ (a.getD (mw + c + 1) 0) <<< (w * c + (w - mb) + k)) := by
  have heq : ppRedTriBody w mb mw kb kw (mw + c + 1) a
      = pairXor w (pairXor w a c mb (a.getD (mw + c + 1) 0)) (e + c) kb (a.getD (mw + c + 1) 0) := by
    unfold ppRedTriBody pairXor
    have e1 : mw + c + 1 - mw - 1 = c := by omega
    have e2 : mw + c + 1 - mw = c + 1 := by omega
    have e3 : mw + c + 1 - kw - 1 = e + c := by omega
    have e4 : mw + c + 1 - kw = e + c + 1 := by omega
    simp only [e2, e4, if_pos hmb0, Nat.add_sub_cancel]
  rw [heq]
  have hhi := getD_lt h (mw + c + 1)
  obtain ⟨f1, f2, f3⟩ := val_pairXor a h c mb _ (by omega) hhi hmb
  obtain ⟨g1, g2, g3⟩ := val_pairXor _ f1 (e + c) kb _ (by omega) hhi hkb
  refine ⟨g1, by omega, ?_⟩
  rw [g3, f3, Nat.xor_assoc]
  congr 3
  rw [hmw, Nat.mul_add] at hk
  rw [Nat.mul_add]
  omega

/-- one iteration: the low n words afterwards ≡ the low n + 1 words before -/
theorem triStep {w : Nat} (a : List Nat) (mb mw kb kw k c e : Nat) (h : Wf w a)
    (hmw : mw = kw + e) (hkw : 1 ≤ kw) (hmb0 : mb ≠ 0) (hmb : mb < w) (hkb : kb < w) (hk0 : 0 < k)
    (hk : w * kw + kb + k = w * mw + mb) (hn : mw + c + 1 < a.length) :
    Cong (2 ^ (w * mw + mb) + 2 ^ k + 1)
      (val w ((ppRedTriBody w mb mw kb kw (mw + c + 1) a).take (mw + c + 1)))
      (val w (a.take (mw + c + 1 + 1))) := by
  obtain ⟨g1, g2, g3⟩ := triBody_val a mb mw kb kw k c e h hmw hmb0 hmb hkb hk hn
  have hhi := getD_lt h (mw + c + 1)
  have hkm : k < w * mw + mb := by
    have : w * 1 ≤ w * kw := Nat.mul_le_mul_left w hkw
    omega
  have hwn : w * (mw + c + 1) = w * mw + w * c + w := by rw [Nat.mul_add, Nat.mul_add, Nat.mul_one]
  have hD : (a.getD (mw + c + 1) 0) <<< (w * c + (w - mb))
      ^^^ (a.getD (mw + c + 1) 0) <<< (w * c + (w - mb) + k) < 2 ^ (w * (mw + c + 1)) := by
    have hw1 : w * 1 ≤ w * kw := Nat.mul_le_mul_left w hkw
    have hmw' : w * mw = w * kw + w * e := by rw [hmw, Nat.mul_add]
    apply Nat.xor_lt_two_pow
    · exact Nat.lt_of_lt_of_le (shl_lt hhi _) (Nat.pow_le_pow_right (by omega) (by omega))
    · exact Nat.lt_of_lt_of_le (shl_lt hhi _) (Nat.pow_le_pow_right (by omega) (by omega))
  rw [val_take_xor h g1 g2 (mw + c + 1) (by omega) hD g3, val_take_succ h (mw + c + 1) hn]
  refine ⟨(a.getD (mw + c + 1) 0) <<< (w * c + (w - mb)), ?_⟩
  rw [← tri_fold hk0 hkm, ← Nat.shiftLeft_add, ← Nat.shiftLeft_add]
  have e1 : w * c + (w - mb) + (w * mw + mb) = w * (mw + c + 1) := by omega
  rw [e1]
  exact xor_cancel_mid _ _ _

theorem triLoop {w : Nat} (mb mw kb kw k e V0 L : Nat)
    (hmw : mw = kw + e) (hkw : 1 ≤ kw) (hmb0 : mb ≠ 0) (hmb : mb < w) (hkb : kb < w) (hk0 : 0 < k)
    (hk : w * kw + kb + k = w * mw + mb) :
    ∀ (c : Nat) (a : List Nat), Wf w a → a.length = L → mw + c + 1 ≤ L →
      Cong (2 ^ (w * mw + mb) + 2 ^ k + 1) (val w (a.take (mw + c + 1))) V0 →
      Wf w (redLoop (ppRedTriBody w mb mw kb kw) mw c a)
      ∧ (redLoop (ppRedTriBody w mb mw kb kw) mw c a).length = L
      ∧ Cong (2 ^ (w * mw + mb) + 2 ^ k + 1)
          (val w ((redLoop (ppRedTriBody w mb mw kb kw) mw c a).take (mw + 1))) V0 := by
  intro c
  induction c with
  | zero => intro a h hl _ hc; exact ⟨h, hl, hc⟩
  | succ c ih =>
    intro a h hl hL hc
    have hn : mw + c + 1 < a.length := by omega
    obtain ⟨g1, g2, _⟩ := triBody_val a mb mw kb kw k c e h hmw hmb0 hmb hkb hk hn
    have hs := triStep a mb mw kb kw k c e h hmw hkw hmb0 hmb hkb hk0 hk hn
    rw [redLoop]
    exact ih _ g1 (by omega) (by omega) (cong_trans hs hc)

theorem val_take_succ_add {w : Nat} {a : List Nat} (n : Nat) (hn : n < a.length) :
    val w (a.take (n + 1)) = val w (a.take n) + 2 ^ (w * n) * a.getD n 0 := by
  rw [List.take_succ_eq_append_getElem hn, val_append, List.length_take, Nat.min_eq_left (by omega),
    val_cons, val_nil, Nat.mul_zero, Nat.add_zero]
  congr 2
  simp [List.getD_eq_getElem?_getD, List.getElem?_eq_getElem hn]

/-- the tail of ppRedTrinomial (n == mw): fold the bits ≥ m of word mw and clear them -/
theorem triTail {w : Nat} (a : List Nat) (h : Wf w a) (mb mw kb kw k : Nat)
    (hmw1 : mw < a.length) (hkwle : kw ≤ mw) (hkw : 1 ≤ kw) (hmb : mb < w) (hkb : kb < w)
    (hk0 : 0 < k) (hk : w * kw + kb + k = w * mw + mb) :
    Wf w (xorAt (tailXor w (xorAt a 0 (wshr (a.getD mw 0) mb)) mw kw kb
        (wshl w (wshr (a.getD mw 0) mb) mb)) mw (wshl w (wshr (a.getD mw 0) mb) mb))
    ∧ (xorAt (tailXor w (xorAt a 0 (wshr (a.getD mw 0) mb)) mw kw kb
        (wshl w (wshr (a.getD mw 0) mb) mb)) mw (wshl w (wshr (a.getD mw 0) mb) mb)).length = a.length
    ∧ Cong (2 ^ (w * mw + mb) + 2 ^ k + 1)
        (val w ((xorAt (tailXor w (xorAt a 0 (wshr (a.getD mw 0) mb)) mw kw kb
          (wshl w (wshr (a.getD mw 0) mb) mb)) mw (wshl w (wshr (a.getD mw 0) mb) mb)).take (mw + 1)))
        (val w (a.take (mw + 1)))
    ∧ val w ((xorAt (tailXor w (xorAt a 0 (wshr (a.getD mw 0) mb)) mw kw kb
          (wshl w (wshr (a.getD mw 0) mb) mb)) mw (wshl w (wshr (a.getD mw 0) mb) mb)).take (mw + 1))
        < 2 ^ (w * mw + mb) := by
  have hword := getD_lt h mw
  have hw1 : w * 1 ≤ w * kw := Nat.mul_le_mul_left w hkw
  have hkm : k < w * mw + mb := by omega
  have hhi : wshr (a.getD mw 0) mb < 2 ^ (w - mb) := by
    apply Nat.div_lt_of_lt_mul
    rw [← Nat.pow_add, Nat.add_sub_cancel' (Nat.le_of_lt hmb)]; exact hword
  have hhiw : wshr (a.getD mw 0) mb < 2 ^ w := Nat.lt_of_le_of_lt (Nat.div_le_self _ _) hword
  obtain ⟨hex, hlt⟩ := wshl_exact (Nat.le_of_lt hmb) hhi
  obtain ⟨f1, f2, f3⟩ := val_xorAt a 0 _ h (by omega) hhiw
  obtain ⟨g1, g2, g3⟩ := val_tailXor _ f1 mw mb kw kb _ (by omega) hmb hkb hkwle (by omega) hhi
  obtain ⟨q1, q2, q3⟩ := val_xorAt _ mw (wshl w (wshr (a.getD mw 0) mb) mb) g1 (by omega)
    (by rw [hex]; exact hlt)
  refine ⟨q1, by omega, ?_⟩
  -- the value of the whole array
  have hval : val w (xorAt (tailXor w (xorAt a 0 (wshr (a.getD mw 0) mb)) mw kw kb
        (wshl w (wshr (a.getD mw 0) mb) mb)) mw (wshl w (wshr (a.getD mw 0) mb) mb))
      = val w a ^^^ ((wshr (a.getD mw 0) mb) <<< (w * mw + mb)
          ^^^ (wshr (a.getD mw 0) mb ^^^ (wshr (a.getD mw 0) mb) <<< k)) := by
    rw [q3, g3, f3, hex, Nat.mul_zero, Nat.shiftLeft_zero, ← Nat.shiftLeft_eq, ← Nat.shiftLeft_add,
      show w * mw + mb - (w * kw + kb) = k by omega, Nat.add_comm mb, Nat.xor_assoc, Nat.xor_assoc]
    congr 1
    rw [← Nat.xor_assoc, Nat.xor_comm]
  have hwn : w * (mw + 1) = w * mw + w := by rw [Nat.mul_add, Nat.mul_one]
  have hD : (wshr (a.getD mw 0) mb) <<< (w * mw + mb)
      ^^^ (wshr (a.getD mw 0) mb ^^^ (wshr (a.getD mw 0) mb) <<< k) < 2 ^ (w * (mw + 1)) := by
    apply Nat.xor_lt_two_pow
    · exact Nat.lt_of_lt_of_le (shl_lt hhi _) (Nat.pow_le_pow_right (by omega) (by omega))
    · apply Nat.xor_lt_two_pow
      · exact Nat.lt_of_lt_of_le hhi (Nat.pow_le_pow_right (by omega) (by omega))
      · exact Nat.lt_of_lt_of_le (shl_lt hhi _) (Nat.pow_le_pow_right (by omega) (by omega))
  have htake := val_take_xor h q1 (by omega) (mw + 1) (by omega) hD hval
  rw [htake]
  constructor
  · refine ⟨wshr (a.getD mw 0) mb, ?_⟩
    rw [← tri_fold hk0 hkm, Nat.xor_comm (val w (List.take (mw + 1) a)), Nat.xor_assoc, Nat.xor_self,
      Nat.xor_zero]
  · -- T = hi'·x^m + lo
    have hT0 : val w (a.take mw) < 2 ^ (w * mw) := by
      have := val_lt (Wf_take h mw)
      rwa [List.length_take, Nat.min_eq_left (by omega)] at this
    have hTdiv : val w (a.take (mw + 1)) / 2 ^ (w * mw + mb) = wshr (a.getD mw 0) mb := by
      rw [val_take_succ_add mw hmw1, Nat.pow_add, ← Nat.div_div_eq_div_mul,
        Nat.add_mul_div_left _ _ (Nat.two_pow_pos _), Nat.div_eq_of_lt hT0, Nat.zero_add]
    have hT : val w (a.take (mw + 1)) = (wshr (a.getD mw 0) mb) <<< (w * mw + mb)
        ^^^ val w (a.take (mw + 1)) % 2 ^ (w * mw + mb) := by
      rw [← add_shl_eq_xor (Nat.mod_lt _ (Nat.two_pow_pos _)), ← hTdiv, Nat.div_add_mod]
    rw [hT, xor4_swap, Nat.xor_self, Nat.zero_xor]
    apply Nat.xor_lt_two_pow (Nat.mod_lt _ (Nat.two_pow_pos _))
    apply Nat.xor_lt_two_pow
    · exact Nat.lt_of_lt_of_le hhi (Nat.pow_le_pow_right (by omega) (by omega))
    · exact Nat.lt_of_lt_of_le (shl_lt hhi _) (Nat.pow_le_pow_right (by omega) (by omega))

theorem wOfB_of_mod_ne {w m : Nat} (hw : 0 < w) (h : m % w ≠ 0) : wOfB w m = m / w + 1 := by
  unfold wOfB
  have hm := Nat.div_add_mod m w
  have hlt := Nat.mod_lt m hw
  have e : m + w - 1 = w * (m / w) + (m % w + w - 1) := by omega
  rw [e, Nat.mul_add_div hw]
  congr 1
  exact Nat.div_eq_of_lt_le (by omega) (by omega)

theorem ppRedTrinomial_ok {w : Nat} (a : List Nat) (m k : Nat) (hw : 0 < w) (ha : Wf w a)
    (hl : a.length = 2 * wOfB w m) (hmb0 : m % w ≠ 0) (hk0 : 0 < k) (hmk : w ≤ m - k) :
    val w (ppRedTrinomial w a m k) = pmod (val w a) (2 ^ m + 2 ^ k + 1)
    ∧ val w (ppRedTrinomial w a m k) < 2 ^ m
    ∧ Wf w (ppRedTrinomial w a m k) ∧ (ppRedTrinomial w a m k).length = wOfB w m := by
  have hm := Nat.div_add_mod m w
  have hmk' := Nat.div_add_mod (m - k) w
  have hmbw := Nat.mod_lt m hw
  have hkbw := Nat.mod_lt (m - k) hw
  have hkw1 : 1 ≤ (m - k) / w := (Nat.le_div_iff_mul_le hw).2 (by omega)
  have hkwle : (m - k) / w ≤ m / w := Nat.div_le_div_right (Nat.sub_le m k)
  have hk : w * ((m - k) / w) + (m - k) % w + k = w * (m / w) + m % w := by omega
  have hkm : k < m := by omega
  have hN := wOfB_of_mod_ne hw hmb0
  have hc0 : 2 * wOfB w m - 1 - m / w = m / w + 1 := by omega
  have hL : m / w + (m / w + 1) + 1 = a.length := by omega
  obtain ⟨l1, l2, l3⟩ := triLoop (m % w) (m / w) ((m - k) % w) ((m - k) / w) k (m / w - (m - k) / w)
    (val w a) a.length (by omega) hkw1 hmb0 hmbw hkbw hk0 hk (m / w + 1) a ha rfl (by omega)
    (by rw [hL, List.take_length]; exact cong_refl _ _)
  obtain ⟨t1, t2, t3, t4⟩ := triTail _ l1 (m % w) (m / w) ((m - k) % w) ((m - k) / w) k
    (by omega) hkwle hkw1 hmbw hkbw hk0 hk
  have heq : ppRedTrinomial w a m k
      = (xorAt (tailXor w (xorAt (redLoop (ppRedTriBody w (m % w) (m / w) ((m - k) % w) ((m - k) / w))
            (m / w) (m / w + 1) a) 0
          (wshr ((redLoop (ppRedTriBody w (m % w) (m / w) ((m - k) % w) ((m - k) / w))
            (m / w) (m / w + 1) a).getD (m / w) 0) (m % w))) (m / w) ((m - k) / w) ((m - k) % w)
          (wshl w (wshr ((redLoop (ppRedTriBody w (m % w) (m / w) ((m - k) % w) ((m - k) / w))
            (m / w) (m / w + 1) a).getD (m / w) 0) (m % w)) (m % w))) (m / w)
          (wshl w (wshr ((redLoop (ppRedTriBody w (m % w) (m / w) ((m - k) % w) ((m - k) / w))
            (m / w) (m / w + 1) a).getD (m / w) 0) (m % w)) (m % w))).take (m / w + 1) := by
    unfold ppRedTrinomial ppRedTrinomialArr
    dsimp only
    rw [hc0, hN]
    rfl
  rw [heq]
  rw [hm] at t3 t4 l3
  have hP := triP_xor hk0 hkm
  have hP0 : 2 ^ m + 2 ^ k + 1 ≠ 0 := Nat.succ_ne_zero _
  have hc := cong_trans t3 l3
  have hpm := pmod_cong hP0 hc
  rw [pmod_of_lt hP0 (by rw [hP.2]; exact t4)] at hpm
  refine ⟨hpm, t4, Wf_take t1 _, ?_⟩
  rw [List.length_take, hN]
  omega

/-! ## §5 ppRedPentanomial -/

theorem xor4_rev (a b c d : Nat) : a ^^^ (b ^^^ (c ^^^ d)) = d ^^^ (c ^^^ (b ^^^ a)) := by
  apply Nat.eq_of_testBit_eq
  intro i
  simp only [Nat.testBit_xor]
  cases a.testBit i <;> cases b.testBit i <;> cases c.testBit i <;> cases d.testBit i <;> rfl

theorem xor5_rot (A x0 x1 x2 x3 z : Nat) :
    ((((A ^^^ x0) ^^^ x1) ^^^ x2) ^^^ x3) ^^^ z = A ^^^ (z ^^^ (x0 ^^^ (x1 ^^^ (x2 ^^^ x3)))) := by
  apply Nat.eq_of_testBit_eq
  intro i
  simp only [Nat.testBit_xor]
  cases A.testBit i <;> cases x0.testBit i <;> cases x1.testBit i <;> cases x2.testBit i <;>
    cases x3.testBit i <;> cases z.testBit i <;> rfl

theorem pentaP_xor {m k l l1 : Nat} (h1 : 0 < l1) (h2 : l1 < l) (h3 : l < k) (h4 : k < m) :
    2 ^ m + 2 ^ k + 2 ^ l + 2 ^ l1 + 1
      = (1 <<< m) ^^^ ((1 <<< k) ^^^ ((1 <<< l) ^^^ ((1 <<< l1) ^^^ 1)))
    ∧ (2 ^ m + 2 ^ k + 2 ^ l + 2 ^ l1 + 1).log2 = m := by
  have p1 : 1 < 2 ^ l1 := Nat.one_lt_two_pow (by omega)
  have q2 : 2 ^ (l1 + 1) ≤ 2 ^ l := Nat.pow_le_pow_right (by omega) (by omega)
  have q3 : 2 ^ (l + 1) ≤ 2 ^ k := Nat.pow_le_pow_right (by omega) (by omega)
  have q4 : 2 ^ (k + 1) ≤ 2 ^ m := Nat.pow_le_pow_right (by omega) (by omega)
  rw [Nat.pow_succ] at q2 q3 q4
  have e1 : 2 ^ l1 + 1 = (1 <<< l1) ^^^ 1 := by
    have := add_shl_eq_xor (a := 1) p1; rwa [Nat.mul_one] at this
  have e2 : 2 ^ l + (2 ^ l1 + 1) = (1 <<< l) ^^^ (2 ^ l1 + 1) := by
    have := add_shl_eq_xor (a := 1) (b := 2 ^ l1 + 1) (i := l) (by omega); rwa [Nat.mul_one] at this
  have e3 : 2 ^ k + (2 ^ l + (2 ^ l1 + 1)) = (1 <<< k) ^^^ (2 ^ l + (2 ^ l1 + 1)) := by
    have := add_shl_eq_xor (a := 1) (b := 2 ^ l + (2 ^ l1 + 1)) (i := k) (by omega)
    rwa [Nat.mul_one] at this
  have e4 : 2 ^ m + (2 ^ k + (2 ^ l + (2 ^ l1 + 1)))
      = (1 <<< m) ^^^ (2 ^ k + (2 ^ l + (2 ^ l1 + 1))) := by
    have := add_shl_eq_xor (a := 1) (b := 2 ^ k + (2 ^ l + (2 ^ l1 + 1))) (i := m) (by omega)
    rwa [Nat.mul_one] at this
  refine ⟨?_, ?_⟩
  · rw [← e1, ← e2, ← e3, ← e4]; omega
  · apply (Nat.log2_eq_iff (by omega)).2
    rw [Nat.pow_succ]; omega

theorem penta_fold {m k l l1 : Nat} (h1 : 0 < l1) (h2 : l1 < l) (h3 : l < k) (h4 : k < m) (X : Nat) :
    X <<< m ^^^ (X ^^^ (X <<< l1 ^^^ (X <<< l ^^^ X <<< k)))
      = clmul X (2 ^ m + 2 ^ k + 2 ^ l + 2 ^ l1 + 1) := by
  rw [(pentaP_xor h1 h2 h3 h4).1, clmul_xor, clmul_xor, clmul_xor, clmul_xor, Nat.one_shiftLeft,
    Nat.one_shiftLeft, Nat.one_shiftLeft, Nat.one_shiftLeft, clmul_two_pow, clmul_two_pow,
    clmul_two_pow, clmul_two_pow, clmul_one]
  congr 1
  exact xor4_rev _ _ _ _

theorem expo_eq {w mw mb tw tb t e c : Nat} (hmw : mw = tw + e)
    (ht : w * tw + tb + t = w * mw + mb) (hmb : mb ≤ w) (htb : tb < w) :
    w * (e + c) + (w - tb) = w * c + (w - mb) + t := by
  rw [hmw, Nat.mul_add] at ht
  rw [Nat.mul_add]
  omega

theorem pentaBody_val {w : Nat} (a : List Nat) (mb mw l1b l1w lb lw kb kw l1 l k c : Nat) (h : Wf w a)
    (hl1w : l1w ≤ mw) (hlw : lw ≤ mw) (hkw : kw ≤ mw)
    (hmb : mb < w) (hl1b : l1b < w) (hlb : lb < w) (hkb : kb < w)
    (hl1 : w * l1w + l1b + l1 = w * mw + mb) (hl : w * lw + lb + l = w * mw + mb)
    (hk : w * kw + kb + k = w * mw + mb) (hn : mw + c + 1 < a.length) :
    Wf w (ppRedPentaBody w mb mw l1b l1w lb lw kb kw (mw + c + 1) a)
    ∧ (ppRedPentaBody w mb mw l1b l1w lb lw kb kw (mw + c + 1) a).length = a.length
    ∧ val w (ppRedPentaBody w mb mw l1b l1w lb lw kb kw (mw + c + 1) a)
        = val w a ^^^ ((a.getD (mw + c + 1) 0) <<< (w * c + (w - mb))
            ^^^ ((a.getD (mw + c + 1) 0) <<< (w * c + (w - mb) + l1)
            ^^^ ((a.getD (mw + c + 1) 0) <<< (w * c + (w - mb) + l)
            ^^^ (a.getD (mw + c + 1) 0) <<< (w * c + (w - mb) + k)))) := by
  have heq : ppRedPentaBody w mb mw l1b l1w lb lw kb kw (mw + c + 1) a
      = pairXor w (pairXor w (pairXor w (pairXor w a c mb (a.getD (mw + c + 1) 0))
          (mw - l1w + c) l1b (a.getD (mw + c + 1) 0)) (mw - lw + c) lb (a.getD (mw + c + 1) 0))
          (mw - kw + c) kb (a.getD (mw + c + 1) 0) := by
    unfold ppRedPentaBody pairXor
    have e2 : mw + c + 1 - mw = c + 1 := by omega
    have e4 : mw + c + 1 - l1w = mw - l1w + c + 1 := by omega
    have e6 : mw + c + 1 - lw = mw - lw + c + 1 := by omega
    have e8 : mw + c + 1 - kw = mw - kw + c + 1 := by omega
    simp only [e2, e4, e6, e8, Nat.add_sub_cancel]
  rw [heq]
  have hhi := getD_lt h (mw + c + 1)
  obtain ⟨f1, f2, f3⟩ := val_pairXor a h c mb _ (by omega) hhi hmb
  obtain ⟨g1, g2, g3⟩ := val_pairXor _ f1 (mw - l1w + c) l1b _ (by omega) hhi hl1b
  obtain ⟨p1, p2, p3⟩ := val_pairXor _ g1 (mw - lw + c) lb _ (by omega) hhi hlb
  obtain ⟨q1, q2, q3⟩ := val_pairXor _ p1 (mw - kw + c) kb _ (by omega) hhi hkb
  refine ⟨q1, by omega, ?_⟩
  rw [q3, p3, g3, f3,
    expo_eq (e := mw - l1w) (c := c) (by omega) hl1 (Nat.le_of_lt hmb) hl1b,
    expo_eq (e := mw - lw) (c := c) (by omega) hl (Nat.le_of_lt hmb) hlb,
    expo_eq (e := mw - kw) (c := c) (by omega) hk (Nat.le_of_lt hmb) hkb]
  simp only [Nat.xor_assoc]

theorem pentaStep {w : Nat} (a : List Nat) (mb mw l1b l1w lb lw kb kw l1 l k c : Nat) (h : Wf w a)
    (hl1w : l1w ≤ mw) (hlw : lw ≤ mw) (hkw : kw ≤ mw)
    (hmb : mb < w) (hl1b : l1b < w) (hlb : lb < w) (hkb : kb < w)
    (hl1 : w * l1w + l1b + l1 = w * mw + mb) (hl : w * lw + lb + l = w * mw + mb)
    (hk : w * kw + kb + k = w * mw + mb) (h1 : 0 < l1) (h2 : l1 < l) (h3 : l < k)
    (hwk : w + k ≤ w * mw + mb) (hn : mw + c + 1 < a.length) :
    Cong (2 ^ (w * mw + mb) + 2 ^ k + 2 ^ l + 2 ^ l1 + 1)
      (val w ((ppRedPentaBody w mb mw l1b l1w lb lw kb kw (mw + c + 1) a).take (mw + c + 1)))
      (val w (a.take (mw + c + 1 + 1))) := by
  obtain ⟨g1, g2, g3⟩ := pentaBody_val a mb mw l1b l1w lb lw kb kw l1 l k c h hl1w hlw hkw hmb hl1b
    hlb hkb hl1 hl hk hn
  have hhi := getD_lt h (mw + c + 1)
  have hwn : w * (mw + c + 1) = w * mw + w * c + w := by rw [Nat.mul_add, Nat.mul_add, Nat.mul_one]
  have hb : ∀ t, t ≤ k → (a.getD (mw + c + 1) 0) <<< (w * c + (w - mb) + t) < 2 ^ (w * (mw + c + 1)) :=
    fun t ht => Nat.lt_of_lt_of_le (shl_lt hhi _) (Nat.pow_le_pow_right (by omega) (by omega))
  have hD : (a.getD (mw + c + 1) 0) <<< (w * c + (w - mb))
      ^^^ ((a.getD (mw + c + 1) 0) <<< (w * c + (w - mb) + l1)
      ^^^ ((a.getD (mw + c + 1) 0) <<< (w * c + (w - mb) + l)
      ^^^ (a.getD (mw + c + 1) 0) <<< (w * c + (w - mb) + k))) < 2 ^ (w * (mw + c + 1)) := by
    apply Nat.xor_lt_two_pow (hb 0 (by omega))
    apply Nat.xor_lt_two_pow (hb l1 (by omega))
    exact Nat.xor_lt_two_pow (hb l (by omega)) (hb k (by omega))
  rw [val_take_xor h g1 g2 (mw + c + 1) (by omega) hD g3, val_take_succ h (mw + c + 1) hn]
  refine ⟨(a.getD (mw + c + 1) 0) <<< (w * c + (w - mb)), ?_⟩
  rw [← penta_fold h1 h2 h3 (by omega), ← Nat.shiftLeft_add, ← Nat.shiftLeft_add, ← Nat.shiftLeft_add,
    ← Nat.shiftLeft_add]
  have e1 : w * c + (w - mb) + (w * mw + mb) = w * (mw + c + 1) := by omega
  rw [e1]
  exact xor_cancel_mid _ _ _

theorem pentaLoop {w : Nat} (mb mw l1b l1w lb lw kb kw l1 l k V0 L : Nat)
    (hl1w : l1w ≤ mw) (hlw : lw ≤ mw) (hkw : kw ≤ mw)
    (hmb : mb < w) (hl1b : l1b < w) (hlb : lb < w) (hkb : kb < w)
    (hl1 : w * l1w + l1b + l1 = w * mw + mb) (hl : w * lw + lb + l = w * mw + mb)
    (hk : w * kw + kb + k = w * mw + mb) (h1 : 0 < l1) (h2 : l1 < l) (h3 : l < k)
    (hwk : w + k ≤ w * mw + mb) :
    ∀ (c : Nat) (a : List Nat), Wf w a → a.length = L → mw + c + 1 ≤ L →
      Cong (2 ^ (w * mw + mb) + 2 ^ k + 2 ^ l + 2 ^ l1 + 1) (val w (a.take (mw + c + 1))) V0 →
      Wf w (redLoop (ppRedPentaBody w mb mw l1b l1w lb lw kb kw) mw c a)
      ∧ (redLoop (ppRedPentaBody w mb mw l1b l1w lb lw kb kw) mw c a).length = L
      ∧ Cong (2 ^ (w * mw + mb) + 2 ^ k + 2 ^ l + 2 ^ l1 + 1)
          (val w ((redLoop (ppRedPentaBody w mb mw l1b l1w lb lw kb kw) mw c a).take (mw + 1))) V0 := by
  intro c
  induction c with
  | zero => intro a h hl _ hc; exact ⟨h, hl, hc⟩
  | succ c ih =>
    intro a h hL hle hc
    have hn : mw + c + 1 < a.length := by omega
    obtain ⟨g1, g2, _⟩ := pentaBody_val a mb mw l1b l1w lb lw kb kw l1 l k c h hl1w hlw hkw hmb hl1b
      hlb hkb hl1 hl hk hn
    have hs := pentaStep a mb mw l1b l1w lb lw kb kw l1 l k c h hl1w hlw hkw hmb hl1b hlb hkb hl1 hl hk
      h1 h2 h3 hwk hn
    rw [redLoop]
    exact ih _ g1 (by omega) (by omega) (cong_trans hs hc)

/-- the tail of ppRedPentanomial / gf2RedPentanomial (n == mw); mb = 0 allowed -/
theorem pentaTail {w : Nat} (a : List Nat) (h : Wf w a) (mb mw l1b l1w lb lw kb kw l1 l k : Nat)
    (hmw1 : mw < a.length) (hl1w : l1w ≤ mw) (hlw : lw ≤ mw) (hkw : kw ≤ mw)
    (hmb : mb < w) (hl1b : l1b < w) (hlb : lb < w) (hkb : kb < w)
    (hl1 : w * l1w + l1b + l1 = w * mw + mb) (hl : w * lw + lb + l = w * mw + mb)
    (hk : w * kw + kb + k = w * mw + mb) (h1 : 0 < l1) (h2 : l1 < l) (h3 : l < k)
    (hwk : w + k ≤ w * mw + mb) :
    Wf w (ppRedPentaTail w mb mw l1b l1w lb lw kb kw a)
    ∧ (ppRedPentaTail w mb mw l1b l1w lb lw kb kw a).length = a.length
    ∧ Cong (2 ^ (w * mw + mb) + 2 ^ k + 2 ^ l + 2 ^ l1 + 1)
        (val w ((ppRedPentaTail w mb mw l1b l1w lb lw kb kw a).take (mw + 1)))
        (val w (a.take (mw + 1)))
    ∧ val w ((ppRedPentaTail w mb mw l1b l1w lb lw kb kw a).take (mw + 1)) < 2 ^ (w * mw + mb) := by
  have heq : ppRedPentaTail w mb mw l1b l1w lb lw kb kw a
      = xorAt (tailXor w (tailXor w (tailXor w (xorAt a 0 (wshr (a.getD mw 0) mb)) mw l1w l1b
          (wshl w (wshr (a.getD mw 0) mb) mb)) mw lw lb (wshl w (wshr (a.getD mw 0) mb) mb)) mw kw kb
          (wshl w (wshr (a.getD mw 0) mb) mb)) mw (wshl w (wshr (a.getD mw 0) mb) mb) := rfl
  rw [heq]
  have hword := getD_lt h mw
  have hhi : wshr (a.getD mw 0) mb < 2 ^ (w - mb) := by
    apply Nat.div_lt_of_lt_mul
    rw [← Nat.pow_add, Nat.add_sub_cancel' (Nat.le_of_lt hmb)]; exact hword
  have hhiw : wshr (a.getD mw 0) mb < 2 ^ w := Nat.lt_of_le_of_lt (Nat.div_le_self _ _) hword
  obtain ⟨hex, hlt⟩ := wshl_exact (Nat.le_of_lt hmb) hhi
  obtain ⟨f1, f2, f3⟩ := val_xorAt a 0 _ h (by omega) hhiw
  obtain ⟨g1, g2, g3⟩ := val_tailXor _ f1 mw mb l1w l1b _ (by omega) hmb hl1b hl1w (by omega) hhi
  obtain ⟨p1, p2, p3⟩ := val_tailXor _ g1 mw mb lw lb _ (by omega) hmb hlb hlw (by omega) hhi
  obtain ⟨q1, q2, q3⟩ := val_tailXor _ p1 mw mb kw kb _ (by omega) hmb hkb hkw (by omega) hhi
  obtain ⟨r1, r2, r3⟩ := val_xorAt _ mw (wshl w (wshr (a.getD mw 0) mb) mb) q1 (by omega)
    (by rw [hex]; exact hlt)
  refine ⟨r1, by omega, ?_⟩
  have hval : val w (xorAt (tailXor w (tailXor w (tailXor w (xorAt a 0 (wshr (a.getD mw 0) mb)) mw l1w l1b
          (wshl w (wshr (a.getD mw 0) mb) mb)) mw lw lb (wshl w (wshr (a.getD mw 0) mb) mb)) mw kw kb
          (wshl w (wshr (a.getD mw 0) mb) mb)) mw (wshl w (wshr (a.getD mw 0) mb) mb))
      = val w a ^^^ ((wshr (a.getD mw 0) mb) <<< (w * mw + mb)
          ^^^ (wshr (a.getD mw 0) mb ^^^ ((wshr (a.getD mw 0) mb) <<< l1
          ^^^ ((wshr (a.getD mw 0) mb) <<< l ^^^ (wshr (a.getD mw 0) mb) <<< k)))) := by
    rw [r3, q3, p3, g3, f3, hex, Nat.mul_zero, Nat.shiftLeft_zero, ← Nat.shiftLeft_eq,
      ← Nat.shiftLeft_add,
      show w * mw + mb - (w * l1w + l1b) = l1 by omega,
      show w * mw + mb - (w * lw + lb) = l by omega,
      show w * mw + mb - (w * kw + kb) = k by omega, Nat.add_comm mb]
    exact xor5_rot _ _ _ _ _ _
  have hwn : w * (mw + 1) = w * mw + w := by rw [Nat.mul_add, Nat.mul_one]
  have hb : ∀ t, t ≤ k → (wshr (a.getD mw 0) mb) <<< t < 2 ^ (w * mw + mb) :=
    fun t ht => Nat.lt_of_lt_of_le (shl_lt hhi _) (Nat.pow_le_pow_right (by omega) (by omega))
  have hb0 : wshr (a.getD mw 0) mb < 2 ^ (w * mw + mb) :=
    Nat.lt_of_lt_of_le hhi (Nat.pow_le_pow_right (by omega) (by omega))
  have hsmall : wshr (a.getD mw 0) mb ^^^ ((wshr (a.getD mw 0) mb) <<< l1
      ^^^ ((wshr (a.getD mw 0) mb) <<< l ^^^ (wshr (a.getD mw 0) mb) <<< k)) < 2 ^ (w * mw + mb) := by
    apply Nat.xor_lt_two_pow hb0
    apply Nat.xor_lt_two_pow (hb l1 (by omega))
    exact Nat.xor_lt_two_pow (hb l (by omega)) (hb k (by omega))
  have hD : (wshr (a.getD mw 0) mb) <<< (w * mw + mb)
      ^^^ (wshr (a.getD mw 0) mb ^^^ ((wshr (a.getD mw 0) mb) <<< l1
      ^^^ ((wshr (a.getD mw 0) mb) <<< l ^^^ (wshr (a.getD mw 0) mb) <<< k))) < 2 ^ (w * (mw + 1)) := by
    apply Nat.xor_lt_two_pow
    · exact Nat.lt_of_lt_of_le (shl_lt hhi _) (Nat.pow_le_pow_right (by omega) (by omega))
    · exact Nat.lt_of_lt_of_le hsmall (Nat.pow_le_pow_right (by omega) (by omega))
  have htake := val_take_xor h r1 (by omega) (mw + 1) (by omega) hD hval
  rw [htake]
  constructor
  · refine ⟨wshr (a.getD mw 0) mb, ?_⟩
    rw [← penta_fold h1 h2 h3 (by omega), Nat.xor_comm (val w (List.take (mw + 1) a)), Nat.xor_assoc,
      Nat.xor_self, Nat.xor_zero]
  · have hT0 : val w (a.take mw) < 2 ^ (w * mw) := by
      have := val_lt (Wf_take h mw)
      rwa [List.length_take, Nat.min_eq_left (by omega)] at this
    have hTdiv : val w (a.take (mw + 1)) / 2 ^ (w * mw + mb) = wshr (a.getD mw 0) mb := by
      rw [val_take_succ_add mw hmw1, Nat.pow_add, ← Nat.div_div_eq_div_mul,
        Nat.add_mul_div_left _ _ (Nat.two_pow_pos _), Nat.div_eq_of_lt hT0, Nat.zero_add]
    have hT : val w (a.take (mw + 1)) = (wshr (a.getD mw 0) mb) <<< (w * mw + mb)
        ^^^ val w (a.take (mw + 1)) % 2 ^ (w * mw + mb) := by
      rw [← add_shl_eq_xor (Nat.mod_lt _ (Nat.two_pow_pos _)), ← hTdiv, Nat.div_add_mod]
    rw [hT, xor4_swap, Nat.xor_self, Nat.zero_xor]
    exact Nat.xor_lt_two_pow (Nat.mod_lt _ (Nat.two_pow_pos _)) hsmall

theorem wOfB_bounds {w : Nat} (hw : 0 < w) (m : Nat) :
    m / w ≤ wOfB w m ∧ wOfB w m ≤ m / w + 1 ∧ m ≤ w * wOfB w m := by
  have hm := Nat.div_add_mod m w
  have hlt := Nat.mod_lt m hw
  by_cases h0 : m % w = 0
  · have e : wOfB w m = m / w := by
      unfold wOfB
      have e' : m + w - 1 = w * (m / w) + (w - 1) := by omega
      have e2 : (w - 1) / w = 0 := Nat.div_eq_of_lt (by omega)
      rw [e', Nat.mul_add_div hw, e2, Nat.add_zero]
    rw [e]; omega
  · rw [wOfB_of_mod_ne hw h0, Nat.mul_add, Nat.mul_one]; omega

theorem ppRedPentanomial_ok {w : Nat} (a : List Nat) (m k l l1 : Nat) (hw : 0 < w) (ha : Wf w a)
    (hlen : a.length = 2 * wOfB w m) (h1 : 0 < l1) (h2 : l1 < l) (h3 : l < k) (hkw : k < w)
    (hmk : w ≤ m - k) :
    val w (ppRedPentanomial w a m k l l1) = pmod (val w a) (2 ^ m + 2 ^ k + 2 ^ l + 2 ^ l1 + 1)
    ∧ val w (ppRedPentanomial w a m k l l1) < 2 ^ m
    ∧ Wf w (ppRedPentanomial w a m k l l1) ∧ (ppRedPentanomial w a m k l l1).length = wOfB w m := by
  have hm := Nat.div_add_mod m w
  have hmbw := Nat.mod_lt m hw
  have d1 := Nat.div_add_mod (m - l1) w
  have d2 := Nat.div_add_mod (m - l) w
  have d3 := Nat.div_add_mod (m - k) w
  have b1 := Nat.mod_lt (m - l1) hw
  have b2 := Nat.mod_lt (m - l) hw
  have b3 := Nat.mod_lt (m - k) hw
  have le1 : (m - l1) / w ≤ m / w := Nat.div_le_div_right (Nat.sub_le m l1)
  have le2 : (m - l) / w ≤ m / w := Nat.div_le_div_right (Nat.sub_le m l)
  have le3 : (m - k) / w ≤ m / w := Nat.div_le_div_right (Nat.sub_le m k)
  have hmw1 : 1 ≤ m / w := (Nat.le_div_iff_mul_le hw).2 (by omega)
  obtain ⟨n1, n2, n3⟩ := wOfB_bounds hw m
  have hP := pentaP_xor h1 h2 h3 (by omega : k < m)
  have hP0 : 2 ^ m + 2 ^ k + 2 ^ l + 2 ^ l1 + 1 ≠ 0 := Nat.succ_ne_zero _
  have hL : m / w + (2 * wOfB w m - 1 - m / w) + 1 = a.length := by omega
  obtain ⟨l1', l2', l3'⟩ := pentaLoop (m % w) (m / w) ((m - l1) % w) ((m - l1) / w) ((m - l) % w)
    ((m - l) / w) ((m - k) % w) ((m - k) / w) l1 l k (val w a) a.length le1 le2 le3 hmbw b1 b2 b3
    (by omega) (by omega) (by omega) h1 h2 h3 (by omega) (2 * wOfB w m - 1 - m / w) a ha rfl (by omega)
    (by rw [hL, List.take_length]; exact cong_refl _ _)
  obtain ⟨t1, t2, t3, t4⟩ := pentaTail _ l1' (m % w) (m / w) ((m - l1) % w) ((m - l1) / w)
    ((m - l) % w) ((m - l) / w) ((m - k) % w) ((m - k) / w) l1 l k (by omega) le1 le2 le3 hmbw b1 b2 b3
    (by omega) (by omega) (by omega) h1 h2 h3 (by omega)
  rw [hm] at t3 t4 l3'
  have hc := cong_trans t3 l3'
  -- the result: the first W_OF_B(m) words
  have hres : val w (ppRedPentanomial w a m k l l1)
      = val w ((ppRedPentaTail w (m % w) (m / w) ((m - l1) % w) ((m - l1) / w) ((m - l) % w)
          ((m - l) / w) ((m - k) % w) ((m - k) / w)
          (redLoop (ppRedPentaBody w (m % w) (m / w) ((m - l1) % w) ((m - l1) / w) ((m - l) % w)
            ((m - l) / w) ((m - k) % w) ((m - k) / w)) (m / w) (2 * wOfB w m - 1 - m / w) a)).take
          (m / w + 1)) := by
    have hunf : ppRedPentanomial w a m k l l1
        = (ppRedPentaTail w (m % w) (m / w) ((m - l1) % w) ((m - l1) / w) ((m - l) % w)
          ((m - l) / w) ((m - k) % w) ((m - k) / w)
          (redLoop (ppRedPentaBody w (m % w) (m / w) ((m - l1) % w) ((m - l1) / w) ((m - l) % w)
            ((m - l) / w) ((m - k) % w) ((m - k) / w)) (m / w) (2 * wOfB w m - 1 - m / w) a)).take
          (wOfB w m) := rfl
    rw [hunf, val_take t1 _ (by omega), val_take t1 (m / w + 1) (by omega)]
    have hdvd : 2 ^ (w * wOfB w m) ∣ 2 ^ (w * (m / w + 1)) :=
      Nat.pow_dvd_pow 2 (Nat.mul_le_mul_left w n2)
    have hlt : val w (ppRedPentaTail w (m % w) (m / w) ((m - l1) % w) ((m - l1) / w) ((m - l) % w)
          ((m - l) / w) ((m - k) % w) ((m - k) / w)
          (redLoop (ppRedPentaBody w (m % w) (m / w) ((m - l1) % w) ((m - l1) / w) ((m - l) % w)
            ((m - l) / w) ((m - k) % w) ((m - k) / w)) (m / w) (2 * wOfB w m - 1 - m / w) a))
          % 2 ^ (w * (m / w + 1)) < 2 ^ (w * wOfB w m) := by
      rw [← val_take t1 (m / w + 1) (by omega)]
      exact Nat.lt_of_lt_of_le t4 (Nat.pow_le_pow_right (by omega) n3)
    rw [← Nat.mod_mod_of_dvd _ hdvd, Nat.mod_eq_of_lt hlt]
  have hpm := pmod_cong hP0 hc
  rw [pmod_of_lt hP0 (by rw [hP.2]; exact t4)] at hpm
  rw [hres]
  refine ⟨hpm, t4, ?_, ?_⟩
  · exact Wf_take t1 _
  · show (List.take (wOfB w m) _).length = wOfB w m
    rw [List.length_take]
    have : (ppRedPentanomialArr w a m k l l1).length = a.length := t2.trans l2'
    omega

/-! ## §6 ppRedBelt -/

theorem shift_split {w v j : Nat} (d : Nat) (hj : j < w) :
    (wshl w v j) <<< (w * d) ^^^ (wshr v (w - j)) <<< (w * (d + 1)) = v <<< (w * d + j) := by
  have hpow : 2 ^ w = 2 ^ j * 2 ^ (w - j) := by rw [← Nat.pow_add]; congr 1; omega
  have hdiv : v * 2 ^ j / 2 ^ w = v / 2 ^ (w - j) := by
    rw [hpow, ← Nat.div_div_eq_div_mul, Nat.mul_div_cancel _ (Nat.two_pow_pos _)]
  have hX : v * 2 ^ j = (v / 2 ^ (w - j)) <<< w ^^^ (v * 2 ^ j) % 2 ^ w := by
    rw [← add_shl_eq_xor (Nat.mod_lt _ (Nat.two_pow_pos w)), ← hdiv, Nat.div_add_mod]
  rw [Nat.add_comm (w * d), Nat.shiftLeft_add, Nat.shiftLeft_eq v, hX, Nat.shiftLeft_xor_distrib,
    ← Nat.shiftLeft_add, Nat.mul_succ, Nat.add_comm w, Nat.xor_comm]

theorem getD_xorAt_ne (a : List Nat) (i n x : Nat) (h : i ≠ n) :
    (xorAt a i x).getD n 0 = a.getD n 0 := by
  unfold xorAt
  simp [List.getD_eq_getElem?_getD, List.getElem?_set_ne h]

theorem xor7 (x0 a1 a2 a7 b1 b2 b7 : Nat) :
    (x0 ^^^ a1 ^^^ a2 ^^^ a7) ^^^ (b1 ^^^ b2 ^^^ b7)
      = x0 ^^^ ((a1 ^^^ b1) ^^^ ((a2 ^^^ b2) ^^^ (a7 ^^^ b7))) := by
  apply Nat.eq_of_testBit_eq
  intro i
  simp only [Nat.testBit_xor]
  cases x0.testBit i <;> cases a1.testBit i <;> cases a2.testBit i <;> cases a7.testBit i <;>
    cases b1.testBit i <;> cases b2.testBit i <;> cases b7.testBit i <;> rfl

theorem beltBody_val {w : Nat} (a : List Nat) (mw d : Nat) (h : Wf w a) (h7 : 7 < w) (hmw : 1 ≤ mw)
    (hn : mw + d < a.length) :
    Wf w (ppRedBeltBody w mw (mw + d) a)
    ∧ (ppRedBeltBody w mw (mw + d) a).length = a.length
    ∧ val w (ppRedBeltBody w mw (mw + d) a)
        = val w a ^^^ ((a.getD (mw + d) 0) <<< (w * d)
            ^^^ ((a.getD (mw + d) 0) <<< (w * d + 1)
            ^^^ ((a.getD (mw + d) 0) <<< (w * d + 2) ^^^ (a.getD (mw + d) 0) <<< (w * d + 7)))) := by
  have hv := getD_lt h (mw + d)
  have hs : ∀ j, wshl w (a.getD (mw + d) 0) j < 2 ^ w := fun j => Nat.mod_lt _ (Nat.two_pow_pos w)
  have hr : ∀ j, wshr (a.getD (mw + d) 0) j < 2 ^ w :=
    fun j => Nat.lt_of_le_of_lt (Nat.div_le_self _ _) hv
  have e1 : mw + d - mw = d := by omega
  unfold ppRedBeltBody
  simp only [e1]
  rw [getD_xorAt_ne a d (mw + d) _ (by omega)]
  obtain ⟨f1, f2, f3⟩ := val_xorAt a d (a.getD (mw + d) 0 ^^^ wshl w (a.getD (mw + d) 0) 1
      ^^^ wshl w (a.getD (mw + d) 0) 2 ^^^ wshl w (a.getD (mw + d) 0) 7) h (by omega)
    (Nat.xor_lt_two_pow (Nat.xor_lt_two_pow (Nat.xor_lt_two_pow hv (hs 1)) (hs 2)) (hs 7))
  obtain ⟨g1, g2, g3⟩ := val_xorAt _ (d + 1) (wshr (a.getD (mw + d) 0) (w - 1)
      ^^^ wshr (a.getD (mw + d) 0) (w - 2) ^^^ wshr (a.getD (mw + d) 0) (w - 7)) f1 (by omega)
    (Nat.xor_lt_two_pow (Nat.xor_lt_two_pow (hr _) (hr _)) (hr _))
  refine ⟨g1, by omega, ?_⟩
  rw [g3, f3, Nat.xor_assoc]
  congr 1
  rw [← shift_split (v := a.getD (mw + d) 0) d (by omega : 1 < w),
    ← shift_split (v := a.getD (mw + d) 0) d (by omega : 2 < w),
    ← shift_split (v := a.getD (mw + d) 0) d h7]
  simp only [Nat.shiftLeft_xor_distrib]
  exact xor7 _ _ _ _ _ _ _

theorem beltStep {w : Nat} (a : List Nat) (mw d : Nat) (h : Wf w a) (h7 : 7 < w) (hmw : 2 ≤ mw)
    (hw : w * mw = 128) (hn : mw + d < a.length) :
    Cong (2 ^ 128 + 2 ^ 7 + 2 ^ 2 + 2 ^ 1 + 1)
      (val w ((ppRedBeltBody w mw (mw + d) a).take (mw + d)))
      (val w (a.take (mw + d + 1))) := by
  obtain ⟨g1, g2, g3⟩ := beltBody_val a mw d h h7 (by omega) hn
  have hv := getD_lt h (mw + d)
  have hwn : w * (mw + d) = 128 + w * d := by rw [Nat.mul_add, hw]
  have hw2 : w * 2 ≤ w * mw := Nat.mul_le_mul_left w hmw
  have hb : ∀ t, t ≤ 7 → (a.getD (mw + d) 0) <<< (w * d + t) < 2 ^ (w * (mw + d)) :=
    fun t ht => Nat.lt_of_lt_of_le (shl_lt hv _) (Nat.pow_le_pow_right (by omega) (by omega))
  have hD : (a.getD (mw + d) 0) <<< (w * d)
      ^^^ ((a.getD (mw + d) 0) <<< (w * d + 1)
      ^^^ ((a.getD (mw + d) 0) <<< (w * d + 2) ^^^ (a.getD (mw + d) 0) <<< (w * d + 7)))
      < 2 ^ (w * (mw + d)) := by
    apply Nat.xor_lt_two_pow (hb 0 (by omega))
    apply Nat.xor_lt_two_pow (hb 1 (by omega))
    exact Nat.xor_lt_two_pow (hb 2 (by omega)) (hb 7 (by omega))
  rw [val_take_xor h g1 g2 (mw + d) (by omega) hD g3, val_take_succ h (mw + d) hn]
  refine ⟨(a.getD (mw + d) 0) <<< (w * d), ?_⟩
  rw [← penta_fold (m := 128) (k := 7) (l := 2) (l1 := 1) (by omega) (by omega) (by omega) (by omega),
    ← Nat.shiftLeft_add, ← Nat.shiftLeft_add, ← Nat.shiftLeft_add, ← Nat.shiftLeft_add]
  have e1 : w * d + 128 = w * (mw + d) := by omega
  rw [e1]
  exact xor_cancel_mid _ _ _

theorem beltLoop {w : Nat} (mw V0 L : Nat) (h7 : 7 < w) (hmw : 2 ≤ mw) (hw : w * mw = 128) :
    ∀ (c : Nat) (a : List Nat), Wf w a → a.length = L → mw + c ≤ L →
      Cong (2 ^ 128 + 2 ^ 7 + 2 ^ 2 + 2 ^ 1 + 1) (val w (a.take (mw + c))) V0 →
      Wf w (redLoop (ppRedBeltBody w mw) (mw - 1) c a)
      ∧ (redLoop (ppRedBeltBody w mw) (mw - 1) c a).length = L
      ∧ Cong (2 ^ 128 + 2 ^ 7 + 2 ^ 2 + 2 ^ 1 + 1)
          (val w ((redLoop (ppRedBeltBody w mw) (mw - 1) c a).take mw)) V0 := by
  intro c
  induction c with
  | zero => intro a h hl _ hc; exact ⟨h, hl, hc⟩
  | succ c ih =>
    intro a h hL hle hc
    have hn : mw + c < a.length := by omega
    obtain ⟨g1, g2, _⟩ := beltBody_val a mw c h h7 (by omega) hn
    have hs := beltStep a mw c h h7 hmw hw hn
    rw [redLoop, show mw - 1 + c + 1 = mw + c by omega]
    exact ih _ g1 (by omega) (by omega) (cong_trans hs hc)

theorem ppRedBelt_ok {w : Nat} (a : List Nat) (h7 : 7 < w) (hmw : 2 ≤ wOfB w 128)
    (hw : w * wOfB w 128 = 128) (ha : Wf w a) (hlen : a.length = 2 * wOfB w 128) :
    val w (ppRedBelt w a) = pmod (val w a) (2 ^ 128 + 2 ^ 7 + 2 ^ 2 + 2 ^ 1 + 1)
    ∧ val w (ppRedBelt w a) < 2 ^ 128
    ∧ Wf w (ppRedBelt w a) ∧ (ppRedBelt w a).length = wOfB w 128 := by
  obtain ⟨l1, l2, l3⟩ := beltLoop (wOfB w 128) (val w a) a.length h7 hmw hw (wOfB w 128) a ha rfl
    (by omega) (by rw [show wOfB w 128 + wOfB w 128 = a.length by omega, List.take_length]; exact cong_refl _ _)
  have hunf : ppRedBelt w a
      = (redLoop (ppRedBeltBody w (wOfB w 128)) (wOfB w 128 - 1) (wOfB w 128) a).take (wOfB w 128) := rfl
  rw [hunf]
  have hP := pentaP_xor (m := 128) (k := 7) (l := 2) (l1 := 1) (by omega) (by omega) (by omega) (by omega)
  have hP0 : 2 ^ 128 + 2 ^ 7 + 2 ^ 2 + 2 ^ 1 + 1 ≠ 0 := Nat.succ_ne_zero _
  have hlt : val w ((redLoop (ppRedBeltBody w (wOfB w 128)) (wOfB w 128 - 1) (wOfB w 128) a).take
      (wOfB w 128)) < 2 ^ 128 := by
    have := val_lt (Wf_take l1 (wOfB w 128))
    rwa [List.length_take, Nat.min_eq_left (by omega), hw] at this
  have hpm := pmod_cong hP0 l3
  rw [pmod_of_lt hP0 (by rw [hP.2]; exact hlt)] at hpm
  refine ⟨hpm, hlt, Wf_take l1 _, ?_⟩
  rw [List.length_take]; omega

end Bee2V.C05.PpRed

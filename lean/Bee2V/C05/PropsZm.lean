/-
C05 — the qr_o operation tables of zm.c (value-level models of ModelZm.lean) compute in Z/(m):
`to (op (from a) (from b)) = a ∘ b mod m` for every ring kind (plain, crand, barr: internal
representation a; mont: a·R mod m).  `ZmOK k W n m` = for the Montgomery kind: W ∈ {16,32,64},
m odd, m < B^n (what zmCreateMont requires); nothing for the other kinds.
-/
import Bee2V.C05.LemmasZm
namespace Bee2V.C05
open Bee2V.C05.Etc Bee2V.C05.Zm

/-- r->from rejects exactly a ≥ mod -/
theorem zmFromV_none_iff (k : ZmKind) (W n m a : Nat) : zmFromV k W n m a = none ↔ m ≤ a := by
  unfold zmFromV
  split_ifs with h <;> simp <;> omega

/-- to (from a) = a -/
theorem zm_from_to (k : ZmKind) (W n m a x : Nat) (H : ZmOK k W n m)
    (hx : zmFromV k W n m a = some x) : zmToV k W n m x = a := by
  obtain ⟨ha, hxm, h1, h2⟩ := from_some hx
  have := decode H x a hxm (fun hk => by rw [h1 hk]; exact from_mont_modEq W n m a)
    (fun hk => by rw [h2 hk, Nat.mod_eq_of_lt ha])
  rwa [Nat.mod_eq_of_lt ha] at this

/-- add -/
theorem zm_add (k : ZmKind) (W n m a b x y : Nat) (H : ZmOK k W n m)
    (hx : zmFromV k W n m a = some x) (hy : zmFromV k W n m b = some y) :
    zmToV k W n m (zmAddV k m x y) = (a + b) % m := by
  obtain ⟨ha, hxm, h1, h2⟩ := from_some hx
  obtain ⟨hb, hym, h3, h4⟩ := from_some hy
  unfold zmAddV
  rw [addMod_val hxm hym]
  apply decode H _ _ (Nat.mod_lt _ (by omega))
  · intro hk
    rw [h1 hk, h3 hk, Nat.add_mul]
    exact (Nat.mod_modEq _ _).trans ((from_mont_modEq W n m a).add (from_mont_modEq W n m b))
  · intro hk; rw [h2 hk, h4 hk]

/-- sub: `a - b mod m`, written `(a + (m - b)) mod m` -/
theorem zm_sub (k : ZmKind) (W n m a b x y : Nat) (H : ZmOK k W n m)
    (hx : zmFromV k W n m a = some x) (hy : zmFromV k W n m b = some y) :
    zmToV k W n m (zmSubV k m x y) = (a + (m - b)) % m := by
  obtain ⟨ha, hxm, h1, h2⟩ := from_some hx
  obtain ⟨hb, hym, h3, h4⟩ := from_some hy
  unfold zmSubV
  rw [subMod_val hxm hym]
  apply decode H _ _ (Nat.mod_lt _ (by omega))
  · intro hk
    refine (Nat.mod_modEq _ _).trans ?_
    -- cancel y on both sides
    apply Nat.ModEq.add_right_cancel' y
    have e1 : x + (m - y) + y = x + m := by omega
    have e2 : (a + (m - b)) * 2 ^ (W * n) + b * 2 ^ (W * n) = a * 2 ^ (W * n) + m * 2 ^ (W * n) := by
      rw [← Nat.add_mul, ← Nat.add_mul]; congr 1; omega
    have hm0 : ∀ t, t * 1 + m * t ≡ t * 1 [MOD m] := fun t => by
      simpa using (Nat.ModEq.refl (t * 1)).add (Nat.modEq_zero_iff_dvd.2 ⟨t, rfl⟩)
    have hy' := (from_mont_modEq W n m b)
    rw [← h3 hk] at hy'
    have hx' := (from_mont_modEq W n m a)
    rw [← h1 hk] at hx'
    calc x + (m - y) + y = x + m := e1
      _ ≡ x [MOD m] := by simpa using (Nat.ModEq.refl x).add (Nat.modEq_zero_iff_dvd.2 (dvd_refl m))
      _ ≡ a * 2 ^ (W * n) [MOD m] := hx'
      _ ≡ a * 2 ^ (W * n) + m * 2 ^ (W * n) [MOD m] := by
        simpa using ((Nat.ModEq.refl (a * 2 ^ (W * n))).add
          (Nat.modEq_zero_iff_dvd.2 ⟨2 ^ (W * n), rfl⟩)).symm
      _ = (a + (m - b)) * 2 ^ (W * n) + b * 2 ^ (W * n) := e2.symm
      _ ≡ (a + (m - b)) * 2 ^ (W * n) + y [MOD m] := (Nat.ModEq.refl _).add hy'.symm
  · intro hk; rw [h2 hk, h4 hk]

/-- neg: `-a mod m`, written `(m - a) mod m` -/
theorem zm_neg (k : ZmKind) (W n m a x : Nat) (H : ZmOK k W n m)
    (hx : zmFromV k W n m a = some x) :
    zmToV k W n m (zmNegV k m x) = (m - a) % m := by
  have hz : zmFromV k W n m 0 = some 0 := by
    obtain ⟨ha, _, _, _⟩ := from_some hx
    unfold zmFromV
    rw [if_pos (by omega)]
    cases k <;> simp [zmFromMontV]
  have := zm_sub k W n m 0 a 0 x H hz hx
  rw [Nat.zero_add] at this
  rw [← this]
  obtain ⟨_, hxm, _, _⟩ := from_some hx
  unfold zmNegV zmSubV
  rw [negMod_val hxm, subMod_val (by omega) hxm, Nat.zero_add]

/-- mul -/
theorem zm_mul (k : ZmKind) (W n m a b x y : Nat) (H : ZmOK k W n m)
    (hx : zmFromV k W n m a = some x) (hy : zmFromV k W n m b = some y) :
    zmToV k W n m (zmMulV k W n m x y) = (a * b) % m := by
  obtain ⟨ha, hxm, h1, h2⟩ := from_some hx
  obtain ⟨hb, hym, h3, h4⟩ := from_some hy
  by_cases hk : k = .mont
  · subst hk
    rw [h1 rfl, h3 rfl]
    exact zmMont_mul W n m _ a b (H rfl).hodd (montParam_ok (H rfl)) (H rfl).hmd ha hb
  · rw [to_nonmont hk, h2 hk, h4 hk]
    cases k <;> simp [zmMulV] at hk ⊢

/-- sqr -/
theorem zm_sqr (k : ZmKind) (W n m a x : Nat) (H : ZmOK k W n m)
    (hx : zmFromV k W n m a = some x) :
    zmToV k W n m (zmSqrV k W n m x) = (a * a) % m := by
  have := zm_mul k W n m a a x x H hx hx
  rw [← this]
  cases k <;> rfl

/-- inv / div for the plain, Crandall and Barrett kinds (zzInvMod / zzDivMod; m odd,
    gcd(a, m) = 1): `to (div (from d) (from a)) · a ≡ d (mod m)` -/
theorem zm_div_nonmont (k : ZmKind) (W n m a d x y : Nat) (hk : k ≠ .mont) (hodd : m % 2 = 1)
    (hg : Nat.gcd a m = 1) (hx : zmFromV k W n m a = some x) (hy : zmFromV k W n m d = some y) :
    (zmToV k W n m (zmDivV k W n m y x) * a) % m = d % m
      ∧ (zmToV k W n m (zmInvV k W n m x) * a) % m = 1 % m := by
  obtain ⟨ha, _, _, h2⟩ := from_some hx
  obtain ⟨hd, _, _, h4⟩ := from_some hy
  rw [to_nonmont hk, to_nonmont hk, h2 hk, h4 hk]
  have e1 : zmDivV k W n m d a = zzDivModV d a m := by cases k <;> simp [zmDivV] at hk ⊢
  have e2 : zmInvV k W n m a = zzDivModV 1 a m := by cases k <;> simp [zmInvV] at hk ⊢
  rw [e1, e2]
  refine ⟨(zzDivModV_spec d a m hodd ha hd hg).1, ?_⟩
  by_cases h1 : m = 1
  · subst h1; simp [Nat.mod_one]
  · exact (zzDivModV_spec 1 a m hodd ha (by omega) hg).1

/-- zmInvMont (m odd > 1, gcd(a, m) = 1): `to (inv (from a)) · a ≡ 1 (mod m)`; the doubling loop
    runs `2 n W - k ≥ 0` times because `k ≤ 2 bitlen m ≤ 2 n W` (zzAlmostInvModV_count) -/
theorem zm_inv_mont (W n m a x : Nat) (H : MontOK W n m) (hm1 : 1 < m)
    (hg : Nat.gcd a m = 1) (hx : zmFromV .mont W n m a = some x) :
    (zmToV .mont W n m (zmInvV .mont W n m x) * a) % m = 1 % m := by
  obtain ⟨ha, hxm, h1, _⟩ := from_some hx
  have hxR := from_mont_modEq W n m a
  rw [← h1 rfl] at hxR
  have hcop2 : Nat.Coprime (2 ^ (W * n)) m := by
    apply Nat.Coprime.pow_left
    unfold Nat.Coprime
    rw [Nat.gcd_rec, H.hodd]; rfl
  have hgx : Nat.gcd x m = 1 := by
    have : Nat.gcd x m = Nat.gcd (a * 2 ^ (W * n)) m := hxR.gcd_eq
    rw [this]
    exact Nat.Coprime.mul_left hg hcop2
  have hx0 : 0 < x := by
    rcases Nat.eq_zero_or_pos x with h | h
    · subst h; rw [Nat.gcd_zero_left] at hgx; omega
    · exact h
  obtain ⟨s1, s2, _⟩ := zzAlmostInvModV_spec x m H.hodd hx0 hxm hgx
  obtain ⟨_, _, _, c4⟩ := zzAlmostInvModV_count x m H.hodd hx0 hxm hgx
  have hlog : Nat.log2 m + 1 ≤ W * n := by
    have := (Nat.log2_lt (by omega : m ≠ 0)).2 H.hmd
    omega
  show (zmToMontV W n m (zmMontParam W m) (zmInvMontV W n m x) * a) % m = 1 % m
  unfold zmInvMontV
  simp only []
  generalize (zzAlmostInvModV x m).1 = b at *
  generalize (zzAlmostInvModV x m).2 = k at *
  rw [doubleN_val m (by omega) _ b s2]
  have hk : 2 * n * W - k + k = W * n + W * n := by
    have : 2 * n * W = W * n + W * n := by ring
    omega
  generalize hc : 2 * n * W - k = c at *
  set b' := 2 ^ c * b % m with hb'
  obtain ⟨u1, u2⟩ := zzRedMontV_spec W n m _ b' (montParam_ok H) H.hmd
    (Nat.lt_of_lt_of_le (Nat.mod_lt _ (by omega)) (Nat.le_mul_of_pos_right _ (Nat.two_pow_pos _)))
  unfold zmToMontV
  generalize zzRedMontV W n m (zmMontParam W m) b' = u at *
  apply cancel_R (k := W * n) H.hodd
  apply cancel_R (k := W * n) H.hodd
  have e1 : u * a * 2 ^ (W * n) * 2 ^ (W * n) = u * 2 ^ (W * n) * (a * 2 ^ (W * n)) := by ring
  rw [e1]
  have e2 : u * 2 ^ (W * n) * (a * 2 ^ (W * n)) ≡ b' * x [MOD m] := u2.mul hxR.symm
  have e3 : b' * x ≡ 2 ^ c * b * x [MOD m] := (Nat.mod_modEq _ _).mul_right x
  have e4 : 2 ^ c * b * x ≡ 2 ^ c * 2 ^ k [MOD m] := by
    rw [Nat.mul_assoc]
    exact (Nat.ModEq.refl (2 ^ c)).mul s1
  refine (e2.trans (e3.trans e4)).trans ?_
  rw [← Nat.pow_add, hk, Nat.pow_add, Nat.one_mul]

/-- zmDivMont = zmInvMont then zmMulMont (m odd > 1, gcd(a, m) = 1):
    `to (div (from d) (from a)) · a ≡ d (mod m)` -/
theorem zm_div_mont (W n m a d x y : Nat) (H : MontOK W n m) (hm1 : 1 < m)
    (hg : Nat.gcd a m = 1) (hx : zmFromV .mont W n m a = some x)
    (hy : zmFromV .mont W n m d = some y) :
    (zmToV .mont W n m (zmDivV .mont W n m y x) * a) % m = d % m := by
  obtain ⟨ha, hxm, h1, _⟩ := from_some hx
  obtain ⟨hd, hym, h3, _⟩ := from_some hy
  have hxR := from_mont_modEq W n m a
  rw [← h1 rfl] at hxR
  have hyR := from_mont_modEq W n m d
  rw [← h3 rfl] at hyR
  obtain ⟨i1, i2⟩ := invMont_val H hm1 hg hxm hxR
  show (zmToMontV W n m (zmMontParam W m)
    (zmMulMontV W n m (zmMontParam W m) y (zmInvMontV W n m x)) * a) % m = d % m
  generalize zmInvMontV W n m x = b' at *
  unfold zmMulMontV zmToMontV
  obtain ⟨z1, z2⟩ := zzRedMontV_spec W n m _ (y * b') (montParam_ok H) H.hmd
    (Nat.mul_lt_mul'' hym (Nat.lt_trans i1 H.hmd))
  generalize zzRedMontV W n m (zmMontParam W m) (y * b') = z at *
  obtain ⟨v1, v2⟩ := zzRedMontV_spec W n m _ z (montParam_ok H) H.hmd
    (Nat.lt_of_lt_of_le z1 (Nat.le_mul_of_pos_right _ (Nat.two_pow_pos _)))
  generalize zzRedMontV W n m (zmMontParam W m) z = v at *
  show v * a ≡ d [MOD m]
  apply cancel_R (k := W * n) H.hodd
  apply cancel_R (k := W * n) H.hodd
  apply cancel_R (k := W * n) H.hodd
  have e1 : v * a * 2 ^ (W * n) * 2 ^ (W * n) * 2 ^ (W * n)
      = v * 2 ^ (W * n) * 2 ^ (W * n) * (a * 2 ^ (W * n)) := by ring
  have e2 : d * 2 ^ (W * n) * 2 ^ (W * n) * 2 ^ (W * n)
      = d * 2 ^ (W * n) * (2 ^ (W * n) * 2 ^ (W * n)) := by ring
  rw [e1, e2]
  have c1 : v * 2 ^ (W * n) * 2 ^ (W * n) * (a * 2 ^ (W * n)) ≡ z * 2 ^ (W * n) * x [MOD m] :=
    (v2.mul_right _).mul hxR.symm
  have c2 : z * 2 ^ (W * n) * x ≡ y * b' * x [MOD m] := z2.mul_right x
  have c3 : y * b' * x ≡ d * 2 ^ (W * n) * (2 ^ (W * n) * 2 ^ (W * n)) [MOD m] := by
    rw [Nat.mul_assoc]; exact hyR.mul i2
  exact (c1.trans c2).trans c3

/-- inv and div for EVERY kind (m odd, gcd(a, m) = 1):
    `to (div (from d) (from a)) · a ≡ d` and `to (inv (from a)) · a ≡ 1 (mod m)` -/
theorem zm_div (k : ZmKind) (W n m a d x y : Nat) (H : ZmOK k W n m) (hodd : m % 2 = 1)
    (hg : Nat.gcd a m = 1) (hx : zmFromV k W n m a = some x) (hy : zmFromV k W n m d = some y) :
    (zmToV k W n m (zmDivV k W n m y x) * a) % m = d % m
      ∧ (zmToV k W n m (zmInvV k W n m x) * a) % m = 1 % m := by
  by_cases hk : k = .mont
  · subst hk
    by_cases h1 : m = 1
    · subst h1; simp [Nat.mod_one]
    · have hm1 : 1 < m := by
        obtain ⟨ha, _, _, _⟩ := from_some hx
        omega
      exact ⟨zm_div_mont W n m a d x y (H rfl) hm1 hg hx hy, zm_inv_mont W n m a x (H rfl) hm1 hg hx⟩
  · exact zm_div_nonmont k W n m a d x y hk hodd hg hx hy

example : ZmOK .mont 64 2 (2 ^ 127 - 1) ∧ zmFromV .mont 64 2 (2 ^ 127 - 1) 5 = some (5 * 2 ^ 128 % (2 ^ 127 - 1))
    ∧ zmToV .mont 64 2 (2 ^ 127 - 1) (zmMulV .mont 64 2 (2 ^ 127 - 1) 20 12) = 60 := by
  refine ⟨fun _ => ⟨by decide, by decide, by decide⟩, by decide +kernel, by decide +kernel⟩
example : zmFromV .plain 64 1 97 97 = none ∧ zmFromV .barr 64 1 97 96 = some 96 := by decide

end Bee2V.C05

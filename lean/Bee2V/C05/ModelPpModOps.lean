/-
C05 — models of
  src/math/pp/pp_mod.c : ppMulMod, ppSqrMod          (word level: ppMul / ppSqr into 2n words, ppMod)
  src/math/pp/pp_red.c : ppRed                        (= ppMod on the 2n-word array)
  src/math/pp/pp_etc.c : ppMinPolyMod                 (value level, Nat-coded GF(2)[x])
  src/math/gf2.c       : gf2IsIn, gf2From, gf2To, gf2Add3, gf2Neg2 (word level),
                         gf2Inv, gf2Div (the inversion itself at value level through
                         ModelPp's ppInvModV / ppDivModV; the word plumbing — the extra zero word
                         when m % B_PER_W == 0, `wwCopy(b, c, n)` — at word level)
as gf2Create installs them.  `n = W_OF_B(m)`, `no = O_OF_B(m)`; the modulus `md` has
n + (m % B_PER_W == 0) words.  No Mathlib (native driver).
-/
import Bee2V.C05.ModelPpMul
import Bee2V.C05.ModelPpDiv
import Bee2V.C05.ModelPp
import Bee2V.C05.ModelGf2
import Bee2V.C05.ModelGf2Ops
import Bee2V.C05.ModelBits
namespace Bee2V.C05
open Bee2V.C05.Spec

/-! ## pp_mod.c / pp_red.c -/

/-- ppMulMod(c, a, b, mod, n): `ppMul(prod, a, n, b, n); ppMod(c, prod, 2n, mod, n)` -/
def ppMulMod (w : Nat) (a b md : List Nat) : List Nat := ppMod w (ppMul w a b) md

/-- ppSqrMod(b, a, mod, n): `ppSqr(sqr, a, n); ppMod(b, sqr, 2n, mod, n)` -/
def ppSqrMod (w : Nat) (a md : List Nat) : List Nat := ppMod w (ppSqr w a) md

/-- ppRed(a, mod, n): `ppMod(a, a, 2n, mod, n)`; a has 2n words, the result the first n -/
def ppRed (w : Nat) (a md : List Nat) : List Nat := ppMod w a md

/-! ## pp_etc.c : ppMinPolyMod (value level) -/

/-- the loop `for (i = 2l − 1; i--;) { t = t·a mod mod; wwSetBit(s, i, t(0)); }` -/
def ppMinPolySeq (a md : Nat) : Nat → Nat → Nat → Nat
  | 0, _, s => s
  | i + 1, t, s =>
    let t := pmod (clmul t a) md
    ppMinPolySeq a md i t (s ||| ((t % 2) <<< i))

/-- ppMinPolyMod(b, a, mod, n): `l = deg mod`; bit 2l − 1 − i of s = constant term of a^{i+1} mod mod;
    `wwTrimHi(s, 2n, 2l)`; `ppMinPoly(b, s, l)` (ModelGf2's `ppMinPolyV`) -/
def ppMinPolyModV (a md : Nat) : Nat :=
  let l := md.log2
  let s := ppMinPolySeq a md (2 * l - 1) a ((a % 2) <<< (2 * l - 1))
  ppMinPolyV (s % 2 ^ (2 * l)) l

/-! ## gf2.c -/

/-- `O_OF_B(m)` -/
def oOfB (m : Nat) : Nat := (m + 7) / 8

/-- gf2IsIn(a, f): `gf2Deg(f) % B_PER_W == 0 || wwBitSize(a, n) <= gf2Deg(f)` -/
def gf2IsIn (w m : Nat) (a : List Nat) : Bool := m % w == 0 || ppBitSize (val w a) ≤ m

/-- gf2From(b, a, f): `wwFrom(b, a, f->no); return gf2IsIn(b, f)`; `octs` = the no octets -/
def gf2From (w m : Nat) (octs : List Nat) : List Nat × Bool :=
  let b := wwFrom w octs
  (b, gf2IsIn w m b)

/-- gf2To(b, a, f): `wwTo(b, f->no, a)` -/
def gf2To (w m : Nat) (a : List Nat) : List Nat := wwTo w (oOfB m) a

/-- gf2Add3(c, a, b, f) = f->sub: `wwXor(c, a, b, f->n)` -/
def gf2Add3 (a b : List Nat) : List Nat := List.zipWith (· ^^^ ·) a b

/-- gf2Neg2(b, a, f): `wwCopy(b, a, f->n)` -/
def gf2Neg2 (a : List Nat) : List Nat := a

/-- gf2Div(b, divident, a, f): if m % B_PER_W == 0 the operands get a zero top word and
    ppDivMod runs on n + 1 words, then `wwCopy(b, c, n)`; else ppDivMod on n words -/
def gf2Div (w m : Nat) (md divident a : List Nat) : List Nat :=
  let n := wOfB w m
  if m % w = 0 then
    let t := divident ++ [0]
    let t1 := a ++ [0]
    let c := toWords w (n + 1) (ppDivModV (val w t) (val w t1) (val w md))
    c.take n
  else toWords w n (ppDivModV (val w divident) (val w a) (val w md))

/-- gf2Inv(b, a, f): the same with ppInvMod -/
def gf2Inv (w m : Nat) (md a : List Nat) : List Nat :=
  let n := wOfB w m
  if m % w = 0 then
    let t := a ++ [0]
    let c := toWords w (n + 1) (ppInvModV (val w t) (val w md))
    c.take n
  else toWords w n (ppInvModV (val w a) (val w md))

end Bee2V.C05

/-
C05 — VALUE-LEVEL code-shaped models of
  gf2Tr, gf2QSolve          (src/math/gf2.c)
  ppMinPoly, ppIsIrred      (src/math/pp/pp_etc.c)

Polynomials over GF(2) are Nat-coded (bit i = coefficient of x^i; addition = `^^^`,
multiplication = `Spec.clmul`); elements of the ring GF(2)[x]/(f) are codes `< 2^m`, m = deg f.
Word-level steps abstracted to their values (modelled and proved elsewhere — ModelPp, ModelPpMul,
ModelPpRed and their Props):
  qrMul(c, a, b, f) / qrSqr(b, a, f)   ~  pmod (clmul a b) f / pmod (clmul a a) f   (gf2Mul*, ppRed*)
  gf2Add2(t, a, f)                     ~  t ^^^ a
  qrDiv(t, b, s, f)  (= gf2Div -> ppDivMod)  ~  ppDivModV b s f          (ModelPp, code-shaped)
  qrIsZero / qrCopy / qrSetZero        ~  = 0 / assignment
  ppDiv(q, r, bb, nb, aa, na)          ~  Spec.pdivmod bb aa
  `db[nq + nda] ^= ppAddMulW(db + nq, da, nda, q[nq])` over all words of q   ~  db ^^^ clmul q da
  ppDeg(aa, na) + 1 > l                ~  aa ≠ 0 ∧ aa.log2 + 1 > l   (ppDeg 0 = SIZE_MAX, +1 wraps to 0)
  ppGCD(d, h, n, a, n)                 ~  ppGCDV h a                    (ModelPp, code-shaped)
  ppSqrMod(h, h, a, n)                 ~  pmod (clmul h h) a
  wwFlipBit(h, 1) ~ h ^^^ 2;  wwSetW(h, n, 4) ~ 4;  wwTrimHi(aa, 2n, 2l) ~ a % 2^(2l)
Loops are structural recursions on a counter/fuel carrying exactly the C variables.

No Mathlib (imported by the native driver).
-/
import Bee2V.C05.Basic
import Bee2V.C05.Spec
import Bee2V.C05.ModelPp
namespace Bee2V.C05
open Bee2V.C05.Spec

/-! ## the ring GF(2)[x]/(f) -/

/-- qrMul in gf2: product reduced modulo f -/
def gfMul (f a b : Nat) : Nat := pmod (clmul a b) f
/-- qrSqr in gf2 -/
def gfSqr (f a : Nat) : Nat := pmod (clmul a a) f

/-! ## gf2Tr -/

/-- `while (--m) { qrSqr(t, t, f); gf2Add2(t, a, f); }` — `k` = remaining turns -/
def gf2TrLoop (f a : Nat) : Nat → Nat → Nat
  | 0, t => t
  | k + 1, t => gf2TrLoop f a k (gfSqr f t ^^^ a)

/-- the value of t at the end of gf2Tr (m = gf2Deg(f) ≥ 1): `m - 1` turns from t = a -/
def gf2TrVal (f m a : Nat) : Nat := gf2TrLoop f a (m - 1) a

/-- gf2Tr(a, f): FALSE iff t == 0 -/
def gf2TrV (f m a : Nat) : Bool := gf2TrVal f m a != 0

/-! ## gf2QSolve -/

/-- `while (--m) qrSqr(x, x, f)` -/
def gf2SqrN (f : Nat) : Nat → Nat → Nat
  | 0, x => x
  | k + 1, x => gf2SqrN f k (gfSqr f x)

/-- the half-trace loop `while (m--) { qrSqr(x, x); qrSqr(x, x); gf2Add2(x, t); }` -/
def gf2HtrLoop (f t : Nat) : Nat → Nat → Nat
  | 0, x => x
  | k + 1, x => gf2HtrLoop f t k (gfSqr f (gfSqr f x) ^^^ t)

/-- gf2QSolve(x, a, b, f): `some x` for TRUE, `none` for FALSE (m = gf2Deg(f), odd) -/
def gf2QSolveV (f m a b : Nat) : Option Nat :=
  if a = 0 then some (gf2SqrN f (m - 1) b)          -- x <- b^{2^{m-1}}
  else if b = 0 then some 0
  else
    let t := ppDivModV b (gfSqr f a) f              -- t <- b a^{-2}
    if gf2TrV f m t then none                       -- tr(t) == 1
    else
      let x := gf2HtrLoop f t ((m - 1) / 2) t       -- x <- htr(t)
      some (gfMul f x a)

/-! ## ppMinPoly -/

/-- the `while (ppDeg(aa, na) + 1 > l)` loop: Euclid on (bb, aa) with the cofactor pair (da, db);
    returns da -/
def ppMinPolyLoop (l : Nat) : Nat → Nat → Nat → Nat → Nat → Nat
  | 0, _, _, da, _ => da
  | fu + 1, aa, bb, da, db =>
    if aa ≠ 0 ∧ aa.log2 + 1 > l then
      let qr := pdivmod bb aa                       -- (q, r) <- (bb div aa, bb mod aa)
      let db := db ^^^ clmul qr.1 da                -- db <- db + q * da
      ppMinPolyLoop l fu qr.2 aa db da              -- da <-> db; bb <- aa; aa <- r
    else da

/-- ppMinPoly(b, a, l): the sequence is the low 2l bits of a -/
def ppMinPolyV (a l : Nat) : Nat :=
  ppMinPolyLoop l (2 * l + 1) (a % 2 ^ (2 * l)) (2 ^ (2 * l)) 1 0

/-! ## ppIsIrred -/

/-- the `for (i = ppDeg(a) / 2; i; --i)` loop (Ben-Or); carries i and h -/
def ppIsIrredLoop (a : Nat) : Nat → Nat → Bool
  | 0, _ => true
  | i + 1, h =>
    let h1 := h ^^^ 2                               -- wwFlipBit(h, 1)
    if h1 = 0 then false
    else if ppGCDV h1 a ≠ 1 then false
    else
      let h := h1 ^^^ 2                             -- wwFlipBit(h, 1)
      -- if (i > 1) h <- h^2 mod a
      ppIsIrredLoop a i (if i + 1 > 1 then pmod (clmul h h) a else h)

/-- ppIsIrred(a, n) -/
def ppIsIrredV (a : Nat) : Bool :=
  if a ≤ 1 then false else ppIsIrredLoop a (a.log2 / 2) 4

end Bee2V.C05

/-
C05 — zzPowerModW, qrPower, zzSqrt, zzJacobi, zmCreate / Montgomery ring = exact arithmetic
(value-level models of ModelEtc.lean; helper lemmas in LemmasEtc.lean).

Every statement is about the top-level model function (fuel included), for ALL operands.
-/
import Bee2V.C05.LemmasEtc
import Mathlib.Algebra.Group.Defs
namespace Bee2V.C05
open Bee2V.C05.Etc

/-! ## zzPowerModW -/

/-- zzPowerModW (header: mod != 0; a, b, mod are words): the sliding-window loop returns
    `a^b mod mod`; no dword product wraps (the model reduces each one `% 2^(2w)`). -/
theorem zzPowerModW_spec (w a b mod : Nat) (hm0 : mod ≠ 0) (_ha : a < 2 ^ w) (hb : b < 2 ^ w)
    (hm : mod < 2 ^ w) : zzPowerModW w a b mod = a ^ b % mod := by
  have h := zzPowerModW_red w (a % mod) b mod hm0 (Nat.mod_lt _ (by omega)) hb hm
  rw [← Nat.pow_mod] at h
  rw [← h]
  unfold zzPowerModW
  simp only [Nat.mod_mod]

example : zzPowerModW 64 (2 ^ 64 - 1) 0xF0F0F0F00F0F0F77 (2 ^ 64 - 59) = 6976378336917727278
    ∧ (2 ^ 64 - 1) ^ 0xF0F0F0F00F0F0F77 % (2 ^ 64 - 59) = 6976378336917727278 := by
  constructor
  · decide +kernel
  · rw [← zzPowerModW_spec 64 _ _ _ (by decide) (by decide) (by decide) (by decide)]
    decide +kernel
example : zzPowerModW 16 5 0 1 = 0 ∧ zzPowerModW 16 0 0 7 = 1 ∧ zzPowerModW 16 9 1 7 = 2 := by
  decide +kernel

/-! ## qrPower -/

/-- qrPower, most general form: if `pw k` is any family of ring elements with `pw 0 = unity`,
    `mul (pw i) (pw j) = pw (i + j)`, `sqr (pw i) = pw (2 i)` then `qrPower(pw 1, b) = pw b`
    for every window width `wd ≥ 1` (the C code uses 3..7). -/
theorem qrPowerG_family {α : Type} (mul : α → α → α) (sqr : α → α) (unity : α) (pw : Nat → α)
    (h0 : pw 0 = unity) (hmul : ∀ i j, mul (pw i) (pw j) = pw (i + j))
    (hsqr : ∀ i, sqr (pw i) = pw (2 * i)) (b wd : Nat) (hwd : 1 ≤ wd) :
    qrPowerG mul sqr unity (pw 1) b wd = pw b :=
  qrPowerG_gen mul sqr pw hmul hsqr unity h0 b wd hwd

/-- qrPower in any monoid (mul = `*`, sqr x = x * x, unity = 1): `a^b`, every window width. -/
theorem qrPowerG_monoid {α : Type} [Monoid α] (a : α) (b wd : Nat) (hwd : 1 ≤ wd) :
    qrPowerG (· * ·) (fun x => x * x) 1 a b wd = a ^ b := by
  have := qrPowerG_family (α := α) (· * ·) (fun x => x * x) 1 (fun k => a ^ k) (pow_zero a)
    (fun i j => (pow_add a i j).symm) (fun i => by rw [← pow_add, two_mul]) b wd hwd
  simpa using this

/-- qrPower as the C code runs it (window from qrCalcSlideWidth, which is always in 3..7). -/
theorem qrPowerV_monoid {α : Type} [Monoid α] (w : Nat) (a : α) (b m : Nat) :
    qrPowerV (· * ·) (fun x => x * x) 1 w a b m = a ^ b := by
  unfold qrPowerV
  apply qrPowerG_monoid
  unfold qrCalcSlideWidth
  simp only []
  split_ifs <;> omega

/-- qrCalcSlideWidth returns 3..7, so the table has 4..64 entries -/
theorem qrCalcSlideWidth_range (w m : Nat) :
    3 ≤ qrCalcSlideWidth w m ∧ qrCalcSlideWidth w m ≤ 7 := by
  unfold qrCalcSlideWidth
  simp only []
  split_ifs <;> omega

/-- qrPower in Z/(m) with plain reduction (mul u v = u v mod m), the instance run by the
    driver: `a^b mod m` for a < m. -/
theorem qrPowerG_zm (m a b wd : Nat) (ha : a < m) (hwd : 1 ≤ wd) :
    qrPowerG (fun u v => u * v % m) (fun u => u * u % m) (1 % m) a b wd = a ^ b % m := by
  have := qrPowerG_family (fun u v => u * v % m) (fun u => u * u % m) (1 % m)
    (fun k => a ^ k % m) (by simp) (fun i j => by rw [← Nat.mul_mod, ← Nat.pow_add])
    (fun i => by rw [← Nat.mul_mod, ← Nat.pow_add, Nat.two_mul]) b wd hwd
  simp only [Nat.pow_one, Nat.mod_eq_of_lt ha] at this
  exact this

example : qrPowerG (fun u v => u * v % 1000003) (fun u => u * u % 1000003) 1 2 (2 ^ 70 + 12345) 5
    = 8841 := by decide +kernel
example : qrCalcSlideWidth 64 1 = 3 ∧ qrCalcSlideWidth 64 2 = 4 ∧ qrCalcSlideWidth 64 4 = 5
    ∧ qrCalcSlideWidth 64 11 = 6 ∧ qrCalcSlideWidth 64 28 = 7 := by decide
example : (qrPowerG (· * ·) (fun x => x * x) 1 (3 : Nat) 77 4) = 3 ^ 77 := by decide +kernel

/-! ## zzSqrt -/

/-- zzSqrt (a of n words, any word size w > 0): the Newton iteration as written — including the
    early `return FALSE` on a non-zero extra quotient word and the shrinking word count m —
    stores `b = ⌊√a⌋` and returns TRUE exactly for perfect squares. -/
theorem zzSqrtV_spec (w n a : Nat) (hw : 0 < w) (ha : a < 2 ^ (w * n)) :
    (zzSqrtV w n a).1 = Nat.sqrt a
      ∧ ((zzSqrtV w n a).2 = true ↔ Nat.sqrt a * Nat.sqrt a = a) :=
  zzSqrtV_spec' w n a hw ha

/-- the same without `Nat.sqrt`: `b^2 ≤ a < (b+1)^2`, and the flag says `b^2 = a` -/
theorem zzSqrtV_floor (w n a : Nat) (hw : 0 < w) (ha : a < 2 ^ (w * n)) :
    (zzSqrtV w n a).1 * (zzSqrtV w n a).1 ≤ a
      ∧ a < ((zzSqrtV w n a).1 + 1) * ((zzSqrtV w n a).1 + 1)
      ∧ ((zzSqrtV w n a).2 = true ↔ (zzSqrtV w n a).1 * (zzSqrtV w n a).1 = a) := by
  obtain ⟨h1, h2⟩ := zzSqrtV_spec w n a hw ha
  rw [h1]
  exact ⟨Nat.sqrt_le a, Nat.lt_succ_sqrt a, h2⟩

example : zzSqrtV 64 4 ((2 ^ 128 - 1) * (2 ^ 128 - 1)) = (2 ^ 128 - 1, true)
    ∧ zzSqrtV 64 4 ((2 ^ 128 - 1) * (2 ^ 128 - 1) - 1) = (2 ^ 128 - 2, false)
    ∧ zzSqrtV 64 4 (2 ^ 256 - 1) = (2 ^ 128 - 1, false)
    ∧ zzSqrtV 64 3 0 = (0, true) ∧ zzSqrtV 16 1 1 = (1, true) := by decide +kernel

/-! ## zzJacobi -/

open scoped NumberTheorySymbols in
/-- zzJacobi (header: b odd; any a, in particular a ≥ b and a shorter than b): the loop as
    written returns the Jacobi symbol `(a / b)` of Mathlib (`jacobiSym`, defined through the
    Legendre symbols of the prime factors of b — the definition quoted in zz.h). -/
theorem zzJacobiV_spec (a b : Nat) (hb : b % 2 = 1) : zzJacobiV a b = J((a : ℤ) | b) :=
  zzJacobiV_spec' a b hb

example : zzJacobiV 1001 9907 = -1 ∧ zzJacobiV (2 ^ 127 + 12345) (2 ^ 89 - 1) = 1
    ∧ zzJacobiV 21 (3 * (2 ^ 64 + 13)) = 0 ∧ zzJacobiV 5 1 = 1 ∧ zzJacobiV 0 1 = 1
    ∧ zzJacobiV 0 9 = 0 ∧ zzJacobiV (2 ^ 200 + 1) 3 = -1 := by decide +kernel

/-! ## Montgomery ring of zmCreateMont: zzRedMont, zmFromMont / zmToMont / zmMulMont -/

/-- zzRedMont (header: mod odd, mod[n-1] != 0, a < mod * R, mont_param = wordNegInv(mod[0]) —
    used only through the C ASSERT `(word)(mod[0] * mont_param + 1) == 0`): the Dussé–Kaliski
    loop plus the masked final subtraction returns a value `< mod` with
    `result * R ≡ a (mod mod)`, R = B^n — i.e. `a * R^{-1} mod mod`. -/
theorem zzRedMontV_spec (w n md mp a : Nat) (hmp : (md % 2 ^ w * mp + 1) % 2 ^ w = 0)
    (hmd : md < 2 ^ (w * n)) (ha : a < md * 2 ^ (w * n)) :
    zzRedMontV w n md mp a < md ∧ zzRedMontV w n md mp a * 2 ^ (w * n) ≡ a [MOD md] :=
  zzRedMontV_spec' w n md mp a hmp hmd ha

/-- round trip of the Montgomery representation: `to (from a) = a` for a < mod, mod odd -/
theorem zmMont_roundtrip (w n md mp a : Nat) (hodd : md % 2 = 1)
    (hmp : (md % 2 ^ w * mp + 1) % 2 ^ w = 0) (hmd : md < 2 ^ (w * n)) (ha : a < md) :
    zmToMontV w n md mp (zmFromMontV w n md a) = a := by
  unfold zmToMontV zmFromMontV
  have hlt : a * 2 ^ (w * n) % md < md := Nat.mod_lt _ (by omega)
  obtain ⟨h1, h2⟩ := zzRedMontV_spec w n md mp _ hmp hmd
    (Nat.lt_of_lt_of_le hlt (Nat.le_mul_of_pos_right _ (Nat.two_pow_pos _)))
  exact eq_of_modEq_lt (cancel_R hodd (h2.trans (Nat.mod_modEq _ _))) h1 ha

/-- multiplication in the Montgomery representation is multiplication in Z/(mod):
    `to (mulMont (from a) (from b)) = a * b mod mod` -/
theorem zmMont_mul (w n md mp a b : Nat) (hodd : md % 2 = 1)
    (hmp : (md % 2 ^ w * mp + 1) % 2 ^ w = 0) (hmd : md < 2 ^ (w * n)) (_ha : a < md)
    (_hb : b < md) :
    zmToMontV w n md mp (zmMulMontV w n md mp (zmFromMontV w n md a) (zmFromMontV w n md b))
      = a * b % md := by
  unfold zmToMontV zmMulMontV zmFromMontV
  have hm0 : 0 < md := by omega
  have hx : a * 2 ^ (w * n) % md < md := Nat.mod_lt _ hm0
  have hy : b * 2 ^ (w * n) % md < md := Nat.mod_lt _ hm0
  obtain ⟨h1, h2⟩ := zzRedMontV_spec w n md mp
    (a * 2 ^ (w * n) % md * (b * 2 ^ (w * n) % md)) hmp hmd
    (Nat.mul_lt_mul'' hx (Nat.lt_trans hy hmd))
  generalize zzRedMontV w n md mp (a * 2 ^ (w * n) % md * (b * 2 ^ (w * n) % md)) = z at *
  obtain ⟨h3, h4⟩ := zzRedMontV_spec w n md mp z hmp hmd
    (Nat.lt_of_lt_of_le h1 (Nat.le_mul_of_pos_right _ (Nat.two_pow_pos _)))
  generalize zzRedMontV w n md mp z = u at *
  apply eq_of_modEq_lt _ h3 (Nat.mod_lt _ hm0)
  apply cancel_R (k := w * n) hodd
  apply cancel_R (k := w * n) hodd
  have e1 : u * 2 ^ (w * n) * 2 ^ (w * n) ≡ z * 2 ^ (w * n) [MOD md] := h4.mul_right _
  have e2 : a * 2 ^ (w * n) % md * (b * 2 ^ (w * n) % md) ≡ a * 2 ^ (w * n) * (b * 2 ^ (w * n)) [MOD md] :=
    (Nat.mod_modEq _ _).mul (Nat.mod_modEq _ _)
  have e3 : a * b % md * 2 ^ (w * n) * 2 ^ (w * n) ≡ a * b * 2 ^ (w * n) * 2 ^ (w * n) [MOD md] :=
    ((Nat.mod_modEq _ _).mul_right _).mul_right _
  refine (e1.trans (h2.trans e2)).trans (Nat.ModEq.trans ?_ e3.symm)
  rw [show a * 2 ^ (w * n) * (b * 2 ^ (w * n)) = a * b * 2 ^ (w * n) * 2 ^ (w * n) by ring]

/-- the `unity` prepared by zmCreateMont represents 1 -/
theorem zmMont_unity (w n md mp : Nat) (hodd : md % 2 = 1)
    (hmp : (md % 2 ^ w * mp + 1) % 2 ^ w = 0) (hmd : md < 2 ^ (w * n)) :
    zmToMontV w n md mp (zmUnityMontV w n md) = 1 % md := by
  unfold zmToMontV zmUnityMontV
  have hm0 : 0 < md := by omega
  have hu : (2 ^ (w * n) - md) % 2 ^ (w * n) % md < md := Nat.mod_lt _ hm0
  obtain ⟨h1, h2⟩ := zzRedMontV_spec w n md mp _ hmp hmd
    (Nat.lt_of_lt_of_le hu (Nat.le_mul_of_pos_right _ (Nat.two_pow_pos _)))
  apply eq_of_modEq_lt _ h1 (Nat.mod_lt _ hm0)
  apply cancel_R (k := w * n) hodd
  refine h2.trans ((Nat.mod_modEq _ _).trans ?_)
  rw [Nat.mod_eq_of_lt (by omega)]
  have e : 1 % md * 2 ^ (w * n) ≡ 1 * 2 ^ (w * n) [MOD md] := (Nat.mod_modEq _ _).mul_right _
  refine Nat.ModEq.trans ?_ e.symm
  rw [Nat.one_mul]
  have : 2 ^ (w * n) - md + md ≡ 2 ^ (w * n) - md [MOD md] := by
    simpa using (Nat.ModEq.refl (2 ^ (w * n) - md)).add (Nat.modEq_zero_iff_dvd.2 (dvd_refl md))
  rw [Nat.sub_add_cancel (by omega)] at this
  exact this.symm

/-- u16/u32/u64NegInv (wordNegInv): for odd mod[0] the result satisfies the ASSERT of zzRedMont,
    `(word)(mod[0] * mont_param + 1) == 0` — the hypothesis `hmp` of the theorems above. -/
theorem wordNegInvV_spec (w m0 : Nat) (hw : w = 16 ∨ w = 32 ∨ w = 64) (hm0 : m0 < 2 ^ w)
    (hodd : m0 % 2 = 1) : (m0 % 2 ^ w * wordNegInvV w m0 + 1) % 2 ^ w = 0 := by
  rw [Nat.mod_eq_of_lt hm0]
  exact wordNegInvV_spec' w m0 hw hodd

example : wordNegInvV 32 3 = 0x55555555
    ∧ (0xFFFFFFFFFFFFFF43 * wordNegInvV 64 0xFFFFFFFFFFFFFF43 + 1) % 2 ^ 64 = 0
    ∧ (0xFF43 * wordNegInvV 16 0xFF43 + 1) % 2 ^ 16 = 0 := by decide +kernel

example : let md := 2 ^ 127 - 1; let mp := wordNegInvV 64 (md % 2 ^ 64)
    (md % 2 ^ 64 * mp + 1) % 2 ^ 64 = 0 ∧ md % 2 = 1 ∧ md < 2 ^ (64 * 2)
    ∧ zmToMontV 64 2 md mp (zmMulMontV 64 2 md mp (zmFromMontV 64 2 md 12345678901234567890123)
        (zmFromMontV 64 2 md (md - 2))) = 12345678901234567890123 * (md - 2) % md := by
  decide +kernel

/-! ## zmCreate: every branch meets the precondition of the reduction it selects

zmCreate's own precondition `no > 0 && mod[no - 1] > 0` is literally the first precondition of
zmCreatePlain / Crand / Barr / Mont, so it passes through unchanged (nothing to prove); the
branch-specific preconditions are below.  `mod` = the octets (little-endian, `Wf 8`),
O_PER_W = w / 8. -/

/-- Montgomery branch ⇒ the modulus is odd (precondition of zmCreateMont / zzRedMont) -/
theorem zmKind_mont_odd (w : Nat) (mod : List Nat) (h : zmKind w mod = .mont) :
    val 8 mod % 2 = 1 := by
  unfold zmKind at h
  simp only [] at h
  split_ifs at h with h1 h2 h3
  cases mod with
  | nil => simp at h3
  | cons x xs =>
    simp only [List.headD_cons] at h3
    simp only [val_cons]
    omega

/-- Crandall branch ⇒ `no = n * O_PER_W` with `n ≥ 2` (in fact ≥ 3) words and
    `mod = B^n - c` with `0 < c < B` (precondition of zmCreateCrand / zzRedCrand) -/
theorem zmKind_crand_shape (w : Nat) (mod : List Nat) (hwf : Wf 8 mod)
    (h : zmKind w mod = .crand) :
    ∃ n c, mod.length = n * (w / 8) ∧ 2 ≤ n ∧ 0 < c ∧ c < 2 ^ (8 * (w / 8))
      ∧ val 8 mod + c = (2 ^ (8 * (w / 8))) ^ n := by
  unfold zmKind at h
  simp only [] at h
  generalize w / 8 = opw at *
  split_ifs at h with h1 h2
  obtain ⟨d1, d2, d3, d4⟩ := h2
  obtain ⟨n, hn⟩ := Nat.dvd_of_mod_eq_zero d1
  have hsplit : mod = mod.take opw ++ mod.drop opw := (List.take_append_drop opw mod).symm
  have hlt : (mod.take opw).length = opw := by rw [List.length_take]; omega
  have hld : (mod.drop opw).length = (n - 1) * opw := by
    rw [List.length_drop, hn, Nat.sub_mul, Nat.one_mul, Nat.mul_comm]
  have hv := oval_append (mod.take opw) (mod.drop opw)
  rw [← hsplit, hlt] at hv
  have hFF := oval_allFF _ d4
  rw [hld] at hFF
  have hlo : val 8 (mod.take opw) < 2 ^ (8 * opw) := by
    have := oval_lt (mod.take opw) (fun x hx => hwf x (List.mem_of_mem_take hx))
    rwa [hlt] at this
  have hpos := oval_pos (mod.take opw) (by simpa using d3)
  have hn3 : 3 ≤ n := by
    by_contra hc
    have : n ≤ 2 := by omega
    have : opw * n ≤ opw * 2 := Nat.mul_le_mul_left _ this
    omega
  refine ⟨n, 2 ^ (8 * opw) - val 8 (mod.take opw), by rw [hn, Nat.mul_comm], by omega, by omega,
    by omega, ?_⟩
  have e : (2 ^ (8 * opw)) ^ n = 2 ^ (8 * opw) * 2 ^ (8 * ((n - 1) * opw)) := by
    rw [← Nat.pow_mul, ← Nat.pow_add]
    congr 1
    obtain ⟨k, rfl⟩ : ∃ k, n = k + 1 := ⟨n - 1, by omega⟩
    simp only [Nat.add_sub_cancel]; ring
  rw [e, hv]
  generalize 2 ^ (8 * ((n - 1) * opw)) = P at *
  generalize val 8 (List.drop opw mod) = D at *
  have : P = D + 1 := hFF.symm
  subst this
  have : 2 ^ (8 * opw) * (D + 1) = 2 ^ (8 * opw) * D + 2 ^ (8 * opw) := by ring
  omega

/-- Barrett branch ⇒ at least 4 words and an even modulus of more than 2 words -/
theorem zmKind_barr_len (w : Nat) (mod : List Nat) (h : zmKind w mod = .barr) :
    4 * (w / 8) ≤ mod.length := by
  unfold zmKind at h
  simp only [] at h
  split_ifs at h with h1 h2 h3 h4
  exact h4

example : zmKind 64 (List.replicate 8 0x43 ++ List.replicate 24 0xFF) = .crand
    ∧ zmKind 64 (0x43 :: List.replicate 31 0xFE) = .mont
    ∧ zmKind 64 (0x42 :: List.replicate 31 0xFE) = .barr
    ∧ zmKind 64 (0x42 :: List.replicate 23 0xFE) = .plain
    ∧ zmKind 64 (List.replicate 16 0xFF) = .plain
    ∧ zmKind 64 (List.replicate 8 0 ++ List.replicate 24 0xFF) = .barr := by decide

end Bee2V.C05

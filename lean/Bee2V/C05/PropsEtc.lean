/-
C05 — zzPowerModW, qrPower, zzSqrt, zzJacobi, zmCreate / Montgomery ring = exact arithmetic
(value-level models of ModelEtc.lean; helper lemmas in LemmasEtc.lean).

Every statement is about the top-level model function (fuel included), for ALL operands.
-/
import Bee2V.C05.LemmasEtc
import Mathlib.Algebra.Group.Defs
namespace Bee2V.C05
open Bee2V.C05.Etc

/-! ## zzPowerModW -/

/-- zzPowerModW (header: mod != 0; a, b, mod are words): the sliding-window loop returns
    `a^b mod mod`; no dword product wraps (the model reduces each one `% 2^(2w)`). -/
theorem zzPowerModW_spec (w a b mod : Nat) (hm0 : mod ≠ 0) (_ha : a < 2 ^ w) (hb : b < 2 ^ w)
    (hm : mod < 2 ^ w) : zzPowerModW w a b mod = a ^ b % mod := by
  have h := zzPowerModW_red w (a % mod) b mod hm0 (Nat.mod_lt _ (by omega)) hb hm
  rw [← Nat.pow_mod] at h
  rw [← h]
  unfold zzPowerModW
  simp only [Nat.mod_mod]

example : zzPowerModW 64 (2 ^ 64 - 1) 0xF0F0F0F00F0F0F77 (2 ^ 64 - 59) = 6976378336917727278
    ∧ (2 ^ 64 - 1) ^ 0xF0F0F0F00F0F0F77 % (2 ^ 64 - 59) = 6976378336917727278 := by
  constructor
  · decide +kernel
  · rw [← zzPowerModW_spec 64 _ _ _ (by decide) (by decide) (by decide) (by decide)]
    decide +kernel
example : zzPowerModW 16 5 0 1 = 0 ∧ zzPowerModW 16 0 0 7 = 1 ∧ zzPowerModW 16 9 1 7 = 2 := by
  decide +kernel

/-! ## qrPower -/

/-- qrPower, most general form: if `pw k` is any family of ring elements with `pw 0 = unity`,
    `mul (pw i) (pw j) = pw (i + j)`, `sqr (pw i) = pw (2 i)` then `qrPower(pw 1, b) = pw b`
    for every window width `wd ≥ 1` (the C code uses 3..7). -/
theorem qrPowerG_family {α : Type} (mul : α → α → α) (sqr : α → α) (unity : α) (pw : Nat → α)
    (h0 : pw 0 = unity) (hmul : ∀ i j, mul (pw i) (pw j) = pw (i + j))
    (hsqr : ∀ i, sqr (pw i) = pw (2 * i)) (b wd : Nat) (hwd : 1 ≤ wd) :
    qrPowerG mul sqr unity (pw 1) b wd = pw b :=
  qrPowerG_gen mul sqr pw hmul hsqr unity h0 b wd hwd

/-- qrPower in any monoid (mul = `*`, sqr x = x * x, unity = 1): `a^b`, every window width. -/
theorem qrPowerG_monoid {α : Type} [Monoid α] (a : α) (b wd : Nat) (hwd : 1 ≤ wd) :
    qrPowerG (· * ·) (fun x => x * x) 1 a b wd = a ^ b := by
  have := qrPowerG_family (α := α) (· * ·) (fun x => x * x) 1 (fun k => a ^ k) (pow_zero a)
    (fun i j => (pow_add a i j).symm) (fun i => by rw [← pow_add, two_mul]) b wd hwd
  simpa using this

/-- qrPower as the C code runs it (window from qrCalcSlideWidth, which is always in 3..7). -/
theorem qrPowerV_monoid {α : Type} [Monoid α] (w : Nat) (a : α) (b m : Nat) :
    qrPowerV (· * ·) (fun x => x * x) 1 w a b m = a ^ b := by
  unfold qrPowerV
  apply qrPowerG_monoid
  unfold qrCalcSlideWidth
  simp only []
  split_ifs <;> omega

/-- qrCalcSlideWidth returns 3..7, so the table has 4..64 entries -/
theorem qrCalcSlideWidth_range (w m : Nat) :
    3 ≤ qrCalcSlideWidth w m ∧ qrCalcSlideWidth w m ≤ 7 := by
  unfold qrCalcSlideWidth
  simp only []
  split_ifs <;> omega

/-- qrPower in Z/(m) with plain reduction (mul u v = u v mod m), the instance run by the
    driver: `a^b mod m` for a < m. -/
theorem qrPowerG_zm (m a b wd : Nat) (ha : a < m) (hwd : 1 ≤ wd) :
    qrPowerG (fun u v => u * v % m) (fun u => u * u % m) (1 % m) a b wd = a ^ b % m := by
  have := qrPowerG_family (fun u v => u * v % m) (fun u => u * u % m) (1 % m)
    (fun k => a ^ k % m) (by simp) (fun i j => by rw [← Nat.mul_mod, ← Nat.pow_add])
    (fun i => by rw [← Nat.mul_mod, ← Nat.pow_add, Nat.two_mul]) b wd hwd
  simp only [Nat.pow_one, Nat.mod_eq_of_lt ha] at this
  exact this

example : qrPowerG (fun u v => u * v % 1000003) (fun u => u * u % 1000003) 1 2 (2 ^ 70 + 12345) 5
    = 8841 := by decide +kernel
example : qrCalcSlideWidth 64 1 = 3 ∧ qrCalcSlideWidth 64 2 = 4 ∧ qrCalcSlideWidth 64 4 = 5
    ∧ qrCalcSlideWidth 64 11 = 6 ∧ qrCalcSlideWidth 64 28 = 7 := by decide
example : (qrPowerG (· * ·) (fun x => x * x) 1 (3 : Nat) 77 4) = 3 ^ 77 := by decide +kernel

/-! ## zzSqrt -/

/-- zzSqrt (a of n words, any word size w > 0): the Newton iteration as written — including the
    early `return FALSE` on a non-zero extra quotient word and the shrinking word count m —
    stores `b = ⌊√a⌋` and returns TRUE exactly for perfect squares. -/
theorem zzSqrtV_spec (w n a : Nat) (hw : 0 < w) (ha : a < 2 ^ (w * n)) :
    (zzSqrtV w n a).1 = Nat.sqrt a
      ∧ ((zzSqrtV w n a).2 = true ↔ Nat.sqrt a * Nat.sqrt a = a) :=
  zzSqrtV_spec' w n a hw ha

/-- the same without `Nat.sqrt`: `b^2 ≤ a < (b+1)^2`, and the flag says `b^2 = a` -/
theorem zzSqrtV_floor (w n a : Nat) (hw : 0 < w) (ha : a < 2 ^ (w * n)) :
    (zzSqrtV w n a).1 * (zzSqrtV w n a).1 ≤ a
      ∧ a < ((zzSqrtV w n a).1 + 1) * ((zzSqrtV w n a).1 + 1)
      ∧ ((zzSqrtV w n a).2 = true ↔ (zzSqrtV w n a).1 * (zzSqrtV w n a).1 = a) := by
  obtain ⟨h1, h2⟩ := zzSqrtV_spec w n a hw ha
  rw [h1]
  exact ⟨Nat.sqrt_le a, Nat.lt_succ_sqrt a, h2⟩

example : zzSqrtV 64 4 ((2 ^ 128 - 1) * (2 ^ 128 - 1)) = (2 ^ 128 - 1, true)
    ∧ zzSqrtV 64 4 ((2 ^ 128 - 1) * (2 ^ 128 - 1) - 1) = (2 ^ 128 - 2, false)
    ∧ zzSqrtV 64 4 (2 ^ 256 - 1) = (2 ^ 128 - 1, false)
    ∧ zzSqrtV 64 3 0 = (0, true) ∧ zzSqrtV 16 1 1 = (1, true) := by decide +kernel

end Bee2V.C05

/-
C05 — WORD-LEVEL code-shaped model of ppDiv / ppMod (src/math/pp/pp_mul.c, current source).

Words are `Nat`s below `2^w`, polynomials little-endian `List Nat` (ModelPpMul conventions).
Literal: the `deg a < deg b` shortcut, the `b == 1` shortcut, the normalisation (`shift`; when
`shift == 0` the top word of the divisor — the word 1 — becomes the implicit bit and m is
decremented), the tables `_DIV_PRE_S4` (w1: trial quotients of a 4-bit window by (1, a)) and
`_MUL_PRE_S4` (w2: multiples 0..15 of the top divisor word, truncated to a word), the nibble loop
`_DIV_DIV_S4` (generic in w: w / 4 steps), the digit loop
  `dividentHi = divident[i]; _DIV_DIV_S4(…, q[i − m], …); divident[i] ^= ppAddMulW(divident + i − m,
   divisor, m, q[i − m]); divident[i] ^= q[i − m];`
and the denormalisation.  The multi-word shifts wwShHi / wwShLo are replaced by the values they
compute (`toWords … (val … * 2^shift)`, `… / 2^shift`), wwBitSize by `ppBitSize (val …)`.
ppAddMulW is ModelPpMul's.  No Mathlib.
-/
import Bee2V.C05.ModelPpMul
import Bee2V.C05.ModelPpRed
namespace Bee2V.C05

/-- wwBitSize of a number -/
def ppBitSize (x : Nat) : Nat := if x = 0 then 0 else x.log2 + 1

/-- `_DIV_PRE_S4(w1, a)` -/
def divPreS4 (w a : Nat) : List Nat :=
  let t2 := [0, 1]
  let t4 := t2 ++ (List.range 2).map (fun j => 2 ^^^ t2.getD (j ^^^ wshr a (w - 1)) 0)
  let t8 := t4 ++ (List.range 4).map (fun j => 4 ^^^ t4.getD (j ^^^ wshr a (w - 2)) 0)
  t8 ++ (List.range 8).map (fun j => 8 ^^^ t8.getD (j ^^^ wshr a (w - 3)) 0)

/-- `_MUL_PRE_S4(t, a)`: `t[2j] = t[j] << 1`, `t[2j+1] = t[2j] ^ a` (word arithmetic) -/
def mulPreS4 (w a : Nat) : List Nat :=
  let t0 := 0
  let t1 := a
  let t2 := wshl w t1 1
  let t3 := t2 ^^^ a
  let t4 := wshl w t2 1
  let t5 := t4 ^^^ a
  let t6 := wshl w t3 1
  let t7 := t6 ^^^ a
  let t8 := wshl w t4 1
  let t9 := t8 ^^^ a
  let t10 := wshl w t5 1
  let t11 := t10 ^^^ a
  let t12 := wshl w t6 1
  let t13 := t12 ^^^ a
  let t14 := wshl w t7 1
  let t15 := t14 ^^^ a
  [t0, t1, t2, t3, t4, t5, t6, t7, t8, t9, t10, t11, t12, t13, t14, t15]

/-- steps s = cur, cur + 1, … of `_DIV_DIV_S4`:
    `hi ^= w2[q & 15] >> 4s; q = q << 4 ^ w1[hi >> (w − 4(s+1)) & 15]` -/
def divDivS4Loop (w : Nat) (w1 w2 : List Nat) : Nat → Nat → Nat → Nat → Nat
  | 0, _, _, q => q
  | cnt + 1, s, hi, q =>
    let hi := hi ^^^ wshr (w2.getD (q &&& 15) 0) (4 * s)
    let q := wshl w q 4 ^^^ w1.getD (wshr hi (w - 4 * (s + 1)) &&& 15) 0
    divDivS4Loop w w1 w2 cnt (s + 1) hi q

/-- `_DIV_DIV_S4(hi, q, w1, w2)`: the quotient word of (hi, ·) by (1, a) -/
def divDivS4 (w : Nat) (w1 w2 : List Nat) (hi : Nat) : Nat :=
  divDivS4Loop w w1 w2 (w / 4 - 1) 1 hi (w1.getD (wshr hi (w - 4)) 0)

/-- the digit loop: iterations i = m + k for k = cnt − 1, …, 0; returns (divident, q[0 .. cnt)) -/
def ppDivLoop (w : Nat) (divisor w1 w2 : List Nat) : Nat → List Nat → List Nat × List Nat
  | 0, d => (d, [])
  | k + 1, d =>
    let m := divisor.length
    let i := m + k
    let q := divDivS4 w w1 w2 (d.getD i 0)
    -- divident[i] ^= ppAddMulW(divident + i - m, divisor, m, q)
    let r := ppAddMulW w ((d.drop k).take m) divisor q
    let d := d.take k ++ r.1 ++ d.drop (k + m)
    let d := xorAt d i r.2
    -- неявный старший разряд divisor
    let d := xorAt d i q
    let rest := ppDivLoop w divisor w1 w2 k d
    (rest.1, rest.2 ++ [q])

/-- the common part of ppDiv / ppMod after the shortcuts; `extra` = 1 for ppMod's loop
    `for (i = n; …)` in the `shift == 0` case (one more, idle, iteration), else 0 -/
def ppDivCore (w : Nat) (a b : List Nat) (extra : Nat) : List Nat × List Nat :=
  let n := a.length
  let m := b.length
  let divident := a ++ [0]
  let shift := (ppBitSize (b.getD (m - 1) 0) - 1) % w
  if shift = 0 then
    -- q[n - m] = 0, r[--m] = 0: the top word of b (= 1) is the implicit bit
    let divisor := b.take (m - 1)
    let top := divisor.getD (m - 2) 0
    let res := ppDivLoop w divisor (divPreS4 w top) (mulPreS4 w top) (n - m + 1 + extra) divident
    (res.2.take (n - m + 1), res.1.take (m - 1) ++ [0])
  else
    let sh := w - shift
    let divident := toWords w (n + 1) (val w divident * 2 ^ sh)
    let divisor := toWords w m (val w b * 2 ^ sh)
    let top := divisor.getD (m - 1) 0
    let res := ppDivLoop w divisor (divPreS4 w top) (mulPreS4 w top) (n - m + 1) divident
    let d := toWords w (n + 1) (val w res.1 / 2 ^ sh)
    (res.2, d.take m)

/-- ppDiv(q, r, a, n, b, m): (q of n − m + 1 words, r of m words); n ≥ m > 0, b[m − 1] ≠ 0 -/
def ppDiv (w : Nat) (a b : List Nat) : List Nat × List Nat :=
  let n := a.length
  let m := b.length
  if ppBitSize (val w a) < ppBitSize (val w b) then (List.replicate (n - m + 1) 0, a.take m)
  else if m = 1 ∧ b.getD 0 0 = 1 then (a, [0])
  else ppDivCore w a b 0

/-- ppMod(r, a, n, b, m): r of m words (n < m allowed) -/
def ppMod (w : Nat) (a b : List Nat) : List Nat :=
  let n := a.length
  let m := b.length
  if ppBitSize (val w a) < ppBitSize (val w b) then
    (if n < m then a ++ List.replicate (m - n) 0 else a.take m)
  else if m = 1 ∧ b.getD 0 0 = 1 then [0]
  else (ppDivCore w a b 1).2

end Bee2V.C05

/-
C05 — the binary gcd family of zz_gcd.c = exact arithmetic (value-level models of
ModelGcd.lean; helper lemmas in LemmasGcd.lean).

Every theorem is about the top-level model function (fuel included), for ALL operand sizes.
-/
import Bee2V.C05.LemmasGcd
namespace Bee2V.C05
open Bee2V.C05.Add Bee2V.C05.Gcd

/-! ## zzDivMod -/

/-- zzDivMod, coprime case: `b * a ≡ divident (mod mod)` and `b < mod`
    (header: mod odd, a < mod, divident < mod). -/
theorem zzDivModV_spec (d a m : Nat) (hm : m % 2 = 1) (ha : a < m) (hd : d < m)
    (hg : Nat.gcd a m = 1) :
    (zzDivModV d a m * a) % m = d % m ∧ zzDivModV d a m < m := by
  unfold zzDivModV
  by_cases ha0 : a = 0
  · subst ha0
    rw [Nat.gcd_zero_left] at hg
    subst hg
    simp [Nat.mod_one]
  · rw [if_neg ha0]
    obtain ⟨h1, h2, h3⟩ := zzDivModLoop_spec d a m hm (a + m + 1) a m d 0 (by omega) (Or.inr hm) rfl
      hd (by omega) ⟨0, by ring⟩ ⟨d, by push_cast; ring⟩ (by omega)
    simp only []
    rw [h1, hg] at h3
    rw [h1, hg, if_neg (by simp)]
    refine ⟨?_, h2⟩
    have : d ≡ (zzDivModLoop m (a + m + 1) a m d 0).2 * a [MOD m] := by
      rw [Nat.modEq_iff_dvd]
      push_cast
      simpa using h3
    exact this.symm

/-- zzDivMod returns 0 when `a` is not invertible (this includes a = 0 for mod ≠ 1). -/
theorem zzDivModV_not_coprime (d a m : Nat) (hm : m % 2 = 1) (_ha : a < m) (hd : d < m)
    (hg : Nat.gcd a m ≠ 1) : zzDivModV d a m = 0 := by
  unfold zzDivModV
  by_cases ha0 : a = 0
  · rw [if_pos ha0]
  · rw [if_neg ha0]
    obtain ⟨h1, _, _⟩ := zzDivModLoop_spec d a m hm (a + m + 1) a m d 0 (by omega) (Or.inr hm) rfl
      hd (by omega) ⟨0, by ring⟩ ⟨d, by push_cast; ring⟩ (by omega)
    simp only []
    rw [h1, if_pos hg]

example : zzDivModV 12345 (10 ^ 19 + 7) (2 ^ 65 + 1) = 27931233920515280163
    ∧ (27931233920515280163 * (10 ^ 19 + 7)) % (2 ^ 65 + 1) = 12345 := by decide +kernel
example : zzDivModV 5 21 (3 * (2 ^ 64 + 1)) = 0 ∧ zzDivModV 5 0 7 = 0 := by decide +kernel

/-! ## zzGCD -/

/-- zzGCD computes the greatest common divisor (header: a, b ≠ 0). -/
theorem zzGCDV_spec (a b : Nat) (ha : 0 < a) (hb : 0 < b) : zzGCDV a b = Nat.gcd a b := by
  obtain ⟨h1, h2, h3, h4, h5⟩ := shift_common ha hb
  unfold zzGCDV
  simp only []
  rw [zzGCDLoop_spec _ _ _ h4 h5 h3 (Nat.le_refl _), ← Nat.gcd_mul_right, h1, h2]

example : zzGCDV (6 * (2 ^ 64 + 1) * 16) (10 * (2 ^ 64 + 1) * 4) = 8 * (2 ^ 64 + 1) := by
  decide +kernel

/-! ## zzExGCD -/

/-- zzExGCD (header: a, b ≠ 0): `d = gcd(a, b)` and the Bezout identity `da * a - db * b = d`,
    stated without subtraction.  Also the size bounds that make da fit [m] and db fit [n] words:
    `da ≤ b / 2^s`, `db ≤ a / 2^s` (s = common power of two), in particular `da ≤ b`, `db ≤ a`. -/
theorem zzExGCDV_spec (a b : Nat) (ha : 0 < a) (hb : 0 < b) :
    (zzExGCDV a b).1 = Nat.gcd a b
    ∧ (zzExGCDV a b).2.1 * a = (zzExGCDV a b).1 + (zzExGCDV a b).2.2 * b
    ∧ (zzExGCDV a b).2.1 ≤ b ∧ (zzExGCDV a b).2.2 ≤ a := by
  obtain ⟨h1, h2, h3, h4, h5⟩ := shift_common ha hb
  unfold zzExGCDV
  simp only []
  generalize min (loZeros a) (loZeros b) = s at *
  generalize hA : a / 2 ^ s = aa at *
  generalize hB : b / 2 ^ s = bb at *
  obtain ⟨g1, g2, g3, g4⟩ := zzExGCDLoop_spec aa bb h4 h5 h3 (aa + bb) aa bb 1 0 0 1 h4 h5 h3 rfl
    (Nat.le_refl _) (Nat.le_refl _) (by omega) (by omega) (by omega) (by omega) (by simp) (by simp)
    (Nat.le_refl _)
  have hp : 0 < 2 ^ s := Nat.two_pow_pos s
  have la : aa ≤ a := by rw [← h1]; exact Nat.le_mul_of_pos_right _ hp
  have lb : bb ≤ b := by rw [← h2]; exact Nat.le_mul_of_pos_right _ hp
  refine ⟨?_, ?_, by omega, by omega⟩
  · rw [g1, ← Nat.gcd_mul_right, h1, h2]
  · rw [g1]
    conv_lhs => rw [← h1, ← Nat.mul_assoc, g2]
    conv_rhs => rw [← h2, ← Nat.mul_assoc]
    ring

example : zzExGCDV (6 * (10 ^ 19 + 7) * 16) (10 * (10 ^ 19 + 7) * 4)
      = (80000000000000000056, 46875000000000000033, 112500000000000000079)
    ∧ 46875000000000000033 * (6 * (10 ^ 19 + 7) * 16)
      = 80000000000000000056 + 112500000000000000079 * (10 * (10 ^ 19 + 7) * 4) := by
  decide +kernel

/-! ## zzAlmostInvMod -/

/-- zzAlmostInvMod (header: mod odd, 0 < a < mod), coprime case:
    `b * a ≡ 2^k (mod mod)`, `b < mod`, `k ≥ 1`. -/
theorem zzAlmostInvModV_spec (a m : Nat) (hm : m % 2 = 1) (ha0 : 0 < a) (_ha : a < m)
    (hg : Nat.gcd a m = 1) :
    ((zzAlmostInvModV a m).1 * a) % m = 2 ^ (zzAlmostInvModV a m).2 % m
    ∧ (zzAlmostInvModV a m).1 < m ∧ 1 ≤ (zzAlmostInvModV a m).2 := by
  obtain ⟨h1, h2, h3, h4⟩ := zzAlmostInvLoop_spec a m (a + m) a m 1 0 0 ha0 (by omega) (Or.inr hm) rfl
    (Nat.le_refl _) (by ring) ⟨0, by simp⟩ ⟨1, by simp⟩ (Nat.le_refl _)
  unfold zzAlmostInvModV
  simp only []
  rw [h1, hg] at h2
  rw [h1, hg, if_neg (by simp)]
  simp only []
  generalize (zzAlmostInvLoop (a + m) a m 1 0 0).2.1 = da at *
  generalize (zzAlmostInvLoop (a + m) a m 1 0 0).2.2 = k at *
  -- da' = da reduced once, b = mod - da' (0 for da' = 0): da + b is a multiple of mod
  have hb : (if da ≥ m then da - m else da) < m := by split_ifs <;> omega
  have hsum : ∃ e : ℤ, ((zzNegModV (if da ≥ m then da - m else da) m : Nat) : ℤ) + da = e * m := by
    unfold zzNegModV
    by_cases h5 : da ≥ m
    · rw [if_pos h5]
      by_cases h6 : da - m = 0
      · rw [if_pos h6]
        exact ⟨1, by have : da = m := by omega
                     rw [this]; simp⟩
      · rw [if_neg h6]
        refine ⟨2, ?_⟩
        have : m - (da - m) + da = 2 * m := by omega
        exact_mod_cast this
    · rw [if_neg h5]
      by_cases h6 : da = 0
      · rw [if_pos h6, h6]; exact ⟨0, by simp⟩
      · rw [if_neg h6]
        refine ⟨1, ?_⟩
        have : m - da + da = 1 * m := by omega
        exact_mod_cast this
  refine ⟨?_, ?_, h4⟩
  · have : (zzNegModV (if da ≥ m then da - m else da) m) * a ≡ 2 ^ k [MOD m] := by
      rw [Nat.modEq_iff_dvd]
      obtain ⟨c, hc⟩ := h2
      obtain ⟨e, he⟩ := hsum
      refine ⟨c - e * a, ?_⟩
      push_cast at hc ⊢
      linear_combination hc - (a : ℤ) * he
    exact this
  · unfold zzNegModV
    split_ifs <;> omega

/-- zzAlmostInvMod returns b = 0 when gcd(a, mod) ≠ 1. -/
theorem zzAlmostInvModV_not_coprime (a m : Nat) (hm : m % 2 = 1) (ha0 : 0 < a)
    (hg : Nat.gcd a m ≠ 1) : (zzAlmostInvModV a m).1 = 0 := by
  obtain ⟨h1, _, _, _⟩ := zzAlmostInvLoop_spec a m (a + m) a m 1 0 0 ha0 (by omega) (Or.inr hm) rfl
    (Nat.le_refl _) (by ring) ⟨0, by simp⟩ ⟨1, by simp⟩ (Nat.le_refl _)
  unfold zzAlmostInvModV
  simp only []
  rw [h1, if_pos hg]

example : zzAlmostInvModV (10 ^ 19 + 7) (2 ^ 65 + 1) = (21224237943502246504, 93)
    ∧ (21224237943502246504 * (10 ^ 19 + 7)) % (2 ^ 65 + 1) = 2 ^ 93 % (2 ^ 65 + 1) := by
  decide +kernel
example : (zzAlmostInvModV 21 (3 * (2 ^ 64 + 1))).1 = 0 := by decide +kernel

/-- the iteration count of zzAlmostInvMod (Kaliski's bounds), coprime case:
    `mod ≤ 2^k ≤ 2 a mod`, hence `bitlen mod ≤ k ≤ 2 bitlen mod` with
    `bitlen mod = Nat.log2 mod + 1` (wwBitSize). -/
theorem zzAlmostInvModV_count (a m : Nat) (hm : m % 2 = 1) (ha0 : 0 < a) (ha : a < m)
    (hg : Nat.gcd a m = 1) :
    m ≤ 2 ^ (zzAlmostInvModV a m).2 ∧ 2 ^ (zzAlmostInvModV a m).2 ≤ 2 * (a * m)
    ∧ Nat.log2 m + 1 ≤ (zzAlmostInvModV a m).2
    ∧ (zzAlmostInvModV a m).2 ≤ 2 * (Nat.log2 m + 1) := by
  obtain ⟨h1, _, _, h4⟩ := zzAlmostInvLoop_spec a m (a + m) a m 1 0 0 ha0 (by omega) (Or.inr hm) rfl
    (Nat.le_refl _) (by ring) ⟨0, by simp⟩ ⟨1, by simp⟩ (Nat.le_refl _)
  obtain ⟨c1, c2⟩ := zzAlmostInvLoop_count (a * m) m (a + m) a m 1 0 0 ha0 (by omega) (by ring)
    (by simp) (by simp) (by simp) (Nat.le_refl _)
  have hk : (zzAlmostInvModV a m).2 = (zzAlmostInvLoop (a + m) a m 1 0 0).2.2 := by
    unfold zzAlmostInvModV
    simp only []
    split_ifs <;> rfl
  rw [hk]
  rw [h1, hg, Nat.one_mul] at c1
  generalize (zzAlmostInvLoop (a + m) a m 1 0 0).2.2 = k at *
  have l1 : m < 2 ^ (Nat.log2 m + 1) := Nat.lt_log2_self
  have l2 : 2 ^ Nat.log2 m ≤ m := Nat.log2_self_le (by omega)
  refine ⟨c1, c2, ?_, ?_⟩
  · by_contra hlt
    have h5 : 2 ^ k ≤ 2 ^ Nat.log2 m := Nat.pow_le_pow_right (by omega) (by omega)
    have h6 : m = 2 ^ k := by omega
    obtain ⟨j, rfl⟩ : ∃ j, k = j + 1 := ⟨k - 1, by omega⟩
    rw [Nat.pow_succ] at h6
    omega
  · by_contra hgt
    have h5 : 2 ^ (2 * (Nat.log2 m + 1) + 1) ≤ 2 ^ k := Nat.pow_le_pow_right (by omega) (by omega)
    have h6 : 2 ^ (2 * (Nat.log2 m + 1) + 1) = 2 * (2 ^ (Nat.log2 m + 1) * 2 ^ (Nat.log2 m + 1)) := by
      rw [Nat.pow_succ, Nat.two_mul, Nat.pow_add]; ring
    have h7 : a * m < m * m := Nat.mul_lt_mul_of_pos_right ha (by omega)
    have h8 : m * m < 2 ^ (Nat.log2 m + 1) * 2 ^ (Nat.log2 m + 1) :=
      Nat.mul_lt_mul'' l1 l1
    omega

example : (zzAlmostInvModV (10 ^ 19 + 7) (2 ^ 65 + 1)).2 = 93 ∧ Nat.log2 (2 ^ 65 + 1) + 1 = 66 := by
  decide +kernel

end Bee2V.C05

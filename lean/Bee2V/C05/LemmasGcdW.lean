/-
C05 — helper lemmas for PropsGcdW.lean: the word-level models of zz_gcd.c refine the value-level
models (simulation: every C statement is discharged by the word-level spec already proved).
-/
import Bee2V.C05.ModelGcdW
import Bee2V.C05.PropsAdd
import Bee2V.C05.PropsBits
import Bee2V.C05.PropsGcd
import Mathlib.Tactic.Ring
import Mathlib.Tactic.Linarith
namespace Bee2V.C05.GcdW
open Bee2V.C05 Bee2V.C05.Add

/-- a buffer whose significant part is the prefix `u[0 .. nu)`: the words above are zero -/
def Buf (w : Nat) (u : List Nat) (nu : Nat) : Prop :=
  Wf w u ∧ nu ≤ u.length ∧ val w (u.drop nu) = 0

theorem Buf.val_take {w : Nat} {u : List Nat} {nu : Nat} (h : Buf w u nu) :
    val w (u.take nu) = val w u := by
  obtain ⟨_, h2, h3⟩ := h
  have := val_take_drop w u nu h2
  rw [h3, Nat.mul_zero, Nat.add_zero] at this
  exact this.symm

theorem Buf.lt {w : Nat} {u : List Nat} {nu : Nat} (h : Buf w u nu) : val w u < 2 ^ (w * nu) := by
  rw [← h.val_take]
  have := Add.val_lt (Wf_take h.1 nu)
  rwa [List.length_take, Nat.min_eq_left h.2.1] at this

theorem buf_full {w : Nat} {u : List Nat} (h : Wf w u) : Buf w u u.length :=
  ⟨h, Nat.le_refl _, by simp [val]⟩

theorem head_parity {w : Nat} (hw : 0 < w) (u : List Nat) :
    u.getD 0 0 % 2 = val w u % 2 := by
  cases u with
  | nil => simp [val]
  | cons x xs =>
    obtain ⟨k, rfl⟩ : ∃ k, w = k + 1 := ⟨w - 1, by omega⟩
    rw [val_mod_two]; simp

/-- `f` applied to the prefix, when `f` keeps the length -/
theorem onPrefix_buf {w : Nat} {u : List Nat} {nu : Nat} (h : Buf w u nu) (f : List Nat → List Nat)
    (hf : (f (u.take nu)).length = nu) (hW : Wf w (f (u.take nu))) :
    Buf w (onPrefixW nu f u) nu ∧ (onPrefixW nu f u).length = u.length
    ∧ val w (onPrefixW nu f u) = val w (f (u.take nu)) := by
  obtain ⟨h1, h2, h3⟩ := h
  unfold onPrefixW
  have hd : (f (u.take nu) ++ u.drop nu).drop nu = u.drop nu := by
    rw [List.drop_append_of_le_length (by omega), List.drop_of_length_le (by omega),
      List.nil_append]
  refine ⟨⟨Wf_append.mpr ⟨hW, Wf_drop h1 nu⟩, by rw [List.length_append, hf, List.length_drop]; omega,
    by rw [hd]; exact h3⟩, by rw [List.length_append, hf, List.length_drop]; omega, ?_⟩
  rw [val_append, h3, Nat.mul_zero, Nat.add_zero]

/-- `wwShLo(u, nu, 1)` halves the value -/
theorem shLo1_buf {w : Nat} (hw : 0 < w) {u : List Nat} {nu : Nat} (h : Buf w u nu) :
    Buf w (onPrefixW nu (fun p => wwShLo w p 1) u) nu
    ∧ (onPrefixW nu (fun p => wwShLo w p 1) u).length = u.length
    ∧ val w (onPrefixW nu (fun p => wwShLo w p 1) u) = val w u / 2 := by
  obtain ⟨s1, s2, s3⟩ := wwShLo_spec hw (u.take nu) 1 (Wf_take h.1 nu)
  have hl : (u.take nu).length = nu := by rw [List.length_take]; exact Nat.min_eq_left h.2.1
  obtain ⟨b1, b2, b3⟩ := onPrefix_buf h (fun p => wwShLo w p 1) (by rw [s1, hl]) s2
  exact ⟨b1, b2, by rw [b3, s3, h.val_take, Nat.pow_one]⟩

/-- the `da` step of the halving loop -/
theorem daHalf {w : Nat} (hw : 0 < w) (da mod : List Nat) (hda : Wf w da) (hm : Wf w mod)
    (hl : da.length = mod.length) :
    val w (if da.getD 0 0 % 2 = 0 then wwShLo w da 1
        else (wwShLoCarry w (zzAdd2 w da mod).1 1 (zzAdd2 w da mod).2).1)
      = (if val w da % 2 = 0 then val w da / 2 else (val w da + val w mod) / 2)
    ∧ Wf w (if da.getD 0 0 % 2 = 0 then wwShLo w da 1
        else (wwShLoCarry w (zzAdd2 w da mod).1 1 (zzAdd2 w da mod).2).1)
    ∧ (if da.getD 0 0 % 2 = 0 then wwShLo w da 1
        else (wwShLoCarry w (zzAdd2 w da mod).1 1 (zzAdd2 w da mod).2).1).length = da.length := by
  rw [head_parity hw da]
  by_cases he : val w da % 2 = 0
  · rw [if_pos he, if_pos he]
    obtain ⟨s1, s2, s3⟩ := wwShLo_spec hw da 1 hda
    exact ⟨by rw [s3, Nat.pow_one], s2, s1⟩
  · rw [if_neg he, if_neg he]
    obtain ⟨a1, a2, a3, a4⟩ := zzAdd2_spec w da mod hda hm hl
    have h2w := two_le_two_pow hw
    obtain ⟨c1, c2, c3, _⟩ := wwShLoCarry_spec hw (zzAdd2 w da mod).1 1 (zzAdd2 w da mod).2 a3
      (by omega)
    refine ⟨?_, c2, by rw [c1, a4]⟩
    rw [c3, a4, Nat.mul_comm (zzAdd2 w da mod).2, a1, Nat.pow_one]
    apply Nat.mod_eq_of_lt
    have := Add.val_lt hda
    have := Add.val_lt hm
    rw [← hl] at this
    omega


/-- the word-level halving loop runs in lockstep with the value-level one -/
theorem dmHalveW_spec {w : Nat} (hw : 0 < w) (mod : List Nat) (hm : Wf w mod) (nu : Nat) :
    ∀ (f : Nat) (u da : List Nat), Buf w u nu → Wf w da → da.length = mod.length →
      val w (dmHalveW w mod nu f u da).1 = (halveMod (val w mod) f (val w u) (val w da)).1
      ∧ val w (dmHalveW w mod nu f u da).2 = (halveMod (val w mod) f (val w u) (val w da)).2
      ∧ Buf w (dmHalveW w mod nu f u da).1 nu
      ∧ (dmHalveW w mod nu f u da).1.length = u.length
      ∧ Wf w (dmHalveW w mod nu f u da).2
      ∧ (dmHalveW w mod nu f u da).2.length = mod.length := by
  intro f
  induction f with
  | zero => intro u da hb hda hl; exact ⟨rfl, rfl, hb, rfl, hda, hl⟩
  | succ f ih =>
    intro u da hb hda hl
    unfold dmHalveW halveMod
    rw [head_parity hw u]
    by_cases he : val w u % 2 = 0
    · rw [if_pos he, if_pos he]
      obtain ⟨b1, b2, b3⟩ := shLo1_buf hw hb
      obtain ⟨d1, d2, d3⟩ := daHalf hw da mod hda hm hl
      simp only []
      obtain ⟨i1, i2, i3, i4, i5, i6⟩ := ih _ _ b1 d2 (by rw [d3, hl])
      rw [b3, d1] at i1 i2
      exact ⟨i1, i2, i3, by rw [i4, b2], i5, i6⟩
    · rw [if_neg he, if_neg he]
      exact ⟨rfl, rfl, hb, rfl, hda, hl⟩

/-- all entries from index k on are zero -/
theorem val_drop_zero {w : Nat} (l : List Nat) (k : Nat) (h : ∀ i, k ≤ i → l.getD i 0 = 0) :
    val w (l.drop k) = 0 := by
  rw [val_eq_zero_iff]
  intro x hx
  obtain ⟨i, hi, rfl⟩ := List.getElem_of_mem hx
  rw [List.getElem_drop]
  have := h (k + i) (by omega)
  rw [List.getD_eq_getElem?_getD, List.getElem?_eq_getElem (by
    rw [List.length_drop] at hi; omega)] at this
  simpa using this

theorem val_ge_digit {w : Nat} (l : List Nat) (i : Nat) :
    2 ^ (w * i) * l.getD i 0 ≤ val w l := by
  induction l generalizing i with
  | nil => simp [val]
  | cons x xs ih =>
    cases i with
    | zero => simp [val_cons]
    | succ j =>
      have := ih j
      rw [List.getD_cons_succ, val_cons, Nat.mul_succ, Nat.pow_add, Nat.mul_comm (2 ^ (w * j)),
        Nat.mul_assoc]
      have h2 : 2 ^ w * (2 ^ (w * j) * xs.getD j 0) ≤ 2 ^ w * val w xs := Nat.mul_le_mul_left _ this
      omega

/-- `nu = wwWordSize(u, nu)`: still a buffer, and the top word of the new prefix is non-zero -/
theorem wordSize_buf {w : Nat} {u : List Nat} {nu : Nat} (h : Buf w u nu) :
    Buf w u (wwWordSize (u.take nu)) ∧ wwWordSize (u.take nu) ≤ nu
    ∧ (0 < wwWordSize (u.take nu) → 2 ^ (w * (wwWordSize (u.take nu) - 1)) ≤ val w u) := by
  obtain ⟨s1, s2, s3⟩ := wwWordSize_spec (u.take nu)
  have hl : (u.take nu).length = nu := by rw [List.length_take]; exact Nat.min_eq_left h.2.1
  rw [hl] at s1
  generalize wwWordSize (u.take nu) = k at *
  have hnu := h.2.1
  have hz : val w ((u.take nu).drop k) = 0 := val_drop_zero _ k s2
  have hsplit : u.drop k = (u.take nu).drop k ++ u.drop nu := by
    conv_lhs => rw [← List.take_append_drop nu u]
    rw [List.drop_append_of_le_length (by omega)]
  refine ⟨⟨h.1, by omega, by rw [hsplit, val_append, hz, h.2.2]; simp⟩, s1, fun hk => ?_⟩
  have hne := s3 hk
  have hge := val_ge_digit (w := w) (u.take nu) (k - 1)
  rw [h.val_take] at hge
  have hpos : 1 ≤ (u.take nu).getD (k - 1) 0 := by omega
  have : 2 ^ (w * (k - 1)) * 1 ≤ 2 ^ (w * (k - 1)) * (u.take nu).getD (k - 1) 0 :=
    Nat.mul_le_mul_left _ hpos
  omega

/-- normalised lengths are ordered like the values -/
theorem norm_le {w : Nat} {x y : List Nat} {nx ny : Nat} (hx : Buf w x nx)
    (hy : 0 < ny → 2 ^ (w * (ny - 1)) ≤ val w y) (hle : val w y ≤ val w x) : ny ≤ nx := by
  by_contra hc
  have h1 := hy (by omega)
  have h2 := hx.lt
  have h3 : 2 ^ (w * nx) ≤ 2 ^ (w * (ny - 1)) :=
    Nat.pow_le_pow_right (by omega) (Nat.mul_le_mul_left _ (by omega))
  omega

theorem cmp2_buf {w : Nat} {u v : List Nat} {nu nv : Nat} (hu : Buf w u nu) (hv : Buf w v nv) :
    wwCmp2_safe (u.take nu) (v.take nv) > 0 ↔ val w v < val w u := by
  rw [wwCmp2_safe_spec w _ _ (Wf_take hu.1 nu) (Wf_take hv.1 nv), hu.val_take, hv.val_take]
  split_ifs <;> omega


/-- `x <- x - y` on normalised prefixes (ny ≤ nx, y ≤ x): exact, no borrow left -/
theorem subNorm_spec {w : Nat} (hw : 0 < w) {x y : List Nat} {nx ny : Nat} (hx : Buf w x nx)
    (hy : Buf w y ny) (hn : ny ≤ nx) (hle : val w y ≤ val w x) :
    val w (subNormW w x nx y ny) + val w y = val w x
    ∧ Buf w (subNormW w x nx y ny) nx ∧ (subNormW w x nx y ny).length = x.length := by
  have h2w := two_le_two_pow hw
  have hxl := hx.2.1
  have hyl := hy.2.1
  have ltx : (x.take ny).length = ny := by rw [List.length_take]; omega
  have lty : (y.take ny).length = ny := by rw [List.length_take]; omega
  obtain ⟨a1, a2, a3, a4⟩ := zzSub2_spec w (x.take ny) (y.take ny) (Wf_take hx.1 _) (Wf_take hy.1 _)
    (by rw [ltx, lty])
  rw [ltx, hy.val_take] at a1
  rw [ltx] at a4
  have hb1 : (zzSub2 w (x.take ny) (y.take ny)).2 ≤ 1 := by rw [a2]; split_ifs <;> omega
  have lmid : ((x.drop ny).take (nx - ny)).length = nx - ny := by
    rw [List.length_take, List.length_drop]; omega
  obtain ⟨c1, _, _, c4, c5⟩ := zzSubW2_spec w ((x.drop ny).take (nx - ny))
    (zzSub2 w (x.take ny) (y.take ny)).2 (Wf_take (Wf_drop hx.1 _) _) (by omega)
  rw [lmid] at c1 c5
  have hsplit : x.take nx = x.take ny ++ (x.drop ny).take (nx - ny) := by
    conv_lhs => rw [show nx = ny + (nx - ny) by omega]
    exact List.take_add
  have e3 : val w (x.take ny) + 2 ^ (w * ny) * val w ((x.drop ny).take (nx - ny)) = val w x := by
    rw [← hx.val_take, hsplit, val_append, ltx]
  unfold subNormW
  simp only []
  generalize zzSub2 w (x.take ny) (y.take ny) = r at *
  generalize zzSubW2 w ((x.drop ny).take (nx - ny)) r.2 = r2 at *
  have hWpre : Wf w (r.1 ++ r2.1) := Wf_append.mpr ⟨a3, c4⟩
  have hLpre : (r.1 ++ r2.1).length = nx := by rw [List.length_append, a4, c5]; omega
  have hS := Add.val_lt hWpre
  rw [hLpre, val_append, a4] at hS
  have hP : 2 ^ (w * nx) = 2 ^ (w * ny) * 2 ^ (w * (nx - ny)) := by
    rw [← Nat.pow_add, ← Nat.mul_add]; congr 2; omega
  have hc2 : 2 ^ (w * ny) * (val w r2.1 + r.2)
      = 2 ^ (w * ny) * (val w ((x.drop ny).take (nx - ny)) + 2 ^ (w * (nx - ny)) * r2.2) := by
    rw [c1]
  simp only [Nat.mul_add, ← Nat.mul_assoc] at hc2
  rw [← hP] at hc2
  have hr20 : r2.2 = 0 := by
    rcases Nat.eq_zero_or_pos r2.2 with h | h
    · exact h
    · exfalso
      have : 2 ^ (w * nx) * 1 ≤ 2 ^ (w * nx) * r2.2 := Nat.mul_le_mul_left _ h
      omega
  rw [hr20, Nat.mul_zero, Nat.add_zero] at hc2
  have hdrop : (r.1 ++ r2.1 ++ x.drop nx).drop nx = x.drop nx := by
    rw [List.drop_append_of_le_length (by omega), List.drop_of_length_le (by omega),
      List.nil_append]
  refine ⟨?_, ⟨Wf_append.mpr ⟨hWpre, Wf_drop hx.1 _⟩,
    by rw [List.length_append, hLpre, List.length_drop]; omega, by rw [hdrop]; exact hx.2.2⟩,
    by rw [List.length_append, hLpre, List.length_drop]; omega⟩
  rw [val_append, hx.2.2, Nat.mul_zero, Nat.add_zero, val_append, a4]
  omega

theorem addRed_eq_mod {x y m : Nat} (hx : x < m) (hy : y < m) : addRed x y m = (x + y) % m := by
  unfold addRed
  rw [mod_wrap (by omega)]
  split_ifs <;> omega

/-- `if (zzAdd2(x, y, n) || wwCmp(x, mod, n) >= 0) zzSub2(x, mod, n)` is the value-level addRed -/
theorem addRedW_spec {w : Nat} (x y mod : List Nat) (hx : Wf w x) (hy : Wf w y) (hm : Wf w mod)
    (hl1 : x.length = y.length) (hl2 : x.length = mod.length)
    (hxm : val w x < val w mod) (hym : val w y < val w mod) :
    val w (addRedW w x y mod) = addRed (val w x) (val w y) (val w mod)
    ∧ val w (addRedW w x y mod) < val w mod
    ∧ Wf w (addRedW w x y mod) ∧ (addRedW w x y mod).length = mod.length := by
  obtain ⟨a1, a2, a3, a4⟩ := zzAdd2_spec w x y hx hy hl1
  have hcmp : wwCmp_safe (zzAdd2 w x y).1 mod = cmp3 (val w (zzAdd2 w x y).1) (val w mod) := by
    rw [wwCmp_safe_eq_fast]; exact wwCmp_fast_eq w _ mod a3 hm (a4.trans hl2)
  rw [← a4] at a1
  have := redFast w (zzAdd2 w x y).1 mod (zzAdd2 w x y).2 _ _ a3 hm (a4.trans hl2) a1 a2
    (by omega) hcmp
  unfold addRedW
  simp only []
  rw [addRed_eq_mod hxm hym]
  obtain ⟨r1, r2, r3, r4⟩ := this
  exact ⟨r1, r2, r3, by rw [r4, a4, hl2]⟩


theorem halveMod_lt (m : Nat) : ∀ f u da, da < m → (halveMod m f u da).2 < m := by
  intro f
  induction f with
  | zero => intro u da h; exact h
  | succ f ih =>
    intro u da h
    unfold halveMod
    split
    · apply ih; split <;> omega
    · exact h

/-- the main loop of zzDivMod: word level and value level run in lockstep -/
theorem zzDivModLoopW_spec {w : Nat} (hw : 0 < w) (mod : List Nat) (hm : Wf w mod) :
    ∀ (f : Nat) (u : List Nat) (nu : Nat) (v : List Nat) (nv : Nat) (da da1 : List Nat),
      Buf w u nu → Buf w v nv → u.length = mod.length → v.length = mod.length →
      Wf w da → Wf w da1 → da.length = mod.length → da1.length = mod.length →
      val w da < val w mod → val w da1 < val w mod →
      val w (zzDivModLoopW w mod f u nu v nv da da1).1
          = (zzDivModLoop (val w mod) f (val w u) (val w v) (val w da) (val w da1)).1
      ∧ val w (zzDivModLoopW w mod f u nu v nv da da1).2.2
          = (zzDivModLoop (val w mod) f (val w u) (val w v) (val w da) (val w da1)).2
      ∧ Buf w (zzDivModLoopW w mod f u nu v nv da da1).1 (zzDivModLoopW w mod f u nu v nv da da1).2.1
      ∧ Wf w (zzDivModLoopW w mod f u nu v nv da da1).2.2
      ∧ (zzDivModLoopW w mod f u nu v nv da da1).2.2.length = mod.length := by
  intro f
  induction f with
  | zero =>
    intro u nu v nv da da1 hu hv _ _ hda _ hdl _ _ _
    exact ⟨rfl, rfl, hu, hda, hdl⟩
  | succ f ih =>
    intro u nu v nv da da1 hu hv hul hvl hda hda1 hdl hd1l hdm hd1m
    unfold zzDivModLoopW zzDivModLoop
    rw [wwIsZero_safe_spec w, hv.val_take]
    by_cases hv0 : val w v = 0
    · simp only [hv0, decide_true, if_true]
      exact ⟨trivial, trivial, hu, hda, hdl⟩
    · simp only [hv0, decide_false, Bool.false_eq_true, if_false]
      -- the two halving loops
      obtain ⟨p1, p2, p3, p4, p5, p6⟩ := dmHalveW_spec hw mod hm nu (val w u) u da hu hda hdl
      obtain ⟨q1, q2, q3, q4, q5, q6⟩ := dmHalveW_spec hw mod hm nv (val w v) v da1 hv hda1 hd1l
      have p7 := halveMod_lt (val w mod) (val w u) (val w u) (val w da) hdm
      have q7 := halveMod_lt (val w mod) (val w v) (val w v) (val w da1) hd1m
      rw [← p2] at p7
      rw [← q2] at q7
      rw [← p1, ← p2, ← q1, ← q2]
      generalize dmHalveW w mod nu (val w u) u da = r at *
      generalize dmHalveW w mod nv (val w v) v da1 = r1 at *
      -- normalisation
      obtain ⟨n1, n2, n3⟩ := wordSize_buf p3
      obtain ⟨m1, m2, m3⟩ := wordSize_buf q3
      generalize wwWordSize (r.1.take nu) = nu' at *
      generalize wwWordSize (r1.1.take nv) = nv' at *
      by_cases hgt : val w r1.1 < val w r.1
      · rw [if_pos ((cmp2_buf n1 m1).mpr hgt), if_pos hgt]
        have hnn := norm_le n1 m3 (by omega)
        obtain ⟨s1, s2, s3⟩ := subNorm_spec hw n1 m1 hnn (by omega)
        obtain ⟨a1, a2, a3, a4⟩ := addRedW_spec r.2 r1.2 mod p5 q5 hm (by rw [p6, q6]) p6 p7 q7
        have hsv : val w (subNormW w r.1 nu' r1.1 nv') = val w r.1 - val w r1.1 := by omega
        have := ih (subNormW w r.1 nu' r1.1 nv') nu' r1.1 nv' (addRedW w r.2 r1.2 mod) r1.2
          s2 m1 (by rw [s3, p4, hul]) (by rw [q4, hvl]) a3 q5 a4 q6 a2 q7
        rw [hsv, a1] at this
        exact this
      · rw [if_neg (fun h => hgt ((cmp2_buf n1 m1).mp h)), if_neg hgt]
        have hnn := norm_le m1 n3 (by omega)
        obtain ⟨s1, s2, s3⟩ := subNorm_spec hw m1 n1 hnn (by omega)
        obtain ⟨a1, a2, a3, a4⟩ := addRedW_spec r1.2 r.2 mod q5 p5 hm (by rw [p6, q6]) q6 q7 p7
        have hsv : val w (subNormW w r1.1 nv' r.1 nu') = val w r1.1 - val w r.1 := by omega
        have := ih r.1 nu' (subNormW w r1.1 nv' r.1 nu') nv' r.2 (addRedW w r1.2 r.2 mod)
          n1 s2 (by rw [p4, hul]) (by rw [s3, q4, hvl]) p5 a3 p6 a4 p7 a2
        rw [hsv, a1] at this
        exact this


theorem val_replicate_zero' (w n : Nat) : val w (List.replicate n 0) = 0 := by
  rw [val_eq_zero_iff]; intro x hx; exact (List.mem_replicate.mp hx).2

theorem Wf_replicate_zero' (w n : Nat) : Wf w (List.replicate n 0) := by
  intro x hx; rw [(List.mem_replicate.mp hx).2]; exact Nat.two_pow_pos w

/-- `wwIsW(a, n, 1)` decides `a = 1` -/
theorem wwIsW_one {w : Nat} (hw : 0 < w) (l : List Nat) (hl : Wf w l) :
    wwIsW_safe l 1 = decide (val w l = 1) := by
  have h2 := two_le_two_pow hw
  rw [Bool.eq_iff_iff, (wwIsW_spec l 1).2, decide_eq_true_iff]
  constructor
  · rintro (⟨_, h⟩ | ⟨as, rfl, hz⟩)
    · omega
    · rw [val_cons, (val_eq_zero_iff w as).mpr hz]; simp
  · intro h
    cases l with
    | nil => simp [val] at h
    | cons x xs =>
      right
      rw [val_cons] at h
      have hx := (Wf_cons.mp hl).1
      rcases Nat.eq_zero_or_pos (val w xs) with h0 | h0
      · rw [h0] at h
        have hx1 : x = 1 := by omega
        exact ⟨xs, by rw [hx1], (val_eq_zero_iff w xs).mp h0⟩
      · exfalso
        have : 2 ^ w * 1 ≤ 2 ^ w * val w xs := Nat.mul_le_mul_left _ h0
        omega

/-- zzDivMod: the word-level model computes the value-level model -/
theorem zzDivModW_refines {w : Nat} (hw : 0 < w) (d a mod : List Nat) (hd : Wf w d) (ha : Wf w a)
    (hm : Wf w mod) (hdl : d.length = mod.length) (hal : a.length = mod.length)
    (hdm : val w d < val w mod) :
    val w (zzDivModW w d a mod) = zzDivModV (val w d) (val w a) (val w mod)
    ∧ Wf w (zzDivModW w d a mod) ∧ (zzDivModW w d a mod).length = mod.length := by
  unfold zzDivModW zzDivModV
  simp only []
  rw [wwIsZero_safe_spec w]
  by_cases ha0 : val w a = 0
  · simp only [ha0, decide_true, if_true]
    exact ⟨val_replicate_zero' w _, Wf_replicate_zero' w _, List.length_replicate⟩
  · simp only [ha0, decide_false, Bool.false_eq_true, if_false]
    have hbu : Buf w a (wwWordSize a) := by
      have := (wordSize_buf (buf_full ha)).1
      rwa [List.take_length] at this
    have hz := val_replicate_zero' w mod.length
    obtain ⟨l1, l2, l3, l4, l5⟩ := zzDivModLoopW_spec hw mod hm (val w a + val w mod + 1) a
      (wwWordSize a) mod mod.length d (List.replicate mod.length 0) hbu (buf_full hm) hal rfl hd
      (Wf_replicate_zero' w _) hdl List.length_replicate hdm (by rw [hz]; omega)
    rw [hz] at l1 l2
    rw [wwIsW_one hw _ (Wf_take l3.1 _), l3.val_take, l1]
    generalize zzDivModLoopW w mod (val w a + val w mod + 1) a (wwWordSize a) mod mod.length d
      (List.replicate mod.length 0) = r at *
    by_cases h1 : (zzDivModLoop (val w mod) (val w a + val w mod + 1) (val w a) (val w mod) (val w d) 0).1 = 1
    · simp only [h1, decide_true, Bool.not_true, Bool.false_eq_true, if_false, ne_eq, not_true_eq_false]
      exact ⟨l2, l4, l5⟩
    · simp only [h1, decide_false, Bool.not_false, if_true, ne_eq, not_false_eq_true]
      exact ⟨val_replicate_zero' w _, Wf_replicate_zero' w _, List.length_replicate⟩


/-! ## zzGCD

`wordCLZ` / `wordCTZ` are table- or scan-based per word size; their correctness is packaged as
`SizesOK w` (proved for the three build sizes in PropsBits: wwBitSize16_spec / wwLoZeroBits16_spec,
wwSizes32_spec, wwSizes64_spec). -/

/-- what zz_gcd.c needs from wwBitSize / wwLoZeroBits (default editions) at word size w -/
def SizesOK (w : Nat) : Prop :=
  ∀ a : List Nat, Wf w a →
    (val w a < 2 ^ wwBitSize w a ∧ (0 < wwBitSize w a → 2 ^ (wwBitSize w a - 1) ≤ val w a))
    ∧ ((∀ k, k < wwLoZeroBits w a → (val w a).testBit k = false)
      ∧ (wwLoZeroBits w a < w * a.length → (val w a).testBit (wwLoZeroBits w a) = true))

theorem low_bits_zero {n z : Nat} (h : ∀ k, k < z → n.testBit k = false) : n % 2 ^ z = 0 := by
  apply Nat.eq_of_testBit_eq
  intro k
  rw [Nat.testBit_mod_two_pow, Nat.zero_testBit]
  by_cases hk : k < z
  · simp [hk, h k hk]
  · simp [hk]

/-- the number of low zero bits is determined by "2^z ∣ n, n / 2^z odd" -/
theorem loZeros_unique {n z : Nat} (hn : 0 < n) (h1 : n % 2 ^ z = 0) (h2 : n / 2 ^ z % 2 = 1) :
    z = loZeros n := by
  obtain ⟨g1, g2⟩ := Gcd.loZeros_spec hn
  generalize loZeros n = z' at *
  have key : ∀ x y : Nat, n % 2 ^ x = 0 → n / 2 ^ y % 2 = 1 → ¬ y < x := by
    intro x y hx hy hlt
    obtain ⟨e, rfl⟩ : ∃ e, x = y + (e + 1) := ⟨x - y - 1, by omega⟩
    obtain ⟨q, hq⟩ := Nat.dvd_of_mod_eq_zero hx
    have : n / 2 ^ y = 2 * (2 ^ e * q) := by
      rw [hq, Nat.pow_add, Nat.mul_assoc, Nat.mul_div_cancel_left _ (Nat.two_pow_pos y),
        Nat.pow_succ]
      ring
    omega
  have a1 := key z z' h1 g2
  have a2 := key z' z (Nat.mod_eq_zero_of_dvd g1) h2
  omega

theorem lz_eq {w : Nat} (hs : SizesOK w) (l : List Nat) (hl : Wf w l) (hne : 0 < val w l) :
    wwLoZeroBits w l = loZeros (val w l) := by
  obtain ⟨_, z1, z2⟩ := hs l hl
  have hlow := low_bits_zero z1
  have hlt : wwLoZeroBits w l < w * l.length := by
    rcases Nat.lt_or_ge (wwLoZeroBits w l) (w * l.length) with h | h
    · exact h
    · exfalso
      have h1 := Add.val_lt hl
      have h2 : 2 ^ (w * l.length) ≤ 2 ^ wwLoZeroBits w l := Nat.pow_le_pow_right (by omega) h
      rw [Nat.mod_eq_of_lt (by omega)] at hlow
      omega
  have hbit := z2 hlt
  rw [Nat.testBit_eq_decide_div_mod_eq, decide_eq_true_iff] at hbit
  exact loZeros_unique hne hlow hbit

/-- `wwShLo(u, n, wwLoZeroBits(u, n))` strips the low zero bits -/
theorem strip_buf {w : Nat} (hw : 0 < w) (hs : SizesOK w) {u : List Nat} {n : Nat} (h : Buf w u n)
    (hne : 0 < val w u) :
    Buf w (onPrefixW n (fun p => wwShLo w p (wwLoZeroBits w p)) u) n
    ∧ (onPrefixW n (fun p => wwShLo w p (wwLoZeroBits w p)) u).length = u.length
    ∧ val w (onPrefixW n (fun p => wwShLo w p (wwLoZeroBits w p)) u)
        = val w u / 2 ^ loZeros (val w u) := by
  have hW := Wf_take h.1 n
  obtain ⟨s1, s2, s3⟩ := wwShLo_spec hw (u.take n) (wwLoZeroBits w (u.take n)) hW
  have hl : (u.take n).length = n := by rw [List.length_take]; exact Nat.min_eq_left h.2.1
  obtain ⟨b1, b2, b3⟩ := onPrefix_buf h (fun p => wwShLo w p (wwLoZeroBits w p))
    (by rw [s1, hl]) s2
  refine ⟨b1, b2, ?_⟩
  rw [b3, s3, lz_eq hs _ hW (by rw [h.val_take]; exact hne), h.val_take]

/-- the `do … while` loop of zzGCD: lockstep with the value level; on exit n ≤ m -/
theorem zzGCDLoopW_spec {w : Nat} (hw : 0 < w) (hs : SizesOK w) :
    ∀ (f : Nat) (u : List Nat) (n : Nat) (v : List Nat) (m : Nat), Buf w u n → Buf w v m →
      0 < val w u → 0 < val w v → val w u + val w v ≤ f →
      val w (zzGCDLoopW w f u n v m).1 = zzGCDLoop f (val w u) (val w v)
      ∧ Buf w (zzGCDLoopW w f u n v m).1 (zzGCDLoopW w f u n v m).2.1
      ∧ (zzGCDLoopW w f u n v m).1.length = u.length
      ∧ (zzGCDLoopW w f u n v m).2.1 ≤ (zzGCDLoopW w f u n v m).2.2
      ∧ (zzGCDLoopW w f u n v m).2.2 ≤ m := by
  intro f
  induction f with
  | zero => intro u n v m _ _ h1 h2 h3; omega
  | succ f ih =>
    intro u n v m hu hv hup hvp hf
    unfold zzGCDLoopW zzGCDLoop
    simp only []
    obtain ⟨a1, a2, a3⟩ := strip_buf hw hs hu hup
    obtain ⟨b1, b2, b3⟩ := strip_buf hw hs hv hvp
    obtain ⟨pu, lu⟩ := Gcd.strip_pos_le hup
    obtain ⟨pv, lv⟩ := Gcd.strip_pos_le hvp
    rw [← a3] at pu lu
    rw [← b3] at pv lv
    rw [← a3, ← b3]
    generalize onPrefixW n (fun p => wwShLo w p (wwLoZeroBits w p)) u = u1 at *
    generalize onPrefixW m (fun p => wwShLo w p (wwLoZeroBits w p)) v = v1 at *
    obtain ⟨n1, n2, n3⟩ := wordSize_buf a1
    obtain ⟨m1, m2, m3⟩ := wordSize_buf b1
    generalize wwWordSize (u1.take n) = n' at *
    generalize wwWordSize (v1.take m) = m' at *
    by_cases hgt : val w v1 < val w u1
    · rw [if_pos ((cmp2_buf n1 m1).mpr hgt), if_pos hgt]
      have hnn := norm_le n1 m3 (by omega)
      obtain ⟨s1, s2, s3⟩ := subNorm_spec hw n1 m1 hnn (by omega)
      have hsv : val w (subNormW w u1 n' v1 m') = val w u1 - val w v1 := by omega
      have hnz : wwIsZero_safe (v1.take m') = false := by
        rw [wwIsZero_safe_spec w, m1.val_take]; simp; omega
      rw [hnz]
      simp only [Bool.not_false, if_true, ne_eq]
      rw [if_pos (by omega)]
      obtain ⟨i1, i2, i3, i4, i5⟩ := ih (subNormW w u1 n' v1 m') n' v1 m' s2 m1 (by omega) pv (by omega)
      rw [hsv] at i1
      exact ⟨i1, i2, by rw [i3, s3, a2], i4, by omega⟩
    · rw [if_neg (fun h => hgt ((cmp2_buf n1 m1).mp h)), if_neg hgt]
      have hnn := norm_le m1 n3 (by omega)
      obtain ⟨s1, s2, s3⟩ := subNorm_spec hw m1 n1 hnn (by omega)
      have hsv : val w (subNormW w v1 m' u1 n') = val w v1 - val w u1 := by omega
      rw [wwIsZero_safe_spec w, s2.val_take, hsv]
      by_cases hz : val w v1 - val w u1 = 0
      · simp only [hz, decide_true, Bool.not_true, Bool.false_eq_true, if_false, ne_eq,
          not_true_eq_false]
        exact ⟨trivial, n1, a2, hnn, m2⟩
      · simp only [hz, decide_false, Bool.not_false, if_true, ne_eq, not_false_eq_true]
        obtain ⟨i1, i2, i3, i4, i5⟩ := ih u1 n' (subNormW w v1 m' u1 n') m' n1 s2 pu (by omega)
          (by omega)
        rw [hsv] at i1
        exact ⟨i1, i2, by rw [i3, a2], i4, by omega⟩


/-- a buffer followed by zero padding -/
theorem pad_val (w : Nat) (p : List Nat) (j t : Nat) (ht : p.length ≤ t) :
    val w ((p ++ List.replicate j 0).take t) = val w p := by
  have : (p ++ List.replicate j 0).take t = p ++ (List.replicate j 0).take (t - p.length) := by
    rw [List.take_append, List.take_of_length_le ht]
  rw [this, val_append]
  have hz : val w ((List.replicate j 0).take (t - p.length)) = 0 := by
    rw [val_eq_zero_iff]; intro x hx
    exact (List.mem_replicate.mp (List.mem_of_mem_take hx)).2
  rw [hz]; simp

/-- zzGCD: the word-level model computes the value-level model -/
theorem zzGCDW_refines {w : Nat} (hw : 0 < w) (hs : SizesOK w) (a b : List Nat)
    (ha : Wf w a) (hb : Wf w b) (hap : 0 < val w a) (hbp : 0 < val w b) :
    val w (zzGCDW w a b) = zzGCDV (val w a) (val w b)
    ∧ Wf w (zzGCDW w a b) ∧ (zzGCDW w a b).length = min a.length b.length := by
  obtain ⟨c1, c2, c3, c4, c5⟩ := Gcd.shift_common hap hbp
  have hgcd := zzGCDV_spec (val w a) (val w b) hap hbp
  unfold zzGCDW zzGCDV at *
  simp only [] at *
  rw [lz_eq hs a ha hap, lz_eq hs b hb hbp]
  generalize min (loZeros (val w a)) (loZeros (val w b)) = s at *
  -- u <- a >> s, v <- b >> s
  obtain ⟨u1, u2, u3⟩ := wwShLo_spec hw a s ha
  obtain ⟨v1, v2, v3⟩ := wwShLo_spec hw b s hb
  have hbu : Buf w (wwShLo w a s) (wwWordSize (wwShLo w a s)) := by
    have := (wordSize_buf (buf_full u2)).1
    rwa [List.take_length] at this
  have hbv : Buf w (wwShLo w b s) (wwWordSize (wwShLo w b s)) := by
    have := (wordSize_buf (buf_full v2)).1
    rwa [List.take_length] at this
  have hmv : wwWordSize (wwShLo w b s) ≤ b.length := by
    have := (wwWordSize_spec (wwShLo w b s)).1; omega
  generalize wwShLo w a s = u at *
  generalize wwShLo w b s = v at *
  rw [u3, v3]
  obtain ⟨l1, l2, l3, l4, l5⟩ := zzGCDLoopW_spec hw hs (val w a / 2 ^ s + val w b / 2 ^ s) u
    (wwWordSize u) v (wwWordSize v) hbu hbv (by rw [u3]; exact c4) (by rw [v3]; exact c5)
    (by rw [u3, v3])
  rw [u3, v3] at l1
  generalize zzGCDLoopW w (val w a / 2 ^ s + val w b / 2 ^ s) u (wwWordSize u) v (wwWordSize v) = r at *
  generalize hG : zzGCDLoop (val w a / 2 ^ s + val w b / 2 ^ s) (val w a / 2 ^ s) (val w b / 2 ^ s) = G at *
  -- d <- u[0 .. n), zero padded to k words
  have hnk : r.2.1 ≤ min a.length b.length := by
    have := l2.2.1
    rw [l3, u1] at this
    omega
  have hpl : (r.1.take r.2.1).length = r.2.1 := by
    rw [List.length_take]; exact Nat.min_eq_left l2.2.1
  have hdl : ((r.1.take r.2.1 ++ List.replicate (min a.length b.length - r.2.1) 0).take
      (min a.length b.length)).length = min a.length b.length := by
    rw [List.length_take, List.length_append, hpl, List.length_replicate]; omega
  have hdv : val w ((r.1.take r.2.1 ++ List.replicate (min a.length b.length - r.2.1) 0).take
      (min a.length b.length)) = G := by
    rw [pad_val w _ _ _ (by rw [hpl]; exact hnk), l2.val_take, l1]
  have hdW : Wf w ((r.1.take r.2.1 ++ List.replicate (min a.length b.length - r.2.1) 0).take
      (min a.length b.length)) :=
    Wf_take (Wf_append.mpr ⟨Wf_take l2.1 _, Wf_replicate_zero' w _⟩) _
  have hdm : val w (((r.1.take r.2.1 ++ List.replicate (min a.length b.length - r.2.1) 0).take
      (min a.length b.length)).take r.2.2) = G := by
    rw [List.take_take, pad_val w _ _ _ (by rw [hpl]; omega), l2.val_take, l1]
  generalize (r.1.take r.2.1 ++ List.replicate (min a.length b.length - r.2.1) 0).take
      (min a.length b.length) = d at *
  -- the window of the final shift
  obtain ⟨⟨z1, _⟩, _⟩ := hs (d.take r.2.2) (Wf_take hdW _)
  rw [hdm] at z1
  generalize wwBitSize w (d.take r.2.2) = bits at *
  generalize hwin : (bits + s + w - 1) / w = win at *
  have hwin2 : bits + s ≤ w * win := by
    rw [← hwin]
    have := Nat.div_add_mod (bits + s + w - 1) w
    have := Nat.mod_lt (bits + s + w - 1) hw
    omega
  -- G 2^s is small enough for the window and for k words
  have hG1 : G * 2 ^ s < 2 ^ (w * win) := by
    calc G * 2 ^ s < 2 ^ bits * 2 ^ s := Nat.mul_lt_mul_of_pos_right z1 (Nat.two_pow_pos s)
      _ = 2 ^ (bits + s) := (Nat.pow_add 2 bits s).symm
      _ ≤ 2 ^ (w * win) := Nat.pow_le_pow_right (by omega) hwin2
  have hG2 : G * 2 ^ s < 2 ^ (w * min a.length b.length) := by
    rw [hgcd]
    have g1 : Nat.gcd (val w a) (val w b) ≤ val w a := Nat.gcd_le_left _ hap
    have g2 : Nat.gcd (val w a) (val w b) ≤ val w b := Nat.gcd_le_right _ hbp
    have a1 := Add.val_lt ha
    have b1' := Add.val_lt hb
    rcases Nat.le_total a.length b.length with h | h
    · rw [Nat.min_eq_left h]; omega
    · rw [Nat.min_eq_right h]; omega
  have hpos : 0 < 2 ^ s := Nat.two_pow_pos s
  have hGle : G ≤ G * 2 ^ s := Nat.le_mul_of_pos_right _ hpos
  unfold onPrefixW
  obtain ⟨t1, t2, t3⟩ := wwShHi_spec hw (d.take win) s (Wf_take hdW _)
  by_cases hwk : win ≤ d.length
  · have htl : (d.take win).length = win := by rw [List.length_take]; omega
    have hsplit := val_take_drop w d win hwk
    rw [hdv] at hsplit
    have hlt := Add.val_lt (Wf_take hdW win)
    rw [htl] at hlt
    have hdz : val w (d.drop win) = 0 := by
      rcases Nat.eq_zero_or_pos (val w (d.drop win)) with h | h
      · exact h
      · exfalso
        have : 2 ^ (w * win) * 1 ≤ 2 ^ (w * win) * val w (d.drop win) := Nat.mul_le_mul_left _ h
        omega
    rw [hdz, Nat.mul_zero, Nat.add_zero] at hsplit
    rw [htl, ← hsplit, Nat.mod_eq_of_lt hG1] at t3
    refine ⟨?_, Wf_append.mpr ⟨t2, Wf_drop hdW _⟩, ?_⟩
    · rw [val_append, t3, hdz, Nat.mul_zero, Nat.add_zero]
    · rw [List.length_append, t1, htl, List.length_drop, hdl]; omega
  · have htk : d.take win = d := List.take_of_length_le (by omega)
    rw [htk] at t1 t2 t3 ⊢
    have hdd : d.drop win = [] := List.drop_of_length_le (by omega)
    rw [hdd, List.append_nil]
    rw [hdv, hdl, Nat.mod_eq_of_lt hG2] at t3
    exact ⟨t3, t2, by rw [t1, hdl]⟩


/-! ## zzAlmostInvMod -/

/-- the prefix length is normalised: its top word is non-zero -/
def Norm (w : Nat) (u : List Nat) (nu : Nat) : Prop := 0 < nu → 2 ^ (w * (nu - 1)) ≤ val w u

theorem isEven_buf {w : Nat} (hw : 0 < w) {v : List Nat} {nv : Nat} (h : Buf w v nv) :
    zzIsEven (v.take nv) = decide (val w v % 2 = 0) := by
  have hp := head_parity hw (v.take nv)
  rw [h.val_take] at hp
  rw [← hp]
  cases hv : v.take nv with
  | nil => simp [zzIsEven]
  | cons x xs =>
    simp only [zzIsEven, List.getD_cons_zero]
    rw [Bool.eq_iff_iff, beq_iff_eq, decide_eq_true_iff]

theorem isZero_buf {w : Nat} {u : List Nat} {nu : Nat} (h : Buf w u nu) :
    (!wwIsZero_safe (u.take nu)) = decide (val w u ≠ 0) := by
  rw [wwIsZero_safe_spec w, h.val_take]
  by_cases h0 : val w u = 0 <;> simp [h0]

/-- `wwShHi(da, n + 1, 1)` doubles when there is room -/
theorem shHi1 {w : Nat} (hw : 0 < w) (x : List Nat) (hx : Wf w x) (n M : Nat)
    (hl : x.length = n + 1) (hM : M < 2 ^ (w * n)) (hb : val w x ≤ M) :
    val w (wwShHi w x 1) = val w x * 2 ∧ Wf w (wwShHi w x 1) ∧ (wwShHi w x 1).length = n + 1 := by
  obtain ⟨s1, s2, s3⟩ := wwShHi_spec hw x 1 hx
  have h2 := two_le_two_pow hw
  have hp : 2 ^ (w * (n + 1)) = 2 ^ w * 2 ^ (w * n) := by
    rw [Nat.mul_succ, Nat.pow_add, Nat.mul_comm]
  have : 2 * 2 ^ (w * n) ≤ 2 ^ w * 2 ^ (w * n) := Nat.mul_le_mul_right _ h2
  refine ⟨?_, s2, by rw [s1, hl]⟩
  rw [s3, hl, hp, Nat.pow_one]
  exact Nat.mod_eq_of_lt (by omega)

/-- `zzAdd2(x, y, n + 1)` without carry when there is room -/
theorem add2_room {w : Nat} (hw : 0 < w) (x y : List Nat) (hx : Wf w x) (hy : Wf w y) (n M : Nat)
    (hlx : x.length = n + 1) (hly : y.length = n + 1) (hM : M < 2 ^ (w * n))
    (hb : val w x + val w y ≤ 2 * M) :
    val w (zzAdd2 w x y).1 = val w x + val w y ∧ Wf w (zzAdd2 w x y).1
    ∧ (zzAdd2 w x y).1.length = n + 1 := by
  obtain ⟨a1, a2, a3, a4⟩ := zzAdd2_spec w x y hx hy (by rw [hlx, hly])
  have h2 := two_le_two_pow hw
  have hp : 2 ^ (w * (n + 1)) = 2 ^ w * 2 ^ (w * n) := by
    rw [Nat.mul_succ, Nat.pow_add, Nat.mul_comm]
  have : 2 * 2 ^ (w * n) ≤ 2 ^ w * 2 ^ (w * n) := Nat.mul_le_mul_right _ h2
  rw [hlx, hp] at a1
  have e := mul01 (2 ^ w * 2 ^ (w * n)) a2
  refine ⟨?_, a3, by rw [a4, hlx]⟩
  split_ifs at e <;> omega

/-- `zzSubW2(x + ny, nx - ny, zzSub2(x, y, ny)); wwShLo(x, nx, 1)` -/
theorem subHalf_spec {w : Nat} (hw : 0 < w) {x y : List Nat} {nx ny : Nat} (hx : Buf w x nx)
    (hy : Buf w y ny) (hn : ny ≤ nx) (hle : val w y ≤ val w x) :
    val w (subHalfW w x nx y ny) = (val w x - val w y) / 2
    ∧ Buf w (subHalfW w x nx y ny) nx ∧ (subHalfW w x nx y ny).length = x.length := by
  obtain ⟨s1, s2, s3⟩ := subNorm_spec hw hx hy hn hle
  obtain ⟨b1, b2, b3⟩ := shLo1_buf hw s2
  unfold subHalfW
  refine ⟨by rw [b3]; congr 1; omega, b1, by rw [b2, s3]⟩


theorem le_of_inv {M v da0 u da : Nat} (h : M = v * da0 + u * da) (hu : 0 < u) (hv : 0 < v) :
    da0 ≤ M ∧ da ≤ M := by
  have h1 : da0 ≤ v * da0 := Nat.le_mul_of_pos_left _ hv
  have h2 : da ≤ u * da := Nat.le_mul_of_pos_left _ hu
  omega

/-- the Kaliski loop: word level and value level in lockstep; da0, da never overflow their
    n + 1 words because `mod = v da0 + u da` with u, v ≥ 1 -/
theorem zzAlmostInvLoopW_spec {w : Nat} (hw : 0 < w) (n M : Nat) (hM : M < 2 ^ (w * n)) :
    ∀ (f : Nat) (u : List Nat) (nu : Nat) (v : List Nat) (nv : Nat) (da0 da : List Nat) (k : Nat),
      Buf w u nu → Buf w v nv → Norm w u nu → Norm w v nv →
      Wf w da0 → Wf w da → da0.length = n + 1 → da.length = n + 1 →
      0 < val w u → 0 < val w v → M = val w v * val w da0 + val w u * val w da →
      val w (zzAlmostInvLoopW w f u nu v nv da0 da k).1
          = (zzAlmostInvLoop f (val w u) (val w v) (val w da0) (val w da) k).1
      ∧ val w (zzAlmostInvLoopW w f u nu v nv da0 da k).2.2.1
          = (zzAlmostInvLoop f (val w u) (val w v) (val w da0) (val w da) k).2.1
      ∧ (zzAlmostInvLoopW w f u nu v nv da0 da k).2.2.2
          = (zzAlmostInvLoop f (val w u) (val w v) (val w da0) (val w da) k).2.2
      ∧ Buf w (zzAlmostInvLoopW w f u nu v nv da0 da k).1 (zzAlmostInvLoopW w f u nu v nv da0 da k).2.1
      ∧ Wf w (zzAlmostInvLoopW w f u nu v nv da0 da k).2.2.1
      ∧ (zzAlmostInvLoopW w f u nu v nv da0 da k).2.2.1.length = n + 1 := by
  intro f
  induction f with
  | zero =>
    intro u nu v nv da0 da k _ hv _ _ _ hda _ hdl _ _ _
    exact ⟨rfl, rfl, rfl, hv, hda, hdl⟩
  | succ f ih =>
    intro u nu v nv da0 da k hu hv hnu hnv hd0 hda hd0l hdal hup hvp hinv
    obtain ⟨hb0, hb1⟩ := le_of_inv hinv hup hvp
    unfold zzAlmostInvLoopW zzAlmostInvLoop
    rw [isEven_buf hw hv, isEven_buf hw hu]
    by_cases hve : val w v % 2 = 0
    · -- v even
      simp only [hve, decide_true, if_true]
      obtain ⟨b1, b2, b3⟩ := shLo1_buf hw hv
      obtain ⟨m1, m2, m3⟩ := wordSize_buf b1
      obtain ⟨s1, s2, s3⟩ := shHi1 hw da0 hd0 n M hd0l hM hb0
      rw [isZero_buf hu]
      simp only [hup.ne', ne_eq, not_false_eq_true, decide_true, if_true]
      have := ih u nu _ (wwWordSize ((onPrefixW nv (fun p => wwShLo w p 1) v).take nv)) _ da (k + 1)
        hu m1 hnu m3 s2 hda s3 hdal hup (by rw [b3]; omega)
        (by rw [b3, s1, hinv]
            obtain ⟨t, ht⟩ : ∃ t, val w v = 2 * t := ⟨val w v / 2, by omega⟩
            rw [ht, Nat.mul_div_cancel_left _ (by omega : 0 < 2)]; ring)
      rw [b3, s1] at this
      exact this
    · simp only [hve, decide_false, Bool.false_eq_true, if_false]
      by_cases hue : val w u % 2 = 0
      · -- u even
        simp only [hue, decide_true, if_true]
        obtain ⟨b1, b2, b3⟩ := shLo1_buf hw hu
        obtain ⟨m1, m2, m3⟩ := wordSize_buf b1
        obtain ⟨s1, s2, s3⟩ := shHi1 hw da hda n M hdal hM hb1
        rw [isZero_buf m1, b3]
        by_cases hz : val w u / 2 = 0
        · simp only [hz, ne_eq, not_true_eq_false, decide_false, Bool.false_eq_true, if_false]
          exact ⟨trivial, by rw [s1], trivial, hv, s2, s3⟩
        · simp only [hz, ne_eq, not_false_eq_true, decide_true, if_true]
          have := ih _ (wwWordSize ((onPrefixW nu (fun p => wwShLo w p 1) u).take nu)) v nv da0 _
            (k + 1) m1 hv m3 hnv hd0 s2 hd0l s3 (by rw [b3]; omega) hvp
            (by rw [b3, s1, hinv]
                obtain ⟨t, ht⟩ : ∃ t, val w u = 2 * t := ⟨val w u / 2, by omega⟩
                rw [ht, Nat.mul_div_cancel_left _ (by omega : 0 < 2)]; ring)
          rw [b3, s1] at this
          exact this
      · simp only [hue, decide_false, Bool.false_eq_true, if_false]
        by_cases hgt : val w u < val w v
        · -- v > u
          rw [if_pos ((cmp2_buf hv hu).mpr hgt), if_pos hgt]
          have hnn := norm_le hv hnu (by omega)
          obtain ⟨b1, b2, b3⟩ := subHalf_spec hw hv hu hnn (by omega)
          obtain ⟨m1, m2, m3⟩ := wordSize_buf b2
          obtain ⟨a1, a2, a3⟩ := add2_room hw da da0 hda hd0 n M hdal hd0l hM (by omega)
          obtain ⟨s1, s2, s3⟩ := shHi1 hw da0 hd0 n M hd0l hM hb0
          rw [isZero_buf hu]
          simp only [hup.ne', ne_eq, not_false_eq_true, decide_true, if_true]
          obtain ⟨t, ht⟩ : ∃ t, val w v = val w u + 2 * t := ⟨(val w v - val w u) / 2, by omega⟩
          have hhalf : (val w v - val w u) / 2 = t := by omega
          have := ih u nu _ (wwWordSize ((subHalfW w v nv u nu).take nv)) _ _ (k + 1)
            hu m1 hnu m3 s2 a2 s3 a3 hup (by rw [b1, hhalf]; omega)
            (by rw [b1, s1, a1, hinv, hhalf, ht]; ring)
          rw [b1, s1, a1] at this
          exact this
        · -- u ≥ v
          rw [if_neg (show ¬ wwCmp2_safe (v.take nv) (u.take nu) > 0 from
            fun h => hgt ((cmp2_buf hv hu).mp h)), if_neg (show ¬ val w v > val w u by omega)]
          have hnn := norm_le hu hnv (by omega)
          obtain ⟨b1, b2, b3⟩ := subHalf_spec hw hu hv hnn (by omega)
          obtain ⟨m1, m2, m3⟩ := wordSize_buf b2
          obtain ⟨a1, a2, a3⟩ := add2_room hw da0 da hd0 hda n M hd0l hdal hM (by omega)
          obtain ⟨s1, s2, s3⟩ := shHi1 hw da hda n M hdal hM hb1
          rw [isZero_buf m1, b1]
          obtain ⟨t, ht⟩ : ∃ t, val w u = val w v + 2 * t := ⟨(val w u - val w v) / 2, by omega⟩
          have hhalf : (val w u - val w v) / 2 = t := by omega
          by_cases hz : (val w u - val w v) / 2 = 0
          · simp only [hz, ne_eq, not_true_eq_false, decide_false, Bool.false_eq_true, if_false]
            exact ⟨trivial, by rw [s1], trivial, hv, s2, s3⟩
          · simp only [hz, ne_eq, not_false_eq_true, decide_true, if_true]
            have := ih _ (wwWordSize ((subHalfW w u nu v nv).take nu)) v nv _ _ (k + 1)
              m1 hv m3 hnv a2 s2 a3 s3 (by rw [b1]; omega) hvp
              (by rw [b1, s1, a1, hinv, hhalf, ht]; ring)
            rw [b1, s1, a1] at this
            exact this


/-- zzAlmostInvMod: the word-level model computes the value-level model
    (header: mod odd, mod[n-1] ≠ 0, 0 < a < mod) -/
theorem zzAlmostInvModW_refines {w : Nat} (hw : 0 < w) (a mod : List Nat) (ha : Wf w a)
    (hm : Wf w mod) (hal : a.length = mod.length) (hodd : val w mod % 2 = 1)
    (htop : Norm w mod mod.length) (hap : 0 < val w a) :
    val w (zzAlmostInvModW w a mod).1 = (zzAlmostInvModV (val w a) (val w mod)).1
    ∧ (zzAlmostInvModW w a mod).2 = (zzAlmostInvModV (val w a) (val w mod)).2
    ∧ Wf w (zzAlmostInvModW w a mod).1 ∧ (zzAlmostInvModW w a mod).1.length = mod.length := by
  have h2w := two_le_two_pow hw
  have hM := Add.val_lt hm
  have hMp : 0 < val w mod := by omega
  -- the initial buffers
  have hone : val w (1 :: List.replicate mod.length 0) = 1 := by
    rw [val_cons, val_replicate_zero']; simp
  have honeW : Wf w (1 :: List.replicate mod.length 0) :=
    Wf_cons.mpr ⟨by omega, Wf_replicate_zero' w _⟩
  have hz := val_replicate_zero' w (mod.length + 1)
  have hbu : Buf w a (wwWordSize a) ∧ Norm w a (wwWordSize a) := by
    obtain ⟨b1, _, b3⟩ := wordSize_buf (buf_full ha)
    rw [List.take_length] at b1 b3
    exact ⟨b1, b3⟩
  obtain ⟨l1, l2, l3, l4, l5, l6⟩ := zzAlmostInvLoopW_spec hw mod.length (val w mod) hM
    (val w a + val w mod) a (wwWordSize a) mod mod.length (1 :: List.replicate mod.length 0)
    (List.replicate (mod.length + 1) 0) 0 hbu.1 (buf_full hm) hbu.2 htop honeW
    (Wf_replicate_zero' w _) (by simp) List.length_replicate hap hMp (by rw [hone, hz]; ring)
  rw [hone, hz] at l1 l2 l3
  -- value-level bound da < 2 mod
  obtain ⟨_, _, g3, _⟩ := Gcd.zzAlmostInvLoop_spec (val w a) (val w mod) (val w a + val w mod)
    (val w a) (val w mod) 1 0 0 hap hMp (Or.inr hodd) rfl (Nat.le_refl _) (by ring) ⟨0, by simp⟩
    ⟨1, by simp⟩ (Nat.le_refl _)
  unfold zzAlmostInvModW zzAlmostInvModV
  simp only []
  rw [wwIsW_one hw _ (Wf_take l4.1 _), l4.val_take, l1, l3]
  generalize zzAlmostInvLoopW w (val w a + val w mod) a (wwWordSize a) mod mod.length
    (1 :: List.replicate mod.length 0) (List.replicate (mod.length + 1) 0) 0 = r at *
  generalize zzAlmostInvLoop (val w a + val w mod) (val w a) (val w mod) 1 0 0 = e at *
  by_cases h1 : e.1 = 1
  · simp only [h1, decide_true, Bool.not_true, Bool.false_eq_true, if_false, ne_eq,
      not_true_eq_false]
    -- da reduced once
    have hsplit := val_take_drop w r.2.2.1 mod.length (by omega)
    have hLt := Add.val_lt (Wf_take l5 mod.length)
    rw [List.length_take, l6, Nat.min_eq_left (by omega)] at hLt
    rw [l2] at hsplit
    have hlo : val w (if wwCmp2_safe r.2.2.1 mod ≥ 0 then (zzSub2 w (r.2.2.1.take mod.length) mod).1
          else r.2.2.1.take mod.length)
          = (if e.2.1 ≥ val w mod then e.2.1 - val w mod else e.2.1)
        ∧ Wf w (if wwCmp2_safe r.2.2.1 mod ≥ 0 then (zzSub2 w (r.2.2.1.take mod.length) mod).1
          else r.2.2.1.take mod.length)
        ∧ (if wwCmp2_safe r.2.2.1 mod ≥ 0 then (zzSub2 w (r.2.2.1.take mod.length) mod).1
          else r.2.2.1.take mod.length).length = mod.length := by
      have hcmp : wwCmp2_safe r.2.2.1 mod ≥ 0 ↔ val w mod ≤ e.2.1 := by
        rw [wwCmp2_safe_spec w _ _ l5 hm, l2]; split_ifs <;> omega
      have htl : (r.2.2.1.take mod.length).length = mod.length := by
        rw [List.length_take, l6]; omega
      by_cases hge : val w mod ≤ e.2.1
      · rw [if_pos (hcmp.mpr hge), if_pos hge]
        obtain ⟨s1, s2, s3, s4⟩ := zzSub2_spec w (r.2.2.1.take mod.length) mod (Wf_take l5 _) hm htl
        rw [htl] at s1
        have hs := Add.val_lt s3
        rw [s4, htl] at hs
        have hb : (zzSub2 w (r.2.2.1.take mod.length) mod).2 ≤ 1 := by rw [s2]; split_ifs <;> omega
        refine ⟨?_, s3, by rw [s4, htl]⟩
        have hr : e.2.1 - val w mod < 2 ^ (w * mod.length) := by omega
        refine (cons_inj_aux (B := 2 ^ (w * mod.length)) (u := val w (r.2.2.1.drop mod.length))
          (v := (zzSub2 w (r.2.2.1.take mod.length) mod).2) hs hr ?_).1
        omega
      · rw [if_neg (fun h => hge (hcmp.mp h)), if_neg hge]
        refine ⟨?_, Wf_take l5 _, htl⟩
        have hT : val w (r.2.2.1.drop mod.length) = 0 := by
          rcases Nat.eq_zero_or_pos (val w (r.2.2.1.drop mod.length)) with h | h
          · exact h
          · exfalso
            have : 2 ^ (w * mod.length) * 1 ≤ 2 ^ (w * mod.length) * val w (r.2.2.1.drop mod.length) :=
              Nat.mul_le_mul_left _ h
            omega
        rw [hT] at hsplit; omega
    obtain ⟨q1, q2, q3⟩ := hlo
    generalize (if wwCmp2_safe r.2.2.1 mod ≥ 0 then (zzSub2 w (r.2.2.1.take mod.length) mod).1
          else r.2.2.1.take mod.length) = lo at *
    have hlt : val w lo < val w mod := by rw [q1]; split_ifs <;> omega
    obtain ⟨n1, _, n3, n4⟩ := zzNegMod_safe_spec w lo mod q2 hm q3 hlt
    refine ⟨?_, trivial, n3, by rw [n4, q3]⟩
    rw [n1, q1]
    unfold zzNegModV
    generalize (if e.2.1 ≥ val w mod then e.2.1 - val w mod else e.2.1) = x at *
    by_cases hx : x = 0
    · rw [if_pos hx, hx, Nat.sub_zero, Nat.mod_self]
    · rw [if_neg hx, Nat.mod_eq_of_lt (by omega)]
  · simp only [h1, decide_false, Bool.not_false, if_true, ne_eq, not_false_eq_true]
    exact ⟨val_replicate_zero' w _, trivial, Wf_replicate_zero' w _, List.length_replicate⟩


/-! ## zzExGCD -/

/-- `wwShLoCarry(x, n, 1, zzAdd2(x, lim, n))`: x <- (x + lim) / 2 -/
theorem halfPlus {w : Nat} (hw : 0 < w) (x lim : List Nat) (hx : Wf w x) (hl : Wf w lim)
    (hlen : x.length = lim.length) :
    val w (wwShLoCarry w (zzAdd2 w x lim).1 1 (zzAdd2 w x lim).2).1 = (val w x + val w lim) / 2
    ∧ Wf w (wwShLoCarry w (zzAdd2 w x lim).1 1 (zzAdd2 w x lim).2).1
    ∧ (wwShLoCarry w (zzAdd2 w x lim).1 1 (zzAdd2 w x lim).2).1.length = x.length := by
  obtain ⟨a1, a2, a3, a4⟩ := zzAdd2_spec w x lim hx hl hlen
  have h2w := two_le_two_pow hw
  obtain ⟨c1, c2, c3, _⟩ := wwShLoCarry_spec hw (zzAdd2 w x lim).1 1 (zzAdd2 w x lim).2 a3 (by omega)
  refine ⟨?_, c2, by rw [c1, a4]⟩
  rw [c3, a4, Nat.mul_comm (zzAdd2 w x lim).2, a1, Nat.pow_one]
  apply Nat.mod_eq_of_lt
  have := Add.val_lt hx
  have := Add.val_lt hl
  rw [← hlen] at this
  omega

/-- the word-level halving loop of zzExGCD runs in lockstep with the value-level one -/
theorem exHalveW_spec {w : Nat} (hw : 0 < w) (aa bb : List Nat) (haa : Wf w aa) (hbb : Wf w bb)
    (nu : Nat) :
    ∀ (f : Nat) (u da db : List Nat), Buf w u nu → Wf w da → Wf w db →
      da.length = bb.length → db.length = aa.length →
      val w (exHalveW w aa bb nu f u da db).1 = (halveEx (val w aa) (val w bb) f (val w u) (val w da) (val w db)).1
      ∧ val w (exHalveW w aa bb nu f u da db).2.1
          = (halveEx (val w aa) (val w bb) f (val w u) (val w da) (val w db)).2.1
      ∧ val w (exHalveW w aa bb nu f u da db).2.2
          = (halveEx (val w aa) (val w bb) f (val w u) (val w da) (val w db)).2.2
      ∧ Buf w (exHalveW w aa bb nu f u da db).1 nu
      ∧ (exHalveW w aa bb nu f u da db).1.length = u.length
      ∧ Wf w (exHalveW w aa bb nu f u da db).2.1
      ∧ (exHalveW w aa bb nu f u da db).2.1.length = bb.length
      ∧ Wf w (exHalveW w aa bb nu f u da db).2.2
      ∧ (exHalveW w aa bb nu f u da db).2.2.length = aa.length := by
  intro f
  induction f with
  | zero => intro u da db hb hda hdb hl1 hl2; exact ⟨rfl, rfl, rfl, hb, rfl, hda, hl1, hdb, hl2⟩
  | succ f ih =>
    intro u da db hb hda hdb hl1 hl2
    unfold exHalveW halveEx
    rw [head_parity hw u, head_parity hw da, head_parity hw db]
    by_cases he : val w u % 2 = 0
    · rw [if_pos he, if_pos he]
      obtain ⟨b1, b2, b3⟩ := shLo1_buf hw hb
      by_cases hboth : val w da % 2 = 0 ∧ val w db % 2 = 0
      · rw [if_pos hboth, if_pos hboth]
        obtain ⟨s1, s2, s3⟩ := wwShLo_spec hw da 1 hda
        obtain ⟨t1, t2, t3⟩ := wwShLo_spec hw db 1 hdb
        obtain ⟨i1, i2, i3, i4, i5, i6, i7, i8, i9⟩ := ih _ _ _ b1 s2 t2 (by rw [s1, hl1])
          (by rw [t1, hl2])
        rw [b3, s3, t3, Nat.pow_one] at i1 i2 i3
        exact ⟨i1, i2, i3, i4, by rw [i5, b2], i6, i7, i8, i9⟩
      · rw [if_neg hboth, if_neg hboth]
        obtain ⟨s1, s2, s3⟩ := halfPlus hw da bb hda hbb hl1
        obtain ⟨t1, t2, t3⟩ := halfPlus hw db aa hdb haa hl2
        simp only []
        obtain ⟨i1, i2, i3, i4, i5, i6, i7, i8, i9⟩ := ih _ _ _ b1 s2 t2 (by rw [s3, hl1])
          (by rw [t3, hl2])
        rw [b3, s1, t1] at i1 i2 i3
        exact ⟨i1, i2, i3, i4, by rw [i5, b2], i6, i7, i8, i9⟩
    · rw [if_neg he, if_neg he]
      exact ⟨rfl, rfl, rfl, hb, rfl, hda, hl1, hdb, hl2⟩

/-- `if (zzAdd2(x, y, n) || wwCmp(x, lim, n) > 0) zzSub2(x, lim, n)` is the value-level addCorr,
    as long as x + y ≤ 2 lim -/
theorem addCorrW_spec {w : Nat} (x y lim : List Nat) (hx : Wf w x) (hy : Wf w y) (hl : Wf w lim)
    (hl1 : x.length = y.length) (hl2 : x.length = lim.length)
    (hsum : val w x + val w y ≤ 2 * val w lim) :
    val w (addCorrW w x y lim) = addCorr (val w x) (val w y) (val w lim)
    ∧ Wf w (addCorrW w x y lim) ∧ (addCorrW w x y lim).length = lim.length := by
  obtain ⟨a1, a2, a3, a4⟩ := zzAdd2_spec w x y hx hy hl1
  obtain ⟨s1, s2, s3, s4⟩ := zzSub2_spec w (zzAdd2 w x y).1 lim a3 hl (a4.trans hl2)
  have hcmp := wwCmp_safe_spec w (zzAdd2 w x y).1 lim a3 hl (a4.trans hl2)
  have hr := Add.val_lt a3
  have hs := Add.val_lt s3
  have hlim := Add.val_lt hl
  rw [s4, a4, hl2] at hs
  rw [a4, hl2] at hr s1
  rw [hl2] at a1
  unfold addCorrW addCorr
  simp only []
  generalize zzAdd2 w x y = r at *
  generalize zzSub2 w r.1 lim = sb at *
  have e1 := mul01 (2 ^ (w * lim.length)) a2
  have hb : sb.2 ≤ 1 := by rw [s2]; split_ifs <;> omega
  have e2 := mul01 (2 ^ (w * lim.length)) hb
  by_cases hc : r.2 ≠ 0 ∨ wwCmp_safe r.1 lim > 0
  · rw [if_pos hc]
    have hgt : val w x + val w y > val w lim := by
      rcases hc with hc | hc
      · split_ifs at e1 <;> omega
      · rw [hcmp] at hc
        split_ifs at hc e1 <;> omega
    rw [if_pos hgt]
    refine ⟨?_, s3, by rw [s4, a4, hl2]⟩
    split_ifs at e1 e2 <;> omega
  · rw [if_neg hc]
    have hc0 : r.2 = 0 := by
      by_contra h; exact hc (Or.inl h)
    have hle : ¬ val w x + val w y > val w lim := by
      intro hgt
      apply hc; right
      rw [hcmp]
      rw [hc0] at a1
      split_ifs <;> omega
    rw [if_neg hle]
    rw [hc0] at a1
    exact ⟨by omega, a3, by rw [a4, hl2]⟩


theorem halveEx_le (aa bb : Nat) : ∀ f u da db, da ≤ bb → db ≤ aa →
    (halveEx aa bb f u da db).2.1 ≤ bb ∧ (halveEx aa bb f u da db).2.2 ≤ aa := by
  intro f
  induction f with
  | zero => intro u da db h1 h2; exact ⟨h1, h2⟩
  | succ f ih =>
    intro u da db h1 h2
    unfold halveEx
    split
    · split
      · exact ih _ _ _ (by omega) (by omega)
      · exact ih _ _ _ (by omega) (by omega)
    · exact ⟨h1, h2⟩

theorem addCorr_le {x y lim : Nat} (h : x + y ≤ 2 * lim) : addCorr x y lim ≤ lim := by
  unfold addCorr; split_ifs <;> omega

/-- the main loop of zzExGCD: word level and value level in lockstep -/
theorem zzExGCDLoopW_spec {w : Nat} (hw : 0 < w) (aa bb : List Nat) (haa : Wf w aa) (hbb : Wf w bb) :
    ∀ (f : Nat) (u : List Nat) (nu : Nat) (v : List Nat) (mv : Nat) (da db da1 db1 : List Nat),
      Buf w u nu → Buf w v mv → Wf w da → Wf w db → Wf w da1 → Wf w db1 →
      da.length = bb.length → db.length = aa.length → da1.length = bb.length → db1.length = aa.length →
      val w da ≤ val w bb → val w db ≤ val w aa → val w da1 ≤ val w bb → val w db1 ≤ val w aa →
      val w (zzExGCDLoopW w aa bb f u nu v mv da db da1 db1).1
        = (zzExGCDLoop (val w aa) (val w bb) f (val w u) (val w v) (val w da) (val w db) (val w da1) (val w db1)).1
      ∧ val w (zzExGCDLoopW w aa bb f u nu v mv da db da1 db1).2.2.1
        = (zzExGCDLoop (val w aa) (val w bb) f (val w u) (val w v) (val w da) (val w db) (val w da1) (val w db1)).2.1
      ∧ val w (zzExGCDLoopW w aa bb f u nu v mv da db da1 db1).2.2.2
        = (zzExGCDLoop (val w aa) (val w bb) f (val w u) (val w v) (val w da) (val w db) (val w da1) (val w db1)).2.2
      ∧ Buf w (zzExGCDLoopW w aa bb f u nu v mv da db da1 db1).1
          (zzExGCDLoopW w aa bb f u nu v mv da db da1 db1).2.1
      ∧ (zzExGCDLoopW w aa bb f u nu v mv da db da1 db1).1.length = u.length
      ∧ Wf w (zzExGCDLoopW w aa bb f u nu v mv da db da1 db1).2.2.1
      ∧ (zzExGCDLoopW w aa bb f u nu v mv da db da1 db1).2.2.1.length = bb.length
      ∧ Wf w (zzExGCDLoopW w aa bb f u nu v mv da db da1 db1).2.2.2
      ∧ (zzExGCDLoopW w aa bb f u nu v mv da db da1 db1).2.2.2.length = aa.length := by
  intro f
  induction f with
  | zero =>
    intro u nu v mv da db da1 db1 hu _ hda hdb _ _ l1 l2 _ _ _ _ _ _
    exact ⟨rfl, rfl, rfl, hu, rfl, hda, l1, hdb, l2⟩
  | succ f ih =>
    intro u nu v mv da db da1 db1 hu hv hda hdb hda1 hdb1 l1 l2 l3 l4 b1 b2 b3 b4
    unfold zzExGCDLoopW zzExGCDLoop
    simp only []
    obtain ⟨p1, p2, p3, p4, p5, p6, p7, p8, p9⟩ := exHalveW_spec hw aa bb haa hbb nu (val w u) u da db
      hu hda hdb l1 l2
    obtain ⟨q1, q2, q3, q4, q5, q6, q7, q8, q9⟩ := exHalveW_spec hw aa bb haa hbb mv (val w v) v da1 db1
      hv hda1 hdb1 l3 l4
    obtain ⟨pb1, pb2⟩ := halveEx_le (val w aa) (val w bb) (val w u) (val w u) (val w da) (val w db) b1 b2
    obtain ⟨qb1, qb2⟩ := halveEx_le (val w aa) (val w bb) (val w v) (val w v) (val w da1) (val w db1) b3 b4
    rw [← p2] at pb1
    rw [← p3] at pb2
    rw [← q2] at qb1
    rw [← q3] at qb2
    rw [← p1, ← p2, ← p3, ← q1, ← q2, ← q3]
    generalize exHalveW w aa bb nu (val w u) u da db = r at *
    generalize exHalveW w aa bb mv (val w v) v da1 db1 = r1 at *
    obtain ⟨n1, n2, n3⟩ := wordSize_buf p4
    obtain ⟨m1, m2, m3⟩ := wordSize_buf q4
    generalize wwWordSize (r.1.take nu) = nu' at *
    generalize wwWordSize (r1.1.take mv) = mv' at *
    by_cases hgt : val w r1.1 < val w r.1
    · rw [if_pos ((cmp2_buf n1 m1).mpr hgt), if_pos hgt]
      have hnn := norm_le n1 m3 (by omega)
      obtain ⟨s1, s2, s3⟩ := subNorm_spec hw n1 m1 hnn (by omega)
      have hsv : val w (subNormW w r.1 nu' r1.1 mv') = val w r.1 - val w r1.1 := by omega
      obtain ⟨a1, a2, a3⟩ := addCorrW_spec r.2.1 r1.2.1 bb p6 q6 hbb (by rw [p7, q7]) p7 (by omega)
      obtain ⟨c1, c2, c3⟩ := addCorrW_spec r.2.2 r1.2.2 aa p8 q8 haa (by rw [p9, q9]) p9 (by omega)
      have ha_le := addCorr_le (x := val w r.2.1) (y := val w r1.2.1) (lim := val w bb) (by omega)
      have hc_le := addCorr_le (x := val w r.2.2) (y := val w r1.2.2) (lim := val w aa) (by omega)
      rw [isZero_buf m1]
      by_cases hv0 : val w r1.1 = 0
      · simp only [hv0, ne_eq, not_true_eq_false, decide_false, Bool.false_eq_true, if_false]
        rw [hv0] at hsv
        exact ⟨by rw [hsv], a1, c1, s2, by rw [s3, p5], a2, a3, c2, c3⟩
      · simp only [hv0, ne_eq, not_false_eq_true, decide_true, if_true]
        have := ih (subNormW w r.1 nu' r1.1 mv') nu' r1.1 mv' (addCorrW w r.2.1 r1.2.1 bb)
          (addCorrW w r.2.2 r1.2.2 aa) r1.2.1 r1.2.2 s2 m1 a2 c2 q6 q8 a3 c3 q7 q9
          (by rw [a1]; exact ha_le) (by rw [c1]; exact hc_le) qb1 qb2
        rw [hsv, a1, c1] at this
        obtain ⟨i1, i2, i3, i4, i5, i6, i7, i8, i9⟩ := this
        exact ⟨i1, i2, i3, i4, by rw [i5, s3, p5], i6, i7, i8, i9⟩
    · rw [if_neg (show ¬ wwCmp2_safe (r.1.take nu') (r1.1.take mv') > 0 from
        fun h => hgt ((cmp2_buf n1 m1).mp h)), if_neg (show ¬ val w r.1 > val w r1.1 by omega)]
      have hnn := norm_le m1 n3 (by omega)
      obtain ⟨s1, s2, s3⟩ := subNorm_spec hw m1 n1 hnn (by omega)
      have hsv : val w (subNormW w r1.1 mv' r.1 nu') = val w r1.1 - val w r.1 := by omega
      obtain ⟨a1, a2, a3⟩ := addCorrW_spec r1.2.1 r.2.1 bb q6 p6 hbb (by rw [p7, q7]) q7 (by omega)
      obtain ⟨c1, c2, c3⟩ := addCorrW_spec r1.2.2 r.2.2 aa q8 p8 haa (by rw [p9, q9]) q9 (by omega)
      have ha_le := addCorr_le (x := val w r1.2.1) (y := val w r.2.1) (lim := val w bb) (by omega)
      have hc_le := addCorr_le (x := val w r1.2.2) (y := val w r.2.2) (lim := val w aa) (by omega)
      rw [isZero_buf s2, hsv]
      by_cases hv0 : val w r1.1 - val w r.1 = 0
      · simp only [hv0, ne_eq, not_true_eq_false, decide_false, Bool.false_eq_true, if_false]
        exact ⟨trivial, trivial, trivial, n1, p5, p6, p7, p8, p9⟩
      · simp only [hv0, ne_eq, not_false_eq_true, decide_true, if_true]
        have := ih r.1 nu' (subNormW w r1.1 mv' r.1 nu') mv' r.2.1 r.2.2 (addCorrW w r1.2.1 r.2.1 bb)
          (addCorrW w r1.2.2 r.2.2 aa) n1 s2 p6 p8 a2 c2 p7 p9 a3 c3 pb1 pb2
          (by rw [a1]; exact ha_le) (by rw [c1]; exact hc_le)
        rw [hsv, a1, c1] at this
        obtain ⟨i1, i2, i3, i4, i5, i6, i7, i8, i9⟩ := this
        exact ⟨i1, i2, i3, i4, by rw [i5, p5], i6, i7, i8, i9⟩


/-- `wwCopy(d, u, nu)` into the zeroed k-word buffer, for a value that fits k words -/
theorem padTake {w : Nat} (p : List Nat) (k : Nat) (hp : Wf w p) (hv : val w p < 2 ^ (w * k)) :
    val w ((p ++ List.replicate (k - p.length) 0).take k) = val w p
    ∧ ((p ++ List.replicate (k - p.length) 0).take k).length = k
    ∧ Wf w ((p ++ List.replicate (k - p.length) 0).take k)
    ∧ val w (((p ++ List.replicate (k - p.length) 0).take k).take p.length) = val w p := by
  have hW : Wf w ((p ++ List.replicate (k - p.length) 0).take k) :=
    Wf_take (Wf_append.mpr ⟨hp, Wf_replicate_zero' w _⟩) _
  by_cases hle : p.length ≤ k
  · refine ⟨pad_val w p _ k hle, ?_, hW, ?_⟩
    · rw [List.length_take, List.length_append, List.length_replicate]; omega
    · rw [List.take_take, pad_val w p _ _ (by omega)]
  · have h0 : k - p.length = 0 := by omega
    have hd : (p ++ List.replicate (k - p.length) 0).take k = p.take k := by
      rw [h0]; simp
    rw [hd]
    have hsplit := val_take_drop w p k (by omega)
    have hlt := Add.val_lt (Wf_take hp k)
    rw [List.length_take, Nat.min_eq_left (by omega)] at hlt
    have hz : val w (p.drop k) = 0 := by
      rcases Nat.eq_zero_or_pos (val w (p.drop k)) with h | h
      · exact h
      · exfalso
        have : 2 ^ (w * k) * 1 ≤ 2 ^ (w * k) * val w (p.drop k) := Nat.mul_le_mul_left _ h
        omega
    rw [hz, Nat.mul_zero, Nat.add_zero] at hsplit
    refine ⟨hsplit.symm, by rw [List.length_take]; omega, Wf_take hp k, ?_⟩
    rw [List.take_take, Nat.min_eq_right (by omega)]
    exact hsplit.symm

/-- the final `wwShHi(d, W_OF_B(wwBitSize(d, j) + s), s)` on the window -/
theorem finalShift {w : Nat} (hw : 0 < w) (hs : SizesOK w) (d : List Nat) (k s G j : Nat)
    (hdW : Wf w d) (hdl : d.length = k) (hdv : val w d = G) (hdm : val w (d.take j) = G)
    (hG2 : G * 2 ^ s < 2 ^ (w * k)) :
    val w (onPrefixW ((wwBitSize w (d.take j) + s + w - 1) / w) (fun p => wwShHi w p s) d) = G * 2 ^ s
    ∧ Wf w (onPrefixW ((wwBitSize w (d.take j) + s + w - 1) / w) (fun p => wwShHi w p s) d)
    ∧ (onPrefixW ((wwBitSize w (d.take j) + s + w - 1) / w) (fun p => wwShHi w p s) d).length = k := by
  obtain ⟨⟨z1, _⟩, _⟩ := hs (d.take j) (Wf_take hdW _)
  rw [hdm] at z1
  generalize wwBitSize w (d.take j) = bits at *
  generalize hwin : (bits + s + w - 1) / w = win at *
  have hwin2 : bits + s ≤ w * win := by
    rw [← hwin]
    have := Nat.div_add_mod (bits + s + w - 1) w
    have := Nat.mod_lt (bits + s + w - 1) hw
    omega
  have hG1 : G * 2 ^ s < 2 ^ (w * win) := by
    calc G * 2 ^ s < 2 ^ bits * 2 ^ s := Nat.mul_lt_mul_of_pos_right z1 (Nat.two_pow_pos s)
      _ = 2 ^ (bits + s) := (Nat.pow_add 2 bits s).symm
      _ ≤ 2 ^ (w * win) := Nat.pow_le_pow_right (by omega) hwin2
  have hpos : 0 < 2 ^ s := Nat.two_pow_pos s
  have hGle : G ≤ G * 2 ^ s := Nat.le_mul_of_pos_right _ hpos
  unfold onPrefixW
  obtain ⟨t1, t2, t3⟩ := wwShHi_spec hw (d.take win) s (Wf_take hdW _)
  by_cases hwk : win ≤ d.length
  · have htl : (d.take win).length = win := by rw [List.length_take]; omega
    have hsplit := val_take_drop w d win hwk
    rw [hdv] at hsplit
    have hlt := Add.val_lt (Wf_take hdW win)
    rw [htl] at hlt
    have hdz : val w (d.drop win) = 0 := by
      rcases Nat.eq_zero_or_pos (val w (d.drop win)) with h | h
      · exact h
      · exfalso
        have : 2 ^ (w * win) * 1 ≤ 2 ^ (w * win) * val w (d.drop win) := Nat.mul_le_mul_left _ h
        omega
    rw [hdz, Nat.mul_zero, Nat.add_zero] at hsplit
    rw [htl, ← hsplit, Nat.mod_eq_of_lt hG1] at t3
    refine ⟨?_, Wf_append.mpr ⟨t2, Wf_drop hdW _⟩, ?_⟩
    · rw [val_append, t3, hdz, Nat.mul_zero, Nat.add_zero]
    · rw [List.length_append, t1, htl, List.length_drop, hdl]; omega
  · have htk : d.take win = d := List.take_of_length_le (by omega)
    rw [htk] at t1 t2 t3 ⊢
    have hdd : d.drop win = [] := List.drop_of_length_le (by omega)
    rw [hdd, List.append_nil]
    rw [hdv, hdl, Nat.mod_eq_of_lt hG2] at t3
    exact ⟨t3, t2, by rw [t1, hdl]⟩

theorem val_pad (w : Nat) (x : List Nat) (j : Nat) :
    val w (x ++ List.replicate j 0) = val w x := by
  rw [val_append, val_replicate_zero']; simp

/-- the first j ≥ 1 words of `wwSetW(·, 1)` -/
theorem oneTake {w : Nat} (hw : 0 < w) (t j : Nat) (hj : 0 < j) (hjt : j ≤ t) :
    val w ((1 :: List.replicate (t - 1) 0).take j) = 1
    ∧ Wf w ((1 :: List.replicate (t - 1) 0).take j)
    ∧ ((1 :: List.replicate (t - 1) 0).take j).length = j := by
  obtain ⟨i, rfl⟩ : ∃ i, j = i + 1 := ⟨j - 1, by omega⟩
  have h2 := two_le_two_pow hw
  rw [List.take_succ_cons]
  have hz : val w ((List.replicate (t - 1) 0).take i) = 0 := by
    rw [val_eq_zero_iff]; intro x hx
    exact (List.mem_replicate.mp (List.mem_of_mem_take hx)).2
  refine ⟨by rw [val_cons, hz]; simp, Wf_cons.mpr ⟨by omega, Wf_take (Wf_replicate_zero' w _) _⟩, ?_⟩
  rw [List.length_cons, List.length_take, List.length_replicate]; omega


/-- zzExGCD: the word-level model computes the value-level model -/
theorem zzExGCDW_refines {w : Nat} (hw : 0 < w) (hs : SizesOK w) (a b : List Nat)
    (ha : Wf w a) (hb : Wf w b) (hap : 0 < val w a) (hbp : 0 < val w b) :
    val w (zzExGCDW w a b).1 = (zzExGCDV (val w a) (val w b)).1
    ∧ val w (zzExGCDW w a b).2.1 = (zzExGCDV (val w a) (val w b)).2.1
    ∧ val w (zzExGCDW w a b).2.2 = (zzExGCDV (val w a) (val w b)).2.2
    ∧ Wf w (zzExGCDW w a b).1 ∧ (zzExGCDW w a b).1.length = min a.length b.length
    ∧ Wf w (zzExGCDW w a b).2.1 ∧ (zzExGCDW w a b).2.1.length = b.length
    ∧ Wf w (zzExGCDW w a b).2.2 ∧ (zzExGCDW w a b).2.2.length = a.length := by
  obtain ⟨c1, c2, c3, c4, c5⟩ := Gcd.shift_common hap hbp
  obtain ⟨hgcd, _, _, _⟩ := zzExGCDV_spec (val w a) (val w b) hap hbp
  unfold zzExGCDW
  unfold zzExGCDV at hgcd ⊢
  simp only [] at *
  rw [lz_eq hs a ha hap, lz_eq hs b hb hbp]
  generalize min (loZeros (val w a)) (loZeros (val w b)) = s at *
  -- aa, bb
  obtain ⟨u1, u2, u3⟩ := wwShLo_spec hw a s ha
  obtain ⟨v1, v2, v3⟩ := wwShLo_spec hw b s hb
  have hbu := (wordSize_buf (buf_full u2)).1
  have hbv := (wordSize_buf (buf_full v2)).1
  rw [List.take_length] at hbu hbv
  have hnle := (wwWordSize_spec (wwShLo w a s)).1
  have hmle := (wwWordSize_spec (wwShLo w b s)).1
  rw [u1] at hnle
  rw [v1] at hmle
  generalize wwShLo w a s = aa0 at *
  generalize wwShLo w b s = bb0 at *
  have haaV : val w (aa0.take (wwWordSize aa0)) = val w a / 2 ^ s := by rw [hbu.val_take, u3]
  have hbbV : val w (bb0.take (wwWordSize bb0)) = val w b / 2 ^ s := by rw [hbv.val_take, v3]
  have haaW := Wf_take u2 (wwWordSize aa0)
  have hbbW := Wf_take v2 (wwWordSize bb0)
  have haaL : (aa0.take (wwWordSize aa0)).length = wwWordSize aa0 := by
    rw [List.length_take, u1]; omega
  have hbbL : (bb0.take (wwWordSize bb0)).length = wwWordSize bb0 := by
    rw [List.length_take, v1]; omega
  have hnpos : 0 < wwWordSize aa0 := by
    rcases Nat.eq_zero_or_pos (wwWordSize aa0) with h | h
    · exfalso; rw [h] at haaV; simp [val] at haaV; omega
    · exact h
  have hmpos : 0 < wwWordSize bb0 := by
    rcases Nat.eq_zero_or_pos (wwWordSize bb0) with h | h
    · exfalso; rw [h] at hbbV; simp [val] at hbbV; omega
    · exact h
  generalize hn : wwWordSize aa0 = n at *
  generalize hm : wwWordSize bb0 = m at *
  generalize aa0.take n = aa at *
  generalize bb0.take m = bb at *
  -- the coefficient buffers
  obtain ⟨o1, o2, o3⟩ := oneTake hw b.length m hmpos hmle
  obtain ⟨p1, p2, p3⟩ := oneTake hw a.length n hnpos hnle
  have hz1 := val_replicate_zero' w n
  have hz2 := val_replicate_zero' w m
  have hbufA : Buf w aa n := by have := buf_full haaW; rwa [haaL] at this
  have hbufB : Buf w bb m := by have := buf_full hbbW; rwa [hbbL] at this
  obtain ⟨l1, l2, l3, l4, l5, l6, l7, l8, l9⟩ := zzExGCDLoopW_spec hw aa bb haaW hbbW
    (val w aa + val w bb) aa n bb m ((1 :: List.replicate (b.length - 1) 0).take m)
    (List.replicate n 0) (List.replicate m 0) ((1 :: List.replicate (a.length - 1) 0).take n)
    hbufA hbufB o2 (Wf_replicate_zero' w _) (Wf_replicate_zero' w _) p2
    (by rw [o3, hbbL]) (by rw [List.length_replicate, haaL]) (by rw [List.length_replicate, hbbL])
    (by rw [p3, haaL]) (by rw [o1, hbbV]; omega) (by rw [hz1]; omega) (by rw [hz2]; omega)
    (by rw [p1, haaV]; omega)
  generalize zzExGCDLoopW w aa bb (val w aa + val w bb) aa n bb m
    ((1 :: List.replicate (b.length - 1) 0).take m) (List.replicate n 0) (List.replicate m 0)
    ((1 :: List.replicate (a.length - 1) 0).take n) = r at *
  rw [o1, hz1, hz2, p1, haaV, hbbV] at l1 l2 l3
  generalize zzExGCDLoop (val w a / 2 ^ s) (val w b / 2 ^ s) (val w a / 2 ^ s + val w b / 2 ^ s)
    (val w a / 2 ^ s) (val w b / 2 ^ s) 1 0 0 1 = e at *
  -- G 2^s = gcd fits k words
  have hG2 : e.1 * 2 ^ s < 2 ^ (w * min a.length b.length) := by
    rw [hgcd]
    have g1 : Nat.gcd (val w a) (val w b) ≤ val w a := Nat.gcd_le_left _ hap
    have g2 : Nat.gcd (val w a) (val w b) ≤ val w b := Nat.gcd_le_right _ hbp
    have a1 := Add.val_lt ha
    have b1' := Add.val_lt hb
    rcases Nat.le_total a.length b.length with h | h
    · rw [Nat.min_eq_left h]; omega
    · rw [Nat.min_eq_right h]; omega
  have hGk : e.1 < 2 ^ (w * min a.length b.length) :=
    Nat.lt_of_le_of_lt (Nat.le_mul_of_pos_right _ (Nat.two_pow_pos s)) hG2
  have hpl : (r.1.take r.2.1).length = r.2.1 := by
    rw [List.length_take]; exact Nat.min_eq_left l4.2.1
  obtain ⟨d1, d2, d3, d4⟩ := padTake (r.1.take r.2.1) (min a.length b.length) (Wf_take l4.1 _)
    (by rw [l4.val_take, l1]; exact hGk)
  rw [hpl] at d1 d2 d3 d4
  rw [l4.val_take, l1] at d1 d4
  obtain ⟨f1, f2, f3⟩ := finalShift hw hs _ (min a.length b.length) s e.1 r.2.1 d3 d2 d1 d4 hG2
  refine ⟨f1, (by rw [val_pad, l2]), (by rw [val_pad, l3]), f2, f3,
    Wf_append.mpr ⟨l6, Wf_replicate_zero' w _⟩,
    (by rw [List.length_append, l7, hbbL, List.length_replicate]; omega),
    Wf_append.mpr ⟨l8, Wf_replicate_zero' w _⟩,
    (by rw [List.length_append, l9, haaL, List.length_replicate]; omega)⟩

end Bee2V.C05.GcdW

/-
C05 — zzDiv / zzMod (Knuth's algorithm D, src/math/zz/zz_mul.c): property theorems about the
code-shaped models `zzDiv` / `zzMod` of ModelDiv.lean, for every word size and all lengths, under
the header's preconditions (m ≥ 1, b[m-1] ≠ 0, and n ≥ m for zzDiv).

The proof follows the code: both shortcuts (a < b; m = 1 via zzDivW), normalisation by
`clz(b[m-1])`, the digit loop with invariant `val divident < val divisor · B^cnt`, per digit the
trial quotient min(U2 / v1, B-1), the refinement `while` (invariant `val mul = q̂·V2`, it stops at the
largest q̂ with q̂·V2 ≤ U3, so q ≤ q̂ ≤ q+1; the fuel of the model is never exhausted), multiply-subtract
with the borrow test `divident[i] > ~borrow ⇔ u < q̂·v`, the add-back, and denormalisation.
Normalisation is NOT needed for correctness (only `v1 ≥ 1` is used), it only bounds the number of
refinement steps.  `clz`/`shHi`/`shLo` are the value-level models of wordCLZ/wwShHi/wwShLo local to
ModelDiv.lean (their tie to ww.c is by the differential run only).
-/
import Bee2V.C05.LemmasDiv
namespace Bee2V.C05
open Bee2V.C05.Div

/-- zzDiv: `a = q·b + r`, `r < b`, `q` has n - m + 1 words, `r` has m words. -/
theorem zzDiv_spec (w : Nat) (a b : List Nat) (ha : Wf w a) (hb : Wf w b) (hne : b ≠ [])
    (htop : b.getLast hne ≠ 0) (hnm : b.length ≤ a.length) :
    val w a = val w (zzDiv w a b).1 * val w b + val w (zzDiv w a b).2
    ∧ val w (zzDiv w a b).2 < val w b
    ∧ Wf w (zzDiv w a b).1 ∧ Wf w (zzDiv w a b).2
    ∧ (zzDiv w a b).1.length = a.length - b.length + 1
    ∧ (zzDiv w a b).2.length = b.length := by
  obtain ⟨bl, hbl⟩ := last_decomp hne
  generalize b.getLast hne = bt at *
  subst hbl
  have := zzDiv_spec' w a bl bt ha hb htop (by simpa using hnm)
  simpa using this

/-- zzDiv in `/`, `%` form. -/
theorem zzDiv_divmod (w : Nat) (a b : List Nat) (ha : Wf w a) (hb : Wf w b) (hne : b ≠ [])
    (htop : b.getLast hne ≠ 0) (hnm : b.length ≤ a.length) :
    val w (zzDiv w a b).1 = val w a / val w b ∧ val w (zzDiv w a b).2 = val w a % val w b := by
  obtain ⟨h1, h2, _⟩ := zzDiv_spec w a b ha hb hne htop hnm
  obtain ⟨h3, h4⟩ := Mul.mod_of_divmod h1 h2
  exact ⟨h4.symm, h3.symm⟩

/-- zzMod: `r = a mod b`, m words (n < m allowed). -/
theorem zzMod_spec (w : Nat) (a b : List Nat) (ha : Wf w a) (hb : Wf w b) (hne : b ≠ [])
    (htop : b.getLast hne ≠ 0) :
    val w (zzMod w a b) = val w a % val w b ∧ Wf w (zzMod w a b)
    ∧ (zzMod w a b).length = b.length := by
  obtain ⟨bl, hbl⟩ := last_decomp hne
  generalize b.getLast hne = bt at *
  subst hbl
  have := zzMod_spec' w a bl bt ha hb htop
  simpa using this

/-- the remainder of zzDiv is zzMod's result. -/
theorem zzDiv_rem_eq_zzMod_val (w : Nat) (a b : List Nat) (ha : Wf w a) (hb : Wf w b)
    (hne : b ≠ []) (htop : b.getLast hne ≠ 0) (hnm : b.length ≤ a.length) :
    val w (zzDiv w a b).2 = val w (zzMod w a b) := by
  rw [(zzDiv_divmod w a b ha hb hne htop hnm).2, (zzMod_spec w a b ha hb hne htop).1]

/-- value level, one digit: the trial quotient never underestimates the digit, and the true digit
    passes the 3-by-2 refinement test. -/
theorem zzDiv_digit_lower {B P2 P3 u v U2 v1 ul2 vl2 U3 V2 ul3 vl3 : Nat}
    (hu2 : u = U2 * P2 + ul2) (hul2 : ul2 < P2) (hv2 : v = v1 * P2 + vl2) (hv1 : 0 < v1)
    (hu3 : u = U3 * P3 + ul3) (hul3 : ul3 < P3) (hv3 : v = V2 * P3 + vl3)
    (huv : u < v * B) :
    u / v ≤ min (U2 / v1) (B - 1) ∧ u / v * V2 ≤ U3 :=
  ⟨trial_ge hu2 hul2 hv2 hv1 huv, digit_trunc_le hu3 hul3 hv3⟩

/-- value level, one digit: a candidate `q̂ < B` passing the 3-by-2 test is at most `q + 1`. -/
theorem zzDiv_digit_upper {B P u v U3 V2 ul vl qh : Nat} (hu : u = U3 * P + ul)
    (hv : v = V2 * P + vl) (hvl : vl < P) (hV2 : B ≤ V2) (hqB : qh < B)
    (hstop : qh * V2 ≤ U3) : qh ≤ u / v + 1 :=
  digit_upper hu hv hvl hV2 hqB hstop

-- non-vacuity of the hypotheses (w = 8): a = (B^2-1)(b-1), b = 2^7·B^2 + 1
example : Wf 8 [1, 0, 128] ∧ ([1, 0, 128] : List Nat) ≠ [] ∧ ([1, 0, 128] : List Nat).getLast (by simp) ≠ 0 := by
  decide
-- digit lemmas: B = 10, u = 3999, v = 500 (q = 7; U2 = 39, v1 = 5; U3 = 399, V2 = 50)
example : (3999 : Nat) = 39 * 100 + 99 ∧ (500 : Nat) = 5 * 100 + 0 ∧ (3999 : Nat) = 399 * 10 + 9
    ∧ (500 : Nat) = 50 * 10 + 0 ∧ (3999 : Nat) < 500 * 10 ∧ 3999 / 500 = 7 := by decide

-- the model on an add-back input (b = 2^7·B^2 + 1, a = (B^2-1)(b-1)) and a digit-(B-1) input (a = b·B^2 - 1), w = 8
example : zzDiv 8 [0, 0, 128, 255, 127] [1, 0, 128] = ([254, 255, 0], [2, 0, 127]) := by decide
example : zzDiv 8 [255, 255, 0, 0, 128] [1, 0, 128] = ([255, 255, 0], [0, 0, 128]) := by decide
example : zzMod 8 [0, 0, 128, 255, 127] [1, 0, 128] = [2, 0, 127] := by decide

end Bee2V.C05

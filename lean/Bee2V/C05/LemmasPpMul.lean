/-
C05 — helper lemmas for the word-level models of pp_mul.c (ModelPpMul.lean), `namespace Bee2V.C05.PpMul`.
  §1 `val` in xor / shift form, `ppXorL`
  §2 `Mul1OK w`: "`_MUL1` is the carry-less product of two words" (hypothesis of the structural part)
  §3 ppMulW / ppAddMulW loops
  §4 ppMul1, `MulOK`
  §5 (truncated) Karatsuba in block form: `kara2_algebra`, `kara2_combine`, `ppKara2_ok`
  §6 instances ppMul2/4/8, ppMulW, ppAddMulW   §7 Kara3 (ppMul3, ppMul9; ppMul5/6/7)
  §8 ppMulEq (all n), the chunk loop, ppMul
  §9 ppSqr (table check by `decide`, Frobenius, `ppSqr_spec`)
  §11 the (hi, lo) register of _MUL_MUL_S4 (`regStep`, `ppMulS4Loop_spec`), `clmul_Gf_Kf`,
      `Mul1OK_of_RepairOK` (what is left open is `RepairOK`: the seven _MUL_REPAIR_S4 lines)
  §12 `_MUL_REPAIR_S4`: both sides of `RepairOK` are xor-bilinear in (a, b) (`additive_ext`), the
      w^2 monomial cases are evaluated by `decide +kernel` ⇒ `Mul1OK_16/32/64`
  §10 towards `Mul1OK`: `ppTab_at` (table entry i = a·i mod x^w), `octet_spec` (one octet of _MUL_MUL_S4)
-/
import Bee2V.C05.ModelPpMul
import Bee2V.C05.LemmasPp
import Bee2V.C05.LemmasMul
import Mathlib.Tactic.Ring
import Mathlib.Tactic.Linarith
namespace Bee2V.C05.PpMul
open Bee2V.C05 Bee2V.C05.Spec Bee2V.C05.Pp

/-! ## §1 `val` in xor / shift form -/

theorem add_mul_xor {w x y u v : Nat} (hx : x < 2 ^ w) (hy : y < 2 ^ w) :
    (x + 2 ^ w * u) ^^^ (y + 2 ^ w * v) = (x ^^^ y) + 2 ^ w * (u ^^^ v) := by
  apply Nat.eq_of_testBit_eq
  intro j
  rw [Nat.testBit_xor, Nat.add_comm x, Nat.add_comm y, Nat.add_comm (x ^^^ y),
    Nat.testBit_two_pow_mul_add _ hx, Nat.testBit_two_pow_mul_add _ hy,
    Nat.testBit_two_pow_mul_add _ (Nat.xor_lt_two_pow hx hy)]
  split <;> simp [Nat.testBit_xor]

theorem add_mul_eq_xor {w x u : Nat} (hx : x < 2 ^ w) : x + 2 ^ w * u = x ^^^ (u <<< w) := by
  have := add_mul_xor (w := w) (x := x) (y := 0) (u := 0) (v := u) hx (Nat.two_pow_pos w)
  simp only [Nat.mul_zero, Nat.add_zero, Nat.zero_add, Nat.xor_zero, Nat.zero_xor] at this
  rw [← this, Nat.shiftLeft_eq, Nat.mul_comm]

theorem Wf_cons' {w x : Nat} {xs : List Nat} : Wf w (x :: xs) ↔ x < 2 ^ w ∧ Wf w xs := Wf_cons

theorem val_lt {w : Nat} {a : List Nat} (ha : Wf w a) : val w a < 2 ^ (w * a.length) :=
  Bee2V.C05.Mul.val_lt ha

theorem val_append_xor (w : Nat) (a b : List Nat) (ha : Wf w a) :
    val w (a ++ b) = val w a ^^^ (val w b <<< (w * a.length)) := by
  rw [Bee2V.C05.Mul.val_append, add_mul_eq_xor (val_lt ha)]

theorem ppXorL_length (x y : List Nat) : (ppXorL x y).length = max x.length y.length := by
  induction x generalizing y with
  | nil => cases y <;> simp [ppXorL]
  | cons a as ih => cases y <;> simp [ppXorL, ih] <;> omega

theorem ppXorL_Wf {w : Nat} {x y : List Nat} (hx : Wf w x) (hy : Wf w y) : Wf w (ppXorL x y) := by
  induction x generalizing y with
  | nil => cases y <;> simpa [ppXorL] using hy
  | cons a as ih =>
    cases y with
    | nil => simpa [ppXorL] using hx
    | cons b bs =>
      obtain ⟨h1, h2⟩ := Wf_cons.mp hx
      obtain ⟨h3, h4⟩ := Wf_cons.mp hy
      exact Wf_cons.mpr ⟨Nat.xor_lt_two_pow h1 h3, ih h2 h4⟩

theorem val_ppXorL (w : Nat) (x y : List Nat) (hx : Wf w x) (hy : Wf w y) :
    val w (ppXorL x y) = val w x ^^^ val w y := by
  induction x generalizing y with
  | nil => cases y <;> simp [ppXorL, val]
  | cons a as ih =>
    cases y with
    | nil => simp [ppXorL, val]
    | cons b bs =>
      obtain ⟨h1, h2⟩ := Wf_cons.mp hx
      obtain ⟨h3, h4⟩ := Wf_cons.mp hy
      simp only [ppXorL, val_cons, ih bs h2 h4]
      exact (add_mul_xor h1 h3).symm

/-! ## §2 the one-word product as a hypothesis -/

/-- `_MUL1` is the carry-less product of two words -/
def Mul1OK (w : Nat) : Prop :=
  ∀ a b, a < 2 ^ w → b < 2 ^ w →
    (ppMul1W w a b).1 < 2 ^ w ∧ (ppMul1W w a b).2 < 2 ^ w
    ∧ (ppMul1W w a b).1 + 2 ^ w * (ppMul1W w a b).2 = clmul a b

theorem clmul_shiftLeft (a b s : Nat) : clmul a (b <<< s) = clmul a b <<< s := by
  rw [clmul_comm, shiftLeft_clmul, clmul_comm]

/-! ## §3 ppMulW, ppAddMulW -/

theorem ppAddMulWLoop_spec (w : Nat) (h1 : Mul1OK w) (x : Nat) (hx : x < 2 ^ w) (b a : List Nat)
    (carry : Nat) (hb : Wf w b) (ha : Wf w a) (hl : b.length = a.length) (hc : carry < 2 ^ w) :
    val w (ppAddMulWLoop w x b a carry).1 + 2 ^ (w * b.length) * (ppAddMulWLoop w x b a carry).2
      = val w b ^^^ clmul (val w a) x ^^^ carry
    ∧ (ppAddMulWLoop w x b a carry).2 < 2 ^ w ∧ Wf w (ppAddMulWLoop w x b a carry).1
    ∧ (ppAddMulWLoop w x b a carry).1.length = b.length := by
  induction b generalizing a carry with
  | nil => cases a <;> simp_all [ppAddMulWLoop, val, Wf_nil, zero_clmul]
  | cons b0 bs ih =>
    cases a with
    | nil => simp at hl
    | cons a0 as =>
      obtain ⟨hb0, hbs⟩ := Wf_cons.mp hb
      obtain ⟨ha0, has⟩ := Wf_cons.mp ha
      obtain ⟨p1, p2, p3⟩ := h1 x a0 hx ha0
      obtain ⟨i1, i2, i3, i4⟩ := ih as (ppMul1W w x a0).2 hbs has (by simpa using hl) p2
      have hw0 : b0 ^^^ (carry ^^^ (ppMul1W w x a0).1) < 2 ^ w :=
        Nat.xor_lt_two_pow hb0 (Nat.xor_lt_two_pow hc p1)
      simp only [ppAddMulWLoop, val_cons, List.length_cons, Bee2V.C05.Mul.powS]
      refine ⟨?_, i2, Wf_cons.mpr ⟨hw0, i3⟩, by rw [i4]⟩
      rw [Nat.add_assoc, Nat.mul_assoc, ← Nat.mul_add, i1]
      -- everything in xor form
      rw [add_mul_eq_xor hw0, add_mul_eq_xor hb0, add_mul_eq_xor ha0, xor_clmul, shiftLeft_clmul,
        clmul_comm a0 x, ← p3, add_mul_eq_xor p1]
      simp only [Nat.shiftLeft_xor_distrib]
      generalize (ppMul1W w x a0).1 = lo
      generalize (ppMul1W w x a0).2 = hi
      generalize clmul (val w as) x = P
      ac_rfl

theorem ppMulWLoop_eq (w x : Nat) (a : List Nat) (carry : Nat) :
    ppMulWLoop w x a carry = ppAddMulWLoop w x (List.replicate a.length 0) a carry := by
  induction a generalizing carry with
  | nil => simp [ppMulWLoop, ppAddMulWLoop]
  | cons a0 as ih =>
    simp only [ppMulWLoop, List.length_cons, List.replicate_succ, ppAddMulWLoop, ih, Nat.zero_xor]

/-! ## §4 ppMul1, ppMul2, ppMul3 -/

theorem val2 (w a b : Nat) : val w [a, b] = a + 2 ^ w * b := by simp [val]

theorem xor_xor_cancel_left (x y : Nat) : x ^^^ (x ^^^ y) = y := by
  rw [← Nat.xor_assoc, Nat.xor_self, Nat.zero_xor]

/-- what every equal-length multiplier has to deliver -/
def MulOK (w n : Nat) (f : List Nat → List Nat → List Nat) : Prop :=
  ∀ a b, Wf w a → Wf w b → a.length = n → b.length = n →
    val w (f a b) = clmul (val w a) (val w b) ∧ Wf w (f a b) ∧ (f a b).length = n + n

theorem ppMul1_ok (w : Nat) (h1 : Mul1OK w) : MulOK w 1 (ppMul1 w) := by
  intro a b ha hb hla hlb
  match a, b, hla, hlb with
  | [a0], [b0], _, _ =>
    obtain ⟨ha0, _⟩ := Wf_cons.mp ha
    obtain ⟨hb0, _⟩ := Wf_cons.mp hb
    obtain ⟨p1, p2, p3⟩ := h1 a0 b0 ha0 hb0
    simp only [ppMul1, Bee2V.C05.Mul.val_single, val2]
    exact ⟨p3, Wf_cons.mpr ⟨p1, Wf_cons.mpr ⟨p2, Wf_nil w⟩⟩, rfl⟩

/-! ## §5 Karatsuba, block form -/

theorem val_take_drop_xor (w : Nat) (d : List Nat) (m : Nat) (hd : Wf w d) :
    val w d = val w (d.take m) ^^^ (val w (d.drop m) <<< (w * m)) := by
  rcases Nat.le_total m d.length with h | h
  · conv_lhs => rw [← List.take_append_drop m d]
    rw [val_append_xor w _ _ (Bee2V.C05.Mul.Wf_take hd m), List.length_take, Nat.min_eq_left h]
  · rw [List.take_of_length_le h, List.drop_eq_nil_of_le h]; simp [val]

/-- the word-level recombination of (truncated) Karatsuba is the polynomial identity -/
theorem kara2_algebra {S A Bv C D E F A0 A1 B0 B1 : Nat}
    (h0 : A ^^^ (Bv <<< S) = clmul A0 B0) (h1 : C ^^^ (D <<< S) = clmul A1 B1)
    (hm : E ^^^ (F <<< S) = clmul (A0 ^^^ A1) (B0 ^^^ B1)) :
    A ^^^ ((E ^^^ (A ^^^ (Bv ^^^ C))) <<< S) ^^^ ((F ^^^ (D ^^^ (Bv ^^^ C))) <<< (S + S))
        ^^^ (D <<< (S + S + S))
      = clmul (A0 ^^^ (A1 <<< S)) (B0 ^^^ (B1 <<< S)) := by
  have hXY : clmul A0 B1 ^^^ clmul A1 B0
      = (E ^^^ (F <<< S)) ^^^ (A ^^^ (Bv <<< S)) ^^^ (C ^^^ (D <<< S)) := by
    rw [hm, h0, h1, xor_clmul, clmul_xor, clmul_xor]
    generalize clmul A0 B0 = p
    generalize clmul A1 B1 = q
    generalize clmul A0 B1 = x
    generalize clmul A1 B0 = y
    -- (p ^ x ^ (y ^ q)) ^ p ^ q = x ^ y
    have e : (p ^^^ x ^^^ (y ^^^ q)) ^^^ p ^^^ q = (x ^^^ y) ^^^ (p ^^^ p) ^^^ (q ^^^ q) := by ac_rfl
    rw [e, Nat.xor_self, Nat.xor_self, Nat.xor_zero, Nat.xor_zero]
  have hR : clmul (A0 ^^^ (A1 <<< S)) (B0 ^^^ (B1 <<< S))
      = clmul A0 B0 ^^^ ((clmul A0 B1 ^^^ clmul A1 B0) <<< S) ^^^ (clmul A1 B1 <<< (S + S)) := by
    rw [xor_clmul, clmul_xor, clmul_xor, shiftLeft_clmul, shiftLeft_clmul, clmul_shiftLeft,
      clmul_shiftLeft, Nat.shiftLeft_xor_distrib, ← Nat.shiftLeft_add]
    ac_rfl
  rw [hR, hXY, ← h0, ← h1]
  simp only [Nat.shiftLeft_xor_distrib, ← Nat.shiftLeft_add]
  ac_rfl

/-- list level: value / Wf / length of the recombined array -/
theorem kara2_combine (w m k : Nat) (d0 d1 dm : List Nat) (w0 : Wf w d0) (w1 : Wf w d1)
    (wm : Wf w dm) (l0 : d0.length = m + m) (l1 : d1.length = k + k) (lm : dm.length = m + m)
    (hkm : k ≤ m) (hmk : m ≤ k + k) :
    val w (d0.take m
        ++ ppXorL (dm.take m) (ppXorL (d0.take m) (ppXorL (d0.drop m) (d1.take m)))
        ++ ppXorL (dm.drop m) (ppXorL (d1.drop m) (ppXorL (d0.drop m) (d1.take m)))
        ++ d1.drop m)
      = val w (d0.take m)
        ^^^ ((val w (dm.take m) ^^^ (val w (d0.take m) ^^^ (val w (d0.drop m) ^^^ val w (d1.take m))))
          <<< (w * m))
        ^^^ ((val w (dm.drop m) ^^^ (val w (d1.drop m) ^^^ (val w (d0.drop m) ^^^ val w (d1.take m))))
          <<< (w * m + w * m))
        ^^^ (val w (d1.drop m) <<< (w * m + w * m + w * m))
    ∧ Wf w (d0.take m
        ++ ppXorL (dm.take m) (ppXorL (d0.take m) (ppXorL (d0.drop m) (d1.take m)))
        ++ ppXorL (dm.drop m) (ppXorL (d1.drop m) (ppXorL (d0.drop m) (d1.take m)))
        ++ d1.drop m)
    ∧ (d0.take m
        ++ ppXorL (dm.take m) (ppXorL (d0.take m) (ppXorL (d0.drop m) (d1.take m)))
        ++ ppXorL (dm.drop m) (ppXorL (d1.drop m) (ppXorL (d0.drop m) (d1.take m)))
        ++ d1.drop m).length = (m + k) + (m + k) := by
  have W := @Bee2V.C05.Mul.Wf_take w
  have Wd := @Bee2V.C05.Mul.Wf_drop w
  have hWt2 := ppXorL_Wf (Wd w0 m) (W w1 m)
  have hWc1 := ppXorL_Wf (W wm m) (ppXorL_Wf (W w0 m) hWt2)
  have hWc2 := ppXorL_Wf (Wd wm m) (ppXorL_Wf (Wd w1 m) hWt2)
  have hlt2 : (ppXorL (d0.drop m) (d1.take m)).length = m := by
    rw [ppXorL_length, List.length_drop, List.length_take]; omega
  have hlc1 : (ppXorL (dm.take m) (ppXorL (d0.take m) (ppXorL (d0.drop m) (d1.take m)))).length
      = m := by
    rw [ppXorL_length, ppXorL_length, hlt2, List.length_take, List.length_take]; omega
  have hlc2 : (ppXorL (dm.drop m) (ppXorL (d1.drop m) (ppXorL (d0.drop m) (d1.take m)))).length
      = m := by
    rw [ppXorL_length, ppXorL_length, hlt2, List.length_drop, List.length_drop]; omega
  have hl0 : (d0.take m).length = m := by rw [List.length_take]; omega
  refine ⟨?_, ?_, ?_⟩
  · rw [val_append_xor w _ _ (Bee2V.C05.Mul.Wf_append.mpr
        ⟨Bee2V.C05.Mul.Wf_append.mpr ⟨W w0 m, hWc1⟩, hWc2⟩),
      val_append_xor w _ _ (Bee2V.C05.Mul.Wf_append.mpr ⟨W w0 m, hWc1⟩),
      val_append_xor w _ _ (W w0 m)]
    simp only [List.length_append, hl0, hlc1, hlc2]
    rw [val_ppXorL w _ _ (W wm m) (ppXorL_Wf (W w0 m) hWt2),
      val_ppXorL w _ _ (W w0 m) hWt2, val_ppXorL w _ _ (Wd w0 m) (W w1 m),
      val_ppXorL w _ _ (Wd wm m) (ppXorL_Wf (Wd w1 m) hWt2),
      val_ppXorL w _ _ (Wd w1 m) hWt2]
    simp only [Nat.mul_add]
    rw [val_ppXorL w _ _ (Wd w0 m) (W w1 m)]
  · exact Bee2V.C05.Mul.Wf_append.mpr ⟨Bee2V.C05.Mul.Wf_append.mpr
      ⟨Bee2V.C05.Mul.Wf_append.mpr ⟨W w0 m, hWc1⟩, hWc2⟩, Wd w1 m⟩
  · simp only [List.length_append, hl0, hlc1, hlc2, List.length_drop, l1]; omega

theorem ppKara2_ok (w m k : Nat) (mulLo mulHi : List Nat → List Nat → List Nat)
    (hLo : MulOK w m mulLo) (hHi : MulOK w k mulHi) (hkm : k ≤ m) (hmk : m ≤ k + k) :
    MulOK w (m + k) (ppKara2 mulLo mulHi m) := by
  intro a b ha hb hla hlb
  have hWa0 := Bee2V.C05.Mul.Wf_take ha m
  have hWa1 := Bee2V.C05.Mul.Wf_drop ha m
  have hWb0 := Bee2V.C05.Mul.Wf_take hb m
  have hWb1 := Bee2V.C05.Mul.Wf_drop hb m
  have hla0 : (a.take m).length = m := by rw [List.length_take]; omega
  have hla1 : (a.drop m).length = k := by rw [List.length_drop]; omega
  have hlb0 : (b.take m).length = m := by rw [List.length_take]; omega
  have hlb1 : (b.drop m).length = k := by rw [List.length_drop]; omega
  obtain ⟨v0, w0, l0⟩ := hLo _ _ hWa0 hWb0 hla0 hlb0
  obtain ⟨v1, w1, l1⟩ := hHi _ _ hWa1 hWb1 hla1 hlb1
  have hWt0 := ppXorL_Wf hWa0 hWa1
  have hWt1 := ppXorL_Wf hWb0 hWb1
  have hlt0 : (ppXorL (a.take m) (a.drop m)).length = m := by rw [ppXorL_length]; omega
  have hlt1 : (ppXorL (b.take m) (b.drop m)).length = m := by rw [ppXorL_length]; omega
  obtain ⟨vm, wm, lm⟩ := hLo _ _ hWt0 hWt1 hlt0 hlt1
  rw [val_ppXorL w _ _ hWa0 hWa1, val_ppXorL w _ _ hWb0 hWb1] at vm
  have eA := val_take_drop_xor w a m ha
  have eB := val_take_drop_xor w b m hb
  unfold ppKara2
  simp only
  generalize mulLo (a.take m) (b.take m) = d0 at *
  generalize mulHi (a.drop m) (b.drop m) = d1 at *
  generalize mulLo (ppXorL (a.take m) (a.drop m)) (ppXorL (b.take m) (b.drop m)) = dm at *
  obtain ⟨c1, c2, c3⟩ := kara2_combine w m k d0 d1 dm w0 w1 wm l0 l1 lm hkm hmk
  refine ⟨?_, c2, c3⟩
  rw [c1, eA, eB]
  have h0 := (val_take_drop_xor w d0 m w0).symm.trans v0
  have h1 := (val_take_drop_xor w d1 m w1).symm.trans v1
  have h2 := (val_take_drop_xor w dm m wm).symm.trans vm
  generalize w * m = S at *
  generalize val w (d0.take m) = A at *
  generalize val w (d0.drop m) = Bv at *
  generalize val w (d1.take m) = C at *
  generalize val w (d1.drop m) = D at *
  generalize val w (dm.take m) = E at *
  generalize val w (dm.drop m) = F at *
  exact kara2_algebra h0 h1 h2

/-! ## §6 instances -/


theorem ppMul2_eq (w : Nat) (a b : List Nat) (ha : a.length = 2) (hb : b.length = 2) :
    ppMul2 w a b = ppKara2 (ppMul1 w) (ppMul1 w) 1 a b := by
  match a, b, ha, hb with
  | [a0, a1], [b0, b1], _, _ =>
    simp [ppMul2, ppKara2, ppMul1, ppXorL]

theorem MulOK_congr {w n : Nat} {f g : List Nat → List Nat → List Nat}
    (h : ∀ a b, a.length = n → b.length = n → f a b = g a b) (hg : MulOK w n g) : MulOK w n f := by
  intro a b ha hb hla hlb
  rw [h a b hla hlb]; exact hg a b ha hb hla hlb

theorem ppMul2_ok (w : Nat) (h1 : Mul1OK w) : MulOK w 2 (ppMul2 w) :=
  MulOK_congr (ppMul2_eq w) (ppKara2_ok w 1 1 _ _ (ppMul1_ok w h1) (ppMul1_ok w h1) (by omega) (by omega))

theorem ppMul4_ok (w : Nat) (h1 : Mul1OK w) : MulOK w 4 (ppMul4 w) :=
  ppKara2_ok w 2 2 _ _ (ppMul2_ok w h1) (ppMul2_ok w h1) (by omega) (by omega)

theorem ppMul8_ok (w : Nat) (h1 : Mul1OK w) : MulOK w 8 (ppMul8 w) :=
  ppKara2_ok w 4 4 _ _ (ppMul4_ok w h1) (ppMul4_ok w h1) (by omega) (by omega)

theorem ppAddMulW_spec (w : Nat) (h1 : Mul1OK w) (b a : List Nat) (x : Nat) (hb : Wf w b)
    (ha : Wf w a) (hl : b.length = a.length) (hx : x < 2 ^ w) :
    val w ((ppAddMulW w b a x).1 ++ [(ppAddMulW w b a x).2]) = val w b ^^^ clmul (val w a) x
    ∧ (ppAddMulW w b a x).2 < 2 ^ w ∧ Wf w (ppAddMulW w b a x).1
    ∧ (ppAddMulW w b a x).1.length = b.length := by
  obtain ⟨i1, i2, i3, i4⟩ := ppAddMulWLoop_spec w h1 x hx b a 0 hb ha hl (Nat.two_pow_pos w)
  refine ⟨?_, i2, i3, i4⟩
  unfold ppAddMulW
  rw [Bee2V.C05.Mul.val_append, Bee2V.C05.Mul.val_single, i4, i1, Nat.xor_zero]

theorem ppMulW_spec (w : Nat) (h1 : Mul1OK w) (a : List Nat) (x : Nat)
    (ha : Wf w a) (hx : x < 2 ^ w) :
    val w ((ppMulW w a x).1 ++ [(ppMulW w a x).2]) = clmul (val w a) x
    ∧ (ppMulW w a x).2 < 2 ^ w ∧ Wf w (ppMulW w a x).1
    ∧ (ppMulW w a x).1.length = a.length := by
  have h := ppAddMulW_spec w h1 (List.replicate a.length 0) a x
    (Bee2V.C05.Mul.Wf_replicate_zero w _) ha (by simp) hx
  unfold ppMulW
  rw [ppMulWLoop_eq]
  unfold ppAddMulW at h
  simpa [Bee2V.C05.Mul.val_replicate_zero] using h

/-! ## §7 Kara3 -/

theorem xor_swap_cancel (x y z : Nat) : (z ^^^ y) ^^^ (z ^^^ x) = x ^^^ y := by
  have e : (z ^^^ y) ^^^ (z ^^^ x) = (x ^^^ y) ^^^ (z ^^^ z) := by ac_rfl
  rw [e, Nat.xor_self, Nat.xor_zero]

/-- the word-level recombination of Kara3 (as in ppMul9 / ppMul3) is the polynomial identity -/
theorem kara3_algebra {S p0 q0 p1 q1 p2 q2 u v u2 v2 u3 v3 A0 A1 A2 B0 B1 B2 : Nat}
    (h0 : p0 ^^^ (q0 <<< S) = clmul A0 B0) (h1 : p1 ^^^ (q1 <<< S) = clmul A1 B1)
    (h2 : p2 ^^^ (q2 <<< S) = clmul A2 B2)
    (h01 : u ^^^ (v <<< S) = clmul (A0 ^^^ A1) (B0 ^^^ B1))
    (h02 : u2 ^^^ (v2 <<< S) = clmul (A0 ^^^ A2) (B0 ^^^ B2))
    (h12 : u3 ^^^ (v3 <<< S) = clmul ((A0 ^^^ A2) ^^^ (A0 ^^^ A1)) ((B0 ^^^ B2) ^^^ (B0 ^^^ B1))) :
    p0 ^^^ (((q0 ^^^ (p0 ^^^ p1)) ^^^ u) <<< S)
      ^^^ (((((q0 ^^^ (p0 ^^^ p1)) ^^^ (q1 ^^^ p2)) ^^^ v) ^^^ u2) <<< (S + S))
      ^^^ ((((((q0 ^^^ (p0 ^^^ p1)) ^^^ (q1 ^^^ p2)) ^^^ (p0 ^^^ q2)) ^^^ v2) ^^^ u3) <<< (S + S + S))
      ^^^ ((((((q0 ^^^ (p0 ^^^ p1)) ^^^ (q1 ^^^ p2)) ^^^ (p0 ^^^ q2)) ^^^ (p0 ^^^ (q0 ^^^ (p0 ^^^ p1))))
          ^^^ v3) <<< (S + S + S + S))
      ^^^ (q2 <<< (S + S + S + S + S))
    = clmul (A0 ^^^ ((A1 ^^^ (A2 <<< S)) <<< S)) (B0 ^^^ ((B1 ^^^ (B2 <<< S)) <<< S)) := by
  rw [xor_swap_cancel, xor_swap_cancel] at h12
  have k3 : (((q0 ^^^ (p0 ^^^ p1)) ^^^ (q1 ^^^ p2)) ^^^ (p0 ^^^ q2))
      = q0 ^^^ p1 ^^^ q1 ^^^ p2 ^^^ q2 := by
    simp only [Nat.xor_assoc, Nat.xor_comm, Pp.xor_left_comm, xor_xor_cancel_left, Nat.xor_self,
      Nat.xor_zero, Nat.zero_xor]
  have k4 : (q0 ^^^ p1 ^^^ q1 ^^^ p2 ^^^ q2) ^^^ (p0 ^^^ (q0 ^^^ (p0 ^^^ p1)))
      = q1 ^^^ p2 ^^^ q2 := by
    simp only [Nat.xor_assoc, Nat.xor_comm, Pp.xor_left_comm, xor_xor_cancel_left, Nat.xor_self,
      Nat.xor_zero, Nat.zero_xor]
  rw [k3, k4]
  -- step 1: regroup the halves into the six products (no cancellation needed)
  have s1 : p0 ^^^ (((q0 ^^^ (p0 ^^^ p1)) ^^^ u) <<< S)
      ^^^ (((((q0 ^^^ (p0 ^^^ p1)) ^^^ (q1 ^^^ p2)) ^^^ v) ^^^ u2) <<< (S + S))
      ^^^ ((((q0 ^^^ p1 ^^^ q1 ^^^ p2 ^^^ q2) ^^^ v2) ^^^ u3) <<< (S + S + S))
      ^^^ (((q1 ^^^ p2 ^^^ q2) ^^^ v3) <<< (S + S + S + S))
      ^^^ (q2 <<< (S + S + S + S + S))
      = (p0 ^^^ (q0 <<< S))
        ^^^ (((u ^^^ (v <<< S)) ^^^ (p0 ^^^ (q0 <<< S)) ^^^ (p1 ^^^ (q1 <<< S))) <<< S)
        ^^^ (((u2 ^^^ (v2 <<< S)) ^^^ (p0 ^^^ (q0 <<< S)) ^^^ (p1 ^^^ (q1 <<< S))
              ^^^ (p2 ^^^ (q2 <<< S))) <<< (S + S))
        ^^^ (((u3 ^^^ (v3 <<< S)) ^^^ (p1 ^^^ (q1 <<< S)) ^^^ (p2 ^^^ (q2 <<< S))) <<< (S + S + S))
        ^^^ ((p2 ^^^ (q2 <<< S)) <<< (S + S + S + S)) := by
    simp only [Nat.shiftLeft_xor_distrib, ← Nat.shiftLeft_add]
    ac_rfl
  rw [s1, h0, h1, h2, h01, h02, h12]
  -- step 2: the cross terms
  have canc : ∀ d0 d1 x y : Nat, (d0 ^^^ x ^^^ (y ^^^ d1)) ^^^ d0 ^^^ d1 = x ^^^ y := by
    intro d0 d1 x y
    simp only [Nat.xor_assoc, Nat.xor_comm, Pp.xor_left_comm, xor_xor_cancel_left, Nat.xor_self,
      Nat.xor_zero, Nat.zero_xor]
  have x01 : clmul (A0 ^^^ A1) (B0 ^^^ B1) ^^^ clmul A0 B0 ^^^ clmul A1 B1
      = clmul A0 B1 ^^^ clmul A1 B0 := by
    rw [xor_clmul, clmul_xor, clmul_xor]; exact canc _ _ _ _
  have x12 : clmul (A1 ^^^ A2) (B1 ^^^ B2) ^^^ clmul A1 B1 ^^^ clmul A2 B2
      = clmul A1 B2 ^^^ clmul A2 B1 := by
    rw [xor_clmul, clmul_xor, clmul_xor]; exact canc _ _ _ _
  have x02 : clmul (A0 ^^^ A2) (B0 ^^^ B2) ^^^ clmul A0 B0 ^^^ clmul A1 B1 ^^^ clmul A2 B2
      = clmul A0 B2 ^^^ clmul A2 B0 ^^^ clmul A1 B1 := by
    rw [xor_clmul, clmul_xor, clmul_xor]
    simp only [Nat.xor_assoc, Nat.xor_comm, Pp.xor_left_comm, xor_xor_cancel_left, Nat.xor_self,
      Nat.xor_zero, Nat.zero_xor]
  rw [x01, x02, x12]
  simp only [xor_clmul, clmul_xor, shiftLeft_clmul, clmul_shiftLeft, Nat.shiftLeft_xor_distrib,
    ← Nat.shiftLeft_add]
  ac_rfl

/-- a block: `m` words -/
def Blk (w m : Nat) (x : List Nat) : Prop := Wf w x ∧ x.length = m

theorem blk_xor {w m : Nat} {x y : List Nat} (hx : Blk w m x) (hy : Blk w m y) :
    Blk w m (ppXorL x y) :=
  ⟨ppXorL_Wf hx.1 hy.1, by rw [ppXorL_length, hx.2, hy.2, Nat.max_self]⟩

theorem blk_val_xor {w m : Nat} {x y : List Nat} (hx : Blk w m x) (hy : Blk w m y) :
    val w (ppXorL x y) = val w x ^^^ val w y := val_ppXorL w x y hx.1 hy.1

theorem blk_halves {w m : Nat} {d : List Nat} (hd : Wf w d) (hl : d.length = m + m) :
    Blk w m (d.take m) ∧ Blk w m (d.drop m) :=
  ⟨⟨Bee2V.C05.Mul.Wf_take hd m, by rw [List.length_take]; omega⟩,
   ⟨Bee2V.C05.Mul.Wf_drop hd m, by rw [List.length_drop]; omega⟩⟩

theorem blk_cons_val {w m : Nat} {x : List Nat} (hx : Blk w m x) (r : List Nat) :
    val w (x ++ r) = val w x ^^^ (val w r <<< (w * m)) := by
  rw [val_append_xor w x r hx.1, hx.2]

/-- list level: the six-block result of Kara3 -/
theorem kara3_combine (w m : Nat) (d0 d1 d2 t1 t2 t3 : List Nat)
    (w0 : Wf w d0) (w1 : Wf w d1) (w2 : Wf w d2) (x1 : Wf w t1) (x2 : Wf w t2) (x3 : Wf w t3)
    (l0 : d0.length = m + m) (l1 : d1.length = m + m) (l2 : d2.length = m + m)
    (y1 : t1.length = m + m) (y2 : t2.length = m + m) (y3 : t3.length = m + m) :
    let c0 := d0.take m
    let c1 := ppXorL (d0.drop m) (ppXorL c0 (d1.take m))
    let c2 := ppXorL c1 (ppXorL (d1.drop m) (d2.take m))
    let c3 := ppXorL c2 (ppXorL c0 (d2.drop m))
    let c4 := ppXorL c3 (ppXorL c0 c1)
    let r := c0 ++ ppXorL c1 (t1.take m) ++ ppXorL (ppXorL c2 (t1.drop m)) (t2.take m)
      ++ ppXorL (ppXorL c3 (t2.drop m)) (t3.take m) ++ ppXorL c4 (t3.drop m) ++ d2.drop m
    val w r = val w (d0.take m)
      ^^^ (((val w (d0.drop m) ^^^ (val w (d0.take m) ^^^ val w (d1.take m))) ^^^ val w (t1.take m))
        <<< (w * m))
      ^^^ (((((val w (d0.drop m) ^^^ (val w (d0.take m) ^^^ val w (d1.take m)))
          ^^^ (val w (d1.drop m) ^^^ val w (d2.take m))) ^^^ val w (t1.drop m)) ^^^ val w (t2.take m))
        <<< (w * m + w * m))
      ^^^ ((((((val w (d0.drop m) ^^^ (val w (d0.take m) ^^^ val w (d1.take m)))
          ^^^ (val w (d1.drop m) ^^^ val w (d2.take m))) ^^^ (val w (d0.take m) ^^^ val w (d2.drop m)))
          ^^^ val w (t2.drop m)) ^^^ val w (t3.take m))
        <<< (w * m + w * m + w * m))
      ^^^ ((((((val w (d0.drop m) ^^^ (val w (d0.take m) ^^^ val w (d1.take m)))
          ^^^ (val w (d1.drop m) ^^^ val w (d2.take m))) ^^^ (val w (d0.take m) ^^^ val w (d2.drop m)))
          ^^^ (val w (d0.take m) ^^^ (val w (d0.drop m) ^^^ (val w (d0.take m) ^^^ val w (d1.take m)))))
          ^^^ val w (t3.drop m))
        <<< (w * m + w * m + w * m + w * m))
      ^^^ (val w (d2.drop m) <<< (w * m + w * m + w * m + w * m + w * m))
    ∧ Wf w r ∧ r.length = (m + m + m) + (m + m + m) := by
  intro c0 c1 c2 c3 c4 r
  obtain ⟨bp0, bq0⟩ := blk_halves w0 l0
  obtain ⟨bp1, bq1⟩ := blk_halves w1 l1
  obtain ⟨bp2, bq2⟩ := blk_halves w2 l2
  obtain ⟨bu1, bv1⟩ := blk_halves x1 y1
  obtain ⟨bu2, bv2⟩ := blk_halves x2 y2
  obtain ⟨bu3, bv3⟩ := blk_halves x3 y3
  have bc1 : Blk w m c1 := blk_xor bq0 (blk_xor bp0 bp1)
  have bc2 : Blk w m c2 := blk_xor bc1 (blk_xor bq1 bp2)
  have bc3 : Blk w m c3 := blk_xor bc2 (blk_xor bp0 bq2)
  have bc4 : Blk w m c4 := blk_xor bc3 (blk_xor bp0 bc1)
  have vc1 : val w c1 = val w (d0.drop m) ^^^ (val w (d0.take m) ^^^ val w (d1.take m)) := by
    rw [blk_val_xor bq0 (blk_xor bp0 bp1), blk_val_xor bp0 bp1]
  have vc2 : val w c2 = val w c1 ^^^ (val w (d1.drop m) ^^^ val w (d2.take m)) := by
    rw [blk_val_xor bc1 (blk_xor bq1 bp2), blk_val_xor bq1 bp2]
  have vc3 : val w c3 = val w c2 ^^^ (val w (d0.take m) ^^^ val w (d2.drop m)) := by
    rw [blk_val_xor bc2 (blk_xor bp0 bq2), blk_val_xor bp0 bq2]
  have vc4 : val w c4 = val w c3 ^^^ (val w (d0.take m) ^^^ val w c1) := by
    rw [blk_val_xor bc3 (blk_xor bp0 bc1), blk_val_xor bp0 bc1]
  have bf1 := blk_xor bc1 bu1
  have bf2 := blk_xor (blk_xor bc2 bv1) bu2
  have bf3 := blk_xor (blk_xor bc3 bv2) bu3
  have bf4 := blk_xor bc4 bv3
  have vf1 := blk_val_xor bc1 bu1
  have vf2 : val w (ppXorL (ppXorL c2 (t1.drop m)) (t2.take m))
      = (val w c2 ^^^ val w (t1.drop m)) ^^^ val w (t2.take m) := by
    rw [blk_val_xor (blk_xor bc2 bv1) bu2, blk_val_xor bc2 bv1]
  have vf3 : val w (ppXorL (ppXorL c3 (t2.drop m)) (t3.take m))
      = (val w c3 ^^^ val w (t2.drop m)) ^^^ val w (t3.take m) := by
    rw [blk_val_xor (blk_xor bc3 bv2) bu3, blk_val_xor bc3 bv2]
  have vf4 := blk_val_xor bc4 bv3
  have hr : r = c0 ++ (ppXorL c1 (t1.take m) ++ (ppXorL (ppXorL c2 (t1.drop m)) (t2.take m)
      ++ (ppXorL (ppXorL c3 (t2.drop m)) (t3.take m) ++ (ppXorL c4 (t3.drop m) ++ d2.drop m)))) := by
    simp only [r, List.append_assoc]
  refine ⟨?_, ?_, ?_⟩
  · rw [hr, blk_cons_val bp0, blk_cons_val bf1, blk_cons_val bf2, blk_cons_val bf3,
      blk_cons_val bf4, vf1, vf2, vf3, vf4, vc4, vc3, vc2, vc1]
    simp only [Nat.shiftLeft_xor_distrib, ← Nat.shiftLeft_add]
    ac_rfl
  · rw [hr]
    exact Bee2V.C05.Mul.Wf_append.mpr ⟨bp0.1, Bee2V.C05.Mul.Wf_append.mpr ⟨bf1.1,
      Bee2V.C05.Mul.Wf_append.mpr ⟨bf2.1, Bee2V.C05.Mul.Wf_append.mpr ⟨bf3.1,
      Bee2V.C05.Mul.Wf_append.mpr ⟨bf4.1, bq2.1⟩⟩⟩⟩⟩
  · rw [hr]
    have hc0 : c0.length = m := bp0.2
    simp only [List.length_append, hc0, bf1.2, bf2.2, bf3.2, bf4.2, bq2.2]
    omega

theorem ppKara3_ok (w m : Nat) (mul : List Nat → List Nat → List Nat) (h : MulOK w m mul) :
    MulOK w (m + m + m) (ppKara3 mul m) := by
  intro a b ha hb hla hlb
  have W := @Bee2V.C05.Mul.Wf_take w
  have Wd := @Bee2V.C05.Mul.Wf_drop w
  have ba0 : Blk w m (a.take m) := ⟨W ha m, by rw [List.length_take]; omega⟩
  have ba1 : Blk w m ((a.drop m).take m) :=
    ⟨W (Wd ha m) m, by rw [List.length_take, List.length_drop]; omega⟩
  have ba2 : Blk w m (a.drop (2 * m)) := ⟨Wd ha _, by rw [List.length_drop]; omega⟩
  have bb0 : Blk w m (b.take m) := ⟨W hb m, by rw [List.length_take]; omega⟩
  have bb1 : Blk w m ((b.drop m).take m) :=
    ⟨W (Wd hb m) m, by rw [List.length_take, List.length_drop]; omega⟩
  have bb2 : Blk w m (b.drop (2 * m)) := ⟨Wd hb _, by rw [List.length_drop]; omega⟩
  have eA : val w a = val w (a.take m)
      ^^^ ((val w ((a.drop m).take m) ^^^ (val w (a.drop (2 * m)) <<< (w * m))) <<< (w * m)) := by
    rw [val_take_drop_xor w a m ha, val_take_drop_xor w (a.drop m) m (Wd ha m), List.drop_drop,
      Nat.two_mul]
  have eB : val w b = val w (b.take m)
      ^^^ ((val w ((b.drop m).take m) ^^^ (val w (b.drop (2 * m)) <<< (w * m))) <<< (w * m)) := by
    rw [val_take_drop_xor w b m hb, val_take_drop_xor w (b.drop m) m (Wd hb m), List.drop_drop,
      Nat.two_mul]
  obtain ⟨v0, w0, l0⟩ := h _ _ ba0.1 bb0.1 ba0.2 bb0.2
  obtain ⟨v1, w1, l1⟩ := h _ _ ba1.1 bb1.1 ba1.2 bb1.2
  obtain ⟨v2, w2, l2⟩ := h _ _ ba2.1 bb2.1 ba2.2 bb2.2
  have bt2 := blk_xor ba0 ba1
  have bt3 := blk_xor bb0 bb1
  have bt4 := blk_xor ba0 ba2
  have bt5 := blk_xor bb0 bb2
  obtain ⟨u1, x1, y1⟩ := h _ _ bt2.1 bt3.1 bt2.2 bt3.2
  obtain ⟨u2, x2, y2⟩ := h _ _ bt4.1 bt5.1 bt4.2 bt5.2
  obtain ⟨u3, x3, y3⟩ := h _ _ (blk_xor bt4 bt2).1 (blk_xor bt5 bt3).1 (blk_xor bt4 bt2).2
    (blk_xor bt5 bt3).2
  rw [blk_val_xor ba0 ba1, blk_val_xor bb0 bb1] at u1
  rw [blk_val_xor ba0 ba2, blk_val_xor bb0 bb2] at u2
  rw [blk_val_xor bt4 bt2, blk_val_xor bt5 bt3, blk_val_xor ba0 ba2, blk_val_xor bb0 bb2,
    blk_val_xor ba0 ba1, blk_val_xor bb0 bb1] at u3
  unfold ppKara3
  simp only
  generalize mul (a.take m) (b.take m) = d0 at *
  generalize mul ((a.drop m).take m) ((b.drop m).take m) = d1 at *
  generalize mul (a.drop (2 * m)) (b.drop (2 * m)) = d2 at *
  generalize mul (ppXorL (a.take m) ((a.drop m).take m)) (ppXorL (b.take m) ((b.drop m).take m))
    = t1 at *
  generalize mul (ppXorL (a.take m) (a.drop (2 * m))) (ppXorL (b.take m) (b.drop (2 * m)))
    = t2 at *
  generalize mul (ppXorL (ppXorL (a.take m) (a.drop (2 * m))) (ppXorL (a.take m) ((a.drop m).take m)))
    (ppXorL (ppXorL (b.take m) (b.drop (2 * m))) (ppXorL (b.take m) ((b.drop m).take m))) = t3 at *
  have hc := kara3_combine w m d0 d1 d2 t1 t2 t3 w0 w1 w2 x1 x2 x3 l0 l1 l2 y1 y2 y3
  simp only at hc
  obtain ⟨c1, c2, c3⟩ := hc
  refine ⟨?_, c2, c3⟩
  rw [c1, eA, eB]
  have h0 := (val_take_drop_xor w d0 m w0).symm.trans v0
  have h1 := (val_take_drop_xor w d1 m w1).symm.trans v1
  have h2 := (val_take_drop_xor w d2 m w2).symm.trans v2
  have h01 := (val_take_drop_xor w t1 m x1).symm.trans u1
  have h02 := (val_take_drop_xor w t2 m x2).symm.trans u2
  have h12 := (val_take_drop_xor w t3 m x3).symm.trans u3
  generalize w * m = S at *
  generalize val w (d0.take m) = p0 at *
  generalize val w (d0.drop m) = q0 at *
  generalize val w (d1.take m) = p1 at *
  generalize val w (d1.drop m) = q1 at *
  generalize val w (d2.take m) = p2 at *
  generalize val w (d2.drop m) = q2 at *
  generalize val w (t1.take m) = uu at *
  generalize val w (t1.drop m) = vv at *
  generalize val w (t2.take m) = uu2 at *
  generalize val w (t2.drop m) = vv2 at *
  generalize val w (t3.take m) = uu3 at *
  generalize val w (t3.drop m) = vv3 at *
  exact kara3_algebra h0 h1 h2 h01 h02 h12

theorem ppMul3_eq (w : Nat) (a b : List Nat) (ha : a.length = 3) (hb : b.length = 3) :
    ppMul3 w a b = ppKara3 (ppMul1 w) 1 a b := by
  match a, b, ha, hb with
  | [a0, a1, a2], [b0, b1, b2], _, _ =>
    simp only [ppMul3, ppKara3, ppMul1, ppXorL, List.take, List.drop, xor_swap_cancel]
    simp [ppXorL, Nat.xor_assoc]

theorem ppMul3_ok (w : Nat) (h1 : Mul1OK w) : MulOK w 3 (ppMul3 w) :=
  MulOK_congr (ppMul3_eq w) (ppKara3_ok w 1 _ (ppMul1_ok w h1))

theorem ppMul9_ok (w : Nat) (h1 : Mul1OK w) : MulOK w 9 (ppMul9 w) :=
  ppKara3_ok w 3 _ (ppMul3_ok w h1)

theorem ppMul6_ok (w : Nat) (h1 : Mul1OK w) : MulOK w 6 (ppMul6 w) :=
  ppKara2_ok w 3 3 _ _ (ppMul3_ok w h1) (ppMul3_ok w h1) (by omega) (by omega)

theorem ppMul5_ok (w : Nat) (h1 : Mul1OK w) : MulOK w 5 (ppMul5 w) :=
  ppKara2_ok w 3 2 _ _ (ppMul3_ok w h1) (ppMul2_ok w h1) (by omega) (by omega)

theorem ppMul7_ok (w : Nat) (h1 : Mul1OK w) : MulOK w 7 (ppMul7 w) :=
  ppKara2_ok w 4 3 _ _ (ppMul4_ok w h1) (ppMul3_ok w h1) (by omega) (by omega)

/-! ## §8 ppMulEq, ppMul -/

theorem ppMulEqF_ok (w : Nat) (h1 : Mul1OK w) (f : Nat) :
    ∀ n, 1 ≤ n → n ≤ f → MulOK w n (ppMulEqF w f) := by
  induction f with
  | zero => intro n h1 h2; omega
  | succ f ih =>
    intro n hn1 hnf a b ha hb hla hlb
    unfold ppMulEqF
    simp only [hla]
    by_cases c1 : n = 1
    · rw [if_pos c1]; subst c1; exact ppMul1_ok w h1 a b ha hb hla hlb
    rw [if_neg c1]
    by_cases c2 : n = 2
    · rw [if_pos c2]; subst c2; exact ppMul2_ok w h1 a b ha hb hla hlb
    rw [if_neg c2]
    by_cases c3 : n = 3
    · rw [if_pos c3]; subst c3; exact ppMul3_ok w h1 a b ha hb hla hlb
    rw [if_neg c3]
    by_cases c4 : n = 4
    · rw [if_pos c4]; subst c4; exact ppMul4_ok w h1 a b ha hb hla hlb
    rw [if_neg c4]
    by_cases c5 : n = 5
    · rw [if_pos c5]; subst c5; exact ppMul5_ok w h1 a b ha hb hla hlb
    rw [if_neg c5]
    by_cases c6 : n = 6
    · rw [if_pos c6]; subst c6; exact ppMul6_ok w h1 a b ha hb hla hlb
    rw [if_neg c6]
    by_cases c7 : n = 7
    · rw [if_pos c7]; subst c7; exact ppMul7_ok w h1 a b ha hb hla hlb
    rw [if_neg c7]
    by_cases c8 : n = 8
    · rw [if_pos c8]; subst c8; exact ppMul8_ok w h1 a b ha hb hla hlb
    rw [if_neg c8]
    by_cases c9 : n = 9
    · rw [if_pos c9]; subst c9; exact ppMul9_ok w h1 a b ha hb hla hlb
    rw [if_neg c9, if_neg (by omega : ¬ n = 0)]
    have hm : (n + 1) / 2 + (n - (n + 1) / 2) = n := by omega
    have := ppKara2_ok w ((n + 1) / 2) (n - (n + 1) / 2) _ _
      (ih ((n + 1) / 2) (by omega) (by omega)) (ih (n - (n + 1) / 2) (by omega) (by omega))
      (by omega) (by omega)
    rw [hm] at this
    exact this a b ha hb hla hlb

theorem ppMulEq_ok (w : Nat) (h1 : Mul1OK w) (n : Nat) (hn : 1 ≤ n) : MulOK w n (ppMulEq w) := by
  intro a b ha hb hla hlb
  unfold ppMulEq
  rw [hla]
  exact ppMulEqF_ok w h1 n n hn (Nat.le_refl n) a b ha hb hla hlb

/-- the chunk loop of ppMul: window = `lo ++ 0…0`, `|lo| = m` -/
theorem ppMulLoop_spec (w : Nat) (h1 : Mul1OK w) (b : List Nat) (hb : Wf w b) (a lo : List Nat)
    (ha : Wf w a) (hlo : Wf w lo) (hl : lo.length = b.length) :
    val w (ppMulLoop w b a (lo ++ List.replicate a.length 0))
      = val w lo ^^^ clmul (val w a) (val w b)
    ∧ Wf w (ppMulLoop w b a (lo ++ List.replicate a.length 0))
    ∧ (ppMulLoop w b a (lo ++ List.replicate a.length 0)).length = a.length + b.length := by
  induction a generalizing lo with
  | nil => simp [ppMulLoop, val, hlo, hl, zero_clmul]
  | cons ai as ih =>
    obtain ⟨hai, has⟩ := Wf_cons.mp ha
    have htake : (lo ++ List.replicate (as.length + 1) 0).take b.length = lo := by
      rw [← hl]; exact List.take_left' rfl
    have hhead : ((lo ++ List.replicate (as.length + 1) 0).drop b.length).headD 0 = 0 := by
      rw [← hl]; simp [List.replicate_succ]
    have hdrop : (lo ++ List.replicate (as.length + 1) 0).drop (b.length + 1)
        = List.replicate as.length 0 := by
      rw [← hl, List.replicate_succ]; simp
    obtain ⟨s1, s2, s3, s4⟩ := ppAddMulW_spec w h1 lo b ai hlo hb hl hai
    obtain ⟨c0, lo', e, hl'⟩ := Bee2V.C05.Mul.snoc_cons (ppAddMulW w lo b ai).1 (ppAddMulW w lo b ai).2
    have hW : Wf w (c0 :: lo') := by
      rw [← e]; exact Bee2V.C05.Mul.Wf_append.mpr ⟨s3, Bee2V.C05.Mul.Wf_single s2⟩
    obtain ⟨hc0, hlo'⟩ := Wf_cons.mp hW
    rw [e, val_cons] at s1
    have hc' : (ppAddMulW w lo b ai).1
        ++ (0 ^^^ (ppAddMulW w lo b ai).2) :: List.replicate as.length 0
        = c0 :: (lo' ++ List.replicate as.length 0) := by
      rw [Nat.zero_xor, ← List.cons_append, ← e, List.append_assoc]; rfl
    obtain ⟨i1, i2, i3⟩ := ih lo' has hlo' (by rw [hl', s4, hl])
    simp only [ppMulLoop, List.length_cons, htake, hhead, hdrop, hc']
    refine ⟨?_, Wf_cons.mpr ⟨hc0, i2⟩, by rw [i3]; omega⟩
    rw [val_cons, i1, val_cons, add_mul_eq_xor hc0, add_mul_eq_xor hai, xor_clmul, shiftLeft_clmul,
      Nat.shiftLeft_xor_distrib]
    rw [add_mul_eq_xor hc0] at s1
    rw [← Nat.xor_assoc, s1, clmul_comm ai]
    ac_rfl

theorem ppMulGt_spec (w : Nat) (h1 : Mul1OK w) (a b : List Nat) (ha : Wf w a) (hb : Wf w b)
    (hm : 1 ≤ b.length) (hnm : b.length < a.length) :
    val w (ppMulGt w a b) = clmul (val w a) (val w b) ∧ Wf w (ppMulGt w a b)
    ∧ (ppMulGt w a b).length = a.length + b.length := by
  have W := @Bee2V.C05.Mul.Wf_take w
  have Wd := @Bee2V.C05.Mul.Wf_drop w
  obtain ⟨v0, w0, l0⟩ := ppMulEq_ok w h1 b.length hm (a.take b.length) b (W ha _) hb
    (by rw [List.length_take]; omega) rfl
  unfold ppMulGt
  simp only
  generalize ppMulEq w (a.take b.length) b = d at *
  have htk : (d ++ List.replicate (a.length - b.length) 0).take b.length = d.take b.length := by
    rw [List.take_append_of_le_length (by omega)]
  have hdr : (d ++ List.replicate (a.length - b.length) 0).drop b.length
      = d.drop b.length ++ List.replicate (a.drop b.length).length 0 := by
    rw [List.drop_append_of_le_length (by omega), List.length_drop]
  rw [htk, hdr]
  obtain ⟨bd0, bd1⟩ := blk_halves w0 l0
  obtain ⟨i1, i2, i3⟩ := ppMulLoop_spec w h1 b hb (a.drop b.length) (d.drop b.length) (Wd ha _)
    bd1.1 bd1.2
  refine ⟨?_, Bee2V.C05.Mul.Wf_append.mpr ⟨bd0.1, i2⟩, by
    rw [List.length_append, bd0.2, i3, List.length_drop]; omega⟩
  rw [blk_cons_val bd0, i1, Nat.shiftLeft_xor_distrib, ← Nat.xor_assoc,
    ← val_take_drop_xor w d b.length w0, v0, ← shiftLeft_clmul, ← xor_clmul,
    ← val_take_drop_xor w a b.length ha]

theorem ppMul_spec (w : Nat) (h1 : Mul1OK w) (a b : List Nat) (ha : Wf w a) (hb : Wf w b) :
    val w (ppMul w a b) = clmul (val w a) (val w b) ∧ Wf w (ppMul w a b)
    ∧ (ppMul w a b).length = a.length + b.length := by
  unfold ppMul
  simp only
  by_cases c0 : a.length = 0 ∨ b.length = 0
  · rw [if_pos c0]
    refine ⟨?_, Bee2V.C05.Mul.Wf_replicate_zero w _, by simp⟩
    rw [Bee2V.C05.Mul.val_replicate_zero]
    rcases c0 with h | h
    · rw [List.length_eq_zero_iff.mp h]; simp [val, zero_clmul]
    · rw [List.length_eq_zero_iff.mp h]; simp [val, clmul_zero]
  rw [if_neg c0]
  by_cases c1 : a.length = b.length
  · rw [if_pos c1]
    obtain ⟨g1, g2, g3⟩ := ppMulEq_ok w h1 a.length (by omega) a b ha hb rfl c1.symm
    exact ⟨g1, g2, by rw [g3, c1]⟩
  rw [if_neg c1]
  by_cases c2 : a.length < b.length
  · rw [if_pos c2]
    obtain ⟨g1, g2, g3⟩ := ppMulGt_spec w h1 b a hb ha (by omega) c2
    exact ⟨by rw [g1, clmul_comm], g2, by rw [g3]; omega⟩
  · rw [if_neg c2]
    exact ppMulGt_spec w h1 a b ha hb (by omega) (by omega)

/-! ## §9 ppSqr -/

set_option maxRecDepth 100000 in
theorem ppSquares_spec : ∀ i < 256, ppAt ppSquares i = clmul i i := by decide

theorem clmul_lt {x y n m : Nat} (hx : x < 2 ^ n) (hy : y < 2 ^ m) : clmul x y < 2 ^ (n + m) := by
  rcases Nat.eq_zero_or_pos x with h | h
  · subst h; rw [zero_clmul]; exact Nat.two_pow_pos _
  rcases Nat.eq_zero_or_pos y with h' | h'
  · subst h'; rw [clmul_zero]; exact Nat.two_pow_pos _
  have hx0 : x ≠ 0 := by omega
  have hy0 : y ≠ 0 := by omega
  have h1 := (Nat.log2_lt hx0).mpr hx
  have h2 := (Nat.log2_lt hy0).mpr hy
  have h3 := log2_clmul hx0 hy0
  exact (Nat.log2_lt (clmul_ne_zero hx0 hy0)).mp (by omega)

theorem sqr_xor (x y : Nat) : clmul (x ^^^ y) (x ^^^ y) = clmul x x ^^^ clmul y y := by
  rw [xor_clmul, clmul_xor, clmul_xor, clmul_comm y x]
  generalize clmul x x = p
  generalize clmul y y = q
  generalize clmul x y = r
  simp only [Nat.xor_assoc, Nat.xor_comm, Pp.xor_left_comm, xor_xor_cancel_left, Nat.xor_self,
    Nat.xor_zero, Nat.zero_xor]

theorem sqr_shift (x s : Nat) : clmul (x <<< s) (x <<< s) = clmul x x <<< (s + s) := by
  rw [shiftLeft_clmul, clmul_shiftLeft, ← Nat.shiftLeft_add]

theorem or_eq_xor_of_lt {acc t s : Nat} (h : acc < 2 ^ s) : acc ||| (t <<< s) = acc ^^^ (t <<< s) := by
  rw [Nat.or_comm, Nat.shiftLeft_eq, Nat.mul_comm, ← Nat.two_pow_add_eq_or_of_lt h, Nat.add_comm,
    add_mul_eq_xor h, Nat.shiftLeft_eq, Nat.mul_comm]

theorem and255 (x : Nat) : x &&& 255 = x % 2 ^ 8 := Nat.and_two_pow_sub_one_eq_mod x 8

/-- `_SQR_LO/_SQR_HI`: the table look-ups assemble the square of the low 8k bits of `x` -/
theorem sqrHalf_aux (x k : Nat) :
    (List.range k).foldl
      (fun acc j => acc ||| (ppAt ppSquares ((x >>> (8 * j)) &&& 255) <<< (16 * j))) 0
      = clmul (x % 2 ^ (8 * k)) (x % 2 ^ (8 * k)) := by
  induction k with
  | zero => simp [Nat.mod_one, clmul_zero]
  | succ k ih =>
    rw [List.range_succ, List.foldl_append, ih]
    simp only [List.foldl_cons, List.foldl_nil]
    have hlow : x % 2 ^ (8 * k) < 2 ^ (8 * k) := Nat.mod_lt _ (Nat.two_pow_pos _)
    have hoct : (x >>> (8 * k)) &&& 255 < 256 := by
      rw [and255]; exact Nat.mod_lt _ (by norm_num)
    have hacc : clmul (x % 2 ^ (8 * k)) (x % 2 ^ (8 * k)) < 2 ^ (16 * k) := by
      have := clmul_lt hlow hlow
      rwa [show 8 * k + 8 * k = 16 * k by omega] at this
    rw [ppSquares_spec _ hoct, or_eq_xor_of_lt hacc]
    have hx : x % 2 ^ (8 * (k + 1))
        = x % 2 ^ (8 * k) ^^^ (((x >>> (8 * k)) &&& 255) <<< (8 * k)) := by
      rw [show 8 * (k + 1) = 8 * k + 8 by omega, Nat.pow_add, Nat.mod_mul, add_mul_eq_xor hlow,
        and255, Nat.shiftRight_eq_div_pow]
    rw [hx, sqr_xor, sqr_shift, show 8 * k + 8 * k = 16 * k by omega]

theorem ppSqrHalf_eq (w a off : Nat) :
    ppSqrHalf w a off = clmul ((a >>> off) % 2 ^ (8 * (w / 16))) ((a >>> off) % 2 ^ (8 * (w / 16))) := by
  unfold ppSqrHalf
  rw [← sqrHalf_aux]
  simp only [Nat.shiftRight_add]

/-- one word: `(_SQR_LO(a), _SQR_HI(a))` is the square of `a` -/
theorem sqrWord (k a : Nat) (ha : a < 2 ^ (16 * k)) :
    ppSqrHalf (16 * k) a 0 < 2 ^ (16 * k) ∧ ppSqrHalf (16 * k) a (16 * k / 2) < 2 ^ (16 * k)
    ∧ ppSqrHalf (16 * k) a 0 + 2 ^ (16 * k) * ppSqrHalf (16 * k) a (16 * k / 2) = clmul a a := by
  have hk : 16 * k / 16 = k := by omega
  have hh : 16 * k / 2 = 8 * k := by omega
  rw [ppSqrHalf_eq, ppSqrHalf_eq, hk, hh, Nat.shiftRight_zero]
  have hlo : a % 2 ^ (8 * k) < 2 ^ (8 * k) := Nat.mod_lt _ (Nat.two_pow_pos _)
  have hhi : a >>> (8 * k) < 2 ^ (8 * k) := by
    rw [Nat.shiftRight_eq_div_pow]
    apply Nat.div_lt_of_lt_mul
    rwa [← Nat.pow_add, show 8 * k + 8 * k = 16 * k by omega]
  rw [Nat.mod_eq_of_lt hhi]
  have b1 := clmul_lt hlo hlo
  have b2 := clmul_lt hhi hhi
  rw [show 8 * k + 8 * k = 16 * k by omega] at b1 b2
  refine ⟨b1, b2, ?_⟩
  have ea : a = a % 2 ^ (8 * k) ^^^ ((a >>> (8 * k)) <<< (8 * k)) := by
    rw [← add_mul_eq_xor hlo, Nat.shiftRight_eq_div_pow, Nat.add_comm, Nat.div_add_mod]
  conv_rhs => rw [ea]
  rw [sqr_xor, sqr_shift, show 8 * k + 8 * k = 16 * k by omega, add_mul_eq_xor b1]

theorem ppSqr_spec (k : Nat) (a : List Nat) (ha : Wf (16 * k) a) :
    val (16 * k) (ppSqr (16 * k) a) = clmul (val (16 * k) a) (val (16 * k) a)
    ∧ Wf (16 * k) (ppSqr (16 * k) a) ∧ (ppSqr (16 * k) a).length = a.length + a.length := by
  induction a with
  | nil => simp [ppSqr, val, Wf_nil, clmul_zero]
  | cons a0 as ih =>
    obtain ⟨ha0, has⟩ := Wf_cons.mp ha
    obtain ⟨i1, i2, i3⟩ := ih has
    obtain ⟨s1, s2, s3⟩ := sqrWord k a0 ha0
    simp only [ppSqr, val_cons, List.length_cons]
    refine ⟨?_, Wf_cons.mpr ⟨s1, Wf_cons.mpr ⟨s2, i2⟩⟩, by rw [i3]; omega⟩
    rw [i1, add_mul_eq_xor ha0, sqr_xor, sqr_shift, ← s3]
    have hlt : ppSqrHalf (16 * k) a0 0 + 2 ^ (16 * k) * ppSqrHalf (16 * k) a0 (16 * k / 2)
        < 2 ^ (16 * k + 16 * k) := by
      rw [Nat.pow_add]
      have : 2 ^ (16 * k) * (ppSqrHalf (16 * k) a0 (16 * k / 2) + 1) ≤ 2 ^ (16 * k) * 2 ^ (16 * k) :=
        Nat.mul_le_mul_left _ s2
      rw [Nat.mul_add] at this; omega
    rw [← add_mul_eq_xor hlt, Nat.pow_add]
    generalize ppSqrHalf (16 * k) a0 0 = lo
    generalize ppSqrHalf (16 * k) a0 (16 * k / 2) = hi
    ring

/-! ## §10 towards `Mul1OK`: the table of `_MUL_PRE_S4` and one octet of `_MUL_MUL_S4` -/

theorem two_mul_add_one_xor (k : Nat) : 2 * k + 1 = (2 * k) ^^^ 1 := by
  have := add_mul_eq_xor (w := 1) (x := 1) (u := k) (by norm_num)
  rw [Nat.shiftLeft_eq, Nat.pow_one, Nat.mul_comm k 2] at this
  rw [Nat.add_comm, this, Nat.xor_comm]

theorem mod_mul_mod' (x c n : Nat) : (x % n * c) % n = (x * c) % n := by
  rw [Nat.mul_mod, Nat.mod_mod, ← Nat.mul_mod]

theorem tab_dbl (w a k : Nat) : clmul a (2 * k) % 2 ^ w = wshl w (clmul a k % 2 ^ w) 1 := by
  show _ = (clmul a k % 2 ^ w * 2 ^ 1) % 2 ^ w
  rw [clmul_two_mul, Nat.pow_one, mod_mul_mod', Nat.mul_comm]

theorem tab_inc (w a k : Nat) (ha : a < 2 ^ w) :
    clmul a (2 * k + 1) % 2 ^ w = (clmul a (2 * k) % 2 ^ w) ^^^ a := by
  rw [two_mul_add_one_xor, clmul_xor, clmul_one, Nat.xor_mod_two_pow, Nat.mod_eq_of_lt ha]

/-- `_MUL_PRE_S4`: entry i is `a · i mod x^w` -/
theorem ppTab_eq (w a : Nat) (ha : a < 2 ^ w) :
    ppTab w a = (List.range 16).map (fun i => clmul a i % 2 ^ w) := by
  have e0 : clmul a 0 % 2 ^ w = 0 := by rw [clmul_zero]; exact Nat.zero_mod _
  have e1 : clmul a 1 % 2 ^ w = a := by rw [clmul_one, Nat.mod_eq_of_lt ha]
  have e2 : clmul a 2 % 2 ^ w = wshl w (clmul a 1 % 2 ^ w) 1 := tab_dbl w a 1
  have e3 : clmul a 3 % 2 ^ w = (clmul a 2 % 2 ^ w) ^^^ a := tab_inc w a 1 ha
  have e4 : clmul a 4 % 2 ^ w = wshl w (clmul a 2 % 2 ^ w) 1 := tab_dbl w a 2
  have e5 : clmul a 5 % 2 ^ w = (clmul a 4 % 2 ^ w) ^^^ a := tab_inc w a 2 ha
  have e6 : clmul a 6 % 2 ^ w = wshl w (clmul a 3 % 2 ^ w) 1 := tab_dbl w a 3
  have e7 : clmul a 7 % 2 ^ w = (clmul a 6 % 2 ^ w) ^^^ a := tab_inc w a 3 ha
  have e8 : clmul a 8 % 2 ^ w = wshl w (clmul a 4 % 2 ^ w) 1 := tab_dbl w a 4
  have e9 : clmul a 9 % 2 ^ w = (clmul a 8 % 2 ^ w) ^^^ a := tab_inc w a 4 ha
  have e10 : clmul a 10 % 2 ^ w = wshl w (clmul a 5 % 2 ^ w) 1 := tab_dbl w a 5
  have e11 : clmul a 11 % 2 ^ w = (clmul a 10 % 2 ^ w) ^^^ a := tab_inc w a 5 ha
  have e12 : clmul a 12 % 2 ^ w = wshl w (clmul a 6 % 2 ^ w) 1 := tab_dbl w a 6
  have e13 : clmul a 13 % 2 ^ w = (clmul a 12 % 2 ^ w) ^^^ a := tab_inc w a 6 ha
  have e14 : clmul a 14 % 2 ^ w = wshl w (clmul a 7 % 2 ^ w) 1 := tab_dbl w a 7
  have e15 : clmul a 15 % 2 ^ w = (clmul a 14 % 2 ^ w) ^^^ a := tab_inc w a 7 ha
  simp only [List.range, List.range.loop, List.map]
  rw [e15, e14, e13, e12, e11, e10, e9, e8, e7, e6, e5, e4, e3, e2, e1, e0]
  rfl

theorem ppTab_at (w a i : Nat) (ha : a < 2 ^ w) (hi : i < 16) :
    ppAt (ppTab w a) i = clmul a i % 2 ^ w := by
  rw [ppTab_eq w a ha]
  show ((List.range 16).map (fun i => clmul a i % 2 ^ w)).getD i 0 = _
  rw [List.getD_eq_getElem?_getD, List.getElem?_map, List.getElem?_range hi]
  rfl

/-- one octet `y` of `b`: `t[y >> 4] << 4 ^ t[y & 15]` is `a · y mod x^w` -/
theorem octet_spec (w a y : Nat) (ha : a < 2 ^ w) (hy : y < 256) :
    wshl w (ppAt (ppTab w a) (y >>> 4)) 4 ^^^ ppAt (ppTab w a) (y &&& 15) = clmul a y % 2 ^ w := by
  have h15 : y &&& 15 = y % 2 ^ 4 := Nat.and_two_pow_sub_one_eq_mod y 4
  have hhi : y >>> 4 < 16 := by rw [Nat.shiftRight_eq_div_pow]; omega
  have hlo : y % 2 ^ 4 < 16 := Nat.mod_lt _ (by norm_num)
  rw [h15, ppTab_at w a _ ha hhi, ppTab_at w a _ ha hlo]
  have ey : y = y % 2 ^ 4 ^^^ ((y >>> 4) <<< 4) := by
    rw [← add_mul_eq_xor (Nat.mod_lt _ (by norm_num)), Nat.shiftRight_eq_div_pow, Nat.add_comm,
      Nat.div_add_mod]
  conv_rhs => rw [ey, clmul_xor, clmul_shiftLeft, Nat.xor_mod_two_pow]
  show (clmul a (y >>> 4) % 2 ^ w * 2 ^ 4) % 2 ^ w ^^^ _ = _
  rw [Nat.xor_comm, Nat.shiftLeft_eq, mod_mul_mod']

/-! ## §11 `_MUL_MUL_S4`: the (hi, lo) shift register -/

/-- octet i of b -/
def octet (b i : Nat) : Nat := (b >>> (8 * i)) &&& 255

/-- what the register accumulates: XOR_{i<j} (a·y_i mod x^w) << 8i -/
def Gf (w a b : Nat) : Nat → Nat
  | 0 => 0
  | j + 1 => ((clmul a (octet b j) % 2 ^ w) <<< (8 * j)) ^^^ Gf w a b j

/-- what the truncations lose: XOR_{i<j} ((a·y_i) >> w) << 8i -/
def Kf (w a b : Nat) : Nat → Nat
  | 0 => 0
  | j + 1 => ((clmul a (octet b j) >>> w) <<< (8 * j)) ^^^ Kf w a b j

theorem octet_lt (b i : Nat) : octet b i < 256 := by
  unfold octet; rw [and255]; exact Nat.mod_lt _ (by norm_num)

/-- one step of the register: exact two-word shift by 8, then xor into the low word -/
theorem regStep {w lo hi E s : Nat} (hw : 8 ≤ w) (hlo : lo < 2 ^ w) (hhi : hi < 2 ^ s)
    (hs : s + 8 ≤ w) (hE : E < 2 ^ w) :
    (wshl w lo 8 ^^^ E) + 2 ^ w * (wshl w hi 8 ^^^ (lo >>> (w - 8)))
      = ((lo + 2 ^ w * hi) <<< 8) ^^^ E
    ∧ wshl w lo 8 ^^^ E < 2 ^ w ∧ wshl w hi 8 ^^^ (lo >>> (w - 8)) < 2 ^ (s + 8) := by
  obtain ⟨u, rfl⟩ : ∃ u, w = u + 8 := ⟨w - 8, by omega⟩
  rw [Nat.add_sub_cancel]
  have hB : 2 ^ (u + 8) = 2 ^ u * 2 ^ 8 := Nat.pow_add 2 u 8
  have hdm := Nat.div_add_mod lo (2 ^ u)
  have hl0 : lo % 2 ^ u < 2 ^ u := Nat.mod_lt _ (Nat.two_pow_pos u)
  have hl1 : lo / 2 ^ u < 2 ^ 8 := Nat.div_lt_of_lt_mul (by rw [← hB]; exact hlo)
  have hsu : 2 ^ s ≤ 2 ^ u := Nat.pow_le_pow_right (by omega) (by omega)
  -- low word
  have e1 : wshl (u + 8) lo 8 = lo % 2 ^ u * 2 ^ 8 := by
    show lo * 2 ^ 8 % 2 ^ (u + 8) = _
    rw [hB, Nat.mul_mod_mul_right]
  have hX : lo % 2 ^ u * 2 ^ 8 < 2 ^ (u + 8) := by
    rw [hB]; exact Nat.mul_lt_mul_of_pos_right hl0 (by norm_num)
  -- high word
  have e2 : wshl (u + 8) hi 8 = hi * 2 ^ 8 := by
    show hi * 2 ^ 8 % 2 ^ (u + 8) = _
    apply Nat.mod_eq_of_lt
    rw [hB]; exact Nat.mul_lt_mul_of_pos_right (by omega) (by norm_num)
  have e3 : hi * 2 ^ 8 ^^^ lo >>> u = lo / 2 ^ u + 2 ^ 8 * hi := by
    rw [add_mul_eq_xor hl1, Nat.shiftRight_eq_div_pow, Nat.shiftLeft_eq, Nat.xor_comm]
  rw [e1, e2, e3]
  refine ⟨?_, Nat.xor_lt_two_pow hX hE, ?_⟩
  · have e4 : (lo + 2 ^ (u + 8) * hi) <<< 8
        = lo % 2 ^ u * 2 ^ 8 + 2 ^ (u + 8) * (lo / 2 ^ u + 2 ^ 8 * hi) := by
      rw [Nat.shiftLeft_eq, hB]
      conv_lhs => rw [← hdm]
      ring
    rw [e4]
    have := add_mul_xor (w := u + 8) (x := lo % 2 ^ u * 2 ^ 8) (y := E)
      (u := lo / 2 ^ u + 2 ^ 8 * hi) (v := 0) hX hE
    rw [Nat.mul_zero, Nat.add_zero, Nat.xor_zero] at this
    exact this.symm
  · have : 2 ^ 8 * (hi + 1) ≤ 2 ^ 8 * 2 ^ s := Nat.mul_le_mul_left _ hhi
    rw [Nat.pow_add, Nat.mul_comm (2 ^ s)]
    omega

theorem nib_hi (b j : Nat) : (b >>> (8 * j + 4)) &&& 15 = octet b j >>> 4 := by
  unfold octet
  rw [Nat.shiftRight_add, and255, show (15 : Nat) = 2 ^ 4 - 1 by norm_num,
    Nat.and_two_pow_sub_one_eq_mod, Nat.shiftRight_eq_div_pow, Nat.shiftRight_eq_div_pow,
    Nat.shiftRight_eq_div_pow]
  omega

theorem nib_lo (b j : Nat) : (b >>> (8 * j)) &&& 15 = octet b j &&& 15 := by
  unfold octet
  rw [and255, show (15 : Nat) = 2 ^ 4 - 1 by norm_num, Nat.and_two_pow_sub_one_eq_mod,
    Nat.and_two_pow_sub_one_eq_mod]
  omega

/-- the octet loop of `_MUL_MUL_S4`: `j` octets left, `hi` has room for them -/
theorem ppMulS4Loop_spec (w a b : Nat) (ha : a < 2 ^ w) (hw : 8 ≤ w) (j : Nat) :
    ∀ lo hi s, lo < 2 ^ w → hi < 2 ^ s → s + 8 * j ≤ w →
      (ppMulS4Loop w (ppTab w a) b j lo hi).1 < 2 ^ w
      ∧ (ppMulS4Loop w (ppTab w a) b j lo hi).2 < 2 ^ (s + 8 * j)
      ∧ (ppMulS4Loop w (ppTab w a) b j lo hi).1 + 2 ^ w * (ppMulS4Loop w (ppTab w a) b j lo hi).2
        = ((lo + 2 ^ w * hi) <<< (8 * j)) ^^^ Gf w a b j := by
  induction j with
  | zero =>
    intro lo hi s hlo hhi hs
    simp only [ppMulS4Loop, Gf, Nat.mul_zero, Nat.add_zero, Nat.shiftLeft_zero, Nat.xor_zero]
    exact ⟨hlo, hhi, trivial⟩
  | succ j ih =>
    intro lo hi s hlo hhi hs
    have hE : clmul a (octet b j) % 2 ^ w < 2 ^ w := Nat.mod_lt _ (Nat.two_pow_pos w)
    obtain ⟨r1, r2, r3⟩ := regStep hw hlo hhi (by omega) hE
    obtain ⟨i1, i2, i3⟩ := ih _ _ (s + 8) r2 r3 (by omega)
    have hlo' : wshl w lo 8 ^^^ wshl w (ppAt (ppTab w a) ((b >>> (8 * j + 4)) &&& 15)) 4
        ^^^ ppAt (ppTab w a) ((b >>> (8 * j)) &&& 15)
        = wshl w lo 8 ^^^ (clmul a (octet b j) % 2 ^ w) := by
      rw [nib_hi, nib_lo, Nat.xor_assoc, octet_spec w a _ ha (octet_lt b j)]
    simp only [ppMulS4Loop, hlo']
    refine ⟨i1, by rw [show s + 8 * (j + 1) = s + 8 + 8 * j by omega]; exact i2, ?_⟩
    rw [i3, r1, Gf, Nat.shiftLeft_xor_distrib, ← Nat.shiftLeft_add,
      show 8 + 8 * j = 8 * (j + 1) by omega, Nat.xor_assoc]

theorem mod_succ_octet (b j : Nat) :
    b % 2 ^ (8 * (j + 1)) = b % 2 ^ (8 * j) ^^^ (octet b j <<< (8 * j)) := by
  have hlow : b % 2 ^ (8 * j) < 2 ^ (8 * j) := Nat.mod_lt _ (Nat.two_pow_pos _)
  unfold octet
  rw [show 8 * (j + 1) = 8 * j + 8 by omega, Nat.pow_add, Nat.mod_mul, add_mul_eq_xor hlow,
    and255, Nat.shiftRight_eq_div_pow]

/-- the product of `a` with the low j octets of `b`, split into what the register holds and what
    the truncations lose -/
theorem clmul_Gf_Kf (w a b j : Nat) :
    clmul a (b % 2 ^ (8 * j)) = Gf w a b j ^^^ (Kf w a b j <<< w) := by
  induction j with
  | zero => simp [Gf, Kf, Nat.mod_one, clmul_zero]
  | succ j ih =>
    have hx : clmul a (octet b j)
        = clmul a (octet b j) % 2 ^ w ^^^ ((clmul a (octet b j) >>> w) <<< w) := by
      rw [← add_mul_eq_xor (Nat.mod_lt _ (Nat.two_pow_pos w)), Nat.shiftRight_eq_div_pow,
        Nat.add_comm, Nat.div_add_mod]
    rw [mod_succ_octet, clmul_xor, clmul_shiftLeft, ih, Gf, Kf]
    conv_lhs => rw [hx]
    simp only [Nat.shiftLeft_xor_distrib, ← Nat.shiftLeft_add, Nat.add_comm w (8 * j)]
    ac_rfl

/-- the seven `_MUL_REPAIR_S4` lines add exactly the lost part (the remaining open piece) -/
def RepairOK (w : Nat) : Prop :=
  ∀ a b hi, a < 2 ^ w → b < 2 ^ w → ppRepair w a b hi = hi ^^^ Kf w a b (w / 8)

theorem Mul1OK_of_RepairOK (nb : Nat) (hnb : 2 ≤ nb) (hr : RepairOK (8 * nb)) : Mul1OK (8 * nb) := by
  intro a b ha hb
  have hw8 : 8 * nb / 8 = nb := by omega
  obtain ⟨j, rfl⟩ : ∃ j, nb = j + 1 := ⟨nb - 1, by omega⟩
  have hB := Nat.two_pow_pos (8 * (j + 1))
  -- top octet
  have htop : b >>> (8 * (j + 1) - 8) = octet b j := by
    unfold octet
    rw [show 8 * (j + 1) - 8 = 8 * j by omega, and255, Nat.mod_eq_of_lt]
    rw [Nat.shiftRight_eq_div_pow]
    apply Nat.div_lt_of_lt_mul
    rw [← Nat.pow_add, show 8 * j + 8 = 8 * (j + 1) by omega]; exact hb
  have hlo0 : wshl (8 * (j + 1)) (ppAt (ppTab (8 * (j + 1)) a) (b >>> (8 * (j + 1) - 4))) 4
      ^^^ ppAt (ppTab (8 * (j + 1)) a) ((b >>> (8 * (j + 1) - 8)) &&& 15)
      = clmul a (octet b j) % 2 ^ (8 * (j + 1)) := by
    have h4 : b >>> (8 * (j + 1) - 4) = octet b j >>> 4 := by
      rw [← htop, ← Nat.shiftRight_add, show 8 * (j + 1) - 8 + 4 = 8 * (j + 1) - 4 by omega]
    rw [h4, htop, octet_spec _ a _ ha (octet_lt b j)]
  have hE : clmul a (octet b j) % 2 ^ (8 * (j + 1)) < 2 ^ (8 * (j + 1)) := Nat.mod_lt _ hB
  obtain ⟨l1, l2, l3⟩ := ppMulS4Loop_spec (8 * (j + 1)) a b ha (by omega) j _ 0 0 hE
    (Nat.two_pow_pos 0) (by omega)
  simp only [Nat.mul_zero, Nat.add_zero] at l3
  have hV : (ppMulS4 (8 * (j + 1)) (ppTab (8 * (j + 1)) a) b).1
      + 2 ^ (8 * (j + 1)) * (ppMulS4 (8 * (j + 1)) (ppTab (8 * (j + 1)) a) b).2
      = Gf (8 * (j + 1)) a b (j + 1) := by
    unfold ppMulS4
    simp only [hlo0, hw8, Nat.add_sub_cancel]
    rw [l3, Gf]
  have hlo : (ppMulS4 (8 * (j + 1)) (ppTab (8 * (j + 1)) a) b).1 < 2 ^ (8 * (j + 1)) := by
    unfold ppMulS4
    simp only [hlo0, hw8, Nat.add_sub_cancel]
    exact l1
  have hprod := clmul_Gf_Kf (8 * (j + 1)) a b (j + 1)
  rw [Nat.mod_eq_of_lt hb, ← hV] at hprod
  have e : Kf (8 * (j + 1)) a b (j + 1) <<< (8 * (j + 1))
      = 0 + 2 ^ (8 * (j + 1)) * Kf (8 * (j + 1)) a b (j + 1) := by
    rw [Nat.shiftLeft_eq, Nat.mul_comm, Nat.zero_add]
  rw [e, add_mul_xor hlo hB, Nat.xor_zero] at hprod
  have hrep := hr a b (ppMulS4 (8 * (j + 1)) (ppTab (8 * (j + 1)) a) b).2 ha hb
  rw [hw8] at hrep
  have hlt := clmul_lt ha hb
  rw [Nat.pow_add] at hlt
  unfold ppMul1W
  simp only [hrep]
  generalize (ppMulS4 (8 * (j + 1)) (ppTab (8 * (j + 1)) a) b).1 = lo at *
  generalize (ppMulS4 (8 * (j + 1)) (ppTab (8 * (j + 1)) a) b).2
    ^^^ Kf (8 * (j + 1)) a b (j + 1) = X at *
  refine ⟨hlo, ?_, hprod.symm⟩
  by_contra hcon
  have : 2 ^ (8 * (j + 1)) * 2 ^ (8 * (j + 1)) ≤ 2 ^ (8 * (j + 1)) * X :=
    Nat.mul_le_mul_left _ (by omega)
  omega

/-! ## §12 `_MUL_REPAIR_S4` by bilinearity -/

/-- xor-additive functions that agree on the monomials agree below `2^n` -/
theorem additive_ext (f g : Nat → Nat) (hf : ∀ x y, f (x ^^^ y) = f x ^^^ f y)
    (hg : ∀ x y, g (x ^^^ y) = g x ^^^ g y) (n : Nat) (h : ∀ i < n, f (2 ^ i) = g (2 ^ i)) :
    ∀ x < 2 ^ n, f x = g x := by
  have f0 : f 0 = 0 := by
    have h2 := hf 0 0
    rw [Nat.xor_self] at h2
    have : f 0 ^^^ f 0 = 0 := Nat.xor_self _
    rw [← h2] at this; exact this
  have g0 : g 0 = 0 := by
    have h2 := hg 0 0
    rw [Nat.xor_self] at h2
    have : g 0 ^^^ g 0 = 0 := Nat.xor_self _
    rw [← h2] at this; exact this
  induction n with
  | zero => intro x hx; have : x = 0 := by simpa using hx
            rw [this, f0, g0]
  | succ n ih =>
    intro x hx
    have hlow : x % 2 ^ n < 2 ^ n := Nat.mod_lt _ (Nat.two_pow_pos n)
    have hq : x / 2 ^ n < 2 := Nat.div_lt_of_lt_mul (by rw [← Nat.pow_succ]; exact hx)
    have ex : x = x % 2 ^ n ^^^ ((x / 2 ^ n) <<< n) := by
      rw [← add_mul_eq_xor hlow, Nat.add_comm, Nat.div_add_mod]
    have hq01 : x / 2 ^ n = 0 ∨ x / 2 ^ n = 1 := by
      revert hq; generalize x / 2 ^ n = q; omega
    rw [ex, hf, hg, ih (fun i hi => h i (by omega)) _ hlow]
    congr 1
    obtain h0 | h1 := hq01
    · rw [h0, Nat.zero_shiftLeft, f0, g0]
    · rw [h1, Nat.one_shiftLeft]; exact h n (by omega)

theorem octet_xor (b1 b2 j : Nat) : octet (b1 ^^^ b2) j = octet b1 j ^^^ octet b2 j := by
  unfold octet; rw [Nat.shiftRight_xor_distrib, Nat.and_xor_distrib_right]

theorem Kf_add_b (w a b1 b2 j : Nat) : Kf w a (b1 ^^^ b2) j = Kf w a b1 j ^^^ Kf w a b2 j := by
  induction j with
  | zero => simp [Kf]
  | succ j ih =>
    simp only [Kf, octet_xor, clmul_xor, Nat.shiftRight_xor_distrib, Nat.shiftLeft_xor_distrib, ih]
    ac_rfl

theorem Kf_add_a (w a1 a2 b j : Nat) : Kf w (a1 ^^^ a2) b j = Kf w a1 b j ^^^ Kf w a2 b j := by
  induction j with
  | zero => simp [Kf]
  | succ j ih =>
    simp only [Kf, xor_clmul, Nat.shiftRight_xor_distrib, Nat.shiftLeft_xor_distrib, ih]
    ac_rfl

theorem ppRepair_eq (w a b hi : Nat) : ppRepair w a b hi = hi ^^^ ppRepair w a b 0 := by
  simp only [ppRepair, List.foldl, ppRepairStep, Nat.zero_xor, Nat.xor_assoc]

theorem ppRepair_add_b (w a b1 b2 : Nat) :
    ppRepair w a (b1 ^^^ b2) 0 = ppRepair w a b1 0 ^^^ ppRepair w a b2 0 := by
  simp only [ppRepair, List.foldl, ppRepairStep, Nat.zero_xor, Nat.and_xor_distrib_right,
    Nat.shiftRight_xor_distrib]
  ac_rfl

theorem wneg_add (w u v : Nat) (hw : 0 < w) (hu : u ≤ 1) (hv : v ≤ 1) :
    wneg w (u ^^^ v) = wneg w u ^^^ wneg w v := by
  obtain rfl | rfl : u = 0 ∨ u = 1 := by omega
  all_goals obtain rfl | rfl : v = 0 ∨ v = 1 := by omega
  all_goals simp [Bee2V.C05.Mul.wneg01 hw]

theorem ppRepair_add_a (w a1 a2 b : Nat) (hw : 0 < w) :
    ppRepair w (a1 ^^^ a2) b 0 = ppRepair w a1 b 0 ^^^ ppRepair w a2 b 0 := by
  have key : ∀ s, wneg w (((a1 ^^^ a2) >>> s) &&& 1)
      = wneg w ((a1 >>> s) &&& 1) ^^^ wneg w ((a2 >>> s) &&& 1) := by
    intro s
    rw [Nat.shiftRight_xor_distrib, Nat.and_xor_distrib_right,
      wneg_add w _ _ hw Nat.and_le_right Nat.and_le_right]
  simp only [ppRepair, List.foldl, ppRepairStep, Nat.zero_xor, key, Nat.and_xor_distrib_left]
  ac_rfl

theorem repair_base16 : ∀ i < 16, ∀ p < 16, ppRepair 16 (2 ^ i) (2 ^ p) 0 = Kf 16 (2 ^ i) (2 ^ p) 2 := by
  decide +kernel

theorem repair_base32 : ∀ i < 32, ∀ p < 32, ppRepair 32 (2 ^ i) (2 ^ p) 0 = Kf 32 (2 ^ i) (2 ^ p) 4 := by
  decide +kernel

theorem repair_base64 : ∀ i < 64, ∀ p < 64, ppRepair 64 (2 ^ i) (2 ^ p) 0 = Kf 64 (2 ^ i) (2 ^ p) 8 := by
  decide +kernel

/-- both sides of `RepairOK` are xor-bilinear in (a, b): agreement on monomials suffices -/
theorem RepairOK_of_base (w nb : Nat) (hw : 0 < w) (hnb : w / 8 = nb)
    (hbase : ∀ i < w, ∀ p < w, ppRepair w (2 ^ i) (2 ^ p) 0 = Kf w (2 ^ i) (2 ^ p) nb) :
    RepairOK w := by
  intro a b hi ha hb
  rw [ppRepair_eq, hnb]
  congr 1
  refine additive_ext (fun a => ppRepair w a b 0) (fun a => Kf w a b nb)
    (fun x y => ppRepair_add_a w x y b hw) (fun x y => Kf_add_a w x y b nb) w ?_ a ha
  intro i hi
  exact additive_ext (fun b => ppRepair w (2 ^ i) b 0) (fun b => Kf w (2 ^ i) b nb)
    (fun x y => ppRepair_add_b w (2 ^ i) x y) (fun x y => Kf_add_b w (2 ^ i) x y nb) w
    (fun p hp => hbase i hi p hp) b hb

theorem Mul1OK_16 : Mul1OK 16 :=
  Mul1OK_of_RepairOK 2 (by omega) (RepairOK_of_base 16 2 (by omega) rfl repair_base16)
theorem Mul1OK_32 : Mul1OK 32 :=
  Mul1OK_of_RepairOK 4 (by omega) (RepairOK_of_base 32 4 (by omega) rfl repair_base32)
theorem Mul1OK_64 : Mul1OK 64 :=
  Mul1OK_of_RepairOK 8 (by omega) (RepairOK_of_base 64 8 (by omega) rfl repair_base64)

theorem Mul1OK_of_width {w : Nat} (hw : w = 16 ∨ w = 32 ∨ w = 64) : Mul1OK w := by
  rcases hw with rfl | rfl | rfl
  · exact Mul1OK_16
  · exact Mul1OK_32
  · exact Mul1OK_64

end Bee2V.C05.PpMul

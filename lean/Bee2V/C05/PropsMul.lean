/-
C05 — property theorems of the multiplicative part of the arithmetic layer
(src/math/zz/zz_mul.c, zz_red.c; models in ModelMul.lean, helper lemmas in LemmasMul.lean).

Every theorem is for all word sizes `w` and all lengths, under the preconditions of
include/bee2/math/zz.h, and states value + carry/borrow + `Wf` + length of the result.
`val w a` is the value of the little-endian word list `a` in base `2^w`.
-/
import Bee2V.C05.LemmasMul
namespace Bee2V.C05
open Bee2V.C05.Mul

/-! ## multiplication by a word -/

/-- zzMulW: `b + B^n carry = a * w`; the double word never wraps. -/
theorem zzMulW_spec (w : Nat) (a : List Nat) (x : Nat) (ha : Wf w a) (hx : x < 2 ^ w) :
    val w (zzMulW w a x).1 + 2 ^ (w * a.length) * (zzMulW w a x).2 = val w a * x
    ∧ (zzMulW w a x).2 < 2 ^ w ∧ Wf w (zzMulW w a x).1 ∧ (zzMulW w a x).1.length = a.length := by
  simpa [zzMulW] using zzMulWLoop_spec w a x 0 ha hx (Nat.two_pow_pos w)

example : zzMulW 8 [255, 255, 255] 255 = ([1, 255, 255], 254) := by decide

/-- zzMulW as the header states it: `b = a w mod B^n`, `carry = a w div B^n`. -/
theorem zzMulW_divmod (w : Nat) (a : List Nat) (x : Nat) (ha : Wf w a) (hx : x < 2 ^ w) :
    val w (zzMulW w a x).1 = (val w a * x) % 2 ^ (w * a.length)
    ∧ (zzMulW w a x).2 = (val w a * x) / 2 ^ (w * a.length) := by
  obtain ⟨h1, _, h3, h4⟩ := zzMulW_spec w a x ha hx
  have hlt := val_lt h3
  rw [h4] at hlt
  rw [← h1]
  have hP : 0 < 2 ^ (w * a.length) := Nat.two_pow_pos _
  rw [Nat.add_mul_mod_self_left, Nat.mod_eq_of_lt hlt, Nat.add_mul_div_left _ _ hP,
    Nat.div_eq_of_lt hlt, Nat.zero_add]
  exact ⟨rfl, rfl⟩

/-- zzAddMulW: `b' + B^n carry = b + a * w`. -/
theorem zzAddMulW_spec (w : Nat) (b a : List Nat) (x : Nat) (hb : Wf w b) (ha : Wf w a)
    (hl : b.length = a.length) (hx : x < 2 ^ w) :
    val w (zzAddMulW w b a x).1 + 2 ^ (w * b.length) * (zzAddMulW w b a x).2
      = val w b + val w a * x
    ∧ (zzAddMulW w b a x).2 < 2 ^ w ∧ Wf w (zzAddMulW w b a x).1
    ∧ (zzAddMulW w b a x).1.length = b.length := by
  simpa [zzAddMulW] using zzAddMulWLoop_spec w b a x 0 hb ha hl hx (Nat.two_pow_pos w)

example : zzAddMulW 8 [255, 255] [255, 255] 255 = ([0, 255], 255) := by decide

/-- zzSubMulW: `b' + a * w = b + B^n borrow`, the borrow is a word. -/
theorem zzSubMulW_spec (w : Nat) (b a : List Nat) (x : Nat) (hb : Wf w b) (ha : Wf w a)
    (hl : b.length = a.length) (hx : x < 2 ^ w) :
    val w (zzSubMulW w b a x).1 + val w a * x
      = val w b + 2 ^ (w * b.length) * (zzSubMulW w b a x).2
    ∧ (zzSubMulW w b a x).2 < 2 ^ w ∧ Wf w (zzSubMulW w b a x).1
    ∧ (zzSubMulW w b a x).1.length = b.length := by
  simpa [zzSubMulW] using zzSubMulWLoop_spec w b a x 0 hb ha hl hx (Nat.two_pow_pos w)

example : zzSubMulW 8 [0, 0] [255, 255] 255 = ([255, 0], 255) := by decide

/-! ## zzMul, zzSqr -/

/-- zzMul: `c = a * b` exactly, `n + m` words. -/
theorem zzMul_spec (w : Nat) (a b : List Nat) (ha : Wf w a) (hb : Wf w b) :
    val w (zzMul w a b) = val w a * val w b ∧ Wf w (zzMul w a b)
    ∧ (zzMul w a b).length = a.length + b.length :=
  Mul.zzMul_spec w a b ha hb

example : zzMul 8 [255, 255] [255, 255, 255] = [1, 0, 255, 254, 255] := by decide

/-- zzSqr (three passes; pass 3 starts from the carry left by pass 2, which is 0 because
    `2 Σ_{i<j} a_i a_j B^{i+j} < B^{2n}`): `b = a^2` exactly, `2n` words. -/
theorem zzSqr_spec (w : Nat) (hw : 0 < w) (a : List Nat) (ha : Wf w a) :
    val w (zzSqr w a) = val w a ^ 2 ∧ Wf w (zzSqr w a)
    ∧ (zzSqr w a).length = a.length + a.length := by
  rw [Nat.pow_two]
  exact Mul.zzSqr_spec w hw a ha

example : zzSqr 8 [255, 255, 255] = [1, 0, 0, 254, 255, 255] := by decide

/-! ## division by a word -/

/-- zzDivW: `a = q * w + r`, `r < w` (header: `\pre w != 0`), `n` quotient words. -/
theorem zzDivW_spec (w : Nat) (a : List Nat) (x : Nat) (ha : Wf w a) (hx0 : 0 < x)
    (hx : x < 2 ^ w) :
    val w a = val w (zzDivW w a x).1 * x + (zzDivW w a x).2 ∧ (zzDivW w a x).2 < x
    ∧ Wf w (zzDivW w a x).1 ∧ (zzDivW w a x).1.length = a.length :=
  Mul.zzDivW_spec w a x ha hx0 hx

/-- zzDivW in `/`, `%` form. -/
theorem zzDivW_divmod (w : Nat) (a : List Nat) (x : Nat) (ha : Wf w a) (hx0 : 0 < x)
    (hx : x < 2 ^ w) :
    val w (zzDivW w a x).1 = val w a / x ∧ (zzDivW w a x).2 = val w a % x := by
  obtain ⟨h1, h2, _, _⟩ := Mul.zzDivW_spec w a x ha hx0 hx
  obtain ⟨h3, h4⟩ := mod_of_divmod h1 h2
  exact ⟨h4.symm, h3.symm⟩

example : zzDivW 8 [255, 255, 255] 10 = ([153, 153, 25], 5) := by decide

/-- zzModW: the remainder `a mod w`. -/
theorem zzModW_spec (w : Nat) (a : List Nat) (x : Nat) (ha : Wf w a) (hx0 : 0 < x)
    (hx : x < 2 ^ w) : zzModW w a x = val w a % x := by
  rw [zzModW_eq]
  exact (zzDivW_divmod w a x ha hx0 hx).2

example : zzModW 8 [255, 255, 255] 10 = 5 := by decide

/-- zzModW2 (regular body): for `w != 0 && w^2 <= B` the result is `a mod w`; the two
    normalisation steps suffice and no double word wraps (the bounds of the comment block). -/
theorem zzModW2_spec (w : Nat) (a : List Nat) (x : Nat) (ha : Wf w a) (hx0 : 0 < x)
    (hxx : x * x ≤ 2 ^ w) : zzModW2 w a x = val w a % x :=
  Mul.zzModW2_spec w a x ha hx0 hxx

/-- zzModW2 (`SAFE_FAST` body): the `while` loop ends after at most two iterations (the fuel of the
    model is not exhausted) and the result is `a mod w`. -/
theorem zzModW2F_spec (w : Nat) (a : List Nat) (x : Nat) (ha : Wf w a) (hx0 : 0 < x)
    (hxx : x * x ≤ 2 ^ w) : zzModW2F w a x = val w a % x :=
  Mul.zzModW2F_spec w a x ha hx0 hxx

/-- both bodies of zzModW2 agree (and agree with zzModW) under the header's precondition. -/
theorem zzModW2F_eq (w : Nat) (a : List Nat) (x : Nat) (ha : Wf w a) (hx0 : 0 < x)
    (hxx : x * x ≤ 2 ^ w) : zzModW2F w a x = zzModW2 w a x := by
  rw [Mul.zzModW2F_spec w a x ha hx0 hxx, Mul.zzModW2_spec w a x ha hx0 hxx]

example : zzModW2 8 [255, 255, 255] 15 = 0 ∧ zzModW2F 8 [255, 255, 255] 13 = 0
    ∧ zzModW2 8 [255, 255, 255] 16 = 15 ∧ 16 * 16 ≤ 2 ^ 8 := by decide

/-! ## Montgomery reduction -/

/-- SAFE(zzRedMont): for `mod = m0 :: ms` (`n = |mod| ≥ 1` words), `|a| = 2n`,
    `mod[0] * mont_param ≡ -1 (mod B)` and `a < mod * B^n`:
    the result `r` has `n` words, `r < mod` and `r * B^n ≡ a (mod mod)`, i.e. `r = a R^{-1} mod mod`.
    Of the header's preconditions, "mod is odd" is implied by the `mont_param` condition and
    `mod[n-1] != 0` is not needed. -/
theorem zzRedMont_safe_spec (w : Nat) (m0 : Nat) (ms a : List Nat) (mp : Nat)
    (ha : Wf w a) (hmod : Wf w (m0 :: ms))
    (hl : a.length = (m0 :: ms).length + (m0 :: ms).length)
    (hmp : (m0 * mp + 1) % 2 ^ w = 0)
    (hlt : val w a < val w (m0 :: ms) * 2 ^ (w * (m0 :: ms).length)) :
    (val w (zzRedMont_safe w a (m0 :: ms) mp) * 2 ^ (w * (m0 :: ms).length)) % val w (m0 :: ms)
      = val w a % val w (m0 :: ms)
    ∧ val w (zzRedMont_safe w a (m0 :: ms) mp) < val w (m0 :: ms)
    ∧ Wf w (zzRedMont_safe w a (m0 :: ms) mp)
    ∧ (zzRedMont_safe w a (m0 :: ms) mp).length = (m0 :: ms).length :=
  zzRedMont_common w m0 ms a mp ha hmod hl hmp hlt _
    (zzRedMont_safe_eq w m0 ms a mp ha hmod hl hmp hlt)

/-- FAST(zzRedMont): the same statement. -/
theorem zzRedMont_fast_spec (w : Nat) (m0 : Nat) (ms a : List Nat) (mp : Nat)
    (ha : Wf w a) (hmod : Wf w (m0 :: ms))
    (hl : a.length = (m0 :: ms).length + (m0 :: ms).length)
    (hmp : (m0 * mp + 1) % 2 ^ w = 0)
    (hlt : val w a < val w (m0 :: ms) * 2 ^ (w * (m0 :: ms).length)) :
    (val w (zzRedMont_fast w a (m0 :: ms) mp) * 2 ^ (w * (m0 :: ms).length)) % val w (m0 :: ms)
      = val w a % val w (m0 :: ms)
    ∧ val w (zzRedMont_fast w a (m0 :: ms) mp) < val w (m0 :: ms)
    ∧ Wf w (zzRedMont_fast w a (m0 :: ms) mp)
    ∧ (zzRedMont_fast w a (m0 :: ms) mp).length = (m0 :: ms).length :=
  zzRedMont_common w m0 ms a mp ha hmod hl hmp hlt _
    (zzRedMont_fast_eq w m0 ms a mp ha hmod hl hmp)

/-- SAFE(zzRedMont) = FAST(zzRedMont) under the header's preconditions. -/
theorem zzRedMont_safe_eq_fast (w : Nat) (m0 : Nat) (ms a : List Nat) (mp : Nat)
    (ha : Wf w a) (hmod : Wf w (m0 :: ms))
    (hl : a.length = (m0 :: ms).length + (m0 :: ms).length)
    (hmp : (m0 * mp + 1) % 2 ^ w = 0)
    (hlt : val w a < val w (m0 :: ms) * 2 ^ (w * (m0 :: ms).length)) :
    zzRedMont_safe w a (m0 :: ms) mp = zzRedMont_fast w a (m0 :: ms) mp :=
  (zzRedMont_safe_eq w m0 ms a mp ha hmod hl hmp hlt).trans
    (zzRedMont_fast_eq w m0 ms a mp ha hmod hl hmp).symm

/-- the Dusse–Kaliski loop leaves the low `n` words zero (`ASSERT(wwIsZero(a, n))` in the C). -/
theorem zzRedMont_low_zero (w : Nat) (m0 : Nat) (ms a : List Nat) (mp : Nat)
    (ha : Wf w a) (hmod : Wf w (m0 :: ms))
    (hl : a.length = (m0 :: ms).length + (m0 :: ms).length)
    (hmp : (m0 * mp + 1) % 2 ^ w = 0) :
    val w ((zzRedMontLoop w (m0 :: ms) mp (m0 :: ms).length a 0).1.take (m0 :: ms).length) = 0 := by
  obtain ⟨_, _, _, _, h, _⟩ :=
    zzRedMontLoop_spec w m0 ms mp hmod hmp (ms.length + 1) a 0 ha hl (by omega)
  exact h

-- non-vacuity: mod = 0x03FB, a = mod * B^2 - 1 (the largest admissible input), w = 8
example : Wf 8 [255, 255, 250, 3] ∧ Wf 8 [251, 3] ∧ (251 * 205 + 1) % 2 ^ 8 = 0
    ∧ val 8 [255, 255, 250, 3] < val 8 [251, 3] * 2 ^ (8 * 2) := by decide
example : zzRedMont_safe 8 [255, 255, 250, 3] [251, 3] 205 = [58, 2] := by decide
example : zzRedMont_fast 8 [255, 255, 250, 3] [251, 3] 205 = [58, 2] := by decide

/-! ## Crandall reduction -/

/-- SAFE(zzRedCrand): for `mod = m0 :: ms` with `0 < m0` and every higher word `B - 1`
    (i.e. `mod = B^n - c`, `0 < c < B`), `n = |mod| ≥ 2`, `|a| = 2n`:
    the result is `a mod mod` exactly, `n` words. -/
theorem zzRedCrand_safe_spec (w : Nat) (m0 : Nat) (ms a : List Nat) (ha : Wf w a)
    (hm0 : 0 < m0) (hm0B : m0 < 2 ^ w) (hms : ∀ x ∈ ms, x = 2 ^ w - 1) (hn : 2 ≤ (m0 :: ms).length)
    (hl : a.length = (m0 :: ms).length + (m0 :: ms).length) :
    val w (zzRedCrand_safe w a (m0 :: ms)) = val w a % val w (m0 :: ms)
    ∧ val w (zzRedCrand_safe w a (m0 :: ms)) < val w (m0 :: ms)
    ∧ Wf w (zzRedCrand_safe w a (m0 :: ms))
    ∧ (zzRedCrand_safe w a (m0 :: ms)).length = (m0 :: ms).length := by
  have hms1 : 0 < ms.length := by simp at hn; omega
  rw [zzRedCrand_safe_eq w m0 ms a ha hm0 hm0B hms hms1 hl]
  exact crandRes_spec w m0 ms a ha hm0 hm0B hms hms1 hl

/-- FAST(zzRedCrand): the same statement. -/
theorem zzRedCrand_fast_spec (w : Nat) (m0 : Nat) (ms a : List Nat) (ha : Wf w a)
    (hm0 : 0 < m0) (hm0B : m0 < 2 ^ w) (hms : ∀ x ∈ ms, x = 2 ^ w - 1) (hn : 2 ≤ (m0 :: ms).length)
    (hl : a.length = (m0 :: ms).length + (m0 :: ms).length) :
    val w (zzRedCrand_fast w a (m0 :: ms)) = val w a % val w (m0 :: ms)
    ∧ val w (zzRedCrand_fast w a (m0 :: ms)) < val w (m0 :: ms)
    ∧ Wf w (zzRedCrand_fast w a (m0 :: ms))
    ∧ (zzRedCrand_fast w a (m0 :: ms)).length = (m0 :: ms).length := by
  have hms1 : 0 < ms.length := by simp at hn; omega
  rw [zzRedCrand_fast_eq w m0 ms a ha hm0 hm0B hms hms1 hl]
  exact crandRes_spec w m0 ms a ha hm0 hm0B hms hms1 hl

/-- SAFE(zzRedCrand) = FAST(zzRedCrand) under the header's preconditions. -/
theorem zzRedCrand_safe_eq_fast (w : Nat) (m0 : Nat) (ms a : List Nat) (ha : Wf w a)
    (hm0 : 0 < m0) (hm0B : m0 < 2 ^ w) (hms : ∀ x ∈ ms, x = 2 ^ w - 1) (hn : 2 ≤ (m0 :: ms).length)
    (hl : a.length = (m0 :: ms).length + (m0 :: ms).length) :
    zzRedCrand_safe w a (m0 :: ms) = zzRedCrand_fast w a (m0 :: ms) := by
  have hms1 : 0 < ms.length := by simp at hn; omega
  rw [zzRedCrand_safe_eq w m0 ms a ha hm0 hm0B hms hms1 hl,
    zzRedCrand_fast_eq w m0 ms a ha hm0 hm0B hms hms1 hl]

-- non-vacuity: mod = B^3 - 17, a = B^6 - 1, w = 8
example : Wf 8 [255, 255, 255, 255, 255, 255] ∧ (0 < 239 ∧ 239 < 2 ^ 8) ∧ (∀ x ∈ [255, 255], x = 2 ^ 8 - 1) := by decide
example : zzRedCrand_safe 8 [255, 255, 255, 255, 255, 255] [239, 255, 255] = [32, 1, 0] := by decide
example : zzRedCrand_fast 8 [255, 255, 255, 255, 255, 255] [239, 255, 255] = [32, 1, 0] := by decide

end Bee2V.C05

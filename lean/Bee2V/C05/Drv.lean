/-
C05 — line-protocol handlers of the driver `drv_c05` (see harness/c05.c for the protocol).
Functions that have a code-shaped model (ModelAdd, ModelMul, ModelBits, ModelWord) are
computed BY THAT MODEL (the one the theorems are about); everything else by the
exact-arithmetic specification `Spec`.  No Mathlib.
-/
import Bee2V.Base.Proto
import Bee2V.C05.Spec
import Bee2V.C05.ModelAdd
import Bee2V.C05.ModelMul
import Bee2V.C05.ModelBits
import Bee2V.C05.ModelDiv
import Bee2V.C05.ModelGcd
import Bee2V.C05.ModelPp
import Bee2V.C05.ModelRed
import Bee2V.C05.ModelEtc
import Bee2V.C05.ModelPpMul
import Bee2V.C05.ModelPpRed
import Bee2V.C05.ModelMisc
import Bee2V.C05.ModelGf2
import Bee2V.C05.ModelZm
import Bee2V.C05.ModelPpDiv
import Bee2V.C05.ModelGf2Ops
import Bee2V.C05.ModelPpModOps
import Bee2V.C05.ModelGcdW
import Bee2V.C05.ModelEtcW
import Bee2V.C05.ModelPpW
namespace Bee2V.C05.Drv
open Bee2V.Proto Bee2V.C05 Bee2V.C05.Spec

/-- (number of words, value) of a hex operand for word size W -/
def pw (W : Nat) (s : String) : Option (Nat × Nat) := do
  let o ← parseHex s
  if o.length % (W / 8) != 0 then none else some (o.length / (W / 8), leNat o)
/-- hex of the n-word little-endian representation of v -/
def hw (W n v : Nat) : String := toHex (natLE (n * (W / 8)) v)
def ho (n v : Nat) : String := toHex (natLE n v)
/-- word list of a hex operand -/
def wl (W : Nat) (s : String) : Option (List Nat) := do
  let (n, v) ← pw W s
  some (toWords W n v)
def hl (W : Nat) (a : List Nat) : String := hw W a.length (val W a)
def b01 (b : Bool) : String := if b then "1" else "0"
def cmpI (a b : Nat) : Int := if a < b then -1 else if a > b then 1 else 0
def join (l : List String) : String := " ".intercalate l
def bitSize (v : Nat) : Nat := if v = 0 then 0 else v.log2 + 1
def Bn (W n : Nat) : Nat := 2 ^ (W * n)

/-- word-level line: rev bitrev weight parity ctzS ctzF clzS clzF shuffle deshuffle neginv -/
def uLine (bits x : Nat) : String :=
  let x := x % 2 ^ bits
  join [toString (rev bits x), toString (bitrev bits x), toString (weight x), toString (weight x % 2),
    toString (ctz bits x), toString (ctz bits x), toString (clz bits x), toString (clz bits x),
    toString (shuffle bits x), toString (deshuffle bits x),
    if x % 2 = 1 then (match negInv bits x with | some v => toString v | none => "?") else "-"]

/-! ### NAF (window w): the digits are determined by the header's rules; the encoding is
    computed as the code builds it (shift in w bits per non-zero digit, 1 bit per zero) -/
def nafAux (w hi next mask alen : Nat) (a : Nat) : Nat → Nat → Nat → Nat → Nat → Nat → Nat × Nat
  | 0, _, _, naf, _, size => (size, naf)
  | fuel + 1, i, window, naf, len, size =>
    if window = 0 ∧ i ≥ alen then (size, naf) else
    let (window', naf', len') :=
      if window % 2 = 1 then
        let (digit, win) :=
          if window &&& hi != 0 then
            if i ≥ alen then (window &&& mask, hi)
            else ((((2 ^ 64 * next - window) % next) &&& mask) ^^^ hi, next)
          else (window, 0)
        (win, (naf <<< w) ||| digit, len + w)
      else (window, naf <<< 1, len + 1)
    let window'' := (window' >>> 1) + (if i < alen ∧ a.testBit i then hi else 0)
    nafAux w hi next mask alen a fuel (i + 1) window'' naf' len' (size + 1)

def naf (a w : Nat) : Nat × Nat :=
  if a = 0 then (0, 0) else
  let next := 2 ^ w
  let hi := next / 2
  let mask := hi - 1
  let alen := bitSize a
  nafAux w hi next mask alen a (alen + w + 4) w (a % next) 0 0 0

/-! ### zm rings -/
inductive Kind | plain | crand | barr | mont deriving BEq

def zmAuto (W : Nat) (mo : List UInt8) : Kind :=
  let ow := W / 8
  let no := mo.length
  if no ≤ 2 * ow then .plain
  else if no % ow = 0 ∧ no ≥ 2 * ow ∧ (mo.take ow).any (· != 0) ∧ (mo.drop ow).all (· == 255) then .crand
  else if (mo.headD 0).toNat % 2 = 1 then .mont
  else if no ≥ 4 * ow then .barr
  else .plain

def kindOf (W : Nat) (k : String) (mo : List UInt8) : Option Kind :=
  match k with
  | "plain" => some .plain | "crand" => some .crand | "barr" => some .barr | "mont" => some .mont
  | "auto" => some (zmAuto W mo)
  | "gfp" => if mo.length = 0 ∨ (mo.headD 0).toNat % 2 = 0 ∨ (mo.length = 1 ∧ mo.headD 0 == 1) then none else some (zmAuto W mo)
  | _ => none

/-- element ops of a ring Z/(m): elements are given/returned in exported (octet) form;
    `raw` = internal representation (a R mod m for Montgomery rings) -/
def zmOp (W : Nat) (kind : Kind) (m no : Nat) (op : String) (args : List String) : String :=
  let n := (no + W / 8 - 1) / (W / 8)
  let R := Bn W n
  let raw (v : Nat) : Nat := if kind == .mont then v * R % m else v
  let res (v : Nat) : String := join [hw W n (raw v), ho no v]
  let el (s : String) : Option Nat := do
    let o ← parseHex s
    if o.length != no then none else
    let v := leNat o
    if v < m then some v else none
  match op, args with
  | "unity", [] => ho no (1 % m)
  | "from", [a] =>
    match parseHex a with
    | some o => let v := leNat o; if v < m then join ["1", hw W n (raw v), ho no v] else "0"
    | none => "bad-op"
  | "power", [a, e] =>
    match el a, parseHex e with
    | some a, some e => ho no (powMod a (leNat e) m)
    | _, _ => "not-in"
  | "add", [a, b] => match el a, el b with | some a, some b => res ((a + b) % m) | _, _ => "not-in"
  | "sub", [a, b] => match el a, el b with | some a, some b => res ((a + m - b) % m) | _, _ => "not-in"
  | "neg", [a] => match el a with | some a => res ((m - a) % m) | _ => "not-in"
  | "mul", [a, b] => match el a, el b with | some a, some b => res (a * b % m) | _, _ => "not-in"
  | "sqr", [a] => match el a with | some a => res (a * a % m) | _ => "not-in"
  | "inv", [a] => match el a with
    | some a => (match invMod a m with | some i => res i | none => "not-invertible")
    | _ => "not-in"
  | "div", [d, a] => match el d, el a with
    | some d, some a => (match invMod a m with | some i => res (d * i % m) | none => "not-invertible")
    | _, _ => "not-in"
  | _, _ => "bad-op"

/-- element ops of GF(2)[x]/(f), elements as octet strings of `no` octets -/
def gf2Op (W m f no : Nat) (op : String) (args : List String) : String :=
  let n := (m + W - 1) / W
  let res (v : Nat) : String := join [hw W n v, ho no v]
  let el (s : String) : Option Nat := do
    let o ← parseHex s
    if o.length != no then none else
    let v := leNat o
    -- gf2From: wwFrom, then gf2IsIn: deg < m (for m % W = 0 every n-word value is in)
    if m % W = 0 ∨ v < 2 ^ m then (if v < 2 ^ (W * n) then some v else none) else none
  match op, args with
  | "unity", [] => ho no 1
  | "from", [a] =>
    match parseHex a with
    | some o => let v := leNat o; if (m % W = 0 ∨ v < 2 ^ m) then join ["1", hw W n v, ho no v] else "0"
    | none => "bad-op"
  | "add", [a, b] => match el a, el b with | some a, some b => res (a ^^^ b) | _, _ => "not-in"
  | "sub", [a, b] => match el a, el b with | some a, some b => res (a ^^^ b) | _, _ => "not-in"
  | "neg", [a] => match el a with | some a => res a | _ => "not-in"
  | "mul", [a, b] => match el a, el b with | some a, some b => res (pmulmod a b f) | _, _ => "not-in"
  | "sqr", [a] => match el a with | some a => res (pmulmod a a f) | _ => "not-in"
  | "inv", [a] => match el a with
    | some a => (match pinvmod a f with | some i => res i | none => "not-invertible")
    | _ => "not-in"
  | "div", [d, a] => match el d, el a with
    | some d, some a => (match pinvmod a f with | some i => res (pmulmod d i f) | none => "not-invertible")
    | _, _ => "not-in"
  | "power", [a, e] =>
    match el a, parseHex e with
    | some a, some e =>
      let e := leNat e
      ho no ((List.range (e.log2 + 1)).reverse.foldl
        (fun r i => let r2 := pmulmod r r f; if e.testBit i then pmulmod r2 a f else r2) (pmod 1 f))
    | _, _ => "not-in"
  | "tr", [a] => match el a with
    | some a =>
      let t := (List.range (m - 1)).foldl (fun t _ => pmulmod t t f ^^^ a) a
      b01 (t != 0)
    | _ => "not-in"
  | "qsolve", [a, b] => match el a, el b with
    | some a, some b =>
      if a = 0 then join ["1", ho no (pfrob b f (m - 1))]
      else if b = 0 then join ["1", ho no 0]
      else match pinvmod (pmulmod a a f) f with
        | none => "not-invertible"
        | some i =>
          let t := pmulmod b i f
          let tr := (List.range (m - 1)).foldl (fun u _ => pmulmod u u f ^^^ t) t
          if tr != 0 then "0" else
          let x := (List.range ((m - 1) / 2)).foldl (fun x _ => pfrob x f 2 ^^^ t) t
          join ["1", ho no (pmulmod x a f)]
    | _, _ => "not-in"
  | _, _ => "bad-op"

/-- zzRandMod / zzRandNZMod as functions of the generator tape: chunks of O_OF_B(l) octets
    (zeros once the tape is exhausted), trimmed to l = bitlen(mod) bits; the first acceptable one
    among the first 65 (129 for NZ with l ≤ 16) is returned -/
def randMod (W n m : Nat) (tape : List UInt8) (nz : Bool) : String :=
  let l := bitSize m
  let c := (l + 7) / 8
  let tries := if nz ∧ l ≤ 16 then 129 else 65
  let cand (j : Nat) : Nat := leNat ((tape.drop (j * c)).take c) % 2 ^ l
  let good (v : Nat) : Bool := v < m && !(nz && v == 0)
  match (List.range tries).find? (fun j => good (cand j)) with
  | some j => join ["1", hw W n (cand j), toString ((j + 1) * c)]
  | none => join ["0", toString (tries * c)]

/-- handlers; `W` already parsed; args = tokens after W -/
def handleW (W : Nat) (f : String) (args : List String) : Option String :=
  let B := 2 ^ W
  let nat (s : String) : Option Nat := parseNat s
  match f, args with
  -- ------------------------------------------------------------------ word
  | "word", [x] => do let x ← nat x; some (uLine W x)
  | "wordCmp", [x, y] => do
    let x ← nat x; let y ← nat y
    let six := [x == y, x != y, x < y, x ≤ y, x > y, x ≥ y]
    some (join (six.map b01 ++ six.map b01 ++ six.map (fun b => if b then toString (B - 1) else "0")))
  | "wordRot", [x, s] => do
    let x ← nat x; let s ← nat s
    some (join [toString ((x <<< s) % B ||| x >>> (W - s)), toString (x >>> s ||| (x <<< (W - s)) % B)])
  | "wwFromTo", [h] => do
    let o ← parseHex h
    let n := (o.length + W / 8 - 1) / (W / 8)
    some (join ((toWords W n (leNat o)).map toString ++ [toHex o]))
  -- -------------------------------------------------------------------- ww
  | "wwEq", [a, b] => do
    let (_, a) ← pw W a; let (_, b) ← pw W b
    some (join [b01 (a == b), b01 (a == b)])
  | "wwCmp", [a, b] => do
    let (_, a) ← pw W a; let (_, b) ← pw W b
    some (join [toString (cmpI a b), toString (cmpI a b)])
  | "wwCmp2", [a, b] => do
    let (_, a) ← pw W a; let (_, b) ← pw W b
    some (join [toString (cmpI a b), toString (cmpI a b)])
  | "wwCmpW", [a, x] => do
    let (_, a) ← pw W a; let x ← nat x
    some (join [toString (cmpI a x), toString (cmpI a x)])
  | "wwIsZero", [a] => do
    let (_, a) ← pw W a
    some (join [b01 (a == 0), b01 (a == 0)])
  | "wwIsW", [a, x] => do
    let (_, a) ← pw W a; let x ← nat x
    some (join [b01 (a == x), b01 (a == x)])
  | "wwIsRepW", [a, x] => do
    let a ← wl W a; let x ← nat x
    let r := if a.isEmpty then x == 0 else a.all (· == x)
    some (join [b01 r, b01 r])
  | "wwSizes", [a] => do
    let (n, v) ← pw W a
    let bs := bitSize v
    let lo := if v = 0 then n * W else ctz (n * W) v
    some (join [toString ((bs + W - 1) / W), toString ((bs + 7) / 8), toString bs, toString lo, toString (n * W - bs)])
  | "wwXor", [_, a, b] => do let (n, a) ← pw W a; let (_, b) ← pw W b; some (hw W n (a ^^^ b))
  | "wwXor2", [_, b, a] => do let (n, b) ← pw W b; let (_, a) ← pw W a; some (hw W n (a ^^^ b))
  | "wwCopy", [_, a] => do let (n, a) ← pw W a; some (hw W n a)
  | "wwSwap", [a, b] => do let (n, a) ← pw W a; let (m, b) ← pw W b; some (join [hw W n b, hw W m a])
  | "wwSetZero", [n] => do let n ← nat n; some (hw W n 0)
  | "wwSetW", [n, x] => do let n ← nat n; let x ← nat x; some (hw W n x)
  | "wwRepW", [n, x] => do let n ← nat n; let x ← nat x; some (hl W (List.replicate n x))
  | "wwTestBit", [a, pos] => do let (_, a) ← pw W a; let pos ← nat pos; some (b01 (a.testBit pos))
  | "wwGetBits", [a, pos, width] => do
    let (_, a) ← pw W a; let pos ← nat pos; let width ← nat width
    some (toString ((a >>> pos) % 2 ^ width))
  | "wwSetBit", [a, pos, v] => do
    let (n, a) ← pw W a; let pos ← nat pos; let v ← nat v
    some (hw W n (a - (a >>> pos % 2) * 2 ^ pos + v * 2 ^ pos))
  | "wwSetBits", [a, pos, width, v] => do
    let (n, a) ← pw W a; let pos ← nat pos; let width ← nat width; let v ← nat v
    some (hw W n (a - ((a >>> pos) % 2 ^ width) * 2 ^ pos + (v % 2 ^ width) * 2 ^ pos))
  | "wwFlipBit", [a, pos] => do let (n, a) ← pw W a; let pos ← nat pos; some (hw W n (a ^^^ 2 ^ pos))
  | "wwShLo", [a, s] => do let (n, a) ← pw W a; let s ← nat s; some (hw W n (a >>> s))
  | "wwShHi", [a, s] => do let (n, a) ← pw W a; let s ← nat s; some (hw W n ((a <<< s) % Bn W n))
  | "wwShLoCarry", [a, s, c] => do
    let (n, a) ← pw W a; let s ← nat s; let c ← nat c
    let v := a + c * Bn W n
    some (join [hw W n ((v >>> s) % Bn W n), toString (((v * B) >>> s) % B)])
  | "wwShHiCarry", [a, s, c] => do
    let (n, a) ← pw W a; let s ← nat s; let c ← nat c
    let v := c + a * B
    some (join [hw W n (((v <<< s) / B) % Bn W n), toString (((v <<< s) / Bn W (n + 1)) % B)])
  | "wwTrimLo", [a, pos] => do let (n, a) ← pw W a; let pos ← nat pos; some (hw W n ((a >>> pos) <<< pos))
  | "wwTrimHi", [a, pos] => do let (n, a) ← pw W a; let pos ← nat pos; some (hw W n (a % 2 ^ pos))
  | "wwNAF", [a, w] => do
    let (n, a) ← pw W a; let w ← nat w
    let r := naf a w
    some (join [toString r.1, hw W (2 * n + 1) r.2])
  -- ------------------------------------------------------------ zz additive
  | "zzIsEven", [a] => do let (_, a) ← pw W a; some (join [b01 (a % 2 == 0), b01 (a % 2 == 1)])
  | "zzAdd", [_, a, b] => do
    let (n, a) ← pw W a; let (_, b) ← pw W b
    some (join [hw W n ((a + b) % Bn W n), toString ((a + b) / Bn W n)])
  | "zzSub", [_, a, b] => do
    let (n, a) ← pw W a; let (_, b) ← pw W b
    some (join [hw W n ((a + Bn W n - b) % Bn W n), if a < b then "1" else "0"])
  | "zzAdd2", [_, b, a] => do
    let (n, a) ← pw W a; let (_, b) ← pw W b
    some (join [hw W n ((a + b) % Bn W n), toString ((a + b) / Bn W n)])
  | "zzSub2", [_, b, a] => do
    let (n, a) ← pw W a; let (_, b) ← pw W b
    some (join [hw W n ((b + Bn W n - a) % Bn W n), if b < a then "1" else "0"])
  | "zzAdd3", [_, a, b] => do
    let (n, a) ← pw W a; let (m, b) ← pw W b
    let k := max n m
    some (join [hw W k ((a + b) % Bn W k), toString ((a + b) / Bn W k)])
  | "zzAddW", [_, a, x] => do
    let (n, a) ← pw W a; let x ← nat x
    some (join [hw W n ((a + x) % Bn W n), toString ((a + x) / Bn W n)])
  | "zzSubW", [_, a, x] => do
    let (n, a) ← pw W a; let x ← nat x
    -- n = 0: the C returns w itself (a == 0 < w iff w != 0: "borrow" word is w)
    some (join [hw W n ((a + Bn W n * x - x) % Bn W n), if n = 0 then toString x else if a < x then "1" else "0"])
  | "zzAddW2", [a, x] => do
    let (n, a) ← pw W a; let x ← nat x
    some (join [hw W n ((a + x) % Bn W n), toString ((a + x) / Bn W n)])
  | "zzSubW2", [a, x] => do
    let (n, a) ← pw W a; let x ← nat x
    some (join [hw W n ((a + Bn W n * x - x) % Bn W n), if n = 0 then toString x else if a < x then "1" else "0"])
  | "zzIsSumEq", [c, a, b] => do
    let (_, c) ← pw W c; let (_, a) ← pw W a; let (_, b) ← pw W b
    some (join [b01 (a + b == c), b01 (a + b == c)])
  | "zzIsSumWEq", [b, a, x] => do
    let (_, b) ← pw W b; let (_, a) ← pw W a; let x ← nat x
    some (join [b01 (a + x == b), b01 (a + x == b)])
  | "zzNeg", [_, a] => do let (n, a) ← pw W a; some (hw W n ((Bn W n - a) % Bn W n))
  -- ------------------------------------------------------ zz multiplicative
  | "zzMulW", [_, a, x] => do
    let (n, a) ← pw W a; let x ← nat x
    some (join [hw W n (a * x % Bn W n), toString (a * x / Bn W n)])
  | "zzAddMulW", [_, b, a, x] => do
    let (n, b) ← pw W b; let (_, a) ← pw W a; let x ← nat x
    some (join [hw W n ((b + a * x) % Bn W n), toString ((b + a * x) / Bn W n)])
  | "zzSubMulW", [_, b, a, x] => do
    let (n, b) ← pw W b; let (_, a) ← pw W a; let x ← nat x
    -- b - a x = r - borrow * B^n, 0 ≤ r < B^n
    let t := a * x
    let borrow := if t ≤ b then 0 else (t - b + Bn W n - 1) / Bn W n
    some (join [hw W n (b + borrow * Bn W n - t), toString borrow])
  | "zzMul", [_, a, b] => do let (n, a) ← pw W a; let (m, b) ← pw W b; some (hw W (n + m) (a * b))
  | "zzSqr", [a] => do let (n, a) ← pw W a; some (hw W (2 * n) (a * a))
  | "zzSqrt", [a] => do
    let (n, a) ← pw W a
    let r := isqrt a
    some (join [hw W ((n + 1) / 2) r, b01 (r * r == a)])
  | "zzDivW", [_, a, x] => do let (n, a) ← pw W a; let x ← nat x; some (join [hw W n (a / x), toString (a % x)])
  | "zzModW", [a, x] => do let (_, a) ← pw W a; let x ← nat x; some (toString (a % x))
  | "zzModW2", [a, x] => do let (_, a) ← pw W a; let x ← nat x; some (toString (a % x))
  | "zzDiv", [_, a, b] => do
    let (n, a) ← pw W a; let (m, b) ← pw W b
    some (join [hw W (n - m + 1) (a / b), hw W m (a % b)])
  | "zzMod", [_, a, b] => do let (_, a) ← pw W a; let (m, b) ← pw W b; some (hw W m (a % b))
  -- --------------------------------------------------------------- zz gcd
  | "zzGCD", [a, b] => do let (n, a) ← pw W a; let (m, b) ← pw W b; some (hw W (min n m) (Nat.gcd a b))
  | "zzIsCoprime", [a, b] => do let (_, a) ← pw W a; let (_, b) ← pw W b; some (b01 (Nat.gcd a b == 1))
  | "zzLCM", [a, b] => do let (n, a) ← pw W a; let (m, b) ← pw W b; some (hw W (n + m) (Nat.lcm a b))
  | "zzExGCD?", [a, b, d, da, db] => do
    let (n, a) ← pw W a; let (m, b) ← pw W b
    let (k, d) ← pw W d; let (m1, da) ← pw W da; let (n1, db) ← pw W db
    some (b01 (k == min n m && m1 == m && n1 == n && d == Nat.gcd a b
      && (da : Int) * a - (db : Int) * b == (d : Int)))
  | "zzJacobi", [a, b] => do let (_, a) ← pw W a; let (_, b) ← pw W b; some (toString (jacobi a b))
  -- ----------------------------------------------------------- zz modular
  | "zzAddMod", [_, a, b, m] => do
    let (n, a) ← pw W a; let (_, b) ← pw W b; let (_, m) ← pw W m
    let r := hw W n ((a + b) % m); some (join [r, r])
  | "zzSubMod", [_, a, b, m] => do
    let (n, a) ← pw W a; let (_, b) ← pw W b; let (_, m) ← pw W m
    let r := hw W n ((a + m - b) % m); some (join [r, r])
  | "zzAddWMod", [_, a, x, m] => do
    let (n, a) ← pw W a; let x ← nat x; let (_, m) ← pw W m
    let r := hw W n ((a + x) % m); some (join [r, r])
  | "zzSubWMod", [_, a, x, m] => do
    let (n, a) ← pw W a; let x ← nat x; let (_, m) ← pw W m
    let r := hw W n ((a + m - x) % m); some (join [r, r])
  | "zzNegMod", [_, a, m] => do
    let (n, a) ← pw W a; let (_, m) ← pw W m
    let r := hw W n ((m - a) % m); some (join [r, r])
  | "zzDoubleMod", [_, a, m] => do
    let (n, a) ← pw W a; let (_, m) ← pw W m
    let r := hw W n (2 * a % m); some (join [r, r])
  | "zzHalfMod", [_, a, m] => do
    let (n, a) ← pw W a; let (_, m) ← pw W m
    let r := hw W n (if a % 2 = 0 then a / 2 else (a + m) / 2); some (join [r, r])
  | "zzMulMod", [_, a, b, m] => do
    let (n, a) ← pw W a; let (_, b) ← pw W b; let (_, m) ← pw W m; some (hw W n (a * b % m))
  | "zzSqrMod", [_, a, m] => do let (n, a) ← pw W a; let (_, m) ← pw W m; some (hw W n (a * a % m))
  | "zzMulWMod", [_, a, x, m] => do
    let (n, a) ← pw W a; let x ← nat x; let (_, m) ← pw W m; some (hw W n (a * x % m))
  | "zzInvMod", [_, a, m] => do
    let (n, a) ← pw W a; let (_, m) ← pw W m
    some (hw W n ((invMod a m).getD 0))
  | "zzDivMod", [_, d, a, m] => do
    let (n, d) ← pw W d; let (_, a) ← pw W a; let (_, m) ← pw W m
    some (hw W n (match invMod a m with | some i => d * i % m | none => 0))
  | "zzAlmostInvMod?", [a, m, b, k] => do
    let (n, a) ← pw W a; let (_, m) ← pw W m; let (n1, b) ← pw W b; let k ← nat k
    some (b01 (n1 == n && (match invMod a m with
      | some i => b == i * 2 ^ k % m && bitSize m ≤ k && k ≤ 2 * bitSize m
      | none => b == 0)))
  | "zzPowerMod", [a, e, m] => do
    let (n, a) ← pw W a; let (_, e) ← pw W e; let (_, m) ← pw W m; some (hw W n (powMod a e m))
  | "zzPowerModW", [a, e, m] => do let a ← nat a; let e ← nat e; let m ← nat m; some (toString (powMod a e m))
  | "zzRandMod", [m, tape] => do let (n, m) ← pw W m; let t ← parseHex tape; some (randMod W n m t false)
  | "zzRandNZMod", [m, tape] => do let (n, m) ← pw W m; let t ← parseHex tape; some (randMod W n m t true)
  -- -------------------------------------------------------- zz reductions
  | "zzRed", [a, m] => do let (_, a) ← pw W a; let (n, m) ← pw W m; some (hw W n (a % m))
  | "zzRedBarrStart", [m] => do let (n, m) ← pw W m; some (hw W (n + 2) (Bn W (2 * n) / m))
  | "zzRedCrand", [a, m] => do
    let (_, a) ← pw W a; let (n, m) ← pw W m; let r := hw W n (a % m); some (join [r, r])
  | "zzRedBarr", [a, m] => do
    let (_, a) ← pw W a; let (n, m) ← pw W m; let r := hw W n (a % m); some (join [r, r])
  | "zzRedMont", [a, m] => do
    let (_, a) ← pw W a; let (n, m) ← pw W m
    let i ← invMod (Bn W n) m
    let r := hw W n (a * i % m); some (join [r, r])
  | "zzRedCrandMont", [a, m] => do
    let (_, a) ← pw W a; let (n, m) ← pw W m
    let i ← invMod (Bn W n) m
    let r := hw W n (a * i % m); some (join [r, r])
  -- ------------------------------------------------------------- zm / gfp
  | "zm", kind :: _ :: mo :: op :: rest => do
    let mo ← parseHex mo
    match kindOf W kind mo with
    | none => some "no-ring"
    | some k =>
      let no := mo.length
      let n := (no + W / 8 - 1) / (W / 8)
      some (join [toString n, toString no, zmOp W k (leNat mo) no op rest])
  -- --------------------------------------------------------------------- pp
  | "ppDeg", [a] => do let (_, a) ← pw W a; some (match pdeg a with | some d => toString d | none => "-1")
  | "ppMulW", [_, a, x] => do
    let (n, a) ← pw W a; let x ← nat x
    let p := clmul a x
    some (join [hw W n (p % Bn W n), toString (p / Bn W n)])
  | "ppAddMulW", [_, b, a, x] => do
    let (n, b) ← pw W b; let (_, a) ← pw W a; let x ← nat x
    let p := b ^^^ clmul a x
    some (join [hw W n (p % Bn W n), toString (p / Bn W n)])
  | "ppMul", [_, a, b] => do let (n, a) ← pw W a; let (m, b) ← pw W b; some (hw W (n + m) (clmul a b))
  | "ppSqr", [a] => do let (n, a) ← pw W a; some (hw W (2 * n) (clmul a a))
  | "ppDiv", [_, a, b] => do
    let (n, a) ← pw W a; let (m, b) ← pw W b
    let qr := pdivmod a b
    some (join [hw W (n - m + 1) qr.1, hw W m qr.2])
  | "ppMod", [_, a, b] => do let (_, a) ← pw W a; let (m, b) ← pw W b; some (hw W m (pmod a b))
  | "ppGCD", [a, b] => do let (n, a) ← pw W a; let (m, b) ← pw W b; some (hw W (min n m) (pgcd a b))
  | "ppExGCD?", [a, b, d, da, db] => do
    let (n, a) ← pw W a; let (m, b) ← pw W b
    let (k, d) ← pw W d; let (m1, da) ← pw W da; let (n1, db) ← pw W db
    some (b01 (k == min n m && m1 == m && n1 == n && d == pgcd a b && (clmul a da ^^^ clmul b db) == d))
  | "ppMulMod", [_, a, b, m] => do
    let (n, a) ← pw W a; let (_, b) ← pw W b; let (_, m) ← pw W m; some (hw W n (pmulmod a b m))
  | "ppSqrMod", [_, a, m] => do let (n, a) ← pw W a; let (_, m) ← pw W m; some (hw W n (pmulmod a a m))
  | "ppInvMod", [_, a, m] => do
    let (n, a) ← pw W a; let (_, m) ← pw W m; some (hw W n ((pinvmod a m).getD 0))
  | "ppDivMod", [_, d, a, m] => do
    let (n, d) ← pw W d; let (_, a) ← pw W a; let (_, m) ← pw W m
    some (hw W n (match pinvmod a m with | some i => pmulmod d i m | none => 0))
  | "ppRed", [a, m] => do let (_, a) ← pw W a; let (n, m) ← pw W m; some (hw W n (pmod a m))
  | "ppRedTrinomial", [a, m, k] => do
    let (_, a) ← pw W a; let m ← nat m; let k ← nat k
    some (hw W ((m + W - 1) / W) (pmod a (2 ^ m + 2 ^ k + 1)))
  | "ppRedPentanomial", [a, m, k, l, l1] => do
    let (_, a) ← pw W a; let m ← nat m; let k ← nat k; let l ← nat l; let l1 ← nat l1
    some (hw W ((m + W - 1) / W) (pmod a (2 ^ m + 2 ^ k + 2 ^ l + 2 ^ l1 + 1)))
  | "ppRedBelt", [a] => do let (_, a) ← pw W a; some (hw W (128 / W) (pmod a (2 ^ 128 + 0x87)))
  | "ppIsIrred", [a] => do let (_, a) ← pw W a; some (b01 (pIsIrred a))
  | "ppMinPoly", [a, l] => do
    let (_, a) ← pw W a; let l ← nat l
    let a := a % 2 ^ (2 * l)
    let (c, lc) := berlekampMassey (fun i => a.testBit (2 * l - 1 - i)) (2 * l)
    if lc > l then some "lc>l" else
    some (hw W ((l + 1 + W - 1) / W) (bitsToNat ((List.range (lc + 1)).map fun j => c.testBit (lc - j))))
  | "ppMinPolyMod", [a, m] => do
    let (n, a) ← pw W a; let (_, m) ← pw W m
    let l ← pdeg m
    -- sequence s_i = constant coefficient of a^(i+1) mod m, i = 0 .. 2l-1
    let pows := (List.range (2 * l)).foldl (fun (st : Nat × List Bool) _ =>
      (pmulmod st.1 a m, st.2 ++ [st.1.testBit 0])) (pmod a m, [])
    let s := pows.2.toArray
    let (c, lc) := berlekampMassey (fun i => s.getD i false) (2 * l)
    if lc > l then some "lc>l" else
    some (hw W n (bitsToNat ((List.range (lc + 1)).map fun j => c.testBit (lc - j))))
  -- -------------------------------------------------------------------- gf2
  | "gf2", m :: k :: l :: l1 :: _ :: op :: rest => do
    let m ← nat m; let k ← nat k; let l ← nat l; let l1 ← nat l1
    -- gf2Create: which descriptions are accepted
    let ok :=
      if k = 0 then false
      else if l = 0 then l1 = 0 && !(m % 8 = 0 || k ≥ m || m - k < W)
      else l1 != 0 && !(k ≥ m || l ≥ k || l1 ≥ l || m - k < W || k ≥ W)
    if !ok then some "no-field" else
    let f := if l = 0 then 2 ^ m + 2 ^ k + 1 else 2 ^ m + 2 ^ k + 2 ^ l + 2 ^ l1 + 1
    let n := (m + W - 1) / W
    let no := (m + 7) / 8
    some (join [toString n, toString no, gf2Op W m f no op rest])
  | _, _ => none

/-- model of the word-level line for bits ∈ {16, 32, 64} (ModelWord) -/
def uModel (bits x : Nat) : Option String :=
  let x := x % 2 ^ bits
  let f (l : List (Nat → Nat)) (ni : Nat → Nat) : String :=
    join (l.map (fun g => toString (g x)) ++ [if x % 2 = 1 then toString (ni x) else "-"])
  match bits with
  | 16 => some (f [u16Rev, u16Bitrev, u16Weight, u16Parity, u16CTZ_safe, u16CTZ_fast, u16CLZ_safe, u16CLZ_fast, u16Shuffle, u16Deshuffle] u16NegInv)
  | 32 => some (f [u32Rev, u32Bitrev, u32Weight, u32Parity, u32CTZ_safe, u32CTZ_fast, u32CLZ_safe, u32CLZ_fast, u32Shuffle, u32Deshuffle] u32NegInv)
  | 64 => some (f [u64Rev, u64Bitrev, u64Weight, u64Parity, u64CTZ_safe, u64CTZ_fast, u64CLZ_safe, u64CLZ_fast, u64Shuffle, u64Deshuffle] u64NegInv)
  | _ => none

/-- the word-size dependent `wordNegInv` as the model computes it -/
def negInvModel (W x : Nat) : Nat :=
  match W with | 16 => u16NegInv x | 32 => u32NegInv x | _ => u64NegInv x

/-- handlers computed by the CODE-SHAPED MODELS (the definitions the theorems are about) -/
def modelW (W : Nat) (f : String) (args : List String) : Option String :=
  let nat (s : String) : Option Nat := parseNat s
  let pr (r : List Nat × Nat) : String := join [hl W r.1, toString r.2]
  let ed (r rF : List Nat × Nat) : String := if r != rF then "model-editions-differ" else pr r
  match f, args with
  | "word", [x] => do let x ← nat x; uModel W x
  -- ModelAdd
  | "wwEq", [a, b] => do let a ← wl W a; let b ← wl W b; some (join [b01 (wwEq_safe a b), b01 (wwEq_fast a b)])
  | "wwCmp", [a, b] => do let a ← wl W a; let b ← wl W b; some (join [toString (wwCmp_safe a b), toString (wwCmp_fast a b)])
  | "wwCmp2", [a, b] => do let a ← wl W a; let b ← wl W b; some (join [toString (wwCmp2_safe a b), toString (wwCmp2_fast a b)])
  | "wwIsZero", [a] => do let a ← wl W a; some (join [b01 (wwIsZero_safe a), b01 (wwIsZero_fast a)])
  | "zzIsEven", [a] => do let a ← wl W a; some (join [b01 (zzIsEven a), b01 (zzIsOdd a)])
  | "zzAdd", [_, a, b] => do let a ← wl W a; let b ← wl W b; some (ed (zzAdd W a b) (zzAddF W a b))
  | "zzSub", [_, a, b] => do let a ← wl W a; let b ← wl W b; some (ed (zzSub W a b) (zzSubF W a b))
  | "zzAdd2", [_, b, a] => do let a ← wl W a; let b ← wl W b; some (ed (zzAdd2 W b a) (zzAdd2F W b a))
  | "zzSub2", [_, b, a] => do let a ← wl W a; let b ← wl W b; some (ed (zzSub2 W b a) (zzSub2F W b a))
  | "zzAddW", [_, a, x] => do let a ← wl W a; let x ← nat x; some (pr (zzAddW W a x))
  | "zzSubW", [_, a, x] => do let a ← wl W a; let x ← nat x; some (pr (zzSubW W a x))
  | "zzAddW2", [a, x] => do let a ← wl W a; let x ← nat x; some (ed (zzAddW2 W a x) (zzAddW2F W a x))
  | "zzSubW2", [a, x] => do let a ← wl W a; let x ← nat x; some (ed (zzSubW2 W a x) (zzSubW2F W a x))
  | "zzIsSumEq", [c, a, b] => do
    let c ← wl W c; let a ← wl W a; let b ← wl W b
    some (join [b01 (zzIsSumEq_safe W c a b), b01 (zzIsSumEq_fast W c a b)])
  | "zzIsSumWEq", [b, a, x] => do
    let b ← wl W b; let a ← wl W a; let x ← nat x
    some (join [b01 (zzIsSumWEq_safe W b a x), b01 (zzIsSumWEq_fast W b a x)])
  | "zzNeg", [_, a] => do let a ← wl W a; some (hl W (zzNeg W a))
  | "zzAddMod", [_, a, b, m] => do
    let a ← wl W a; let b ← wl W b; let m ← wl W m
    some (join [hl W (zzAddMod_safe W a b m), hl W (zzAddMod_fast W a b m)])
  | "zzSubMod", [_, a, b, m] => do
    let a ← wl W a; let b ← wl W b; let m ← wl W m
    some (join [hl W (zzSubMod_safe W a b m), hl W (zzSubMod_fast W a b m)])
  | "zzAddWMod", [_, a, x, m] => do
    let a ← wl W a; let x ← nat x; let m ← wl W m
    some (join [hl W (zzAddWMod_safe W a x m), hl W (zzAddWMod_fast W a x m)])
  | "zzSubWMod", [_, a, x, m] => do
    let a ← wl W a; let x ← nat x; let m ← wl W m
    some (join [hl W (zzSubWMod_safe W a x m), hl W (zzSubWMod_fast W a x m)])
  | "zzNegMod", [_, a, m] => do
    let a ← wl W a; let m ← wl W m
    some (join [hl W (zzNegMod_safe W a m), hl W (zzNegMod_fast W a m)])
  | "zzDoubleMod", [_, a, m] => do
    let a ← wl W a; let m ← wl W m
    some (join [hl W (zzDoubleMod_safe W a m), hl W (zzDoubleMod_fast W a m)])
  | "zzHalfMod", [_, a, m] => do
    let a ← wl W a; let m ← wl W m
    some (join [hl W (zzHalfMod_safe W a m), hl W (zzHalfMod_fast W a m)])
  -- ModelMul
  | "zzMulW", [_, a, x] => do let a ← wl W a; let x ← nat x; some (pr (zzMulW W a x))
  | "zzAddMulW", [_, b, a, x] => do let b ← wl W b; let a ← wl W a; let x ← nat x; some (pr (zzAddMulW W b a x))
  | "zzSubMulW", [_, b, a, x] => do let b ← wl W b; let a ← wl W a; let x ← nat x; some (pr (zzSubMulW W b a x))
  | "zzMul", [_, a, b] => do let a ← wl W a; let b ← wl W b; some (hl W (zzMul W a b))
  | "zzSqr", [a] => do let a ← wl W a; some (hl W (zzSqr W a))
  | "zzDivW", [_, a, x] => do let a ← wl W a; let x ← nat x; some (pr (zzDivW W a x))
  | "zzModW", [a, x] => do let a ← wl W a; let x ← nat x; some (toString (zzModW W a x))
  | "zzModW2", [a, x] => do
    let a ← wl W a; let x ← nat x
    let r := zzModW2 W a x
    if r != zzModW2F W a x then some "model-editions-differ" else some (toString r)
  | "zzRedMont", [a, m] => do
    let a ← wl W a; let m ← wl W m
    let mp := negInvModel W (m.headD 1)
    some (join [hl W (zzRedMont_safe W a m mp), hl W (zzRedMont_fast W a m mp)])
  | "zzRedCrand", [a, m] => do
    let a ← wl W a; let m ← wl W m
    some (join [hl W (zzRedCrand_safe W a m), hl W (zzRedCrand_fast W a m)])
  -- ModelMisc (NAF, random residues from a tape, Add3, modular products, lcm, coprimality)
  | "wwNAF", [a, w] => do
    let (n, a) ← pw W a; let w ← nat w
    let r := wwNAFV W a w
    some (join [toString r.1, hw W (2 * n + 1) r.2])
  | "zzRandMod", [m, tape] => do
    let (n, m) ← pw W m; let t ← parseHex tape
    let r := zzRandModV m (t.map (·.toNat)) false
    some (match r.1 with | some v => join ["1", hw W n v, toString r.2] | none => join ["0", toString r.2])
  | "zzRandNZMod", [m, tape] => do
    let (n, m) ← pw W m; let t ← parseHex tape
    let r := zzRandModV m (t.map (·.toNat)) true
    some (match r.1 with | some v => join ["1", hw W n v, toString r.2] | none => join ["0", toString r.2])
  | "zzAdd3", [_, a, b] => do let a ← wl W a; let b ← wl W b; some (pr (zzAdd3 W a b))
  | "zzMulMod", [pat, a, b, m] => do
    let a ← wl W a; let b ← wl W b; let m ← wl W m
    some (hl W (zzMulMod W a (if pat == "ab" || pat == "cab" then a else b) m))
  | "zzSqrMod", [_, a, m] => do let a ← wl W a; let m ← wl W m; some (hl W (zzSqrMod W a m))
  | "zzMulWMod", [_, a, x, m] => do let a ← wl W a; let x ← nat x; let m ← wl W m; some (hl W (zzMulWMod W a x m))
  | "zzRed", [a, m] => do let a ← wl W a; let m ← wl W m; some (hl W (zzRed W a m))
  | "zzLCM", [a, b] => do let (n, a) ← pw W a; let (m, b) ← pw W b; some (hw W (n + m) (zzLCMV a b))
  | "zzIsCoprime", [a, b] => do let (_, a) ← pw W a; let (_, b) ← pw W b; some (b01 (zzIsCoprimeV a b))
  -- ModelGf2 (irreducibility test, minimal polynomial; value level)
  | "ppIsIrred", [a] => do let (_, a) ← pw W a; some (b01 (ppIsIrredV a))
  | "ppMinPoly", [a, l] => do let (_, a) ← pw W a; let l ← nat l; some (hw W ((l + 1 + W - 1) / W) (ppMinPolyV a l))
  -- ModelEtc (square root, Jacobi symbol, sliding-window powers, zmCreate strategy; value level)
  | "zzSqrt", [a] => do
    let (n, a) ← pw W a
    let r := zzSqrtV W n a
    let rw := zzSqrtW W (toWords W n a)
    if val W rw.1 != r.1 || rw.2 != r.2 || rw.1.length != (n + 1) / 2 then some "model-levels-differ" else
    some (join [hl W rw.1, b01 rw.2])
  | "zzJacobi", [a, b] => do
    let a ← wl W a; let b ← wl W b
    let r := zzJacobiW W a b
    if r != zzJacobiV (val W a) (val W b) then some "model-levels-differ" else some (toString r)
  | "zzPowerModW", [a, e, m] => do let a ← nat a; let e ← nat e; let m ← nat m; some (toString (zzPowerModW W a e m))
  | "zzPowerMod", [a, e, m] => do
    let (n, a) ← pw W a; let (k, e) ← pw W e; let (_, m) ← pw W m
    some (hw W n (qrPowerV (fun u v => u * v % m) (fun u => u * u % m) (1 % m) W a e k))
  | "zm", kind :: _ :: mo :: "from" :: [a] => do
    let mo ← parseHex mo; let o ← parseHex a
    let no := mo.length
    let n := (no + W / 8 - 1) / (W / 8)
    let m := leNat mo
    let v := leNat o
    let k : Option ZmKind := match kind with
      | "plain" => some .plain | "crand" => some .crand | "barr" => some .barr | "mont" => some .mont
      | "auto" => some (zmKind W (mo.map (·.toNat)))
      | "gfp" => if no = 0 ∨ (mo.headD 0).toNat % 2 = 0 ∨ (no = 1 ∧ mo.headD 0 == 1) then none else some (zmKind W (mo.map (·.toNat)))
      | _ => none
    match k with
    | none => some "no-ring"
    | some k =>
      if v < m then
        let raw := if k == .mont then zmFromMontV W n m v else v
        let back := if k == .mont then zmToMontV W n m (wordNegInvV W (m % 2 ^ W)) raw else raw
        some (join [toString n, toString no, "1", hw W n raw, ho no back])
      else some (join [toString n, toString no, "0"])
  | "zm", kind :: pat :: mo :: op :: rest => do
    -- the qr_o operation tables of zm.c per ring kind (ModelZm, value level)
    if !(["add", "sub", "neg", "mul", "sqr", "inv", "div"].contains op) then none else
    let mo ← parseHex mo
    let no := mo.length
    let n := (no + W / 8 - 1) / (W / 8)
    let m := leNat mo
    let k : Option ZmKind := match kind with
      | "plain" => some .plain | "crand" => some .crand | "barr" => some .barr | "mont" => some .mont
      | "auto" => some (zmKind W (mo.map (·.toNat)))
      | "gfp" => if no = 0 ∨ (mo.headD 0).toNat % 2 = 0 ∨ (no = 1 ∧ mo.headD 0 == 1) then none else some (zmKind W (mo.map (·.toNat)))
      | _ => none
    let k ← k
    let el (s : String) : Option Nat := do
      let o ← parseHex s
      if o.length != no then none else zmFromV k W n m (leNat o)
    let x ← rest.head?.bind el
    let y ← if op == "neg" || op == "sqr" || op == "inv" then some x else
      (if (pat == "ab" || pat == "cab") && op != "div" then some x else (rest.drop 1).head?.bind el)
    let r := match op with
      | "add" => zmAddV k m x y | "sub" => zmSubV k m x y | "neg" => zmNegV k m x
      | "mul" => zmMulV k W n m x y | "sqr" => zmSqrV k W n m x
      | "inv" => zmInvV k W n m x | _ => zmDivV k W n m x y
    some (join [toString n, toString no, hw W n r, ho no (zmToV k W n m r)])
  -- ModelRed (Crandall-Montgomery and Barrett reductions, word lists)
  | "zzRedCrandMont", [a, m] => do
    let a ← wl W a; let m ← wl W m
    let mp := negInvModel W (m.headD 1)
    some (join [hl W (zzRedCrandMont_safe W a m mp), hl W (zzRedCrandMont_fast W a m mp)])
  | "zzRedBarrStart", [m] => do let m ← wl W m; some (hl W (zzRedBarrStart W m))
  | "zzRedBarr", [a, m] => do
    let a ← wl W a; let m ← wl W m
    let p := zzRedBarrStart W m
    some (join [hl W (zzRedBarr_safe W a m p), hl W (zzRedBarr_fast W a m p)])
  -- ModelDiv (Knuth D, word lists)
  | "zzDiv", [_, a, b] => do
    let a ← wl W a; let b ← wl W b
    let r := zzDiv W a b
    some (join [hl W r.1, hl W r.2])
  | "zzMod", [_, a, b] => do let a ← wl W a; let b ← wl W b; some (hl W (zzMod W a b))
  -- ModelGcd (binary algorithms, value level)
  | "zzGCD", [a, b] => do
    -- word-level model (ModelGcdW), cross-checked against the value-level one (ModelGcd)
    let a ← wl W a; let b ← wl W b
    let d := zzGCDW W a b
    if val W d != zzGCDV (val W a) (val W b) then some "model-levels-differ" else some (hl W d)
  | "zzExGCD?", [a, b, d, da, db] => do
    let (n, a) ← pw W a; let (m, b) ← pw W b
    let (k, d) ← pw W d; let (m1, da) ← pw W da; let (n1, db) ← pw W db
    let r := zzExGCDV a b
    let rw := zzExGCDW W (toWords W n a) (toWords W m b)
    if val W rw.1 != r.1 || val W rw.2.1 != r.2.1 || val W rw.2.2 != r.2.2 then some "model-levels-differ" else
    some (b01 (k == rw.1.length && m1 == rw.2.1.length && n1 == rw.2.2.length && d == r.1 && da == r.2.1 && db == r.2.2))
  | "zzInvMod", [_, a, m] => do
    let a ← wl W a; let m ← wl W m
    let r := zzInvModW W a m
    if val W r != zzDivModV 1 (val W a) (val W m) then some "model-levels-differ" else some (hl W r)
  | "zzDivMod", [_, d, a, m] => do
    let d ← wl W d; let a ← wl W a; let m ← wl W m
    let r := zzDivModW W d a m
    if val W r != zzDivModV (val W d) (val W a) (val W m) then some "model-levels-differ" else some (hl W r)
  | "zzAlmostInvMod?", [a, m, b, k] => do
    let (n, a) ← pw W a; let (_, m) ← pw W m; let (n1, b) ← pw W b; let k ← nat k
    let r := zzAlmostInvModV a m
    let rw := zzAlmostInvModW W (toWords W n a) (toWords W n m)
    if val W rw.1 != r.1 || rw.2 != r.2 then some "model-levels-differ" else
    -- for gcd(a, mod) != 1 the header fixes b = 0 only (k is whatever the loop count was)
    some (b01 (n1 == n && b == r.1 && (k == r.2 || r.1 == 0)))
  -- ModelPpMul (window multiplication by a word, Karatsuba 1..9 and above, table squaring; word lists)
  | "ppMulW", [_, a, x] => do let a ← wl W a; let x ← nat x; some (pr (ppMulW W a x))
  | "ppAddMulW", [_, b, a, x] => do let b ← wl W b; let a ← wl W a; let x ← nat x; some (pr (ppAddMulW W b a x))
  | "ppMul", [_, a, b] => do let a ← wl W a; let b ← wl W b; some (hl W (ppMul W a b))
  | "ppSqr", [a] => do let a ← wl W a; some (hl W (ppSqr W a))
  -- ModelPpModOps (modular product / square, minimal polynomial of a residue)
  | "ppMulMod", [pat, a, b, m] => do
    let a ← wl W a; let b ← wl W b; let m ← wl W m
    some (hl W (ppMulMod W a (if pat == "ab" || pat == "cab" then a else b) m))
  | "ppSqrMod", [_, a, m] => do let a ← wl W a; let m ← wl W m; some (hl W (ppSqrMod W a m))
  | "ppMinPolyMod", [a, m] => do let (n, a) ← pw W a; let (_, m) ← pw W m; some (hw W n (ppMinPolyModV a m))
  -- ModelPpDiv (table-driven polynomial division; word lists)
  | "ppDiv", [_, a, b] => do
    let a ← wl W a; let b ← wl W b
    let r := ppDiv W a b
    some (join [hl W r.1, hl W r.2])
  | "ppMod", [_, a, b] => do let a ← wl W a; let b ← wl W b; some (hl W (ppMod W a b))
  | "ppRed", [a, m] => do let a ← wl W a; let m ← wl W m; some (hl W (ppRed W a m))
  -- ModelBits, second part: comparison with a word, copies, octet load / store
  | "wwCmpW", [a, x] => do let a ← wl W a; let x ← nat x; some (join [toString (wwCmpW_safe W a x), toString (wwCmpW_fast W a x)])
  | "wwXor", [pat, a, b] => do
    let a ← wl W a; let b ← wl W b
    some (hl W (wwXor a (if pat == "ab" || pat == "cab" then a else b)))
  | "wwXor2", [pat, b, a] => do let b ← wl W b; let a ← wl W a; some (hl W (wwXor2 b (if pat == "ab" then b else a)))
  | "wwCopy", [_, a] => do let a ← wl W a; some (hl W (wwCopy a))
  | "wwSwap", [a, b] => do let a ← wl W a; let b ← wl W b; let r := wwSwap a b; some (join [hl W r.1, hl W r.2])
  | "wwSetW", [n, x] => do let n ← nat n; let x ← nat x; some (hl W (wwSetW (List.replicate n 0) x))
  | "wwRepW", [n, x] => do let n ← nat n; let x ← nat x; some (hl W (wwRepW (List.replicate n 0) x))
  | "wwFromTo", [h] => do
    let o ← parseHex h
    let ws := wwFrom W (o.map (·.toNat))
    some (join (ws.map toString ++ [toHex ((wwTo W o.length ws).map (fun v => UInt8.ofNat v))]))
  -- ModelPpRed (reductions modulo trinomials / pentanomials / the belt polynomial; word lists)
  | "ppRedTrinomial", [a, m, k] => do let a ← wl W a; let m ← nat m; let k ← nat k; some (hl W (ppRedTrinomial W a m k))
  | "ppRedPentanomial", [a, m, k, l, l1] => do
    let a ← wl W a; let m ← nat m; let k ← nat k; let l ← nat l; let l1 ← nat l1
    some (hl W (ppRedPentanomial W a m k l l1))
  | "ppRedBelt", [a] => do let a ← wl W a; some (hl W (ppRedBelt W a))
  -- gf2 multiplication / squaring as gf2.c composes them: ppMul / ppSqr into a 2n-word product, then the
  -- static reduction selected by gf2Create (Trinomial0 when (m - k) % W = 0, else Trinomial1; Pentanomial)
  | "gf2", m :: k :: l :: l1 :: pat :: op :: rest => do
    let m ← nat m; let k ← nat k; let l ← nat l; let l1 ← nat l1
    if !(["mul", "sqr", "tr", "qsolve", "from", "add", "sub", "neg", "inv", "div"].contains op) then none else
    let okd :=
      if k = 0 then false
      else if l = 0 then l1 = 0 && !(m % 8 = 0 || k ≥ m || m - k < W)
      else l1 != 0 && !(k ≥ m || l ≥ k || l1 ≥ l || m - k < W || k ≥ W)
    if !okd then none else
    let n := (m + W - 1) / W
    let no := (m + 7) / 8
    let f := if l = 0 then 2 ^ m + 2 ^ k + 1 else 2 ^ m + 2 ^ k + 2 ^ l + 2 ^ l1 + 1
    let el (s : String) : Option (List Nat) := do
      let o ← parseHex s
      if o.length != no then none else
      let v := leNat o
      if (m % W = 0 ∨ v < 2 ^ m) ∧ v < 2 ^ (W * n) then some (toWords W n v) else none
    if op == "from" then
      let o ← rest.head?.bind parseHex
      let r := gf2From W m (o.map (·.toNat))
      if r.2 then
        some (join [toString n, toString no, "1", hl W r.1, toHex ((gf2To W m r.1).map (fun v => UInt8.ofNat v))])
      else some (join [toString n, toString no, "0"])
    else
    let a ← rest.head?.bind el
    if op == "add" || op == "sub" || op == "neg" || op == "inv" || op == "div" then
      let b ← if op == "neg" || op == "inv" then some a else
        (if (pat == "ab" || pat == "cab") && op != "div" then some a else (rest.drop 1).head?.bind el)
      let mdw := toWords W (n + (if m % W = 0 then 1 else 0)) f
      -- division: rest = [divident, a]
      let r := match op with
        | "add" | "sub" => gf2Add3 a b
        | "neg" => gf2Neg2 a
        | "inv" => gf2Inv W m mdw a
        | _ => gf2Div W m mdw a b
      some (join [toString n, toString no, hl W r, toHex ((gf2To W m r).map (fun v => UInt8.ofNat v))])
    else
    if op == "tr" then some (join [toString n, toString no, b01 (gf2TrV f m (val W a))]) else
    if op == "qsolve" then
      let b ← (rest.drop 1).head?.bind el
      some (join [toString n, toString no, match gf2QSolveV f m (val W a) (val W b) with
        | some x => join ["1", ho no x] | none => "0"])
    else
    let b ← if op == "sqr" then some a else
      (if pat == "ab" || pat == "cab" then some a else (rest.drop 1).head?.bind el)
    let r := if op == "sqr" then gf2Sqr W m k l l1 a else gf2Mul W m k l l1 a b
    some (join [toString n, toString no, hl W r, ho no (val W r)])
  -- ModelPp (binary algorithms over GF(2)[x], value level)
  | "ppGCD", [a, b] => do
    let a ← wl W a; let b ← wl W b
    let d := ppGCDW W a b
    if val W d != ppGCDV (val W a) (val W b) then some "model-levels-differ" else some (hl W d)
  | "ppExGCD?", [a, b, d, da, db] => do
    let (n, a) ← pw W a; let (m, b) ← pw W b
    let (k, d) ← pw W d; let (m1, da) ← pw W da; let (n1, db) ← pw W db
    let r := ppExGCDV a b
    let rw := ppExGCDW W (toWords W n a) (toWords W m b)
    if val W rw.1 != r.1 || val W rw.2.1 != r.2.1 || val W rw.2.2 != r.2.2 then some "model-levels-differ" else
    some (b01 (k == rw.1.length && m1 == rw.2.1.length && n1 == rw.2.2.length && d == r.1 && da == r.2.1 && db == r.2.2))
  | "ppInvMod", [_, a, m] => do
    let a ← wl W a; let m ← wl W m
    let r := ppInvModW W a m
    if val W r != ppInvModV (val W a) (val W m) then some "model-levels-differ" else some (hl W r)
  | "ppDivMod", [_, d, a, m] => do
    let d ← wl W d; let a ← wl W a; let m ← wl W m
    let r := ppDivModW W d a m
    if val W r != ppDivModV (val W d) (val W a) (val W m) then some "model-levels-differ" else some (hl W r)
  -- ModelBits
  | "wwIsW", [a, x] => do let a ← wl W a; let x ← nat x; some (join [b01 (wwIsW_safe a x), b01 (wwIsW_fast a x)])
  | "wwIsRepW", [a, x] => do let a ← wl W a; let x ← nat x; some (join [b01 (wwIsRepW_safe a x), b01 (wwIsRepW_fast a x)])
  | "wwSizes", [a] => do
    let a ← wl W a
    if wwLoZeroBits W a != wwLoZeroBitsF W a || wwHiZeroBits W a != wwHiZeroBitsF W a || wwBitSize W a != wwBitSizeF W a
    then some "model-editions-differ" else
    some (join [toString (wwWordSize a), toString (wwOctetSize W a), toString (wwBitSize W a),
      toString (wwLoZeroBits W a), toString (wwHiZeroBits W a)])
  | "wwTestBit", [a, pos] => do let a ← wl W a; let pos ← nat pos; some (b01 (wwTestBit W a pos))
  | "wwGetBits", [a, pos, width] => do
    let a ← wl W a; let pos ← nat pos; let width ← nat width; some (toString (wwGetBits W a pos width))
  | "wwSetBit", [a, pos, v] => do let a ← wl W a; let pos ← nat pos; let v ← nat v; some (hl W (wwSetBit W a pos (v != 0)))
  | "wwSetBits", [a, pos, width, v] => do
    let a ← wl W a; let pos ← nat pos; let width ← nat width; let v ← nat v; some (hl W (wwSetBits W a pos width v))
  | "wwFlipBit", [a, pos] => do let a ← wl W a; let pos ← nat pos; some (hl W (wwFlipBit W a pos))
  | "wwShLo", [a, s] => do let a ← wl W a; let s ← nat s; some (hl W (wwShLo W a s))
  | "wwShHi", [a, s] => do let a ← wl W a; let s ← nat s; some (hl W (wwShHi W a s))
  | "wwShLoCarry", [a, s, c] => do let a ← wl W a; let s ← nat s; let c ← nat c; some (pr (wwShLoCarry W a s c))
  | "wwShHiCarry", [a, s, c] => do let a ← wl W a; let s ← nat s; let c ← nat c; some (pr (wwShHiCarry W a s c))
  | "wwTrimLo", [a, pos] => do let a ← wl W a; let pos ← nat pos; some (hl W (wwTrimLo W a pos))
  | "wwTrimHi", [a, pos] => do let a ← wl W a; let pos ← nat pos; some (hl W (wwTrimHi W a pos))
  | _, _ => none

/-- model and specification must say the same; the model's answer is what is compared with the C -/
def both (m s : Option String) : String :=
  match m, s with
  | some m, some s => if m == s then m else s!"MODEL!=SPEC model: {m} spec: {s}"
  | some m, none => m
  | none, some s => s
  | none, none => "bad-op"

def handle : List String → String
  | ["u", bits, x] =>
    match parseNat bits, parseNat x with
    | some b, some x => both (uModel b x) (some (uLine b x))
    | _, _ => "bad-op"
  | f :: w :: args =>
    match parseNat w with
    | some W => if W = 16 ∨ W = 32 ∨ W = 64 then both (modelW W f args) (handleW W f args) else "bad-op"
    | none => "bad-op"
  | _ => "bad-op"

end Bee2V.C05.Drv

/-
C05 — special reductions of binary polynomials (pp_red.c, gf2.c; models in ModelPpRed.lean,
lemmas in LemmasPpRed.lean).

PROVED, for ALL arrays `a` of 2·W_OF_B(m) words (any contents: no bound on deg a), every word size
w > 0: ppRedTrinomial and the two gf2 trinomial reductions compute `Spec.pmod (val a) (x^m + x^k + 1)`
in W_OF_B(m) words, result < 2^m.  What is really needed is `m % w ≠ 0` (it excludes the undefined
shift `hi << B_PER_W`); the header's `m % 8 ≠ 0` implies it because B_PER_W is a multiple of 8
(`ppRedTrinomial_spec_header`).  No failing admitted input exists.

Also proved: the three static reductions of gf2.c, run with the fields gf2Create precomputes, are
the same word-level computations as the pp_red.c ones (`…_eq_pp`).

The same is PROVED for ppRedPentanomial / gf2RedPentanomial (incl. m % w = 0).

And for ppRedBelt (x^128 + x^7 + x^2 + x + 1) for every word size with 7 < w, w·W_OF_B(128) = 128,
W_OF_B(128) ≥ 2 (w = 8, 16, 32, 64).  Nothing is left open in this file.
-/
import Bee2V.C05.LemmasPpRed
namespace Bee2V.C05
open Bee2V.C05.PpRed

/-- gf2RedPentanomial with the fields of gf2Create is ppRedPentanomial, statement by statement. -/
theorem gf2RedPentanomial_eq_pp (w : Nat) (a : List Nat) (m k l l1 : Nat) :
    gf2RedPentanomialArr w a (wOfB w m) (Gf2Pentanom.create w m k l l1)
      = ppRedPentanomialArr w a m k l l1
    ∧ gf2RedPentanomial w a (wOfB w m) (Gf2Pentanom.create w m k l l1)
      = ppRedPentanomial w a m k l l1 := ⟨rfl, rfl⟩

example : gf2RedPentanomial 8 [255, 255, 255, 255, 255, 255] 3 (Gf2Pentanom.create 8 19 5 2 1)
    = ppRedPentanomial 8 [255, 255, 255, 255, 255, 255] 19 5 2 1 := by decide

/-- gf2RedTrinomial1 (used when (m − k) % w ≠ 0) is ppRedTrinomial. -/
theorem gf2RedTrinomial1_eq_pp (w : Nat) (a : List Nat) (m k : Nat) (hbk : (m - k) % w ≠ 0) :
    gf2RedTrinomial1Arr w a (wOfB w m) (Gf2Trinom.create w m k) = ppRedTrinomialArr w a m k := by
  unfold gf2RedTrinomial1Arr ppRedTrinomialArr Gf2Trinom.create
  have hb : (fun (n : Nat) (a : List Nat) =>
      let hi := a.getD n 0
      let a := xorAt a (n - m / w - 1) (wshl w hi (w - m % w))
      let a := xorAt a (n - m / w) (wshr hi (m % w))
      let a := xorAt a (n - (m - k) / w - 1) (wshl w hi (w - (m - k) % w))
      xorAt a (n - (m - k) / w) (wshr hi ((m - k) % w)))
      = ppRedTriBody w (m % w) (m / w) ((m - k) % w) ((m - k) / w) := by
    funext n a
    simp only [ppRedTriBody, if_pos hbk]
  simp only [hb, hbk, ne_eq, not_false_eq_true, and_true]

/-- gf2RedTrinomial0 (used when (m − k) % w = 0) is ppRedTrinomial. -/
theorem gf2RedTrinomial0_eq_pp (w : Nat) (a : List Nat) (m k : Nat) (hbk : (m - k) % w = 0) :
    gf2RedTrinomial0Arr w a (wOfB w m) (Gf2Trinom.create w m k) = ppRedTrinomialArr w a m k := by
  unfold gf2RedTrinomial0Arr ppRedTrinomialArr Gf2Trinom.create
  have hb : (fun (n : Nat) (a : List Nat) =>
      let hi := a.getD n 0
      let a := xorAt a (n - m / w - 1) (wshl w hi (w - m % w))
      let a := xorAt a (n - m / w) (wshr hi (m % w))
      xorAt a (n - (m - k) / w) hi)
      = ppRedTriBody w (m % w) (m / w) ((m - k) % w) ((m - k) / w) := by
    funext n a
    simp only [ppRedTriBody, hbk, ne_eq, not_true_eq_false, if_false, PpRed.xorAt_zero, wshr, Nat.pow_zero,
      Nat.div_one]
  simp only [hb, hbk, ne_eq, not_true_eq_false, and_false, if_false, wshr, Nat.pow_zero, Nat.div_one]

example : gf2RedTrinomial0 8 [255, 255, 255, 255, 255, 255] 3 (Gf2Trinom.create 8 19 3)
    = ppRedTrinomial 8 [255, 255, 255, 255, 255, 255] 19 3 := by decide
example : gf2RedTrinomial1 8 [255, 1, 2, 3, 4, 255] 3 (Gf2Trinom.create 8 19 5)
    = ppRedTrinomial 8 [255, 1, 2, 3, 4, 255] 19 5 := by decide

/-! ## correctness of the trinomial reductions -/

/-- ppRedTrinomial(a, {m, k}) for every array of 2·W_OF_B(m) words: the first W_OF_B(m) words are
    `a mod (x^m + x^k + 1)`, reduced.  Preconditions: k > 0, m − k ≥ B_PER_W, m % B_PER_W ≠ 0. -/
theorem ppRedTrinomial_spec (w : Nat) (a : List Nat) (m k : Nat) (hw : 0 < w) (ha : Wf w a)
    (hl : a.length = 2 * wOfB w m) (hmw : m % w ≠ 0) (hk : 0 < k) (hmk : w ≤ m - k) :
    val w (ppRedTrinomial w a m k) = Spec.pmod (val w a) (2 ^ m + 2 ^ k + 1)
    ∧ val w (ppRedTrinomial w a m k) < 2 ^ m
    ∧ Wf w (ppRedTrinomial w a m k) ∧ (ppRedTrinomial w a m k).length = wOfB w m :=
  ppRedTrinomial_ok a m k hw ha hl hmw hk hmk

-- the hypotheses are satisfiable (all-ones array: degree 31 > 2m − 2), and the theorem applies:
example := ppRedTrinomial_spec 8 [255, 255, 255, 255] 11 2 (by decide) (by decide) (by decide)
  (by decide) (by decide) (by decide)
example : (ppRedTrinomial 8 [255, 255, 255, 255] 11 2).length = 2
    ∧ val 8 (ppRedTrinomial 8 [255, 255, 255, 255] 11 2) < 2 ^ 11 := by decide

/-- the same under the header's preconditions literally (`m % 8 != 0`; B_PER_W is a multiple of 8) -/
theorem ppRedTrinomial_spec_header (w : Nat) (a : List Nat) (m k : Nat) (hw : 0 < w) (h8 : 8 ∣ w)
    (ha : Wf w a) (hl : a.length = 2 * wOfB w m) (hm8 : m % 8 ≠ 0) (hk : 0 < k) (hmk : w ≤ m - k) :
    val w (ppRedTrinomial w a m k) = Spec.pmod (val w a) (2 ^ m + 2 ^ k + 1)
    ∧ val w (ppRedTrinomial w a m k) < 2 ^ m
    ∧ Wf w (ppRedTrinomial w a m k) ∧ (ppRedTrinomial w a m k).length = wOfB w m := by
  apply ppRedTrinomial_ok a m k hw ha hl _ hk hmk
  intro h0
  exact hm8 (Nat.mod_eq_zero_of_dvd (Nat.dvd_trans h8 (Nat.dvd_of_mod_eq_zero h0)))

/-- gf2RedTrinomial1 (gf2Create selects it when (m − k) % w ≠ 0) -/
theorem gf2RedTrinomial1_spec (w : Nat) (a : List Nat) (m k : Nat) (hw : 0 < w) (ha : Wf w a)
    (hl : a.length = 2 * wOfB w m) (hmw : m % w ≠ 0) (hk : 0 < k) (hmk : w ≤ m - k)
    (hbk : (m - k) % w ≠ 0) :
    val w (gf2RedTrinomial1 w a (wOfB w m) (Gf2Trinom.create w m k))
      = Spec.pmod (val w a) (2 ^ m + 2 ^ k + 1)
    ∧ val w (gf2RedTrinomial1 w a (wOfB w m) (Gf2Trinom.create w m k)) < 2 ^ m
    ∧ Wf w (gf2RedTrinomial1 w a (wOfB w m) (Gf2Trinom.create w m k))
    ∧ (gf2RedTrinomial1 w a (wOfB w m) (Gf2Trinom.create w m k)).length = wOfB w m := by
  have e : gf2RedTrinomial1 w a (wOfB w m) (Gf2Trinom.create w m k) = ppRedTrinomial w a m k := by
    unfold gf2RedTrinomial1 ppRedTrinomial
    rw [gf2RedTrinomial1_eq_pp w a m k hbk]
  rw [e]
  exact ppRedTrinomial_ok a m k hw ha hl hmw hk hmk

/-- gf2RedTrinomial0 (gf2Create selects it when (m − k) % w = 0) -/
theorem gf2RedTrinomial0_spec (w : Nat) (a : List Nat) (m k : Nat) (hw : 0 < w) (ha : Wf w a)
    (hl : a.length = 2 * wOfB w m) (hmw : m % w ≠ 0) (hk : 0 < k) (hmk : w ≤ m - k)
    (hbk : (m - k) % w = 0) :
    val w (gf2RedTrinomial0 w a (wOfB w m) (Gf2Trinom.create w m k))
      = Spec.pmod (val w a) (2 ^ m + 2 ^ k + 1)
    ∧ val w (gf2RedTrinomial0 w a (wOfB w m) (Gf2Trinom.create w m k)) < 2 ^ m
    ∧ Wf w (gf2RedTrinomial0 w a (wOfB w m) (Gf2Trinom.create w m k))
    ∧ (gf2RedTrinomial0 w a (wOfB w m) (Gf2Trinom.create w m k)).length = wOfB w m := by
  have e : gf2RedTrinomial0 w a (wOfB w m) (Gf2Trinom.create w m k) = ppRedTrinomial w a m k := by
    unfold gf2RedTrinomial0 ppRedTrinomial
    rw [gf2RedTrinomial0_eq_pp w a m k hbk]
  rw [e]
  exact ppRedTrinomial_ok a m k hw ha hl hmw hk hmk

/-! ## correctness of the pentanomial reductions -/

/-- ppRedPentanomial(a, {m, k, l, l1}) for every array of 2·W_OF_B(m) words (any contents), every
    w > 0, including m % w = 0: the first W_OF_B(m) words are `a mod (x^m + x^k + x^l + x^l1 + 1)`,
    reduced.  Preconditions of the header: k > l > l1 > 0, k < B_PER_W, m − k ≥ B_PER_W. -/
theorem ppRedPentanomial_spec (w : Nat) (a : List Nat) (m k l l1 : Nat) (hw : 0 < w) (ha : Wf w a)
    (hlen : a.length = 2 * wOfB w m) (h1 : 0 < l1) (h2 : l1 < l) (h3 : l < k) (hk : k < w)
    (hmk : w ≤ m - k) :
    val w (ppRedPentanomial w a m k l l1)
      = Spec.pmod (val w a) (2 ^ m + 2 ^ k + 2 ^ l + 2 ^ l1 + 1)
    ∧ val w (ppRedPentanomial w a m k l l1) < 2 ^ m
    ∧ Wf w (ppRedPentanomial w a m k l l1) ∧ (ppRedPentanomial w a m k l l1).length = wOfB w m :=
  ppRedPentanomial_ok a m k l l1 hw ha hlen h1 h2 h3 hk hmk

-- hypotheses satisfiable, also with m % w = 0 (m = 16, w = 8) and an all-ones array (degree 31):
example := ppRedPentanomial_spec 8 [255, 255, 255, 255] 16 5 2 1 (by decide) (by decide) (by decide)
  (by decide) (by decide) (by decide) (by decide) (by decide)
example : (ppRedPentanomial 8 [255, 255, 255, 255] 16 5 2 1).length = 2
    ∧ val 8 (ppRedPentanomial 8 [255, 255, 255, 255] 16 5 2 1) < 2 ^ 16 := by decide

/-- gf2RedPentanomial with the fields of gf2Create -/
theorem gf2RedPentanomial_spec (w : Nat) (a : List Nat) (m k l l1 : Nat) (hw : 0 < w) (ha : Wf w a)
    (hlen : a.length = 2 * wOfB w m) (h1 : 0 < l1) (h2 : l1 < l) (h3 : l < k) (hk : k < w)
    (hmk : w ≤ m - k) :
    val w (gf2RedPentanomial w a (wOfB w m) (Gf2Pentanom.create w m k l l1))
      = Spec.pmod (val w a) (2 ^ m + 2 ^ k + 2 ^ l + 2 ^ l1 + 1)
    ∧ val w (gf2RedPentanomial w a (wOfB w m) (Gf2Pentanom.create w m k l l1)) < 2 ^ m
    ∧ Wf w (gf2RedPentanomial w a (wOfB w m) (Gf2Pentanom.create w m k l l1))
    ∧ (gf2RedPentanomial w a (wOfB w m) (Gf2Pentanom.create w m k l l1)).length = wOfB w m := by
  rw [(gf2RedPentanomial_eq_pp w a m k l l1).2]
  exact ppRedPentanomial_ok a m k l l1 hw ha hlen h1 h2 h3 hk hmk

/-! ## ppRedBelt -/

/-- ppRedBelt(a) for every array of 2·W_OF_B(128) words (any contents): the first W_OF_B(128) words
    are `a mod (x^128 + x^7 + x^2 + x + 1)`.  Word sizes: `mw * B_PER_W == 128` (the C ASSERT),
    B_PER_W > 7 (the shifts by B_PER_W − 7), at least two words (w = 8, 16, 32, 64). -/
theorem ppRedBelt_spec (w : Nat) (a : List Nat) (h7 : 7 < w) (h2 : 2 ≤ wOfB w 128)
    (hw : w * wOfB w 128 = 128) (ha : Wf w a) (hlen : a.length = 2 * wOfB w 128) :
    val w (ppRedBelt w a) = Spec.pmod (val w a) (2 ^ 128 + 2 ^ 7 + 2 ^ 2 + 2 ^ 1 + 1)
    ∧ val w (ppRedBelt w a) < 2 ^ 128
    ∧ Wf w (ppRedBelt w a) ∧ (ppRedBelt w a).length = wOfB w 128 :=
  ppRedBelt_ok a h7 h2 hw ha hlen

-- the hypotheses hold for B_PER_W = 64 and an all-ones array (degree 255):
example := ppRedBelt_spec 64 (List.replicate 4 (2 ^ 64 - 1)) (by decide) (by decide) (by decide)
  (by decide) (by decide)
example : (ppRedBelt 64 (List.replicate 4 (2 ^ 64 - 1))).length = 2 := by decide

end Bee2V.C05

/-
C05 — helper lemmas for PropsZm.lean (operation tables of zm.c).  namespace Bee2V.C05.Zm
-/
import Bee2V.C05.ModelZm
import Bee2V.C05.PropsEtc
import Bee2V.C05.PropsGcd
namespace Bee2V.C05.Zm
open Bee2V.C05 Bee2V.C05.Etc

theorem addMod_val {x y m : Nat} (hx : x < m) (hy : y < m) : zmAddModV x y m = (x + y) % m := by
  unfold zmAddModV
  split_ifs with h
  · rw [Nat.mod_eq_sub_mod h, Nat.mod_eq_of_lt (by omega)]
  · rw [Nat.mod_eq_of_lt (by omega)]

theorem subMod_val {x y m : Nat} (hx : x < m) (hy : y < m) :
    zmSubModV x y m = (x + (m - y)) % m := by
  unfold zmSubModV
  split_ifs with h
  · have : x + (m - y) = (x - y) + m := by omega
    rw [this, Nat.add_mod_right, Nat.mod_eq_of_lt (by omega)]
  · rw [Nat.mod_eq_of_lt (by omega)]; omega

theorem negMod_val {x m : Nat} (hx : x < m) : zzNegModV x m = (m - x) % m := by
  unfold zzNegModV
  split_ifs with h
  · subst h; simp
  · rw [Nat.mod_eq_of_lt (by omega)]

theorem doubleMod_val {x m : Nat} (hx : x < m) : zmDoubleModV x m = (2 * x) % m := by
  unfold zmDoubleModV
  split_ifs with h
  · rw [Nat.mod_eq_sub_mod h, Nat.mod_eq_of_lt (by omega)]
  · rw [Nat.mod_eq_of_lt (by omega)]

theorem doubleN_val (m : Nat) (hm : 0 < m) : ∀ (c b : Nat), b < m →
    zmDoubleN m c b = (2 ^ c * b) % m := by
  intro c
  induction c with
  | zero => intro b hb; simp [zmDoubleN, Nat.mod_eq_of_lt hb]
  | succ c ih =>
    intro b hb
    unfold zmDoubleN
    rw [doubleMod_val hb, ih _ (Nat.mod_lt _ hm), Nat.mul_mod, Nat.mod_mod, ← Nat.mul_mod,
      Nat.pow_succ]
    congr 1; ring

/-- the hypotheses under which the Montgomery table is used (zmCreateMont): machine word size,
    odd modulus of n words -/
structure MontOK (W n m : Nat) : Prop where
  hW : W = 16 ∨ W = 32 ∨ W = 64
  hodd : m % 2 = 1
  hmd : m < 2 ^ (W * n)

theorem montParam_ok {W n m : Nat} (H : MontOK W n m) :
    (m % 2 ^ W * zmMontParam W m + 1) % 2 ^ W = 0 := by
  unfold zmMontParam
  have hpos := Nat.two_pow_pos W
  have h2 : 2 ∣ 2 ^ W := by
    rcases H.hW with h | h | h <;> subst h <;> decide
  have hodd : m % 2 ^ W % 2 = 1 := by
    rw [Nat.mod_mod_of_dvd _ h2]; exact H.hodd
  have := wordNegInvV_spec W (m % 2 ^ W) H.hW (Nat.mod_lt _ hpos) hodd
  rwa [Nat.mod_mod] at this

/-- decoding: a reduced x with `x ≡ c R` is the Montgomery form of `c mod m` -/
theorem mont_decode {W n m : Nat} (H : MontOK W n m) (x c : Nat) (hx : x < m)
    (h : x ≡ c * 2 ^ (W * n) [MOD m]) :
    zmToMontV W n m (zmMontParam W m) x = c % m := by
  unfold zmToMontV
  obtain ⟨h1, h2⟩ := zzRedMontV_spec W n m _ x (montParam_ok H) H.hmd
    (Nat.lt_of_lt_of_le hx (Nat.le_mul_of_pos_right _ (Nat.two_pow_pos _)))
  apply eq_of_modEq_lt _ h1 (Nat.mod_lt _ (by omega))
  apply cancel_R (k := W * n) H.hodd
  exact (h2.trans h).trans ((Nat.mod_modEq c m).mul_right _).symm

theorem from_mont_modEq (W n m a : Nat) :
    zmFromMontV W n m a ≡ a * 2 ^ (W * n) [MOD m] := by
  unfold zmFromMontV; exact Nat.mod_modEq _ _

theorem from_some {k : ZmKind} {W n m a x : Nat} (h : zmFromV k W n m a = some x) :
    a < m ∧ x < m ∧ (k = .mont → x = zmFromMontV W n m a) ∧ (k ≠ .mont → x = a) := by
  unfold zmFromV at h
  split_ifs at h with ha
  injection h with h
  subst h
  cases k <;> simp [zmFromMontV, ha, Nat.mod_lt _ (show 0 < m by omega)]

/-- hypotheses of a ring description of kind k -/
def ZmOK (k : ZmKind) (W n m : Nat) : Prop := k = .mont → MontOK W n m

theorem to_nonmont {k : ZmKind} (hk : k ≠ .mont) (W n m x : Nat) : zmToV k W n m x = x := by
  cases k <;> simp [zmToV] at hk ⊢

/-- the common shape: a reduced internal value z that represents c decodes to `c mod m` -/
theorem decode {k : ZmKind} {W n m : Nat} (H : ZmOK k W n m) (z c : Nat) (hz : z < m)
    (hm : k = .mont → z ≡ c * 2 ^ (W * n) [MOD m]) (hp : k ≠ .mont → z = c % m) :
    zmToV k W n m z = c % m := by
  by_cases hk : k = .mont
  · subst hk
    exact mont_decode (H rfl) z c hz (hm rfl)
  · rw [to_nonmont hk, hp hk]

/-- zmInvMont on the Montgomery form x of a: the result b' is reduced and `b' x ≡ R^2` -/
theorem invMont_val {W n m a x : Nat} (H : MontOK W n m) (hm1 : 1 < m) (hg : Nat.gcd a m = 1)
    (hxm : x < m) (hxR : x ≡ a * 2 ^ (W * n) [MOD m]) :
    zmInvMontV W n m x < m
      ∧ zmInvMontV W n m x * x ≡ 2 ^ (W * n) * 2 ^ (W * n) [MOD m] := by
  have hcop2 : Nat.Coprime (2 ^ (W * n)) m := by
    apply Nat.Coprime.pow_left
    unfold Nat.Coprime
    rw [Nat.gcd_rec, H.hodd]; rfl
  have hgx : Nat.gcd x m = 1 := by
    have : Nat.gcd x m = Nat.gcd (a * 2 ^ (W * n)) m := hxR.gcd_eq
    rw [this]
    exact Nat.Coprime.mul_left hg hcop2
  have hx0 : 0 < x := by
    rcases Nat.eq_zero_or_pos x with h | h
    · subst h; rw [Nat.gcd_zero_left] at hgx; omega
    · exact h
  obtain ⟨s1, s2, _⟩ := zzAlmostInvModV_spec x m H.hodd hx0 hxm hgx
  obtain ⟨_, _, _, c4⟩ := zzAlmostInvModV_count x m H.hodd hx0 hxm hgx
  have hlog : Nat.log2 m + 1 ≤ W * n := by
    have := (Nat.log2_lt (by omega : m ≠ 0)).2 H.hmd
    omega
  unfold zmInvMontV
  simp only []
  generalize (zzAlmostInvModV x m).1 = b at *
  generalize (zzAlmostInvModV x m).2 = k at *
  rw [doubleN_val m (by omega) _ b s2]
  have hk : 2 * n * W - k + k = W * n + W * n := by
    have : 2 * n * W = W * n + W * n := by ring
    omega
  generalize 2 * n * W - k = c at *
  refine ⟨Nat.mod_lt _ (by omega), ?_⟩
  have e3 : 2 ^ c * b % m * x ≡ 2 ^ c * b * x [MOD m] := (Nat.mod_modEq _ _).mul_right x
  have e4 : 2 ^ c * b * x ≡ 2 ^ c * 2 ^ k [MOD m] := by
    rw [Nat.mul_assoc]
    exact (Nat.ModEq.refl (2 ^ c)).mul s1
  refine (e3.trans e4).trans ?_
  rw [← Nat.pow_add, hk, Nat.pow_add]

end Bee2V.C05.Zm

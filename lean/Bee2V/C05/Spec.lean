/-
C05 — exact-arithmetic executable specification ("the formula in the header") of the
arithmetic layer: Nat / Int arithmetic, modular arithmetic, Nat-coded GF(2)[x]
(bit i of the code = coefficient of x^i; addition = xor, multiplication = carry-less).
Structure-free on purpose: no word size, no loops of the C.  Used by the driver `drv_c05`
as the oracle for every operation that has no code-shaped model yet.
No Mathlib (native driver).
-/
namespace Bee2V.C05.Spec

/-! ### integers -/

/-- extended Euclid on Int: returns (g, x, y) with a x + b y = g; fuel-bounded (fuel ≥ log) -/
def egcdAux : Nat → Int → Int → Int → Int → Int → Int → Int × Int × Int
  | 0, r0, _, s0, _, t0, _ => (r0, s0, t0)
  | f + 1, r0, r1, s0, s1, t0, t1 =>
    if r1 = 0 then (r0, s0, t0)
    else
      let q := r0 / r1
      egcdAux f r1 (r0 - q * r1) s1 (s0 - q * s1) t1 (t0 - q * t1)
def egcd (a b : Nat) : Int × Int × Int := egcdAux (2 * (a.log2 + b.log2) + 8) a b 1 0 0 1

/-- a^{-1} mod m if gcd(a, m) = 1 -/
def invMod (a m : Nat) : Option Nat :=
  let (g, x, _) := egcd (a % m) m
  if g = 1 then some (x % (m : Int)).toNat else none

/-- a^e mod m (0^0 = 1 mod m) -/
def powMod (a e m : Nat) : Nat :=
  (List.range (e.log2 + 1)).reverse.foldl
    (fun r i => let r2 := r * r % m; if e.testBit i then r2 * a % m else r2) (1 % m)

/-- floor(sqrt a) by Newton from above -/
def isqrtAux : Nat → Nat → Nat → Nat
  | 0, _, x => x
  | f + 1, a, x =>
    let y := (x + a / x) / 2
    if y < x then isqrtAux f a y else x
def isqrt (a : Nat) : Nat := if a = 0 then 0 else isqrtAux (a.log2 + 8) a (2 ^ ((a.log2 + 2) / 2))

/-- Jacobi symbol (a / b), b odd -/
def jacobiAux : Nat → Nat → Nat → Int → Int
  | 0, _, _, _ => 0
  | f + 1, a, b, t =>
    -- invariant: b odd, result = t * (a / b)
    let a := a % b
    if a = 0 then (if b = 1 then t else 0)
    else
      -- strip factors of two
      let s := (List.range (a.log2 + 1)).find? (fun i => a.testBit i) |>.getD 0
      let a' := a >>> s
      let t := if s % 2 = 1 ∧ (b % 8 = 3 ∨ b % 8 = 5) then -t else t
      let t := if a' % 4 = 3 ∧ b % 4 = 3 then -t else t
      jacobiAux f b a' t
def jacobi (a b : Nat) : Int := jacobiAux (2 * (a.log2 + b.log2) + 8) a b 1

/-! ### word-level helpers (spec: defined on bits) -/

def bitsToNat (l : List Bool) : Nat := l.foldr (fun b acc => (if b then 1 else 0) + 2 * acc) 0
def natBits (n x : Nat) : List Bool := (List.range n).map x.testBit

def weight (x : Nat) : Nat := ((List.range (x.log2 + 1)).filter x.testBit).length
def ctz (bits x : Nat) : Nat := if x = 0 then bits else ((List.range bits).find? x.testBit).getD bits
def clz (bits x : Nat) : Nat := if x = 0 then bits else bits - 1 - x.log2
def bitrev (bits x : Nat) : Nat := bitsToNat (natBits bits x).reverse
/-- octet reversal -/
def rev (bits x : Nat) : Nat :=
  (List.range (bits / 8)).foldl (fun acc i => acc * 256 + (x >>> (8 * i)) % 256) 0
/-- bit i of the low half goes to position 2i, bit i of the high half to 2i+1 -/
def shuffle (bits x : Nat) : Nat :=
  let h := bits / 2
  bitsToNat ((List.range bits).map fun j => if j % 2 = 0 then x.testBit (j / 2) else x.testBit (h + j / 2))
def deshuffle (bits x : Nat) : Nat :=
  let h := bits / 2
  bitsToNat ((List.range bits).map fun j => if j < h then x.testBit (2 * j) else x.testBit (2 * (j - h) + 1))
/-- `- w^{-1} mod 2^bits`, w odd -/
def negInv (bits x : Nat) : Option Nat :=
  (invMod x (2 ^ bits)).map fun i => (2 ^ bits - i) % 2 ^ bits

/-! ### GF(2)[x], Nat-coded -/

def clmul (a b : Nat) : Nat :=
  if b = 0 then 0 else
  (List.range (b.log2 + 1)).foldl (fun r i => if b.testBit i then r ^^^ (a <<< i) else r) 0

/-- degree, `none` for 0 -/
def pdeg (a : Nat) : Option Nat := if a = 0 then none else some a.log2

/-- polynomial division: (quotient, remainder), b ≠ 0 -/
def pdivmod (a b : Nat) : Nat × Nat :=
  if b = 0 then (0, a) else
  let db := b.log2
  if a = 0 ∨ a.log2 < db then (0, a) else
  (List.range (a.log2 - db + 1)).reverse.foldl
    (fun (qr : Nat × Nat) i =>
      if qr.2.testBit (i + db) then (qr.1 ^^^ (1 <<< i), qr.2 ^^^ (b <<< i)) else qr) (0, a)
def pmod (a b : Nat) : Nat := (pdivmod a b).2

def pgcdAux : Nat → Nat → Nat → Nat
  | 0, a, _ => a
  | f + 1, a, b => if b = 0 then a else pgcdAux f b (pmod a b)
def pgcd (a b : Nat) : Nat := pgcdAux (a.log2 + b.log2 + 4) a b

/-- extended Euclid over GF(2)[x]: (g, x, y), a x + b y = g -/
def pegcdAux : Nat → Nat → Nat → Nat → Nat → Nat → Nat → Nat × Nat × Nat
  | 0, r0, _, s0, _, t0, _ => (r0, s0, t0)
  | f + 1, r0, r1, s0, s1, t0, t1 =>
    if r1 = 0 then (r0, s0, t0)
    else
      let (q, r) := pdivmod r0 r1
      pegcdAux f r1 r s1 (s0 ^^^ clmul q s1) t1 (t0 ^^^ clmul q t1)
def pegcd (a b : Nat) : Nat × Nat × Nat := pegcdAux (a.log2 + b.log2 + 4) a b 1 0 0 1

def pmulmod (a b f : Nat) : Nat := pmod (clmul a b) f
def pinvmod (a f : Nat) : Option Nat :=
  let (g, x, _) := pegcd (pmod a f) f
  if g = 1 then some (pmod x f) else none

/-- squaring = spreading the bits -/
def psqr (a : Nat) : Nat := clmul a a

/-- a^(2^k) mod f -/
def pfrob (a f k : Nat) : Nat := (List.range k).foldl (fun r _ => pmod (psqr r) f) (pmod a f)

/-- Ben-Or irreducibility test; degree ≥ 1 -/
def pIsIrred (f : Nat) : Bool :=
  match pdeg f with
  | none => false
  | some 0 => false
  | some n =>
    let x := pmod 2 f
    ((List.range (n / 2)).foldl
      (fun (st : Nat × Bool) _ =>
        if !st.2 then st else
        let y := pmod (psqr st.1) f
        (y, pgcd f (y ^^^ x) == 1)) (x, true)).2

/-- Berlekamp–Massey over GF(2) on the sequence s_0 … s_{N-1}; returns the connection
    polynomial C (C_0 = 1) and the linear complexity L -/
def bmAux (s : Nat → Bool) : Nat → Nat → Nat → Nat → Nat → Nat → Nat × Nat
  | 0, _, c, _, l, _ => (c, l)
  | k + 1, i, c, bpoly, l, m =>
    -- discrepancy d = s_i + sum_{j=1..l} c_j s_{i-j}
    let d := (List.range (l + 1)).foldl (fun acc j => acc != (c.testBit j && (j ≤ i) && s (i - j))) false
    if !d then bmAux s k (i + 1) c bpoly l (m + 1)
    else if 2 * l ≤ i then bmAux s k (i + 1) (c ^^^ (bpoly <<< m)) c (i + 1 - l) 1
    else bmAux s k (i + 1) (c ^^^ (bpoly <<< m)) bpoly l (m + 1)
def berlekampMassey (s : Nat → Bool) (len : Nat) : Nat × Nat := bmAux s len 0 1 1 0 1

end Bee2V.C05.Spec

/-
C05 → C06 bridge: the operation record `C06.gf2Fld md m` (xor, gfMul, ppInvModV, gf2pow — what the
C06 driver runs for binary curves) simulates the abstract field `fieldFld (Gf2.R md)` for every
irreducible modulus polynomial md ≠ x, through the canonical embedding of reduced codes.
Hence the `_partial` theorem of C06 about ecMulA on binary curves becomes unconditional in the
arithmetic (`ecMulA_gf2_irred`).
-/
import Bee2V.C06.PropsTop2
import Bee2V.C05.LemmasFld
namespace Bee2V.C05
open Bee2V.C05.Spec Bee2V.C05.Gf2 Bee2V.C05.Fld Bee2V.C06

variable {md : Nat} [hI : Fact (NatIrred md)]

/-- the square-and-multiply loop of C06.gf2pow computes `acc * a^e` in the field -/
theorem gf2pow_eq (fuel : Nat) : ∀ (e : Nat) (a acc : R md), e < 2 ^ fuel →
    gf2pow md a.1 fuel e acc.1 = (acc * a ^ e).1 := by
  induction fuel with
  | zero =>
    intro e a acc he
    have : e = 0 := by simpa using he
    subst this
    simp [gf2pow]
  | succ fuel ih =>
    intro e a acc he
    unfold gf2pow
    by_cases h0 : e = 0
    · subst h0; simp
    · rw [if_neg h0]
      have he2 : e / 2 < 2 ^ fuel := by rw [Nat.pow_succ] at he; omega
      have hdm : e = 2 * (e / 2) + e % 2 := by omega
      by_cases hodd : e % 2 = 1
      · rw [if_pos hodd]
        have key : acc * a * (a * a) ^ (e / 2) = acc * a ^ e := by
          conv_rhs => rw [hdm, hodd]
          ring
        have := ih (e / 2) (a * a) (acc * a) he2
        rw [val_mul, val_mul] at this
        rw [this]
        exact congrArg Subtype.val key
      · rw [if_neg hodd]
        have key : acc * (a * a) ^ (e / 2) = acc * a ^ e := by
          conv_rhs => rw [hdm, show e % 2 = 0 by omega]
          ring
        have := ih (e / 2) (a * a) acc he2
        rw [val_mul] at this
        rw [this]
        exact congrArg Subtype.val key

theorem plen_bound (e : Nat) : e < 2 ^ (plen e + 1) := by
  unfold plen
  split_ifs with h
  · subst h; decide
  · exact Nat.lt_of_lt_of_le Nat.lt_log2_self (Nat.pow_le_pow_right (by decide) (by omega))

/-- `gf2Fld md m` (the record the C06 driver runs) simulates the field GF(2)[x]/(md) for every
    irreducible md ≠ x: all eleven operations commute with the embedding of reduced codes and
    keep them reduced; in particular qrInv = ppInvModV is the field inverse (0 ↦ 0) and
    qrPower = gf2pow is the field power. -/
theorem gf2Fld_sim (m : Nat) (hm : md.log2 = m) (ho : md % 2 = 1) :
    Sim.FldSim (gf2Fld md m) (fieldFld (R md)) (toR md) (fun a => a < 2 ^ m) := by
  subst hm
  have hone := one_lt_pow hI.out
  have hmd0 := natIrred_ne_zero hI.out
  refine
    { zero := ⟨Nat.two_pow_pos _, R.ext (toR_val (Nat.two_pow_pos _))⟩
      one := ⟨hone, R.ext (by show (toR md 1).1 = (1 : R md).1; rw [toR_val hone, val_one_eq])⟩
      add := fun a b ha hb => ⟨Nat.xor_lt_two_pow ha hb, R.ext ?_⟩
      sub := fun a b ha hb => ⟨Nat.xor_lt_two_pow ha hb, R.ext ?_⟩
      mul := fun a b ha hb => ⟨pmod_lt hmd0 _, R.ext ?_⟩
      neg := fun a ha => ⟨ha, rfl⟩
      dbl := fun a ha => ⟨Nat.two_pow_pos _, ?_⟩
      half := fun a ha => ⟨Nat.two_pow_pos _, ?_⟩
      inv := fun a ha => ⟨?_, R.ext ?_⟩
      pow := fun a e ha => ⟨?_, R.ext ?_⟩
      eqb := fun a b ha hb => ?_ }
  · show (toR md (a ^^^ b)).1 = (toR md a + toR md b).1
    rw [toR_val (Nat.xor_lt_two_pow ha hb), val_add, toR_val ha, toR_val hb]
  · show (toR md (a ^^^ b)).1 = (toR md a - toR md b).1
    rw [toR_val (Nat.xor_lt_two_pow ha hb), sub_eq_add_neg]
    show _ = (toR md a + toR md b).1
    rw [val_add, toR_val ha, toR_val hb]
  · show (toR md (gfMul md a b)).1 = (toR md a * toR md b).1
    rw [toR_val (show gfMul md a b < _ from pmod_lt hmd0 _), val_mul, toR_val ha, toR_val hb]
  · show toR md 0 = toR md a + toR md a
    rw [add_self]; exact R.ext (toR_val (Nat.two_pow_pos _))
  · show toR md 0 = toR md a / 2
    have h2 : (2 : R md) = 0 := by rw [← one_add_one_eq_two]; exact add_self 1
    rw [h2, div_zero]; exact R.ext (toR_val (Nat.two_pow_pos _))
  · show ppInvModV a md < 2 ^ md.log2
    have := invNat_lt (mk a ha)
    unfold invNat at this
    rwa [if_pos ho] at this
  · show (toR md (ppInvModV a md)).1 = ((toR md a)⁻¹).1
    have hlt : ppInvModV a md < 2 ^ md.log2 := by
      have := invNat_lt (mk a ha)
      unfold invNat at this
      rwa [if_pos ho] at this
    rw [toR_val hlt, val_inv_odd ho, toR_val ha]
  · show gf2pow md a (plen e + 1) e 1 < 2 ^ md.log2
    have := gf2pow_eq (plen e + 1) e (mk a ha) 1 (plen_bound e)
    rw [val_one_eq] at this
    change gf2pow md a (plen e + 1) e 1 = _ at this
    rw [this]; exact (1 * mk a ha ^ e).2
  · show (toR md (gf2pow md a (plen e + 1) e 1)).1 = ((toR md a) ^ e).1
    have := gf2pow_eq (plen e + 1) e (mk a ha) 1 (plen_bound e)
    rw [val_one_eq] at this
    change gf2pow md a (plen e + 1) e 1 = _ at this
    rw [this, toR_mk, one_mul]
    congr 2
    exact (R.ext (toR_val ha)).symm
  · show (a == b) = decide (toR md a = toR md b)
    by_cases hab : a = b
    · subst hab; simp
    · have : toR md a ≠ toR md b := fun h => hab (by
        have := congrArg Subtype.val h
        rwa [toR_val ha, toR_val hb] at this)
      simp [hab, this]

/-- C06's theorem about `ecMulA` on what the driver runs for a binary curve over
    GF(2)[x]/(md), with the arithmetic assumption discharged: for every irreducible md ≠ x, the
    scalar multiplication returns `none` exactly when d·P = 0, and otherwise a reduced affine
    representative of d·P on the curve `Wb` over the field `R md`. -/
theorem ecMulA_gf2_irred (m : Nat) (hm : md.log2 = m) (ho : md % 2 = 1) {A B : Nat}
    (hA : A < 2 ^ m) (hB : B < 2 ^ m) {a : P2 Nat} {P : (Wb (toR md A) (toR md B)).Point}
    (hr : Sim.R2 (fun a => a < 2 ^ m) a)
    (ha : RepB2 (toR md A) (toR md B) (Sim.map2 (toR md) a) P) (W mm d : Nat) :
    (ecMulA (ecOps2 (mkCurve2 (gf2Fld md m) A B)) W a d mm = none ↔ d • P = 0) ∧
    ∀ b, ecMulA (ecOps2 (mkCurve2 (gf2Fld md m) A B)) W a d mm = some b →
      Sim.R2 (fun a => a < 2 ^ m) b ∧ RepB2 (toR md A) (toR md B) (Sim.map2 (toR md) b) (d • P) :=
  ecMulA_gf2_partial (gf2Fld_sim m hm ho) hA hB hr ha W mm d

-- non-vacuity: GF(2^4) = GF(2)[x]/(x^4 + x + 1), the field of the C06 driver examples
theorem natIrred_19 : NatIrred 0b10011 := natIrred_of_check (by decide) (by decide +kernel)

example : Sim.FldSim (gf2Fld 0b10011 4) (@fieldFld (R 0b10011) (@instField _ ⟨natIrred_19⟩) _)
    (@toR 0b10011 ⟨by decide⟩) (fun a => a < 2 ^ 4) :=
  @gf2Fld_sim 0b10011 ⟨natIrred_19⟩ 4 (by decide) (by decide)

end Bee2V.C05

/-
C05 — lemmas: the memory loops of ModelAlias.lean equal the pure list computations under the
documented same-or-disjoint hypotheses; ModelAdd/ModelMul's loops are those pure computations.
-/
import Bee2V.C05.ModelAlias
namespace Bee2V.C05.Alias

variable {σ : Type}

/-! ## memory -/

@[simp] theorem write_same (m : Mem) (k v : Nat) : write m k v k = v := by simp [write]
theorem write_other (m : Mem) (k v j : Nat) (h : j ≠ k) : write m k v j = m j := by
  simp [write, h]

@[simp] theorem readN_length (m : Mem) (a n : Nat) : (readN m a n).length = n := by
  induction n generalizing a with
  | zero => rfl
  | succ n ih => simp [readN, ih]

theorem readN_congr (m m' : Mem) (a n : Nat) (h : ∀ j, a ≤ j → j < a + n → m' j = m j) :
    readN m' a n = readN m a n := by
  induction n generalizing a with
  | zero => rfl
  | succ n ih =>
    simp only [readN]
    rw [h a (Nat.le_refl _) (by omega), ih (a + 1) (fun j h1 h2 => h j (by omega) (by omega))]

theorem readN_write (m : Mem) (k v a n : Nat) (h : k < a ∨ a + n ≤ k) :
    readN (write m k v) a n = readN m a n :=
  readN_congr _ _ _ _ (fun j h1 h2 => write_other _ _ _ _ (by omega))

theorem readN_snoc (m : Mem) (a n : Nat) : readN m a (n + 1) = readN m a n ++ [m (a + n)] := by
  induction n generalizing a with
  | zero => simp [readN]
  | succ n ih =>
    rw [readN, ih (a + 1), readN]
    simp [show a + 1 + n = a + (n + 1) by omega]

/-! ## binary ascending loop -/

theorem loop2I_spec (step : σ → Nat → Nat → σ × Nat) (a b c k : Nat) :
    ∀ (i : Nat) (s : σ) (m : Mem),
    (c = a ∨ Disj (c + i) (a + i) k) → (c = b ∨ Disj (c + i) (b + i) k) →
    readN (loop2I step a b c i k s m).1 (c + i) k
        = (pure2 step s (readN m (a + i) k) (readN m (b + i) k)).1
    ∧ (loop2I step a b c i k s m).2 = (pure2 step s (readN m (a + i) k) (readN m (b + i) k)).2
    ∧ ∀ j, (j < c + i ∨ c + i + k ≤ j) → (loop2I step a b c i k s m).1 j = m j := by
  induction k with
  | zero => intro i s m _ _; simp [loop2I, readN, pure2]
  | succ k ih =>
    intro i s m ha hb
    simp only [Disj] at ha hb
    simp only [loop2I, readN, pure2]
    have hA : readN (write m (c + i) (step s (m (a + i)) (m (b + i))).2) (a + i + 1) k
        = readN m (a + i + 1) k := readN_write _ _ _ _ _ (by omega)
    have hB : readN (write m (c + i) (step s (m (a + i)) (m (b + i))).2) (b + i + 1) k
        = readN m (b + i + 1) k := readN_write _ _ _ _ _ (by omega)
    obtain ⟨h1, h2, h3⟩ := ih (i + 1) (step s (m (a + i)) (m (b + i))).1
      (write m (c + i) (step s (m (a + i)) (m (b + i))).2)
      (by simp only [Disj]; omega) (by simp only [Disj]; omega)
    simp only [← Nat.add_assoc] at h1 h2 h3
    rw [hA, hB] at h1 h2
    refine ⟨?_, h2, ?_⟩
    · rw [h1, h3 (c + i) (by omega), write_same]
    · intro j hj
      rw [h3 j (by omega), write_other _ _ _ _ (by omega)]

/-! ## in/out loop = binary loop whose output region is its first input region -/

theorem loopIOI_eq (step : σ → Nat → Nat → σ × Nat) (b a k : Nat) :
    ∀ (i : Nat) (s : σ) (m : Mem), loopIOI step b a i k s m = loop2I step b a b i k s m := by
  induction k with
  | zero => intro i s m; rfl
  | succ k ih => intro i s m; simp only [loopIOI, loop2I, ih]

theorem loopIO_eq (step : σ → Nat → Nat → σ × Nat) (b a n : Nat) (s : σ) (m : Mem) :
    loopIO step b a n s m = loop2 step b a b n s m := loopIOI_eq step b a n 0 s m

/-! ## unary ascending loop -/

theorem loop1I_spec (step : σ → Nat → σ × Nat) (a c k : Nat) :
    ∀ (i : Nat) (s : σ) (m : Mem),
    (c = a ∨ Disj (c + i) (a + i) k) →
    readN (loop1I step a c i k s m).1 (c + i) k = (pure1 step s (readN m (a + i) k)).1
    ∧ (loop1I step a c i k s m).2 = (pure1 step s (readN m (a + i) k)).2
    ∧ ∀ j, (j < c + i ∨ c + i + k ≤ j) → (loop1I step a c i k s m).1 j = m j := by
  induction k with
  | zero => intro i s m _; simp [loop1I, readN, pure1]
  | succ k ih =>
    intro i s m ha
    simp only [Disj] at ha
    simp only [loop1I, readN, pure1]
    have hA : readN (write m (c + i) (step s (m (a + i))).2) (a + i + 1) k
        = readN m (a + i + 1) k := readN_write _ _ _ _ _ (by omega)
    obtain ⟨h1, h2, h3⟩ := ih (i + 1) (step s (m (a + i))).1
      (write m (c + i) (step s (m (a + i))).2) (by simp only [Disj]; omega)
    simp only [← Nat.add_assoc] at h1 h2 h3
    rw [hA] at h1 h2
    refine ⟨?_, h2, ?_⟩
    · rw [h1, h3 (c + i) (by omega), write_same]
    · intro j hj
      rw [h3 j (by omega), write_other _ _ _ _ (by omega)]

/-! ## descending loop -/

theorem pure1Desc_snoc (step : σ → Nat → σ × Nat) (s : σ) (xs : List Nat) (x : Nat) :
    pure1Desc step s (xs ++ [x])
      = ((pure1Desc step (step s x).1 xs).1 ++ [(step s x).2], (pure1Desc step (step s x).1 xs).2) := by
  induction xs with
  | nil => simp [pure1Desc]
  | cons y ys ih => simp only [List.cons_append, pure1Desc, ih]

theorem loop1Desc_spec (step : σ → Nat → σ × Nat) (a c n : Nat) :
    ∀ (s : σ) (m : Mem), (c = a ∨ Disj c a n) →
    readN (loop1Desc step a c n s m).1 c n = (pure1Desc step s (readN m a n)).1
    ∧ (loop1Desc step a c n s m).2 = (pure1Desc step s (readN m a n)).2
    ∧ ∀ j, (j < c ∨ c + n ≤ j) → (loop1Desc step a c n s m).1 j = m j := by
  induction n with
  | zero => intro s m _; simp [loop1Desc, readN, pure1Desc]
  | succ n ih =>
    intro s m ha
    simp only [Disj] at ha
    have hA : readN (write m (c + n) (step s (m (a + n))).2) a n = readN m a n :=
      readN_write _ _ _ _ _ (by omega)
    obtain ⟨h1, h2, h3⟩ := ih (step s (m (a + n))).1 (write m (c + n) (step s (m (a + n))).2)
      (by simp only [Disj]; omega)
    rw [hA] at h1 h2
    simp only [loop1Desc]
    rw [readN_snoc, readN_snoc, pure1Desc_snoc]
    refine ⟨?_, h2, ?_⟩
    · simp only []
      rw [h1, h3 (c + n) (by omega), write_same]
    · intro j hj
      rw [h3 j (by omega), write_other _ _ _ _ (by omega)]

/-! ## loops that read `d[i]` and re-read `c[i]` after the store -/

theorem loop2PostI_spec (step : σ → Nat → Nat → σ × Nat) (post : σ → Nat → Nat → σ)
    (a b d c k : Nat) :
    ∀ (i : Nat) (s : σ) (m : Mem),
    (c = a ∨ Disj (c + i) (a + i) k) → (c = b ∨ Disj (c + i) (b + i) k) →
    Disj (c + i) (d + i) k →
    readN (loop2PostI step post a b d c i k s m).1 (c + i) k
        = (pure2Post step post s (readN m (a + i) k) (readN m (b + i) k) (readN m (d + i) k)).1
    ∧ (loop2PostI step post a b d c i k s m).2
        = (pure2Post step post s (readN m (a + i) k) (readN m (b + i) k) (readN m (d + i) k)).2
    ∧ ∀ j, (j < c + i ∨ c + i + k ≤ j) → (loop2PostI step post a b d c i k s m).1 j = m j := by
  induction k with
  | zero => intro i s m _ _ _; simp [loop2PostI, readN, pure2Post]
  | succ k ih =>
    intro i s m ha hb hd
    simp only [Disj] at ha hb hd
    simp only [loop2PostI, readN, pure2Post]
    have hA : readN (write m (c + i) (step s (m (a + i)) (m (b + i))).2) (a + i + 1) k
        = readN m (a + i + 1) k := readN_write _ _ _ _ _ (by omega)
    have hB : readN (write m (c + i) (step s (m (a + i)) (m (b + i))).2) (b + i + 1) k
        = readN m (b + i + 1) k := readN_write _ _ _ _ _ (by omega)
    have hD : readN (write m (c + i) (step s (m (a + i)) (m (b + i))).2) (d + i + 1) k
        = readN m (d + i + 1) k := readN_write _ _ _ _ _ (by omega)
    have hd0 : write m (c + i) (step s (m (a + i)) (m (b + i))).2 (d + i) = m (d + i) :=
      write_other _ _ _ _ (by omega)
    rw [hd0, write_same]
    obtain ⟨h1, h2, h3⟩ := ih (i + 1)
      (post (step s (m (a + i)) (m (b + i))).1 (m (d + i)) (step s (m (a + i)) (m (b + i))).2)
      (write m (c + i) (step s (m (a + i)) (m (b + i))).2)
      (by simp only [Disj]; omega) (by simp only [Disj]; omega) (by simp only [Disj]; omega)
    simp only [← Nat.add_assoc] at h1 h2 h3
    rw [hA, hB, hD] at h1 h2
    refine ⟨?_, h2, ?_⟩
    · rw [h1, h3 (c + i) (by omega), write_same]
    · intro j hj
      rw [h3 j (by omega), write_other _ _ _ _ (by omega)]

theorem loop1PostI_spec (step : σ → Nat → σ × Nat) (post : σ → Nat → Nat → σ)
    (a d c k : Nat) :
    ∀ (i : Nat) (s : σ) (m : Mem),
    (c = a ∨ Disj (c + i) (a + i) k) → Disj (c + i) (d + i) k →
    readN (loop1PostI step post a d c i k s m).1 (c + i) k
        = (pure1Post step post s (readN m (a + i) k) (readN m (d + i) k)).1
    ∧ (loop1PostI step post a d c i k s m).2
        = (pure1Post step post s (readN m (a + i) k) (readN m (d + i) k)).2
    ∧ ∀ j, (j < c + i ∨ c + i + k ≤ j) → (loop1PostI step post a d c i k s m).1 j = m j := by
  induction k with
  | zero => intro i s m _ _; simp [loop1PostI, readN, pure1Post]
  | succ k ih =>
    intro i s m ha hd
    simp only [Disj] at ha hd
    simp only [loop1PostI, readN, pure1Post]
    have hA : readN (write m (c + i) (step s (m (a + i))).2) (a + i + 1) k
        = readN m (a + i + 1) k := readN_write _ _ _ _ _ (by omega)
    have hD : readN (write m (c + i) (step s (m (a + i))).2) (d + i + 1) k
        = readN m (d + i + 1) k := readN_write _ _ _ _ _ (by omega)
    have hd0 : write m (c + i) (step s (m (a + i))).2 (d + i) = m (d + i) :=
      write_other _ _ _ _ (by omega)
    rw [hd0, write_same]
    obtain ⟨h1, h2, h3⟩ := ih (i + 1)
      (post (step s (m (a + i))).1 (m (d + i)) (step s (m (a + i))).2)
      (write m (c + i) (step s (m (a + i))).2)
      (by simp only [Disj]; omega) (by simp only [Disj]; omega)
    simp only [← Nat.add_assoc] at h1 h2 h3
    rw [hA, hD] at h1 h2
    refine ⟨?_, h2, ?_⟩
    · rw [h1, h3 (c + i) (by omega), write_same]
    · intro j hj
      rw [h3 j (by omega), write_other _ _ _ _ (by omega)]

/-! ## ModelAdd / ModelMul loops are the pure computations of the steps -/

theorem zzAddLoop_eq (w : Nat) (a b : List Nat) (carry : Nat) :
    zzAddLoop w a b carry = pure2 (addStep w) carry a b := by
  induction a generalizing b carry with
  | nil => simp [zzAddLoop, pure2]
  | cons x xs ih => cases b with
    | nil => simp [zzAddLoop, pure2]
    | cons y ys => simp only [zzAddLoop, pure2, addStep, ih]

theorem zzSubLoop_eq (w : Nat) (a b : List Nat) (borrow : Nat) :
    zzSubLoop w a b borrow = pure2 (subStep w) borrow a b := by
  induction a generalizing b borrow with
  | nil => simp [zzSubLoop, pure2]
  | cons x xs ih => cases b with
    | nil => simp [zzSubLoop, pure2]
    | cons y ys => simp only [zzSubLoop, pure2, subStep, ih]

theorem zzAdd2Loop_eq (w : Nat) (b a : List Nat) (carry : Nat) :
    zzAdd2Loop w b a carry = pure2 (add2Step w) carry b a := by
  induction b generalizing a carry with
  | nil => simp [zzAdd2Loop, pure2]
  | cons x xs ih => cases a with
    | nil => simp [zzAdd2Loop, pure2]
    | cons y ys => simp only [zzAdd2Loop, pure2, add2Step, ih]

theorem zzSub2Loop_eq (w : Nat) (b a : List Nat) (borrow : Nat) :
    zzSub2Loop w b a borrow = pure2 (sub2Step w) borrow b a := by
  induction b generalizing a borrow with
  | nil => simp [zzSub2Loop, pure2]
  | cons x xs ih => cases a with
    | nil => simp [zzSub2Loop, pure2]
    | cons y ys => simp only [zzSub2Loop, pure2, sub2Step, ih]

theorem zzAddW_eq (w : Nat) (a : List Nat) (x : Nat) :
    zzAddW w a x = pure1 (addWStep w) x a := by
  induction a generalizing x with
  | nil => simp [zzAddW, pure1]
  | cons y ys ih => simp only [zzAddW, pure1, addWStep, ih]

theorem zzSubW_eq (w : Nat) (a : List Nat) (x : Nat) :
    zzSubW w a x = pure1 (subWStep w) x a := by
  induction a generalizing x with
  | nil => simp [zzSubW, pure1]
  | cons y ys ih => simp only [zzSubW, pure1, subWStep, ih]

theorem zzDoubleLoop_eq (w : Nat) (a : List Nat) (carry : Nat) :
    zzDoubleLoop w a carry = pure1 (doubleStep w) carry a := by
  induction a generalizing carry with
  | nil => simp [zzDoubleLoop, pure1]
  | cons y ys ih => simp only [zzDoubleLoop, pure1, doubleStep, ih]

theorem zzSubAndWLoop_eq (w : Nat) (b a : List Nat) (msk borrow : Nat) :
    zzSubAndWLoop w b a msk borrow = pure2 (subAndWStep w msk) borrow b a := by
  induction b generalizing a borrow with
  | nil => simp [zzSubAndWLoop, pure2]
  | cons x xs ih => cases a with
    | nil => simp [zzSubAndWLoop, pure2]
    | cons y ys => simp only [zzSubAndWLoop, pure2, subAndWStep, ih]

/-- zzAddAndWLoop drops the final carry: it is the list component -/
theorem zzAddAndWLoop_eq (w : Nat) (b a : List Nat) (msk carry : Nat) :
    zzAddAndWLoop w b a msk carry = (pure2 (addAndWStep w msk) carry b a).1 := by
  induction b generalizing a carry with
  | nil => simp [zzAddAndWLoop, pure2]
  | cons x xs ih => cases a with
    | nil => simp [zzAddAndWLoop, pure2]
    | cons y ys => simp only [zzAddAndWLoop, pure2, addAndWStep, ih]

theorem zzMulWLoop_eq (w : Nat) (a : List Nat) (x carry : Nat) :
    zzMulWLoop w a x carry = pure1 (mulWStep w x) carry a := by
  induction a generalizing carry with
  | nil => simp [zzMulWLoop, pure1]
  | cons y ys ih => simp only [zzMulWLoop, pure1, mulWStep, ih]

theorem zzAddMulWLoop_eq (w : Nat) (b a : List Nat) (x carry : Nat) :
    zzAddMulWLoop w b a x carry = pure2 (addMulWStep w x) carry b a := by
  induction b generalizing a carry with
  | nil => simp [zzAddMulWLoop, pure2]
  | cons y ys ih => cases a with
    | nil => simp [zzAddMulWLoop, pure2]
    | cons z zs => simp only [zzAddMulWLoop, pure2, addMulWStep, ih]

theorem zzSubMulWLoop_eq (w : Nat) (b a : List Nat) (x borrow : Nat) :
    zzSubMulWLoop w b a x borrow = pure2 (subMulWStep w x) borrow b a := by
  induction b generalizing a borrow with
  | nil => simp [zzSubMulWLoop, pure2]
  | cons y ys ih => cases a with
    | nil => simp [zzSubMulWLoop, pure2]
    | cons z zs => simp only [zzSubMulWLoop, pure2, subMulWStep, ih]

theorem zzDivW_eq (w : Nat) (a : List Nat) (x : Nat) :
    zzDivW w a x = pure1Desc (divWStep w x) 0 a := by
  induction a with
  | nil => simp [zzDivW, pure1Desc]
  | cons y ys ih => simp only [zzDivW, pure1Desc, divWStep, ih]

/-- zzHalfLoop runs over the reversed list (top word first) and returns the reversed result -/
theorem zzHalfLoop_eq (w : Nat) (xs : List Nat) (carry : Nat) :
    (zzHalfLoop w xs carry).reverse = (pure1Desc (halfStep w) carry xs.reverse).1 := by
  induction xs generalizing carry with
  | nil => simp [zzHalfLoop, pure1Desc]
  | cons y ys ih =>
    simp only [zzHalfLoop, List.reverse_cons, pure1Desc_snoc, ih, halfStep]

theorem zzAddMod_safeLoop_eq (w : Nat) (a b md : List Nat) (carry mask : Nat) :
    zzAddMod_safeLoop w a b md carry mask
      = pure2Post (addModStep w) maskPost (carry, mask) a b md := by
  induction a generalizing b md carry mask with
  | nil => simp [zzAddMod_safeLoop, pure2Post]
  | cons x xs ih => cases b with
    | nil => simp [zzAddMod_safeLoop, pure2Post]
    | cons y ys => cases md with
      | nil => simp [zzAddMod_safeLoop, pure2Post]
      | cons z zs => simp only [zzAddMod_safeLoop, pure2Post, addModStep, addStep, maskPost, ih]

theorem zzAddWMod_safeLoop_eq (w : Nat) (a md : List Nat) (x mask : Nat) :
    zzAddWMod_safeLoop w a md x mask
      = pure1Post (addWModStep w) maskPost (x, mask) a md := by
  induction a generalizing md x mask with
  | nil => simp [zzAddWMod_safeLoop, pure1Post]
  | cons y ys ih => cases md with
    | nil => simp [zzAddWMod_safeLoop, pure1Post]
    | cons z zs => simp only [zzAddWMod_safeLoop, pure1Post, addWModStep, addWStep, maskPost, ih]

theorem zzDoubleMod_safeLoop_eq (w : Nat) (a md : List Nat) (carry mask : Nat) :
    zzDoubleMod_safeLoop w a md carry mask
      = pure1Post (doubleModStep w) maskPost (carry, mask) a md := by
  induction a generalizing md carry mask with
  | nil => simp [zzDoubleMod_safeLoop, pure1Post]
  | cons y ys ih => cases md with
    | nil => simp [zzDoubleMod_safeLoop, pure1Post]
    | cons z zs =>
      simp only [zzDoubleMod_safeLoop, pure1Post, doubleModStep, doubleStep, maskPost, ih]

/-! ## lengths of the pure results (for composing two phases) -/

theorem pure2_length (step : σ → Nat → Nat → σ × Nat) (s : σ) (xs ys : List Nat)
    (h : xs.length = ys.length) : (pure2 step s xs ys).1.length = xs.length := by
  induction xs generalizing ys s with
  | nil => simp [pure2]
  | cons x xs ih => cases ys with
    | nil => simp at h
    | cons y ys => simp only [pure2, List.length_cons]; rw [ih _ _ (by simpa using h)]

theorem pure1_notStep (w : Nat) (l : List Nat) :
    (pure1 (notStep w) () l).1 = l.map (wnot w) := by
  induction l with
  | nil => simp [pure1]
  | cons x xs ih => simp only [pure1, notStep, List.map_cons, ih]

theorem pure1_zeroStep (l : List Nat) :
    (pure1 zeroStep () l).1 = l.map (fun _ => 0) := by
  induction l with
  | nil => simp [pure1]
  | cons x xs ih => simp only [pure1, zeroStep, List.map_cons, ih]

/-! ## SAFE(zzHalfMod) -/

theorem halfSafeIter_mem (w a md b mask j carry : Nat) (m : Mem) (hd : md + j + 1 ≠ b + j + 1)
    (x : Nat) :
    (halfSafeIter w a md b mask j carry m).1 x
      = if x = b + j + 1 then
          wshr (wadd w (wadd w (m (a + j + 1)) carry) (mask &&& m (md + j + 1))) 1
        else if x = b + j then
          m (b + j) ||| wshl w (wadd w (wadd w (m (a + j + 1)) carry) (mask &&& m (md + j + 1)) % 2) (w - 1)
        else m x := by
  have h1 : b + j ≠ b + j + 1 := by omega
  have h2 : b + j + 1 ≠ b + j := by omega
  simp only [halfSafeIter, write, if_pos, if_neg hd, if_neg h1, if_neg h2]
  by_cases hx1 : x = b + j + 1
  · simp only [if_pos hx1]
  · simp only [if_neg hx1]

theorem halfSafeIter_carry (w a md b mask j carry : Nat) (m : Mem) (hd : md + j + 1 ≠ b + j + 1) :
    (halfSafeIter w a md b mask j carry m).2
      = (wless01 (wadd w (m (a + j + 1)) carry) carry
        ||| wless01 (wadd w (wadd w (m (a + j + 1)) carry) (mask &&& m (md + j + 1)))
              (mask &&& m (md + j + 1))) := by
  simp only [halfSafeIter, write, if_pos, if_neg hd]

/-- `b[top] |= carry << (B_PER_W - 1)` -/
def halfFinish (w top : Nat) (r : Mem × Nat) : Mem :=
  write r.1 top (r.1 top ||| wshl w r.2 (w - 1))

theorem halfSafeLoopMem_spec (w a md b mask k : Nat) :
    ∀ (j carry : Nat) (m : Mem),
    (b = a ∨ Disj (b + j) (a + j) (k + 1)) → Disj (b + j) (md + j) (k + 1) →
    readN (halfFinish w (b + j + k) (halfSafeLoopMem w a md b mask j k carry m)) (b + j) (k + 1)
      = zzHalfMod_safeLoop w (readN m (a + j + 1) k) (readN m (md + j + 1) k) mask carry (m (b + j))
    ∧ ∀ x, (x < b + j ∨ b + j + k + 1 ≤ x) →
        halfFinish w (b + j + k) (halfSafeLoopMem w a md b mask j k carry m) x = m x := by
  induction k with
  | zero =>
    intro j carry m _ _
    refine ⟨by simp [halfSafeLoopMem, halfFinish, readN, zzHalfMod_safeLoop], ?_⟩
    intro x hx
    simp only [halfSafeLoopMem, halfFinish]
    exact write_other _ _ _ _ (by omega)
  | succ k ih =>
    intro j carry m ha hd
    simp only [Disj] at ha hd
    have hne : md + j + 1 ≠ b + j + 1 := by omega
    have hmem := halfSafeIter_mem w a md b mask j carry m hne
    have hcar := halfSafeIter_carry w a md b mask j carry m hne
    have hA : readN (halfSafeIter w a md b mask j carry m).1 (a + j + 1 + 1) k
        = readN m (a + j + 1 + 1) k :=
      readN_congr _ _ _ _ (fun x h1 h2 => by
        rw [hmem x, if_neg (by omega), if_neg (by omega)])
    have hD : readN (halfSafeIter w a md b mask j carry m).1 (md + j + 1 + 1) k
        = readN m (md + j + 1 + 1) k :=
      readN_congr _ _ _ _ (fun x h1 h2 => by
        rw [hmem x, if_neg (by omega), if_neg (by omega)])
    obtain ⟨h1, h3⟩ := ih (j + 1) (halfSafeIter w a md b mask j carry m).2
      (halfSafeIter w a md b mask j carry m).1
      (by simp only [Disj]; omega) (by simp only [Disj]; omega)
    simp only [← Nat.add_assoc] at h1 h3
    rw [hA, hD, hmem (b + j + 1), if_pos rfl] at h1
    simp only [halfSafeLoopMem]
    rw [show b + j + (k + 1) = b + j + 1 + k by omega]
    refine ⟨?_, ?_⟩
    · rw [readN, h1, h3 (b + j) (by omega), hmem (b + j), if_neg (by omega), if_pos rfl]
      simp only [readN, zzHalfMod_safeLoop, hcar]
    · intro x hx
      rw [h3 x (by omega), hmem x, if_neg (by omega), if_neg (by omega)]

/-! ## re-reading the stored word -/

theorem loop2RRI_eq {τ : Type} (pre : σ → Nat → Nat → τ × Nat) (fin : τ → Nat → σ) (a b c k : Nat) :
    ∀ (i : Nat) (s : σ) (m : Mem),
    loop2RRI pre fin a b c i k s m
      = loop2I (fun s x y => (fin (pre s x y).1 (pre s x y).2, (pre s x y).2)) a b c i k s m := by
  induction k with
  | zero => intro i s m; rfl
  | succ k ih => intro i s m; simp only [loop2RRI, loop2I, write_same, ih]

theorem loop1RRI_eq {τ : Type} (pre : σ → Nat → τ × Nat) (fin : τ → Nat → σ) (a c k : Nat) :
    ∀ (i : Nat) (s : σ) (m : Mem),
    loop1RRI pre fin a c i k s m
      = loop1I (fun s x => (fin (pre s x).1 (pre s x).2, (pre s x).2)) a c i k s m := by
  induction k with
  | zero => intro i s m; rfl
  | succ k ih => intro i s m; simp only [loop1RRI, loop1I, write_same, ih]

end Bee2V.C05.Alias

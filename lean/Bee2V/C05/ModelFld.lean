/-
C05 — irreducibility in the Nat-coded ring GF(2)[x] (bit i = coefficient of x^i,
multiplication = `Spec.clmul`).  Mathlib-free (a definition only).
-/
import Bee2V.C05.Spec
namespace Bee2V.C05

/-- f is irreducible in GF(2)[x]: degree ≥ 1 and every factorisation is trivial
    (the only unit of GF(2)[x] is 1) -/
def NatIrred (f : Nat) : Prop := 1 ≤ f.log2 ∧ ∀ b c, f = Spec.clmul b c → b = 1 ∨ c = 1

end Bee2V.C05

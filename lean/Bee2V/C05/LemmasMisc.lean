/-
C05 — helper lemmas for PropsMisc.lean (wwNAF, zzRandMod, zzAdd3 and the compositions).
-/
import Bee2V.C05.ModelMisc
import Bee2V.C05.LemmasAdd
import Bee2V.C05.LemmasGcd
import Mathlib.Tactic.Ring
import Mathlib.Tactic.Linarith
import Mathlib.Tactic.LinearCombination
namespace Bee2V.C05.Misc
open Bee2V.C05 Bee2V.C05.Add

/-! ## zzAdd3 -/

/-- the tail of zzAdd3: propagate the carry of the low part through the excess words `d` -/
theorem add3_tail (w : Nat) (hw : 0 < w) (r : List Nat × Nat) (d : List Nat) (k S : Nat)
    (h1 : val w r.1 + 2 ^ (w * k) * r.2 = S) (h2 : r.2 ≤ 1) (h3 : Wf w r.1) (h4 : r.1.length = k)
    (hd : Wf w d) (hdne : d ≠ []) :
    val w (r.1 ++ (zzAddW2 w d r.2).1) + 2 ^ (w * (k + d.length)) * (zzAddW2 w d r.2).2
      = S + 2 ^ (w * k) * val w d
    ∧ (zzAddW2 w d r.2).2 ≤ 1
    ∧ Wf w (r.1 ++ (zzAddW2 w d r.2).1)
    ∧ (r.1 ++ (zzAddW2 w d r.2).1).length = k + d.length := by
  have hB := two_le_two_pow hw
  obtain ⟨b1, _, b3, b4, b5⟩ := zzAddW_spec w d r.2 hd (by omega)
  have b3' := b3 hdne
  unfold zzAddW2
  generalize zzAddW w d r.2 = r2 at *
  refine ⟨?_, b3', Wf_append.mpr ⟨h3, b4⟩, by rw [List.length_append, h4, b5]⟩
  rw [val_append, h4, Nat.mul_add, Nat.pow_add]
  have h5 : 2 ^ (w * k) * (val w r2.1 + 2 ^ (w * d.length) * r2.2) = 2 ^ (w * k) * (val w d + r.2) := by
    rw [b1]
  simp only [Nat.mul_add, ← Nat.mul_assoc] at h5
  omega


/-! ## zzRandMod -/

/-- the j-th candidate read off the tape: c octets, little-endian, trimmed to l bits -/
def randCand (l c : Nat) (tape : List Nat) (j : Nat) : Nat :=
  leVal ((tape.drop (j * c)).take c) % 2 ^ l

/-- rejected by the loop condition of zzRandMod (nz = false) / zzRandNZMod (nz = true) -/
def randBad (m : Nat) (nz : Bool) (v : Nat) : Bool := (nz && v == 0) || decide (v ≥ m)

theorem randCand_drop (l c : Nat) (tape : List Nat) (k : Nat) :
    randCand l c (tape.drop c) k = randCand l c tape (k + 1) := by
  unfold randCand
  rw [List.drop_drop]
  congr 4
  ring

theorem randCand_zero (l c : Nat) (tape : List Nat) :
    randCand l c tape 0 = leVal (tape.take c) % 2 ^ l := by
  simp [randCand]

theorem zzRandModLoop_found (m l c : Nat) (nz : Bool) :
    ∀ i tape used j, j ≤ i → (∀ k < j, randBad m nz (randCand l c tape k) = true) →
      randBad m nz (randCand l c tape j) = false →
      zzRandModLoop m l c nz i tape used = (some (randCand l c tape j), used + (j + 1) * c) := by
  intro i
  induction i with
  | zero =>
    intro tape used j hj _ hgood
    obtain rfl : j = 0 := by omega
    rw [randCand_zero] at hgood ⊢
    unfold zzRandModLoop
    unfold randBad at hgood
    simp only [hgood, Bool.false_eq_true, if_false]
    simp
  | succ i ih =>
    intro tape used j hj hbad hgood
    unfold zzRandModLoop
    cases j with
    | zero =>
      rw [randCand_zero] at hgood ⊢
      unfold randBad at hgood
      simp only [hgood, Bool.false_eq_true, if_false]
      simp
    | succ j =>
      have h0 := hbad 0 (by omega)
      rw [randCand_zero] at h0
      unfold randBad at h0
      simp only [h0, if_true]
      rw [ih (tape.drop c) (used + c) j (by omega)
        (fun k hk => by rw [randCand_drop]; exact hbad (k + 1) (by omega))
        (by rw [randCand_drop]; exact hgood), randCand_drop]
      congr 1
      ring

theorem zzRandModLoop_none (m l c : Nat) (nz : Bool) :
    ∀ i tape used, (∀ k ≤ i, randBad m nz (randCand l c tape k) = true) →
      zzRandModLoop m l c nz i tape used = (none, used + (i + 1) * c) := by
  intro i
  induction i with
  | zero =>
    intro tape used hbad
    have h0 := hbad 0 (by omega)
    rw [randCand_zero] at h0
    unfold randBad at h0
    unfold zzRandModLoop
    simp only [h0, if_true]
    simp
  | succ i ih =>
    intro tape used hbad
    have h0 := hbad 0 (by omega)
    rw [randCand_zero] at h0
    unfold randBad at h0
    unfold zzRandModLoop
    simp only [h0, if_true]
    rw [ih (tape.drop c) (used + c)
      (fun k hk => by rw [randCand_drop]; exact hbad (k + 1) (by omega))]
    congr 1
    ring

theorem zzRandModLoop_some (m l c : Nat) (nz : Bool) :
    ∀ i tape used v, (zzRandModLoop m l c nz i tape used).1 = some v → randBad m nz v = false := by
  intro i
  induction i with
  | zero =>
    intro tape used v h
    unfold zzRandModLoop at h
    simp only [] at h
    split at h
    · simp at h
    · simp only [Option.some.injEq] at h
      subst h
      rename_i hb
      unfold randBad
      exact Bool.eq_false_iff.mpr hb
  | succ i ih =>
    intro tape used v h
    unfold zzRandModLoop at h
    simp only [] at h
    split at h
    · exact ih _ _ v h
    · simp only [Option.some.injEq] at h
      subst h
      rename_i hb
      unfold randBad
      exact Bool.eq_false_iff.mpr hb


/-! ## wwNAF -/

theorem and_pow_of_lt {r k : Nat} (h : r < 2 ^ k) : r &&& 2 ^ k = 0 := by
  apply Nat.eq_of_testBit_eq
  intro j
  rw [Nat.testBit_and, Nat.testBit_two_pow, Nat.zero_testBit]
  by_cases hj : k = j
  · subst hj; rw [Nat.testBit_lt_two_pow h]; rfl
  · simp [hj]

theorem and_hi_ne_zero {H x : Nat} {k : Nat} (hH : H = 2 ^ k) (hx : x < 2 * H) :
    (x &&& H ≠ 0) ↔ H ≤ x := by
  subst hH
  have hp : 0 < 2 ^ k := Nat.two_pow_pos k
  by_cases h : 2 ^ k ≤ x
  · obtain ⟨r, rfl⟩ : ∃ r, x = 2 ^ k * 1 + r := ⟨x - 2 ^ k, by omega⟩
    have hr : r < 2 ^ k := by omega
    rw [Nat.two_pow_add_eq_or_of_lt hr, Nat.and_or_distrib_right, Nat.mul_one, Nat.and_self,
      and_pow_of_lt hr, Nat.or_zero]
    constructor
    · intro _; exact Nat.left_le_or
    · intro _; omega
  · rw [and_pow_of_lt (by omega)]
    constructor
    · intro h0; exact absurd rfl h0
    · intro h1; exact absurd h1 h

/-- what one iteration does with the window (k = w - 2, H = 2^(w-1)):
    `window = digit + window'`, window' even and ≤ 2^w, digit zero or odd with |digit| < H;
    in the suffix (`i ≥ a_len`) the digit is ≥ 0 and window' ≤ window -/
theorem nafDigit_spec (W k alen i window : Nat) (hW : k + 2 < W) (hwin : window ≤ 2 ^ (k + 2)) :
    (window : ℤ) = (wwNAFDigit W (k + 2) alen i window).1 + (wwNAFDigit W (k + 2) alen i window).2.2
    ∧ (wwNAFDigit W (k + 2) alen i window).2.2 % 2 = 0
    ∧ (wwNAFDigit W (k + 2) alen i window).2.2 ≤ 2 ^ (k + 2)
    ∧ ((wwNAFDigit W (k + 2) alen i window).1 = 0
        ∨ ((wwNAFDigit W (k + 2) alen i window).1 % 2 = 1
          ∧ -(2 ^ (k + 1) : ℤ) < (wwNAFDigit W (k + 2) alen i window).1
          ∧ (wwNAFDigit W (k + 2) alen i window).1 < 2 ^ (k + 1)))
    ∧ (window % 2 = 0 → (wwNAFDigit W (k + 2) alen i window).1 = 0)
    ∧ (i ≥ alen → 0 ≤ (wwNAFDigit W (k + 2) alen i window).1
        ∧ (wwNAFDigit W (k + 2) alen i window).2.2 ≤ window) := by
  have hpow : 2 ^ (k + 2) = 2 * 2 ^ (k + 1) := by rw [Nat.pow_succ, Nat.mul_comm]
  have hpow1 : 2 ^ (k + 1) = 2 * 2 ^ k := by rw [Nat.pow_succ, Nat.mul_comm]
  have hhalf : 2 ^ (k + 2) / 2 = 2 ^ (k + 1) := by omega
  have hH : 0 < 2 ^ k := Nat.two_pow_pos k
  have hpz : ((2 ^ (k + 1) : Nat) : ℤ) = 2 ^ (k + 1) := by push_cast; ring
  unfold wwNAFDigit
  simp only [hhalf]
  by_cases hodd : window % 2 = 1
  · rw [if_pos hodd]
    have hlt : window < 2 * 2 ^ (k + 1) := by omega
    simp only [and_hi_ne_zero rfl hlt]
    have hmask : ∀ x, x &&& (2 ^ (k + 1) - 1) = x % 2 ^ (k + 1) := fun x =>
      Nat.and_two_pow_sub_one_eq_mod x (k + 1)
    by_cases hhi : 2 ^ (k + 1) ≤ window
    · rw [if_pos hhi]
      have hwm : window % 2 ^ (k + 1) = window - 2 ^ (k + 1) := by
        rw [Nat.mod_eq_sub_mod hhi, Nat.mod_eq_of_lt (by omega)]
      by_cases hsuf : i ≥ alen
      · rw [if_pos hsuf]
        simp only [hmask, hwm]
        refine ⟨by push_cast [Nat.cast_sub hhi]; ring, by omega, by omega, Or.inr ⟨?_, ?_, ?_⟩,
          fun h => by omega, fun _ => ⟨by positivity, hhi⟩⟩
        · have : (window - 2 ^ (k + 1)) % 2 = 1 := by omega
          exact_mod_cast this
        · have : (0 : ℤ) ≤ ((window - 2 ^ (k + 1) : Nat) : ℤ) := by positivity
          have : (0 : ℤ) < 2 ^ (k + 1) := by positivity
          linarith
        · have : window - 2 ^ (k + 1) < 2 ^ (k + 1) := by omega
          exact_mod_cast this
      · rw [if_neg hsuf]
        -- (0 - window) & mask = 2^w - window
        have hmag : wneg W window % 2 ^ (k + 1) = 2 ^ (k + 2) - window := by
          show (2 ^ W - window % 2 ^ W) % 2 ^ W % 2 ^ (k + 1) = _
          obtain ⟨e, rfl⟩ : ∃ e, W = (k + 2) + (e + 1) := ⟨W - (k + 2) - 1, by omega⟩
          have hE : 2 ^ (k + 2 + (e + 1)) = 2 ^ (k + 1) * (2 * 2 ^ (e + 1)) := by
            rw [Nat.pow_add, hpow]; ring
          have hE2 : 2 * 2 ^ (e + 1) = 4 * 2 ^ e := by rw [Nat.pow_succ]; ring
          have hbig : window < 2 ^ (k + 2 + (e + 1)) := by
            rw [hE, hE2]
            have : 2 ^ (k + 1) * 4 ≤ 2 ^ (k + 1) * (4 * 2 ^ e) :=
              Nat.mul_le_mul_left _ (by have := Nat.two_pow_pos e; omega)
            omega
          rw [Nat.mod_eq_of_lt hbig, Nat.mod_eq_of_lt
            (show 2 ^ (k + 2 + (e + 1)) - window < 2 ^ (k + 2 + (e + 1)) by omega)]
          have : 2 ^ (k + 2 + (e + 1)) - window
              = (2 ^ (k + 2) - window) + 2 ^ (k + 1) * (2 * 2 ^ (e + 1) - 2) := by
            have h1 : 2 ^ (k + 1) * 2 = 2 ^ (k + 2) := by omega
            have h2 : 2 ^ (k + 1) * 2 ≤ 2 ^ (k + 1) * (2 * 2 ^ (e + 1)) :=
              Nat.mul_le_mul_left _ (by have := Nat.two_pow_pos (e + 1); omega)
            rw [hE, Nat.mul_sub]
            omega
          rw [this, Nat.add_mul_mod_self_left, Nat.mod_eq_of_lt (by omega)]
        simp only [hmask, hmag]
        have hle : window ≤ 2 ^ (k + 2) := hwin
        refine ⟨by push_cast [Nat.cast_sub hle]; ring, by omega, by omega, Or.inr ⟨?_, ?_, ?_⟩,
          fun h => by omega, fun h => absurd h hsuf⟩
        · have : (2 ^ (k + 2) - window) % 2 = 1 := by omega
          have h2 : (((2 ^ (k + 2) - window : Nat) : ℤ)) % 2 = 1 := by exact_mod_cast this
          omega
        · have : 2 ^ (k + 2) - window < 2 ^ (k + 1) := by omega
          have h2 : ((2 ^ (k + 2) - window : Nat) : ℤ) < 2 ^ (k + 1) := by exact_mod_cast this
          linarith
        · have : (0 : ℤ) ≤ ((2 ^ (k + 2) - window : Nat) : ℤ) := by positivity
          have : (0 : ℤ) < 2 ^ (k + 1) := by positivity
          linarith
    · rw [if_neg hhi]
      dsimp only
      refine ⟨by simp, by simp, by simp, Or.inr ⟨by exact_mod_cast hodd, ?_, ?_⟩,
        fun h => by omega, fun _ => ⟨by positivity, by simp⟩⟩
      · have : (0 : ℤ) ≤ (window : ℤ) := by positivity
        have : (0 : ℤ) < 2 ^ (k + 1) := by positivity
        linarith
      · have : window < 2 ^ (k + 1) := by omega
        exact_mod_cast this
  · rw [if_neg hodd]
    dsimp only
    refine ⟨by simp, by omega, hwin, Or.inl rfl, fun _ => rfl, fun _ => ⟨le_refl _, le_refl _⟩⟩


/-- value of a digit string a_0, a_1, … : Σ a_i 2^i -/
def nafSum : List Int → Int
  | [] => 0
  | d :: ds => d + 2 * nafSum ds

theorem nafSum_append (ds : List Int) (d : Int) :
    nafSum (ds ++ [d]) = nafSum ds + 2 ^ ds.length * d := by
  induction ds with
  | nil => simp [nafSum]
  | cons x xs ih => simp only [List.cons_append, nafSum, ih, List.length_cons, pow_succ]; ring

/-- admissible digit for window w = k + 2: zero, or odd with |d| < 2^(w-1) -/
def NafDigitOK (k : Nat) (d : Int) : Prop :=
  d = 0 ∨ (d % 2 = 1 ∧ -(2 ^ (k + 1) : ℤ) < d ∧ d < 2 ^ (k + 1))

theorem nafLoop_spec (W k a alen : Nat) (hW : k + 2 < W) (halen : a < 2 ^ alen) :
    ∀ (f i window : Nat) (digs : List Int) (naf size : Nat), window ≤ 2 ^ (k + 2) → digs.length + (k + 2) = i →
      size = digs.length →
      nafSum digs + (window : ℤ) * 2 ^ digs.length + ((a / 2 ^ i : Nat) : ℤ) * 2 ^ i = a →
      (∀ d ∈ digs, NafDigitOK k d) →
      (if i < alen then (alen - i) + 2 ^ (k + 2) + 1 else window) < f →
      nafSum (wwNAFLoop W (k + 2) a alen f i window digs naf size).1 = a
      ∧ (∀ d ∈ (wwNAFLoop W (k + 2) a alen f i window digs naf size).1, NafDigitOK k d)
      ∧ (wwNAFLoop W (k + 2) a alen f i window digs naf size).2.2
          = (wwNAFLoop W (k + 2) a alen f i window digs naf size).1.length := by
  intro f
  induction f with
  | zero => intro i window digs naf size _ _ _ _ _ h; exact (Nat.not_lt_zero _ h).elim
  | succ f ih =>
    intro i window digs naf size hwin hlen hsize hinv hok hf
    unfold wwNAFLoop
    by_cases hexit : window = 0 ∧ ¬ i < alen
    · rw [if_pos hexit]
      obtain ⟨hw0, hi⟩ := hexit
      have hq : a / 2 ^ i = 0 := by
        apply Nat.div_eq_of_lt
        exact Nat.lt_of_lt_of_le halen (Nat.pow_le_pow_right (by omega) (by omega))
      rw [hw0, hq] at hinv
      refine ⟨by simpa using hinv, hok, hsize⟩
    · rw [if_neg hexit]
      obtain ⟨s1, s2, s3, s4, _, s6⟩ := nafDigit_spec W k alen i window hW hwin
      generalize wwNAFDigit W (k + 2) alen i window = r at *
      have hpow : 2 ^ (k + 2) = 2 * 2 ^ (k + 1) := by rw [Nat.pow_succ, Nat.mul_comm]
      have hhalf : 2 ^ (k + 2) / 2 = 2 ^ (k + 1) := by omega
      -- the bit that enters the window
      have hbit : (if i < alen then 2 ^ (k + 2) / 2 * (a / 2 ^ i % 2) else 0)
          = 2 ^ (k + 1) * (a / 2 ^ i % 2) := by
        by_cases h : i < alen
        · rw [if_pos h, hhalf]
        · rw [if_neg h]
          have hq : a / 2 ^ i = 0 := by
            apply Nat.div_eq_of_lt
            exact Nat.lt_of_lt_of_le halen (Nat.pow_le_pow_right (by omega) (by omega))
          rw [hq]; simp
      simp only []
      rw [hbit]
      apply ih
      · -- window' ≤ 2^w
        have : a / 2 ^ i % 2 ≤ 1 := by omega
        have e := mul01 (2 ^ (k + 1)) this
        split_ifs at e <;> omega
      · rw [List.length_append, List.length_singleton]; omega
      · rw [List.length_append, List.length_singleton, hsize]
      · -- the invariant
        rw [nafSum_append, List.length_append, List.length_singleton]
        have hq2 : a / 2 ^ (i + 1) = a / 2 ^ i / 2 := by
          rw [Nat.pow_succ, Nat.div_div_eq_div_mul]
        have hdm := Nat.div_add_mod (a / 2 ^ i) 2
        rw [← hq2] at hdm
        obtain ⟨wh, hwh⟩ : ∃ wh, r.2.2 = 2 * wh := ⟨r.2.2 / 2, by omega⟩
        have hwh2 : r.2.2 / 2 = wh := by omega
        rw [hwh2]
        have hi2 : (2 : ℤ) ^ i = 2 ^ (k + 1) * 2 * 2 ^ digs.length := by
          rw [← hlen, pow_add, show k + 2 = (k + 1) + 1 from rfl, pow_succ]; ring
        have hdmZ : (2 : ℤ) * ((a / 2 ^ (i + 1) : Nat) : ℤ) + ((a / 2 ^ i % 2 : Nat) : ℤ)
            = ((a / 2 ^ i : Nat) : ℤ) := by exact_mod_cast hdm
        have hwhZ : ((r.2.2 : Nat) : ℤ) = 2 * wh := by exact_mod_cast hwh
        rw [hwhZ] at s1
        generalize a / 2 ^ (i + 1) = q' at *
        generalize a / 2 ^ i % 2 = bit at *
        generalize a / 2 ^ i = q at *
        push_cast
        rw [hi2] at hinv
        rw [pow_succ 2 i, hi2]
        linear_combination hinv - (2 : ℤ) ^ digs.length * s1
          + (2 ^ (k + 1) * 2 * 2 ^ digs.length : ℤ) * hdmZ
      · intro d hd
        rcases List.mem_append.mp hd with h | h
        · exact hok d h
        · rw [List.mem_singleton.mp h]; exact s4
      · -- the measure decreases
        have hb1 : a / 2 ^ i % 2 ≤ 1 := by omega
        have e := mul01 (2 ^ (k + 1)) hb1
        by_cases h : i < alen
        · rw [if_pos h] at hf
          by_cases h2 : i + 1 < alen
          · rw [if_pos h2]; omega
          · rw [if_neg h2]; split_ifs at e <;> omega
        · rw [if_neg h] at hf
          rw [if_neg (by omega)]
          have hq : a / 2 ^ i = 0 := by
            apply Nat.div_eq_of_lt
            exact Nat.lt_of_lt_of_le halen (Nat.pow_le_pow_right (by omega) (by omega))
          rw [hq] at e ⊢
          have := (s6 (by omega)).2
          have hwpos : 0 < window := by
            rcases Nat.eq_zero_or_pos window with h0 | h0
            · exact absurd ⟨h0, h⟩ hexit
            · exact h0
          omega


/-! ### wwNAF: the code word -/

theorem xor_hi {j mag : Nat} (hm : mag < 2 ^ j) : mag ^^^ 2 ^ j = mag + 2 ^ j := by
  have h := Nat.two_pow_add_eq_or_of_lt hm 1
  rw [Nat.mul_one] at h
  rw [Nat.add_comm, h]
  apply Nat.eq_of_testBit_eq
  intro i
  rw [Nat.testBit_xor, Nat.testBit_or, Nat.testBit_two_pow]
  by_cases hj : j = i
  · subst hj; simp [Nat.testBit_lt_two_pow hm]
  · simp [hj]

/-- decoding of one non-zero symbol (w bits, sign ‖ magnitude) -/
def nafSym (w sym : Nat) : Int :=
  if sym / 2 ^ (w - 1) = 1 then -((sym % 2 ^ (w - 1) : Nat) : Int) else (sym : Int)

/-- the code of a non-zero digit: w bits, odd, decodes to the digit -/
theorem nafDigit_code (W k alen i window : Nat) (hW : k + 2 < W) (hwin : window ≤ 2 ^ (k + 2))
    (hodd : window % 2 = 1) :
    (wwNAFDigit W (k + 2) alen i window).2.1 < 2 ^ (k + 2)
    ∧ (wwNAFDigit W (k + 2) alen i window).2.1 % 2 = 1
    ∧ nafSym (k + 2) (wwNAFDigit W (k + 2) alen i window).2.1 = (wwNAFDigit W (k + 2) alen i window).1
    ∧ (wwNAFDigit W (k + 2) alen i window).1 % 2 = 1 := by
  have hpow : 2 ^ (k + 2) = 2 * 2 ^ (k + 1) := by rw [Nat.pow_succ, Nat.mul_comm]
  have hpow1 : 2 ^ (k + 1) = 2 * 2 ^ k := by rw [Nat.pow_succ, Nat.mul_comm]
  have hhalf : 2 ^ (k + 2) / 2 = 2 ^ (k + 1) := by omega
  have hH : 0 < 2 ^ k := Nat.two_pow_pos k
  have hk1 : k + 2 - 1 = k + 1 := by omega
  unfold wwNAFDigit nafSym
  simp only [hhalf, hk1]
  rw [if_pos hodd]
  have hlt : window < 2 * 2 ^ (k + 1) := by omega
  simp only [and_hi_ne_zero rfl hlt]
  have hmask : ∀ x, x &&& (2 ^ (k + 1) - 1) = x % 2 ^ (k + 1) := fun x =>
    Nat.and_two_pow_sub_one_eq_mod x (k + 1)
  by_cases hhi : 2 ^ (k + 1) ≤ window
  · rw [if_pos hhi]
    have hwm : window % 2 ^ (k + 1) = window - 2 ^ (k + 1) := by
      rw [Nat.mod_eq_sub_mod hhi, Nat.mod_eq_of_lt (by omega)]
    by_cases hsuf : i ≥ alen
    · rw [if_pos hsuf]
      simp only [hmask, hwm]
      have hlt2 : window - 2 ^ (k + 1) < 2 ^ (k + 1) := by omega
      have hd0 : (window - 2 ^ (k + 1)) / 2 ^ (k + 1) = 0 := Nat.div_eq_of_lt hlt2
      refine ⟨by omega, by omega, by rw [hd0]; simp, ?_⟩
      have : (window - 2 ^ (k + 1)) % 2 = 1 := by omega
      exact_mod_cast this
    · rw [if_neg hsuf]
      -- magnitude = 2^w - window (as in nafDigit_spec)
      have hs := nafDigit_spec W k alen i window hW hwin
      unfold wwNAFDigit at hs
      simp only [hhalf, if_pos hodd, and_hi_ne_zero rfl hlt, if_pos hhi, if_neg hsuf, hmask] at hs
      obtain ⟨s1, _, _, _, _, _⟩ := hs
      simp only [hmask]
      generalize hmag : wneg W window % 2 ^ (k + 1) = mag at *
      have hmlt : mag < 2 ^ (k + 1) := by rw [← hmag]; exact Nat.mod_lt _ (by omega)
      have hmval : mag = 2 ^ (k + 2) - window := by
        have : (window : ℤ) = -(mag : ℤ) + ((2 ^ (k + 2) : Nat) : ℤ) := s1
        omega
      rw [xor_hi hmlt]
      have hd1 : (mag + 2 ^ (k + 1)) / 2 ^ (k + 1) = 1 := by
        rw [Nat.add_div_right _ (by omega), Nat.div_eq_of_lt hmlt]
      have hm1 : (mag + 2 ^ (k + 1)) % 2 ^ (k + 1) = mag := by
        rw [Nat.add_mod_right, Nat.mod_eq_of_lt hmlt]
      refine ⟨by omega, by omega, by rw [hd1, hm1]; simp, ?_⟩
      have : mag % 2 = 1 := by omega
      have h2 : ((mag : ℤ)) % 2 = 1 := by exact_mod_cast this
      omega
  · rw [if_neg hhi]
    have hd0 : window / 2 ^ (k + 1) = 0 := Nat.div_eq_of_lt (by omega)
    dsimp only
    refine ⟨by omega, hodd, by rw [hd0]; simp, by exact_mod_cast hodd⟩

theorem nafDecode_zero (w s naf : Nat) : nafDecode w (s + 1) (naf <<< 1) = 0 :: nafDecode w s naf := by
  rw [Nat.shiftLeft_eq, Nat.pow_one]
  conv_lhs => unfold nafDecode
  rw [if_pos (by omega), Nat.mul_div_cancel _ (by omega)]

theorem nafDecode_sym (w s naf code : Nat) (hw : 0 < w) (hc : code < 2 ^ w) (hodd : code % 2 = 1) :
    nafDecode w (s + 1) ((naf <<< w) ||| code) = nafSym w code :: nafDecode w s naf := by
  rw [← Nat.shiftLeft_add_eq_or_of_lt hc, Nat.shiftLeft_eq]
  obtain ⟨j, rfl⟩ : ∃ j, w = j + 1 := ⟨w - 1, by omega⟩
  have hp : 2 ^ (j + 1) = 2 * 2 ^ j := by rw [Nat.pow_succ, Nat.mul_comm]
  have hodd2 : (naf * 2 ^ (j + 1) + code) % 2 = 1 := by
    have : naf * 2 ^ (j + 1) = 2 * (naf * 2 ^ j) := by rw [hp]; ring
    omega
  conv_lhs => unfold nafDecode
  rw [if_neg (by omega)]
  have hm : (naf * 2 ^ (j + 1) + code) % 2 ^ (j + 1) = code := by
    rw [Nat.mul_comm, Nat.mul_add_mod, Nat.mod_eq_of_lt hc]
  have hd : (naf * 2 ^ (j + 1) + code) / 2 ^ (j + 1) = naf := by
    rw [Nat.mul_comm, Nat.mul_add_div (by omega), Nat.div_eq_of_lt hc, Nat.add_zero]
  simp only [hm, hd]
  rfl

/-- loop invariant for the code word: decoding `size` symbols gives the digits, last first -/
theorem nafLoop_decode (W k a alen : Nat) (hW : k + 2 < W) :
    ∀ (f i window : Nat) (digs : List Int) (naf size : Nat), window ≤ 2 ^ (k + 2) →
      size = digs.length → nafDecode (k + 2) size naf = digs.reverse →
      nafDecode (k + 2) (wwNAFLoop W (k + 2) a alen f i window digs naf size).2.2
          (wwNAFLoop W (k + 2) a alen f i window digs naf size).2.1
        = (wwNAFLoop W (k + 2) a alen f i window digs naf size).1.reverse := by
  intro f
  induction f with
  | zero => intro i window digs naf size _ _ h; simpa [wwNAFLoop] using h
  | succ f ih =>
    intro i window digs naf size hwin hsize hdec
    unfold wwNAFLoop
    by_cases hexit : window = 0 ∧ ¬ i < alen
    · rw [if_pos hexit]; exact hdec
    · rw [if_neg hexit]
      obtain ⟨_, s2, s3, _, s5, _⟩ := nafDigit_spec W k alen i window hW hwin
      have hpow : 2 ^ (k + 2) = 2 * 2 ^ (k + 1) := by rw [Nat.pow_succ, Nat.mul_comm]
      have hb1 : a / 2 ^ i % 2 ≤ 1 := by omega
      have e := mul01 (2 ^ (k + 1)) hb1
      simp only []
      apply ih
      · have hhalf : 2 ^ (k + 2) / 2 = 2 ^ (k + 1) := by omega
        rw [hhalf]
        split_ifs <;> split_ifs at e <;> omega
      · rw [List.length_append, List.length_singleton, hsize]
      · rw [List.reverse_append, List.reverse_singleton, List.singleton_append]
        by_cases hodd : window % 2 = 1
        · obtain ⟨c1, c2, c3, _⟩ := nafDigit_code W k alen i window hW hwin hodd
          rw [if_pos hodd, nafDecode_sym _ _ _ _ (by omega) c1 c2, c3, hdec]
        · rw [if_neg hodd, nafDecode_zero, s5 (by omega), hdec]


/-- loop invariants for the length bound and the non-zero top digit -/
theorem nafLoop_shape (W k a alen : Nat) (hW : k + 2 < W) (halen : a < 2 ^ alen)
    (hpos : 0 < alen) (htop : a / 2 ^ (alen - 1) % 2 = 1) :
    ∀ (f i window : Nat) (digs : List Int) (naf size : Nat), window ≤ 2 ^ (k + 2) →
      size + (k + 2) = i → size = digs.length →
      (alen ≤ i → window * 2 ^ (i - alen) ≤ 2 ^ (k + 2)) →
      i ≤ alen + (k + 2) + 1 →
      ((window = 0 ∧ ¬ i < alen) → ∃ d, digs.getLast? = some d ∧ d ≠ 0) →
      (if i < alen then (alen - i) + 2 ^ (k + 2) + 1 else window) < f →
      (wwNAFLoop W (k + 2) a alen f i window digs naf size).2.2 ≤ alen + 1
      ∧ ∃ d, (wwNAFLoop W (k + 2) a alen f i window digs naf size).1.getLast? = some d ∧ d ≠ 0 := by
  intro f
  induction f with
  | zero => intro i window digs naf size _ _ _ _ _ _ h; exact (Nat.not_lt_zero _ h).elim
  | succ f ih =>
    intro i window digs naf size hwin hlen hsize hJ hK hP hf
    unfold wwNAFLoop
    by_cases hexit : window = 0 ∧ ¬ i < alen
    · rw [if_pos hexit]
      exact ⟨by dsimp only; omega, hP hexit⟩
    · rw [if_neg hexit]
      obtain ⟨s1, s2, s3, s4, s5, s6⟩ := nafDigit_spec W k alen i window hW hwin
      have hcode := nafDigit_code W k alen i window hW hwin
      generalize wwNAFDigit W (k + 2) alen i window = r at *
      have hpow : 2 ^ (k + 2) = 2 * 2 ^ (k + 1) := by rw [Nat.pow_succ, Nat.mul_comm]
      have hhalf : 2 ^ (k + 2) / 2 = 2 ^ (k + 1) := by omega
      have hq0 : ¬ i < alen → a / 2 ^ i = 0 := fun h => by
        apply Nat.div_eq_of_lt
        exact Nat.lt_of_lt_of_le halen (Nat.pow_le_pow_right (by omega) (by omega))
      have hbit : (if i < alen then 2 ^ (k + 2) / 2 * (a / 2 ^ i % 2) else 0)
          = 2 ^ (k + 1) * (a / 2 ^ i % 2) := by
        by_cases h : i < alen
        · rw [if_pos h, hhalf]
        · rw [if_neg h, hq0 h]; simp
      have hb1 : a / 2 ^ i % 2 ≤ 1 := by omega
      have e := mul01 (2 ^ (k + 1)) hb1
      simp only []
      rw [hbit]
      -- i ≤ alen + w in a running iteration
      have hile : i ≤ alen + (k + 2) := by
        by_cases h : i < alen
        · omega
        · have hw1 : 1 ≤ window := by
            rcases Nat.eq_zero_or_pos window with h0 | h0
            · exact absurd ⟨h0, h⟩ hexit
            · exact h0
          have hj := hJ (by omega)
          have h2 : 1 * 2 ^ (i - alen) ≤ window * 2 ^ (i - alen) := Nat.mul_le_mul_right _ hw1
          have h3 : 2 ^ (i - alen) ≤ 2 ^ (k + 2) := by omega
          have := (Nat.pow_le_pow_iff_right (by omega : 1 < 2)).mp h3
          omega
      apply ih
      · split_ifs at e <;> omega
      · omega
      · rw [List.length_append, List.length_singleton, hsize]
      · -- J
        intro hge
        by_cases h : i < alen
        · have : i + 1 - alen = 0 := by omega
          rw [this, Nat.pow_zero, Nat.mul_one]
          split_ifs at e <;> omega
        · rw [hq0 h] at e ⊢
          have hj := hJ (by omega)
          have hwle := (s6 (by omega)).2
          have hexp : i + 1 - alen = (i - alen) + 1 := by omega
          rw [hexp]
          simp only [Nat.zero_mod, Nat.mul_zero, Nat.add_zero]
          have h1 : r.2.2 / 2 * (2 ^ (i - alen) * 2) ≤ r.2.2 * 2 ^ (i - alen) := by
            have : r.2.2 / 2 * 2 ≤ r.2.2 := Nat.div_mul_le_self _ _
            calc r.2.2 / 2 * (2 ^ (i - alen) * 2) = (r.2.2 / 2 * 2) * 2 ^ (i - alen) := by ring
              _ ≤ r.2.2 * 2 ^ (i - alen) := Nat.mul_le_mul_right _ this
          have h2 : r.2.2 * 2 ^ (i - alen) ≤ window * 2 ^ (i - alen) := Nat.mul_le_mul_right _ hwle
          have hp2 : 2 ^ (i - alen + 1) = 2 ^ (i - alen) * 2 := by rw [Nat.pow_succ]
          rw [hp2]
          omega
      · omega
      · -- P
        rintro ⟨hw0, hi1⟩
        refine ⟨r.1, by simp, ?_⟩
        intro hd0
        have hev : window % 2 = 0 := by
          by_contra hodd
          have := (hcode (by omega)).2.2.2
          rw [hd0] at this
          omega
        have hwin2 : r.2.2 = window := by
          rw [hd0] at s1; omega
        rw [hwin2] at hw0
        have hwz : window = 0 := by omega
        have hlt : i < alen := by
          by_contra h; exact hexit ⟨hwz, h⟩
        have hi : i = alen - 1 := by omega
        rw [hi, htop] at hw0
        have := Nat.two_pow_pos (k + 1)
        omega
      · -- measure
        by_cases h : i < alen
        · rw [if_pos h] at hf
          by_cases h2 : i + 1 < alen
          · rw [if_pos h2]; omega
          · rw [if_neg h2]; split_ifs at e <;> omega
        · rw [if_neg h] at hf
          rw [if_neg (by omega)]
          rw [hq0 h] at e ⊢
          have := (s6 (by omega)).2
          have hwpos : 0 < window := by
            rcases Nat.eq_zero_or_pos window with h0 | h0
            · exact absurd ⟨h0, h⟩ hexit
            · exact h0
          omega


/-! ### wwNAF: non-adjacency -/

/-- scanning state: number of positions since the last non-zero digit (none: no non-zero digit yet) -/
def gapState : Option Nat → List Int → Option Nat
  | g, [] => g
  | g, d :: ds => if d = 0 then gapState (g.map (· + 1)) ds else gapState (some 1) ds

/-- every non-zero digit is at least w positions after the previous non-zero digit -/
def nafGapStrict (w : Nat) : Option Nat → List Int → Prop
  | _, [] => True
  | g, d :: ds =>
    if d = 0 then nafGapStrict w (g.map (· + 1)) ds
    else (match g with | none => True | some t => w ≤ t) ∧ nafGapStrict w (some 1) ds

/-- what wwNAF guarantees: consecutive non-zero digits are at least w positions apart, except
    that the LAST digit may be only w - 1 positions after the previous non-zero digit -/
def nafGapOK (w : Nat) : Option Nat → List Int → Prop
  | _, [] => True
  | g, d :: ds =>
    if d = 0 then nafGapOK w (g.map (· + 1)) ds
    else (match g with | none => True | some t => w ≤ t ∨ (t + 1 = w ∧ ds = [])) ∧ nafGapOK w (some 1) ds

theorem gapState_snoc (g : Option Nat) (ds : List Int) (d : Int) :
    gapState g (ds ++ [d]) = if d = 0 then (gapState g ds).map (· + 1) else some 1 := by
  induction ds generalizing g with
  | nil => simp [gapState]
  | cons x xs ih => simp only [List.cons_append, gapState]; split <;> exact ih _

theorem nafGapStrict_snoc (w : Nat) (g : Option Nat) (ds : List Int) (d : Int) :
    nafGapStrict w g (ds ++ [d]) ↔ nafGapStrict w g ds
      ∧ (d = 0 ∨ match gapState g ds with | none => True | some t => w ≤ t) := by
  induction ds generalizing g with
  | nil =>
    simp only [List.nil_append, nafGapStrict, gapState]
    by_cases h : d = 0 <;> simp [h]
  | cons x xs ih =>
    simp only [List.cons_append, nafGapStrict, gapState]
    split
    · exact ih _
    · rw [ih]; tauto

theorem nafGapOK_snoc (w : Nat) (g : Option Nat) (ds : List Int) (d : Int)
    (hs : nafGapStrict w g ds)
    (hd : d = 0 ∨ match gapState g ds with | none => True | some t => w ≤ t ∨ t + 1 = w) :
    nafGapOK w g (ds ++ [d]) := by
  induction ds generalizing g with
  | nil =>
    simp only [List.nil_append, nafGapOK, gapState] at *
    by_cases h : d = 0
    · simp [h]
    · simp only [h, false_or, if_false, and_true] at *
      cases g with
      | none => trivial
      | some t => simpa using hd
  | cons x xs ih =>
    simp only [List.cons_append, nafGapOK, nafGapStrict, gapState] at *
    split
    · rename_i hx; rw [if_pos hx] at hs hd; exact ih _ hs hd
    · rename_i hx
      rw [if_neg hx] at hs hd
      refine ⟨?_, ih _ hs.2 hd⟩
      cases g with
      | none => trivial
      | some t => exact Or.inl hs.1

theorem nafGapOK_of_strict (w : Nat) (g : Option Nat) (ds : List Int) (hs : nafGapStrict w g ds) :
    nafGapOK w g ds := by
  induction ds generalizing g with
  | nil => trivial
  | cons x xs ih =>
    simp only [nafGapOK, nafGapStrict] at *
    split
    · rename_i hx; rw [if_pos hx] at hs; exact ih _ hs
    · rename_i hx
      rw [if_neg hx] at hs
      refine ⟨?_, ih _ hs.2⟩
      cases g with
      | none => trivial
      | some t => exact Or.inl hs.1


theorem odd_pow_dvd {j s x : Nat} (hx : x % 2 = 1) (h : 2 ^ j ∣ x * 2 ^ s) : j ≤ s := by
  have hc : Nat.Coprime (2 ^ j) x := Nat.Coprime.pow_left j (Gcd.coprime_two_of_odd hx)
  have := Nat.Coprime.dvd_of_dvd_mul_left hc h
  exact (Nat.pow_dvd_pow_iff_le_right (by omega)).mp this

/-- the window left by a non-zero digit -/
theorem nafDigit_win (W k alen i window : Nat) (hwin : window ≤ 2 ^ (k + 2))
    (hodd : window % 2 = 1) :
    ((wwNAFDigit W (k + 2) alen i window).2.2 = 0
      ∨ (wwNAFDigit W (k + 2) alen i window).2.2 = 2 ^ (k + 2)
      ∨ ((wwNAFDigit W (k + 2) alen i window).2.2 = 2 ^ (k + 1) ∧ alen ≤ i))
    ∧ (window < 2 ^ (k + 1) → (wwNAFDigit W (k + 2) alen i window).2.2 = 0) := by
  have hpow : 2 ^ (k + 2) = 2 * 2 ^ (k + 1) := by rw [Nat.pow_succ, Nat.mul_comm]
  have hhalf : 2 ^ (k + 2) / 2 = 2 ^ (k + 1) := by omega
  unfold wwNAFDigit
  simp only [hhalf]
  rw [if_pos hodd]
  have hlt : window < 2 * 2 ^ (k + 1) := by omega
  simp only [and_hi_ne_zero rfl hlt]
  by_cases hhi : 2 ^ (k + 1) ≤ window
  · rw [if_pos hhi]
    by_cases hsuf : i ≥ alen
    · rw [if_pos hsuf]; exact ⟨Or.inr (Or.inr ⟨rfl, hsuf⟩), fun h => by omega⟩
    · rw [if_neg hsuf]; exact ⟨Or.inr (Or.inl rfl), fun h => by omega⟩
  · rw [if_neg hhi]; exact ⟨Or.inl rfl, fun _ => rfl⟩

theorem nafLoop_exit (W w a alen f i : Nat) (digs : List Int) (naf size : Nat) (hi : ¬ i < alen) :
    wwNAFLoop W w a alen f i 0 digs naf size = (digs, naf, size) := by
  cases f with
  | zero => rfl
  | succ f => unfold wwNAFLoop; rw [if_pos ⟨rfl, hi⟩]

theorem nafLoop_gap (W k a alen : Nat) (hW : k + 2 < W) (halen : a < 2 ^ alen) :
    ∀ (f i window : Nat) (digs : List Int) (naf size : Nat), window ≤ 2 ^ (k + 2) →
      nafGapStrict (k + 2) none digs →
      (match gapState none digs with
        | none => True
        | some t => 1 ≤ t ∧ ((2 ^ (k + 1) ∣ window * 2 ^ (t - 1))
            ∨ (alen ≤ i ∧ 2 ^ k ∣ window * 2 ^ (t - 1) ∧ window ≤ 2 ^ k))) →
      nafGapOK (k + 2) none (wwNAFLoop W (k + 2) a alen f i window digs naf size).1 := by
  intro f
  induction f with
  | zero => intro i window digs naf size _ hs _; exact nafGapOK_of_strict _ _ _ hs
  | succ f ih =>
    intro i window digs naf size hwin hs hmode
    unfold wwNAFLoop
    by_cases hexit : window = 0 ∧ ¬ i < alen
    · rw [if_pos hexit]; exact nafGapOK_of_strict _ _ _ hs
    · rw [if_neg hexit]
      obtain ⟨s1, s2, s3, _, s5, _⟩ := nafDigit_spec W k alen i window hW hwin
      have hcode := nafDigit_code W k alen i window hW hwin
      have hwinr := nafDigit_win W k alen i window hwin
      generalize wwNAFDigit W (k + 2) alen i window = r at *
      have hpow : 2 ^ (k + 2) = 2 * 2 ^ (k + 1) := by rw [Nat.pow_succ, Nat.mul_comm]
      have hpow1 : 2 ^ (k + 1) = 2 * 2 ^ k := by rw [Nat.pow_succ, Nat.mul_comm]
      have hhalf : 2 ^ (k + 2) / 2 = 2 ^ (k + 1) := by omega
      have hq0 : ¬ i < alen → a / 2 ^ i = 0 := fun h => by
        apply Nat.div_eq_of_lt
        exact Nat.lt_of_lt_of_le halen (Nat.pow_le_pow_right (by omega) (by omega))
      -- the entering bit is a multiple of H, and 0 once i ≥ alen
      obtain ⟨X, hX, hX0⟩ : ∃ X, (if i < alen then 2 ^ (k + 2) / 2 * (a / 2 ^ i % 2) else 0)
          = 2 ^ (k + 1) * X ∧ (alen ≤ i → X = 0) := by
        by_cases h : i < alen
        · exact ⟨a / 2 ^ i % 2, by rw [if_pos h, hhalf], fun h' => by omega⟩
        · exact ⟨0, by rw [if_neg h]; simp, fun _ => rfl⟩
      have hXle : 2 ^ (k + 1) * X ≤ 2 ^ (k + 1) := by
        rw [← hX]
        split_ifs
        · rw [hhalf]
          have hb : a / 2 ^ i % 2 ≤ 1 := by omega
          calc 2 ^ (k + 1) * (a / 2 ^ i % 2) ≤ 2 ^ (k + 1) * 1 := Nat.mul_le_mul_left _ hb
            _ = 2 ^ (k + 1) := Nat.mul_one _
        · omega
      simp only []
      rw [hX]
      by_cases hodd : window % 2 = 1
      · -- non-zero digit
        obtain ⟨_, _, _, hdodd⟩ := hcode hodd
        obtain ⟨hw3, hwsmall⟩ := hwinr hodd
        have hdne : r.1 ≠ 0 := by intro h; rw [h] at hdodd; omega
        -- the gap before this digit
        have hgap : match gapState none digs with
            | none => True
            | some t => (k + 2 ≤ t) ∨ (t + 1 = k + 2 ∧ alen ≤ i ∧ window ≤ 2 ^ k) := by
          cases hg : gapState none digs with
          | none => trivial
          | some t =>
            rw [hg] at hmode
            obtain ⟨ht1, hm | ⟨hm1, hm2, hm3⟩⟩ := hmode
            · have := odd_pow_dvd hodd hm; left; omega
            · have := odd_pow_dvd hodd hm2
              by_cases h : k + 2 ≤ t
              · left; exact h
              · right; exact ⟨by omega, hm1, hm3⟩
        -- suffix end: the loop stops right after this digit
        by_cases hfin : ∃ t, gapState none digs = some t ∧ ¬ (k + 2 ≤ t)
        · obtain ⟨t, hg, hnt⟩ := hfin
          rw [hg] at hgap
          obtain h | ⟨h1, h2, h3⟩ := hgap
          · exact absurd h hnt
          · have hw0 : r.2.2 = 0 := hwsmall (by omega)
            rw [hw0, hX0 h2]
            simp only [Nat.zero_div, Nat.mul_zero, Nat.add_zero]
            rw [nafLoop_exit _ _ _ _ _ _ _ _ _ (by omega)]
            apply nafGapOK_snoc _ _ _ _ hs
            right; rw [hg]; right; exact h1
        · -- normal: strict gap, continue
          have hstrict : nafGapStrict (k + 2) none (digs ++ [r.1]) := by
            rw [nafGapStrict_snoc]
            refine ⟨hs, Or.inr ?_⟩
            cases hg : gapState none digs with
            | none => trivial
            | some t =>
              by_contra hnt
              exact hfin ⟨t, hg, hnt⟩
          apply ih _ _ _ _ _ (by omega) hstrict
          rw [gapState_snoc, if_neg hdne]
          refine ⟨le_refl _, ?_⟩
          simp only [Nat.sub_self, Nat.pow_zero, Nat.mul_one]
          rcases hw3 with h | h | ⟨h, hsuf⟩
          · left; rw [h]; simp
          · left; rw [h, hhalf]
            exact ⟨1 + X, by ring⟩
          · right
            rw [h, hX0 hsuf]
            have : 2 ^ (k + 1) / 2 = 2 ^ k := by omega
            simp only [Nat.mul_zero, Nat.add_zero, this]
            exact ⟨by omega, dvd_refl _, le_refl _⟩
      · -- zero digit
        have hd0 := s5 (by omega)
        have hwr : r.2.2 = window := by rw [hd0] at s1; omega
        have hstrict : nafGapStrict (k + 2) none (digs ++ [r.1]) := by
          rw [nafGapStrict_snoc]; exact ⟨hs, Or.inl hd0⟩
        apply ih _ _ _ _ _ (by rw [hwr]; omega) hstrict
        rw [gapState_snoc, if_pos hd0, hwr]
        cases hg : gapState none digs with
        | none => trivial
        | some t =>
          rw [hg] at hmode
          obtain ⟨ht1, hm⟩ := hmode
          simp only [Option.map_some, Nat.add_sub_cancel]
          obtain ⟨wh, rfl⟩ : ∃ wh, window = 2 * wh := ⟨window / 2, by omega⟩
          have hwh : 2 * wh / 2 = wh := by omega
          obtain ⟨t', rfl⟩ : ∃ t', t = t' + 1 := ⟨t - 1, by omega⟩
          simp only [Nat.add_sub_cancel] at hm
          rw [hwh]
          have e1 : (wh + 2 ^ (k + 1) * X) * 2 ^ (t' + 1)
              = 2 * wh * 2 ^ t' + 2 ^ (k + 1) * (X * 2 ^ (t' + 1)) := by
            rw [Nat.pow_succ]; ring
          refine ⟨by omega, ?_⟩
          rcases hm with hm | ⟨hm1, hm2, hm3⟩
          · left
            rw [e1]
            exact Nat.dvd_add hm (Nat.dvd_mul_right _ _)
          · right
            rw [hX0 hm1]
            simp only [Nat.mul_zero, Nat.add_zero]
            refine ⟨by omega, ?_, by omega⟩
            have : wh * 2 ^ (t' + 1) = 2 * wh * 2 ^ t' := by rw [Nat.pow_succ]; ring
            rw [this]; exact hm2

end Bee2V.C05.Misc

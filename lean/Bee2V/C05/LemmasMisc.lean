/-
C05 — helper lemmas for PropsMisc.lean (wwNAF, zzRandMod, zzAdd3 and the compositions).
-/
import Bee2V.C05.ModelMisc
import Bee2V.C05.LemmasAdd
import Bee2V.C05.LemmasGcd
import Mathlib.Tactic.Ring
import Mathlib.Tactic.Linarith
import Mathlib.Tactic.LinearCombination
namespace Bee2V.C05.Misc
open Bee2V.C05 Bee2V.C05.Add

/-! ## zzAdd3 -/

/-- the tail of zzAdd3: propagate the carry of the low part through the excess words `d` -/
theorem add3_tail (w : Nat) (hw : 0 < w) (r : List Nat × Nat) (d : List Nat) (k S : Nat)
    (h1 : val w r.1 + 2 ^ (w * k) * r.2 = S) (h2 : r.2 ≤ 1) (h3 : Wf w r.1) (h4 : r.1.length = k)
    (hd : Wf w d) (hdne : d ≠ []) :
    val w (r.1 ++ (zzAddW2 w d r.2).1) + 2 ^ (w * (k + d.length)) * (zzAddW2 w d r.2).2
      = S + 2 ^ (w * k) * val w d
    ∧ (zzAddW2 w d r.2).2 ≤ 1
    ∧ Wf w (r.1 ++ (zzAddW2 w d r.2).1)
    ∧ (r.1 ++ (zzAddW2 w d r.2).1).length = k + d.length := by
  have hB := two_le_two_pow hw
  obtain ⟨b1, _, b3, b4, b5⟩ := zzAddW_spec w d r.2 hd (by omega)
  have b3' := b3 hdne
  unfold zzAddW2
  generalize zzAddW w d r.2 = r2 at *
  refine ⟨?_, b3', Wf_append.mpr ⟨h3, b4⟩, by rw [List.length_append, h4, b5]⟩
  rw [val_append, h4, Nat.mul_add, Nat.pow_add]
  have h5 : 2 ^ (w * k) * (val w r2.1 + 2 ^ (w * d.length) * r2.2) = 2 ^ (w * k) * (val w d + r.2) := by
    rw [b1]
  simp only [Nat.mul_add, ← Nat.mul_assoc] at h5
  omega


/-! ## zzRandMod -/

/-- the j-th candidate read off the tape: c octets, little-endian, trimmed to l bits -/
def randCand (l c : Nat) (tape : List Nat) (j : Nat) : Nat :=
  leVal ((tape.drop (j * c)).take c) % 2 ^ l

/-- rejected by the loop condition of zzRandMod (nz = false) / zzRandNZMod (nz = true) -/
def randBad (m : Nat) (nz : Bool) (v : Nat) : Bool := (nz && v == 0) || decide (v ≥ m)

theorem randCand_drop (l c : Nat) (tape : List Nat) (k : Nat) :
    randCand l c (tape.drop c) k = randCand l c tape (k + 1) := by
  unfold randCand
  rw [List.drop_drop]
  congr 4
  ring

theorem randCand_zero (l c : Nat) (tape : List Nat) :
    randCand l c tape 0 = leVal (tape.take c) % 2 ^ l := by
  simp [randCand]

theorem zzRandModLoop_found (m l c : Nat) (nz : Bool) :
    ∀ i tape used j, j ≤ i → (∀ k < j, randBad m nz (randCand l c tape k) = true) →
      randBad m nz (randCand l c tape j) = false →
      zzRandModLoop m l c nz i tape used = (some (randCand l c tape j), used + (j + 1) * c) := by
  intro i
  induction i with
  | zero =>
    intro tape used j hj _ hgood
    obtain rfl : j = 0 := by omega
    rw [randCand_zero] at hgood ⊢
    unfold zzRandModLoop
    unfold randBad at hgood
    simp only [hgood, Bool.false_eq_true, if_false]
    simp
  | succ i ih =>
    intro tape used j hj hbad hgood
    unfold zzRandModLoop
    cases j with
    | zero =>
      rw [randCand_zero] at hgood ⊢
      unfold randBad at hgood
      simp only [hgood, Bool.false_eq_true, if_false]
      simp
    | succ j =>
      have h0 := hbad 0 (by omega)
      rw [randCand_zero] at h0
      unfold randBad at h0
      simp only [h0, if_true]
      rw [ih (tape.drop c) (used + c) j (by omega)
        (fun k hk => by rw [randCand_drop]; exact hbad (k + 1) (by omega))
        (by rw [randCand_drop]; exact hgood), randCand_drop]
      congr 1
      ring

theorem zzRandModLoop_none (m l c : Nat) (nz : Bool) :
    ∀ i tape used, (∀ k ≤ i, randBad m nz (randCand l c tape k) = true) →
      zzRandModLoop m l c nz i tape used = (none, used + (i + 1) * c) := by
  intro i
  induction i with
  | zero =>
    intro tape used hbad
    have h0 := hbad 0 (by omega)
    rw [randCand_zero] at h0
    unfold randBad at h0
    unfold zzRandModLoop
    simp only [h0, if_true]
    simp
  | succ i ih =>
    intro tape used hbad
    have h0 := hbad 0 (by omega)
    rw [randCand_zero] at h0
    unfold randBad at h0
    unfold zzRandModLoop
    simp only [h0, if_true]
    rw [ih (tape.drop c) (used + c)
      (fun k hk => by rw [randCand_drop]; exact hbad (k + 1) (by omega))]
    congr 1
    ring

theorem zzRandModLoop_some (m l c : Nat) (nz : Bool) :
    ∀ i tape used v, (zzRandModLoop m l c nz i tape used).1 = some v → randBad m nz v = false := by
  intro i
  induction i with
  | zero =>
    intro tape used v h
    unfold zzRandModLoop at h
    simp only [] at h
    split at h
    · simp at h
    · simp only [Option.some.injEq] at h
      subst h
      rename_i hb
      unfold randBad
      exact Bool.eq_false_iff.mpr hb
  | succ i ih =>
    intro tape used v h
    unfold zzRandModLoop at h
    simp only [] at h
    split at h
    · exact ih _ _ v h
    · simp only [Option.some.injEq] at h
      subst h
      rename_i hb
      unfold randBad
      exact Bool.eq_false_iff.mpr hb


/-! ## wwNAF -/

theorem and_pow_of_lt {r k : Nat} (h : r < 2 ^ k) : r &&& 2 ^ k = 0 := by
  apply Nat.eq_of_testBit_eq
  intro j
  rw [Nat.testBit_and, Nat.testBit_two_pow, Nat.zero_testBit]
  by_cases hj : k = j
  · subst hj; rw [Nat.testBit_lt_two_pow h]; rfl
  · simp [hj]

theorem and_hi_ne_zero {H x : Nat} {k : Nat} (hH : H = 2 ^ k) (hx : x < 2 * H) :
    (x &&& H ≠ 0) ↔ H ≤ x := by
  subst hH
  have hp : 0 < 2 ^ k := Nat.two_pow_pos k
  by_cases h : 2 ^ k ≤ x
  · obtain ⟨r, rfl⟩ : ∃ r, x = 2 ^ k * 1 + r := ⟨x - 2 ^ k, by omega⟩
    have hr : r < 2 ^ k := by omega
    rw [Nat.two_pow_add_eq_or_of_lt hr, Nat.and_or_distrib_right, Nat.mul_one, Nat.and_self,
      and_pow_of_lt hr, Nat.or_zero]
    constructor
    · intro _; exact Nat.left_le_or
    · intro _; omega
  · rw [and_pow_of_lt (by omega)]
    constructor
    · intro h0; exact absurd rfl h0
    · intro h1; exact absurd h1 h

/-- what one iteration does with the window (k = w - 2, H = 2^(w-1)):
    `window = digit + window'`, window' even and ≤ 2^w, digit zero or odd with |digit| < H;
    in the suffix (`i ≥ a_len`) the digit is ≥ 0 and window' ≤ window -/
theorem nafDigit_spec (W k alen i window : Nat) (hW : k + 2 < W) (hwin : window ≤ 2 ^ (k + 2)) :
    (window : ℤ) = (wwNAFDigit W (k + 2) alen i window).1 + (wwNAFDigit W (k + 2) alen i window).2.2
    ∧ (wwNAFDigit W (k + 2) alen i window).2.2 % 2 = 0
    ∧ (wwNAFDigit W (k + 2) alen i window).2.2 ≤ 2 ^ (k + 2)
    ∧ ((wwNAFDigit W (k + 2) alen i window).1 = 0
        ∨ ((wwNAFDigit W (k + 2) alen i window).1 % 2 = 1
          ∧ -(2 ^ (k + 1) : ℤ) < (wwNAFDigit W (k + 2) alen i window).1
          ∧ (wwNAFDigit W (k + 2) alen i window).1 < 2 ^ (k + 1)))
    ∧ (window % 2 = 0 → (wwNAFDigit W (k + 2) alen i window).1 = 0)
    ∧ (i ≥ alen → 0 ≤ (wwNAFDigit W (k + 2) alen i window).1
        ∧ (wwNAFDigit W (k + 2) alen i window).2.2 ≤ window) := by
  have hpow : 2 ^ (k + 2) = 2 * 2 ^ (k + 1) := by rw [Nat.pow_succ, Nat.mul_comm]
  have hpow1 : 2 ^ (k + 1) = 2 * 2 ^ k := by rw [Nat.pow_succ, Nat.mul_comm]
  have hhalf : 2 ^ (k + 2) / 2 = 2 ^ (k + 1) := by omega
  have hH : 0 < 2 ^ k := Nat.two_pow_pos k
  have hpz : ((2 ^ (k + 1) : Nat) : ℤ) = 2 ^ (k + 1) := by push_cast; ring
  unfold wwNAFDigit
  simp only [hhalf]
  by_cases hodd : window % 2 = 1
  · rw [if_pos hodd]
    have hlt : window < 2 * 2 ^ (k + 1) := by omega
    simp only [and_hi_ne_zero rfl hlt]
    have hmask : ∀ x, x &&& (2 ^ (k + 1) - 1) = x % 2 ^ (k + 1) := fun x =>
      Nat.and_two_pow_sub_one_eq_mod x (k + 1)
    by_cases hhi : 2 ^ (k + 1) ≤ window
    · rw [if_pos hhi]
      have hwm : window % 2 ^ (k + 1) = window - 2 ^ (k + 1) := by
        rw [Nat.mod_eq_sub_mod hhi, Nat.mod_eq_of_lt (by omega)]
      by_cases hsuf : i ≥ alen
      · rw [if_pos hsuf]
        simp only [hmask, hwm]
        refine ⟨by push_cast [Nat.cast_sub hhi]; ring, by omega, by omega, Or.inr ⟨?_, ?_, ?_⟩,
          fun h => by omega, fun _ => ⟨by positivity, hhi⟩⟩
        · have : (window - 2 ^ (k + 1)) % 2 = 1 := by omega
          exact_mod_cast this
        · have : (0 : ℤ) ≤ ((window - 2 ^ (k + 1) : Nat) : ℤ) := by positivity
          have : (0 : ℤ) < 2 ^ (k + 1) := by positivity
          linarith
        · have : window - 2 ^ (k + 1) < 2 ^ (k + 1) := by omega
          exact_mod_cast this
      · rw [if_neg hsuf]
        -- (0 - window) & mask = 2^w - window
        have hmag : wneg W window % 2 ^ (k + 1) = 2 ^ (k + 2) - window := by
          show (2 ^ W - window % 2 ^ W) % 2 ^ W % 2 ^ (k + 1) = _
          obtain ⟨e, rfl⟩ : ∃ e, W = (k + 2) + (e + 1) := ⟨W - (k + 2) - 1, by omega⟩
          have hE : 2 ^ (k + 2 + (e + 1)) = 2 ^ (k + 1) * (2 * 2 ^ (e + 1)) := by
            rw [Nat.pow_add, hpow]; ring
          have hE2 : 2 * 2 ^ (e + 1) = 4 * 2 ^ e := by rw [Nat.pow_succ]; ring
          have hbig : window < 2 ^ (k + 2 + (e + 1)) := by
            rw [hE, hE2]
            have : 2 ^ (k + 1) * 4 ≤ 2 ^ (k + 1) * (4 * 2 ^ e) :=
              Nat.mul_le_mul_left _ (by have := Nat.two_pow_pos e; omega)
            omega
          rw [Nat.mod_eq_of_lt hbig, Nat.mod_eq_of_lt
            (show 2 ^ (k + 2 + (e + 1)) - window < 2 ^ (k + 2 + (e + 1)) by omega)]
          have : 2 ^ (k + 2 + (e + 1)) - window
              = (2 ^ (k + 2) - window) + 2 ^ (k + 1) * (2 * 2 ^ (e + 1) - 2) := by
            have h1 : 2 ^ (k + 1) * 2 = 2 ^ (k + 2) := by omega
            have h2 : 2 ^ (k + 1) * 2 ≤ 2 ^ (k + 1) * (2 * 2 ^ (e + 1)) :=
              Nat.mul_le_mul_left _ (by have := Nat.two_pow_pos (e + 1); omega)
            rw [hE, Nat.mul_sub]
            omega
          rw [this, Nat.add_mul_mod_self_left, Nat.mod_eq_of_lt (by omega)]
        simp only [hmask, hmag]
        have hle : window ≤ 2 ^ (k + 2) := hwin
        refine ⟨by push_cast [Nat.cast_sub hle]; ring, by omega, by omega, Or.inr ⟨?_, ?_, ?_⟩,
          fun h => by omega, fun h => absurd h hsuf⟩
        · have : (2 ^ (k + 2) - window) % 2 = 1 := by omega
          have h2 : (((2 ^ (k + 2) - window : Nat) : ℤ)) % 2 = 1 := by exact_mod_cast this
          omega
        · have : 2 ^ (k + 2) - window < 2 ^ (k + 1) := by omega
          have h2 : ((2 ^ (k + 2) - window : Nat) : ℤ) < 2 ^ (k + 1) := by exact_mod_cast this
          linarith
        · have : (0 : ℤ) ≤ ((2 ^ (k + 2) - window : Nat) : ℤ) := by positivity
          have : (0 : ℤ) < 2 ^ (k + 1) := by positivity
          linarith
    · rw [if_neg hhi]
      dsimp only
      refine ⟨by simp, by simp, by simp, Or.inr ⟨by exact_mod_cast hodd, ?_, ?_⟩,
        fun h => by omega, fun _ => ⟨by positivity, by simp⟩⟩
      · have : (0 : ℤ) ≤ (window : ℤ) := by positivity
        have : (0 : ℤ) < 2 ^ (k + 1) := by positivity
        linarith
      · have : window < 2 ^ (k + 1) := by omega
        exact_mod_cast this
  · rw [if_neg hodd]
    dsimp only
    refine ⟨by simp, by omega, hwin, Or.inl rfl, fun _ => rfl, fun _ => ⟨le_refl _, le_refl _⟩⟩


/-- value of a digit string a_0, a_1, … : Σ a_i 2^i -/
def nafSum : List Int → Int
  | [] => 0
  | d :: ds => d + 2 * nafSum ds

theorem nafSum_append (ds : List Int) (d : Int) :
    nafSum (ds ++ [d]) = nafSum ds + 2 ^ ds.length * d := by
  induction ds with
  | nil => simp [nafSum]
  | cons x xs ih => simp only [List.cons_append, nafSum, ih, List.length_cons, pow_succ]; ring

/-- admissible digit for window w = k + 2: zero, or odd with |d| < 2^(w-1) -/
def NafDigitOK (k : Nat) (d : Int) : Prop :=
  d = 0 ∨ (d % 2 = 1 ∧ -(2 ^ (k + 1) : ℤ) < d ∧ d < 2 ^ (k + 1))

theorem nafLoop_spec (W k a alen : Nat) (hW : k + 2 < W) (halen : a < 2 ^ alen) :
    ∀ (f i window : Nat) (digs : List Int) (naf size : Nat), window ≤ 2 ^ (k + 2) → digs.length + (k + 2) = i →
      size = digs.length →
      nafSum digs + (window : ℤ) * 2 ^ digs.length + ((a / 2 ^ i : Nat) : ℤ) * 2 ^ i = a →
      (∀ d ∈ digs, NafDigitOK k d) →
      (if i < alen then (alen - i) + 2 ^ (k + 2) + 1 else window) < f →
      nafSum (wwNAFLoop W (k + 2) a alen f i window digs naf size).1 = a
      ∧ (∀ d ∈ (wwNAFLoop W (k + 2) a alen f i window digs naf size).1, NafDigitOK k d)
      ∧ (wwNAFLoop W (k + 2) a alen f i window digs naf size).2.2
          = (wwNAFLoop W (k + 2) a alen f i window digs naf size).1.length := by
  intro f
  induction f with
  | zero => intro i window digs naf size _ _ _ _ _ h; exact (Nat.not_lt_zero _ h).elim
  | succ f ih =>
    intro i window digs naf size hwin hlen hsize hinv hok hf
    unfold wwNAFLoop
    by_cases hexit : window = 0 ∧ ¬ i < alen
    · rw [if_pos hexit]
      obtain ⟨hw0, hi⟩ := hexit
      have hq : a / 2 ^ i = 0 := by
        apply Nat.div_eq_of_lt
        exact Nat.lt_of_lt_of_le halen (Nat.pow_le_pow_right (by omega) (by omega))
      rw [hw0, hq] at hinv
      refine ⟨by simpa using hinv, hok, hsize⟩
    · rw [if_neg hexit]
      obtain ⟨s1, s2, s3, s4, _, s6⟩ := nafDigit_spec W k alen i window hW hwin
      generalize wwNAFDigit W (k + 2) alen i window = r at *
      have hpow : 2 ^ (k + 2) = 2 * 2 ^ (k + 1) := by rw [Nat.pow_succ, Nat.mul_comm]
      have hhalf : 2 ^ (k + 2) / 2 = 2 ^ (k + 1) := by omega
      -- the bit that enters the window
      have hbit : (if i < alen then 2 ^ (k + 2) / 2 * (a / 2 ^ i % 2) else 0)
          = 2 ^ (k + 1) * (a / 2 ^ i % 2) := by
        by_cases h : i < alen
        · rw [if_pos h, hhalf]
        · rw [if_neg h]
          have hq : a / 2 ^ i = 0 := by
            apply Nat.div_eq_of_lt
            exact Nat.lt_of_lt_of_le halen (Nat.pow_le_pow_right (by omega) (by omega))
          rw [hq]; simp
      simp only []
      rw [hbit]
      apply ih
      · -- window' ≤ 2^w
        have : a / 2 ^ i % 2 ≤ 1 := by omega
        have e := mul01 (2 ^ (k + 1)) this
        split_ifs at e <;> omega
      · rw [List.length_append, List.length_singleton]; omega
      · rw [List.length_append, List.length_singleton, hsize]
      · -- the invariant
        rw [nafSum_append, List.length_append, List.length_singleton]
        have hq2 : a / 2 ^ (i + 1) = a / 2 ^ i / 2 := by
          rw [Nat.pow_succ, Nat.div_div_eq_div_mul]
        have hdm := Nat.div_add_mod (a / 2 ^ i) 2
        rw [← hq2] at hdm
        obtain ⟨wh, hwh⟩ : ∃ wh, r.2.2 = 2 * wh := ⟨r.2.2 / 2, by omega⟩
        have hwh2 : r.2.2 / 2 = wh := by omega
        rw [hwh2]
        have hi2 : (2 : ℤ) ^ i = 2 ^ (k + 1) * 2 * 2 ^ digs.length := by
          rw [← hlen, pow_add, show k + 2 = (k + 1) + 1 from rfl, pow_succ]; ring
        have hdmZ : (2 : ℤ) * ((a / 2 ^ (i + 1) : Nat) : ℤ) + ((a / 2 ^ i % 2 : Nat) : ℤ)
            = ((a / 2 ^ i : Nat) : ℤ) := by exact_mod_cast hdm
        have hwhZ : ((r.2.2 : Nat) : ℤ) = 2 * wh := by exact_mod_cast hwh
        rw [hwhZ] at s1
        generalize a / 2 ^ (i + 1) = q' at *
        generalize a / 2 ^ i % 2 = bit at *
        generalize a / 2 ^ i = q at *
        push_cast
        rw [hi2] at hinv
        rw [pow_succ 2 i, hi2]
        linear_combination hinv - (2 : ℤ) ^ digs.length * s1
          + (2 ^ (k + 1) * 2 * 2 ^ digs.length : ℤ) * hdmZ
      · intro d hd
        rcases List.mem_append.mp hd with h | h
        · exact hok d h
        · rw [List.mem_singleton.mp h]; exact s4
      · -- the measure decreases
        have hb1 : a / 2 ^ i % 2 ≤ 1 := by omega
        have e := mul01 (2 ^ (k + 1)) hb1
        by_cases h : i < alen
        · rw [if_pos h] at hf
          by_cases h2 : i + 1 < alen
          · rw [if_pos h2]; omega
          · rw [if_neg h2]; split_ifs at e <;> omega
        · rw [if_neg h] at hf
          rw [if_neg (by omega)]
          have hq : a / 2 ^ i = 0 := by
            apply Nat.div_eq_of_lt
            exact Nat.lt_of_lt_of_le halen (Nat.pow_le_pow_right (by omega) (by omega))
          rw [hq] at e ⊢
          have := (s6 (by omega)).2
          have hwpos : 0 < window := by
            rcases Nat.eq_zero_or_pos window with h0 | h0
            · exact absurd ⟨h0, h⟩ hexit
            · exact h0
          omega

end Bee2V.C05.Misc

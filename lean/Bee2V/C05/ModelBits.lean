/-
C05 — code-shaped executable models of the bit-level functions of src/math/ww.c :
  wwIsW, wwIsRepW (SAFE and FAST), wwWordSize, wwOctetSize,
  wwTestBit, wwGetBits, wwSetBit, wwSetBits, wwFlipBit, wwLoZeroBits, wwHiZeroBits, wwBitSize,
  wwShLo, wwShLoCarry, wwShHi, wwShHiCarry, wwTrimLo, wwTrimHi.

`w` = B_PER_W is a parameter; a `word a[]` of length n is a little-endian `List Nat` of n words
(`n` of the C signature is `a.length`).  The C index arithmetic is kept: `a[pos / B_PER_W]`,
`pos % B_PER_W`, the `if (pos + width > B_PER_W)` second-word branch, the loops of the shifts.
`a[i]` is `a.getD i 0` and `a[i] = x` is `a.set i x`: outside the reserved words the C behaviour is
undefined, the model is total (reads 0 / writes nothing); every theorem about these functions
is stated under the header's "reserved words" precondition, under which no out-of-range index
is reached, so the totalisation never matters.

In-place loops.  `for (pos = p; cond(pos); pos++) body` is `forUp cond body fuel p a` (the state is
the array, `pos` is carried and returned, since the C uses `pos` after the loop); loops running
downwards use `q = pos + 1` (so that the C's `pos == SIZE_MAX` is `q = 0`): `forDown`.
The fuel is `n` (each loop body runs for pairwise different `pos < n`); it never runs out.
The loops write `a[pos]` from the *current* array (as the C does, in place).

No Mathlib (imported by the native driver).
-/
import Bee2V.C05.Basic
import Bee2V.C05.ModelWord
namespace Bee2V.C05

/-- `WORD_BIT_POS(pos)` = `WORD_1 << pos` -/
@[reducible] def wbit (w pos : Nat) : Nat := wshl w 1 pos

/-- `for (; cond(pos); pos++) a = body(pos, a)`; returns the final `pos` and array -/
def forUp (cond : Nat → Bool) (body : Nat → List Nat → List Nat) :
    Nat → Nat → List Nat → Nat × List Nat
  | 0, pos, a => (pos, a)
  | fuel + 1, pos, a =>
    if cond pos then forUp cond body fuel (pos + 1) (body pos a) else (pos, a)

/-- `for (; cond; pos--) a = body(pos, a)` with `q = pos + 1` (`cond q` must imply `q > 0`);
    returns the final `q` and array -/
def forDown (cond : Nat → Bool) (body : Nat → List Nat → List Nat) :
    Nat → Nat → List Nat → Nat × List Nat
  | 0, q, a => (q, a)
  | fuel + 1, q, a =>
    if cond q then forDown cond body fuel (q - 1) (body (q - 1) a) else (q, a)

/-! ## wwIsW, wwIsRepW -/

/-- SAFE(wwIsW): `ret = wordEq(a[0], w); while (--n) ret &= wordEq(a[n], 0);` -/
def wwIsW_safe (a : List Nat) (x : Nat) : Bool :=
  match a with
  | [] => x == 0
  | a0 :: as => as.reverse.foldl (fun ret y => ret && (y == 0)) (a0 == x)

def wwIsW_fastLoop : Bool → List Nat → Bool
  | ret, [] => ret
  | ret, y :: ys => if ret then wwIsW_fastLoop (y == 0) ys else ret
/-- FAST(wwIsW): `ret = (a[0] == w); while (ret && --n) ret = (a[n] == 0);` -/
def wwIsW_fast (a : List Nat) (x : Nat) : Bool :=
  match a with
  | [] => x == 0
  | a0 :: as => wwIsW_fastLoop (a0 == x) as.reverse

/-- SAFE(wwIsRepW): `ret = wordEq(a[0], w); while (--n) ret &= wordEq(a[n], w);` -/
def wwIsRepW_safe (a : List Nat) (x : Nat) : Bool :=
  match a with
  | [] => x == 0
  | a0 :: as => as.reverse.foldl (fun ret y => ret && (y == x)) (a0 == x)

def wwIsRepW_fastLoop (x : Nat) : List Nat → Bool
  | [] => true
  | y :: ys => if y == x then wwIsRepW_fastLoop x ys else false
/-- FAST(wwIsRepW): `do ret = (a[--n] == w); while (ret && n);` (n > 0) -/
def wwIsRepW_fast (a : List Nat) (x : Nat) : Bool :=
  match a with
  | [] => x == 0
  | _ :: _ => wwIsRepW_fastLoop x a.reverse

/-! ## sizes -/

/-- `while (n-- && a[n] == 0);` on the reversed array (top word first); the value is `n + 1`
    after the loop (0 when the C leaves `n == SIZE_MAX`) -/
def wwWordSizeLoop : List Nat → Nat
  | [] => 0
  | x :: xs => if x == 0 then wwWordSizeLoop xs else xs.length + 1

/-- wwWordSize: `while (n-- && a[n] == 0); return n + 1;` -/
def wwWordSize (a : List Nat) : Nat := wwWordSizeLoop a.reverse

/-- `while ((a[n] & mask) == 0) --pos, mask >>= 8;` — the first argument is `pos + 1`, the value is
    `pos + 1` at exit (`x = a[n] ≠ 0`, so the loop exits before `pos` would pass 0) -/
def wwOctetSizeLoop (x : Nat) : Nat → Nat → Nat
  | 0, _ => 0
  | pos + 1, mask => if x &&& mask == 0 then wwOctetSizeLoop x pos (mask >>> 8) else pos + 1

/-- wwOctetSize (O_PER_W = w / 8) -/
def wwOctetSize (w : Nat) (a : List Nat) : Nat :=
  let n1 := wwWordSize a                       -- n + 1 after the scan
  if n1 = 0 then 0
  else
    let n := n1 - 1
    let pos := w / 8 - 1
    let mask := wshl w 0xFF (8 * pos)
    -- return n * O_PER_W + pos + 1;
    n * (w / 8) + wwOctetSizeLoop (a.getD n 0) (pos + 1) mask

/-! ## single bits and bit fields -/

/-- `return (a[pos / B_PER_W] & WORD_BIT_POS(pos % B_PER_W)) != 0;` -/
def wwTestBit (w : Nat) (a : List Nat) (pos : Nat) : Bool :=
  (a.getD (pos / w) 0 &&& wbit w (pos % w)) != 0

def wwGetBits (w : Nat) (a : List Nat) (pos width : Nat) : Nat :=
  let n := pos / w
  let pos := pos % w
  -- ret = a[n] >> pos;
  let ret := wshr (a.getD n 0) pos
  -- if (pos + width > B_PER_W) ret |= a[n + 1] << (B_PER_W - pos);
  let ret := if pos + width > w then ret ||| wshl w (a.getD (n + 1) 0) (w - pos) else ret
  -- if (width < B_PER_W) ret &= WORD_BIT_POS(width) - 1;
  if width < w then ret &&& wsub w (wbit w width) 1 else ret

/-- `f = WORD_0 - (word)val; a[i] ^= (f ^ a[i]) & WORD_BIT_POS(pos % B_PER_W);` -/
def wwSetBit (w : Nat) (a : List Nat) (pos : Nat) (v : Bool) : List Nat :=
  let f := wneg w (if v then 1 else 0)
  let i := pos / w
  a.set i (a.getD i 0 ^^^ ((f ^^^ a.getD i 0) &&& wbit w (pos % w)))

/-- wwSetBits.  For `width = 0` the C shifts `mask` by B_PER_W bits (undefined in C);
    the model's `wshl` then gives mask = 0. -/
def wwSetBits (w : Nat) (a : List Nat) (pos width val : Nat) : List Nat :=
  let mask := 2 ^ w - 1                         -- WORD_MAX
  let n := pos / w
  -- if (width < B_PER_W) mask <<= B_PER_W - width, mask >>= B_PER_W - width;
  let mask := if width < w then wshr (wshl w mask (w - width)) (w - width) else mask
  let pos := pos % w
  -- a[n] &= ~(mask << pos);
  let a := a.set n (a.getD n 0 &&& wnot w (wshl w mask pos))
  -- a[n] ^= (val & mask) << pos;
  let a := a.set n (a.getD n 0 ^^^ wshl w (val &&& mask) pos)
  if pos + width > w then
    -- a[n + 1] &= ~(mask >> (B_PER_W - pos));
    let a := a.set (n + 1) (a.getD (n + 1) 0 &&& wnot w (wshr mask (w - pos)))
    -- a[n + 1] ^= (val & mask) >> (B_PER_W - pos);
    a.set (n + 1) (a.getD (n + 1) 0 ^^^ wshr (val &&& mask) (w - pos))
  else a

/-- `a[pos / B_PER_W] ^= WORD_BIT_POS(pos % B_PER_W);` -/
def wwFlipBit (w : Nat) (a : List Nat) (pos : Nat) : List Nat :=
  a.set (pos / w) (a.getD (pos / w) 0 ^^^ wbit w (pos % w))

/-! ## zero bits -/

/-- `for (i = 0; i < n && a[i] == 0; ++i);` — final `i` -/
def wwLoZeroLoop : List Nat → Nat
  | [] => 0
  | x :: xs => if x == 0 then wwLoZeroLoop xs + 1 else 0

/-- wwLoZeroBits with the word-level `wordCTZ` as a parameter -/
def wwLoZeroBitsWith (ctz : Nat → Nat) (w : Nat) (a : List Nat) : Nat :=
  let n := a.length
  let i := wwLoZeroLoop a
  if i = n then n * w else i * w + ctz (a.getD i 0)

/-- wwHiZeroBits with the word-level `wordCLZ` as a parameter:
    `while (i-- && a[i] == 0); if (i == SIZE_MAX) return n * B_PER_W;
     return (n - i - 1) * B_PER_W + wordCLZ(a[i]);`  (`i1 = i + 1`) -/
def wwHiZeroBitsWith (clz : Nat → Nat) (w : Nat) (a : List Nat) : Nat :=
  let n := a.length
  let i1 := wwWordSizeLoop a.reverse
  if i1 = 0 then n * w else (n - i1) * w + clz (a.getD (i1 - 1) 0)

/-- default build: wordCTZ = SAFE(uNNCTZ) -/
def wwLoZeroBits (w : Nat) (a : List Nat) : Nat := wwLoZeroBitsWith (wordCTZ_safe w) w a
/-- SAFE_FAST build: wordCTZ = FAST(uNNCTZ) -/
def wwLoZeroBitsF (w : Nat) (a : List Nat) : Nat := wwLoZeroBitsWith (wordCTZ_fast w) w a
def wwHiZeroBits (w : Nat) (a : List Nat) : Nat := wwHiZeroBitsWith (wordCLZ_safe w) w a
def wwHiZeroBitsF (w : Nat) (a : List Nat) : Nat := wwHiZeroBitsWith (wordCLZ_fast w) w a

/-- `return n * B_PER_W - wwHiZeroBits(a, n);` -/
def wwBitSizeWith (clz : Nat → Nat) (w : Nat) (a : List Nat) : Nat :=
  a.length * w - wwHiZeroBitsWith clz w a
def wwBitSize (w : Nat) (a : List Nat) : Nat := wwBitSizeWith (wordCLZ_safe w) w a
def wwBitSizeF (w : Nat) (a : List Nat) : Nat := wwBitSizeWith (wordCLZ_fast w) w a

/-! ## shifts -/

/-- wwSetZero: `while (n--) a[n] = 0;` -/
def wwSetZero (a : List Nat) : List Nat := List.replicate a.length 0

/-- `for (; pos < n; a[pos++] = 0);` -/
def zeroUp (n pos : Nat) (a : List Nat) : List Nat :=
  (forUp (fun pos => pos < n) (fun pos a => a.set pos 0) n pos a).2

/-- `for (; pos != SIZE_MAX; a[pos--] = 0);`  (`q = pos + 1`) -/
def zeroDown (n q : Nat) (a : List Nat) : List Nat :=
  (forDown (fun q => q != 0) (fun pos a => a.set pos 0) n q a).2

/-- `for (pos = 0; pos + wshift + 1 < n; pos++)
       a[pos] = a[pos + wshift] >> shift | a[pos + wshift + 1] << (B_PER_W - shift);` -/
def shLoLoop (w n wshift shift : Nat) (a : List Nat) : Nat × List Nat :=
  forUp (fun pos => pos + wshift + 1 < n)
    (fun pos a => a.set pos
      (wshr (a.getD (pos + wshift) 0) shift ||| wshl w (a.getD (pos + wshift + 1) 0) (w - shift)))
    n 0 a

/-- `for (pos = 0; pos + wshift < n; pos++) a[pos] = a[pos + wshift];` -/
def shLoCopy (n wshift : Nat) (a : List Nat) : Nat × List Nat :=
  forUp (fun pos => pos + wshift < n) (fun pos a => a.set pos (a.getD (pos + wshift) 0)) n 0 a

def wwShLo (w : Nat) (a : List Nat) (shift : Nat) : List Nat :=
  let n := a.length
  if shift < w * n then
    let wshift := shift / w
    let shift := shift % w
    let (pos, a) :=
      if shift ≠ 0 then
        let (pos, a) := shLoLoop w n wshift shift a
        -- a[pos] = a[pos + wshift] >> shift; ++pos;
        (pos + 1, a.set pos (wshr (a.getD (pos + wshift) 0) shift))
      else shLoCopy n wshift a
    zeroUp n pos a
  else wwSetZero a

def wwShLoCarry (w : Nat) (a : List Nat) (shift carry : Nat) : List Nat × Nat :=
  let n := a.length
  if shift < w * (n + 1) then
    let wshift := shift / w
    let shift := shift % w
    -- if (wshift) ret = a[wshift - 1] >> shift;
    let ret := if wshift ≠ 0 then wshr (a.getD (wshift - 1) 0) shift else 0
    let (ret, pos, a) :=
      if shift ≠ 0 then
        let ret :=
          if wshift < n then ret ||| wshl w (a.getD wshift 0) (w - shift)
          else ret ||| wshl w carry (w - shift)
        let (pos, a) := shLoLoop w n wshift shift a
        -- if (pos + wshift < n) a[pos] = a[pos + wshift] >> shift | carry << (B_PER_W - shift), ++pos;
        let (pos, a) :=
          if pos + wshift < n then
            (pos + 1, a.set pos (wshr (a.getD (pos + wshift) 0) shift ||| wshl w carry (w - shift)))
          else (pos, a)
        (ret, pos, a)
      else
        let (pos, a) := shLoCopy n wshift a
        (ret, pos, a)
    -- if (pos < n) a[pos++] = carry >> shift;
    let (pos, a) := if pos < n then (pos + 1, a.set pos (wshr carry shift)) else (pos, a)
    (zeroUp n pos a, ret)
  else
    -- shift -= B_PER_W * (n + 1); if (shift < B_PER_W) ret = carry >> shift;
    let shift := shift - w * (n + 1)
    (wwSetZero a, if shift < w then wshr carry shift else 0)

/-- `for (pos = n - 1; pos [!= SIZE_MAX &&] > wshift; pos--)
       a[pos] = a[pos - wshift] << shift | a[pos - wshift - 1] >> (B_PER_W - shift);`
    with q = pos + 1: `pos > wshift` is `q > wshift + 1` -/
def shHiLoop (w n wshift shift : Nat) (a : List Nat) : Nat × List Nat :=
  forDown (fun q => q > wshift + 1)
    (fun pos a => a.set pos
      (wshl w (a.getD (pos - wshift) 0) shift ||| wshr (a.getD (pos - wshift - 1) 0) (w - shift)))
    n n a

/-- `for (pos = n - 1; [pos != SIZE_MAX &&] pos + 1 > wshift; pos--) a[pos] = a[pos - wshift];` -/
def shHiCopy (n wshift : Nat) (a : List Nat) : Nat × List Nat :=
  forDown (fun q => q != 0 && q > wshift) (fun pos a => a.set pos (a.getD (pos - wshift) 0)) n n a

def wwShHi (w : Nat) (a : List Nat) (shift : Nat) : List Nat :=
  let n := a.length
  if shift < w * n then
    let wshift := shift / w
    let shift := shift % w
    let (q, a) :=
      if shift ≠ 0 then
        let (q, a) := shHiLoop w n wshift shift a
        -- a[pos] = a[pos - wshift] << shift; --pos;      (pos = q - 1)
        (q - 1, a.set (q - 1) (wshl w (a.getD (q - 1 - wshift) 0) shift))
      else shHiCopy n wshift a
    zeroDown n q a
  else wwSetZero a

def wwShHiCarry (w : Nat) (a : List Nat) (shift carry : Nat) : List Nat × Nat :=
  let n := a.length
  if shift < w * (n + 1) then
    let wshift := shift / w
    let shift := shift % w
    -- if (wshift) ret = a[n - wshift] << shift;
    let ret := if wshift ≠ 0 then wshl w (a.getD (n - wshift) 0) shift else 0
    let (ret, q, a) :=
      if shift ≠ 0 then
        let ret :=
          if wshift < n then ret ||| wshr (a.getD (n - wshift - 1) 0) (w - shift)
          else ret ||| wshr carry (w - shift)
        let (q, a) := shHiLoop w n wshift shift a
        -- if (pos != SIZE_MAX && pos + 1 > wshift)
        --   a[pos] = a[pos - wshift] << shift | carry >> (B_PER_W - shift), --pos;
        let (q, a) :=
          if q ≠ 0 ∧ q > wshift then
            (q - 1, a.set (q - 1)
              (wshl w (a.getD (q - 1 - wshift) 0) shift ||| wshr carry (w - shift)))
          else (q, a)
        (ret, q, a)
      else
        let (q, a) := shHiCopy n wshift a
        (ret, q, a)
    -- if (pos != SIZE_MAX) a[pos--] = carry << shift;
    let (q, a) := if q ≠ 0 then (q - 1, a.set (q - 1) (wshl w carry shift)) else (q, a)
    (zeroDown n q a, ret)
  else
    let shift := shift - w * (n + 1)
    (wwSetZero a, if shift < w then wshl w carry shift else 0)

/-! ## trimming -/

/-- `while (i) a[--i] = 0;` -/
def trimLoLoop : Nat → List Nat → List Nat
  | 0, a => a
  | i + 1, a => trimLoLoop i (a.set i 0)

def wwTrimLo (w : Nat) (a : List Nat) (pos : Nat) : List Nat :=
  let n := a.length
  let i := pos / w
  if i < n then
    -- if (pos %= B_PER_W) a[i] >>= pos, a[i] <<= pos;
    let pos := pos % w
    let a := if pos ≠ 0 then a.set i (wshl w (wshr (a.getD i 0) pos) pos) else a
    trimLoLoop i a
  else if i > n then trimLoLoop n a
  else trimLoLoop i a

def wwTrimHi (w : Nat) (a : List Nat) (pos : Nat) : List Nat :=
  let n := a.length
  let i := pos / w
  if i < n then
    -- pos = B_PER_W - pos % B_PER_W;
    let pos := w - pos % w
    let a :=
      if pos = w then a.set i 0
      else a.set i (wshr (wshl w (a.getD i 0) pos) pos)
    -- while (++i < n) a[i] = 0;
    zeroUp n (i + 1) a
  else a

/-! ## wwCmpW, copying and logical operations, octet import / export (appended) -/

/-- SAFE(wwCmpW): `n == 0: wordEq(w, 0) - 1`; else `z = wwIsZero(a + 1, n - 1)` (default build:
    the SAFE edition, `diff |= a[n]`), `ret = -wordLess(a[0], w) & -1 | -wordGreater(a[0], w) & 1`,
    `ret = -z & ret | (z - 1) & 1`.  (`w` = B_PER_W is not used; kept for a uniform signature.) -/
def wwCmpW_safe (_w : Nat) (a : List Nat) (x : Nat) : Int :=
  match a with
  | [] => if x = 0 then 0 else -1
  | a0 :: as =>
    let z := (as.reverse.foldl (fun d y => d ||| y) 0) == 0
    let ret : Int := if a0 < x then -1 else if a0 > x then 1 else 0
    if z then ret else 1

/-- `while (--n && cmp == 0) cmp = (a[n] == 0 ? 0 : 1);` on the reversed tail -/
def wwCmpW_fastLoop : Int → List Nat → Int
  | cmp, [] => cmp
  | cmp, y :: ys => if cmp == 0 then wwCmpW_fastLoop (if y == 0 then 0 else 1) ys else cmp

/-- FAST(wwCmpW) -/
def wwCmpW_fast (_w : Nat) (a : List Nat) (x : Nat) : Int :=
  match a with
  | [] => if x ≠ 0 then -1 else 0
  | a0 :: as =>
    let cmp := wwCmpW_fastLoop 0 as.reverse
    if cmp == 0 then (if a0 < x then -1 else if a0 > x then 1 else cmp) else cmp

/-- wwXor: `while (n--) c[n] = a[n] ^ b[n];` (every index is written once, from a[n], b[n] only) -/
def wwXor (a b : List Nat) : List Nat := List.zipWith (fun x y => x ^^^ y) a b
/-- wwXor2: `while (n--) b[n] ^= a[n];` -/
def wwXor2 (b a : List Nat) : List Nat := List.zipWith (fun y x => y ^^^ x) b a
/-- wwCopy: `while (n--) b[n] = a[n];` -/
def wwCopy (a : List Nat) : List Nat := a.map (fun x => x)
/-- wwSwap: `while (n--) SWAP(a[n], b[n]);` — returns (new a, new b) -/
def wwSwap (a b : List Nat) : List Nat × List Nat :=
  ((a.zip b).map (fun p => p.2), (a.zip b).map (fun p => p.1))
/-- wwSetW: `if (n) for (a[0] = w; --n; a[n] = 0);` -/
def wwSetW (a : List Nat) (x : Nat) : List Nat :=
  match a with
  | [] => []
  | _ :: as => x :: List.replicate as.length 0
/-- wwRepW: `if (n) for (; n--; a[n] = w);` -/
def wwRepW (a : List Nat) (x : Nat) : List Nat := List.replicate a.length x

/-- `n` words of `O` octets each, little-endian, from an octet buffer -/
def octetsToWords (O : Nat) : Nat → List Nat → List Nat
  | 0, _ => []
  | n + 1, buf => val 8 (buf.take O) :: octetsToWords O n (buf.drop O)

/-- wwFrom = uNNFrom on a little-endian host: `memMove(dest, src, count)`, the rest of the last word
    is filled with zeros; dest has W_OF_O(count) words (`w` = 8·O_PER_W) -/
def wwFrom (w : Nat) (octets : List Nat) : List Nat :=
  let O := w / 8
  let n := (octets.length + O - 1) / O
  octetsToWords O n (octets ++ List.replicate (n * O - octets.length) 0)

/-- the octets of a word array in memory order (little-endian host) -/
def wordsToOctets (O : Nat) : List Nat → List Nat
  | [] => []
  | x :: xs => toWords 8 O x ++ wordsToOctets O xs

/-- wwTo = uNNTo on a little-endian host: `memMove(dest, src, count)` -/
def wwTo (w : Nat) (count : Nat) (a : List Nat) : List Nat := (wordsToOctets (w / 8) a).take count

end Bee2V.C05

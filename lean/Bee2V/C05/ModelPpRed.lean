/-
C05 — WORD-LEVEL code-shaped models of the special reductions of binary polynomials
  src/math/pp/pp_red.c : ppRedTrinomial, ppRedPentanomial, ppRedBelt
  src/math/gf2.c       : gf2RedTrinomial0, gf2RedTrinomial1, gf2RedPentanomial (static)

Conventions of ModelAdd/ModelMul: words are `Nat`s below `2^w` (w = B_PER_W generic), a polynomial
is a little-endian `List Nat` (bit j of word i = coefficient of x^(w i + j)).  The C works in place
on `a[0 .. 2 W_OF_B(m))`; every function below returns the WHOLE array after the call
(`…Arr`) and the result proper = its first `W_OF_B(m)` words (the C leaves the processed
high words as they are — they are not part of the result).

Each loop `for (n = 2 N; --n > mw;)` is a structural recursion on the number of remaining
iterations, running n = 2N - 1, 2N - 2, …, mw + 1 and reading `hi = a[n]` AT THAT TIME (earlier
iterations have xored into it).  `a[i] ^= v` is `xorAt a i v`.  Index arithmetic is on `Nat`:
`n - mw - 1` etc. are exact (no truncation) because n > mw ≥ kw in the loop and the tail is
guarded by `kw < n` as in the C.

`hi << (B_PER_W - mb)` with mb = 0 is a shift by the word size (undefined in C): the trinomial
functions exclude it by `m % 8 != 0` (B_PER_W is a multiple of 8), the pentanomial ones test
`mb ? … : 0`.  The model's `wshl w hi w` is 0 — the theorems do not use that value
(trinomial theorems assume m % w ≠ 0).

No Mathlib (may be imported by the native driver).
-/
import Bee2V.C05.Basic
namespace Bee2V.C05

/-- `a[i] ^= v` -/
def xorAt (a : List Nat) (i v : Nat) : List Nat := a.set i (a.getD i 0 ^^^ v)

/-- `W_OF_B(m)` -/
def wOfB (w m : Nat) : Nat := (m + w - 1) / w

/-- iterations n = mw + c, …, mw + 1 of a descending loop with body `body n a` -/
def redLoop (body : Nat → List Nat → List Nat) (mw : Nat) : Nat → List Nat → List Nat
  | 0, a => a
  | c + 1, a => redLoop body mw c (body (mw + c + 1) a)

/-! ## pp_red.c -/

/-- loop body of ppRedTrinomial -/
def ppRedTriBody (w mb mw kb kw : Nat) (n : Nat) (a : List Nat) : List Nat :=
  let hi := a.getD n 0
  let a := xorAt a (n - mw - 1) (wshl w hi (w - mb))
  let a := xorAt a (n - mw) (wshr hi mb)
  let a := xorAt a (n - kw - 1) (if kb ≠ 0 then wshl w hi (w - kb) else 0)
  xorAt a (n - kw) (wshr hi kb)

/-- ppRedTrinomial(a, {m, k}): the array after the call -/
def ppRedTrinomialArr (w : Nat) (a : List Nat) (m k : Nat) : List Nat :=
  let mb := m % w
  let mw := m / w
  let kb := (m - k) % w
  let kw := (m - k) / w
  let a := redLoop (ppRedTriBody w mb mw kb kw) mw (2 * wOfB w m - 1 - mw) a
  -- слово, на которое попадает моном x^m  (n == mw)
  let n := mw
  let hi := wshr (a.getD n 0) mb
  let a := xorAt a 0 hi
  let hi := wshl w hi mb
  let a := if kw < n ∧ kb ≠ 0 then xorAt a (n - kw - 1) (wshl w hi (w - kb)) else a
  let a := xorAt a (n - kw) (wshr hi kb)
  xorAt a n hi
def ppRedTrinomial (w : Nat) (a : List Nat) (m k : Nat) : List Nat :=
  (ppRedTrinomialArr w a m k).take (wOfB w m)

/-- loop body of ppRedPentanomial -/
def ppRedPentaBody (w mb mw l1b l1w lb lw kb kw : Nat) (n : Nat) (a : List Nat) : List Nat :=
  let hi := a.getD n 0
  let a := xorAt a (n - mw - 1) (if mb ≠ 0 then wshl w hi (w - mb) else 0)
  let a := xorAt a (n - mw) (wshr hi mb)
  let a := xorAt a (n - l1w - 1) (if l1b ≠ 0 then wshl w hi (w - l1b) else 0)
  let a := xorAt a (n - l1w) (wshr hi l1b)
  let a := xorAt a (n - lw - 1) (if lb ≠ 0 then wshl w hi (w - lb) else 0)
  let a := xorAt a (n - lw) (wshr hi lb)
  let a := xorAt a (n - kw - 1) (if kb ≠ 0 then wshl w hi (w - kb) else 0)
  xorAt a (n - kw) (wshr hi kb)

/-- the tail (n == mw) shared by ppRedPentanomial and gf2RedPentanomial -/
def ppRedPentaTail (w mb mw l1b l1w lb lw kb kw : Nat) (a : List Nat) : List Nat :=
  let n := mw
  let hi := wshr (a.getD n 0) mb
  let a := xorAt a 0 hi
  let hi := wshl w hi mb
  let a := if l1w < n ∧ l1b ≠ 0 then xorAt a (n - l1w - 1) (wshl w hi (w - l1b)) else a
  let a := xorAt a (n - l1w) (wshr hi l1b)
  let a := if lw < n ∧ lb ≠ 0 then xorAt a (n - lw - 1) (wshl w hi (w - lb)) else a
  let a := xorAt a (n - lw) (wshr hi lb)
  let a := if kw < n ∧ kb ≠ 0 then xorAt a (n - kw - 1) (wshl w hi (w - kb)) else a
  let a := xorAt a (n - kw) (wshr hi kb)
  xorAt a n hi

/-- ppRedPentanomial(a, {m, k, l, l1}): the array after the call -/
def ppRedPentanomialArr (w : Nat) (a : List Nat) (m k l l1 : Nat) : List Nat :=
  let mb := m % w
  let mw := m / w
  let l1b := (m - l1) % w
  let l1w := (m - l1) / w
  let lb := (m - l) % w
  let lw := (m - l) / w
  let kb := (m - k) % w
  let kw := (m - k) / w
  let a := redLoop (ppRedPentaBody w mb mw l1b l1w lb lw kb kw) mw (2 * wOfB w m - 1 - mw) a
  ppRedPentaTail w mb mw l1b l1w lb lw kb kw a
def ppRedPentanomial (w : Nat) (a : List Nat) (m k l l1 : Nat) : List Nat :=
  (ppRedPentanomialArr w a m k l l1).take (wOfB w m)

/-- loop body of ppRedBelt (x^128 + x^7 + x^2 + x + 1); `a[n]` is read from memory each time
    (the two stores go to other words) -/
def ppRedBeltBody (w mw : Nat) (n : Nat) (a : List Nat) : List Nat :=
  let an := a.getD n 0
  let a := xorAt a (n - mw) (an ^^^ wshl w an 1 ^^^ wshl w an 2 ^^^ wshl w an 7)
  let an := a.getD n 0
  xorAt a (n - mw + 1) (wshr an (w - 1) ^^^ wshr an (w - 2) ^^^ wshr an (w - 7))

/-- ppRedBelt(a): `while (--n >= mw)` runs n = 2 mw - 1, …, mw; the array after the call -/
def ppRedBeltArr (w : Nat) (a : List Nat) : List Nat :=
  let mw := wOfB w 128
  -- `redLoop … (mw - 1)` runs the indices (mw - 1) + c + 1 = mw + c for c = mw - 1, …, 0
  redLoop (ppRedBeltBody w mw) (mw - 1) mw a
def ppRedBelt (w : Nat) (a : List Nat) : List Nat := (ppRedBeltArr w a).take (wOfB w 128)

/-! ## gf2.c : the static reductions with the fields precomputed by gf2Create -/

/-- gf2_trinom_st as filled by gf2Create: (bm, wm, bk, wk) -/
structure Gf2Trinom where
  m : Nat
  k : Nat
  bm : Nat
  wm : Nat
  bk : Nat
  wk : Nat
deriving Repr
def Gf2Trinom.create (w m k : Nat) : Gf2Trinom :=
  { m := m, k := k, bm := m % w, wm := m / w, bk := (m - k) % w, wk := (m - k) / w }

/-- gf2RedTrinomial0 (bk == 0): the array after the call; `n = W_OF_B(m)` -/
def gf2RedTrinomial0Arr (w : Nat) (a : List Nat) (n : Nat) (p : Gf2Trinom) : List Nat :=
  let body := fun (n : Nat) (a : List Nat) =>
    let hi := a.getD n 0
    let a := xorAt a (n - p.wm - 1) (wshl w hi (w - p.bm))
    let a := xorAt a (n - p.wm) (wshr hi p.bm)
    xorAt a (n - p.wk) hi
  let a := redLoop body p.wm (2 * n - 1 - p.wm) a
  let n := p.wm
  let hi := wshr (a.getD n 0) p.bm
  let a := xorAt a 0 hi
  let hi := wshl w hi p.bm
  let a := xorAt a (n - p.wk) hi
  xorAt a n hi
def gf2RedTrinomial0 (w : Nat) (a : List Nat) (n : Nat) (p : Gf2Trinom) : List Nat :=
  (gf2RedTrinomial0Arr w a n p).take n

/-- gf2RedTrinomial1 (bk != 0) -/
def gf2RedTrinomial1Arr (w : Nat) (a : List Nat) (n : Nat) (p : Gf2Trinom) : List Nat :=
  let body := fun (n : Nat) (a : List Nat) =>
    let hi := a.getD n 0
    let a := xorAt a (n - p.wm - 1) (wshl w hi (w - p.bm))
    let a := xorAt a (n - p.wm) (wshr hi p.bm)
    let a := xorAt a (n - p.wk - 1) (wshl w hi (w - p.bk))
    xorAt a (n - p.wk) (wshr hi p.bk)
  let a := redLoop body p.wm (2 * n - 1 - p.wm) a
  let n := p.wm
  let hi := wshr (a.getD n 0) p.bm
  let a := xorAt a 0 hi
  let hi := wshl w hi p.bm
  let a := if p.wk < n then xorAt a (n - p.wk - 1) (wshl w hi (w - p.bk)) else a
  let a := xorAt a (n - p.wk) (wshr hi p.bk)
  xorAt a n hi
def gf2RedTrinomial1 (w : Nat) (a : List Nat) (n : Nat) (p : Gf2Trinom) : List Nat :=
  (gf2RedTrinomial1Arr w a n p).take n

/-- gf2_pentanom_st as filled by gf2Create -/
structure Gf2Pentanom where
  m : Nat
  k : Nat
  l : Nat
  l1 : Nat
  bm : Nat
  wm : Nat
  bk : Nat
  wk : Nat
  bl : Nat
  wl : Nat
  bl1 : Nat
  wl1 : Nat
deriving Repr
def Gf2Pentanom.create (w m k l l1 : Nat) : Gf2Pentanom :=
  { m := m, k := k, l := l, l1 := l1, bm := m % w, wm := m / w,
    bk := (m - k) % w, wk := (m - k) / w, bl := (m - l) % w, wl := (m - l) / w,
    bl1 := (m - l1) % w, wl1 := (m - l1) / w }

/-- gf2RedPentanomial: same statements as ppRedPentanomial with the precomputed fields -/
def gf2RedPentanomialArr (w : Nat) (a : List Nat) (n : Nat) (p : Gf2Pentanom) : List Nat :=
  let a := redLoop (ppRedPentaBody w p.bm p.wm p.bl1 p.wl1 p.bl p.wl p.bk p.wk) p.wm
    (2 * n - 1 - p.wm) a
  ppRedPentaTail w p.bm p.wm p.bl1 p.wl1 p.bl p.wl p.bk p.wk a
def gf2RedPentanomial (w : Nat) (a : List Nat) (n : Nat) (p : Gf2Pentanom) : List Nat :=
  (gf2RedPentanomialArr w a n p).take n

end Bee2V.C05

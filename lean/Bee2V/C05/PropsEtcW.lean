/-
C05 — the word-level models of zzJacobi and zzSqrt (ModelEtcW.lean) refine the value-level models
of ModelEtc.lean; the value-level theorems of PropsEtc.lean transfer (end-to-end corollaries).
Helper lemmas: LemmasEtcW.lean.
-/
import Bee2V.C05.LemmasEtcW
import Bee2V.C05.PropsGcdW
namespace Bee2V.C05
open Bee2V.C05.Add Bee2V.C05.GcdW Bee2V.C05.EtcW

/-! ## zzJacobi -/

/-- refinement: the word-level zzJacobi (u of MAX2(n, m) words, v of m words, the running sizes;
    zzMod(u, a, n, v, m), wwCmpW, wwIsZero, wwIsW, wwLoZeroBits, `v[0] & 7`, wwShLo + wwWordSize,
    `u[0] & 3, v[0] & 3`, zzMod(v, v, m, u, n), wwSwap + size swap) computes the value-level model,
    for every pair of lengths (n < m, n = m, n > m).  `3 ≤ w`: `v[0] & 7` must see three bits of v.
    `SizesOK w`: correctness of wordCTZ / wordCLZ behind wwLoZeroBits (PropsBits: w = 16, 32, 64). -/
theorem zzJacobiW_refines_V (w : Nat) (hw : 3 ≤ w) (hs : SizesOK w) (a b : List Nat)
    (ha : Wf w a) (hb : Wf w b) (hbp : 0 < val w b) :
    zzJacobiW w a b = zzJacobiV (val w a) (val w b) :=
  zzJacobiW_refines hw hs a b ha hb hbp

/-- end to end, word level: for odd b, zzJacobi returns the Jacobi symbol (a / b). -/
theorem zzJacobiW_spec (w : Nat) (hw : 3 ≤ w) (hs : SizesOK w) (a b : List Nat)
    (ha : Wf w a) (hb : Wf w b) (hodd : val w b % 2 = 1) :
    zzJacobiW w a b = jacobiSym (val w a : ℤ) (val w b) := by
  rw [zzJacobiW_refines hw hs a b ha hb (by omega)]
  exact zzJacobiV_spec _ _ hodd

/-- the 64-bit build. -/
theorem zzJacobiW_spec64 (a b : List Nat) (ha : Wf 64 a) (hb : Wf 64 b) (hodd : val 64 b % 2 = 1) :
    zzJacobiW 64 a b = jacobiSym (val 64 a : ℤ) (val 64 b) :=
  zzJacobiW_spec 64 (by decide) sizesOK64 a b ha hb hodd

example : zzJacobiW 16 [1001] [9907, 0, 0] = -1 ∧ zzJacobiW 16 [21, 0, 0, 0] [39, 3] = 0
    ∧ zzJacobiW 64 [2 ^ 64 - 59] [2 ^ 61 - 1, 5] = zzJacobiV (2 ^ 64 - 59) (2 ^ 61 - 1 + 5 * 2 ^ 64) := by
  decide +kernel

/-! ## zzSqrt -/

/-- zzSqrt, word level: the `a == 0` exit alone (b = 0, TRUE, (n + 1) / 2 words), without the
    `SizesOK` hypothesis; the general statement is `zzSqrtW_refines_V` / `zzSqrtW_spec` below. -/
theorem zzSqrtW_partial (w : Nat) (hw : 0 < w) (a : List Nat) (ha : Wf w a) (h0 : val w a = 0) :
    val w (zzSqrtW w a).1 = (zzSqrtV w a.length (val w a)).1
    ∧ (zzSqrtW w a).2 = (zzSqrtV w a.length (val w a)).2
    ∧ Wf w (zzSqrtW w a).1 ∧ (zzSqrtW w a).1.length = (a.length + 1) / 2 := by
  have hn : wwWordSize a = 0 := by
    rw [wordSize_eq hw a ha, h0]; exact Etc.wordSizeV_zero w
  have hv : wordSizeV w (val w a) = 0 := by rw [h0]; exact Etc.wordSizeV_zero w
  unfold zzSqrtW zzSqrtV
  simp only [hn, hv, if_true]
  exact ⟨val_replicate_zero' w _, trivial, Wf_replicate_zero' w _, List.length_replicate⟩

/-- refinement: the word-level zzSqrt (wwWordSize, wwSetBit + zzSubW2 for the start value, then
    wwCopy, wwWordSize, zzDiv, the `n - m == m && t[m] > 0` early FALSE, wwCmp, wwIsZero(r),
    `t[m] = zzAdd2(t, b, m); wwShLo(t, m + 1, 1)`) computes the value-level model: same b (as a
    value, (n + 1) / 2 words) and the same answer.  The Newton invariants `a < (t + 1)^2`,
    `t < B^((n+1)/2)` are carried through the loop (`EtcW.zzSqrtLoopW_spec`); they give the
    preconditions of zzDiv at every iteration (non-zero divisor with non-zero top word, m ≤ n) and
    `m ≤ n - m + 1` (wwCmp reads quotient words only).  `SizesOK w`: wwBitSize (PropsBits:
    w = 16, 32, 64). -/
theorem zzSqrtW_refines_V (w : Nat) (hw : 0 < w) (hs : SizesOK w) (a : List Nat) (ha : Wf w a) :
    val w (zzSqrtW w a).1 = (zzSqrtV w a.length (val w a)).1
    ∧ (zzSqrtW w a).2 = (zzSqrtV w a.length (val w a)).2
    ∧ Wf w (zzSqrtW w a).1 ∧ (zzSqrtW w a).1.length = (a.length + 1) / 2 :=
  zzSqrtW_refines hw hs a ha

/-- end to end, word level: `b = ⌊√a⌋` ((n + 1) / 2 words) and the answer is TRUE exactly for
    perfect squares. -/
theorem zzSqrtW_spec (w : Nat) (hw : 0 < w) (hs : SizesOK w) (a : List Nat) (ha : Wf w a) :
    val w (zzSqrtW w a).1 = Nat.sqrt (val w a)
    ∧ ((zzSqrtW w a).2 = true ↔ Nat.sqrt (val w a) * Nat.sqrt (val w a) = val w a)
    ∧ Wf w (zzSqrtW w a).1 ∧ (zzSqrtW w a).1.length = (a.length + 1) / 2 := by
  obtain ⟨h1, h2, h3, h4⟩ := zzSqrtW_refines hw hs a ha
  obtain ⟨g1, g2⟩ := zzSqrtV_spec w a.length (val w a) hw (Add.val_lt ha)
  rw [h1, h2]
  exact ⟨g1, g2, h3, h4⟩

/-- the 64-bit build. -/
theorem zzSqrtW_spec64 (a : List Nat) (ha : Wf 64 a) :
    val 64 (zzSqrtW 64 a).1 = Nat.sqrt (val 64 a)
    ∧ ((zzSqrtW 64 a).2 = true ↔ Nat.sqrt (val 64 a) * Nat.sqrt (val 64 a) = val 64 a) :=
  let h := zzSqrtW_spec 64 (by decide) sizesOK64 a ha
  ⟨h.1, h.2.1⟩

example : zzSqrtW 8 [0x21, 0x4e, 0x09] = ([0x0c, 0x03], false)
    ∧ zzSqrtW 8 [0x00, 0x61, 0x09] = ([0x10, 0x03], true)
    ∧ zzSqrtW 16 [0xffff, 0xffff, 0xffff] = ([0xffff, 0xff], false)
    ∧ zzSqrtW 64 [0, 0, 0] = ([0, 0], true) := by decide +kernel

end Bee2V.C05

/-
C05 — ppMulMod / ppSqrMod / ppRed (pp_mod.c, pp_red.c), ppMinPolyMod (pp_etc.c) and the gf2.c
operations gf2From / gf2To / gf2Add3 / gf2Neg2 / gf2Inv / gf2Div as gf2Create installs them
(models: ModelPpModOps.lean; lemmas: LemmasPpModOps.lean).  Word size B_PER_W ∈ {16, 32, 64}
where the word-level multiplication / division is involved.

ppMinPolyMod: `ppMinPolyModV_spec` (full: the sequence is `ppSeqBits`, bit j = constant term of
a^{2l − j} mod mod — `ppMinPolyModV_seq_pow` —, result = ppMinPolyV of it with the complete
characterisation incl. minimality).  `ppMinPolyModV_partial` is the earlier intermediate result
(kept: audited name).
-/
import Bee2V.C05.LemmasPpModOps
import Bee2V.C05.PropsGf2
namespace Bee2V.C05
open Bee2V.C05.Spec Bee2V.C05.PpModOps

/-- ppMulMod(c, a, b, mod, n): `c = a·b mod mod`, n words (mod: n > 0 words, mod[n − 1] ≠ 0). -/
theorem ppMulMod_spec (w : Nat) (hw : w = 16 ∨ w = 32 ∨ w = 64) (a b md : List Nat) (ha : Wf w a)
    (hb : Wf w b) (hmd : Wf w md) (hm : 0 < md.length) (htop : md.getD (md.length - 1) 0 ≠ 0) :
    val w (ppMulMod w a b md) = pmod (clmul (val w a) (val w b)) (val w md)
    ∧ (ppMulMod w a b md).length = md.length ∧ Wf w (ppMulMod w a b md) :=
  ppMulMod_ok hw a b md ha hb hmd hm htop

example := ppMulMod_spec 16 (Or.inl rfl) [65535, 1] [7, 9] [3, 0x8000] (by decide) (by decide)
  (by decide) (by decide) (by decide)

/-- ppSqrMod(b, a, mod, n): `b = a² mod mod`. -/
theorem ppSqrMod_spec (w : Nat) (hw : w = 16 ∨ w = 32 ∨ w = 64) (a md : List Nat) (ha : Wf w a)
    (hmd : Wf w md) (hm : 0 < md.length) (htop : md.getD (md.length - 1) 0 ≠ 0) :
    val w (ppSqrMod w a md) = pmod (clmul (val w a) (val w a)) (val w md)
    ∧ (ppSqrMod w a md).length = md.length ∧ Wf w (ppSqrMod w a md) :=
  ppSqrMod_ok hw a md ha hmd hm htop

/-- ppRed(a, mod, n) = ppMod on the 2n-word array: `a mod mod`, n words (any length of a). -/
theorem ppRed_spec (w : Nat) (hw : w = 16 ∨ w = 32 ∨ w = 64) (a md : List Nat) (ha : Wf w a)
    (hmd : Wf w md) (hm : 0 < md.length) (htop : md.getD (md.length - 1) 0 ≠ 0) :
    val w (ppRed w a md) = pmod (val w a) (val w md)
    ∧ (ppRed w a md).length = md.length ∧ Wf w (ppRed w a md) :=
  PpDiv.ppMod_ok hw a md ha hmd hm htop

example := ppRed_spec 16 (Or.inl rfl) [1, 2, 3, 4] [3, 0x8000] (by decide) (by decide) (by decide)
  (by decide)

/-- gf2From: the words carry the value of the octet string; the verdict is `m % B_PER_W == 0` (every
    n-word value is accepted) or `deg < m`. -/
theorem gf2From_spec (w O m : Nat) (hO : 0 < O) (hw8 : w = 8 * O) (o : List Nat) (ho : Wf 8 o) :
    val w (gf2From w m o).1 = val 8 o ∧ Wf w (gf2From w m o).1
    ∧ (gf2From w m o).1.length = (o.length + O - 1) / O
    ∧ ((gf2From w m o).2 = true ↔ (m % w = 0 ∨ val 8 o < 2 ^ m)) :=
  gf2From_ok O hO hw8 m o ho

example : (gf2From 16 17 [0xff, 0xff, 0x01]).2 = true ∧ (gf2From 16 17 [0xff, 0xff, 0x03]).2 = false := by
  decide

/-- gf2To ∘ gf2From = id on strings of O_OF_B(m) octets. -/
theorem gf2To_gf2From (w O m : Nat) (hO : 0 < O) (hw8 : w = 8 * O) (o : List Nat) (ho : Wf 8 o)
    (hl : o.length = oOfB m) : gf2To w m (gf2From w m o).1 = o :=
  gf2To_From O hO hw8 m o ho hl

/-- gf2Add3 (= f->sub): the xor of the values. -/
theorem gf2Add3_spec (w : Nat) (a b : List Nat) (ha : Wf w a) (hb : Wf w b) (hl : a.length = b.length) :
    val w (gf2Add3 a b) = val w a ^^^ val w b ∧ Wf w (gf2Add3 a b) ∧ (gf2Add3 a b).length = a.length :=
  val_zipWith_xor a b ha hb hl

/-- gf2Neg2: −a = a. -/
theorem gf2Neg2_spec (a : List Nat) : gf2Neg2 a = a := rfl

/-- gf2Div(b, divident, a, f) incl. the m % B_PER_W == 0 branch: the value is ppDivModV's, i.e. the
    field quotient when gcd(a, mod) = 1 and 0 otherwise; n = W_OF_B(m) words. -/
theorem gf2Div_spec (w m : Nat) (hw0 : 0 < w) (md dv a : List Nat)
    (hmd1 : val w md % 2 = 1) (hdeg : (val w md).log2 = m) (hdv : val w dv < 2 ^ m) :
    val w (gf2Div w m md dv a) = ppDivModV (val w dv) (val w a) (val w md)
    ∧ (gf2Div w m md dv a).length = wOfB w m ∧ Wf w (gf2Div w m md dv a)
    ∧ (pgcd (val w a) (val w md) = 1 →
        pmod (clmul (val w (gf2Div w m md dv a)) (val w a)) (val w md) = val w dv)
    ∧ (pgcd (val w a) (val w md) ≠ 1 → val w (gf2Div w m md dv a) = 0) :=
  gf2Div_ok hw0 m md dv a hmd1 hdeg hdv

/-- gf2Inv(b, a, f). -/
theorem gf2Inv_spec (w m : Nat) (hw0 : 0 < w) (md a : List Nat)
    (hmd1 : val w md % 2 = 1) (hdeg : (val w md).log2 = m) (hm : 0 < m) :
    val w (gf2Inv w m md a) = ppInvModV (val w a) (val w md)
    ∧ (gf2Inv w m md a).length = wOfB w m ∧ Wf w (gf2Inv w m md a)
    ∧ (pgcd (val w a) (val w md) = 1 →
        pmod (clmul (val w (gf2Inv w m md a)) (val w a)) (val w md) = 1)
    ∧ (pgcd (val w a) (val w md) ≠ 1 → val w (gf2Inv w m md a) = 0) :=
  gf2Inv_ok hw0 m md a hmd1 hdeg hm

example : val 16 (gf2Inv 16 16 [0x2b, 1] [0x1234]) = ppInvModV 0x1234 (val 16 [0x2b, 1]) := by decide

/-- ppMinPolyMod: the result is `ppMinPolyV` of the computed sequence and inherits its
    characterisation (non-zero, degree ≤ l, key equation, minimality). -/
theorem ppMinPolyModV_partial (a md : Nat) (hl : 1 ≤ md.log2) :
    ∃ s, ppMinPolyModV a md = ppMinPolyV s md.log2
      ∧ ppMinPolyModV a md ≠ 0 ∧ (ppMinPolyModV a md).log2 ≤ md.log2
      ∧ clmul (ppMinPolyModV a md) (s % 2 ^ (2 * md.log2)) % 2 ^ (2 * md.log2) < 2 ^ md.log2 := by
  refine ⟨_, rfl, ?_⟩
  obtain ⟨h1, h2, h3, _⟩ := ppMinPolyV_spec
    (ppMinPolySeq a md (2 * md.log2 - 1) a ((a % 2) <<< (2 * md.log2 - 1)) % 2 ^ (2 * md.log2)) md.log2 hl
  exact ⟨h1, h2, h3⟩

example : ppMinPolyModV 0b110 0b10011 = 0b111 := by decide +kernel


/-- ppMinPolyMod at full strength (deg mod = l ≥ 1).  The sequence handed to ppMinPoly is
    `ppSeqBits a md l (2l)`: it has 2l bits and bit j is the constant term of the (2l − 1 − j)-fold
    iterate of t ↦ t·a mod md started at a (for a reduced: of a^{2l−j} mod md, see
    `ppMinPolyModV_seq_pow`).  The result is ModelGf2's `ppMinPolyV` of that sequence, with its
    complete characterisation: non-zero, degree ≤ l, key equation, and minimality. -/
theorem ppMinPolyModV_spec (a md : Nat) (hl : 1 ≤ md.log2) :
    ppMinPolyModV a md = ppMinPolyV (ppSeqBits a md md.log2 (2 * md.log2)) md.log2
    ∧ ppSeqBits a md md.log2 (2 * md.log2) < 2 ^ (2 * md.log2)
    ∧ (∀ j, j < 2 * md.log2 → (ppSeqBits a md md.log2 (2 * md.log2)).testBit j
          = decide (ppIter a md (2 * md.log2 - 1 - j) a % 2 = 1))
    ∧ ppMinPolyModV a md ≠ 0 ∧ (ppMinPolyModV a md).log2 ≤ md.log2
    ∧ clmul (ppMinPolyModV a md) (ppSeqBits a md md.log2 (2 * md.log2)) % 2 ^ (2 * md.log2) < 2 ^ md.log2
    ∧ ∀ g r k, g ≠ 0 → g.log2 ≤ md.log2 → r < 2 ^ md.log2 →
        clmul g (ppSeqBits a md md.log2 (2 * md.log2)) ^^^ r = clmul k (2 ^ (2 * md.log2)) →
        (∃ h', g = clmul h' (ppMinPolyModV a md)) ∧ (ppMinPolyModV a md).log2 ≤ g.log2 := by
  have hlt := ppSeqBits_lt a md md.log2 (2 * md.log2)
  have hmod : ppSeqBits a md md.log2 (2 * md.log2) % 2 ^ (2 * md.log2)
      = ppSeqBits a md md.log2 (2 * md.log2) := Nat.mod_eq_of_lt hlt
  have heq : ppMinPolyModV a md = ppMinPolyV (ppSeqBits a md md.log2 (2 * md.log2)) md.log2 := by
    unfold ppMinPolyModV
    dsimp only
    rw [ppMinPolySeq_eq a md md.log2 hl, hmod]
  obtain ⟨h1, h2, h3, h4⟩ := ppMinPolyV_spec (ppSeqBits a md md.log2 (2 * md.log2)) md.log2 hl
  rw [hmod] at h3 h4
  rw [← heq] at h1 h2 h3 h4
  refine ⟨heq, hlt, ?_, h1, h2, h3, h4⟩
  intro j hj
  rw [ppSeqBits_testBit]
  simp [hj]

/-- for a reduced a (deg a < deg mod, the precondition `a < mod`), bit j of the sequence is the
    constant term of a^{2l−j} mod mod (`cpow a k` = a^k in GF(2)[x]). -/
theorem ppMinPolyModV_seq_pow (a md : Nat) (hl : 1 ≤ md.log2) (ha : a < 2 ^ md.log2) :
    ∀ j, j < 2 * md.log2 → (ppSeqBits a md md.log2 (2 * md.log2)).testBit j
      = decide (pmod (cpow a (2 * md.log2 - j)) md % 2 = 1) := by
  intro j hj
  have hmd : md ≠ 0 := by
    intro h0; rw [h0] at hl; simp [Nat.log2_zero] at hl
  rw [(ppMinPolyModV_spec a md hl).2.2.1 j hj, ppIter_pow hmd ha,
    show 2 * md.log2 - 1 - j + 1 = 2 * md.log2 - j by omega]

example : ppMinPolyModV 0b10 0b1011 = ppMinPolyV (ppSeqBits 0b10 0b1011 3 6) 3
    ∧ ppMinPolyModV 0b10 0b1011 = 0b1011 := by decide +kernel

end Bee2V.C05

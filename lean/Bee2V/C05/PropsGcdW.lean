/-
C05 — the word-level models of zz_gcd.c (ModelGcdW.lean) refine the value-level models
(ModelGcd.lean): `val w (word-level result) = value-level result`, with Wf and the C length.
All value-level theorems of PropsGcd.lean therefore hold for the word-level code; the
transferred end-to-end statements are given as corollaries.  Helper lemmas: LemmasGcdW.lean.
-/
import Bee2V.C05.LemmasGcdW
namespace Bee2V.C05
open Bee2V.C05.Add Bee2V.C05.GcdW

/-! ## zzDivMod -/

/-- refinement: the word-level zzDivMod (n-word buffers u, v, da, da1, normalised lengths nu, nv,
    wwShLo / wwShLoCarry / zzAdd2 / zzSub2 / zzSubW2 / wwCmp / wwCmp2 / wwWordSize / wwIsW) computes
    the value-level model, n words.  (`divident < mod` is the header's precondition.) -/
theorem zzDivModW_refines_V (w : Nat) (hw : 0 < w) (d a mod : List Nat)
    (hd : Wf w d) (ha : Wf w a) (hm : Wf w mod)
    (hdl : d.length = mod.length) (hal : a.length = mod.length) (hdm : val w d < val w mod) :
    val w (zzDivModW w d a mod) = zzDivModV (val w d) (val w a) (val w mod)
    ∧ Wf w (zzDivModW w d a mod) ∧ (zzDivModW w d a mod).length = mod.length :=
  zzDivModW_refines hw d a mod hd ha hm hdl hal hdm

/-- end to end, word level: for odd mod, a < mod, divident < mod:
    gcd(a, mod) = 1 → b a ≡ divident (mod mod), b < mod;  gcd(a, mod) ≠ 1 → b = 0. -/
theorem zzDivModW_spec (w : Nat) (hw : 0 < w) (d a mod : List Nat)
    (hd : Wf w d) (ha : Wf w a) (hm : Wf w mod)
    (hdl : d.length = mod.length) (hal : a.length = mod.length)
    (hodd : val w mod % 2 = 1) (ham : val w a < val w mod) (hdm : val w d < val w mod) :
    (Nat.gcd (val w a) (val w mod) = 1 →
        (val w (zzDivModW w d a mod) * val w a) % val w mod = val w d % val w mod
        ∧ val w (zzDivModW w d a mod) < val w mod)
    ∧ (Nat.gcd (val w a) (val w mod) ≠ 1 → val w (zzDivModW w d a mod) = 0)
    ∧ Wf w (zzDivModW w d a mod) ∧ (zzDivModW w d a mod).length = mod.length := by
  obtain ⟨h1, h2, h3⟩ := zzDivModW_refines hw d a mod hd ha hm hdl hal hdm
  rw [h1]
  exact ⟨fun hg => zzDivModV_spec _ _ _ hodd ham hdm hg,
    fun hg => zzDivModV_not_coprime _ _ _ hodd ham hdm hg, h2, h3⟩

example : zzDivModW 8 [57, 48] [7, 200] [1, 255] = toWords 8 2 (zzDivModV (57 + 256 * 48) (7 + 256 * 200) (1 + 256 * 255))
    ∧ (val 8 (zzDivModW 8 [57, 48] [7, 200] [1, 255]) * (7 + 256 * 200)) % (1 + 256 * 255) = 57 + 256 * 48
    ∧ zzDivModW 8 [5, 0] [0, 0] [1, 255] = [0, 0] := by decide +kernel

/-! ## zzGCD

`SizesOK w` packages what zz_gcd.c uses of wwBitSize / wwLoZeroBits (their wordCLZ / wordCTZ are
table- or scan-based per word size); it holds for the three build sizes by PropsBits. -/

theorem sizesOK16 : SizesOK 16 := fun a h =>
  ⟨⟨(wwBitSize16_spec a h).1.1, (wwBitSize16_spec a h).1.2.1⟩, (wwLoZeroBits16_spec a h).1⟩
theorem sizesOK32 : SizesOK 32 := fun a h =>
  ⟨⟨(wwSizes32_spec a h).1.1, (wwSizes32_spec a h).1.2.1⟩, (wwSizes32_spec a h).2⟩
theorem sizesOK64 : SizesOK 64 := fun a h =>
  ⟨⟨(wwSizes64_spec a h).1.1, (wwSizes64_spec a h).1.2.1⟩, (wwSizes64_spec a h).2⟩

/-- refinement: the word-level zzGCD (buffers u, v with the running lengths n, m; wwLoZeroBits,
    wwShLo, wwWordSize, wwCmp2, zzSub2 + zzSubW2, and the final
    `wwShHi(d, W_OF_B(wwBitSize(d, m) + s), s)` on that window) computes the value-level model,
    min(n, m) words (header: a, b ≠ 0). -/
theorem zzGCDW_refines_V (w : Nat) (hw : 0 < w) (hs : SizesOK w) (a b : List Nat)
    (ha : Wf w a) (hb : Wf w b) (hap : 0 < val w a) (hbp : 0 < val w b) :
    val w (zzGCDW w a b) = zzGCDV (val w a) (val w b)
    ∧ Wf w (zzGCDW w a b) ∧ (zzGCDW w a b).length = min a.length b.length :=
  zzGCDW_refines hw hs a b ha hb hap hbp

/-- end to end, word level: zzGCD computes the greatest common divisor. -/
theorem zzGCDW_spec (w : Nat) (hw : 0 < w) (hs : SizesOK w) (a b : List Nat)
    (ha : Wf w a) (hb : Wf w b) (hap : 0 < val w a) (hbp : 0 < val w b) :
    val w (zzGCDW w a b) = Nat.gcd (val w a) (val w b)
    ∧ Wf w (zzGCDW w a b) ∧ (zzGCDW w a b).length = min a.length b.length := by
  obtain ⟨h1, h2, h3⟩ := zzGCDW_refines hw hs a b ha hb hap hbp
  exact ⟨by rw [h1, zzGCDV_spec _ _ hap hbp], h2, h3⟩

/-- the 64-bit build. -/
theorem zzGCDW_spec64 (a b : List Nat) (ha : Wf 64 a) (hb : Wf 64 b)
    (hap : 0 < val 64 a) (hbp : 0 < val 64 b) :
    val 64 (zzGCDW 64 a b) = Nat.gcd (val 64 a) (val 64 b)
    ∧ Wf 64 (zzGCDW 64 a b) ∧ (zzGCDW 64 a b).length = min a.length b.length :=
  zzGCDW_spec 64 (by decide) sizesOK64 a b ha hb hap hbp

example : zzGCDW 64 [0, 96, 0] [0, 40] = [0, 8] ∧ zzGCDW 16 [0, 0, 12] [0, 18, 0, 0] = [0, 6, 0] := by
  decide +kernel

/-! ## zzAlmostInvMod -/

/-- refinement: the word-level zzAlmostInvMod (u, v with nu, nv; the (n+1)-word da0, da;
    zzIsEven, wwShLo, wwShHi, wwCmp2, zzSub2 + zzSubW2, zzAdd2 on n + 1 words, the final
    `wwCmp2(da, n + 1, mod, n) >= 0 → da[n] -= zzSub2(da, mod, n)` and zzNegMod) computes the
    value-level model: same b (as a value, n words) and the same k.  The (n+1)-word buffers never
    overflow because `mod = v da0 + u da` with u, v ≥ 1 (`GcdW.zzAlmostInvLoopW_spec`).
    Header: mod odd, mod[n-1] ≠ 0 (`2^(w (n-1)) ≤ mod`), a ≠ 0. -/
theorem zzAlmostInvModW_refines_V (w : Nat) (hw : 0 < w) (a mod : List Nat)
    (ha : Wf w a) (hm : Wf w mod) (hal : a.length = mod.length) (hodd : val w mod % 2 = 1)
    (htop : 0 < mod.length → 2 ^ (w * (mod.length - 1)) ≤ val w mod) (hap : 0 < val w a) :
    val w (zzAlmostInvModW w a mod).1 = (zzAlmostInvModV (val w a) (val w mod)).1
    ∧ (zzAlmostInvModW w a mod).2 = (zzAlmostInvModV (val w a) (val w mod)).2
    ∧ Wf w (zzAlmostInvModW w a mod).1 ∧ (zzAlmostInvModW w a mod).1.length = mod.length :=
  zzAlmostInvModW_refines hw a mod ha hm hal hodd htop hap

/-- end to end, word level (mod odd, mod[n-1] ≠ 0, 0 < a < mod):
    gcd(a, mod) = 1 → b a ≡ 2^k (mod mod), b < mod, bitlen(mod) ≤ k ≤ 2 bitlen(mod);
    gcd(a, mod) ≠ 1 → b = 0. -/
theorem zzAlmostInvModW_spec (w : Nat) (hw : 0 < w) (a mod : List Nat)
    (ha : Wf w a) (hm : Wf w mod) (hal : a.length = mod.length) (hodd : val w mod % 2 = 1)
    (htop : 0 < mod.length → 2 ^ (w * (mod.length - 1)) ≤ val w mod)
    (hap : 0 < val w a) (ham : val w a < val w mod) :
    (Nat.gcd (val w a) (val w mod) = 1 →
        (val w (zzAlmostInvModW w a mod).1 * val w a) % val w mod
          = 2 ^ (zzAlmostInvModW w a mod).2 % val w mod
        ∧ val w (zzAlmostInvModW w a mod).1 < val w mod
        ∧ Nat.log2 (val w mod) + 1 ≤ (zzAlmostInvModW w a mod).2
        ∧ (zzAlmostInvModW w a mod).2 ≤ 2 * (Nat.log2 (val w mod) + 1))
    ∧ (Nat.gcd (val w a) (val w mod) ≠ 1 → val w (zzAlmostInvModW w a mod).1 = 0)
    ∧ Wf w (zzAlmostInvModW w a mod).1 ∧ (zzAlmostInvModW w a mod).1.length = mod.length := by
  obtain ⟨h1, h2, h3, h4⟩ := zzAlmostInvModW_refines hw a mod ha hm hal hodd htop hap
  rw [h1, h2]
  refine ⟨fun hg => ?_, fun hg => zzAlmostInvModV_not_coprime _ _ hodd hap hg, h3, h4⟩
  obtain ⟨s1, s2, _⟩ := zzAlmostInvModV_spec _ _ hodd hap ham hg
  obtain ⟨_, _, c3, c4⟩ := zzAlmostInvModV_count _ _ hodd hap ham hg
  exact ⟨s1, s2, c3, c4⟩

example : zzAlmostInvModW 8 [7, 200] [1, 255] = (toWords 8 2 (zzAlmostInvModV (7 + 256 * 200) (1 + 256 * 255)).1,
      (zzAlmostInvModV (7 + 256 * 200) (1 + 256 * 255)).2)
    ∧ (val 8 (zzAlmostInvModW 8 [7, 200] [1, 255]).1 * (7 + 256 * 200)) % (1 + 256 * 255)
        = 2 ^ (zzAlmostInvModW 8 [7, 200] [1, 255]).2 % (1 + 256 * 255) := by decide +kernel

/-! ## zzExGCD -/

/-- refinement: the word-level zzExGCD (aa, bb with the normalised n, m; u, v with nu, mv; the
    coefficient buffers da, da1 on m words and db, db1 on n words; wwShLo / wwShLoCarry + zzAdd2 in
    the halving loops, the `>` corrections `zzAdd2 … || wwCmp … > 0 → zzSub2`, the final copy and
    `wwShHi(d, W_OF_B(wwBitSize(d, nu) + s), s)`) computes the value-level model:
    d (min(n, m) words), da (m words), db (n words).  Header: a, b ≠ 0. -/
theorem zzExGCDW_refines_V (w : Nat) (hw : 0 < w) (hs : SizesOK w) (a b : List Nat)
    (ha : Wf w a) (hb : Wf w b) (hap : 0 < val w a) (hbp : 0 < val w b) :
    val w (zzExGCDW w a b).1 = (zzExGCDV (val w a) (val w b)).1
    ∧ val w (zzExGCDW w a b).2.1 = (zzExGCDV (val w a) (val w b)).2.1
    ∧ val w (zzExGCDW w a b).2.2 = (zzExGCDV (val w a) (val w b)).2.2
    ∧ Wf w (zzExGCDW w a b).1 ∧ (zzExGCDW w a b).1.length = min a.length b.length
    ∧ Wf w (zzExGCDW w a b).2.1 ∧ (zzExGCDW w a b).2.1.length = b.length
    ∧ Wf w (zzExGCDW w a b).2.2 ∧ (zzExGCDW w a b).2.2.length = a.length :=
  zzExGCDW_refines hw hs a b ha hb hap hbp

/-- end to end, word level: `d = gcd(a, b)` and the Bezout identity `da a = d + db b`
    (i.e. `da a - db b = d`), with `da ≤ b`, `db ≤ a`. -/
theorem zzExGCDW_spec (w : Nat) (hw : 0 < w) (hs : SizesOK w) (a b : List Nat)
    (ha : Wf w a) (hb : Wf w b) (hap : 0 < val w a) (hbp : 0 < val w b) :
    val w (zzExGCDW w a b).1 = Nat.gcd (val w a) (val w b)
    ∧ val w (zzExGCDW w a b).2.1 * val w a
        = val w (zzExGCDW w a b).1 + val w (zzExGCDW w a b).2.2 * val w b
    ∧ val w (zzExGCDW w a b).2.1 ≤ val w b ∧ val w (zzExGCDW w a b).2.2 ≤ val w a
    ∧ Wf w (zzExGCDW w a b).1 ∧ (zzExGCDW w a b).1.length = min a.length b.length
    ∧ Wf w (zzExGCDW w a b).2.1 ∧ (zzExGCDW w a b).2.1.length = b.length
    ∧ Wf w (zzExGCDW w a b).2.2 ∧ (zzExGCDW w a b).2.2.length = a.length := by
  obtain ⟨h1, h2, h3, h4⟩ := zzExGCDW_refines hw hs a b ha hb hap hbp
  obtain ⟨g1, g2, g3, g4⟩ := zzExGCDV_spec (val w a) (val w b) hap hbp
  rw [h1, h2, h3]
  exact ⟨g1, g2, g3, g4, h4⟩

/-- the 64-bit build. -/
theorem zzExGCDW_spec64 (a b : List Nat) (ha : Wf 64 a) (hb : Wf 64 b)
    (hap : 0 < val 64 a) (hbp : 0 < val 64 b) :
    val 64 (zzExGCDW 64 a b).1 = Nat.gcd (val 64 a) (val 64 b)
    ∧ val 64 (zzExGCDW 64 a b).2.1 * val 64 a
        = val 64 (zzExGCDW 64 a b).1 + val 64 (zzExGCDW 64 a b).2.2 * val 64 b :=
  let h := zzExGCDW_spec 64 (by decide) sizesOK64 a b ha hb hap hbp
  ⟨h.1, h.2.1⟩

example : zzExGCDW 16 [0, 12] [0, 18, 0] = ([0, 6], [5, 0, 0], [3, 0])
    ∧ 5 * (12 * 65536) = 6 * 65536 + 3 * (18 * 65536) := by decide +kernel

/-! ## zzInvMod -/

/-- word-level zzInvMod (`wwSetW(divident, n, 1)` + zzDivMod) computes the value-level zzDivModV
    with divident 1; end to end for odd mod > 1, a < mod:
    gcd = 1 → b a ≡ 1 (mod mod), b < mod; gcd ≠ 1 → b = 0. -/
theorem zzInvModW_spec (w : Nat) (hw : 0 < w) (a mod : List Nat)
    (ha : Wf w a) (hm : Wf w mod) (hal : a.length = mod.length)
    (hodd : val w mod % 2 = 1) (hm1 : 1 < val w mod) (ham : val w a < val w mod) :
    val w (zzInvModW w a mod) = zzDivModV 1 (val w a) (val w mod)
    ∧ (Nat.gcd (val w a) (val w mod) = 1 →
        (val w (zzInvModW w a mod) * val w a) % val w mod = 1
        ∧ val w (zzInvModW w a mod) < val w mod)
    ∧ (Nat.gcd (val w a) (val w mod) ≠ 1 → val w (zzInvModW w a mod) = 0)
    ∧ Wf w (zzInvModW w a mod) ∧ (zzInvModW w a mod).length = mod.length := by
  have hne : mod ≠ [] := by
    intro h; rw [h] at hm1; simp [val] at hm1
  have h2w := two_le_two_pow hw
  obtain ⟨s1, s2, s3⟩ := wwSetW_spec (w := w) mod 1 hne (by omega)
  obtain ⟨h1, h2, h3⟩ := zzDivModW_refines hw (wwSetW mod 1) a mod s2 ha hm s1 hal (by rw [s3]; exact hm1)
  rw [s3] at h1
  unfold zzInvModW
  rw [h1]
  refine ⟨rfl, fun hg => ?_, fun hg => zzDivModV_not_coprime 1 _ _ hodd ham hm1 hg, h2, h3⟩
  obtain ⟨e1, e2⟩ := zzDivModV_spec 1 _ _ hodd ham hm1 hg
  rw [Nat.mod_eq_of_lt hm1] at e1
  exact ⟨e1, e2⟩

example : (val 8 (zzInvModW 8 [7, 200] [1, 255]) * (7 + 256 * 200)) % (1 + 256 * 255) = 1
    ∧ zzInvModW 8 [3, 0] [9, 0] = [0, 0] := by decide +kernel

end Bee2V.C05

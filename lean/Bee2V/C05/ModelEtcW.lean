/-
C05 — WORD-LEVEL code-shaped models of zzJacobi and zzSqrt (src/math/zz/zz_etc.c); the
value-level models are in ModelEtc.lean and the refinement `word level = value level` is proved
in PropsEtcW.lean.

zzJacobi (current layout): u has MAX2(n, m) words, v has m words, the running sizes n, m are
carried as the C does.  Every statement acts on the prefixes u[0 .. n), v[0 .. m):
`zzMod(u, a, n, v, m)` writes m words into u, `wwShLo(u, n, s)`, `zzMod(v, v, m, u, n)` writes n
words into v, `wwSwap(u, v, n)` exchanges the first n words, then the sizes are exchanged.
Words above the running sizes are stale and never read.  `v[0] & 7`, `u[0] & 3` are word
operations on the low word.  The functions used are the models of ModelAdd / ModelBits / ModelDiv
(default = SAFE editions).  Fuel: the same as in ModelEtc (`val b + 1`).

No Mathlib (imported by the native driver).
-/
import Bee2V.C05.ModelAdd
import Bee2V.C05.ModelBits
import Bee2V.C05.ModelDiv
import Bee2V.C05.ModelEtc
import Bee2V.C05.ModelGcdW
namespace Bee2V.C05

/-! ## zzJacobi -/

/-- the `while (wwCmpW(v, m, 1) > 0)` loop of zzJacobi; carries the buffers u, v, the sizes n, m
    and t -/
def zzJacobiLoopW (w : Nat) : Nat → List Nat → Nat → List Nat → Nat → Int → Int
  | 0, _, _, _, _, t => t
  | f + 1, u, n, v, m, t =>
    if wwCmpW_safe w (v.take m) 1 > 0 then
      if wwIsZero_safe (u.take n) then 0              -- t = 0; break
      else if wwIsW_safe (u.take n) 1 then t          -- break
      else
        -- s <- wwLoZeroBits(u, n)
        let s := wwLoZeroBits w (u.take n)
        -- s odd, v ≡ 3, 5 (mod 8) => t <- -t
        let t := if s % 2 = 1 ∧ (v.getD 0 0 &&& 7 = 3 ∨ v.getD 0 0 &&& 7 = 5) then -t else t
        -- u <- u / 2^s; n <- wwWordSize(u, n)
        let u := onPrefixW n (fun p => wwShLo w p s) u
        let n := wwWordSize (u.take n)
        -- u, v ≡ 3 (mod 4) => t <- -t
        let t := if u.getD 0 0 &&& 3 = 3 ∧ v.getD 0 0 &&& 3 = 3 then -t else t
        -- v <- v mod u (n words); m <- wwWordSize(v, n)
        let v := zzMod w (v.take m) (u.take n) ++ v.drop n
        let m := wwWordSize (v.take n)
        -- wwSwap(u, v, n); sizes exchanged
        let sw := wwSwap (u.take n) (v.take n)
        zzJacobiLoopW w f (sw.1 ++ u.drop n) m (sw.2 ++ v.drop n) n t
    else t

/-- zzJacobi(a, n, b, m, stack), b odd -/
def zzJacobiW (w : Nat) (a b : List Nat) : Int :=
  let n0 := a.length
  let m0 := b.length
  -- v <- b; m <- wwWordSize(v, m)
  let v := b
  let m := wwWordSize v
  -- u <- a mod v (m words of the MAX2(n, m)-word buffer; the rest is not initialised: 0 here)
  let u := zzMod w a (v.take m) ++ List.replicate (max n0 m0 - m) 0
  let n := wwWordSize (u.take m)
  zzJacobiLoopW w (val w b + 1) u n v m 1

/-! ## zzSqrt -/

/-- the `while (1)` loop of zzSqrt; `a` is the normalised operand (n words), b the result buffer
    ((n0 + 1) / 2 words), t the (m0 + 1)-word buffer, m the running word count; returns (b, answer) -/
def zzSqrtLoopW (w : Nat) (a : List Nat) : Nat → List Nat → List Nat → Nat → List Nat × Bool
  -- out of fuel (unreachable: PropsEtcW): the pending `wwCopy(b, t, m)` is done, as the
  -- value-level model returns t
  | 0, b, t, m => (t.take m ++ b.drop m, false)
  | f + 1, b, t, m =>
    -- wwCopy(b, t, m); m = wwWordSize(b, m)
    let b := t.take m ++ b.drop m
    let m := wwWordSize (b.take m)
    -- zzDiv(t, r, a, n, b, m): quotient (n - m + 1 words) into t, remainder r (m words)
    let qr := zzDiv w a (b.take m)
    let t := qr.1 ++ t.drop qr.1.length
    -- if (n - m == m && t[m] > 0) return FALSE
    if a.length - m = m ∧ t.getD m 0 > 0 then (b, false)
    else
      let cmp := wwCmp_safe (b.take m) (t.take m)
      if cmp = 0 then (b, wwIsZero_safe qr.2)
      else if cmp < 0 then (b, false)
      else
        -- t[m] = zzAdd2(t, b, m); wwShLo(t, m + 1, 1)
        let s := zzAdd2 w (t.take m) (b.take m)
        let t := s.1 ++ [s.2] ++ t.drop (m + 1)
        let t := onPrefixW (m + 1) (fun p => wwShLo w p 1) t
        zzSqrtLoopW w a f b t m

/-- zzSqrt(b, a, n, stack): (b of (n + 1) / 2 words, return value) -/
def zzSqrtW (w : Nat) (a : List Nat) : List Nat × Bool :=
  let m := (a.length + 1) / 2
  let n := wwWordSize a
  if n = 0 then (List.replicate m 0, true)
  else
    -- wwSetZero(t, m + 1); wwSetBit(t, (wwBitSize(a, n) + 1) / 2, 1); zzSubW2(t, m + 1, 1)
    let t := wwSetBit w (List.replicate (m + 1) 0) ((wwBitSize w (a.take n) + 1) / 2) true
    let t := (zzSubW2 w t 1).1
    zzSqrtLoopW w (a.take n) (val w t + 1) (List.replicate m 0) t m

end Bee2V.C05

/-
C05 — code-shaped executable models of zzDiv and zzMod (src/math/zz/zz_mul.c, Knuth's
algorithm D in the form of HAC 14.20).

Same conventions as ModelMul.lean.  Callees are the models of ModelAdd/ModelMul
(`wwCmp2` = default = SAFE edition, `zzDivW`, `zzModW`, `zzMulW`, `zzSub2`, `zzSubMulW`,
`zzAdd2`).  The three ww.c helpers used here are modelled LOCALLY at value level (ModelBits.lean
belongs to another part of the proof and is not imported):
  `clz w x`      — wordCLZ(x) for x ≠ 0: number of leading zero bits of the w-bit word x,
  `shHi w n a s` — wwShHi(a, n, s): the n low words of `a * 2^s`,
  `shLo w n a s` — wwShLo(a, n, s): the n words of `a / 2^s`.

The digit loop `for (i = n; i >= m; --i)` is a structural recursion on the number `j + 1` of
iterations left (`i = m + j`), carrying the array `divident` (n + 1 words); iteration `i`
produces the quotient word `q[i - m] = q[j]`.  The `while (wwCmp2(mul, 3, divident + i - 2, 3) > 0)`
refinement has a fuel counter making the model total (at most two iterations happen for a
normalised divisor).

No Mathlib (imported by the native driver).
-/
import Bee2V.C05.ModelMul
namespace Bee2V.C05

/-- wordCLZ(x), x ≠ 0 (for x = 0 the C returns B_PER_W) -/
def clz (w x : Nat) : Nat := if x = 0 then w else w - (Nat.log2 x + 1)

/-- wwShHi(a, n, shift) at value level -/
def shHi (w n : Nat) (a : List Nat) (s : Nat) : List Nat := toWords w n (val w a * 2 ^ s)

/-- wwShLo(a, n, shift) at value level -/
def shLo (w n : Nat) (a : List Nat) (s : Nat) : List Nat := toWords w n (val w a / 2 ^ s)

/-- the refinement loop
    `while (wwCmp2(mul, 3, divident + i - 2, 3) > 0) { q[i - m]--; mul[2] -= zzSub2(mul, divisor + m - 2, 2); }`
    `v` = divisor[m-2 .. m), `top3` = divident[i-2 .. i], `mul` = 3 words -/
def zzDivRefine (w : Nat) (v top3 : List Nat) : Nat → Nat → List Nat → Nat × List Nat
  | 0, q, mul => (q, mul)
  | fuel + 1, q, mul =>
    if wwCmp2_safe mul top3 > 0 then
      let r := zzSub2 w (mul.take 2) v
      let mul2 := wsub w ((mul.drop 2).headD 0) r.2
      zzDivRefine w v top3 fuel (wsub w q 1) (r.1 ++ [mul2])
    else (q, mul)

/-- one iteration `i = m + j` of the digit loop of zzDiv / zzMod on `divident` (n + 1 words);
    returns the quotient word and the new `divident` -/
def zzDivStep (w : Nat) (divisor : List Nat) (j : Nat) (divident : List Nat) : Nat × List Nat :=
  let m := divisor.length
  match (divident.drop (j + m - 2)).take 3, divisor.drop (m - 2) with
  | [d0, d1, d2], [v0, v1] =>
    -- trial quotient
    let hi := dshl w d2 ||| d1
    let hi := hi / v1
    let q := if hi > 2 ^ w - 1 then 2 ^ w - 1 else dlo w hi
    -- refinement
    let r := zzMulW w [v0, v1] q
    let q := (zzDivRefine w [v0, v1] [d0, d1, d2] (2 ^ w) q (r.1 ++ [r.2])).1
    -- divident -= q * divisor * B^(i-m)
    let r := zzSubMulW w ((divident.drop j).take m) divisor q
    let borrow := r.2
    let di := wsub w d2 borrow
    if di > wnot w borrow then
      -- add back
      let r2 := zzAdd2 w r.1 divisor
      (wsub w q 1, divident.take j ++ r2.1 ++ wadd w di r2.2 :: divident.drop (j + m + 1))
    else
      (q, divident.take j ++ r.1 ++ di :: divident.drop (j + m + 1))
  | _, _ => (0, divident)

/-- `for (i = n; i >= m; --i)`: `cnt` iterations left, returns (q[0 .. cnt), divident) -/
def zzDivLoop (w : Nat) (divisor : List Nat) : Nat → List Nat → List Nat × List Nat
  | 0, divident => ([], divident)
  | j + 1, divident =>
    let s := zzDivStep w divisor j divident
    let r := zzDivLoop w divisor j s.2
    (r.1 ++ [s.1], r.2)

/-- zzDiv(q, r, a, n, b, m): (quotient, n - m + 1 words; remainder, m words).
    pre: n ≥ m ≥ 1, b[m-1] ≠ 0 -/
def zzDiv (w : Nat) (a b : List Nat) : List Nat × List Nat :=
  let n := a.length
  let m := b.length
  if wwCmp2_safe a b < 0 then (List.replicate (n - m + 1) 0, a.take m)
  else if m = 1 then
    let r := zzDivW w a (b.headD 0)
    (r.1, [r.2])
  else
    let shift := clz w ((b.drop (m - 1)).headD 0)
    let divident := shHi w (n + 1) (a ++ [0]) shift
    let divisor := shHi w m b shift
    let r := zzDivLoop w divisor (n - m + 1) divident
    (r.1, (shLo w (n + 1) r.2 shift).take m)

/-- zzMod(r, a, n, b, m): remainder, m words.  pre: m ≥ 1, b[m-1] ≠ 0 (n < m allowed) -/
def zzMod (w : Nat) (a b : List Nat) : List Nat :=
  let n := a.length
  let m := b.length
  if wwCmp2_safe a b < 0 then
    if n < m then a ++ List.replicate (m - n) 0 else a.take m
  else if m = 1 then [zzModW w a (b.headD 0)]
  else
    let shift := clz w ((b.drop (m - 1)).headD 0)
    let divident := shHi w (n + 1) (a ++ [0]) shift
    let divisor := shHi w m b shift
    let r := zzDivLoop w divisor (n - m + 1) divident
    (shLo w (n + 1) r.2 shift).take m

end Bee2V.C05

/-
C05 — binary polynomials (pp): ring theory of the Nat-coded GF(2)[x] specification
(`Spec.clmul`, `Spec.pdivmod`, `Spec.pgcd`; bit i = coefficient of x^i, addition = `^^^`) and
property theorems of the value-level models of pp_gcd.c / pp_mod.c (ModelPp.lean).
Helper lemmas: LemmasPp.lean.  Every statement is for all natural numbers (all degrees).
-/
import Bee2V.C05.LemmasPp
namespace Bee2V.C05
open Bee2V.C05.Pp Bee2V.C05.Spec

/-! ## (Nat, ^^^, clmul) is a commutative ring of characteristic 2 without zero divisors -/

theorem pp_clmul_zero (a : Nat) : clmul a 0 = 0 ∧ clmul 0 a = 0 := ⟨clmul_zero a, zero_clmul a⟩
theorem pp_clmul_one (a : Nat) : clmul a 1 = a ∧ clmul 1 a = a := ⟨clmul_one a, one_clmul a⟩
/-- multiplication by x^k is the shift -/
theorem pp_clmul_two_pow (a k : Nat) : clmul a (2 ^ k) = a <<< k := clmul_two_pow a k
theorem pp_clmul_comm (a b : Nat) : clmul a b = clmul b a := clmul_comm a b
theorem pp_clmul_assoc (a b c : Nat) : clmul (clmul a b) c = clmul a (clmul b c) := clmul_assoc a b c
theorem pp_clmul_xor (a b c : Nat) : clmul a (b ^^^ c) = clmul a b ^^^ clmul a c := clmul_xor a b c
theorem pp_xor_clmul (a b c : Nat) : clmul (a ^^^ b) c = clmul a c ^^^ clmul b c := xor_clmul a b c

example : clmul 0b1011 0b110 = 0b111010 := by decide
example : clmul (clmul 7 11) 13 = clmul 7 (clmul 11 13) := pp_clmul_assoc 7 11 13

/-- deg(a b) = deg a + deg b, and a b ≠ 0, for a, b ≠ 0 (`Nat.log2` = degree) -/
theorem pp_clmul_degree (a b : Nat) (ha : a ≠ 0) (hb : b ≠ 0) :
    clmul a b ≠ 0 ∧ (clmul a b).log2 = a.log2 + b.log2 :=
  ⟨clmul_ne_zero ha hb, log2_clmul ha hb⟩

example : (clmul 0b1011 0b110).log2 = 3 + 2 := by decide

/-- constant term of a product -/
theorem pp_clmul_parity (a b : Nat) : clmul a b % 2 = (a % 2) * (b % 2) := clmul_mod_two a b

/-! ## division with remainder -/

/-- `pdivmod a b = (q, r)`: `a = q b + r` and `r = 0 ∨ deg r < deg b` (`r < 2^deg b` says both) -/
theorem pp_pdivmod_spec (a b : Nat) (hb : b ≠ 0) :
    a = clmul (pdivmod a b).1 b ^^^ (pdivmod a b).2
    ∧ ((pdivmod a b).2 = 0 ∨ (pdivmod a b).2.log2 < b.log2) := by
  obtain ⟨h1, h2⟩ := pdivmod_spec a b hb
  refine ⟨h1.symm, ?_⟩
  by_cases hr : (pdivmod a b).2 = 0
  · exact Or.inl hr
  · exact Or.inr ((Nat.log2_lt hr).2 h2)

example : pdivmod 0b111010 0b110 = (0b1011, 0) := by decide
example : pdivmod 0b111011 0b110 = (0b1011, 1) := by decide

/-- quotient and remainder are unique -/
theorem pp_pdivmod_unique (a b q r : Nat) (hb : b ≠ 0) (h : a = clmul q b ^^^ r)
    (hr : r = 0 ∨ r.log2 < b.log2) : pdivmod a b = (q, r) := by
  obtain ⟨h1, h2⟩ := pdivmod_spec a b hb
  have hr' : r < 2 ^ b.log2 := by
    rcases hr with hr | hr
    · subst hr; exact Nat.two_pow_pos _
    · by_cases h0 : r = 0
      · subst h0; exact Nat.two_pow_pos _
      · exact (Nat.log2_lt h0).1 hr
  obtain ⟨e1, e2⟩ := divmod_unique hb h2 hr' (h1.trans h)
  exact Prod.ext e1 e2

example : pdivmod (clmul 0b1011 0b110 ^^^ 0b11) 0b110 = (0b1011, 0b11) :=
  pp_pdivmod_unique _ 0b110 0b1011 0b11 (by decide) rfl (Or.inr (by decide))

end Bee2V.C05

/-
C05 — binary polynomials (pp): ring theory of the Nat-coded GF(2)[x] specification
(`Spec.clmul`, `Spec.pdivmod`, `Spec.pgcd`; bit i = coefficient of x^i, addition = `^^^`) and
property theorems of the value-level models of pp_gcd.c / pp_mod.c (ModelPp.lean).
Helper lemmas: LemmasPp.lean.  Every statement is for all natural numbers (all degrees).
-/
import Bee2V.C05.LemmasPp
namespace Bee2V.C05
open Bee2V.C05.Pp Bee2V.C05.Spec

/-! ## (Nat, ^^^, clmul) is a commutative ring of characteristic 2 without zero divisors -/

theorem pp_clmul_zero (a : Nat) : clmul a 0 = 0 ∧ clmul 0 a = 0 := ⟨clmul_zero a, zero_clmul a⟩
theorem pp_clmul_one (a : Nat) : clmul a 1 = a ∧ clmul 1 a = a := ⟨clmul_one a, one_clmul a⟩
/-- multiplication by x^k is the shift -/
theorem pp_clmul_two_pow (a k : Nat) : clmul a (2 ^ k) = a <<< k := clmul_two_pow a k
theorem pp_clmul_comm (a b : Nat) : clmul a b = clmul b a := clmul_comm a b
theorem pp_clmul_assoc (a b c : Nat) : clmul (clmul a b) c = clmul a (clmul b c) := clmul_assoc a b c
theorem pp_clmul_xor (a b c : Nat) : clmul a (b ^^^ c) = clmul a b ^^^ clmul a c := clmul_xor a b c
theorem pp_xor_clmul (a b c : Nat) : clmul (a ^^^ b) c = clmul a c ^^^ clmul b c := xor_clmul a b c

example : clmul 0b1011 0b110 = 0b111010 := by decide
example : clmul (clmul 7 11) 13 = clmul 7 (clmul 11 13) := pp_clmul_assoc 7 11 13

/-- deg(a b) = deg a + deg b, and a b ≠ 0, for a, b ≠ 0 (`Nat.log2` = degree) -/
theorem pp_clmul_degree (a b : Nat) (ha : a ≠ 0) (hb : b ≠ 0) :
    clmul a b ≠ 0 ∧ (clmul a b).log2 = a.log2 + b.log2 :=
  ⟨clmul_ne_zero ha hb, log2_clmul ha hb⟩

example : (clmul 0b1011 0b110).log2 = 3 + 2 := by decide

/-- constant term of a product -/
theorem pp_clmul_parity (a b : Nat) : clmul a b % 2 = (a % 2) * (b % 2) := clmul_mod_two a b

/-! ## division with remainder -/

/-- `pdivmod a b = (q, r)`: `a = q b + r` and `r = 0 ∨ deg r < deg b` (`r < 2^deg b` says both) -/
theorem pp_pdivmod_spec (a b : Nat) (hb : b ≠ 0) :
    a = clmul (pdivmod a b).1 b ^^^ (pdivmod a b).2
    ∧ ((pdivmod a b).2 = 0 ∨ (pdivmod a b).2.log2 < b.log2) := by
  obtain ⟨h1, h2⟩ := pdivmod_spec a b hb
  refine ⟨h1.symm, ?_⟩
  by_cases hr : (pdivmod a b).2 = 0
  · exact Or.inl hr
  · exact Or.inr ((Nat.log2_lt hr).2 h2)

example : pdivmod 0b111010 0b110 = (0b1011, 0) := by decide
example : pdivmod 0b111011 0b110 = (0b1011, 1) := by decide

/-- quotient and remainder are unique -/
theorem pp_pdivmod_unique (a b q r : Nat) (hb : b ≠ 0) (h : a = clmul q b ^^^ r)
    (hr : r = 0 ∨ r.log2 < b.log2) : pdivmod a b = (q, r) := by
  obtain ⟨h1, h2⟩ := pdivmod_spec a b hb
  have hr' : r < 2 ^ b.log2 := by
    rcases hr with hr | hr
    · subst hr; exact Nat.two_pow_pos _
    · by_cases h0 : r = 0
      · subst h0; exact Nat.two_pow_pos _
      · exact (Nat.log2_lt h0).1 hr
  obtain ⟨e1, e2⟩ := divmod_unique hb h2 hr' (h1.trans h)
  exact Prod.ext e1 e2

example : pdivmod (clmul 0b1011 0b110 ^^^ 0b11) 0b110 = (0b1011, 0b11) :=
  pp_pdivmod_unique _ 0b110 0b1011 0b11 (by decide) rfl (Or.inr (by decide))

/-! ## the Euclidean gcd of the specification -/

/-- `Spec.pgcd a b` divides a and b, and every common divisor divides it
    (`PDvd d a := ∃ q, a = clmul q d`). -/
theorem pp_pgcd_spec (a b : Nat) :
    PDvd (pgcd a b) a ∧ PDvd (pgcd a b) b ∧ ∀ d, PDvd d a → PDvd d b → PDvd d (pgcd a b) :=
  pgcd_spec a b

/-- … and it is the only number with this property. -/
theorem pp_pgcd_unique (g a b : Nat)
    (h : PDvd g a ∧ PDvd g b ∧ ∀ d, PDvd d a → PDvd d b → PDvd d g) : g = pgcd a b :=
  isPGcd_unique h (pgcd_spec a b)

example : pgcd (clmul 0b111 0b1011) (clmul 0b111 0b1101) = 0b111 := by decide

/-! ## ppExGCD (pp_gcd.c), value-level model `ppExGCDV` -/

/-- The triple (d, da, db) returned by ppExGCD satisfies `a·da + b·db = d` — for the coefficients
    exactly as the C computes them (da0 = 1, db0 = 0, da = 0, db = 1; parity test on da0 AND db0).
    Consequently every common divisor of a and b divides d. -/
theorem ppExGCDV_bezout (a b : Nat) (ha : a ≠ 0) (hb : b ≠ 0) :
    clmul a (ppExGCDV a b).2.1 ^^^ clmul b (ppExGCDV a b).2.2 = (ppExGCDV a b).1 :=
  exGCDV_bezout ha hb

example : ppExGCDV 12 10 = (6, 1, 1) := by decide
example : ppExGCDV 0b110110 0b1010 = (ppGCDV 0b110110 0b1010, (ppExGCDV 0b110110 0b1010).2) := by decide

/-- every common divisor of a and b divides the d of ppExGCD -/
theorem ppExGCDV_greatest (a b c : Nat) (ha : a ≠ 0) (hb : b ≠ 0)
    (hca : ∃ q, a = clmul q c) (hcb : ∃ q, b = clmul q c) : ∃ q, (ppExGCDV a b).1 = clmul q c := by
  obtain ⟨q1, h1⟩ := hca
  obtain ⟨q2, h2⟩ := hcb
  refine ⟨clmul q1 (ppExGCDV a b).2.1 ^^^ clmul q2 (ppExGCDV a b).2.2, ?_⟩
  rw [← ppExGCDV_bezout a b ha hb, xor_clmul, clmul_assoc, clmul_assoc,
    clmul_comm (ppExGCDV a b).2.1 c, clmul_comm (ppExGCDV a b).2.2 c, ← clmul_assoc, ← clmul_assoc,
    ← h1, ← h2]

/-- ppGCD computes the gcd of the specification (the do-while loop terminates within the model's
    fuel: deg(odd part of u) + deg(odd part of v) drops in every iteration). -/
theorem ppGCDV_spec (a b : Nat) (ha : a ≠ 0) (hb : b ≠ 0) : ppGCDV a b = pgcd a b :=
  gcdV_eq_pgcd ha hb

example : ppGCDV (clmul 0b1110 0b1011) (clmul 0b1110 0b1101) = 0b1110 := by decide

/-- ppExGCD: d is the gcd and `a·da + b·db = d`. -/
theorem ppExGCDV_spec (a b : Nat) (ha : a ≠ 0) (hb : b ≠ 0) :
    (ppExGCDV a b).1 = pgcd a b
    ∧ clmul a (ppExGCDV a b).2.1 ^^^ clmul b (ppExGCDV a b).2.2 = (ppExGCDV a b).1 :=
  ⟨by rw [exGCDV_fst, gcdV_eq_pgcd ha hb], exGCDV_bezout ha hb⟩

/-! ## ppDivMod / ppInvMod (pp_mod.c), value-level model `ppDivModV` -/

/-- ppDivMod(b, divident, a, mod) at full strength, for mod with constant term 1, ANY a, and
    divident of degree ≤ deg mod (`divident < 2^(deg mod + 1)`; this contains the header's
    `divident < mod` as integers, where deg divident = deg mod is possible):
    gcd(a, mod) = 1 → `b·a ≡ divident (mod mod)` and b is reduced (deg b < deg mod);
    gcd(a, mod) ≠ 1 → b = 0.
    (b is reduced even for deg divident = deg mod because a non-reduced `da` only arises from
    `da += da0` in an iteration that leaves v even, and the next iteration halves it.) -/
theorem ppDivModV_spec (dv a md : Nat) (hmd : md % 2 = 1) (hdv : dv < 2 ^ (md.log2 + 1)) :
    (pgcd a md = 1 → pmod (clmul (ppDivModV dv a md) a) md = pmod dv md
        ∧ ppDivModV dv a md < 2 ^ md.log2)
    ∧ (pgcd a md ≠ 1 → ppDivModV dv a md = 0) :=
  divModV_spec dv a md hmd hdv

/-- the same under the header's preconditions literally (`a, divident < mod` as integers) -/
theorem ppDivModV_spec_header (dv a md : Nat) (hmd : md % 2 = 1) (_ha : a < md) (hdv : dv < md) :
    (pgcd a md = 1 → pmod (clmul (ppDivModV dv a md) a) md = pmod dv md
        ∧ ppDivModV dv a md < 2 ^ md.log2)
    ∧ (pgcd a md ≠ 1 → ppDivModV dv a md = 0) :=
  divModV_spec dv a md hmd (Nat.lt_trans hdv Nat.lt_log2_self)

/-- for deg divident < deg mod the congruence reads `pmod (b·a) mod = divident` -/
theorem ppDivModV_spec_reduced (dv a md : Nat) (hmd : md % 2 = 1) (hdv : dv < 2 ^ md.log2)
    (hg : pgcd a md = 1) :
    pmod (clmul (ppDivModV dv a md) a) md = dv ∧ ppDivModV dv a md < 2 ^ md.log2 := by
  have h := (divModV_spec dv a md hmd
    (Nat.lt_of_lt_of_le hdv (Nat.pow_le_pow_right (by omega) (by omega)))).1 hg
  rw [pmod_of_lt (by omega) hdv] at h
  exact h

example : pgcd 0b110 0b10011 = 1 ∧ ppDivModV 0b101 0b110 0b10011 = 0b1000
    ∧ pmod (clmul 0b1000 0b110) 0b10011 = 0b101 := by decide
example : pgcd 0b11 0b101 ≠ 1 ∧ ppDivModV 1 0b11 0b101 = 0 := by decide
-- deg divident = deg mod (divident = x^4 + x < mod = x^4 + x + 1 as integers):
example : ppDivModV 0b10010 0b110 0b10011 < 2 ^ 4
    ∧ pmod (clmul (ppDivModV 0b10010 0b110 0b10011) 0b110) 0b10011 = pmod 0b10010 0b10011 := by decide

/-- ppInvMod(b, a, mod) (mod odd, mod ≠ 1): the inverse of a, reduced, if gcd(a, mod) = 1; else 0. -/
theorem ppInvModV_spec (a md : Nat) (hmd : md % 2 = 1) (h1 : md ≠ 1) :
    (pgcd a md = 1 → pmod (clmul (ppInvModV a md) a) md = 1 ∧ ppInvModV a md < 2 ^ md.log2)
    ∧ (pgcd a md ≠ 1 → ppInvModV a md = 0) := by
  have hlog : 1 < 2 ^ md.log2 := by
    have : 2 ^ 1 ≤ md := by omega
    have := (Nat.le_log2 (by omega : md ≠ 0)).2 this
    exact Nat.lt_of_lt_of_le (by decide : 1 < 2 ^ 1) (Nat.pow_le_pow_right (by omega) this)
  refine ⟨fun hg => ppDivModV_spec_reduced 1 a md hmd hlog hg, ?_⟩
  exact (divModV_spec 1 a md hmd
    (Nat.lt_of_lt_of_le hlog (Nat.pow_le_pow_right (by omega) (by omega)))).2

example : ppInvModV 0b110 0b10011 = 0b111 ∧ pmod (clmul 0b111 0b110) 0b10011 = 1 := by decide

end Bee2V.C05

/-
C05 — helper lemmas for the multiplicative part of the arithmetic layer (PropsMul.lean).

Everything lives in `namespace Bee2V.C05.Mul` so that the names cannot collide with the helper
lemmas of the additive part (LemmasAdd.lean, not imported here on purpose: the callee facts
needed below are proved here directly about the ModelAdd definitions).

  §1 arithmetic of one double word
  §2 `val`, `Wf` facts
  §3 zzMulW / zzAddMulW / zzSubMulW loops
  §4 zzMul
  §5 zzSqr
  §6 zzDivW / zzModW
-/
import Bee2V.C05.ModelMul
import Mathlib.Tactic.Ring
import Mathlib.Tactic.Linarith
namespace Bee2V.C05.Mul
open Bee2V.C05

/-! ## §1 one double word -/

theorem pow2w (w : Nat) : 2 ^ (2 * w) = 2 ^ w * 2 ^ w := by rw [Nat.two_mul, Nat.pow_add]

theorem powS (w n : Nat) : 2 ^ (w * (n + 1)) = 2 ^ w * 2 ^ (w * n) := by
  rw [Nat.mul_succ, Nat.pow_add, Nat.mul_comm]

/-- `(B-1)^2 + 2(B-1) = B^2 - 1`: product of two words plus two words fits a double word -/
theorem mul_add_lt {B x a c b : Nat} (hx : x < B) (ha : a < B) (hc : c < B) (hb : b < B) :
    x * a + c + b < B * B := by
  obtain ⟨k, rfl⟩ : ∃ k, B = k + 1 := ⟨B - 1, by omega⟩
  have : x * a ≤ k * k := Nat.mul_le_mul (by omega) (by omega)
  nlinarith

/-- splitting a double word `p < B^2` into `(word)p` and `(word)(p >> w)` -/
theorem split_dword {B p : Nat} (hB : 0 < B) (hp : p < B * B) :
    p % B + B * (p / B % B) = p ∧ p % B < B ∧ p / B % B < B ∧ p / B % B = p / B := by
  have h1 : p / B < B := Nat.div_lt_of_lt_mul hp
  rw [Nat.mod_eq_of_lt h1]
  exact ⟨Nat.mod_add_div p B, Nat.mod_lt _ hB, h1, rfl⟩

/-- one iteration of zzAddMulW (and of zzMulW with `b = 0`) -/
theorem addMulStepB {B x a c b : Nat} (hB : 0 < B) (hx : x < B) (ha : a < B) (hc : c < B)
    (hb : b < B) :
    let prod := ((x * a % (B * B) + c) % (B * B) + b) % (B * B)
    prod % B + B * (prod / B % B) = x * a + c + b ∧ prod % B < B ∧ prod / B % B < B := by
  intro prod
  have h0 := mul_add_lt hx ha hc hb
  have e : prod = x * a + c + b := by
    show ((x * a % (B * B) + c) % (B * B) + b) % (B * B) = _
    rw [Nat.mod_eq_of_lt (a := x * a) (by omega), Nat.mod_eq_of_lt (a := x * a + c) (by omega),
      Nat.mod_eq_of_lt h0]
  rw [e]
  obtain ⟨h1, h2, h3, _⟩ := split_dword hB h0
  exact ⟨h1, h2, h3⟩

theorem mod_wrap {a M : Nat} (h : a < 2 * M) : a % M = if a < M then a else a - M := by
  split
  · exact Nat.mod_eq_of_lt ‹_›
  · rw [Nat.mod_eq_sub_mod (by omega)]; exact Nat.mod_eq_of_lt (by omega)

/-- the double word of one zzSubMulW iteration: `0 - x a + b - c` modulo `B^2` -/
theorem subMulProd {M q b c : Nat} (hq : q + c < M) (hb : b < M) :
    let p1 := (0 + (M - q % M)) % M
    let p2 := (p1 + b) % M
    let p3 := (p2 + (M - c % M)) % M
    p3 = if q + c ≤ b then b - (q + c) else M + b - (q + c) := by
  intro p1 p2 p3
  have hqM : q % M = q := Nat.mod_eq_of_lt (by omega)
  have hcM : c % M = c := Nat.mod_eq_of_lt (by omega)
  have e1 : p1 = if 0 + (M - q % M) < M then 0 + (M - q % M) else 0 + (M - q % M) - M :=
    mod_wrap (by omega)
  have h1 : p1 < M := Nat.mod_lt _ (by omega)
  have e2 : p2 = if p1 + b < M then p1 + b else p1 + b - M := mod_wrap (by omega)
  have h2 : p2 < M := Nat.mod_lt _ (by omega)
  have e3 : p3 = if p2 + (M - c % M) < M then p2 + (M - c % M) else p2 + (M - c % M) - M :=
    mod_wrap (by omega)
  clear_value p1 p2 p3
  rw [hqM] at e1
  rw [hcM] at e3
  split_ifs at * <;> omega

/-- low/high word of the double word of one zzSubMulW iteration, `D = x a + borrow` -/
theorem subMulFin {B p D b : Nat} (hB : 0 < B) (hb : b < B) (hD : D + B ≤ B * B)
    (hp : p = if D ≤ b then b - D else B * B + b - D) :
    p % B + D = b + B * ((B - p / B % B % B) % B) ∧ p % B < B ∧ (B - p / B % B % B) % B < B := by
  have hlo : p % B < B := Nat.mod_lt _ hB
  refine ⟨?_, hlo, Nat.mod_lt _ hB⟩
  have hdm := Nat.mod_add_div p B
  by_cases h : D ≤ b
  · rw [if_pos h] at hp
    have hpB : p < B := by omega
    have h0 : p / B = 0 := Nat.div_eq_of_lt hpB
    rw [h0] at hdm ⊢
    simp only [Nat.zero_mod, Nat.sub_zero, Nat.mod_self, Nat.mul_zero] at hdm ⊢
    omega
  · rw [if_neg h] at hp
    have hpM : p < B * B := by omega
    have hhi : p / B < B := Nat.div_lt_of_lt_mul hpM
    have hpB : B ≤ p := by omega
    have h1 : 1 ≤ p / B := (Nat.le_div_iff_mul_le hB).mpr (by omega)
    rw [Nat.mod_eq_of_lt hhi, Nat.mod_eq_of_lt hhi, Nat.mod_eq_of_lt (by omega : B - p / B < B),
      Nat.mul_sub]
    generalize p / B = hi at *
    generalize p % B = lo at *
    have : B * hi ≤ B * B := Nat.mul_le_mul_left _ (by omega)
    omega

/-- one iteration of zzSubMulW -/
theorem subMulStepB {B x a b c : Nat} (hB : 0 < B) (hx : x < B) (ha : a < B) (hb : b < B)
    (hc : c < B) :
    let M := B * B
    let p3 := (((0 + (M - x * a % M % M)) % M + b) % M + (M - c % M)) % M
    p3 % B + x * a + c = b + B * ((B - p3 / B % B % B) % B) ∧ p3 % B < B
      ∧ (B - p3 / B % B % B) % B < B := by
  intro M p3
  have hM : M = B * B := rfl
  have h0 := mul_add_lt hx ha hc (by omega : B - 1 < B)
  have hq : x * a % M = x * a := Nat.mod_eq_of_lt (by omega)
  have hbM : b < M := by
    have : B * 1 ≤ B * B := Nat.mul_le_mul_left _ hB
    omega
  have e3 : p3 = if x * a + c ≤ b then b - (x * a + c) else M + b - (x * a + c) := by
    show (((0 + (M - x * a % M % M)) % M + b) % M + (M - c % M)) % M = _
    rw [hq]
    exact subMulProd (by omega) hbM
  have := subMulFin (p := p3) (D := x * a + c) hB hb (by omega) e3
  omega

/-- model-level form of `addMulStepB` -/
theorem addMulStep (w : Nat) {x a c b : Nat} (hx : x < 2 ^ w) (ha : a < 2 ^ w) (hc : c < 2 ^ w)
    (hb : b < 2 ^ w) :
    dlo w (dadd w (dadd w (dmul w x a) c) b) + 2 ^ w * dhi w (dadd w (dadd w (dmul w x a) c) b)
      = x * a + c + b
    ∧ dlo w (dadd w (dadd w (dmul w x a) c) b) < 2 ^ w
    ∧ dhi w (dadd w (dadd w (dmul w x a) c) b) < 2 ^ w := by
  simp only [dlo, dhi, dadd, dmul, pow2w]
  exact addMulStepB (Nat.two_pow_pos w) hx ha hc hb

/-- model-level form of `subMulStepB` -/
theorem subMulStep (w : Nat) {x a b c : Nat} (hx : x < 2 ^ w) (ha : a < 2 ^ w) (hb : b < 2 ^ w)
    (hc : c < 2 ^ w) :
    dlo w (dsub w (dadd w (dsub w 0 (dmul w x a)) b) c) + x * a + c
      = b + 2 ^ w * wneg w (dhi w (dsub w (dadd w (dsub w 0 (dmul w x a)) b) c))
    ∧ dlo w (dsub w (dadd w (dsub w 0 (dmul w x a)) b) c) < 2 ^ w
    ∧ wneg w (dhi w (dsub w (dadd w (dsub w 0 (dmul w x a)) b) c)) < 2 ^ w := by
  simp only [dlo, dhi, dadd, dmul, dsub, wneg, pow2w]
  exact subMulStepB (Nat.two_pow_pos w) hx ha hb hc

/-! ## §2 `val`, `Wf` -/

theorem val_lt {w : Nat} {a : List Nat} (ha : Wf w a) : val w a < 2 ^ (w * a.length) := by
  induction a with
  | nil => simp [val]
  | cons x xs ih =>
    obtain ⟨hx, hxs⟩ := Wf_cons.mp ha
    have h := ih hxs
    have h2 : 2 ^ w * (val w xs + 1) ≤ 2 ^ w * 2 ^ (w * xs.length) := Nat.mul_le_mul_left _ h
    rw [val_cons, List.length_cons, powS]
    rw [Nat.mul_add] at h2
    omega

theorem val_append (w : Nat) (a b : List Nat) :
    val w (a ++ b) = val w a + 2 ^ (w * a.length) * val w b := by
  induction a with
  | nil => simp [val]
  | cons x xs ih =>
    simp only [List.cons_append, val_cons, ih, List.length_cons, powS]
    ring

theorem Wf_append {w : Nat} {a b : List Nat} : Wf w (a ++ b) ↔ Wf w a ∧ Wf w b := by
  simp only [Wf, List.mem_append]
  constructor
  · intro h; exact ⟨fun x hx => h x (Or.inl hx), fun x hx => h x (Or.inr hx)⟩
  · rintro ⟨h1, h2⟩ x (hx | hx)
    · exact h1 x hx
    · exact h2 x hx

theorem val_replicate_zero (w n : Nat) : val w (List.replicate n 0) = 0 := by
  induction n with
  | zero => rfl
  | succ n ih => rw [List.replicate_succ, val_cons, ih]; simp

theorem Wf_replicate_zero (w n : Nat) : Wf w (List.replicate n 0) := by
  intro x hx
  rw [List.eq_of_mem_replicate hx]
  exact Nat.two_pow_pos w

theorem Wf_take {w : Nat} {a : List Nat} (ha : Wf w a) (m : Nat) : Wf w (a.take m) :=
  fun x hx => ha x (List.mem_of_mem_take hx)
theorem Wf_drop {w : Nat} {a : List Nat} (ha : Wf w a) (m : Nat) : Wf w (a.drop m) :=
  fun x hx => ha x (List.mem_of_mem_drop hx)

theorem val_take_drop (w : Nat) (a : List Nat) (m : Nat) (hm : m ≤ a.length) :
    val w a = val w (a.take m) + 2 ^ (w * m) * val w (a.drop m) := by
  conv_lhs => rw [← List.take_append_drop m a]
  rw [val_append, List.length_take, Nat.min_eq_left hm]

/-! ## §3 multiplication by a word -/

/-- gluing one word step `lo + B hi = t + c` to the rest `vr + P cout = rest + hi` -/
theorem mul_glue {B P lo hi t c vr cout rest : Nat}
    (h1 : lo + B * hi = t + c) (h2 : vr + P * cout = rest + hi) :
    (lo + B * vr) + (B * P) * cout = t + B * rest + c := by
  have h3 : B * (vr + P * cout) = B * (rest + hi) := by rw [h2]
  simp only [Nat.mul_add, ← Nat.mul_assoc] at h3
  omega

theorem zzAddMulWLoop_spec (w : Nat) (b a : List Nat) (x carry : Nat)
    (hb : Wf w b) (ha : Wf w a) (hl : b.length = a.length) (hx : x < 2 ^ w)
    (hc : carry < 2 ^ w) :
    val w (zzAddMulWLoop w b a x carry).1 + 2 ^ (w * b.length) * (zzAddMulWLoop w b a x carry).2
      = val w b + val w a * x + carry
    ∧ (zzAddMulWLoop w b a x carry).2 < 2 ^ w ∧ Wf w (zzAddMulWLoop w b a x carry).1
    ∧ (zzAddMulWLoop w b a x carry).1.length = b.length := by
  induction b generalizing a carry with
  | nil => cases a <;> simp_all [zzAddMulWLoop, val, Wf_nil]
  | cons b0 bs ih =>
    cases a with
    | nil => simp at hl
    | cons a0 as =>
      obtain ⟨hb0, hbs⟩ := Wf_cons.mp hb
      obtain ⟨ha0, has⟩ := Wf_cons.mp ha
      obtain ⟨s1, s2, s3⟩ := addMulStep w hx ha0 hc hb0
      simp only [zzAddMulWLoop, val_cons, List.length_cons, powS]
      obtain ⟨i1, i2, i3, i4⟩ := ih as _ hbs has (by simpa using hl) s3
      refine ⟨?_, i2, Wf_cons.mpr ⟨s2, i3⟩, by rw [i4]⟩
      generalize dlo w _ = lo at *
      generalize dhi w _ = hi at *
      generalize zzAddMulWLoop w bs as x hi = r at *
      have := mul_glue s1 i1
      linarith

theorem zzMulWLoop_eq (w : Nat) (a : List Nat) (x carry : Nat) :
    zzMulWLoop w a x carry = zzAddMulWLoop w (List.replicate a.length 0) a x carry := by
  induction a generalizing carry with
  | nil => simp [zzMulWLoop, zzAddMulWLoop]
  | cons a0 as ih =>
    simp only [zzMulWLoop, List.length_cons, List.replicate_succ, zzAddMulWLoop, ih, dadd,
      Nat.add_zero, Nat.mod_mod]

theorem zzMulWLoop_spec (w : Nat) (a : List Nat) (x carry : Nat)
    (ha : Wf w a) (hx : x < 2 ^ w) (hc : carry < 2 ^ w) :
    val w (zzMulWLoop w a x carry).1 + 2 ^ (w * a.length) * (zzMulWLoop w a x carry).2
      = val w a * x + carry
    ∧ (zzMulWLoop w a x carry).2 < 2 ^ w ∧ Wf w (zzMulWLoop w a x carry).1
    ∧ (zzMulWLoop w a x carry).1.length = a.length := by
  rw [zzMulWLoop_eq]
  have h := zzAddMulWLoop_spec w (List.replicate a.length 0) a x carry (Wf_replicate_zero w _) ha
    (by simp) hx hc
  simpa [val_replicate_zero] using h

theorem sub_glue {B P lo bo t c vr cout rest b0 vb : Nat}
    (h1 : lo + t + c = b0 + B * bo) (h2 : vr + rest + bo = vb + P * cout) :
    (lo + B * vr) + (t + B * rest) + c = (b0 + B * vb) + (B * P) * cout := by
  have h3 : B * (vr + rest + bo) = B * (vb + P * cout) := by rw [h2]
  simp only [Nat.mul_add, ← Nat.mul_assoc] at h3
  omega

theorem zzSubMulWLoop_spec (w : Nat) (b a : List Nat) (x borrow : Nat)
    (hb : Wf w b) (ha : Wf w a) (hl : b.length = a.length) (hx : x < 2 ^ w)
    (hc : borrow < 2 ^ w) :
    val w (zzSubMulWLoop w b a x borrow).1 + val w a * x + borrow
      = val w b + 2 ^ (w * b.length) * (zzSubMulWLoop w b a x borrow).2
    ∧ (zzSubMulWLoop w b a x borrow).2 < 2 ^ w ∧ Wf w (zzSubMulWLoop w b a x borrow).1
    ∧ (zzSubMulWLoop w b a x borrow).1.length = b.length := by
  induction b generalizing a borrow with
  | nil => cases a <;> simp_all [zzSubMulWLoop, val, Wf_nil]
  | cons b0 bs ih =>
    cases a with
    | nil => simp at hl
    | cons a0 as =>
      obtain ⟨hb0, hbs⟩ := Wf_cons.mp hb
      obtain ⟨ha0, has⟩ := Wf_cons.mp ha
      obtain ⟨s1, s2, s3⟩ := subMulStep w hx ha0 hb0 hc
      simp only [zzSubMulWLoop, val_cons, List.length_cons, powS]
      obtain ⟨i1, i2, i3, i4⟩ := ih as _ hbs has (by simpa using hl) s3
      refine ⟨?_, i2, Wf_cons.mpr ⟨s2, i3⟩, by rw [i4]⟩
      generalize dlo w _ = lo at *
      generalize wneg w _ = bo at *
      generalize zzSubMulWLoop w bs as x bo = r at *
      have := sub_glue s1 i1
      linarith

/-! ## §4 zzMul -/

theorem snoc_cons (r1 : List Nat) (c : Nat) :
    ∃ c0 lo', r1 ++ [c] = c0 :: lo' ∧ lo'.length = r1.length := by
  cases r1 with
  | nil => exact ⟨c, [], rfl, rfl⟩
  | cons r0 rt => exact ⟨r0, rt ++ [c], rfl, by simp⟩

theorem val_single (w c : Nat) : val w [c] = c := by simp [val]

theorem Wf_single {w c : Nat} (h : c < 2 ^ w) : Wf w [c] := Wf_cons.mpr ⟨h, Wf_nil w⟩

/-- invariant of the outer loop of zzMul: window = `lo ++ 0…0` with `|lo| = m` -/
theorem zzMulLoop_spec (w : Nat) (b : List Nat) (hb : Wf w b) (a lo : List Nat)
    (ha : Wf w a) (hlo : Wf w lo) (hl : lo.length = b.length) :
    val w (zzMulLoop w b a (lo ++ List.replicate a.length 0)) = val w lo + val w a * val w b
    ∧ Wf w (zzMulLoop w b a (lo ++ List.replicate a.length 0))
    ∧ (zzMulLoop w b a (lo ++ List.replicate a.length 0)).length = a.length + b.length := by
  induction a generalizing lo with
  | nil => simp [zzMulLoop, val, hlo, hl]
  | cons ai as ih =>
    obtain ⟨hai, has⟩ := Wf_cons.mp ha
    have htake : (lo ++ List.replicate (as.length + 1) 0).take b.length = lo := by
      rw [← hl]; exact List.take_left' rfl
    have hdrop : (lo ++ List.replicate (as.length + 1) 0).drop (b.length + 1)
        = List.replicate as.length 0 := by
      rw [← hl, List.replicate_succ]; simp
    obtain ⟨s1, s2, s3, s4⟩ :=
      zzAddMulWLoop_spec w lo b ai 0 hlo hb hl hai (Nat.two_pow_pos w)
    obtain ⟨c0, lo', e, hl'⟩ := snoc_cons (zzAddMulWLoop w lo b ai 0).1 (zzAddMulWLoop w lo b ai 0).2
    have hW : Wf w (c0 :: lo') := by
      rw [← e]; exact Wf_append.mpr ⟨s3, Wf_single s2⟩
    obtain ⟨hc0, hlo'⟩ := Wf_cons.mp hW
    have hv : val w ((zzAddMulWLoop w lo b ai 0).1 ++ [(zzAddMulWLoop w lo b ai 0).2])
        = c0 + 2 ^ w * val w lo' := by rw [e, val_cons]
    rw [val_append, val_single, s4] at hv
    have hc' : (zzAddMulWLoop w lo b ai 0).1
        ++ (zzAddMulWLoop w lo b ai 0).2 :: List.replicate as.length 0
        = c0 :: (lo' ++ List.replicate as.length 0) := by
      rw [← List.cons_append, ← e, List.append_assoc]; rfl
    obtain ⟨i1, i2, i3⟩ := ih lo' has hlo' (by rw [hl', s4, hl])
    simp only [zzMulLoop, List.length_cons, htake, hdrop, hc']
    refine ⟨?_, Wf_cons.mpr ⟨hc0, i2⟩, by rw [i3]; omega⟩
    rw [val_cons, i1, val_cons]
    generalize zzAddMulWLoop w lo b ai 0 = r at *
    nlinarith [s1, hv]

theorem zzMul_spec (w : Nat) (a b : List Nat) (ha : Wf w a) (hb : Wf w b) :
    val w (zzMul w a b) = val w a * val w b ∧ Wf w (zzMul w a b)
    ∧ (zzMul w a b).length = a.length + b.length := by
  have e : List.replicate (a.length + b.length) (0 : Nat)
      = List.replicate b.length 0 ++ List.replicate a.length 0 := by
    rw [List.replicate_append_replicate, Nat.add_comm]
  have h := zzMulLoop_spec w b hb a (List.replicate b.length 0) ha (Wf_replicate_zero w _)
    (by simp)
  unfold zzMul
  rw [e]
  simpa [val_replicate_zero] using h

/-! ## §5 zzSqr -/

/-- `Σ_{i<j} a_i a_j B^{i+j}` -/
def sqS (w : Nat) : List Nat → Nat
  | [] => 0
  | a0 :: as => a0 * 2 ^ w * val w as + 2 ^ w * 2 ^ w * sqS w as

/-- `Σ_i a_i^2 B^{2i}` -/
def sqD (w : Nat) : List Nat → Nat
  | [] => 0
  | a0 :: as => a0 * a0 + 2 ^ w * 2 ^ w * sqD w as

theorem sq_split (w : Nat) (a : List Nat) : 2 * sqS w a + sqD w a = val w a * val w a := by
  induction a with
  | nil => rfl
  | cons a0 as ih =>
    simp only [sqS, sqD, val_cons]
    generalize 2 ^ w = B at *
    nlinarith [ih]

/-- pass 1 of zzSqr: window = `lo ++ 0…0`, `|lo| = |a|` -/
theorem zzSqrLoop1_spec (w : Nat) (a lo : List Nat) (ha : Wf w a) (hlo : Wf w lo)
    (hl : lo.length = a.length) :
    val w (zzSqrLoop1 w a (lo ++ List.replicate a.length 0)) = val w lo + sqS w a
    ∧ Wf w (zzSqrLoop1 w a (lo ++ List.replicate a.length 0))
    ∧ (zzSqrLoop1 w a (lo ++ List.replicate a.length 0)).length = a.length + a.length := by
  induction a generalizing lo with
  | nil =>
    cases lo with
    | nil => simp [zzSqrLoop1, val, sqS, Wf_nil]
    | cons _ _ => simp at hl
  | cons ai as ih =>
    cases lo with
    | nil => simp at hl
    | cons l0 lt =>
      have hlt : lt.length = as.length := by simpa using hl
      obtain ⟨hai, has⟩ := Wf_cons.mp ha
      obtain ⟨hl0, hWlt⟩ := Wf_cons.mp hlo
      have htake1 : ((l0 :: lt) ++ List.replicate (as.length + 1) 0).take 1 = [l0] := rfl
      have hmid : (((l0 :: lt) ++ List.replicate (as.length + 1) 0).drop 1).take as.length = lt := by
        rw [← hlt]; simp
      have hdrop : ((l0 :: lt) ++ List.replicate (as.length + 1) 0).drop (as.length + 2)
          = List.replicate as.length 0 := by
        rw [← hlt, List.replicate_succ]; simp
      obtain ⟨s1, s2, s3, s4⟩ :=
        zzAddMulWLoop_spec w lt as ai 0 hWlt has hlt hai (Nat.two_pow_pos w)
      obtain ⟨y, lo', e, hl'⟩ :=
        snoc_cons (zzAddMulWLoop w lt as ai 0).1 (zzAddMulWLoop w lt as ai 0).2
      have hW : Wf w (y :: lo') := by
        rw [← e]; exact Wf_append.mpr ⟨s3, Wf_single s2⟩
      obtain ⟨hy, hlo'⟩ := Wf_cons.mp hW
      have hv : val w ((zzAddMulWLoop w lt as ai 0).1 ++ [(zzAddMulWLoop w lt as ai 0).2])
          = y + 2 ^ w * val w lo' := by rw [e, val_cons]
      rw [val_append, val_single, s4] at hv
      have hc' : [l0] ++ (zzAddMulWLoop w lt as ai 0).1
          ++ (zzAddMulWLoop w lt as ai 0).2 :: List.replicate as.length 0
          = l0 :: y :: (lo' ++ List.replicate as.length 0) := by
        rw [List.append_assoc, List.singleton_append, ← List.cons_append (a := y), ← e,
          List.append_assoc]; rfl
      obtain ⟨i1, i2, i3⟩ := ih lo' has hlo' (by rw [hl', s4, hlt])
      simp only [zzSqrLoop1, List.length_cons, htake1, hmid, hdrop, hc']
      refine ⟨?_, Wf_cons.mpr ⟨hl0, Wf_cons.mpr ⟨hy, i2⟩⟩, by rw [i3]; omega⟩
      rw [val_cons, val_cons, i1, val_cons, sqS]
      generalize zzAddMulWLoop w lt as ai 0 = r at *
      generalize 2 ^ w = B at *
      nlinarith [s1, hv]

/-- one word of pass 2 (`B = 2 H`) -/
theorem dblStep {H b c : Nat} (hH : 0 < H) (hb : b < 2 * H) (hc : c ≤ 1) :
    ((b * 2 ^ 1) % (2 * H) ||| c) + (2 * H) * (b / H) = 2 * b + c
    ∧ ((b * 2 ^ 1) % (2 * H) ||| c) < 2 * H ∧ b / H ≤ 1 := by
  have h1 : (b * 2 ^ 1) % (2 * H) = 2 ^ 1 * (b % H) := by
    rw [Nat.pow_one, Nat.mul_comm b 2, Nat.mul_mod_mul_left]
  have h2 : 2 ^ 1 * (b % H) ||| c = 2 ^ 1 * (b % H) + c :=
    (Nat.two_pow_add_eq_or_of_lt (by omega) _).symm
  rw [h1, h2]
  have hq : b / H < 2 := Nat.div_lt_of_lt_mul (by omega)
  have hm : b % H < H := Nat.mod_lt _ hH
  have hdm := Nat.div_add_mod b H
  generalize b / H = q at *
  obtain rfl | rfl : q = 0 ∨ q = 1 := by omega
  all_goals omega

theorem two_pow_pred {w : Nat} (hw : 0 < w) : 2 ^ w = 2 * 2 ^ (w - 1) := by
  obtain ⟨k, rfl⟩ : ∃ k, w = k + 1 := ⟨w - 1, by omega⟩
  rw [Nat.add_sub_cancel, Nat.pow_succ, Nat.mul_comm]

theorem zzSqrLoop2_spec (w : Nat) (hw : 0 < w) (b : List Nat) (carry : Nat) (hb : Wf w b)
    (hc : carry ≤ 1) :
    val w (zzSqrLoop2 w b carry).1 + 2 ^ (w * b.length) * (zzSqrLoop2 w b carry).2
      = 2 * val w b + carry
    ∧ (zzSqrLoop2 w b carry).2 ≤ 1 ∧ Wf w (zzSqrLoop2 w b carry).1
    ∧ (zzSqrLoop2 w b carry).1.length = b.length := by
  induction b generalizing carry with
  | nil => simp [zzSqrLoop2, val, Wf_nil, hc]
  | cons b0 bs ih =>
    obtain ⟨hb0, hbs⟩ := Wf_cons.mp hb
    have hB := two_pow_pred hw
    obtain ⟨d1, d2, d3⟩ := dblStep (H := 2 ^ (w - 1)) (Nat.two_pow_pos _) (by rw [← hB]; exact hb0) hc
    rw [← hB] at d1 d2
    obtain ⟨i1, i2, i3, i4⟩ := ih (b0 / 2 ^ (w - 1)) hbs d3
    simp only [zzSqrLoop2, wshr, wshl, val_cons, List.length_cons, powS]
    refine ⟨?_, i2, Wf_cons.mpr ⟨d2, i3⟩, by rw [i4]⟩
    generalize zzSqrLoop2 w bs (b0 / 2 ^ (w - 1)) = r at *
    generalize (b0 * 2 ^ 1) % 2 ^ w ||| carry = b' at *
    generalize b0 / 2 ^ (w - 1) = c1 at *
    have := mul_glue (B := 2 ^ w) (P := 2 ^ (w * bs.length)) (lo := b') (hi := c1) (t := 2 * b0)
      (c := carry) (vr := val w r.1) (cout := r.2) (rest := 2 * val w bs) d1 i1
    linarith

/-- one iteration of pass 3 -/
theorem sqr3StepB {B a c b0 b1 : Nat} (hB : 0 < B) (ha : a < B) (hc : c < B) (hb0 : b0 < B)
    (hb1 : b1 < B) :
    let p := ((a * a % (B * B) + c) % (B * B) + b0) % (B * B)
    let p2 := (p / B + b1) % (B * B)
    p % B + B * (p2 % B) + B * B * (p2 / B % B) = a * a + c + b0 + B * b1
    ∧ p % B < B ∧ p2 % B < B ∧ p2 / B % B < B := by
  intro p p2
  have h0 := mul_add_lt ha ha hc hb0
  have e : p = a * a + c + b0 := by
    show ((a * a % (B * B) + c) % (B * B) + b0) % (B * B) = _
    rw [Nat.mod_eq_of_lt (a := a * a) (by omega), Nat.mod_eq_of_lt (a := a * a + c) (by omega),
      Nat.mod_eq_of_lt h0]
  have hpB : p / B < B := Nat.div_lt_of_lt_mul (by rw [e]; exact h0)
  have h2 : p / B + b1 < B * B := by
    obtain ⟨k, rfl⟩ : ∃ k, B = k + 1 := ⟨B - 1, by omega⟩
    nlinarith
  have e2 : p2 = p / B + b1 := Nat.mod_eq_of_lt h2
  obtain ⟨s1, s2, s3, s4⟩ := split_dword hB h2
  rw [← e2] at s1 s2 s3 s4
  have hdm := Nat.mod_add_div p B
  refine ⟨?_, Nat.mod_lt _ hB, s2, s3⟩
  rw [← e]
  generalize p2 / B % B = hi at *
  generalize p2 % B = lo2 at *
  generalize p % B = lo at *
  generalize p / B = q at *
  clear_value p p2
  subst e2
  nlinarith [s1, hdm]

theorem sqr3_glue {B P c0 c1 hi t vr cout rest : Nat}
    (h1 : c0 + B * c1 + B * B * hi = t) (h2 : vr + P * cout = rest + hi) :
    (c0 + B * (c1 + B * vr)) + (B * B * P) * cout = t + B * B * rest := by
  have h3 : B * B * (vr + P * cout) = B * B * (rest + hi) := by rw [h2]
  simp only [Nat.mul_add, ← Nat.mul_assoc] at h3 ⊢
  omega

theorem zzSqrLoop3_spec (w : Nat) (a b : List Nat) (carry : Nat) (ha : Wf w a) (hb : Wf w b)
    (hl : b.length = a.length + a.length) (hc : carry < 2 ^ w) :
    val w (zzSqrLoop3 w a b carry).1 + 2 ^ (w * b.length) * (zzSqrLoop3 w a b carry).2
      = val w b + sqD w a + carry
    ∧ (zzSqrLoop3 w a b carry).2 < 2 ^ w ∧ Wf w (zzSqrLoop3 w a b carry).1
    ∧ (zzSqrLoop3 w a b carry).1.length = b.length := by
  induction a generalizing b carry with
  | nil =>
    cases b with
    | nil => simp [zzSqrLoop3, val, sqD, Wf_nil, hc]
    | cons _ _ => simp at hl
  | cons a0 as ih =>
    match b, hb, hl with
    | [], _, hl => simp at hl
    | [_], _, hl => simp at hl; omega
    | b0 :: b1 :: bs, hb, hl =>
      obtain ⟨ha0, has⟩ := Wf_cons.mp ha
      obtain ⟨hb0, hb'⟩ := Wf_cons.mp hb
      obtain ⟨hb1, hbs⟩ := Wf_cons.mp hb'
      have hB : 0 < 2 ^ w := Nat.two_pow_pos w
      obtain ⟨s1, s2, s3, s4⟩ := sqr3StepB hB ha0 hc hb0 hb1
      have hl' : bs.length = as.length + as.length := by simp at hl; omega
      simp only [zzSqrLoop3, dmul, dadd, dlo, dhi, dshr, pow2w, val_cons, List.length_cons, powS,
        sqD]
      obtain ⟨i1, i2, i3, i4⟩ := ih bs _ has hbs hl' s4
      refine ⟨?_, i2, Wf_cons.mpr ⟨s2, Wf_cons.mpr ⟨s3, i3⟩⟩, by rw [i4]⟩
      have := sqr3_glue s1 i1
      generalize zzSqrLoop3 w as bs _ = r at *
      linarith

theorem zzSqr_spec (w : Nat) (hw : 0 < w) (a : List Nat) (ha : Wf w a) :
    val w (zzSqr w a) = val w a * val w a ∧ Wf w (zzSqr w a)
    ∧ (zzSqr w a).length = a.length + a.length := by
  have e : List.replicate (a.length + a.length) (0 : Nat)
      = List.replicate a.length 0 ++ List.replicate a.length 0 := by
    rw [List.replicate_append_replicate]
  obtain ⟨p1, p2, p3⟩ := zzSqrLoop1_spec w a (List.replicate a.length 0) ha
    (Wf_replicate_zero w _) (by simp)
  rw [← e, val_replicate_zero, Nat.zero_add] at p1
  rw [← e] at p2 p3
  show val w (zzSqrLoop3 w a
      (zzSqrLoop2 w (zzSqrLoop1 w a (List.replicate (a.length + a.length) 0)) 0).1
      (zzSqrLoop2 w (zzSqrLoop1 w a (List.replicate (a.length + a.length) 0)) 0).2).1 = _
    ∧ Wf w (zzSqrLoop3 w a
      (zzSqrLoop2 w (zzSqrLoop1 w a (List.replicate (a.length + a.length) 0)) 0).1
      (zzSqrLoop2 w (zzSqrLoop1 w a (List.replicate (a.length + a.length) 0)) 0).2).1
    ∧ (zzSqrLoop3 w a
      (zzSqrLoop2 w (zzSqrLoop1 w a (List.replicate (a.length + a.length) 0)) 0).1
      (zzSqrLoop2 w (zzSqrLoop1 w a (List.replicate (a.length + a.length) 0)) 0).2).1.length = _
  generalize zzSqrLoop1 w a (List.replicate (a.length + a.length) 0) = b1 at *
  obtain ⟨q1, q2, q3, q4⟩ := zzSqrLoop2_spec w hw b1 0 p2 (by omega)
  rw [p1, p3] at q1
  rw [p3] at q4
  generalize zzSqrLoop2 w b1 0 = r2 at *
  have hsq := sq_split w a
  have hva := val_lt ha
  have hP : 2 ^ (w * (a.length + a.length)) = 2 ^ (w * a.length) * 2 ^ (w * a.length) := by
    rw [Nat.mul_add, Nat.pow_add]
  have hlt : val w a * val w a < 2 ^ (w * (a.length + a.length)) := by
    rw [hP]; exact Nat.mul_lt_mul'' hva hva
  have hc0 : r2.2 = 0 := by
    generalize r2.2 = c at *
    obtain rfl | rfl : c = 0 ∨ c = 1 := by omega
    · rfl
    · omega
  obtain ⟨r1, _, r3, r4⟩ := zzSqrLoop3_spec w a r2.1 r2.2 ha q3 q4
    (by rw [hc0]; exact Nat.two_pow_pos w)
  rw [q4] at r1 r4
  have hr := val_lt r3
  rw [r4] at hr
  refine ⟨?_, r3, r4⟩
  generalize zzSqrLoop3 w a r2.1 r2.2 = r at *
  rw [hc0] at q1 r1
  clear hP hva
  generalize 2 ^ (w * (a.length + a.length)) = P at *
  have : r.2 = 0 := by
    rcases Nat.eq_zero_or_pos r.2 with h | h
    · exact h
    · have : P * 1 ≤ P * r.2 := Nat.mul_le_mul_left _ h
      omega
  rw [this] at r1
  omega

/-! ## §6 division by a word -/

/-- `divisor = r; divisor <<= w; divisor |= a0` is `r B + a0` (no wrap as `r < B`) -/
theorem divisor_eq (w : Nat) {r a0 : Nat} (hr : r < 2 ^ w) (ha0 : a0 < 2 ^ w) :
    dshl w r ||| a0 = 2 ^ w * r + a0 := by
  have h : r * 2 ^ w < 2 ^ w * 2 ^ w := Nat.mul_lt_mul_of_pos_right hr (Nat.two_pow_pos w)
  simp only [dshl, pow2w, Nat.mod_eq_of_lt h]
  rw [Nat.mul_comm r, ← Nat.two_pow_add_eq_or_of_lt ha0]

/-- one step of the division loop: new quotient word and remainder -/
theorem divStep {B x r a0 : Nat} (hx0 : 0 < x) (hx : x < B) (hr : r < x) (ha0 : a0 < B) :
    (B * r + a0) / x % B = (B * r + a0) / x ∧ (B * r + a0) % x % B = (B * r + a0) % x
    ∧ (B * r + a0) / x < B ∧ (B * r + a0) % x < x := by
  have hd : B * r + a0 < x * B := by
    have : B * (r + 1) ≤ B * x := Nat.mul_le_mul_left _ hr
    rw [Nat.mul_add, Nat.mul_one, Nat.mul_comm B x] at this
    omega
  have hq : (B * r + a0) / x < B := Nat.div_lt_of_lt_mul hd
  have hm : (B * r + a0) % x < x := Nat.mod_lt _ hx0
  exact ⟨Nat.mod_eq_of_lt hq, Nat.mod_eq_of_lt (by omega), hq, hm⟩

theorem zzDivW_spec (w : Nat) (a : List Nat) (x : Nat) (ha : Wf w a) (hx0 : 0 < x)
    (hx : x < 2 ^ w) :
    val w a = val w (zzDivW w a x).1 * x + (zzDivW w a x).2 ∧ (zzDivW w a x).2 < x
    ∧ Wf w (zzDivW w a x).1 ∧ (zzDivW w a x).1.length = a.length := by
  induction a with
  | nil => simp [zzDivW, val, Wf_nil, hx0]
  | cons a0 as ih =>
    obtain ⟨ha0, has⟩ := Wf_cons.mp ha
    obtain ⟨i1, i2, i3, i4⟩ := ih has
    obtain ⟨d1, d2, d3, d4⟩ := divStep hx0 hx i2 ha0
    have hdm := Nat.div_add_mod (2 ^ w * (zzDivW w as x).2 + a0) x
    simp only [zzDivW, dlo, divisor_eq w (by omega : (zzDivW w as x).2 < 2 ^ w) ha0, d1, d2,
      val_cons, List.length_cons]
    refine ⟨?_, d4, Wf_cons.mpr ⟨d3, i3⟩, by rw [i4]⟩
    rw [i1]
    generalize (2 ^ w * (zzDivW w as x).2 + a0) / x = q0 at *
    generalize (2 ^ w * (zzDivW w as x).2 + a0) % x = r0 at *
    generalize zzDivW w as x = t at *
    nlinarith [hdm]

theorem zzModW_eq (w : Nat) (a : List Nat) (x : Nat) : zzModW w a x = (zzDivW w a x).2 := by
  induction a with
  | nil => rfl
  | cons a0 as ih => simp only [zzModW, zzDivW, ih]

theorem mod_of_divmod {v q x r : Nat} (h : v = q * x + r) (hr : r < x) : v % x = r ∧ v / x = q := by
  subst h
  have hx : 0 < x := by omega
  rw [Nat.mul_comm, Nat.mul_add_mod, Nat.mod_eq_of_lt hr, Nat.mul_add_div hx, Nat.div_eq_of_lt hr]
  exact ⟨rfl, rfl⟩

/-! ## §7 Montgomery reduction: callee facts and the Dusse–Kaliski loop -/

theorem lor_le_one {a b : Nat} (ha : a ≤ 1) (hb : b ≤ 1) : a ||| b ≤ 1 := by
  obtain rfl | rfl : a = 0 ∨ a = 1 := by omega
  all_goals obtain rfl | rfl : b = 0 ∨ b = 1 := by omega
  all_goals decide

theorem lor_eq_add {a b : Nat} (h : a + b ≤ 1) : a ||| b = a + b := by
  obtain rfl | rfl : a = 0 ∨ a = 1 := by omega
  · simp
  · obtain rfl : b = 0 := by omega
    rfl

/-- zzAddW / zzAddW2 (regular body): value, carry -/
theorem zzAddW_spec (w : Nat) (a : List Nat) (x : Nat) (ha : Wf w a) (hx : x < 2 ^ w) :
    val w (zzAddW w a x).1 + 2 ^ (w * a.length) * (zzAddW w a x).2 = val w a + x
    ∧ (zzAddW w a x).2 < 2 ^ w ∧ (x ≤ 1 ∨ a ≠ [] → (zzAddW w a x).2 ≤ 1)
    ∧ Wf w (zzAddW w a x).1 ∧ (zzAddW w a x).1.length = a.length := by
  induction a generalizing x with
  | nil => simp [zzAddW, val, Wf_nil, hx]
  | cons a0 as ih =>
    obtain ⟨ha0, has⟩ := Wf_cons.mp ha
    have hb : (a0 + x) % 2 ^ w = if a0 + x < 2 ^ w then a0 + x else a0 + x - 2 ^ w :=
      mod_wrap (by omega)
    have hc : wless01 ((a0 + x) % 2 ^ w) x ≤ 1 := by
      show (if _ < _ then 1 else 0) ≤ 1
      split <;> omega
    have hs : (a0 + x) % 2 ^ w + 2 ^ w * wless01 ((a0 + x) % 2 ^ w) x = a0 + x := by
      show _ + 2 ^ w * (if _ < _ then 1 else 0) = _
      rw [hb]
      split_ifs <;> omega
    have hlt : (a0 + x) % 2 ^ w < 2 ^ w := Nat.mod_lt _ (Nat.two_pow_pos w)
    obtain ⟨i1, i2, i3, i4, i5⟩ := ih (wless01 ((a0 + x) % 2 ^ w) x) has (by
      show (if _ < _ then 1 else 0) < 2 ^ w
      split <;> omega)
    simp only [zzAddW, wadd, val_cons, List.length_cons, powS]
    refine ⟨?_, i2, fun _ => i3 (Or.inl hc), Wf_cons.mpr ⟨hlt, i4⟩, by rw [i5]⟩
    have hs' : (a0 + x) % 2 ^ w + 2 ^ w * wless01 ((a0 + x) % 2 ^ w) x = (a0 + x) + 0 := hs
    have := mul_glue (B := 2 ^ w) (rest := val w as) hs' i1
    generalize zzAddW w as _ = r at *
    linarith

/-- the Montgomery multiplier kills the low word -/
theorem mont_word {B m0 mp a0 : Nat} (hmp : (m0 * mp + 1) % B = 0) :
    (a0 + m0 * (a0 * mp % B)) % B = 0 := by
  obtain ⟨q, hq⟩ := Nat.dvd_of_mod_eq_zero hmp
  have hd := Nat.div_add_mod (a0 * mp) B
  generalize a0 * mp / B = d at *
  generalize hm : a0 * mp % B = m at *
  have e1 : a0 * (m0 * mp + 1) = a0 * (B * q) := by rw [hq]
  have e2 : m0 * (B * d + m) = m0 * (a0 * mp) := by rw [hd]
  have e : a0 + m0 * m + B * (m0 * d) = B * (a0 * q) := by linarith [e1, e2]
  have : (a0 + m0 * m + B * (m0 * d)) % B = 0 := by rw [e]; exact Nat.mul_mod_right _ _
  rwa [Nat.add_mul_mod_self_left] at this

theorem head_zero {B z X Y : Nat} (hz : z < B) (h : z + B * X = B * Y) : z = 0 := by
  have : (z + B * X) % B = 0 := by rw [h]; exact Nat.mul_mod_right _ _
  rwa [Nat.add_mul_mod_self_left, Nat.mod_eq_of_lt hz] at this

/-- invariant of the Dusse–Kaliski loop on the window `a + i` (`n + k` words, `k` iterations
    left): afterwards the `k` low words are zero, the value is `a + t·mod` with `t < B^k`
    up to the carries `cs` out of the top, which the register `carry` accumulates. -/
theorem zzRedMontLoop_spec (w : Nat) (m0 : Nat) (ms : List Nat) (mp : Nat)
    (hmod : Wf w (m0 :: ms)) (hmp : (m0 * mp + 1) % 2 ^ w = 0) (k : Nat) (a : List Nat)
    (carry : Nat) (ha : Wf w a) (hl : a.length = (ms.length + 1) + k) (hc : carry ≤ 1) :
    ∃ t cs, t < 2 ^ (w * k)
      ∧ 2 ^ (w * k) * val w ((zzRedMontLoop w (m0 :: ms) mp k a carry).1.drop k)
          + 2 ^ (w * (ms.length + 1 + k)) * cs = val w a + t * val w (m0 :: ms)
      ∧ val w ((zzRedMontLoop w (m0 :: ms) mp k a carry).1.take k) = 0
      ∧ Wf w (zzRedMontLoop w (m0 :: ms) mp k a carry).1
      ∧ (zzRedMontLoop w (m0 :: ms) mp k a carry).1.length = ms.length + 1 + k
      ∧ (zzRedMontLoop w (m0 :: ms) mp k a carry).2 ≤ 1
      ∧ (carry + cs ≤ 1 → (zzRedMontLoop w (m0 :: ms) mp k a carry).2 = carry + cs) := by
  induction k generalizing a carry with
  | zero =>
    refine ⟨0, 0, by simp, by simp [zzRedMontLoop], by simp [zzRedMontLoop, val], ?_, ?_, ?_, ?_⟩
    all_goals simp [zzRedMontLoop, ha, hl, hc]
  | succ k ih =>
    cases a with
    | nil => simp at hl
    | cons ai at' =>
      have hB : 0 < 2 ^ w := Nat.two_pow_pos w
      obtain ⟨hai, _⟩ := Wf_cons.mp ha
      obtain ⟨hm0, _⟩ := Wf_cons.mp hmod
      have hn : (m0 :: ms).length = ms.length + 1 := rfl
      have hm : wmul w ai mp < 2 ^ w := Nat.mod_lt _ hB
      -- callee 1: zzAddMulW on the low n words
      have htl : ((ai :: at').take (ms.length + 1)).length = (m0 :: ms).length := by
        rw [List.length_take, hl, hn]; omega
      obtain ⟨s1, s2, s3, s4⟩ := zzAddMulWLoop_spec w ((ai :: at').take (ms.length + 1)) (m0 :: ms)
        (wmul w ai mp) 0 (Wf_take ha _) hmod htl hm hB
      -- callee 2: zzAddW2 on the remaining k+1 words
      have hdl : ((ai :: at').drop (ms.length + 1)).length = k + 1 := by
        rw [List.length_drop, hl]; omega
      obtain ⟨u1, _, u3, u4, u5⟩ := zzAddW_spec w ((ai :: at').drop (ms.length + 1))
        (zzAddMulWLoop w ((ai :: at').take (ms.length + 1)) (m0 :: ms) (wmul w ai mp) 0).2
        (Wf_drop ha _) s2
      have u3' := u3 (Or.inr (by intro h; rw [h] at hdl; simp at hdl))
      rw [hdl] at u1 u5
      rw [htl, hn] at s1 s4
      have hsplit := val_take_drop w (ai :: at') (ms.length + 1) (by rw [hl]; omega)
      -- the new window
      generalize hr1 : zzAddMulWLoop w ((ai :: at').take (ms.length + 1)) (m0 :: ms)
        (wmul w ai mp) 0 = r1 at *
      generalize hr2 : zzAddW w ((ai :: at').drop (ms.length + 1)) r1.2 = r2 at *
      obtain ⟨z, r1t, hz⟩ : ∃ z r1t, r1.1 = z :: r1t := by
        cases h : r1.1 with
        | nil => rw [h] at s4; simp at s4
        | cons z t => exact ⟨z, t, rfl⟩
      have hW : r1.1 ++ r2.1 = z :: (r1t ++ r2.1) := by rw [hz]; rfl
      have hWf : Wf w (z :: (r1t ++ r2.1)) := by rw [← hW]; exact Wf_append.mpr ⟨s3, u4⟩
      obtain ⟨hzB, hrest⟩ := Wf_cons.mp hWf
      have hlen : (r1t ++ r2.1).length = ms.length + 1 + k := by
        have : (r1.1 ++ r2.1).length = ms.length + 1 + (k + 1) := by
          rw [List.length_append, s4, u5]
        rw [hW, List.length_cons] at this; omega
      have hval : val w (r1.1 ++ r2.1) = z + 2 ^ w * val w (r1t ++ r2.1) := by rw [hW, val_cons]
      rw [val_append, s4] at hval
      -- total value of the step
      have hPk : 2 ^ (w * (ms.length + 1 + (k + 1)))
          = 2 ^ (w * (ms.length + 1)) * 2 ^ (w * (k + 1)) := by rw [Nat.mul_add, Nat.pow_add]
      have hPk' : 2 ^ (w * (ms.length + 1 + (k + 1))) = 2 ^ w * 2 ^ (w * (ms.length + 1 + k)) := by
        rw [← powS]; rfl
      have hstep : z + 2 ^ w * val w (r1t ++ r2.1) + 2 ^ (w * (ms.length + 1 + (k + 1))) * r2.2
          = val w (ai :: at') + val w (m0 :: ms) * wmul w ai mp := by
        rw [hPk, hsplit]
        generalize 2 ^ (w * (ms.length + 1)) = Pn at *
        generalize 2 ^ (w * (k + 1)) = Pk at *
        have u1' : Pn * (val w r2.1 + Pk * r2.2)
            = Pn * (val w (List.drop (ms.length + 1) (ai :: at')) + r1.2) := by rw [u1]
        linarith [s1, u1', hval]
      -- the low word of the new window is zero
      have hmw : (ai + m0 * wmul w ai mp) % 2 ^ w = 0 := mont_word hmp
      obtain ⟨e, he⟩ := Nat.dvd_of_mod_eq_zero hmw
      have hz0 : z = 0 := by
        refine head_zero (X := val w (r1t ++ r2.1) + 2 ^ (w * (ms.length + 1 + k)) * r2.2)
          (Y := e + val w at' + val w ms * wmul w ai mp) hzB ?_
        rw [hPk'] at hstep
        simp only [val_cons] at hstep
        linarith [hstep, he]
      -- induction hypothesis on the rest
      obtain ⟨t', cs', j1, j2, j3, j4, j5, j6, j7⟩ :=
        ih (r1t ++ r2.1) (carry ||| r2.2) hrest hlen (lor_le_one hc u3')
      have hunf : zzRedMontLoop w (m0 :: ms) mp (k + 1) (ai :: at') carry
          = (z :: (zzRedMontLoop w (m0 :: ms) mp k (r1t ++ r2.1) (carry ||| r2.2)).1,
             (zzRedMontLoop w (m0 :: ms) mp k (r1t ++ r2.1) (carry ||| r2.2)).2) := by
        simp only [zzRedMontLoop, zzAddMulW, zzAddW2, hn, hr1, hr2, hW]
      rw [hunf]
      generalize zzRedMontLoop w (m0 :: ms) mp k (r1t ++ r2.1) (carry ||| r2.2) = r' at *
      refine ⟨wmul w ai mp + 2 ^ w * t', r2.2 + cs', ?_, ?_, ?_, ?_, ?_, j6, ?_⟩
      · rw [powS]
        have : 2 ^ w * (t' + 1) ≤ 2 ^ w * 2 ^ (w * k) := Nat.mul_le_mul_left _ j1
        rw [Nat.mul_add] at this
        omega
      · simp only [List.drop_succ_cons]
        rw [powS, hPk']
        rw [hPk', hz0] at hstep
        generalize 2 ^ (w * (ms.length + 1 + k)) = Pnk at *
        generalize 2 ^ (w * k) = Pk at *
        generalize val w (List.drop k r'.1) = vh at *
        have j2' : 2 ^ w * (Pk * vh + Pnk * cs') = 2 ^ w * (val w (r1t ++ r2.1) + t' * val w (m0 :: ms)) := by
          rw [j2]
        linarith [hstep, j2']
      · simp only [List.take_succ_cons, val_cons, j3, hz0, Nat.mul_zero, Nat.add_zero]
      · exact Wf_cons.mpr ⟨hzB, j4⟩
      · simp only [List.length_cons, j5]; omega
      · intro h
        have h1 : carry ||| r2.2 = carry + r2.2 := lor_eq_add (by omega)
        rw [h1] at j7
        have := j7 (by omega)
        simp only [this]; omega

/-! ## §8 conditional subtraction: zzSub2, zzSubAndW, the compare-mask loop -/

theorem lor01 {a b : Nat} (ha : a ≤ 1) (hb : b ≤ 1) : a ||| b = if a = 0 then b else 1 := by
  obtain rfl | rfl : a = 0 ∨ a = 1 := by omega
  · simp
  · obtain rfl | rfl : b = 0 ∨ b = 1 := by omega
    all_goals rfl

/-- one iteration of the regular zzSub2 body: `x - y - c` -/
theorem subStepB {B x y c : Nat} (hx : x < B) (hy : y < B) (hc : c ≤ 1) :
    let t := (y + c) % B
    let b2 := wless01 t c ||| wless01 x t
    let s := (x + (B - t % B)) % B
    s + y + c = x + B * b2 ∧ s < B ∧ b2 ≤ 1 := by
  intro t b2 s
  have ht : t = if y + c < B then y + c else y + c - B := mod_wrap (by omega)
  have htB : t < B := Nat.mod_lt _ (by omega)
  have hs : s = if x + (B - t % B) < B then x + (B - t % B) else x + (B - t % B) - B :=
    mod_wrap (by omega)
  have hb2 : b2 = if (if t < c then 1 else 0) = 0 then (if x < t then 1 else 0) else 1 :=
    lor01 (by show (if _ < _ then 1 else 0) ≤ 1; split <;> omega)
      (by show (if _ < _ then 1 else 0) ≤ 1; split <;> omega)
  rw [Nat.mod_eq_of_lt htB] at hs
  clear_value t b2 s
  subst hb2
  split_ifs at * <;> subst_vars <;> simp <;> omega

theorem zzSub2Loop_spec (w : Nat) (b a : List Nat) (c : Nat) (hb : Wf w b) (ha : Wf w a)
    (hl : b.length = a.length) (hc : c ≤ 1) :
    val w (zzSub2Loop w b a c).1 + val w a + c
      = val w b + 2 ^ (w * b.length) * (zzSub2Loop w b a c).2
    ∧ (zzSub2Loop w b a c).2 ≤ 1 ∧ Wf w (zzSub2Loop w b a c).1
    ∧ (zzSub2Loop w b a c).1.length = b.length := by
  induction b generalizing a c with
  | nil => cases a <;> simp_all [zzSub2Loop, val, Wf_nil]
  | cons b0 bs ih =>
    cases a with
    | nil => simp at hl
    | cons a0 as =>
      obtain ⟨hb0, hbs⟩ := Wf_cons.mp hb
      obtain ⟨ha0, has⟩ := Wf_cons.mp ha
      obtain ⟨s1, s2, s3⟩ := subStepB hb0 ha0 hc
      simp only [zzSub2Loop, wadd, wsub, val_cons, List.length_cons, powS]
      obtain ⟨i1, i2, i3, i4⟩ := ih as _ hbs has (by simpa using hl) s3
      refine ⟨?_, i2, Wf_cons.mpr ⟨s2, i3⟩, by rw [i4]⟩
      generalize zzSub2Loop w bs as _ = r at *
      have := sub_glue (t := a0) (rest := val w as) s1 i1
      linarith

theorem and_ones {w a : Nat} (ha : a < 2 ^ w) : (2 ^ w - 1) &&& a = a := by
  rw [Nat.and_comm, Nat.and_two_pow_sub_one_eq_mod, Nat.mod_eq_of_lt ha]

/-- zzSubAndW with the all-ones mask is zzSub2 -/
theorem zzSubAndWLoop_ones (w : Nat) (b a : List Nat) (c : Nat) (ha : Wf w a) :
    zzSubAndWLoop w b a (2 ^ w - 1) c = zzSub2Loop w b a c := by
  induction b generalizing a c with
  | nil => cases a <;> simp [zzSubAndWLoop, zzSub2Loop]
  | cons b0 bs ih =>
    cases a with
    | nil => simp [zzSubAndWLoop, zzSub2Loop]
    | cons a0 as =>
      obtain ⟨ha0, has⟩ := Wf_cons.mp ha
      simp only [zzSubAndWLoop, zzSub2Loop, and_ones ha0, ih as _ has]

/-- zzSubAndW with the zero mask leaves `b` unchanged -/
theorem zzSubAndWLoop_zero (w : Nat) (b a : List Nat) (hb : Wf w b) (hl : b.length = a.length) :
    zzSubAndWLoop w b a 0 0 = (b, 0) := by
  induction b generalizing a with
  | nil => cases a <;> simp [zzSubAndWLoop]
  | cons b0 bs ih =>
    cases a with
    | nil => simp at hl
    | cons a0 as =>
      obtain ⟨hb0, hbs⟩ := Wf_cons.mp hb
      simp [zzSubAndWLoop, wadd, wsub, wless01, ih as hbs (by simpa using hl), Nat.mod_eq_of_lt hb0]

theorem wneg01 {w f : Nat} (hw : 0 < w) (hf : f ≤ 1) :
    wneg w f = if f = 0 then 0 else 2 ^ w - 1 := by
  have h2 : 2 ≤ 2 ^ w := by
    calc 2 = 2 ^ 1 := rfl
      _ ≤ 2 ^ w := Nat.pow_le_pow_right (by omega) hw
  obtain rfl | rfl : f = 0 ∨ f = 1 := by omega
  · simp [wneg]
  · show (2 ^ w - 1 % 2 ^ w) % 2 ^ w = _
    rw [Nat.mod_eq_of_lt (by omega : 1 < 2 ^ w), Nat.mod_eq_of_lt (by omega)]
    simp

/-- `zzSubAndW(b, mod, n, WORD_0 - f)`, `f ∈ {0,1}`: subtract iff `f = 1` -/
theorem zzSubAndW_flag (w : Nat) (hw : 0 < w) (b a : List Nat) (f : Nat) (hf : f ≤ 1)
    (hb : Wf w b) (ha : Wf w a) (hl : b.length = a.length) :
    (zzSubAndW w b a (wneg w f)).1 = if f = 0 then b else (zzSub2 w b a).1 := by
  rw [wneg01 hw hf]
  unfold zzSubAndW zzSub2
  split
  · rw [zzSubAndWLoop_zero w b a hb hl]
  · rw [zzSubAndWLoop_ones w b a 0 ha]

theorem maskStep01 {mask m h : Nat} (hm : mask ≤ 1) :
    maskStep mask m h = if m < h then 1 else if m = h then mask else 0 := by
  obtain rfl | rfl : mask = 0 ∨ mask = 1 := by omega
  all_goals
    show (_ &&& (if m = h then 1 else 0)) ||| (if m < h then 1 else 0) = _
    split_ifs <;> first | rfl | omega

theorem lex_lt {B m h vm vh : Nat} (hm : m < B) (hh : h < B) :
    (m + B * vm < h + B * vh ↔ vm < vh ∨ (vm = vh ∧ m < h))
    ∧ (m + B * vm = h + B * vh ↔ vm = vh ∧ m = h) := by
  rcases Nat.lt_trichotomy vm vh with h1 | h1 | h1
  · have : B * (vm + 1) ≤ B * vh := Nat.mul_le_mul_left _ h1
    rw [Nat.mul_succ] at this
    constructor <;> constructor <;> intro <;> omega
  · subst h1
    constructor <;> constructor <;> intro <;> omega
  · have : B * (vh + 1) ≤ B * vm := Nat.mul_le_mul_left _ h1
    rw [Nat.mul_succ] at this
    constructor <;> constructor <;> intro <;> omega

/-- the copy-and-compare loop of SAFE(zzRedMont): copies `hi`, final mask = `[mod < hi]`, or the
    initial mask when equal -/
theorem zzRedMontCmp_spec (w : Nat) (hi mod : List Nat) (mask : Nat) (hhi : Wf w hi)
    (hmod : Wf w mod) (hl : hi.length = mod.length) (hm : mask ≤ 1) :
    (zzRedMontCmp hi mod mask).1 = hi
    ∧ (zzRedMontCmp hi mod mask).2
      = if val w mod < val w hi then 1 else if val w mod = val w hi then mask else 0 := by
  induction hi generalizing mod mask with
  | nil => cases mod <;> simp_all [zzRedMontCmp, val]
  | cons h hs ih =>
    cases mod with
    | nil => simp at hl
    | cons m ms =>
      obtain ⟨hh, hhs⟩ := Wf_cons.mp hhi
      obtain ⟨hmm, hms⟩ := Wf_cons.mp hmod
      have hst := maskStep01 (m := m) (h := h) hm
      have hst1 : maskStep mask m h ≤ 1 := by rw [hst]; split_ifs <;> omega
      obtain ⟨i1, i2⟩ := ih ms (maskStep mask m h) hhs hms (by simpa using hl) hst1
      obtain ⟨l1, l2⟩ := lex_lt (vm := val w ms) (vh := val w hs) hmm hh
      refine ⟨by simp only [zzRedMontCmp, i1], ?_⟩
      simp only [zzRedMontCmp, val_cons]
      rw [i2, hst]
      simp only [l1, l2]
      generalize val w ms = vms at *
      generalize val w hs = vhs at *
      by_cases c1 : vms < vhs
      · simp [c1]
      · by_cases c2 : vms = vhs
        · subst c2; simp
        · simp [c1, c2]

/-! ## §9 wwCmp / wwCmp2 (SAFE editions = default build) -/

theorem wwCmpStep_less (p : Nat × Nat) : wwCmpStep (1, 0) p = (1, 0) := by
  by_cases h1 : p.1 < p.2 <;> simp [wwCmpStep, wless01, wgreater01, h1]

theorem wwCmpStep_greater (p : Nat × Nat) : wwCmpStep (0, 1) p = (0, 1) := by
  by_cases h2 : p.2 < p.1 <;> simp [wwCmpStep, wless01, wgreater01, h2]

theorem wwCmpStep_eq (x y : Nat) :
    wwCmpStep (0, 0) (x, y) = if x < y then (1, 0) else if y < x then (0, 1) else (0, 0) := by
  by_cases h1 : x < y
  · have h2 : ¬ y < x := by omega
    simp [wwCmpStep, wless01, wgreater01, h1]
  · by_cases h2 : y < x <;> simp [wwCmpStep, wless01, wgreater01, h1, h2]

theorem wwCmpFold_spec (w : Nat) (a b : List Nat) (ha : Wf w a) (hb : Wf w b)
    (hl : a.length = b.length) :
    (a.zip b).foldr (fun p s => wwCmpStep s p) (0, 0)
      = if val w a < val w b then (1, 0) else if val w b < val w a then (0, 1) else (0, 0) := by
  induction a generalizing b with
  | nil => cases b <;> simp_all [val]
  | cons x xs ih =>
    cases b with
    | nil => simp at hl
    | cons y ys =>
      obtain ⟨hx, hxs⟩ := Wf_cons.mp ha
      obtain ⟨hy, hys⟩ := Wf_cons.mp hb
      obtain ⟨l1, _⟩ := lex_lt (vm := val w xs) (vh := val w ys) hx hy
      obtain ⟨l2, _⟩ := lex_lt (vm := val w ys) (vh := val w xs) hy hx
      simp only [List.zip_cons_cons, List.foldr_cons, ih ys hxs hys (by simpa using hl), val_cons,
        l1, l2]
      generalize val w xs = vx at *
      generalize val w ys = vy at *
      rcases Nat.lt_trichotomy vx vy with c | c | c
      · have : ¬ vy < vx := by omega
        have : ¬ vy = vx := by omega
        simp [*, wwCmpStep_less]
      · subst c
        simp [wwCmpStep_eq]
      · have : ¬ vx < vy := by omega
        have : ¬ vx = vy := by omega
        simp [*, wwCmpStep_greater]

theorem wwCmp_safe_ge (w : Nat) (a b : List Nat) (ha : Wf w a) (hb : Wf w b)
    (hl : a.length = b.length) : wwCmp_safe a b ≥ 0 ↔ val w b ≤ val w a := by
  unfold wwCmp_safe
  rw [List.foldl_reverse, wwCmpFold_spec w a b ha hb hl]
  split_ifs <;> simp <;> omega

theorem wwCmp2_safe_top (w : Nat) (hi mod : List Nat) (c : Nat) (hhi : Wf w hi) (hmod : Wf w mod)
    (hl : hi.length = mod.length) (hc : c ≤ 1) :
    wwCmp2_safe (hi ++ [c]) mod ≥ 0 ↔ val w mod ≤ val w hi + 2 ^ (w * mod.length) * c := by
  have hlt := val_lt hmod
  have h1 : (hi ++ [c]).length > mod.length := by simp; omega
  have hd : (hi ++ [c]).drop mod.length = [c] := by rw [← hl]; simp
  have ht : (hi ++ [c]).take mod.length = hi := by rw [← hl]; simp
  unfold wwCmp2_safe
  simp only [h1, if_true, hd, ht]
  obtain rfl | rfl : c = 0 ∨ c = 1 := by omega
  · simp [wwIsZero_safe, wwCmp_safe_ge w hi mod hhi hmod hl]
  · simp [wwIsZero_safe]; omega

/-! ## §10 zzRedMont: the final conditional subtraction -/

/-- value-level end game: from `B^n V = a + t m`, `t < B^n`, `a < m B^n` to `V < 2m`, and the
    conditionally reduced `V` is `a B^{-n} mod m` -/
theorem mont_finish (w : Nat) (hi mod res : List Nat) (cs t va : Nat) (hhi : Wf w hi)
    (hmod : Wf w mod) (hlen : hi.length = mod.length) (hcs : cs ≤ 1)
    (ht : t < 2 ^ (w * mod.length))
    (heq : 2 ^ (w * mod.length) * val w hi + 2 ^ (w * (mod.length + mod.length)) * cs
      = va + t * val w mod)
    (hlt : va < val w mod * 2 ^ (w * mod.length))
    (hres : res = if val w mod ≤ val w hi + 2 ^ (w * mod.length) * cs
      then (zzSub2 w hi mod).1 else hi) :
    (val w res * 2 ^ (w * mod.length)) % val w mod = va % val w mod ∧ val w res < val w mod
    ∧ Wf w res ∧ res.length = mod.length := by
  obtain ⟨s1, s2, s3, s4⟩ := zzSub2Loop_spec w hi mod 0 hhi hmod hlen (by omega)
  have hvh := val_lt hhi
  have hvs := val_lt s3
  rw [s4] at hvs
  rw [hlen] at hvh hvs s1
  have hvm := val_lt hmod
  have hP2 : 2 ^ (w * (mod.length + mod.length)) = 2 ^ (w * mod.length) * 2 ^ (w * mod.length) := by
    rw [Nat.mul_add, Nat.pow_add]
  rw [hP2] at heq
  clear hP2
  subst hres
  generalize 2 ^ (w * mod.length) = Pn at *
  generalize val w mod = vm at *
  have hvm0 : 0 < vm := by
    rcases Nat.eq_zero_or_pos vm with h | h
    · rw [h] at hlt; simp at hlt
    · exact h
  -- V < 2 m
  have hV : val w hi + Pn * cs < 2 * vm := by
    have h1 : t * vm < Pn * vm := Nat.mul_lt_mul_of_pos_right ht hvm0
    have h2 : Pn * (val w hi + Pn * cs) < Pn * (2 * vm) := by nlinarith
    exact Nat.lt_of_mul_lt_mul_left h2
  have hmod_eq : ∀ vr, vr * Pn + Pn * vm = va + t * vm ∨ vr * Pn = va + t * vm →
      vr * Pn % vm = va % vm := by
    intro vr h
    rcases h with h | h
    · have : (vr * Pn + Pn * vm) % vm = (va + t * vm) % vm := by rw [h]
      rwa [Nat.add_mul_mod_self_right, Nat.add_mul_mod_self_right] at this
    · have : (vr * Pn) % vm = (va + t * vm) % vm := by rw [h]
      rwa [Nat.add_mul_mod_self_right] at this
  by_cases hcnd : vm ≤ val w hi + Pn * cs
  · rw [if_pos hcnd]
    unfold zzSub2
    generalize zzSub2Loop w hi mod 0 = r at *
    refine ⟨?_, ?_, s3, by rw [s4, hlen]⟩
    all_goals
      obtain rfl | rfl : cs = 0 ∨ cs = 1 := by omega
      all_goals obtain h | h : r.2 = 0 ∨ r.2 = 1 := by omega
      all_goals rw [h] at s1
    · exact hmod_eq _ (Or.inl (by nlinarith))
    · exfalso; omega
    · exfalso; omega
    · exact hmod_eq _ (Or.inl (by nlinarith))
    all_goals omega
  · rw [if_neg hcnd]
    have hcs0 : cs = 0 := by
      obtain rfl | rfl : cs = 0 ∨ cs = 1 := by omega
      · rfl
      · exfalso; omega
    subst hcs0
    refine ⟨hmod_eq _ (Or.inr (by nlinarith)), by omega, hhi, hlen⟩

/-- what both editions compute: the high half after the loop, minus `mod` iff
    `mod ≤ high half + B^n carry` -/
def montRes (w : Nat) (m0 : Nat) (ms a : List Nat) (mp : Nat) : List Nat :=
  if val w (m0 :: ms) ≤ val w ((zzRedMontLoop w (m0 :: ms) mp (ms.length + 1) a 0).1.drop
      (ms.length + 1))
    + 2 ^ (w * (ms.length + 1)) * (zzRedMontLoop w (m0 :: ms) mp (ms.length + 1) a 0).2
  then (zzSub2 w ((zzRedMontLoop w (m0 :: ms) mp (ms.length + 1) a 0).1.drop (ms.length + 1))
    (m0 :: ms)).1
  else (zzRedMontLoop w (m0 :: ms) mp (ms.length + 1) a 0).1.drop (ms.length + 1)

theorem zzRedMont_common (w : Nat) (m0 : Nat) (ms a : List Nat) (mp : Nat)
    (ha : Wf w a) (hmod : Wf w (m0 :: ms)) (hl : a.length = (ms.length + 1) + (ms.length + 1))
    (hmp : (m0 * mp + 1) % 2 ^ w = 0)
    (hlt : val w a < val w (m0 :: ms) * 2 ^ (w * (ms.length + 1))) (res : List Nat)
    (hres : res = montRes w m0 ms a mp) :
    (val w res * 2 ^ (w * (ms.length + 1))) % val w (m0 :: ms) = val w a % val w (m0 :: ms)
    ∧ val w res < val w (m0 :: ms) ∧ Wf w res ∧ res.length = ms.length + 1 := by
  unfold montRes at hres
  obtain ⟨t, cs, j1, j2, _, j4, j5, j6, j7⟩ :=
    zzRedMontLoop_spec w m0 ms mp hmod hmp (ms.length + 1) a 0 ha hl (by omega)
  generalize zzRedMontLoop w (m0 :: ms) mp (ms.length + 1) a 0 = r at *
  have hhl : (r.1.drop (ms.length + 1)).length = (m0 :: ms).length := by
    rw [List.length_drop, j5]; simp
  have hcs : cs ≤ 1 := by
    have hvm := val_lt hmod
    have hvh := val_lt (Wf_drop j4 (ms.length + 1))
    rw [hhl] at hvh
    simp only [List.length_cons] at hvm hvh
    have hP2 : 2 ^ (w * (ms.length + 1 + (ms.length + 1)))
        = 2 ^ (w * (ms.length + 1)) * 2 ^ (w * (ms.length + 1)) := by
      rw [Nat.mul_add, Nat.pow_add]
    rw [hP2] at j2
    clear hP2
    generalize 2 ^ (w * (ms.length + 1)) = Pn at *
    generalize val w (m0 :: ms) = vm at *
    by_contra hcon
    have h2 : 2 ≤ cs := by omega
    have h1 : t * vm < Pn * Pn := Nat.mul_lt_mul'' j1 hvm
    have h3 : Pn * Pn * 2 ≤ Pn * Pn * cs := Nat.mul_le_mul_left _ h2
    have h4 : vm * Pn < Pn * Pn := Nat.mul_lt_mul_of_pos_right hvm (by omega)
    omega
  have hr2 : r.2 = cs := by simpa using j7 (by omega)
  rw [hr2] at hres
  exact mont_finish w (r.1.drop (ms.length + 1)) (m0 :: ms) res cs t (val w a)
    (Wf_drop j4 _) hmod hhl hcs j1 j2 hlt hres

theorem zzRedMont_safe_eq (w : Nat) (m0 : Nat) (ms a : List Nat) (mp : Nat)
    (ha : Wf w a) (hmod : Wf w (m0 :: ms)) (hl : a.length = (ms.length + 1) + (ms.length + 1))
    (hmp : (m0 * mp + 1) % 2 ^ w = 0)
    (hlt : val w a < val w (m0 :: ms) * 2 ^ (w * (ms.length + 1))) :
    zzRedMont_safe w a (m0 :: ms) mp = montRes w m0 ms a mp := by
  have hw : 0 < w := by
    rcases Nat.eq_zero_or_pos w with h | h
    · subst h
      have := val_lt hmod
      simp at this
      rw [this] at hlt; simp at hlt
    · exact h
  obtain ⟨t, cs, _, _, _, j4, j5, j6, _⟩ :=
    zzRedMontLoop_spec w m0 ms mp hmod hmp (ms.length + 1) a 0 ha hl (by omega)
  unfold zzRedMont_safe montRes
  simp only [List.length_cons]
  generalize zzRedMontLoop w (m0 :: ms) mp (ms.length + 1) a 0 = r at *
  have hhl : (r.1.drop (ms.length + 1)).length = (m0 :: ms).length := by
    rw [List.length_drop, j5]; simp
  have hhi := Wf_drop j4 (ms.length + 1)
  obtain ⟨c1, c2⟩ := zzRedMontCmp_spec w (r.1.drop (ms.length + 1)) (m0 :: ms) 1 hhi hmod hhl
    (by omega)
  have hvh := val_lt hhi
  have hvm := val_lt hmod
  rw [hhl] at hvh
  simp only [List.length_cons] at hvh hvm
  have hf : (zzRedMontCmp (r.1.drop (ms.length + 1)) (m0 :: ms) 1).2 ||| r.2 ≤ 1 :=
    lor_le_one (by rw [c2]; split_ifs <;> omega) j6
  rw [zzSubAndW_flag w hw _ _ _ hf (by rw [c1]; exact hhi) hmod (by rw [c1]; exact hhl), c1, c2]
  generalize val w (r.1.drop (ms.length + 1)) = vh at *
  generalize val w (m0 :: ms) = vm at *
  generalize 2 ^ (w * (ms.length + 1)) = Pn at *
  obtain h | h : r.2 = 0 ∨ r.2 = 1 := by omega
  all_goals rw [h]
  all_goals split_ifs <;> first | rfl | (exfalso; omega) | (exfalso; simp_all <;> omega)

theorem zzRedMont_fast_eq (w : Nat) (m0 : Nat) (ms a : List Nat) (mp : Nat)
    (ha : Wf w a) (hmod : Wf w (m0 :: ms)) (hl : a.length = (ms.length + 1) + (ms.length + 1))
    (hmp : (m0 * mp + 1) % 2 ^ w = 0) :
    zzRedMont_fast w a (m0 :: ms) mp = montRes w m0 ms a mp := by
  obtain ⟨t, cs, _, _, _, j4, j5, j6, _⟩ :=
    zzRedMontLoop_spec w m0 ms mp hmod hmp (ms.length + 1) a 0 ha hl (by omega)
  unfold zzRedMont_fast montRes
  simp only [List.length_cons]
  generalize zzRedMontLoop w (m0 :: ms) mp (ms.length + 1) a 0 = r at *
  have hhl : (r.1.drop (ms.length + 1)).length = (m0 :: ms).length := by
    rw [List.length_drop, j5]; simp
  have htk : (r.1.drop (ms.length + 1)).take (ms.length + 1) = r.1.drop (ms.length + 1) := by
    apply List.take_of_length_le; rw [hhl]; simp
  rw [htk]
  have := wwCmp2_safe_top w (r.1.drop (ms.length + 1)) (m0 :: ms) r.2 (Wf_drop j4 _) hmod hhl j6
  simp only [List.length_cons] at this
  by_cases hc : wwCmp2_safe (r.1.drop (ms.length + 1) ++ [r.2]) (m0 :: ms) ≥ 0
  · rw [if_pos hc, if_pos (this.mp hc)]
  · rw [if_neg hc, if_neg (fun h => hc (this.mpr h))]

/-! ## §11 Crandall reduction -/

theorem val_ones (w : Nat) (ms : List Nat) (h : ∀ x ∈ ms, x = 2 ^ w - 1) :
    val w ms + 1 = 2 ^ (w * ms.length) := by
  induction ms with
  | nil => simp [val]
  | cons x xs ih =>
    have hx : x = 2 ^ w - 1 := h x List.mem_cons_self
    have ih' := ih (fun y hy => h y (List.mem_cons_of_mem _ hy))
    have hB : 0 < 2 ^ w := Nat.two_pow_pos w
    have : 2 ^ w * (val w xs + 1) = 2 ^ w * 2 ^ (w * xs.length) := by rw [ih']
    rw [Nat.mul_add] at this
    rw [val_cons, List.length_cons, powS, hx]
    omega

theorem Wf_ones (w : Nat) (ms : List Nat) (h : ∀ x ∈ ms, x = 2 ^ w - 1) : Wf w ms := by
  intro x hx
  rw [h x hx]
  have := Nat.two_pow_pos w
  omega

theorem zzAddW_zero (w : Nat) (a : List Nat) (ha : Wf w a) : zzAddW w a 0 = (a, 0) := by
  induction a with
  | nil => rfl
  | cons a0 as ih =>
    obtain ⟨ha0, has⟩ := Wf_cons.mp ha
    simp [zzAddW, wadd, wless01, Nat.mod_eq_of_lt ha0, ih has]

/-- the "add and cmp" loop of SAFE(zzRedCrand) = zzAddW2 followed by the compare-mask loop -/
theorem zzRedCrandLoop_eq (w : Nat) (a ms : List Nat) (carry mask : Nat)
    (hl : a.length = ms.length) :
    zzRedCrandLoop w a ms carry mask
      = ((zzAddW w a carry).1, (zzAddW w a carry).2,
          (zzRedMontCmp (zzAddW w a carry).1 ms mask).2) := by
  induction a generalizing ms carry mask with
  | nil => cases ms <;> simp_all [zzRedCrandLoop, zzAddW, zzRedMontCmp]
  | cons a0 as ih =>
    cases ms with
    | nil => simp at hl
    | cons m0 ms =>
      simp only [zzRedCrandLoop, zzAddW, zzRedMontCmp, ih ms _ _ (by simpa using hl)]

/-- value-level end game of the Crandall reduction (`M + c = B^n`) -/
theorem crand_finish {Pn M c va cy vr k : Nat} (hM : M + c = Pn) (hva : va < Pn)
    (hcy : cy ≤ 1) (hV : va + Pn * cy < 2 * M) (hk : k ≤ 1) (hvr : vr < Pn)
    (h : if cy ≠ 0 ∨ M ≤ va then vr + Pn * k = va + c else vr = va) :
    vr < M ∧ ∃ d, va + Pn * cy = vr + M * d := by
  obtain rfl | rfl : cy = 0 ∨ cy = 1 := by omega
  all_goals obtain rfl | rfl : k = 0 ∨ k = 1 := by omega
  all_goals
    split_ifs at h with h1
    · refine ⟨by omega, 1, by omega⟩
    · refine ⟨by omega, 0, by omega⟩

/-- the common part of both editions: iter1, iter2 and the carry propagation give
    `a' + B^n cy ≡ a (mod M)`, `< 2M` -/
theorem crand_pre (w : Nat) (m0 : Nat) (ms a : List Nat) (ha : Wf w a)
    (hm0 : 0 < m0) (hm0B : m0 < 2 ^ w) (hms : ∀ x ∈ ms, x = 2 ^ w - 1) (hms1 : 0 < ms.length)
    (hl : a.length = (ms.length + 1) + (ms.length + 1)) :
    ∃ a0 at1 r12,
      zzAddMulWLoop w (a.take (ms.length + 1)) (a.drop (ms.length + 1)) (wneg w m0) 0
        = (a0 :: at1, r12)
      ∧ at1.length = ms.length ∧ Wf w at1
      ∧ dlo w (dshr w (dadd w (dmul w r12 (wneg w m0)) a0)) < 2 ^ w
      ∧ dlo w (dadd w (dmul w r12 (wneg w m0)) a0) < 2 ^ w
      ∧ ∃ q, val w a = (val w (dlo w (dadd w (dmul w r12 (wneg w m0)) a0)
            :: (zzAddW w at1 (dlo w (dshr w (dadd w (dmul w r12 (wneg w m0)) a0)))).1)
          + 2 ^ (w * (ms.length + 1))
            * (zzAddW w at1 (dlo w (dshr w (dadd w (dmul w r12 (wneg w m0)) a0)))).2)
          + val w (m0 :: ms) * q
        ∧ val w (dlo w (dadd w (dmul w r12 (wneg w m0)) a0)
            :: (zzAddW w at1 (dlo w (dshr w (dadd w (dmul w r12 (wneg w m0)) a0)))).1)
          + 2 ^ (w * (ms.length + 1))
            * (zzAddW w at1 (dlo w (dshr w (dadd w (dmul w r12 (wneg w m0)) a0)))).2
          < 2 * val w (m0 :: ms) := by
  have hB : 0 < 2 ^ w := Nat.two_pow_pos w
  have hc : wneg w m0 = 2 ^ w - m0 := by
    show (2 ^ w - m0 % 2 ^ w) % 2 ^ w = _
    rw [Nat.mod_eq_of_lt hm0B, Nat.mod_eq_of_lt (by omega)]
  have hcB : wneg w m0 < 2 ^ w := by omega
  have hc0 : 0 < wneg w m0 := by omega
  -- modulus
  have hM : val w (m0 :: ms) + wneg w m0 = 2 ^ (w * (ms.length + 1)) := by
    have h1 := val_ones w ms hms
    have : 2 ^ w * (val w ms + 1) = 2 ^ w * 2 ^ (w * ms.length) := by rw [h1]
    rw [Nat.mul_add] at this
    rw [val_cons, powS, hc]; omega
  -- iter1
  have htl : (a.take (ms.length + 1)).length = (a.drop (ms.length + 1)).length := by
    rw [List.length_take, List.length_drop, hl]; omega
  have htl' : (a.take (ms.length + 1)).length = ms.length + 1 := by
    rw [List.length_take, hl]; omega
  obtain ⟨s1, s2, s3, s4⟩ := zzAddMulWLoop_spec w (a.take (ms.length + 1))
    (a.drop (ms.length + 1)) (wneg w m0) 0 (Wf_take ha _) (Wf_drop ha _) htl hcB hB
  have hsplit := val_take_drop w a (ms.length + 1) (by rw [hl]; omega)
  rw [htl'] at s1 s4
  generalize zzAddMulWLoop w (a.take (ms.length + 1)) (a.drop (ms.length + 1)) (wneg w m0) 0
    = r1 at *
  obtain ⟨r11, r12⟩ := r1
  simp only at s1 s2 s3 s4
  obtain ⟨a0, at1, rfl⟩ : ∃ a0 at1, r11 = a0 :: at1 := by
    cases r11 with
    | nil => simp at s4
    | cons x t => exact ⟨x, t, rfl⟩
  obtain ⟨ha0, hat1⟩ := Wf_cons.mp s3
  have hlat : at1.length = ms.length := by simpa using s4
  -- iter2
  have hp := mul_add_lt s2 hcB ha0 hB
  have hprod : dadd w (dmul w r12 (wneg w m0)) a0 = r12 * wneg w m0 + a0 := by
    simp only [dadd, dmul, pow2w]
    rw [Nat.mod_eq_of_lt (a := r12 * wneg w m0) (by omega), Nat.mod_eq_of_lt (by omega)]
  obtain ⟨d1, d2, d3, d4⟩ := split_dword hB (p := r12 * wneg w m0 + a0) (by omega)
  have hlo : dlo w (dadd w (dmul w r12 (wneg w m0)) a0) = (r12 * wneg w m0 + a0) % 2 ^ w := by
    rw [hprod]
  have hhi : dlo w (dshr w (dadd w (dmul w r12 (wneg w m0)) a0))
      = (r12 * wneg w m0 + a0) / 2 ^ w % 2 ^ w := by
    rw [hprod]
  refine ⟨a0, at1, r12, rfl, hlat, hat1, by rw [hhi]; exact d3, by rw [hlo]; exact d2, ?_⟩
  rw [hlo, hhi]
  obtain ⟨u1, _, u3, u4, u5⟩ := zzAddW_spec w at1 ((r12 * wneg w m0 + a0) / 2 ^ w % 2 ^ w) hat1 d3
  have u3' := u3 (Or.inr (by intro h; rw [h] at hlat; simp at hlat; omega))
  rw [hlat] at u1
  generalize zzAddW w at1 ((r12 * wneg w m0 + a0) / 2 ^ w % 2 ^ w) = r2 at *
  have hva1 := val_lt hat1
  rw [hlat] at hva1
  have hBP : 2 ^ w ≤ 2 ^ (w * ms.length) :=
    Nat.pow_le_pow_right (by omega) (Nat.le_mul_of_pos_right w hms1)
  simp only [val_cons] at s1 hM ⊢
  rw [powS] at s1 hM hsplit ⊢
  generalize (r12 * wneg w m0 + a0) / 2 ^ w % 2 ^ w = hi at *
  generalize (r12 * wneg w m0 + a0) % 2 ^ w = lo at *
  generalize 2 ^ (w * ms.length) = P at *
  generalize wneg w m0 = c at *
  generalize val w (List.take (ms.length + 1) a) = vlo at *
  generalize val w (List.drop (ms.length + 1) a) = vhi at *
  generalize val w ms = vms at *
  generalize val w at1 = vat at *
  generalize val w a = va at *
  generalize 2 ^ w = B at *
  clear hprod hhi hlo hms u3 u4 u5 s3 s4 hat1 hlat htl htl' hl ha
  obtain ⟨r21, r22⟩ := r2
  simp only at *
  generalize val w r21 = v2 at *
  have e1 : B * (v2 + P * r22) = B * (vat + hi) := by rw [u1]
  have hrc : r12 * c ≤ (B - 1) * (B - 1) := Nat.mul_le_mul (by omega) (by omega)
  refine ⟨vhi + r12, ?_, ?_⟩
  · have h1 : B * P * vhi = (m0 + B * vms) * vhi + c * vhi := by rw [← hM]; ring
    have h2 : B * P * r12 = (m0 + B * vms) * r12 + c * r12 := by rw [← hM]; ring
    linarith [s1, e1, d1, hsplit, h1, h2]
  · have hBB : B * B ≤ B * P := Nat.mul_le_mul_left _ hBP
    have hsq : (B - 1) * (B - 1) + 2 * B ≤ B * B + 1 := by
      obtain ⟨k, rfl⟩ : ∃ k, B = k + 1 := ⟨B - 1, by omega⟩
      simp only [Nat.add_sub_cancel]; nlinarith
    have hbv : B * (vat + 1) ≤ B * P := Nat.mul_le_mul_left _ hva1
    linarith [s1, e1, d1, hM, hrc, hBB, hsq, hbv]

/-- what both editions of zzRedCrand compute -/
def crandRes (w : Nat) (m0 : Nat) (ms a : List Nat) : List Nat :=
  match (zzAddMulWLoop w (a.take (ms.length + 1)) (a.drop (ms.length + 1)) (wneg w m0) 0).1 with
  | [] => []
  | a0 :: at1 =>
    if (zzAddW w at1 (dlo w (dshr w (dadd w (dmul w (zzAddMulWLoop w (a.take (ms.length + 1))
          (a.drop (ms.length + 1)) (wneg w m0) 0).2 (wneg w m0)) a0)))).2 ≠ 0
      ∨ val w (m0 :: ms) ≤ val w (dlo w (dadd w (dmul w (zzAddMulWLoop w (a.take (ms.length + 1))
          (a.drop (ms.length + 1)) (wneg w m0) 0).2 (wneg w m0)) a0)
        :: (zzAddW w at1 (dlo w (dshr w (dadd w (dmul w (zzAddMulWLoop w (a.take (ms.length + 1))
          (a.drop (ms.length + 1)) (wneg w m0) 0).2 (wneg w m0)) a0)))).1)
    then (zzAddW w (dlo w (dadd w (dmul w (zzAddMulWLoop w (a.take (ms.length + 1))
          (a.drop (ms.length + 1)) (wneg w m0) 0).2 (wneg w m0)) a0)
        :: (zzAddW w at1 (dlo w (dshr w (dadd w (dmul w (zzAddMulWLoop w (a.take (ms.length + 1))
          (a.drop (ms.length + 1)) (wneg w m0) 0).2 (wneg w m0)) a0)))).1) (wneg w m0)).1
    else dlo w (dadd w (dmul w (zzAddMulWLoop w (a.take (ms.length + 1))
          (a.drop (ms.length + 1)) (wneg w m0) 0).2 (wneg w m0)) a0)
        :: (zzAddW w at1 (dlo w (dshr w (dadd w (dmul w (zzAddMulWLoop w (a.take (ms.length + 1))
          (a.drop (ms.length + 1)) (wneg w m0) 0).2 (wneg w m0)) a0)))).1

theorem crandRes_spec (w : Nat) (m0 : Nat) (ms a : List Nat) (ha : Wf w a)
    (hm0 : 0 < m0) (hm0B : m0 < 2 ^ w) (hms : ∀ x ∈ ms, x = 2 ^ w - 1) (hms1 : 0 < ms.length)
    (hl : a.length = (ms.length + 1) + (ms.length + 1)) :
    val w (crandRes w m0 ms a) = val w a % val w (m0 :: ms)
    ∧ val w (crandRes w m0 ms a) < val w (m0 :: ms)
    ∧ Wf w (crandRes w m0 ms a) ∧ (crandRes w m0 ms a).length = ms.length + 1 := by
  obtain ⟨a0, at1, r12, hr1, hlat, hat1, hhiB, hloB, q, hq, hV⟩ :=
    crand_pre w m0 ms a ha hm0 hm0B hms hms1 hl
  unfold crandRes
  rw [hr1]
  simp only
  have hc : wneg w m0 = 2 ^ w - m0 := by
    show (2 ^ w - m0 % 2 ^ w) % 2 ^ w = _
    rw [Nat.mod_eq_of_lt hm0B, Nat.mod_eq_of_lt (by omega)]
  have hcB : wneg w m0 < 2 ^ w := by omega
  have hM : val w (m0 :: ms) + wneg w m0 = 2 ^ (w * (ms.length + 1)) := by
    have h1 := val_ones w ms hms
    have : 2 ^ w * (val w ms + 1) = 2 ^ w * 2 ^ (w * ms.length) := by rw [h1]
    rw [Nat.mul_add] at this
    rw [val_cons, powS, hc]; omega
  obtain ⟨u1, _, u3, u4, u5⟩ := zzAddW_spec w at1
    (dlo w (dshr w (dadd w (dmul w r12 (wneg w m0)) a0))) hat1 hhiB
  have u3' := u3 (Or.inr (by intro h; rw [h] at hlat; simp at hlat; omega))
  generalize dlo w (dshr w (dadd w (dmul w r12 (wneg w m0)) a0)) = hi at *
  generalize dlo w (dadd w (dmul w r12 (wneg w m0)) a0) = lo at *
  generalize zzAddW w at1 hi = r2 at *
  have hWa' : Wf w (lo :: r2.1) := Wf_cons.mpr ⟨hloB, u4⟩
  have hla' : (lo :: r2.1).length = ms.length + 1 := by simp [u5, hlat]
  obtain ⟨v1, _, v3, v4, v5⟩ := zzAddW_spec w (lo :: r2.1) (wneg w m0) hWa' hcB
  have v3' := v3 (Or.inr (by simp))
  rw [hla'] at v1 v5
  have hva' := val_lt hWa'
  have hvr := val_lt v4
  rw [hla'] at hva'
  rw [v5] at hvr
  generalize zzAddW w (lo :: r2.1) (wneg w m0) = r3 at *
  generalize val w (m0 :: ms) = M at *
  generalize 2 ^ (w * (ms.length + 1)) = Pn at *
  generalize wneg w m0 = c at *
  by_cases hcnd : r2.2 ≠ 0 ∨ M ≤ val w (lo :: r2.1)
  · rw [if_pos hcnd]
    obtain ⟨f1, d, f2⟩ := crand_finish (k := r3.2) (vr := val w r3.1) hM hva' u3' hV v3' hvr
      (by rw [if_pos hcnd]; exact v1)
    refine ⟨?_, f1, v4, v5⟩
    rw [hq, f2, Nat.add_assoc, ← Nat.mul_add, Nat.add_mul_mod_self_left, Nat.mod_eq_of_lt f1]
  · rw [if_neg hcnd]
    obtain ⟨f1, d, f2⟩ := crand_finish (k := 0) (vr := val w (lo :: r2.1)) hM hva' u3' hV (by omega) hva'
      (by rw [if_neg hcnd])
    refine ⟨?_, f1, hWa', hla'⟩
    rw [hq, f2, Nat.add_assoc, ← Nat.mul_add, Nat.add_mul_mod_self_left, Nat.mod_eq_of_lt f1]

theorem zzRedCrand_fast_eq (w : Nat) (m0 : Nat) (ms a : List Nat) (ha : Wf w a)
    (hm0 : 0 < m0) (hm0B : m0 < 2 ^ w) (hms : ∀ x ∈ ms, x = 2 ^ w - 1) (hms1 : 0 < ms.length)
    (hl : a.length = (ms.length + 1) + (ms.length + 1)) :
    zzRedCrand_fast w a (m0 :: ms) = crandRes w m0 ms a := by
  obtain ⟨a0, at1, r12, hr1, hlat, hat1, hhiB, hloB, _⟩ :=
    crand_pre w m0 ms a ha hm0 hm0B hms hms1 hl
  unfold zzRedCrand_fast crandRes
  simp only [List.length_cons, List.headD_cons, zzAddMulW, zzAddW2]
  simp only [hr1]
  obtain ⟨_, _, _, u4, u5⟩ := zzAddW_spec w at1
    (dlo w (dshr w (dadd w (dmul w r12 (wneg w m0)) a0))) hat1 hhiB
  have hmod : Wf w (m0 :: ms) := Wf_cons.mpr ⟨hm0B, Wf_ones w ms hms⟩
  have hcmp := wwCmp_safe_ge w (dlo w (dadd w (dmul w r12 (wneg w m0)) a0)
      :: (zzAddW w at1 (dlo w (dshr w (dadd w (dmul w r12 (wneg w m0)) a0)))).1) (m0 :: ms)
    (Wf_cons.mpr ⟨hloB, u4⟩) hmod (by simp only [List.length_cons, u5, hlat])
  simp only [hcmp]

theorem zzRedCrand_safe_eq (w : Nat) (m0 : Nat) (ms a : List Nat) (ha : Wf w a)
    (hm0 : 0 < m0) (hm0B : m0 < 2 ^ w) (hms : ∀ x ∈ ms, x = 2 ^ w - 1) (hms1 : 0 < ms.length)
    (hl : a.length = (ms.length + 1) + (ms.length + 1)) :
    zzRedCrand_safe w a (m0 :: ms) = crandRes w m0 ms a := by
  obtain ⟨a0, at1, r12, hr1, hlat, hat1, hhiB, hloB, _⟩ :=
    crand_pre w m0 ms a ha hm0 hm0B hms hms1 hl
  have hw : 0 < w := by
    rcases Nat.eq_zero_or_pos w with h | h
    · subst h; simp at hm0B; omega
    · exact h
  have hcB : wneg w m0 < 2 ^ w := Nat.mod_lt _ (Nat.two_pow_pos w)
  unfold zzRedCrand_safe crandRes
  simp only [List.length_cons, List.headD_cons, List.tail_cons, zzAddMulW, zzAddW2]
  simp only [hr1]
  rw [zzRedCrandLoop_eq w at1 ms _ _ hlat]
  simp only
  obtain ⟨_, _, u3, u4, u5⟩ := zzAddW_spec w at1
    (dlo w (dshr w (dadd w (dmul w r12 (wneg w m0)) a0))) hat1 hhiB
  have u3' := u3 (Or.inr (by intro h; rw [h] at hlat; simp at hlat; omega))
  have hmod : Wf w (m0 :: ms) := Wf_cons.mpr ⟨hm0B, Wf_ones w ms hms⟩
  generalize dlo w (dshr w (dadd w (dmul w r12 (wneg w m0)) a0)) = hi at *
  generalize dlo w (dadd w (dmul w r12 (wneg w m0)) a0) = lo at *
  generalize zzAddW w at1 hi = r2 at *
  have hWa' : Wf w (lo :: r2.1) := Wf_cons.mpr ⟨hloB, u4⟩
  -- the mask is the full comparison of a' with mod
  have hmask0 : wleq01 m0 lo = maskStep 1 m0 lo := by
    rw [maskStep01 (by omega)]
    show (if m0 ≤ lo then 1 else 0) = _
    split_ifs <;> first | rfl | (exfalso; omega)
  have hmask : (zzRedMontCmp r2.1 ms (wleq01 m0 lo)).2
      = (zzRedMontCmp (lo :: r2.1) (m0 :: ms) 1).2 := by
    rw [hmask0]; rfl
  obtain ⟨_, c2⟩ := zzRedMontCmp_spec w (lo :: r2.1) (m0 :: ms) 1 hWa' hmod
    (by simp [u5, hlat]) (by omega)
  rw [hmask, c2]
  have hf : (if val w (m0 :: ms) < val w (lo :: r2.1) then 1
      else if val w (m0 :: ms) = val w (lo :: r2.1) then 1 else 0) ||| r2.2 ≤ 1 :=
    lor_le_one (by split_ifs <;> omega) u3'
  rw [wneg01 hw hf]
  generalize val w (lo :: r2.1) = va' at *
  generalize val w (m0 :: ms) = M at *
  by_cases hcnd : r2.2 ≠ 0 ∨ M ≤ va'
  · rw [if_pos hcnd]
    have hne : ¬ ((if M < va' then 1 else if M = va' then 1 else 0) ||| r2.2 = 0) := by
      intro h
      rw [Nat.or_eq_zero_iff] at h
      obtain ⟨h1, h2⟩ := h
      split_ifs at h1 <;> omega
    rw [if_neg hne, and_ones hcB]
  · rw [if_neg hcnd]
    have he : (if M < va' then 1 else if M = va' then 1 else 0) ||| r2.2 = 0 := by
      rw [Nat.or_eq_zero_iff]
      refine ⟨?_, by omega⟩
      split_ifs <;> omega
    rw [if_pos he, Nat.zero_and, zzAddW_zero w _ hWa']

/-! ## §12 zzModW2 -/

/-- `b = (WORD_MAX - w + 1) % w` is `B mod w` -/
theorem zzModW2B_eq (w x : Nat) (hx0 : 0 < x) (hx : x < 2 ^ w) : zzModW2B w x = 2 ^ w % x := by
  show ((2 ^ w - 1 + (2 ^ w - x % 2 ^ w)) % 2 ^ w + 1) % 2 ^ w % x = _
  rw [Nat.mod_eq_of_lt hx]
  have h1 : (2 ^ w - 1 + (2 ^ w - x)) % 2 ^ w = 2 ^ w - 1 - x := by
    rw [mod_wrap (by omega)]; split_ifs <;> omega
  have h2 : (2 ^ w - 1 - x + 1) % 2 ^ w = 2 ^ w - x := by
    rw [Nat.mod_eq_of_lt (by omega)]; omega
  rw [h1, h2]
  exact (Nat.mod_eq_sub_mod (by omega)).symm

theorem mod_cong1 {x B b r1 r0 : Nat} (hb : b = B % x) :
    (r1 * b + r0 % x) % x = (r1 * B + r0) % x := by
  subst hb
  rw [Nat.add_mod, Nat.mul_mod, Nat.mod_mod, Nat.mod_mod, ← Nat.mul_mod, ← Nat.add_mod]

theorem mod_cong2 {x B b r1 r0 a0 v : Nat} (hb : b = B % x) (h : (r1 * B + r0) % x = v % x) :
    ((r1 * b + r0) * b + a0) % x = (a0 + B * v) % x := by
  have e : (r1 * b + r0) % x = v % x := by
    rw [← h, hb, Nat.add_mod, Nat.mul_mod, Nat.mod_mod, ← Nat.mul_mod, ← Nat.add_mod]
  calc ((r1 * b + r0) * b + a0) % x
      = (((r1 * b + r0) % x) * (b % x) % x + a0 % x) % x := by rw [Nat.add_mod, Nat.mul_mod]
    _ = ((v % x) * (B % x) % x + a0 % x) % x := by rw [e, hb, Nat.mod_mod]
    _ = (a0 + B * v) % x := by
      rw [Nat.add_mod a0, Nat.mul_mod B, Nat.add_comm, Nat.mul_comm]

/-- one iteration of the first loop of zzModW2: no double-word overflow, the bound
    `r1 ≤ b + b^2` is kept (comment block above zzDivW) -/
theorem modw2StepB {B b r1 r0 a0 : Nat} (hB : 0 < B) (hK : b + b * b + 1 ≤ B)
    (hr1 : r1 ≤ b + b * b) (hr0 : r0 < B) (ha0 : a0 < B) :
    let T := ((r1 * b % (B * B) + r0) % (B * B) * b % (B * B) + a0) % (B * B)
    T = (r1 * b + r0) * b + a0 ∧ T / B ≤ b + b * b ∧ T % B < B := by
  intro T
  obtain ⟨u, rfl⟩ : ∃ u, B = u + 1 := ⟨B - 1, by omega⟩
  generalize hKd : b + b * b = K at *
  have h1 : r1 * b ≤ K * b := Nat.mul_le_mul_right _ hr1
  have h2 : (r1 * b + r0) * b ≤ (K * b + u) * b := Nat.mul_le_mul_right _ (by omega)
  have h3 : K * b * b ≤ u * (b * b) := by
    rw [Nat.mul_assoc]; exact Nat.mul_le_mul_right _ (by omega)
  have h4 : (r1 * b + r0) * b + a0 ≤ u * (K + 1) := by
    have : (K * b + u) * b = K * b * b + u * b := by ring
    have : u * (K + 1) = u * (b * b) + u * b + u := by rw [← hKd]; ring
    omega
  have h5 : u * (K + 1) < (u + 1) * (K + 1) := by nlinarith
  have h6 : (u + 1) * (K + 1) ≤ (u + 1) * (u + 1) := Nat.mul_le_mul_left _ (by omega)
  have hb1 : r1 * b ≤ (r1 * b + r0) * b + a0 ∨ b = 0 := by
    rcases Nat.eq_zero_or_pos b with h | h
    · right; exact h
    · left
      have : (r1 * b + r0) * 1 ≤ (r1 * b + r0) * b := Nat.mul_le_mul_left _ h
      omega
  have e1 : r1 * b % ((u + 1) * (u + 1)) = r1 * b := Nat.mod_eq_of_lt (by
    rcases hb1 with h | h
    · omega
    · subst h; simp)
  have hS : r1 * b + r0 < (u + 1) * (u + 1) := by
    have := mul_add_lt (B := u + 1) (x := r1) (a := b) (c := r0) (b := 0) (by omega) (by omega)
      hr0 (by omega)
    omega
  have e : T = (r1 * b + r0) * b + a0 := by
    show ((r1 * b % ((u + 1) * (u + 1)) + r0) % ((u + 1) * (u + 1)) * b % ((u + 1) * (u + 1)) + a0)
      % ((u + 1) * (u + 1)) = _
    rw [e1, Nat.mod_eq_of_lt hS, Nat.mod_eq_of_lt (a := (r1 * b + r0) * b) (by omega),
      Nat.mod_eq_of_lt (by omega)]
  refine ⟨e, ?_, Nat.mod_lt _ hB⟩
  rw [e]
  have : ((r1 * b + r0) * b + a0) / (u + 1) < K + 1 := Nat.div_lt_of_lt_mul (by omega)
  omega

theorem zzModW2Loop_spec (w : Nat) (x : Nat) (a : List Nat) (ha : Wf w a)
    (hK : 2 ^ w % x + 2 ^ w % x * (2 ^ w % x) + 1 ≤ 2 ^ w) :
    (zzModW2Loop w (2 ^ w % x) a).1 ≤ 2 ^ w % x + 2 ^ w % x * (2 ^ w % x)
    ∧ (zzModW2Loop w (2 ^ w % x) a).2 < 2 ^ w
    ∧ ((zzModW2Loop w (2 ^ w % x) a).1 * 2 ^ w + (zzModW2Loop w (2 ^ w % x) a).2) % x
      = val w a % x := by
  have hB : 0 < 2 ^ w := Nat.two_pow_pos w
  induction a with
  | nil => simp [zzModW2Loop, val, hB]
  | cons a0 as ih =>
    obtain ⟨ha0, has⟩ := Wf_cons.mp ha
    obtain ⟨i1, i2, i3⟩ := ih has
    obtain ⟨s1, s2, s3⟩ := modw2StepB hB hK i1 i2 ha0
    simp only [zzModW2Loop, dmul, dadd, dshr, dlo, pow2w, val_cons]
    refine ⟨s2, s3, ?_⟩
    rw [Nat.mul_comm, Nat.div_add_mod, s1]
    exact mod_cong2 rfl i3

/-- one normalisation step `r <- r1 b + (r0 % mod)` -/
theorem modw2NormB {B x b r1 r0 bound : Nat} (hx0 : 0 < x) (hxB : x ≤ B) (hb : b = B % x)
    (hr1 : r1 ≤ bound) (hbound : bound < B) :
    let T := (r1 * b % (B * B) + r0 % x) % (B * B)
    T = r1 * b + r0 % x ∧ T ≤ (bound + 1) * (x - 1) ∧ T % x = (r1 * B + r0) % x := by
  intro T
  have hbx : b < x := by rw [hb]; exact Nat.mod_lt _ hx0
  have hm : r0 % x < x := Nat.mod_lt _ hx0
  have h1 : r1 * b ≤ bound * (x - 1) := Nat.mul_le_mul hr1 (by omega)
  have h2 : (bound + 1) * (x - 1) = bound * (x - 1) + (x - 1) := by rw [Nat.add_mul, Nat.one_mul]
  have h3 : (bound + 1) * (x - 1) ≤ B * (x - 1) := Nat.mul_le_mul_right _ (by omega)
  have h4 : B * (x - 1) < B * B := Nat.mul_lt_mul_of_pos_left (by omega) (by omega)
  have e : T = r1 * b + r0 % x := by
    show (r1 * b % (B * B) + r0 % x) % (B * B) = _
    rw [Nat.mod_eq_of_lt (a := r1 * b) (by omega), Nat.mod_eq_of_lt (by omega)]
  refine ⟨e, by omega, ?_⟩
  rw [e]; exact mod_cong1 hb

theorem zzModW2_pre {w x : Nat} (hx2 : 2 ≤ x) (hxx : x * x ≤ 2 ^ w) :
    x < 2 ^ w ∧ 2 ^ w % x + 2 ^ w % x * (2 ^ w % x) + 1 ≤ 2 ^ w := by
  have h1 : x * 2 ≤ x * x := Nat.mul_le_mul_left _ hx2
  have hb : 2 ^ w % x < x := Nat.mod_lt _ (by omega)
  generalize 2 ^ w % x = b at *
  obtain ⟨y, rfl⟩ : ∃ y, x = y + 1 := ⟨x - 1, by omega⟩
  have h2 : b * (b + 1) ≤ y * (y + 1) := Nat.mul_le_mul (by omega) (by omega)
  have h3 : (y + 1) * (y + 1) = y * (y + 1) + (y + 1) := by ring
  have h4 : b * (b + 1) = b * b + b := by ring
  exact ⟨by omega, by omega⟩

theorem zzModW2_spec (w : Nat) (a : List Nat) (x : Nat) (ha : Wf w a) (hx0 : 0 < x)
    (hxx : x * x ≤ 2 ^ w) : zzModW2 w a x = val w a % x := by
  rcases Nat.lt_or_ge x 2 with h1 | hx2
  · obtain rfl : x = 1 := by omega
    simp [zzModW2, Nat.mod_one]
  obtain ⟨hxB, hK⟩ := zzModW2_pre hx2 hxx
  have hB : 0 < 2 ^ w := Nat.two_pow_pos w
  obtain ⟨l1, l2, l3⟩ := zzModW2Loop_spec w x a ha hK
  unfold zzModW2
  simp only [zzModW2B_eq w x hx0 hxB, dmul, dadd, dshr, dlo, pow2w]
  generalize zzModW2Loop w (2 ^ w % x) a = st at *
  obtain ⟨a1, a2, a3⟩ := modw2NormB (B := 2 ^ w) (b := 2 ^ w % x) (r0 := st.2) hx0 (by omega) rfl
    (show st.1 ≤ 2 ^ w - 1 by omega) (by omega)
  have a3' := a3.trans l3
  generalize (st.1 * (2 ^ w % x) % (2 ^ w * 2 ^ w) + st.2 % x) % (2 ^ w * 2 ^ w) = T1 at *
  have hT1 : T1 / 2 ^ w ≤ x - 1 := by
    apply Nat.div_le_of_le_mul
    rw [Nat.sub_add_cancel (by omega)] at a2
    exact a2
  obtain ⟨b1, b2, b3⟩ := modw2NormB (B := 2 ^ w) (b := 2 ^ w % x) (r0 := T1 % 2 ^ w) hx0 (by omega) rfl hT1 (by omega)
  rw [Nat.mul_comm (T1 / 2 ^ w) (2 ^ w), Nat.div_add_mod] at b3
  generalize (T1 / 2 ^ w * (2 ^ w % x) % (2 ^ w * 2 ^ w) + T1 % 2 ^ w % x) % (2 ^ w * 2 ^ w)
    = T2 at *
  have hT2 : T2 < 2 ^ w := by
    rw [Nat.sub_add_cancel (by omega)] at b2
    have : x * (x - 1) < x * x := Nat.mul_lt_mul_of_pos_left (by omega) (by omega)
    omega
  rw [Nat.mod_eq_of_lt hT2, b3, a3']

theorem zzModW2FLoop_zero (w b x fuel r0 : Nat) : zzModW2FLoop w b x fuel 0 r0 = (0, r0) := by
  cases fuel <;> simp [zzModW2FLoop]

theorem zzModW2FLoop_spec (w x fuel r1 r0 : Nat) (hx2 : 2 ≤ x) (hxx : x * x ≤ 2 ^ w)
    (hfuel : 2 ≤ fuel) (hr1 : r1 < 2 ^ w) :
    (zzModW2FLoop w (2 ^ w % x) x fuel r1 r0).2 % x = (r1 * 2 ^ w + r0) % x := by
  obtain ⟨hxB, _⟩ := zzModW2_pre hx2 hxx
  obtain ⟨f, rfl⟩ : ∃ f, fuel = f + 2 := ⟨fuel - 2, by omega⟩
  have hB : 0 < 2 ^ w := Nat.two_pow_pos w
  by_cases h0 : r1 = 0
  · subst h0; simp [zzModW2FLoop_zero]
  obtain ⟨a1, a2, a3⟩ := modw2NormB (B := 2 ^ w) (b := 2 ^ w % x) (r0 := r0) (show 0 < x by omega) (by omega) rfl
    (show r1 ≤ 2 ^ w - 1 by omega) (by omega)
  rw [zzModW2FLoop]
  simp only [h0, if_false, dmul, dadd, dshr, dlo, pow2w]
  rw [← a3]
  generalize (r1 * (2 ^ w % x) % (2 ^ w * 2 ^ w) + r0 % x) % (2 ^ w * 2 ^ w) = T1 at *
  have hT1 : T1 / 2 ^ w ≤ x - 1 := by
    apply Nat.div_le_of_le_mul
    rw [Nat.sub_add_cancel (by omega)] at a2
    exact a2
  by_cases h1 : T1 / 2 ^ w = 0
  · rw [h1, zzModW2FLoop_zero]
    have := Nat.div_add_mod T1 (2 ^ w)
    rw [h1] at this
    simp only [Nat.mul_zero, Nat.zero_add] at this
    rw [this]
  obtain ⟨b1, b2, b3⟩ := modw2NormB (B := 2 ^ w) (b := 2 ^ w % x) (r0 := T1 % 2 ^ w) (show 0 < x by omega) (by omega) rfl hT1
    (by omega)
  rw [Nat.mul_comm (T1 / 2 ^ w) (2 ^ w), Nat.div_add_mod] at b3
  rw [zzModW2FLoop]
  simp only [h1, if_false, dmul, dadd, dshr, dlo, pow2w]
  generalize (T1 / 2 ^ w * (2 ^ w % x) % (2 ^ w * 2 ^ w) + T1 % 2 ^ w % x) % (2 ^ w * 2 ^ w)
    = T2 at *
  have hT2 : T2 < 2 ^ w := by
    rw [Nat.sub_add_cancel (by omega)] at b2
    have : x * (x - 1) < x * x := Nat.mul_lt_mul_of_pos_left (by omega) (by omega)
    omega
  rw [Nat.div_eq_of_lt hT2, zzModW2FLoop_zero, Nat.mod_eq_of_lt hT2, b3]

theorem zzModW2F_spec (w : Nat) (a : List Nat) (x : Nat) (ha : Wf w a) (hx0 : 0 < x)
    (hxx : x * x ≤ 2 ^ w) : zzModW2F w a x = val w a % x := by
  rcases Nat.lt_or_ge x 2 with h1 | hx2
  · obtain rfl : x = 1 := by omega
    simp [zzModW2F, Nat.mod_one]
  obtain ⟨hxB, hK⟩ := zzModW2_pre hx2 hxx
  obtain ⟨l1, l2, l3⟩ := zzModW2Loop_spec w x a ha hK
  unfold zzModW2F
  simp only [zzModW2B_eq w x hx0 hxB]
  have hfuel : 2 ≤ 2 ^ (2 * w) := by
    rw [pow2w]
    have : 2 * 2 ≤ 2 ^ w * 2 ^ w := Nat.mul_le_mul (by omega) (by omega)
    omega
  rw [zzModW2FLoop_spec w x _ _ _ hx2 hxx hfuel (by omega), l3]

end Bee2V.C05.Mul

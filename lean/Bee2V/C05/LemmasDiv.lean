/-
C05 — helper lemmas for zzDiv / zzMod (Knuth D, PropsDiv.lean).  `namespace Bee2V.C05.Div`.
  value level : the arithmetic of one quotient digit (trial quotient, 3-by-2 test, add-back)
  list level  : refinement loop `zzDivRefine_spec`, one digit `zzDivStep_eq` + `stepW_spec`,
                digit loop `zzDivLoop_spec`, normalisation (`clz_spec`, `val_toWords`), main path
                `zzDiv_main`, and the complete `zzDiv_spec'` / `zzMod_spec'` incl. both shortcuts.
Callee facts about ModelAdd (zzSub2, zzAdd2, wwCmp2) are taken from PropsAdd.

Notation: `u` = value of the current window `divident[i-m .. i]` (m + 1 words), `v` = value of the
(normalised) divisor, `q = u / v` the true digit.  Truncations: `u = Ut * P + ul`, `v = Vt * P + vl`
with `ul, vl < P` (`P = B^(m-1)`: top two words of u / top word of v; `P = B^(m-2)`: top three / top
two words).
-/
import Bee2V.C05.LemmasMul
import Bee2V.C05.ModelDiv
import Bee2V.C05.PropsAdd
namespace Bee2V.C05.Div
open Bee2V.C05 Bee2V.C05.Mul

/-- the true digit passes every truncated test: `q * Vt ≤ Ut` -/
theorem digit_trunc_le {P u v Ut Vt ul vl : Nat} (hu : u = Ut * P + ul) (hul : ul < P)
    (hv : v = Vt * P + vl) : u / v * Vt ≤ Ut := by
  have h1 : u / v * v ≤ u := Nat.div_mul_le_self u v
  have h2 : u / v * (Vt * P) ≤ u / v * v := Nat.mul_le_mul_left _ (by omega)
  have h3 : u / v * Vt * P < (Ut + 1) * P := by
    rw [Nat.mul_assoc, Nat.add_mul, Nat.one_mul]; omega
  have := Nat.lt_of_mul_lt_mul_right h3
  omega

/-- a candidate that passes the 3-by-2 test is at most one too big (needs only `v1 ≥ 1`) -/
theorem digit_upper {B P u v U3 V2 ul vl qh : Nat} (hu : u = U3 * P + ul)
    (hv : v = V2 * P + vl) (hvl : vl < P) (hV2 : B ≤ V2) (hqB : qh < B)
    (hstop : qh * V2 ≤ U3) : qh ≤ u / v + 1 := by
  have hP : 0 < P := by omega
  have hv0 : 0 < v := by
    have : 1 * P ≤ V2 * P := Nat.mul_le_mul_right _ (by omega)
    omega
  have h1 : qh * v = qh * V2 * P + qh * vl := by rw [hv, Nat.mul_add, Nat.mul_assoc]
  have h2 : qh * V2 * P ≤ U3 * P := Nat.mul_le_mul_right _ hstop
  have h3 : qh * vl ≤ qh * P := Nat.mul_le_mul_left _ (by omega)
  have h4 : qh * P < B * P := Nat.mul_lt_mul_of_pos_right hqB hP
  have h5 : B * P ≤ V2 * P := Nat.mul_le_mul_right _ hV2
  have h6 : qh * v < u + v := by omega
  have h7 : u < v * (u / v + 1) := Nat.lt_mul_div_succ u hv0
  have h8 : v * qh < v * (u / v + 2) := by
    rw [Nat.mul_comm v qh, Nat.mul_add v (u / v) 2]
    rw [Nat.mul_add] at h7
    omega
  have := Nat.lt_of_mul_lt_mul_left h8
  omega

/-- the trial quotient `min(U2 / v1, B - 1)` never underestimates the digit -/
theorem trial_ge {B P u v U2 v1 ul vl : Nat} (hu : u = U2 * P + ul) (hul : ul < P)
    (hv : v = v1 * P + vl) (hv1 : 0 < v1) (huv : u < v * B) :
    u / v ≤ min (U2 / v1) (B - 1) := by
  have h1 := digit_trunc_le hu hul hv
  have h2 : u / v ≤ U2 / v1 := (Nat.le_div_iff_mul_le hv1).mpr h1
  have h3 : u / v < B := Nat.div_lt_of_lt_mul huv
  exact Nat.le_min.mpr ⟨h2, by omega⟩

/-- multiply-subtract and conditional add-back, modulo `W = B^(m+1)`: for `q ≤ qh ≤ q + 1` the
    digit becomes exact and the window becomes `u mod v` -/
theorem addback_exact {W u v qh : Nat} (hv0 : 0 < v) (hvW : v ≤ W) (huW : u < W)
    (hlo : u / v ≤ qh) (hhi : qh ≤ u / v + 1) :
    let under := u < qh * v
    let d := (u + (qh * v / W + 1) * W - qh * v) % W
    let digit := if under then qh - 1 else qh
    let rem := if under then (d + v) % W else d
    digit = u / v ∧ rem = u % v ∧ rem < v := by
  intro under d digit rem
  have hm : u % v < v := Nat.mod_lt _ hv0
  have hdm := Nat.div_add_mod u v
  have hq : u / v * v = v * (u / v) := Nat.mul_comm _ _
  obtain h | h : qh = u / v ∨ qh = u / v + 1 := by omega
  · have hnu : ¬ under := by show ¬ (u < qh * v); rw [h]; omega
    have hd : d = u % v := by
      show (u + (qh * v / W + 1) * W - qh * v) % W = _
      have : qh * v / W = 0 := Nat.div_eq_of_lt (by rw [h]; omega)
      rw [this, h]
      have : u + (0 + 1) * W - u / v * v = u % v + W := by omega
      rw [this, Nat.add_mod_right, Nat.mod_eq_of_lt (by omega)]
    simp only [digit, rem, if_neg hnu, hd]
    exact ⟨h, trivial, hm⟩
  · have hqv : qh * v = v * (u / v) + v := by rw [h, Nat.add_mul, Nat.one_mul, hq]
    have hu : under := by show u < qh * v; omega
    have hd : d = u + W - qh * v := by
      show (u + (qh * v / W + 1) * W - qh * v) % W = _
      rcases Nat.lt_or_ge (qh * v) W with hc | hc
      · have : qh * v / W = 0 := Nat.div_eq_of_lt hc
        rw [this, Nat.zero_add, Nat.one_mul, Nat.mod_eq_of_lt (by omega)]
      · have h1 : qh * v / W = 1 := by
          apply Nat.div_eq_of_lt_le <;> omega
        rw [h1]
        have : u + (1 + 1) * W - qh * v = (u + W - qh * v) + W := by omega
        rw [this, Nat.add_mod_right, Nat.mod_eq_of_lt (by omega)]
    simp only [digit, rem, if_pos hu, hd]
    refine ⟨by rw [h, Nat.add_sub_cancel], ?_, ?_⟩
    · have : u + W - qh * v + v = u % v + W := by omega
      rw [this, Nat.add_mod_right, Nat.mod_eq_of_lt (by omega)]
    · have : u + W - qh * v + v = u % v + W := by omega
      rw [this, Nat.add_mod_right, Nat.mod_eq_of_lt (by omega)]; exact hm

/-! ## list level -/




/-! ## list level: the refinement loop -/

theorem wsub_eq {w x y : Nat} (hx : x < 2 ^ w) (hyx : y ≤ x) : wsub w x y = x - y := by
  show (x + (2 ^ w - y % 2 ^ w)) % 2 ^ w = _
  rw [Nat.mod_eq_of_lt (by omega : y < 2 ^ w)]
  have : x + (2 ^ w - y) = (x - y) + 2 ^ w := by omega
  rw [this, Nat.add_mod_right, Nat.mod_eq_of_lt (by omega)]

theorem val3 (w a b c : Nat) : val w [a, b, c] = a + 2 ^ w * (b + 2 ^ w * c) := by
  simp [val]

theorem val2 (w a b : Nat) : val w [a, b] = a + 2 ^ w * b := by
  simp [val]

theorem refine_arith {BB M2 V2 m2 q r1 bo : Nat} (hq1 : 1 ≤ q) (hval : M2 + BB * m2 = q * V2)
    (s1 : r1 + V2 = M2 + BB * bo) (hbo : bo = if M2 < V2 then 1 else 0) :
    bo ≤ m2 ∧ r1 + BB * (m2 - bo) = (q - 1) * V2 := by
  obtain ⟨k, rfl⟩ : ∃ k, q = k + 1 := ⟨q - 1, by omega⟩
  rw [Nat.add_mul, Nat.one_mul] at hval
  rw [Nat.add_sub_cancel]
  split_ifs at hbo with h
  · subst hbo
    rcases Nat.eq_zero_or_pos m2 with h0 | h0
    · subst h0; exfalso; simp only [Nat.mul_zero, Nat.add_zero] at hval; omega
    · obtain ⟨j, rfl⟩ : ∃ j, m2 = j + 1 := ⟨m2 - 1, by omega⟩
      rw [Nat.mul_add] at hval
      rw [Nat.add_sub_cancel]
      omega
  · subst hbo
    simp only [Nat.mul_zero, Nat.add_zero, Nat.sub_zero] at *
    omega

theorem val3' (w a b c : Nat) : val w [a, b, c] = val w [a, b] + 2 ^ w * 2 ^ w * c := by
  simp [val]; ring

/-- invariant of `while (wwCmp2(mul, 3, top3, 3) > 0) { q--; mul -= V2 }`: with `val mul = q·V2`
    the loop returns the largest `q' ≤ q` with `q'·V2 ≤ U3` -/
theorem zzDivRefine_spec (w v0 v1 : Nat) (top3 : List Nat) (hv0 : v0 < 2 ^ w) (hv1 : v1 < 2 ^ w)
    (htop : Wf w top3) (fuel q : Nat) (mul : List Nat)
    (hmul : Wf w mul) (hlm : mul.length = 3) (hval : val w mul = q * val w [v0, v1])
    (hq : q < 2 ^ w) (hfuel : q < fuel) :
    (zzDivRefine w [v0, v1] top3 fuel q mul).1 ≤ q
    ∧ (zzDivRefine w [v0, v1] top3 fuel q mul).1 * val w [v0, v1] ≤ val w top3
    ∧ ∀ c, c ≤ q → c * val w [v0, v1] ≤ val w top3 → c ≤ (zzDivRefine w [v0, v1] top3 fuel q mul).1 := by
  induction fuel generalizing q mul with
  | zero => omega
  | succ fuel ih =>
    have hcmp := wwCmp2_safe_spec w mul top3 hmul htop
    by_cases hc : val w top3 < val w mul
    · have hpos : wwCmp2_safe mul top3 > 0 := by
        rw [hcmp]; split_ifs <;> first | omega | (exfalso; omega)
      match mul, hlm with
      | [m0, m1, m2], _ =>
        obtain ⟨hm0, h'⟩ := Wf_cons.mp hmul
        obtain ⟨hm1, h''⟩ := Wf_cons.mp h'
        obtain ⟨hm2, _⟩ := Wf_cons.mp h''
        have hV : Wf w [v0, v1] := Wf_cons.mpr ⟨hv0, Wf_cons.mpr ⟨hv1, Wf_nil w⟩⟩
        have hM : Wf w [m0, m1] := Wf_cons.mpr ⟨hm0, Wf_cons.mpr ⟨hm1, Wf_nil w⟩⟩
        obtain ⟨s1, s2, s3, s4⟩ := zzSub2_spec w [m0, m1] [v0, v1] hM hV rfl
        have hq1 : 1 ≤ q := by
          rcases Nat.eq_zero_or_pos q with h | h
          · rw [h, Nat.zero_mul] at hval; omega
          · exact h
        have hP : 2 ^ (w * [m0, m1].length) = 2 ^ w * 2 ^ w := by
          rw [show w * [m0, m1].length = w + w by simp; omega, Nat.pow_add]
        rw [hP] at s1
        rw [val3'] at hval
        obtain ⟨a1, a2⟩ := refine_arith hq1 hval s1 s2
        have hnew : Wf w ((zzSub2 w [m0, m1] [v0, v1]).1
            ++ [wsub w m2 (zzSub2 w [m0, m1] [v0, v1]).2]) :=
          Wf_append.mpr ⟨s3, Wf_single (Nat.mod_lt _ (Nat.two_pow_pos w))⟩
        have hvn : val w ((zzSub2 w [m0, m1] [v0, v1]).1
            ++ [wsub w m2 (zzSub2 w [m0, m1] [v0, v1]).2]) = (q - 1) * val w [v0, v1] := by
          rw [val_append, val_single, s4, hP, wsub_eq hm2 a1]; exact a2
        obtain ⟨i1, i2, i3⟩ := ih (q - 1) _ hnew (by simp [s4]) hvn (by omega) (by omega)
        have hq' : wsub w q 1 = q - 1 := wsub_eq hq hq1
        simp only [zzDivRefine, hpos, if_true, List.take, List.drop, List.headD, hq']
        refine ⟨by omega, i2, fun c hc1 hc2 => i3 c ?_ hc2⟩
        rcases Nat.lt_or_ge c q with h | h
        · omega
        · have : c = q := by omega
          subst this; rw [← val3'] at hval; omega
    · have hnpos : ¬ wwCmp2_safe mul top3 > 0 := by
        rw [hcmp]; split_ifs <;> omega
      simp only [zzDivRefine, hnpos, if_false]
      exact ⟨Nat.le_refl _, by omega, fun c hc1 _ => hc1⟩



/-- the body of `zzDivStep` on the window: `slice` = divident[i-m .. i), `[d0,d1,d2]` = its top
    three words incl. divident[i], `[v0,v1]` the top two words of the divisor `V` -/
def stepW (w : Nat) (V : List Nat) (v0 v1 : Nat) (slice : List Nat) (d0 d1 d2 : Nat) :
    Nat × List Nat :=
  let hi := dshl w d2 ||| d1
  let hi := hi / v1
  let q := if hi > 2 ^ w - 1 then 2 ^ w - 1 else dlo w hi
  let r := zzMulW w [v0, v1] q
  let q := (zzDivRefine w [v0, v1] [d0, d1, d2] (2 ^ w) q (r.1 ++ [r.2])).1
  let r := zzSubMulW w slice V q
  let borrow := r.2
  let di := wsub w d2 borrow
  if di > wnot w borrow then
    let r2 := zzAdd2 w r.1 V
    (wsub w q 1, r2.1 ++ [wadd w di r2.2])
  else (q, r.1 ++ [di])

theorem ite_pair {c : Prop} [Decidable c] (a b : Nat) (l1 l2 pre post : List Nat) (x y : Nat) :
    (if c then (a, pre ++ l1 ++ x :: post) else (b, pre ++ l2 ++ y :: post))
      = ((if c then (a, l1 ++ [x]) else (b, l2 ++ [y])).1,
         pre ++ ((if c then (a, l1 ++ [x]) else (b, l2 ++ [y])).2 ++ post)) := by
  split <;> simp

theorem zzDivStep_eq (w : Nat) (vl : List Nat) (v0 v1 : Nat) (pre wl : List Nat)
    (d0 d1 d2 : Nat) (post : List Nat) (hlen : wl.length = vl.length) :
    zzDivStep w (vl ++ [v0, v1]) pre.length (pre ++ (wl ++ d0 :: d1 :: d2 :: post))
      = ((stepW w (vl ++ [v0, v1]) v0 v1 (wl ++ [d0, d1]) d0 d1 d2).1,
         pre ++ ((stepW w (vl ++ [v0, v1]) v0 v1 (wl ++ [d0, d1]) d0 d1 d2).2 ++ post)) := by
  have hm : (vl ++ [v0, v1]).length = vl.length + 2 := by simp
  have hA : ((pre ++ (wl ++ d0 :: d1 :: d2 :: post)).drop (pre.length + (vl.length + 2) - 2)).take 3
      = [d0, d1, d2] := by
    rw [show pre.length + (vl.length + 2) - 2 = pre.length + wl.length by omega]; simp
  have hB : (vl ++ [v0, v1]).drop (vl.length + 2 - 2) = [v0, v1] := by
    rw [show vl.length + 2 - 2 = vl.length by omega]; simp
  have hC : ((pre ++ (wl ++ d0 :: d1 :: d2 :: post)).drop pre.length).take (vl.length + 2)
      = wl ++ [d0, d1] := by
    rw [← hlen]; simp [List.take_append, List.take_of_length_le]
  have hD : (pre ++ (wl ++ d0 :: d1 :: d2 :: post)).take pre.length = pre := List.take_left' rfl
  have hE : (pre ++ (wl ++ d0 :: d1 :: d2 :: post)).drop (pre.length + (vl.length + 2) + 1)
      = post := by
    rw [show pre.length + (vl.length + 2) + 1 = pre.length + (wl.length + 3) by omega]; simp
  unfold zzDivStep stepW
  simp only [hm, hA, hB, hC, hD, hE]
  exact ite_pair _ _ _ _ _ _ _ _



theorem digits_unique {P a b x y : Nat} (ha : a < P) (hb : b < P) (h : a + P * x = b + P * y) :
    a = b ∧ x = y := by
  have h1 : (a + P * x) % P = (b + P * y) % P := by rw [h]
  rw [Nat.add_mul_mod_self_left, Nat.add_mul_mod_self_left, Nat.mod_eq_of_lt ha,
    Nat.mod_eq_of_lt hb] at h1
  subst h1
  have h2 : P * x = P * y := by omega
  exact ⟨rfl, Nat.eq_of_mul_eq_mul_left (by omega) h2⟩

theorem borrow_test {w d2 bo : Nat} (hd : d2 < 2 ^ w) (hb : bo < 2 ^ w) :
    (wsub w d2 bo > wnot w bo ↔ d2 < bo)
    ∧ wsub w d2 bo = if d2 < bo then d2 + 2 ^ w - bo else d2 - bo := by
  have e : wsub w d2 bo = if d2 < bo then d2 + 2 ^ w - bo else d2 - bo := by
    show (d2 + (2 ^ w - bo % 2 ^ w)) % 2 ^ w = _
    rw [Nat.mod_eq_of_lt hb, mod_wrap (by omega)]
    split_ifs <;> omega
  refine ⟨?_, e⟩
  rw [e]
  show (2 ^ w - 1 - bo % 2 ^ w < _) ↔ _
  rw [Nat.mod_eq_of_lt hb]
  split_ifs <;> constructor <;> intro <;> omega

theorem stepW_spec (w : Nat) (vl : List Nat) (v0 v1 : Nat) (wl : List Nat) (d0 d1 d2 : Nat)
    (hV : Wf w (vl ++ [v0, v1])) (hv1 : 0 < v1) (hW : Wf w (wl ++ [d0, d1, d2]))
    (hlen : wl.length = vl.length)
    (hu : val w (wl ++ [d0, d1, d2]) < val w (vl ++ [v0, v1]) * 2 ^ w) :
    (stepW w (vl ++ [v0, v1]) v0 v1 (wl ++ [d0, d1]) d0 d1 d2).1
      = val w (wl ++ [d0, d1, d2]) / val w (vl ++ [v0, v1])
    ∧ val w (stepW w (vl ++ [v0, v1]) v0 v1 (wl ++ [d0, d1]) d0 d1 d2).2
      = val w (wl ++ [d0, d1, d2]) % val w (vl ++ [v0, v1])
    ∧ Wf w (stepW w (vl ++ [v0, v1]) v0 v1 (wl ++ [d0, d1]) d0 d1 d2).2
    ∧ (stepW w (vl ++ [v0, v1]) v0 v1 (wl ++ [d0, d1]) d0 d1 d2).2.length = wl.length + 3 := by
  have hB : 0 < 2 ^ w := Nat.two_pow_pos w
  obtain ⟨hWvl, hV2⟩ := Wf_append.mp hV
  obtain ⟨hv0B, hV2'⟩ := Wf_cons.mp hV2
  obtain ⟨hv1B, _⟩ := Wf_cons.mp hV2'
  obtain ⟨hWwl, hD3⟩ := Wf_append.mp hW
  obtain ⟨hd0, hD3'⟩ := Wf_cons.mp hD3
  obtain ⟨hd1, hD3''⟩ := Wf_cons.mp hD3'
  obtain ⟨hd2, _⟩ := Wf_cons.mp hD3''
  have hslice : Wf w (wl ++ [d0, d1]) :=
    Wf_append.mpr ⟨hWwl, Wf_cons.mpr ⟨hd0, Wf_cons.mpr ⟨hd1, Wf_nil w⟩⟩⟩
  -- values
  have ev : val w (vl ++ [v0, v1]) = val w vl + 2 ^ (w * vl.length) * val w [v0, v1] :=
    val_append w _ _
  have eu : val w (wl ++ [d0, d1, d2]) = val w wl + 2 ^ (w * vl.length) * val w [d0, d1, d2] := by
    rw [val_append, hlen]
  have hvl := val_lt hWvl
  have hwl := val_lt hWwl
  rw [hlen] at hwl
  have hv0pos : 0 < val w (vl ++ [v0, v1]) := by
    rw [ev, val2]
    have : 2 ^ (w * vl.length) * 1 ≤ 2 ^ (w * vl.length) * (v0 + 2 ^ w * v1) :=
      Nat.mul_le_mul_left _ (by
        have : 2 ^ w * 1 ≤ 2 ^ w * v1 := Nat.mul_le_mul_left _ hv1
        omega)
    have := Nat.two_pow_pos (w * vl.length)
    omega
  have hvlt := val_lt hV
  -- (1) trial quotient
  have hhi : dshl w d2 ||| d1 = 2 ^ w * d2 + d1 := divisor_eq w hd2 hd1
  have hq0 : (if (2 ^ w * d2 + d1) / v1 > 2 ^ w - 1 then 2 ^ w - 1 else dlo w ((2 ^ w * d2 + d1) / v1))
      = min ((2 ^ w * d2 + d1) / v1) (2 ^ w - 1) := by
    split_ifs with h
    · rw [Nat.min_eq_right (by omega)]
    · rw [Nat.min_eq_left (by omega)]; exact Nat.mod_eq_of_lt (by omega)
  -- the true digit is below the trial quotient
  have hq_le_q0 : val w (wl ++ [d0, d1, d2]) / val w (vl ++ [v0, v1])
      ≤ min ((2 ^ w * d2 + d1) / v1) (2 ^ w - 1) := by
    refine trial_ge (P := 2 ^ (w * vl.length) * 2 ^ w) (ul := val w wl + 2 ^ (w * vl.length) * d0)
      (vl := val w vl + 2 ^ (w * vl.length) * v0) ?_ ?_ ?_ hv1 hu
    · rw [eu, val3]; ring
    · have : 2 ^ (w * vl.length) * (d0 + 1) ≤ 2 ^ (w * vl.length) * 2 ^ w :=
        Nat.mul_le_mul_left _ hd0
      rw [Nat.mul_add] at this; omega
    · rw [ev, val2]; ring
  generalize hq0d : min ((2 ^ w * d2 + d1) / v1) (2 ^ w - 1) = q0 at *
  have hq0B : q0 < 2 ^ w := by rw [← hq0d]; exact Nat.lt_of_le_of_lt (Nat.min_le_right _ _) (by omega)
  -- (2) mul = q0 * V2
  obtain ⟨m1, m2, m3, m4⟩ := zzMulWLoop_spec w [v0, v1] q0 0 hV2 hq0B hB
  have hmulW : Wf w ((zzMulW w [v0, v1] q0).1 ++ [(zzMulW w [v0, v1] q0).2]) :=
    Wf_append.mpr ⟨m3, Wf_single m2⟩
  have hmulV : val w ((zzMulW w [v0, v1] q0).1 ++ [(zzMulW w [v0, v1] q0).2])
      = q0 * val w [v0, v1] := by
    rw [val_append, val_single]
    show val w (zzMulWLoop w [v0, v1] q0 0).1 + 2 ^ (w * (zzMulWLoop w [v0, v1] q0 0).1.length)
      * (zzMulWLoop w [v0, v1] q0 0).2 = _
    rw [m4, m1, Nat.add_zero, Nat.mul_comm]
  -- (3) refinement
  obtain ⟨r1, r2, r3⟩ := zzDivRefine_spec w v0 v1 [d0, d1, d2] hv0B hv1B hD3 (2 ^ w) q0 _
    hmulW (by simp [zzMulW, m4]) hmulV hq0B hq0B
  have hqV2 : val w (wl ++ [d0, d1, d2]) / val w (vl ++ [v0, v1]) * val w [v0, v1]
      ≤ val w [d0, d1, d2] :=
    digit_trunc_le (P := 2 ^ (w * vl.length)) (ul := val w wl) (vl := val w vl)
      (by rw [eu]; ring) hwl (by rw [ev]; ring)
  have hlow := r3 _ hq_le_q0 hqV2
  generalize hqh : (zzDivRefine w [v0, v1] [d0, d1, d2] (2 ^ w) q0
    ((zzMulW w [v0, v1] q0).1 ++ [(zzMulW w [v0, v1] q0).2])).1 = qh at *
  have hqhB : qh < 2 ^ w := by omega
  have hup : qh ≤ val w (wl ++ [d0, d1, d2]) / val w (vl ++ [v0, v1]) + 1 :=
    digit_upper (B := 2 ^ w) (P := 2 ^ (w * vl.length)) (ul := val w wl) (vl := val w vl)
      (by rw [eu]; ring) (by rw [ev]; ring) hvl (by
        rw [val2]
        have : 2 ^ w * 1 ≤ 2 ^ w * v1 := Nat.mul_le_mul_left _ hv1
        omega) hqhB r2
  -- (4) multiply and subtract
  have hsl : (wl ++ [d0, d1]).length = (vl ++ [v0, v1]).length := by simp [hlen]
  obtain ⟨b1, b2, b3, b4⟩ := zzSubMulWLoop_spec w (wl ++ [d0, d1]) (vl ++ [v0, v1]) qh 0 hslice hV
    hsl hqhB hB
  have euS : val w (wl ++ [d0, d1, d2])
      = val w (wl ++ [d0, d1]) + 2 ^ (w * (wl ++ [d0, d1]).length) * d2 := by
    have : wl ++ [d0, d1, d2] = (wl ++ [d0, d1]) ++ [d2] := by simp
    rw [this, val_append, val_single]
  have hR1 := val_lt b3
  rw [b4] at hR1
  have hlenV : (vl ++ [v0, v1]).length = (wl ++ [d0, d1]).length := hsl.symm
  rw [hlenV] at hvlt
  -- unfold the step
  unfold stepW
  simp only [hhi, hq0, hqh, zzSubMulW]
  obtain ⟨t1, t2⟩ := borrow_test hd2 b2
  have hdm := Nat.div_add_mod (val w (wl ++ [d0, d1, d2])) (val w (vl ++ [v0, v1]))
  have hmod := Nat.mod_lt (val w (wl ++ [d0, d1, d2])) hv0pos
  have hdml := Nat.div_mul_le_self (val w (wl ++ [d0, d1, d2])) (val w (vl ++ [v0, v1]))
  obtain ⟨a1, a2, a3, a4⟩ := zzAdd2_spec w
    (zzSubMulWLoop w (wl ++ [d0, d1]) (vl ++ [v0, v1]) qh 0).1 (vl ++ [v0, v1]) b3 hV
    (by rw [b4, hsl])
  have hR2 := val_lt a3
  rw [a4, b4] at hR2
  rw [b4] at a1
  generalize zzSubMulWLoop w (wl ++ [d0, d1]) (vl ++ [v0, v1]) qh 0 = rs at *
  generalize hPm : 2 ^ (w * (wl ++ [d0, d1]).length) = Pm at *
  generalize val w (wl ++ [d0, d1, d2]) = u at *
  generalize val w (vl ++ [v0, v1]) = v at *
  generalize val w (wl ++ [d0, d1]) = S at *
  by_cases hc : d2 < rs.2
  · -- underflow: add back
    rw [if_pos (t1.mpr hc)]
    rw [if_pos hc] at t2
    simp only
    have e : Pm * (rs.2 - d2) + Pm * d2 = Pm * rs.2 := by
      rw [← Nat.mul_add, Nat.sub_add_cancel (by omega)]
    have hPe : Pm * 1 ≤ Pm * (rs.2 - d2) := Nat.mul_le_mul_left _ (by omega)
    have hult : u < v * qh := by omega
    have hqq : qh = u / v + 1 := by
      rcases Nat.lt_or_ge (u / v) qh with h | h
      · omega
      · have : qh = u / v := by omega
        rw [this, Nat.mul_comm] at hult; omega
    have hvq : v * qh = v * (u / v) + v := by rw [hqq, Nat.mul_add, Nat.mul_one]
    generalize zzAdd2 w rs.1 (vl ++ [v0, v1]) = r2 at *
    obtain ⟨u1, u2⟩ := digits_unique (P := Pm) (a := u % v) (b := val w r2.1) (x := rs.2 - d2)
      (y := r2.2) (by omega) hR2 (by omega)
    have htop : wadd w (wsub w d2 rs.2) r2.2 = 0 := by
      show (wsub w d2 rs.2 + r2.2) % 2 ^ w = 0
      rw [t2, ← u2]
      have : d2 + 2 ^ w - rs.2 + (rs.2 - d2) = 2 ^ w := by omega
      rw [this, Nat.mod_self]
    rw [htop]
    refine ⟨?_, ?_, Wf_append.mpr ⟨a3, Wf_single hB⟩, by simp [a4, b4, hlen]⟩
    · rw [wsub_eq hqhB (by rw [hqq]; exact Nat.succ_le_succ (Nat.zero_le _)), hqq, Nat.add_sub_cancel]
    · rw [val_append, val_single, Nat.mul_zero, Nat.add_zero, u1]
  · rw [if_neg (fun h => hc (t1.mp h))]
    rw [if_neg hc] at t2
    simp only
    rw [t2]
    have e : Pm * (d2 - rs.2) + Pm * rs.2 = Pm * d2 := by
      rw [← Nat.mul_add, Nat.sub_add_cancel (by omega)]
    have hle : qh * v ≤ u := by rw [Nat.mul_comm]; omega
    have hqq : qh = u / v := by
      have := (Nat.le_div_iff_mul_le hv0pos).mpr hle
      exact Nat.le_antisymm this hlow
    have hvq : v * qh = v * (u / v) := by rw [hqq]
    refine ⟨hqq, ?_, Wf_append.mpr ⟨b3, Wf_single (by omega)⟩, by simp [b4, hlen]⟩
    rw [val_append, val_single, b4, hPm]
    omega



theorem split_window (D : List Nat) (j k : Nat) (h : j + k + 3 ≤ D.length) :
    ∃ pre wl d0 d1 d2 post, D = pre ++ (wl ++ d0 :: d1 :: d2 :: post) ∧ pre.length = j
      ∧ wl.length = k := by
  have h1 : D = D.take j ++ ((D.drop j).take k ++ (D.drop j).drop k) := by
    rw [List.take_append_drop, List.take_append_drop]
  have hl : ((D.drop j).drop k).length ≥ 3 := by simp; omega
  match hr : (D.drop j).drop k, hl with
  | d0 :: d1 :: d2 :: post, _ =>
    refine ⟨D.take j, (D.drop j).take k, d0, d1, d2, post, ?_, ?_, ?_⟩
    · rw [← hr]; exact h1
    · rw [List.length_take]; omega
    · rw [List.length_take, List.length_drop]; omega

/-- invariant of the digit loop: `cnt` digits left, `val D < v·B^cnt` -/
theorem zzDivLoop_spec (w : Nat) (vl : List Nat) (v0 v1 : Nat) (hV : Wf w (vl ++ [v0, v1]))
    (hv1 : 0 < v1) (cnt : Nat) (D : List Nat) (hD : Wf w D)
    (hlen : cnt + (vl.length + 2) ≤ D.length)
    (hlt : val w D < val w (vl ++ [v0, v1]) * 2 ^ (w * cnt)) :
    (zzDivLoop w (vl ++ [v0, v1]) cnt D).1.length = cnt
    ∧ Wf w (zzDivLoop w (vl ++ [v0, v1]) cnt D).1
    ∧ val w D = val w (zzDivLoop w (vl ++ [v0, v1]) cnt D).1 * val w (vl ++ [v0, v1])
        + val w (zzDivLoop w (vl ++ [v0, v1]) cnt D).2
    ∧ val w (zzDivLoop w (vl ++ [v0, v1]) cnt D).2 < val w (vl ++ [v0, v1])
    ∧ Wf w (zzDivLoop w (vl ++ [v0, v1]) cnt D).2
    ∧ (zzDivLoop w (vl ++ [v0, v1]) cnt D).2.length = D.length := by
  induction cnt generalizing D with
  | zero =>
    simp only [zzDivLoop, List.length_nil, val_nil, Nat.zero_mul, Nat.zero_add, Nat.mul_zero,
      Nat.pow_zero, Nat.mul_one] at hlt ⊢
    exact ⟨trivial, Wf_nil w, trivial, hlt, hD, trivial⟩
  | succ j ih =>
    have hB : 0 < 2 ^ w := Nat.two_pow_pos w
    obtain ⟨pre, wl, d0, d1, d2, post, rfl, hpre, hwl⟩ :=
      split_window D j vl.length (by omega)
    have hDW : pre ++ (wl ++ d0 :: d1 :: d2 :: post) = pre ++ ((wl ++ [d0, d1, d2]) ++ post) := by
      simp
    obtain ⟨hWpre, hW'⟩ := Wf_append.mp (hDW ▸ hD)
    obtain ⟨hWW, hWpost⟩ := Wf_append.mp hW'
    have hvD : val w (pre ++ (wl ++ d0 :: d1 :: d2 :: post))
        = val w pre + 2 ^ (w * j) * (val w (wl ++ [d0, d1, d2])
          + 2 ^ (w * (vl.length + 3)) * val w post) := by
      rw [hDW, val_append, val_append, hpre]; simp [hwl]
    have hvlt := val_lt hV
    have hvl2 : (vl ++ [v0, v1]).length = vl.length + 2 := by simp
    rw [hvl2] at hvlt
    have hP3 : 2 ^ (w * (vl.length + 3)) = 2 ^ (w * (vl.length + 2)) * 2 ^ w := by
      rw [show vl.length + 3 = (vl.length + 2) + 1 by omega, powS, Nat.mul_comm]
    have hprelt := val_lt hWpre
    rw [hpre] at hprelt
    rw [powS] at hlt
    -- window < v B, post = 0
    have hX : val w (wl ++ [d0, d1, d2]) + 2 ^ (w * (vl.length + 3)) * val w post
        < val w (vl ++ [v0, v1]) * 2 ^ w := by
      have : 2 ^ (w * j) * (val w (wl ++ [d0, d1, d2]) + 2 ^ (w * (vl.length + 3)) * val w post)
          < 2 ^ (w * j) * (val w (vl ++ [v0, v1]) * 2 ^ w) := by
        have e : 2 ^ (w * j) * (val w (vl ++ [v0, v1]) * 2 ^ w)
            = val w (vl ++ [v0, v1]) * (2 ^ w * 2 ^ (w * j)) := by ring
        omega
      exact Nat.lt_of_mul_lt_mul_left this
    have hvB : val w (vl ++ [v0, v1]) * 2 ^ w < 2 ^ (w * (vl.length + 3)) := by
      rw [hP3]; exact Nat.mul_lt_mul_of_pos_right hvlt hB
    have hpost0 : val w post = 0 := by
      rcases Nat.eq_zero_or_pos (val w post) with h | h
      · exact h
      · have : 2 ^ (w * (vl.length + 3)) * 1 ≤ 2 ^ (w * (vl.length + 3)) * val w post :=
          Nat.mul_le_mul_left _ h
        omega
    have hu : val w (wl ++ [d0, d1, d2]) < val w (vl ++ [v0, v1]) * 2 ^ w := by omega
    -- the step
    obtain ⟨s1, s2, s3, s4⟩ := stepW_spec w vl v0 v1 wl d0 d1 d2 hV hv1 hWW hwl hu
    have hstep := zzDivStep_eq w vl v0 v1 pre wl d0 d1 d2 post hwl
    rw [hpre] at hstep
    generalize stepW w (vl ++ [v0, v1]) v0 v1 (wl ++ [d0, d1]) d0 d1 d2 = st at *
    have hD' : Wf w (pre ++ (st.2 ++ post)) := Wf_append.mpr ⟨hWpre, Wf_append.mpr ⟨s3, hWpost⟩⟩
    have hvD' : val w (pre ++ (st.2 ++ post)) = val w pre + 2 ^ (w * j) * val w st.2 := by
      rw [val_append, val_append, hpre, hpost0]; simp
    have hv0pos : 0 < val w (vl ++ [v0, v1]) := by
      rcases Nat.eq_zero_or_pos (val w (vl ++ [v0, v1])) with h | h
      · rw [h] at hu; simp at hu
      · exact h
    have hmod := Nat.mod_lt (val w (wl ++ [d0, d1, d2])) hv0pos
    have hdm := Nat.div_add_mod (val w (wl ++ [d0, d1, d2])) (val w (vl ++ [v0, v1]))
    have hlt' : val w (pre ++ (st.2 ++ post)) < val w (vl ++ [v0, v1]) * 2 ^ (w * j) := by
      rw [hvD', s2]
      have : 2 ^ (w * j) * (val w (wl ++ [d0, d1, d2]) % val w (vl ++ [v0, v1]) + 1)
          ≤ 2 ^ (w * j) * val w (vl ++ [v0, v1]) := Nat.mul_le_mul_left _ hmod
      rw [Nat.mul_add, Nat.mul_one, Nat.mul_comm _ (val w (vl ++ [v0, v1]))] at this
      omega
    obtain ⟨i1, i2, i3, i4, i5, i6⟩ := ih (pre ++ (st.2 ++ post)) hD'
      (by simp [s4, hpre, hwl] at hlen ⊢; omega) hlt'
    simp only [zzDivLoop, hstep]
    generalize zzDivLoop w (vl ++ [v0, v1]) j (pre ++ (st.2 ++ post)) = r at *
    have hqB : st.1 < 2 ^ w := by rw [s1]; exact Nat.div_lt_of_lt_mul hu
    refine ⟨by simp [i1], Wf_append.mpr ⟨i2, Wf_single hqB⟩, ?_, i4, i5, ?_⟩
    · rw [hvD, hpost0, val_append w r.1 [st.1], val_single, i1, Nat.mul_zero, Nat.add_zero]
      rw [hvD'] at i3
      have hdm' : val w (vl ++ [v0, v1]) * st.1 + val w st.2 = val w (wl ++ [d0, d1, d2]) := by
        rw [s1, s2]; exact hdm
      rw [← hdm']
      linarith [i3]
    · rw [i6]; simp only [List.length_append, List.length_cons, s4]; omega



/-! ## normalisation -/

theorem val_toWords (w n v : Nat) : val w (toWords w n v) = v % 2 ^ (w * n) := by
  induction n generalizing v with
  | zero => simp [toWords, val, Nat.mod_one]
  | succ n ih => rw [toWords, val_cons, ih, powS, Nat.mod_mul]

theorem toWords_take (w n m v : Nat) (h : m ≤ n) : (toWords w n v).take m = toWords w m v := by
  induction m generalizing n v with
  | zero => simp [toWords]
  | succ m ih =>
    obtain ⟨k, rfl⟩ : ∃ k, n = k + 1 := ⟨n - 1, by omega⟩
    simp only [toWords, List.take_succ_cons, ih k _ (by omega)]

/-- wordCLZ: shifting by `clz` keeps the word inside `B` -/
theorem clz_spec {w x : Nat} (hx0 : x ≠ 0) (hx : x < 2 ^ w) : (x + 1) * 2 ^ clz w x ≤ 2 ^ w := by
  unfold clz
  rw [if_neg hx0]
  have h1 : x < 2 ^ (x.log2 + 1) := Nat.lt_log2_self
  have h2 : x.log2 < w := (Nat.log2_lt hx0).mpr hx
  have h3 : 2 ^ (x.log2 + 1) * 2 ^ (w - (x.log2 + 1)) = 2 ^ w := by
    rw [← Nat.pow_add]; congr 1; omega
  rw [← h3]
  exact Nat.mul_le_mul_right _ h1

theorem split_last2 (l : List Nat) (k : Nat) (h : l.length = k + 2) :
    ∃ vl v0 v1, l = vl ++ [v0, v1] ∧ vl.length = k := by
  have h1 : l = l.take k ++ l.drop k := (List.take_append_drop k l).symm
  have hl : (l.drop k).length = 2 := by simp; omega
  match hr : l.drop k, hl with
  | [v0, v1], _ => exact ⟨l.take k, v0, v1, by rw [← hr]; exact h1, by simp; omega⟩

/-- the main path of zzDiv / zzMod (no shortcut taken): normalise, digit loop, denormalise -/
theorem zzDiv_main (w : Nat) (a bl : List Nat) (bt : Nat) (ha : Wf w a) (hb : Wf w (bl ++ [bt]))
    (hbt : bt ≠ 0) (hm : 1 ≤ bl.length) (hnm : bl.length + 1 ≤ a.length)
    (r : List Nat × List Nat)
    (hr : r = zzDivLoop w (shHi w (bl.length + 1) (bl ++ [bt]) (clz w bt)) (a.length - bl.length)
      (shHi w (a.length + 1) (a ++ [0]) (clz w bt)))
    (rem : List Nat) (hrem : rem = (shLo w (a.length + 1) r.2 (clz w bt)).take (bl.length + 1)) :
    val w a = val w r.1 * val w (bl ++ [bt]) + val w rem ∧ val w rem < val w (bl ++ [bt])
    ∧ Wf w r.1 ∧ r.1.length = a.length - bl.length ∧ Wf w rem ∧ rem.length = bl.length + 1 := by
  have hB : 0 < 2 ^ w := Nat.two_pow_pos w
  obtain ⟨hbl, hbt'⟩ := Wf_append.mp hb
  have hbtB : bt < 2 ^ w := (Wf_cons.mp hbt').1
  have hclz := clz_spec hbt hbtB
  generalize clz w bt = s at *
  have ht : 0 < 2 ^ s := Nat.two_pow_pos s
  have h2s : 2 ^ s ≤ 2 ^ w := by
    have : 1 * 2 ^ s ≤ (bt + 1) * 2 ^ s := Nat.mul_le_mul_right _ (by omega)
    omega
  -- value of b
  have evb : val w (bl ++ [bt]) = val w bl + 2 ^ (w * bl.length) * bt := by
    rw [val_append, val_single]
  have hvbl := val_lt hbl
  have hP : 0 < 2 ^ (w * bl.length) := Nat.two_pow_pos _
  have hbP : 2 ^ (w * bl.length) ≤ val w (bl ++ [bt]) := by
    have : 2 ^ (w * bl.length) * 1 ≤ 2 ^ (w * bl.length) * bt := Nat.mul_le_mul_left _ (by omega)
    omega
  have hb2 : val w (bl ++ [bt]) * 2 ^ s < 2 ^ (w * (bl.length + 1)) := by
    rw [powS]
    have h1 : val w (bl ++ [bt]) < 2 ^ (w * bl.length) * (bt + 1) := by rw [Nat.mul_add]; omega
    have h2 : val w (bl ++ [bt]) * 2 ^ s < 2 ^ (w * bl.length) * (bt + 1) * 2 ^ s :=
      Nat.mul_lt_mul_of_pos_right h1 ht
    have h3 : 2 ^ (w * bl.length) * ((bt + 1) * 2 ^ s) ≤ 2 ^ (w * bl.length) * 2 ^ w :=
      Nat.mul_le_mul_left _ hclz
    rw [← Nat.mul_assoc] at h3
    rw [Nat.mul_comm (2 ^ w)]; omega
  -- normalised divisor
  have hVval : val w (shHi w (bl.length + 1) (bl ++ [bt]) s) = val w (bl ++ [bt]) * 2 ^ s := by
    unfold shHi; rw [val_toWords, Nat.mod_eq_of_lt hb2]
  have hVlen : (shHi w (bl.length + 1) (bl ++ [bt]) s).length = (bl.length - 1) + 2 := by
    unfold shHi; rw [toWords_length]; omega
  have hVWf : Wf w (shHi w (bl.length + 1) (bl ++ [bt]) s) := toWords_Wf _ _ _
  obtain ⟨vl, v0, v1, hVeq, hvll⟩ := split_last2 _ _ hVlen
  rw [hVeq] at hVval hVWf hr
  have hv1 : 0 < v1 := by
    rcases Nat.eq_zero_or_pos v1 with h | h
    · exfalso
      subst h
      have e : vl ++ [v0, 0] = (vl ++ [v0]) ++ [0] := by simp
      rw [e, val_append, val_single, Nat.mul_zero, Nat.add_zero] at hVval
      have hW1 : Wf w (vl ++ [v0]) := by
        rw [e] at hVWf; exact (Wf_append.mp hVWf).1
      have := val_lt hW1
      rw [show (vl ++ [v0]).length = bl.length by simp; omega] at this
      have : 2 ^ (w * bl.length) * 1 ≤ val w (bl ++ [bt]) * 2 ^ s := Nat.mul_le_mul hbP ht
      omega
    · exact h
  -- normalised dividend
  have hva := val_lt ha
  have hDval : val w (shHi w (a.length + 1) (a ++ [0]) s) = val w a * 2 ^ s := by
    unfold shHi
    rw [val_toWords, val_append, val_single, Nat.mul_zero, Nat.add_zero, Nat.mod_eq_of_lt]
    rw [powS, Nat.mul_comm (2 ^ w)]
    exact Nat.mul_lt_mul_of_lt_of_le hva h2s hB
  have hDlen : (shHi w (a.length + 1) (a ++ [0]) s).length = a.length + 1 := by
    unfold shHi; rw [toWords_length]
  have hDWf : Wf w (shHi w (a.length + 1) (a ++ [0]) s) := toWords_Wf _ _ _
  -- the loop
  have hPn : 2 ^ (w * a.length) = 2 ^ (w * bl.length) * 2 ^ (w * (a.length - bl.length)) := by
    rw [← Nat.pow_add, ← Nat.mul_add]; congr 2; omega
  obtain ⟨i1, i2, i3, i4, i5, i6⟩ := zzDivLoop_spec w vl v0 v1 hVWf hv1 (a.length - bl.length)
    _ hDWf (by rw [hDlen, hvll]; omega) (by
      rw [hDval, hVval]
      have h1 : val w a < val w (bl ++ [bt]) * 2 ^ (w * (a.length - bl.length)) := by
        rw [hPn] at hva
        have : 2 ^ (w * bl.length) * 2 ^ (w * (a.length - bl.length))
            ≤ val w (bl ++ [bt]) * 2 ^ (w * (a.length - bl.length)) := Nat.mul_le_mul_right _ hbP
        omega
      have := Nat.mul_lt_mul_of_pos_right h1 ht
      rw [Nat.mul_right_comm] at this
      exact this)
  rw [← hr] at i1 i2 i3 i4 i5 i6
  rw [hDval, hVval] at i3
  rw [hVval] at i4
  rw [hDlen] at i6
  -- denormalise
  have hremE : rem = toWords w (bl.length + 1) (val w r.2 / 2 ^ s) := by
    rw [hrem]; unfold shLo; exact toWords_take _ _ _ _ (by omega)
  have hle : val w r.1 * val w (bl ++ [bt]) ≤ val w a := by
    have : val w r.1 * val w (bl ++ [bt]) * 2 ^ s ≤ val w a * 2 ^ s := by
      rw [Nat.mul_assoc]; omega
    exact Nat.le_of_mul_le_mul_right this ht
  have hR : val w r.2 = (val w a - val w r.1 * val w (bl ++ [bt])) * 2 ^ s := by
    rw [Nat.sub_mul, Nat.mul_assoc]; omega
  have hx : val w r.2 / 2 ^ s = val w a - val w r.1 * val w (bl ++ [bt]) := by
    rw [hR, Nat.mul_div_cancel _ ht]
  have hxlt : val w a - val w r.1 * val w (bl ++ [bt]) < val w (bl ++ [bt]) := by
    rw [hR] at i4
    exact Nat.lt_of_mul_lt_mul_right i4
  have hvb := val_lt hb
  rw [show (bl ++ [bt]).length = bl.length + 1 by simp] at hvb
  have hvrem : val w rem = val w a - val w r.1 * val w (bl ++ [bt]) := by
    rw [hremE, val_toWords, hx, Nat.mod_eq_of_lt (by omega)]
  refine ⟨by omega, by omega, i2, i1, ?_, ?_⟩
  · rw [hremE]; exact toWords_Wf _ _ _
  · rw [hremE, toWords_length]



theorem cmp2_lt_iff (w : Nat) (a b : List Nat) (ha : Wf w a) (hb : Wf w b) :
    wwCmp2_safe a b < 0 ↔ val w a < val w b := by
  rw [wwCmp2_safe_spec w a b ha hb]
  split_ifs <;> simp <;> omega

/-- `a < b < B^m`: the low `m` words of `a` carry its whole value -/
theorem val_take_of_lt (w : Nat) (a : List Nat) (m v : Nat) (hm : m ≤ a.length)
    (hv : v < 2 ^ (w * m)) (h : val w a < v) : val w (a.take m) = val w a := by
  have h1 := val_take_drop w a m hm
  rcases Nat.eq_zero_or_pos (val w (a.drop m)) with h0 | h0
  · rw [h0] at h1; omega
  · have : 2 ^ (w * m) * 1 ≤ 2 ^ (w * m) * val w (a.drop m) := Nat.mul_le_mul_left _ h0
    omega

theorem zzDiv_spec' (w : Nat) (a bl : List Nat) (bt : Nat) (ha : Wf w a)
    (hb : Wf w (bl ++ [bt])) (hbt : bt ≠ 0) (hnm : bl.length + 1 ≤ a.length) :
    val w a = val w (zzDiv w a (bl ++ [bt])).1 * val w (bl ++ [bt])
      + val w (zzDiv w a (bl ++ [bt])).2
    ∧ val w (zzDiv w a (bl ++ [bt])).2 < val w (bl ++ [bt])
    ∧ Wf w (zzDiv w a (bl ++ [bt])).1 ∧ Wf w (zzDiv w a (bl ++ [bt])).2
    ∧ (zzDiv w a (bl ++ [bt])).1.length = a.length - (bl.length + 1) + 1
    ∧ (zzDiv w a (bl ++ [bt])).2.length = bl.length + 1 := by
  have hblen : (bl ++ [bt]).length = bl.length + 1 := by simp
  have hbtB : bt < 2 ^ w := (Wf_cons.mp (Wf_append.mp hb).2).1
  have hvb := val_lt hb
  rw [hblen] at hvb
  unfold zzDiv
  simp only [hblen]
  by_cases h1 : wwCmp2_safe a (bl ++ [bt]) < 0
  · rw [if_pos h1]
    have hlt := (cmp2_lt_iff w a _ ha hb).mp h1
    have hv := val_take_of_lt w a (bl.length + 1) _ hnm hvb hlt
    simp only [val_replicate_zero, Nat.zero_mul, Nat.zero_add, hv]
    refine ⟨trivial, hlt, Wf_replicate_zero w _, Wf_take ha _, by simp, by simp; omega⟩
  · rw [if_neg h1]
    by_cases h2 : bl.length + 1 = 1
    · rw [if_pos h2]
      have hbl : bl = [] := by
        cases bl with
        | nil => rfl
        | cons _ _ => simp at h2
      subst hbl
      simp only [List.nil_append, List.headD_cons, val_single]
      obtain ⟨d1, d2, d3, d4⟩ := Mul.zzDivW_spec w a bt ha (by omega) hbtB
      refine ⟨d1, d2, d3, Wf_single (by omega), by rw [d4]; simp at hnm ⊢; omega, rfl⟩
    · rw [if_neg h2]
      have hd : ((bl ++ [bt]).drop (bl.length + 1 - 1)).headD 0 = bt := by simp
      have hc : a.length - (bl.length + 1) + 1 = a.length - bl.length := by omega
      simp only [hd, hc]
      obtain ⟨m1, m2, m3, m4, m5, m6⟩ := zzDiv_main w a bl bt ha hb hbt (by omega) hnm _ rfl _ rfl
      exact ⟨m1, m2, m3, m5, m4, m6⟩

theorem zzMod_spec' (w : Nat) (a bl : List Nat) (bt : Nat) (ha : Wf w a)
    (hb : Wf w (bl ++ [bt])) (hbt : bt ≠ 0) :
    val w (zzMod w a (bl ++ [bt])) = val w a % val w (bl ++ [bt])
    ∧ Wf w (zzMod w a (bl ++ [bt])) ∧ (zzMod w a (bl ++ [bt])).length = bl.length + 1 := by
  have hblen : (bl ++ [bt]).length = bl.length + 1 := by simp
  have hbtB : bt < 2 ^ w := (Wf_cons.mp (Wf_append.mp hb).2).1
  have hvb := val_lt hb
  rw [hblen] at hvb
  have hbP : 2 ^ (w * bl.length) ≤ val w (bl ++ [bt]) := by
    rw [val_append, val_single]
    have : 2 ^ (w * bl.length) * 1 ≤ 2 ^ (w * bl.length) * bt := Nat.mul_le_mul_left _ (by omega)
    omega
  unfold zzMod
  simp only [hblen]
  by_cases h1 : wwCmp2_safe a (bl ++ [bt]) < 0
  · rw [if_pos h1]
    have hlt := (cmp2_lt_iff w a _ ha hb).mp h1
    rw [Nat.mod_eq_of_lt hlt]
    by_cases h3 : a.length < bl.length + 1
    · rw [if_pos h3]
      refine ⟨by rw [val_append, val_replicate_zero, Nat.mul_zero, Nat.add_zero],
        Wf_append.mpr ⟨ha, Wf_replicate_zero w _⟩, by simp; omega⟩
    · rw [if_neg h3]
      exact ⟨val_take_of_lt w a (bl.length + 1) _ (by omega) hvb hlt, Wf_take ha _,
        by simp; omega⟩
  · rw [if_neg h1]
    have hge : ¬ val w a < val w (bl ++ [bt]) := fun h => h1 ((cmp2_lt_iff w a _ ha hb).mpr h)
    have hnm : bl.length + 1 ≤ a.length := by
      by_contra hcon
      have hva := val_lt ha
      have : 2 ^ (w * a.length) ≤ 2 ^ (w * bl.length) :=
        Nat.pow_le_pow_right (by omega) (Nat.mul_le_mul_left _ (by omega))
      omega
    by_cases h2 : bl.length + 1 = 1
    · rw [if_pos h2]
      have hbl : bl = [] := by
        cases bl with
        | nil => rfl
        | cons _ _ => simp at h2
      subst hbl
      simp only [List.nil_append, List.headD_cons, val_single]
      obtain ⟨d1, d2, _, _⟩ := Mul.zzDivW_spec w a bt ha (by omega) hbtB
      rw [zzModW_eq]
      exact ⟨(mod_of_divmod d1 d2).1.symm, Wf_single (by omega), rfl⟩
    · rw [if_neg h2]
      have hd : ((bl ++ [bt]).drop (bl.length + 1 - 1)).headD 0 = bt := by simp
      have hc : a.length - (bl.length + 1) + 1 = a.length - bl.length := by omega
      simp only [hd, hc]
      obtain ⟨m1, m2, _, _, m5, m6⟩ := zzDiv_main w a bl bt ha hb hbt (by omega) hnm _ rfl _ rfl
      exact ⟨(mod_of_divmod m1 m2).1.symm, m5, m6⟩

theorem last_decomp {b : List Nat} (hne : b ≠ []) :
    ∃ bl, b = bl ++ [b.getLast hne] := ⟨b.dropLast, (List.dropLast_concat_getLast hne).symm⟩

end Bee2V.C05.Div

/-
C05 — the index-local loops of zz_add.c / zz_etc.c / zz_mod.c / zz_mul.c executed ON A MEMORY
WITH ADDRESSES, so that the aliasing the headers allow (`c == a`, `c == b`, `a == b`, …:
"Буфер c либо не пересекается, либо совпадает с каждым из буферов a, b") is visible.

The list models of ModelAdd.lean / ModelMul.lean are functions of the *original* contents of
their inputs; aliasing cannot be expressed there.  Here memory is `Mem = Nat → Nat`
(word-addressed, total: no read is ever "out of bounds", and no theorem relies on a default
value — regions are given by base address and length and related by explicit
same-or-disjoint hypotheses, the `wwIsSameOrDisjoint` / `wwIsDisjoint` of the C ASSERTs).

Generic loops, each a structural recursion on the remaining count that reads memory AT THE
TIME OF THE ITERATION (a write to c[i] is seen by every later read):

* `loop2`     : `for (i = 0; i < n; ++i) { (s, v) = step(s, a[i], b[i]); c[i] = v; }`
* `loop1`     : `for (i = 0; i < n; ++i) { (s, v) = step(s, a[i]); c[i] = v; }`
* `loopIO`    : `for (i = 0; i < n; ++i) { (s, v) = step(s, b[i], a[i]); b[i] = v; }`   (`b[i] op= …`)
* `loop1Desc` : `while (n--) { (s, v) = step(s, a[n]); c[n] = v; }`
* `loop2Post` / `loop1Post` : as `loop2` / `loop1`, and after the store the iteration reads
  `d[i]` and re-reads `c[i]` FROM MEMORY to update the state (the `mask` update of the
  SAFE modular routines: `mask &= wordEq01(mod[i], c[i]); mask |= wordLess01(mod[i], c[i])`).

`pure2`, `pure1`, `pure1Desc`, `pure2Post`, `pure1Post` are the corresponding computations on
lists (the shape of the ModelAdd/ModelMul functions).  LemmasAlias.lean proves that the memory
loops equal the pure computations on the original contents under the documented alias
patterns, and that ModelAdd/ModelMul's loops are these pure computations for the steps below.

No Mathlib (executable; may be imported by a driver).
-/
import Bee2V.C05.ModelMul
namespace Bee2V.C05.Alias

/-! ## memory -/

/-- word-addressed memory -/
abbrev Mem := Nat → Nat

/-- `m[k] = v` -/
def write (m : Mem) (k v : Nat) : Mem := fun j => if j = k then v else m j

/-- contents of the region `[a, a + n)` -/
def readN (m : Mem) : Nat → Nat → List Nat
  | _, 0 => []
  | a, n + 1 => m a :: readN m (a + 1) n

/-- a memory holding the list `l` at addresses `0 .. l.length - 1` and `dflt` elsewhere (for examples) -/
def ofList (l : List Nat) (dflt : Nat) : Mem := fun j => l.getD j dflt

/-- `wwIsDisjoint(c, r, n)`: `c + n <= r || r + n <= c` -/
def Disj (c r n : Nat) : Prop := c + n ≤ r ∨ r + n ≤ c
/-- `wwIsSameOrDisjoint(r, c, n)` -/
def SameOrDisj (c r n : Nat) : Prop := c = r ∨ Disj c r n

instance (c r n : Nat) : Decidable (Disj c r n) := by unfold Disj; exact inferInstance
instance (c r n : Nat) : Decidable (SameOrDisj c r n) := by unfold SameOrDisj; exact inferInstance

/-! ## generic loops on memory (C order) -/

variable {σ : Type}

/-- iterations `i, i+1, …, i+k-1` of
    `for (…; i < n; ++i) { (s, v) = step(s, a[i], b[i]); c[i] = v; }` -/
def loop2I (step : σ → Nat → Nat → σ × Nat) (a b c : Nat) : Nat → Nat → σ → Mem → Mem × σ
  | _, 0, s, m => (m, s)
  | i, k + 1, s, m =>
    let r := step s (m (a + i)) (m (b + i))
    loop2I step a b c (i + 1) k r.1 (write m (c + i) r.2)
/-- the whole loop `for (i = 0; i < n; ++i)` -/
def loop2 (step : σ → Nat → Nat → σ × Nat) (a b c n : Nat) (s : σ) (m : Mem) : Mem × σ :=
  loop2I step a b c 0 n s m

/-- `for (…; i < n; ++i) { (s, v) = step(s, a[i]); c[i] = v; }` -/
def loop1I (step : σ → Nat → σ × Nat) (a c : Nat) : Nat → Nat → σ → Mem → Mem × σ
  | _, 0, s, m => (m, s)
  | i, k + 1, s, m =>
    let r := step s (m (a + i))
    loop1I step a c (i + 1) k r.1 (write m (c + i) r.2)
def loop1 (step : σ → Nat → σ × Nat) (a c n : Nat) (s : σ) (m : Mem) : Mem × σ :=
  loop1I step a c 0 n s m

/-- in/out loop `for (…; i < n; ++i) { (s, v) = step(s, b[i], a[i]); b[i] = v; }` (`b[i] += …`) -/
def loopIOI (step : σ → Nat → Nat → σ × Nat) (b a : Nat) : Nat → Nat → σ → Mem → Mem × σ
  | _, 0, s, m => (m, s)
  | i, k + 1, s, m =>
    let r := step s (m (b + i)) (m (a + i))
    loopIOI step b a (i + 1) k r.1 (write m (b + i) r.2)
def loopIO (step : σ → Nat → Nat → σ × Nat) (b a n : Nat) (s : σ) (m : Mem) : Mem × σ :=
  loopIOI step b a 0 n s m

/-- descending loop `while (n--) { (s, v) = step(s, a[n]); c[n] = v; }` -/
def loop1Desc (step : σ → Nat → σ × Nat) (a c : Nat) : Nat → σ → Mem → Mem × σ
  | 0, s, m => (m, s)
  | n + 1, s, m =>
    let r := step s (m (a + n))
    loop1Desc step a c n r.1 (write m (c + n) r.2)

/-- `loop2` whose iteration, after the store `c[i] = v`, reads `d[i]` and `c[i]` from memory:
    `{ (s, v) = step(s, a[i], b[i]); c[i] = v; s = post(s, d[i], c[i]); }` -/
def loop2PostI (step : σ → Nat → Nat → σ × Nat) (post : σ → Nat → Nat → σ) (a b d c : Nat) :
    Nat → Nat → σ → Mem → Mem × σ
  | _, 0, s, m => (m, s)
  | i, k + 1, s, m =>
    let r := step s (m (a + i)) (m (b + i))
    let m' := write m (c + i) r.2
    loop2PostI step post a b d c (i + 1) k (post r.1 (m' (d + i)) (m' (c + i))) m'
def loop2Post (step : σ → Nat → Nat → σ × Nat) (post : σ → Nat → Nat → σ) (a b d c n : Nat)
    (s : σ) (m : Mem) : Mem × σ :=
  loop2PostI step post a b d c 0 n s m

/-- `{ (s, v) = step(s, a[i]); c[i] = v; s = post(s, d[i], c[i]); }` -/
def loop1PostI (step : σ → Nat → σ × Nat) (post : σ → Nat → Nat → σ) (a d c : Nat) :
    Nat → Nat → σ → Mem → Mem × σ
  | _, 0, s, m => (m, s)
  | i, k + 1, s, m =>
    let r := step s (m (a + i))
    let m' := write m (c + i) r.2
    loop1PostI step post a d c (i + 1) k (post r.1 (m' (d + i)) (m' (c + i))) m'
def loop1Post (step : σ → Nat → σ × Nat) (post : σ → Nat → Nat → σ) (a d c n : Nat)
    (s : σ) (m : Mem) : Mem × σ :=
  loop1PostI step post a d c 0 n s m

/-! ## the same computations on lists (original contents) -/

def pure2 (step : σ → Nat → Nat → σ × Nat) : σ → List Nat → List Nat → List Nat × σ
  | s, x :: xs, y :: ys =>
    let r := step s x y
    let t := pure2 step r.1 xs ys
    (r.2 :: t.1, t.2)
  | s, _, _ => ([], s)

def pure1 (step : σ → Nat → σ × Nat) : σ → List Nat → List Nat × σ
  | s, x :: xs =>
    let r := step s x
    let t := pure1 step r.1 xs
    (r.2 :: t.1, t.2)
  | s, [] => ([], s)

/-- top word first: the tail (higher words) is processed before the head -/
def pure1Desc (step : σ → Nat → σ × Nat) (s : σ) : List Nat → List Nat × σ
  | [] => ([], s)
  | x :: xs =>
    let t := pure1Desc step s xs
    let r := step t.2 x
    (r.2 :: t.1, r.1)

def pure2Post (step : σ → Nat → Nat → σ × Nat) (post : σ → Nat → Nat → σ) :
    σ → List Nat → List Nat → List Nat → List Nat × σ
  | s, x :: xs, y :: ys, z :: zs =>
    let r := step s x y
    let t := pure2Post step post (post r.1 z r.2) xs ys zs
    (r.2 :: t.1, t.2)
  | s, _, _, _ => ([], s)

def pure1Post (step : σ → Nat → σ × Nat) (post : σ → Nat → Nat → σ) :
    σ → List Nat → List Nat → List Nat × σ
  | s, x :: xs, z :: zs =>
    let r := step s x
    let t := pure1Post step post (post r.1 z r.2) xs zs
    (r.2 :: t.1, t.2)
  | s, _, _ => ([], s)

/-! ## the loop bodies of the C functions as steps (state, words read) ↦ (state, word stored) -/

/-- zzAdd: `w = a[i] + carry; carry = wordLess01(w, carry); c[i] = w + b[i]; carry |= wordLess01(c[i], w)` -/
def addStep (w : Nat) (carry a b : Nat) : Nat × Nat :=
  let t := wadd w a carry
  let carry1 := wless01 t carry
  let c := wadd w t b
  (carry1 ||| wless01 c t, c)

/-- zzAdd2: `w = a[i] + carry; carry = wordLess01(w, carry); b[i] += w; carry |= wordLess01(b[i], w)` -/
def add2Step (w : Nat) (carry b a : Nat) : Nat × Nat :=
  let t := wadd w a carry
  let carry1 := wless01 t carry
  let b' := wadd w b t
  (carry1 ||| wless01 b' t, b')

/-- zzSub: `w = b[i] + borrow; borrow = wordLess01(w, borrow); borrow |= wordLess01(a[i], w); c[i] = a[i] - w` -/
def subStep (w : Nat) (borrow a b : Nat) : Nat × Nat :=
  let t := wadd w b borrow
  let borrow1 := wless01 t borrow
  (borrow1 ||| wless01 a t, wsub w a t)

/-- zzSub2: `w = a[i] + borrow; borrow = wordLess01(w, borrow); borrow |= wordLess01(b[i], w); b[i] -= w` -/
def sub2Step (w : Nat) (borrow b a : Nat) : Nat × Nat :=
  let t := wadd w a borrow
  let borrow1 := wless01 t borrow
  (borrow1 ||| wless01 b t, wsub w b t)

/-- zzAddW: `b[i] = a[i] + w, w = wordLess01(b[i], w)` -/
def addWStep (w : Nat) (x a : Nat) : Nat × Nat :=
  let b := wadd w a x
  (wless01 b x, b)

/-- zzSubW: `b[i] = a[i] - w, w = wordLess01(~w, b[i])` -/
def subWStep (w : Nat) (x a : Nat) : Nat × Nat :=
  let b := wsub w a x
  (wless01 (wnot w x) b, b)

/-- zzAddAndW: `prod = w & a[i]; prod += carry; carry = wordLess01(prod, carry); b[i] += prod;
    carry |= wordLess01(b[i], prod)` -/
def addAndWStep (w msk : Nat) (carry b a : Nat) : Nat × Nat :=
  let prod := msk &&& a
  let prod' := wadd w prod carry
  let carry1 := wless01 prod' carry
  let b' := wadd w b prod'
  (carry1 ||| wless01 b' prod', b')

/-- zzSubAndW: `prod = w & a[i]; prod += borrow; borrow = wordLess01(prod, borrow);
    borrow |= wordLess01(b[i], prod); b[i] -= prod` -/
def subAndWStep (w msk : Nat) (borrow b a : Nat) : Nat × Nat :=
  let prod := msk &&& a
  let prod' := wadd w prod borrow
  let borrow1 := wless01 prod' borrow
  (borrow1 ||| wless01 b prod', wsub w b prod')

/-- the `b <- 2a` loop of zzDoubleMod: `hi = a[i] >> (B_PER_W - 1), b[i] = a[i] << 1 | carry, carry = hi` -/
def doubleStep (w : Nat) (carry a : Nat) : Nat × Nat :=
  (wshr a (w - 1), wshl w a 1 ||| carry)

/-- zzMulW: `_MUL(prod, w, a[i]); prod += carry; b[i] = (word)prod; carry = (word)(prod >> B_PER_W)` -/
def mulWStep (w x : Nat) (carry a : Nat) : Nat × Nat :=
  let prod := dadd w (dmul w x a) carry
  (dhi w prod, dlo w prod)

/-- zzAddMulW: `_MUL(prod, w, a[i]); prod += carry; prod += b[i]; b[i] = (word)prod; carry = …` -/
def addMulWStep (w x : Nat) (carry b a : Nat) : Nat × Nat :=
  let prod := dadd w (dadd w (dmul w x a) carry) b
  (dhi w prod, dlo w prod)

/-- zzSubMulW: `_MUL(prod, w, a[i]); prod = 0 - prod; prod += b[i]; prod -= borrow; b[i] = (word)prod;
    borrow = WORD_0 - (word)(prod >> B_PER_W)` -/
def subMulWStep (w x : Nat) (borrow b a : Nat) : Nat × Nat :=
  let prod := dsub w (dadd w (dsub w 0 (dmul w x a)) b) borrow
  (wneg w (dhi w prod), dlo w prod)

/-- zzDivW: `divisor = r; divisor <<= B_PER_W; divisor |= a[n]; q[n] = (word)(divisor / w);
    r = (word)(divisor % w)` -/
def divWStep (w x : Nat) (r a : Nat) : Nat × Nat :=
  let divisor := dshl w r ||| a
  (dlo w (divisor % x), dlo w (divisor / x))

/-- shift loop of FAST(zzHalfMod): `lo = b[n] & 1, b[n] = b[n] >> 1 | carry << (B_PER_W - 1), carry = lo` -/
def halfStep (w : Nat) (carry x : Nat) : Nat × Nat :=
  (x % 2, wshr x 1 ||| wshl w carry (w - 1))

/-- add part of the SAFE(zzAddMod) iteration; state `(carry, mask)` -/
def addModStep (w : Nat) (st : Nat × Nat) (a b : Nat) : (Nat × Nat) × Nat :=
  let r := addStep w st.1 a b
  ((r.1, st.2), r.2)
/-- `mask &= wordEq01(mod[i], c[i]); mask |= wordLess01(mod[i], c[i])` -/
def maskPost (st : Nat × Nat) (modi ci : Nat) : Nat × Nat := (st.1, maskStep st.2 modi ci)

/-- add part of the SAFE(zzAddWMod) iteration; state `(w, mask)` -/
def addWModStep (w : Nat) (st : Nat × Nat) (a : Nat) : (Nat × Nat) × Nat :=
  let r := addWStep w st.1 a
  ((r.1, st.2), r.2)

/-- shift part of the SAFE(zzDoubleMod) iteration; state `(carry, mask)` -/
def doubleModStep (w : Nat) (st : Nat × Nat) (a : Nat) : (Nat × Nat) × Nat :=
  let r := doubleStep w st.1 a
  ((r.1, st.2), r.2)

/-! ## the C functions on memory (argument order of the C prototypes; `w` = B_PER_W first) -/

/-- `carry = zzAdd(c, a, b, n)` -/
def zzAddMem (w c a b n : Nat) (m : Mem) : Mem × Nat := loop2 (addStep w) a b c n 0 m
/-- `borrow = zzSub(c, a, b, n)` -/
def zzSubMem (w c a b n : Nat) (m : Mem) : Mem × Nat := loop2 (subStep w) a b c n 0 m
/-- `carry = zzAdd2(b, a, n)` -/
def zzAdd2Mem (w b a n : Nat) (m : Mem) : Mem × Nat := loopIO (add2Step w) b a n 0 m
/-- `borrow = zzSub2(b, a, n)` -/
def zzSub2Mem (w b a n : Nat) (m : Mem) : Mem × Nat := loopIO (sub2Step w) b a n 0 m
/-- `carry = zzAddW(b, a, n, x)` -/
def zzAddWMem (w b a n x : Nat) (m : Mem) : Mem × Nat := loop1 (addWStep w) a b n x m
/-- `borrow = zzSubW(b, a, n, x)` -/
def zzSubWMem (w b a n x : Nat) (m : Mem) : Mem × Nat := loop1 (subWStep w) a b n x m
/-- `zzAddAndW(b, a, n, msk)` (the final carry is dropped by the C; returned here for completeness) -/
def zzAddAndWMem (w b a n msk : Nat) (m : Mem) : Mem × Nat := loopIO (addAndWStep w msk) b a n 0 m
/-- `borrow = zzSubAndW(b, a, n, msk)` -/
def zzSubAndWMem (w b a n msk : Nat) (m : Mem) : Mem × Nat := loopIO (subAndWStep w msk) b a n 0 m
/-- `carry = zzMulW(b, a, n, x)` -/
def zzMulWMem (w b a n x : Nat) (m : Mem) : Mem × Nat := loop1 (mulWStep w x) a b n 0 m
/-- `carry = zzAddMulW(b, a, n, x)` -/
def zzAddMulWMem (w b a n x : Nat) (m : Mem) : Mem × Nat := loopIO (addMulWStep w x) b a n 0 m
/-- `borrow = zzSubMulW(b, a, n, x)` -/
def zzSubMulWMem (w b a n x : Nat) (m : Mem) : Mem × Nat := loopIO (subMulWStep w x) b a n 0 m
/-- `r = zzDivW(q, a, n, x)` (top word first) -/
def zzDivWMem (w q a n x : Nat) (m : Mem) : Mem × Nat := loop1Desc (divWStep w x) a q n 0 m
/-- the `b <- 2a` loop of FAST(zzDoubleMod) -/
def zzDoubleMem (w b a n : Nat) (m : Mem) : Mem × Nat := loop1 (doubleStep w) a b n 0 m
/-- the in-place shift loop of FAST(zzHalfMod) on `b`, entered with `carry` -/
def zzHalfShiftMem (w b n carry : Nat) (m : Mem) : Mem × Nat := loop1Desc (halfStep w) b b n carry m

/-- SAFE(zzAddMod)(c, a, b, mod, n): the add-and-compare loop, then
    `mask |= carry; mask = WORD_0 - mask; zzSubAndW(c, mod, n, mask)` -/
def zzAddModMem_safe (w c a b mod n : Nat) (m : Mem) : Mem :=
  let r := loop2Post (addModStep w) maskPost a b mod c n (0, 1) m
  let mask := wneg w (r.2.2 ||| r.2.1)
  (zzSubAndWMem w c mod n mask r.1).1

/-- SAFE(zzAddWMod)(b, a, x, mod, n) -/
def zzAddWModMem_safe (w b a x mod n : Nat) (m : Mem) : Mem :=
  let r := loop1Post (addWModStep w) maskPost a mod b n (x, 1) m
  let mask := wneg w (r.2.2 ||| r.2.1)
  (zzSubAndWMem w b mod n mask r.1).1

/-- SAFE(zzDoubleMod)(b, a, mod, n) -/
def zzDoubleModMem_safe (w b a mod n : Nat) (m : Mem) : Mem :=
  let r := loop1Post (doubleModStep w) maskPost a mod b n (0, 1) m
  let mask := wneg w (r.2.2 ||| r.2.1)
  (zzSubAndWMem w b mod n mask r.1).1

/-- SAFE(zzSubMod)(c, a, b, mod, n): `mask = WORD_0 - zzSub(c, a, b, n); zzAddAndW(c, mod, n, mask)` -/
def zzSubModMem_safe (w c a b mod n : Nat) (m : Mem) : Mem :=
  let r := zzSubMem w c a b n m
  (zzAddAndWMem w c mod n (wneg w r.2) r.1).1

/-- SAFE(zzSubWMod)(b, a, x, mod, n): `mask = WORD_0 - zzSubW(b, a, n, x); zzAddAndW(b, mod, n, mask)` -/
def zzSubWModMem_safe (w b a x mod n : Nat) (m : Mem) : Mem :=
  let r := zzSubWMem w b a n x m
  (zzAddAndWMem w b mod n (wneg w r.2) r.1).1

/-- FAST(zzAddMod)(c, a, b, mod, n): `if (zzAdd(c, a, b, n) || FAST(wwCmp)(c, mod, n) >= 0) zzSub2(c, mod, n)` -/
def zzAddModMem_fast (w c a b mod n : Nat) (m : Mem) : Mem :=
  let r := zzAddMem w c a b n m
  if r.2 ≠ 0 ∨ wwCmp_fast (readN r.1 c n) (readN r.1 mod n) ≥ 0 then (zzSub2Mem w c mod n r.1).1 else r.1

/-- FAST(zzSubMod)(c, a, b, mod, n): `if (zzSub(c, a, b, n)) zzAdd2(c, mod, n)` -/
def zzSubModMem_fast (w c a b mod n : Nat) (m : Mem) : Mem :=
  let r := zzSubMem w c a b n m
  if r.2 ≠ 0 then (zzAdd2Mem w c mod n r.1).1 else r.1

/-- FAST(zzAddWMod)(b, a, x, mod, n): `if (zzAddW(b, a, n, x) || wwCmp(b, mod, n) >= 0) zzSub2(b, mod, n)` -/
def zzAddWModMem_fast (w b a x mod n : Nat) (m : Mem) : Mem :=
  let r := zzAddWMem w b a n x m
  if r.2 ≠ 0 ∨ wwCmp_safe (readN r.1 b n) (readN r.1 mod n) ≥ 0 then (zzSub2Mem w b mod n r.1).1 else r.1

/-- FAST(zzSubWMod)(b, a, x, mod, n): `if (zzSubW(b, a, n, x)) zzAdd2(b, mod, n)` -/
def zzSubWModMem_fast (w b a x mod n : Nat) (m : Mem) : Mem :=
  let r := zzSubWMem w b a n x m
  if r.2 ≠ 0 then (zzAdd2Mem w b mod n r.1).1 else r.1

/-- FAST(zzDoubleMod)(b, a, mod, n): shift loop, `if (carry || wwCmp(b, mod, n) >= 0) zzSub2(b, mod, n)` -/
def zzDoubleModMem_fast (w b a mod n : Nat) (m : Mem) : Mem :=
  let r := zzDoubleMem w b a n m
  if r.2 ≠ 0 ∨ wwCmp_safe (readN r.1 b n) (readN r.1 mod n) ≥ 0 then (zzSub2Mem w b mod n r.1).1 else r.1

/-- `b[i] = ~a[i]` -/
def notStep (w : Nat) (s : Unit) (a : Nat) : Unit × Nat := (s, wnot w a)

/-- zzNeg(b, a, n): `for (i…) b[i] = ~a[i]; zzAddW2(b, n, 1)` (zzAddW2(b, …) is zzAddW(b, b, …)) -/
def zzNegMem (w b a n : Nat) (m : Mem) : Mem :=
  let m1 := (loop1 (notStep w) a b n () m).1
  (zzAddWMem w b b n 1 m1).1

/-- SAFE(zzNegMod)(b, a, mod, n): `zzSub(b, mod, a, n); mask = WORD_0 - (word)wwEq(b, mod, n);
    zzSubAndW(b, mod, n, mask)` -/
def zzNegModMem_safe (w b a mod n : Nat) (m : Mem) : Mem :=
  let m1 := (zzSubMem w b mod a n m).1
  let mask := wneg w (if wwEq_safe (readN m1 b n) (readN m1 mod n) then 1 else 0)
  (zzSubAndWMem w b mod n mask m1).1

/-- wwSetZero(b, n) as a store-only loop -/
def zeroStep (s : Unit) (_ : Nat) : Unit × Nat := (s, 0)
def wwSetZeroMem (b n : Nat) (m : Mem) : Mem := (loop1 zeroStep b b n () m).1

/-- FAST(zzNegMod)(b, a, mod, n): `if (!wwIsZero(a, n)) zzSub(b, mod, a, n); else wwSetZero(b, n)` -/
def zzNegModMem_fast (w b a mod n : Nat) (m : Mem) : Mem :=
  if !wwIsZero_safe (readN m a n) then (zzSubMem w b mod a n m).1 else wwSetZeroMem b n m

/-- FAST(zzHalfMod)(b, a, mod, n): odd a: `carry = zzAdd(b, a, mod, n)` then the in-place shift loop
    on b from the top; even a: the shift loop reading a, writing b, from the top -/
def zzHalfModMem_fast (w b a mod n : Nat) (m : Mem) : Mem :=
  if zzIsOdd (readN m a n) then
    let r := zzAddMem w b a mod n m
    (zzHalfShiftMem w b n r.2 r.1).1
  else (loop1Desc (halfStep w) a b n 0 m).1

/-! ### SAFE(zzHalfMod): NOT index-local — iteration i also updates b[i-1] -/

/-- iteration `i = j + 1` of the loop of SAFE(zzHalfMod), statement by statement on memory:
    `b[i] = a[i]; b[i] += carry; carry = wordLess01(b[i], carry); w = mask & mod[i]; b[i] += w;
     carry |= wordLess01(b[i], w); b[i-1] |= (b[i] & WORD_1) << (B_PER_W - 1); b[i] >>= 1;` -/
def halfSafeIter (w a md b mask j carry : Nat) (m : Mem) : Mem × Nat :=
  let m1 := write m (b + j + 1) (m (a + j + 1))
  let m2 := write m1 (b + j + 1) (wadd w (m1 (b + j + 1)) carry)
  let carry1 := wless01 (m2 (b + j + 1)) carry
  let t := mask &&& m2 (md + j + 1)
  let m3 := write m2 (b + j + 1) (wadd w (m2 (b + j + 1)) t)
  let carry2 := carry1 ||| wless01 (m3 (b + j + 1)) t
  let m4 := write m3 (b + j) (m3 (b + j) ||| wshl w (m3 (b + j + 1) % 2) (w - 1))
  let m5 := write m4 (b + j + 1) (wshr (m4 (b + j + 1)) 1)
  (m5, carry2)

/-- iterations `i = j + 1, …, j + k` -/
def halfSafeLoopMem (w a md b mask : Nat) : Nat → Nat → Nat → Mem → Mem × Nat
  | _, 0, carry, m => (m, carry)
  | j, k + 1, carry, m =>
    let r := halfSafeIter w a md b mask j carry m
    halfSafeLoopMem w a md b mask (j + 1) k r.2 r.1

/-- SAFE(zzHalfMod)(b, a, mod, n), n ≥ 1 (n = 0 violates the precondition `mod[n - 1] != 0`;
    modelled as "nothing happens", as in ModelAdd's `zzHalfMod_safe`):
    `mask = WORD_0 - (a[0] & WORD_1); w = mask & mod[0]; b[0] = a[0] + w; carry = wordLess01(b[0], w);
     b[0] >>= 1; for (i = 1; i < n; ++i) {…}  b[n - 1] |= carry << (B_PER_W - 1);` -/
def zzHalfModMem_safe (w b a md : Nat) : Nat → Mem → Mem
  | 0, m => m
  | k + 1, m =>
    let mask := wneg w (m a % 2)
    let t := mask &&& m md
    let m1 := write m b (wadd w (m a) t)
    let carry := wless01 (m1 b) t
    let m2 := write m1 b (wshr (m1 b) 1)
    let r := halfSafeLoopMem w a md b mask 0 k carry m2
    write r.1 (b + k) (r.1 (b + k) ||| wshl w r.2 (w - 1))

/-! ### re-reading the word just stored

Several bodies use the stored word again in the same iteration (`c[i] = w + b[i]; carry |=
wordLess01(c[i], w)`, `b[i] += w; carry |= wordLess01(b[i], w)`, `b[i] = a[i] + w, w =
wordLess01(b[i], w)`).  The steps above use the stored VALUE; `loop2RR` / `loop1RR` are the loops
that re-read `c[i]` FROM MEMORY after the store (`pre` computes the stored word and the registers,
`fin` consumes the re-read word).  LemmasAlias: they are the same loops (`write_same`). -/

def loop2RRI {τ : Type} (pre : σ → Nat → Nat → τ × Nat) (fin : τ → Nat → σ) (a b c : Nat) :
    Nat → Nat → σ → Mem → Mem × σ
  | _, 0, s, m => (m, s)
  | i, k + 1, s, m =>
    let r := pre s (m (a + i)) (m (b + i))
    let m' := write m (c + i) r.2
    loop2RRI pre fin a b c (i + 1) k (fin r.1 (m' (c + i))) m'

def loop1RRI {τ : Type} (pre : σ → Nat → τ × Nat) (fin : τ → Nat → σ) (a c : Nat) :
    Nat → Nat → σ → Mem → Mem × σ
  | _, 0, s, m => (m, s)
  | i, k + 1, s, m =>
    let r := pre s (m (a + i))
    let m' := write m (c + i) r.2
    loop1RRI pre fin a c (i + 1) k (fin r.1 (m' (c + i))) m'

/-- zzAdd up to the store: registers `(carry, w)` after `w = a[i] + carry; carry = wordLess01(w, carry)`,
    stored word `w + b[i]` -/
def addPre (w : Nat) (carry a b : Nat) : (Nat × Nat) × Nat :=
  let t := wadd w a carry
  ((wless01 t carry, t), wadd w t b)
/-- `carry |= wordLess01(c[i], w)` with `c[i]` re-read -/
def addFin (r : Nat × Nat) (ci : Nat) : Nat := r.1 ||| wless01 ci r.2
/-- zzAdd(c, a, b, n) with the re-read of c[i] from memory -/
def zzAddMemRR (w c a b n : Nat) (m : Mem) : Mem × Nat := loop2RRI (addPre w) addFin a b c 0 n 0 m

/-- zzAddW up to the store: register `w` kept, stored word `a[i] + w` -/
def addWPre (w : Nat) (x a : Nat) : Nat × Nat := (x, wadd w a x)
/-- `w = wordLess01(b[i], w)` with `b[i]` re-read -/
def addWFin (x bi : Nat) : Nat := wless01 bi x
def zzAddWMemRR (w b a n x : Nat) (m : Mem) : Mem × Nat := loop1RRI (addWPre w) addWFin a b 0 n x m

end Bee2V.C05.Alias

/-
C05 — helper lemmas for PropsGf2.lean: the ring GF(2)[x]/(f) on Nat codes as a `CommRing`
(so that `ring` / `linear_combination` do the algebra), trace / half-trace sums, and the
loops of ModelGf2.lean.  Everything lives in `namespace Bee2V.C05.Gf2`.
-/
import Bee2V.C05.ModelGf2
import Bee2V.C05.LemmasPp
import Mathlib.Algebra.Ring.Defs
import Mathlib.Algebra.Group.Basic
import Mathlib.Tactic.Ring
import Mathlib.Tactic.LinearCombination
set_option linter.unusedSectionVars false
namespace Bee2V.C05.Gf2
open Bee2V.C05 Bee2V.C05.Spec Bee2V.C05.Pp

/-! ## congruences modulo f, `pmod` as a ring homomorphism -/

theorem xor_mid (x y z : Nat) : x ^^^ z = (x ^^^ y) ^^^ (y ^^^ z) := by
  apply Nat.eq_of_testBit_eq; intro i; simp only [Nat.testBit_xor]
  cases x.testBit i <;> cases y.testBit i <;> cases z.testBit i <;> rfl

theorem cong_symm {md x y : Nat} (h : Cong md x y) : Cong md y x := by
  obtain ⟨k, hk⟩ := h
  exact ⟨k, by rw [Nat.xor_comm, hk]⟩

theorem cong_trans {md x y z : Nat} (h : Cong md x y) (h' : Cong md y z) : Cong md x z := by
  obtain ⟨k, hk⟩ := h
  obtain ⟨k', hk'⟩ := h'
  exact ⟨k ^^^ k', by rw [xor_mid x y z, hk, hk', xor_clmul]⟩

theorem cong_mul_right {md x y : Nat} (c : Nat) (h : Cong md x y) :
    Cong md (clmul x c) (clmul y c) := by
  obtain ⟨k, hk⟩ := h
  refine ⟨clmul c k, ?_⟩
  rw [← xor_clmul, hk, clmul_comm (clmul k md) c, ← clmul_assoc]

theorem cong_pmod {f : Nat} (hf : f ≠ 0) (x : Nat) : Cong f (pmod x f) x :=
  ⟨(pdivmod x f).1, by
    rw [pmod_eq x f hf, Nat.xor_comm x, Nat.xor_assoc, Nat.xor_self, Nat.xor_zero]⟩

theorem pmod_lt {f : Nat} (hf : f ≠ 0) (x : Nat) : pmod x f < 2 ^ f.log2 := (pdivmod_spec x f hf).2

theorem pmod_xor {f : Nat} (hf : f ≠ 0) (x y : Nat) : pmod (x ^^^ y) f = pmod x f ^^^ pmod y f := by
  have h := pmod_cong hf (cong_xor (cong_symm (cong_pmod hf x)) (cong_symm (cong_pmod hf y)))
  rw [h]
  exact pmod_of_lt hf (Nat.xor_lt_two_pow (pmod_lt hf x) (pmod_lt hf y))

theorem pmod_mul_left {f : Nat} (hf : f ≠ 0) (x c : Nat) :
    pmod (clmul (pmod x f) c) f = pmod (clmul x c) f :=
  pmod_cong hf (cong_mul_right c (cong_pmod hf x))

theorem pmod_mul_right {f : Nat} (hf : f ≠ 0) (c x : Nat) :
    pmod (clmul c (pmod x f)) f = pmod (clmul c x) f := by
  rw [clmul_comm, pmod_mul_left hf, clmul_comm]

theorem pmod_zero {f : Nat} (hf : f ≠ 0) : pmod 0 f = 0 := pmod_of_lt hf (Nat.two_pow_pos _)

/-! ## the ring -/

/-- reduced codes modulo f -/
def R (f : Nat) : Type := {x : Nat // x < 2 ^ f.log2}

variable {f : Nat} [hf : Fact (f ≠ 0)]

omit hf in
theorem R.ext {a b : R f} (h : a.1 = b.1) : a = b := Subtype.ext h

instance : Zero (R f) := ⟨⟨0, Nat.two_pow_pos _⟩⟩
instance : Add (R f) := ⟨fun a b => ⟨a.1 ^^^ b.1, Nat.xor_lt_two_pow a.2 b.2⟩⟩
instance : Neg (R f) := ⟨fun a => a⟩
instance : Mul (R f) := ⟨fun a b => ⟨gfMul f a.1 b.1, pmod_lt hf.out _⟩⟩
instance : One (R f) := ⟨⟨pmod 1 f, pmod_lt hf.out _⟩⟩

/-- an element from a reduced code -/
abbrev mk (x : Nat) (h : x < 2 ^ f.log2) : R f := ⟨x, h⟩

instance : CommRing (R f) where
  add := (· + ·)
  zero := 0
  neg := Neg.neg
  mul := (· * ·)
  one := 1
  add_assoc a b c := R.ext (Nat.xor_assoc _ _ _)
  zero_add a := R.ext (Nat.zero_xor _)
  add_zero a := R.ext (Nat.xor_zero _)
  add_comm a b := R.ext (Nat.xor_comm _ _)
  neg_add_cancel a := R.ext (Nat.xor_self _)
  nsmul := nsmulRec
  zsmul := zsmulRec
  mul_assoc a b c := R.ext (by
    show gfMul f (gfMul f a.1 b.1) c.1 = gfMul f a.1 (gfMul f b.1 c.1)
    unfold gfMul
    rw [pmod_mul_left hf.out, pmod_mul_right hf.out, clmul_assoc])
  one_mul a := R.ext (by
    show gfMul f (pmod 1 f) a.1 = a.1
    unfold gfMul
    rw [pmod_mul_left hf.out, one_clmul, pmod_of_lt hf.out a.2])
  mul_one a := R.ext (by
    show gfMul f a.1 (pmod 1 f) = a.1
    unfold gfMul
    rw [pmod_mul_right hf.out, clmul_one, pmod_of_lt hf.out a.2])
  left_distrib a b c := R.ext (by
    show gfMul f a.1 (b.1 ^^^ c.1) = gfMul f a.1 b.1 ^^^ gfMul f a.1 c.1
    unfold gfMul
    rw [clmul_xor, pmod_xor hf.out])
  right_distrib a b c := R.ext (by
    show gfMul f (a.1 ^^^ b.1) c.1 = gfMul f a.1 c.1 ^^^ gfMul f b.1 c.1
    unfold gfMul
    rw [xor_clmul, pmod_xor hf.out])
  zero_mul a := R.ext (by
    show gfMul f 0 a.1 = 0
    unfold gfMul
    rw [zero_clmul, pmod_zero hf.out])
  mul_zero a := R.ext (by
    show gfMul f a.1 0 = 0
    unfold gfMul
    rw [clmul_zero, pmod_zero hf.out])
  mul_comm a b := R.ext (by
    show gfMul f a.1 b.1 = gfMul f b.1 a.1
    unfold gfMul
    rw [clmul_comm])

theorem val_add (a b : R f) : (a + b).1 = a.1 ^^^ b.1 := rfl
theorem val_mul (a b : R f) : (a * b).1 = gfMul f a.1 b.1 := rfl
theorem val_zero : (0 : R f).1 = 0 := rfl
theorem val_one : (1 : R f).1 = pmod 1 f := rfl
theorem val_sq (a : R f) : (a ^ 2).1 = gfSqr f a.1 := by rw [sq]; rfl

/-- characteristic 2 -/
theorem add_self (a : R f) : a + a = 0 := R.ext (Nat.xor_self _)

theorem add_sq (x y : R f) : (x + y) ^ 2 = x ^ 2 + y ^ 2 := by
  linear_combination add_self (x * y)

theorem pow_two_pow_succ (x : R f) (k : Nat) : x ^ 2 ^ (k + 1) = (x ^ 2 ^ k) ^ 2 := by
  rw [pow_succ, pow_mul]

theorem add_pow_two_pow (x y : R f) (k : Nat) : (x + y) ^ 2 ^ k = x ^ 2 ^ k + y ^ 2 ^ k := by
  induction k with
  | zero => simp
  | succ k ih => rw [pow_two_pow_succ, ih, add_sq, ← pow_two_pow_succ, ← pow_two_pow_succ]

/-! ## trace and half-trace sums -/

/-- `Σ_{i<k} a^(2^i)` -/
def trSum (a : R f) : Nat → R f
  | 0 => 0
  | k + 1 => trSum a k + a ^ 2 ^ k

/-- `Σ_{i<k} t^(4^i)` -/
def htrSum (t : R f) : Nat → R f
  | 0 => 0
  | k + 1 => htrSum t k + t ^ 2 ^ (2 * k)

theorem trSum_sq_add (a : R f) (j : Nat) : (trSum a j) ^ 2 + a = trSum a (j + 1) := by
  induction j with
  | zero => simp [trSum]
  | succ j ih =>
    have e : trSum a (j + 1 + 1) = trSum a (j + 1) + a ^ 2 ^ (j + 1) := rfl
    have e2 : trSum a (j + 1) = trSum a j + a ^ 2 ^ j := rfl
    rw [e]
    calc (trSum a (j + 1)) ^ 2 + a = (trSum a j + a ^ 2 ^ j) ^ 2 + a := by rw [e2]
      _ = ((trSum a j) ^ 2 + a) + a ^ 2 ^ (j + 1) := by rw [add_sq, pow_two_pow_succ]; ring
      _ = trSum a (j + 1) + a ^ 2 ^ (j + 1) := by rw [ih]

theorem trSum_add (a b : R f) (k : Nat) : trSum (a + b) k = trSum a k + trSum b k := by
  induction k with
  | zero => simp [trSum]
  | succ k ih =>
    simp only [trSum, ih, add_pow_two_pow]
    ring

theorem trSum_sq (a : R f) (k : Nat) : trSum (a ^ 2) k = (trSum a k) ^ 2 := by
  induction k with
  | zero => simp [trSum]
  | succ k ih =>
    simp only [trSum, ih, add_sq]
    rw [← pow_mul, ← pow_mul, Nat.mul_comm]

theorem htrSum_pow4_add (t : R f) (j : Nat) : ((htrSum t j) ^ 2) ^ 2 + t = htrSum t (j + 1) := by
  induction j with
  | zero => simp [htrSum]
  | succ j ih =>
    have e : htrSum t (j + 1 + 1) = htrSum t (j + 1) + t ^ 2 ^ (2 * (j + 1)) := rfl
    have e2 : htrSum t (j + 1) = htrSum t j + t ^ 2 ^ (2 * j) := rfl
    rw [e]
    calc ((htrSum t (j + 1)) ^ 2) ^ 2 + t = ((htrSum t j + t ^ 2 ^ (2 * j)) ^ 2) ^ 2 + t := by rw [e2]
      _ = (((htrSum t j) ^ 2) ^ 2 + t) + t ^ 2 ^ (2 * (j + 1)) := by
        rw [add_sq, add_sq, show 2 * (j + 1) = 2 * j + 1 + 1 by ring, pow_two_pow_succ,
          pow_two_pow_succ]
        ring
      _ = htrSum t (j + 1) + t ^ 2 ^ (2 * (j + 1)) := by rw [ih]

theorem htrSum_sq_add (t : R f) (j : Nat) : (htrSum t j) ^ 2 + htrSum t j = trSum t (2 * j) := by
  induction j with
  | zero => simp [htrSum, trSum]
  | succ j ih =>
    have e : trSum t (2 * (j + 1)) = trSum t (2 * j) + t ^ 2 ^ (2 * j) + t ^ 2 ^ (2 * j + 1) := rfl
    have e2 : htrSum t (j + 1) = htrSum t j + t ^ 2 ^ (2 * j) := rfl
    rw [e, e2, add_sq, ← ih, pow_two_pow_succ]
    ring

/-! ## the loops of the model in ring terms -/

theorem gf2SqrN_eq (x : R f) (k : Nat) : gf2SqrN f k x.1 = (x ^ 2 ^ k).1 := by
  induction k generalizing x with
  | zero => simp [gf2SqrN]
  | succ k ih =>
    unfold gf2SqrN
    rw [← val_sq, ih, ← pow_mul, pow_succ, Nat.mul_comm]

theorem gf2TrLoop_eq (a : R f) (k j : Nat) :
    gf2TrLoop f a.1 k (trSum a (j + 1)).1 = (trSum a (j + 1 + k)).1 := by
  induction k generalizing j with
  | zero => rfl
  | succ k ih =>
    unfold gf2TrLoop
    rw [← val_sq, ← val_add, trSum_sq_add, ih]
    congr 2; omega

theorem gf2TrVal_eq (a : R f) (m : Nat) (hm : 1 ≤ m) : gf2TrVal f m a.1 = (trSum a m).1 := by
  unfold gf2TrVal
  have h := gf2TrLoop_eq a (m - 1) 0
  have e : trSum a (0 + 1) = a := by simp [trSum]
  rw [e] at h
  rw [h]
  congr 2; omega

theorem gf2HtrLoop_eq (t : R f) (k j : Nat) :
    gf2HtrLoop f t.1 k (htrSum t (j + 1)).1 = (htrSum t (j + 1 + k)).1 := by
  induction k generalizing j with
  | zero => rfl
  | succ k ih =>
    unfold gf2HtrLoop
    rw [← val_sq, ← val_sq, ← val_add, htrSum_pow4_add, ih]
    congr 2; omega

/-! ## hypotheses about f that irreducibility of degree m provides -/

/-- Frobenius^m fixes every element: `x^(2^m) = x` in GF(2)[x]/(f), m = deg f -/
def FrobFix (f m : Nat) : Prop := f ≠ 0 ∧ f.log2 = m ∧ ∀ x, x < 2 ^ m → gf2SqrN f m x = x

/-- GF(2)[x]/(f) has no zero divisors -/
def NoZeroDiv (f m : Nat) : Prop := ∀ x y, x < 2 ^ m → y < 2 ^ m → gfMul f x y = 0 → x = 0 ∨ y = 0

/-- the Nat-level sum `Σ_{i<k} a^(2^i) mod f` -/
def gf2TrSum (f a : Nat) : Nat → Nat
  | 0 => 0
  | k + 1 => gf2TrSum f a k ^^^ gf2SqrN f k a

theorem gf2TrSum_eq (a : R f) (k : Nat) : gf2TrSum f a.1 k = (trSum a k).1 := by
  induction k with
  | zero => rfl
  | succ k ih => unfold gf2TrSum trSum; rw [ih, gf2SqrN_eq, val_add]

theorem frobFix_ring {m : Nat} (h : FrobFix f m) (x : R f) : x ^ 2 ^ m = x := by
  obtain ⟨_, h2, h3⟩ := h
  apply R.ext
  rw [← gf2SqrN_eq]
  exact h3 x.1 (by rw [← h2]; exact x.2)

/-- `Tr(a)^2 = Tr(a)` -/
theorem trSum_idem {m : Nat} (h : FrobFix f m) (a : R f) : (trSum a m) ^ 2 = trSum a m := by
  have h1 := trSum_sq_add a m
  have h2 : trSum a (m + 1) = trSum a m + a ^ 2 ^ m := rfl
  rw [h2, frobFix_ring h] at h1
  linear_combination h1

/-! ## Nat-level statements about gf2Tr -/

theorem trVal_nat (a : Nat) (ha : a < 2 ^ f.log2) (m : Nat) (hm : 1 ≤ m) :
    gf2TrVal f m a = (trSum (mk a ha) m).1 := gf2TrVal_eq (mk a ha) m hm

omit hf in
theorem trVal_sum' (f a m : Nat) (hf0 : f ≠ 0) (ha : a < 2 ^ f.log2) (hm : 1 ≤ m) :
    gf2TrVal f m a = gf2TrSum f a m := by
  have : Fact (f ≠ 0) := ⟨hf0⟩
  rw [trVal_nat a ha m hm]
  exact (gf2TrSum_eq (mk a ha) m).symm

omit hf in
theorem trVal_add' (f a b m : Nat) (hf0 : f ≠ 0) (ha : a < 2 ^ f.log2) (hb : b < 2 ^ f.log2)
    (hm : 1 ≤ m) : gf2TrVal f m (a ^^^ b) = gf2TrVal f m a ^^^ gf2TrVal f m b := by
  have : Fact (f ≠ 0) := ⟨hf0⟩
  have h : gf2TrVal f m (a ^^^ b) = _ := gf2TrVal_eq (mk a ha + mk b hb) m hm
  rw [trSum_add] at h
  rw [trVal_nat a ha m hm, trVal_nat b hb m hm]
  exact h

omit hf in
theorem trVal_sqr' (f a m : Nat) (hF : FrobFix f m) (ha : a < 2 ^ m) (hm : 1 ≤ m) :
    gf2TrVal f m (gfSqr f a) = gf2TrVal f m a := by
  have : Fact (f ≠ 0) := ⟨hF.1⟩
  have ha' : a < 2 ^ f.log2 := by rw [hF.2.1]; exact ha
  have h := gf2TrVal_eq ((mk a ha') ^ 2) m hm
  rw [trSum_sq, trSum_idem hF, val_sq] at h
  rw [trVal_nat a ha' m hm]
  exact h

omit hf in
theorem trVal_bit' (f a m : Nat) (hF : FrobFix f m) (hZ : NoZeroDiv f m) (ha : a < 2 ^ m)
    (hm : 1 ≤ m) : gf2TrVal f m a = 0 ∨ gf2TrVal f m a = 1 := by
  have : Fact (f ≠ 0) := ⟨hF.1⟩
  have hlog := hF.2.1
  have ha' : a < 2 ^ f.log2 := by rw [hlog]; exact ha
  rw [trVal_nat a ha' m hm]
  have hT := trSum_idem hF (mk a ha')
  generalize trSum (mk a ha') m = T at *
  have h0 : T * (T + 1) = 0 := by linear_combination hT + add_self T
  have h1 := congrArg Subtype.val h0
  rw [val_mul, val_zero] at h1
  have hone : pmod 1 f = 1 := pmod_of_lt hF.1 (by
    rw [hlog]
    calc 1 < 2 ^ 1 := by decide
      _ ≤ 2 ^ m := Nat.pow_le_pow_right (by decide) hm)
  rcases hZ _ _ (by rw [← hlog]; exact T.2) (by rw [← hlog]; exact (T + 1).2) h1 with h | h
  · exact Or.inl h
  · right
    rw [val_add, val_one, hone] at h
    exact xor_eq_zero_iff.1 h

/-! ## gf2QSolve -/

/-- the Nat-level left-hand side `x^2 + a x + b` is the ring expression -/
theorem qeq_val (X A B : R f) :
    gfSqr f X.1 ^^^ gfMul f A.1 X.1 ^^^ B.1 = (X ^ 2 + A * X + B).1 := by
  rw [val_add, val_add, val_sq, val_mul]

/-- the quotient computed by ppDivModV, in ring terms -/
theorem div_ring (hfo : f % 2 = 1) (dv s : R f) (hg : pgcd s.1 f = 1) :
    ∃ T : R f, T.1 = ppDivModV dv.1 s.1 f ∧ T * s = dv := by
  have h := (divModV_spec dv.1 s.1 f hfo
    (Nat.lt_of_lt_of_le dv.2 (Nat.pow_le_pow_right (by decide) (Nat.le_succ _)))).1 hg
  rw [pmod_of_lt hf.out dv.2] at h
  exact ⟨⟨ppDivModV dv.1 s.1 f, h.2⟩, rfl, R.ext h.1⟩

theorem htr_eq {m : Nat} (hF : FrobFix f m) (hodd : m % 2 = 1) (T : R f) (h0 : trSum T m = 0) :
    (htrSum T ((m - 1) / 2 + 1)) ^ 2 + htrSum T ((m - 1) / 2 + 1) = T := by
  rw [htrSum_sq_add]
  have e : 2 * ((m - 1) / 2 + 1) = m + 1 := by omega
  rw [e]
  have : trSum T (m + 1) = trSum T m + T ^ 2 ^ m := rfl
  rw [this, h0, frobFix_ring hF, zero_add]

omit hf in
theorem qsolve_sound' (f m a b x : Nat) (hF : FrobFix f m) (hodd : m % 2 = 1) (hfo : f % 2 = 1)
    (ha : a < 2 ^ m) (hb : b < 2 ^ m) (hg : a ≠ 0 → pgcd (gfSqr f a) f = 1)
    (h : gf2QSolveV f m a b = some x) :
    x < 2 ^ m ∧ gfSqr f x ^^^ gfMul f a x ^^^ b = 0 := by
  have : Fact (f ≠ 0) := ⟨hF.1⟩
  have hlog := hF.2.1
  have ha' : a < 2 ^ f.log2 := by rw [hlog]; exact ha
  have hb' : b < 2 ^ f.log2 := by rw [hlog]; exact hb
  suffices hs : ∃ X : R f, X.1 = x ∧ X ^ 2 + mk a ha' * X + mk b hb' = 0 by
    obtain ⟨X, hX, hq⟩ := hs
    have := qeq_val X (mk a ha') (mk b hb')
    rw [hq, hX] at this
    exact ⟨by rw [← hX, ← hlog]; exact X.2, this⟩
  unfold gf2QSolveV at h
  by_cases ha0 : a = 0
  · rw [if_pos ha0] at h
    injection h with h
    refine ⟨(mk b hb') ^ 2 ^ (m - 1), by rw [← h]; exact (gf2SqrN_eq (mk b hb') (m - 1)).symm, ?_⟩
    have e : ((mk b hb') ^ 2 ^ (m - 1)) ^ 2 = mk b hb' := by
      rw [← pow_two_pow_succ, show m - 1 + 1 = m by omega, frobFix_ring hF]
    have ez : mk a ha' = 0 := R.ext ha0
    rw [e, ez]
    linear_combination add_self (mk b hb')
  · rw [if_neg ha0] at h
    by_cases hb0 : b = 0
    · rw [if_pos hb0] at h
      injection h with h
      refine ⟨0, h, ?_⟩
      have ez : mk b hb' = 0 := R.ext hb0
      rw [ez]; ring
    · rw [if_neg hb0] at h
      simp only [] at h
      obtain ⟨T, hT1, hT2⟩ := div_ring hfo (mk b hb') ((mk a ha') ^ 2)
        (by rw [val_sq]; exact hg ha0)
      rw [val_sq] at hT1
      change T.1 = ppDivModV b (gfSqr f a) f at hT1
      rw [← hT1] at h
      by_cases htr : gf2TrV f m T.1 = true
      · rw [if_pos htr] at h; cases h
      · rw [if_neg htr] at h
        injection h with h
        have hm1 : 1 ≤ m := by omega
        have h0 : trSum T m = 0 := by
          apply R.ext
          rw [← gf2TrVal_eq T m hm1, val_zero]
          unfold gf2TrV at htr
          simpa using htr
        have hH := htr_eq hF hodd T h0
        have hl := gf2HtrLoop_eq T ((m - 1) / 2) 0
        have e1 : htrSum T (0 + 1) = T := by simp [htrSum]
        rw [e1, show 0 + 1 + (m - 1) / 2 = (m - 1) / 2 + 1 by omega] at hl
        rw [hl] at h
        generalize htrSum T ((m - 1) / 2 + 1) = H at *
        refine ⟨H * mk a ha', h, ?_⟩
        linear_combination (mk a ha') ^ 2 * hH + hT2 + add_self (mk b hb')

omit hf in
theorem qsolve_none' (f m a b : Nat) (hF : FrobFix f m) (hodd : m % 2 = 1) (hfo : f % 2 = 1)
    (ha : a < 2 ^ m) (hb : b < 2 ^ m) (hg : a ≠ 0 → pgcd (gfSqr f a) f = 1)
    (h : gf2QSolveV f m a b = none) :
    a ≠ 0 ∧ b ≠ 0 ∧ gf2TrVal f m (ppDivModV b (gfSqr f a) f) ≠ 0
      ∧ ∀ x, x < 2 ^ m → gfSqr f x ^^^ gfMul f a x ^^^ b ≠ 0 := by
  have : Fact (f ≠ 0) := ⟨hF.1⟩
  have hlog := hF.2.1
  have ha' : a < 2 ^ f.log2 := by rw [hlog]; exact ha
  have hb' : b < 2 ^ f.log2 := by rw [hlog]; exact hb
  have hm1 : 1 ≤ m := by omega
  unfold gf2QSolveV at h
  by_cases ha0 : a = 0
  · rw [if_pos ha0] at h; cases h
  · rw [if_neg ha0] at h
    by_cases hb0 : b = 0
    · rw [if_pos hb0] at h; cases h
    · rw [if_neg hb0] at h
      simp only [] at h
      have hgs : pgcd ((mk a ha') ^ 2).1 f = 1 := by rw [val_sq]; exact hg ha0
      obtain ⟨T, hT1, hT2⟩ := div_ring hfo (mk b hb') ((mk a ha') ^ 2) hgs
      obtain ⟨U, _, hU2⟩ := div_ring hfo (1 : R f) ((mk a ha') ^ 2) hgs
      rw [val_sq] at hT1
      change T.1 = ppDivModV b (gfSqr f a) f at hT1
      rw [← hT1] at h ⊢
      by_cases htr : gf2TrV f m T.1 = true
      · have hne : gf2TrVal f m T.1 ≠ 0 := by
          unfold gf2TrV at htr
          simpa using htr
        refine ⟨ha0, hb0, hne, ?_⟩
        intro x hx hq
        have hx' : x < 2 ^ f.log2 := by rw [hlog]; exact hx
        have hq' : (mk x hx') ^ 2 + mk a ha' * mk x hx' + mk b hb' = 0 := by
          apply R.ext
          rw [← qeq_val]
          exact hq
        generalize mk x hx' = X at hq'
        generalize mk a ha' = A at *
        generalize mk b hb' = B at *
        have hY : (X * U * A) ^ 2 + X * U * A = T := by
          linear_combination (X ^ 2 * U + T) * hU2 - U * hT2 + U * hq' - add_self (U * B)
        apply hne
        rw [gf2TrVal_eq T m hm1, ← hY, trSum_add, trSum_sq, trSum_idem hF, add_self]
        rfl
      · rw [if_neg htr] at h; cases h

end Bee2V.C05.Gf2

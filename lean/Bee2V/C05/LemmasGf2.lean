/-
C05 — helper lemmas for PropsGf2.lean: the ring GF(2)[x]/(f) on Nat codes as a `CommRing`
(so that `ring` / `linear_combination` do the algebra), trace / half-trace sums, and the
loops of ModelGf2.lean.  Everything lives in `namespace Bee2V.C05.Gf2`.
-/
import Bee2V.C05.ModelGf2
import Bee2V.C05.LemmasPp
import Mathlib.Algebra.Ring.Defs
import Mathlib.Algebra.Group.Basic
import Mathlib.Tactic.Ring
import Mathlib.Tactic.LinearCombination
set_option linter.unusedSectionVars false
namespace Bee2V.C05.Gf2
open Bee2V.C05 Bee2V.C05.Spec Bee2V.C05.Pp

/-! ## congruences modulo f, `pmod` as a ring homomorphism -/

theorem xor_mid (x y z : Nat) : x ^^^ z = (x ^^^ y) ^^^ (y ^^^ z) := by
  apply Nat.eq_of_testBit_eq; intro i; simp only [Nat.testBit_xor]
  cases x.testBit i <;> cases y.testBit i <;> cases z.testBit i <;> rfl

theorem cong_symm {md x y : Nat} (h : Cong md x y) : Cong md y x := by
  obtain ⟨k, hk⟩ := h
  exact ⟨k, by rw [Nat.xor_comm, hk]⟩

theorem cong_trans {md x y z : Nat} (h : Cong md x y) (h' : Cong md y z) : Cong md x z := by
  obtain ⟨k, hk⟩ := h
  obtain ⟨k', hk'⟩ := h'
  exact ⟨k ^^^ k', by rw [xor_mid x y z, hk, hk', xor_clmul]⟩

theorem cong_mul_right {md x y : Nat} (c : Nat) (h : Cong md x y) :
    Cong md (clmul x c) (clmul y c) := by
  obtain ⟨k, hk⟩ := h
  refine ⟨clmul c k, ?_⟩
  rw [← xor_clmul, hk, clmul_comm (clmul k md) c, ← clmul_assoc]

theorem cong_pmod {f : Nat} (hf : f ≠ 0) (x : Nat) : Cong f (pmod x f) x :=
  ⟨(pdivmod x f).1, by
    rw [pmod_eq x f hf, Nat.xor_comm x, Nat.xor_assoc, Nat.xor_self, Nat.xor_zero]⟩

theorem pmod_lt {f : Nat} (hf : f ≠ 0) (x : Nat) : pmod x f < 2 ^ f.log2 := (pdivmod_spec x f hf).2

theorem pmod_xor {f : Nat} (hf : f ≠ 0) (x y : Nat) : pmod (x ^^^ y) f = pmod x f ^^^ pmod y f := by
  have h := pmod_cong hf (cong_xor (cong_symm (cong_pmod hf x)) (cong_symm (cong_pmod hf y)))
  rw [h]
  exact pmod_of_lt hf (Nat.xor_lt_two_pow (pmod_lt hf x) (pmod_lt hf y))

theorem pmod_mul_left {f : Nat} (hf : f ≠ 0) (x c : Nat) :
    pmod (clmul (pmod x f) c) f = pmod (clmul x c) f :=
  pmod_cong hf (cong_mul_right c (cong_pmod hf x))

theorem pmod_mul_right {f : Nat} (hf : f ≠ 0) (c x : Nat) :
    pmod (clmul c (pmod x f)) f = pmod (clmul c x) f := by
  rw [clmul_comm, pmod_mul_left hf, clmul_comm]

theorem pmod_zero {f : Nat} (hf : f ≠ 0) : pmod 0 f = 0 := pmod_of_lt hf (Nat.two_pow_pos _)

/-! ## the ring -/

/-- reduced codes modulo f -/
def R (f : Nat) : Type := {x : Nat // x < 2 ^ f.log2}

variable {f : Nat} [hf : Fact (f ≠ 0)]

omit hf in
theorem R.ext {a b : R f} (h : a.1 = b.1) : a = b := Subtype.ext h

instance : Zero (R f) := ⟨⟨0, Nat.two_pow_pos _⟩⟩
instance : Add (R f) := ⟨fun a b => ⟨a.1 ^^^ b.1, Nat.xor_lt_two_pow a.2 b.2⟩⟩
instance : Neg (R f) := ⟨fun a => a⟩
instance : Mul (R f) := ⟨fun a b => ⟨gfMul f a.1 b.1, pmod_lt hf.out _⟩⟩
instance : One (R f) := ⟨⟨pmod 1 f, pmod_lt hf.out _⟩⟩

/-- an element from a reduced code -/
abbrev mk (x : Nat) (h : x < 2 ^ f.log2) : R f := ⟨x, h⟩

instance : CommRing (R f) where
  add := (· + ·)
  zero := 0
  neg := Neg.neg
  mul := (· * ·)
  one := 1
  add_assoc a b c := R.ext (Nat.xor_assoc _ _ _)
  zero_add a := R.ext (Nat.zero_xor _)
  add_zero a := R.ext (Nat.xor_zero _)
  add_comm a b := R.ext (Nat.xor_comm _ _)
  neg_add_cancel a := R.ext (Nat.xor_self _)
  nsmul := nsmulRec
  zsmul := zsmulRec
  mul_assoc a b c := R.ext (by
    show gfMul f (gfMul f a.1 b.1) c.1 = gfMul f a.1 (gfMul f b.1 c.1)
    unfold gfMul
    rw [pmod_mul_left hf.out, pmod_mul_right hf.out, clmul_assoc])
  one_mul a := R.ext (by
    show gfMul f (pmod 1 f) a.1 = a.1
    unfold gfMul
    rw [pmod_mul_left hf.out, one_clmul, pmod_of_lt hf.out a.2])
  mul_one a := R.ext (by
    show gfMul f a.1 (pmod 1 f) = a.1
    unfold gfMul
    rw [pmod_mul_right hf.out, clmul_one, pmod_of_lt hf.out a.2])
  left_distrib a b c := R.ext (by
    show gfMul f a.1 (b.1 ^^^ c.1) = gfMul f a.1 b.1 ^^^ gfMul f a.1 c.1
    unfold gfMul
    rw [clmul_xor, pmod_xor hf.out])
  right_distrib a b c := R.ext (by
    show gfMul f (a.1 ^^^ b.1) c.1 = gfMul f a.1 c.1 ^^^ gfMul f b.1 c.1
    unfold gfMul
    rw [xor_clmul, pmod_xor hf.out])
  zero_mul a := R.ext (by
    show gfMul f 0 a.1 = 0
    unfold gfMul
    rw [zero_clmul, pmod_zero hf.out])
  mul_zero a := R.ext (by
    show gfMul f a.1 0 = 0
    unfold gfMul
    rw [clmul_zero, pmod_zero hf.out])
  mul_comm a b := R.ext (by
    show gfMul f a.1 b.1 = gfMul f b.1 a.1
    unfold gfMul
    rw [clmul_comm])

theorem val_add (a b : R f) : (a + b).1 = a.1 ^^^ b.1 := rfl
theorem val_mul (a b : R f) : (a * b).1 = gfMul f a.1 b.1 := rfl
theorem val_zero : (0 : R f).1 = 0 := rfl
theorem val_one : (1 : R f).1 = pmod 1 f := rfl
theorem val_sq (a : R f) : (a ^ 2).1 = gfSqr f a.1 := by rw [sq]; rfl

/-- characteristic 2 -/
theorem add_self (a : R f) : a + a = 0 := R.ext (Nat.xor_self _)

theorem add_sq (x y : R f) : (x + y) ^ 2 = x ^ 2 + y ^ 2 := by
  linear_combination add_self (x * y)

theorem pow_two_pow_succ (x : R f) (k : Nat) : x ^ 2 ^ (k + 1) = (x ^ 2 ^ k) ^ 2 := by
  rw [pow_succ, pow_mul]

theorem add_pow_two_pow (x y : R f) (k : Nat) : (x + y) ^ 2 ^ k = x ^ 2 ^ k + y ^ 2 ^ k := by
  induction k with
  | zero => simp
  | succ k ih => rw [pow_two_pow_succ, ih, add_sq, ← pow_two_pow_succ, ← pow_two_pow_succ]

/-! ## trace and half-trace sums -/

/-- `Σ_{i<k} a^(2^i)` -/
def trSum (a : R f) : Nat → R f
  | 0 => 0
  | k + 1 => trSum a k + a ^ 2 ^ k

/-- `Σ_{i<k} t^(4^i)` -/
def htrSum (t : R f) : Nat → R f
  | 0 => 0
  | k + 1 => htrSum t k + t ^ 2 ^ (2 * k)

theorem trSum_sq_add (a : R f) (j : Nat) : (trSum a j) ^ 2 + a = trSum a (j + 1) := by
  induction j with
  | zero => simp [trSum]
  | succ j ih =>
    have e : trSum a (j + 1 + 1) = trSum a (j + 1) + a ^ 2 ^ (j + 1) := rfl
    have e2 : trSum a (j + 1) = trSum a j + a ^ 2 ^ j := rfl
    rw [e]
    calc (trSum a (j + 1)) ^ 2 + a = (trSum a j + a ^ 2 ^ j) ^ 2 + a := by rw [e2]
      _ = ((trSum a j) ^ 2 + a) + a ^ 2 ^ (j + 1) := by rw [add_sq, pow_two_pow_succ]; ring
      _ = trSum a (j + 1) + a ^ 2 ^ (j + 1) := by rw [ih]

theorem trSum_add (a b : R f) (k : Nat) : trSum (a + b) k = trSum a k + trSum b k := by
  induction k with
  | zero => simp [trSum]
  | succ k ih =>
    simp only [trSum, ih, add_pow_two_pow]
    ring

theorem trSum_sq (a : R f) (k : Nat) : trSum (a ^ 2) k = (trSum a k) ^ 2 := by
  induction k with
  | zero => simp [trSum]
  | succ k ih =>
    simp only [trSum, ih, add_sq]
    rw [← pow_mul, ← pow_mul, Nat.mul_comm]

theorem htrSum_pow4_add (t : R f) (j : Nat) : ((htrSum t j) ^ 2) ^ 2 + t = htrSum t (j + 1) := by
  induction j with
  | zero => simp [htrSum]
  | succ j ih =>
    have e : htrSum t (j + 1 + 1) = htrSum t (j + 1) + t ^ 2 ^ (2 * (j + 1)) := rfl
    have e2 : htrSum t (j + 1) = htrSum t j + t ^ 2 ^ (2 * j) := rfl
    rw [e]
    calc ((htrSum t (j + 1)) ^ 2) ^ 2 + t = ((htrSum t j + t ^ 2 ^ (2 * j)) ^ 2) ^ 2 + t := by rw [e2]
      _ = (((htrSum t j) ^ 2) ^ 2 + t) + t ^ 2 ^ (2 * (j + 1)) := by
        rw [add_sq, add_sq, show 2 * (j + 1) = 2 * j + 1 + 1 by ring, pow_two_pow_succ,
          pow_two_pow_succ]
        ring
      _ = htrSum t (j + 1) + t ^ 2 ^ (2 * (j + 1)) := by rw [ih]

theorem htrSum_sq_add (t : R f) (j : Nat) : (htrSum t j) ^ 2 + htrSum t j = trSum t (2 * j) := by
  induction j with
  | zero => simp [htrSum, trSum]
  | succ j ih =>
    have e : trSum t (2 * (j + 1)) = trSum t (2 * j) + t ^ 2 ^ (2 * j) + t ^ 2 ^ (2 * j + 1) := rfl
    have e2 : htrSum t (j + 1) = htrSum t j + t ^ 2 ^ (2 * j) := rfl
    rw [e, e2, add_sq, ← ih, pow_two_pow_succ]
    ring

/-! ## the loops of the model in ring terms -/

theorem gf2SqrN_eq (x : R f) (k : Nat) : gf2SqrN f k x.1 = (x ^ 2 ^ k).1 := by
  induction k generalizing x with
  | zero => simp [gf2SqrN]
  | succ k ih =>
    unfold gf2SqrN
    rw [← val_sq, ih, ← pow_mul, pow_succ, Nat.mul_comm]

theorem gf2TrLoop_eq (a : R f) (k j : Nat) :
    gf2TrLoop f a.1 k (trSum a (j + 1)).1 = (trSum a (j + 1 + k)).1 := by
  induction k generalizing j with
  | zero => rfl
  | succ k ih =>
    unfold gf2TrLoop
    rw [← val_sq, ← val_add, trSum_sq_add, ih]
    congr 2; omega

theorem gf2TrVal_eq (a : R f) (m : Nat) (hm : 1 ≤ m) : gf2TrVal f m a.1 = (trSum a m).1 := by
  unfold gf2TrVal
  have h := gf2TrLoop_eq a (m - 1) 0
  have e : trSum a (0 + 1) = a := by simp [trSum]
  rw [e] at h
  rw [h]
  congr 2; omega

theorem gf2HtrLoop_eq (t : R f) (k j : Nat) :
    gf2HtrLoop f t.1 k (htrSum t (j + 1)).1 = (htrSum t (j + 1 + k)).1 := by
  induction k generalizing j with
  | zero => rfl
  | succ k ih =>
    unfold gf2HtrLoop
    rw [← val_sq, ← val_sq, ← val_add, htrSum_pow4_add, ih]
    congr 2; omega

/-! ## hypotheses about f that irreducibility of degree m provides -/

/-- Frobenius^m fixes every element: `x^(2^m) = x` in GF(2)[x]/(f), m = deg f -/
def FrobFix (f m : Nat) : Prop := f ≠ 0 ∧ f.log2 = m ∧ ∀ x, x < 2 ^ m → gf2SqrN f m x = x

/-- GF(2)[x]/(f) has no zero divisors -/
def NoZeroDiv (f m : Nat) : Prop := ∀ x y, x < 2 ^ m → y < 2 ^ m → gfMul f x y = 0 → x = 0 ∨ y = 0

/-- the Nat-level sum `Σ_{i<k} a^(2^i) mod f` -/
def gf2TrSum (f a : Nat) : Nat → Nat
  | 0 => 0
  | k + 1 => gf2TrSum f a k ^^^ gf2SqrN f k a

theorem gf2TrSum_eq (a : R f) (k : Nat) : gf2TrSum f a.1 k = (trSum a k).1 := by
  induction k with
  | zero => rfl
  | succ k ih => unfold gf2TrSum trSum; rw [ih, gf2SqrN_eq, val_add]

theorem frobFix_ring {m : Nat} (h : FrobFix f m) (x : R f) : x ^ 2 ^ m = x := by
  obtain ⟨_, h2, h3⟩ := h
  apply R.ext
  rw [← gf2SqrN_eq]
  exact h3 x.1 (by rw [← h2]; exact x.2)

/-- `Tr(a)^2 = Tr(a)` -/
theorem trSum_idem {m : Nat} (h : FrobFix f m) (a : R f) : (trSum a m) ^ 2 = trSum a m := by
  have h1 := trSum_sq_add a m
  have h2 : trSum a (m + 1) = trSum a m + a ^ 2 ^ m := rfl
  rw [h2, frobFix_ring h] at h1
  linear_combination h1

/-! ## Nat-level statements about gf2Tr -/

theorem trVal_nat (a : Nat) (ha : a < 2 ^ f.log2) (m : Nat) (hm : 1 ≤ m) :
    gf2TrVal f m a = (trSum (mk a ha) m).1 := gf2TrVal_eq (mk a ha) m hm

omit hf in
theorem trVal_sum' (f a m : Nat) (hf0 : f ≠ 0) (ha : a < 2 ^ f.log2) (hm : 1 ≤ m) :
    gf2TrVal f m a = gf2TrSum f a m := by
  have : Fact (f ≠ 0) := ⟨hf0⟩
  rw [trVal_nat a ha m hm]
  exact (gf2TrSum_eq (mk a ha) m).symm

omit hf in
theorem trVal_add' (f a b m : Nat) (hf0 : f ≠ 0) (ha : a < 2 ^ f.log2) (hb : b < 2 ^ f.log2)
    (hm : 1 ≤ m) : gf2TrVal f m (a ^^^ b) = gf2TrVal f m a ^^^ gf2TrVal f m b := by
  have : Fact (f ≠ 0) := ⟨hf0⟩
  have h : gf2TrVal f m (a ^^^ b) = _ := gf2TrVal_eq (mk a ha + mk b hb) m hm
  rw [trSum_add] at h
  rw [trVal_nat a ha m hm, trVal_nat b hb m hm]
  exact h

omit hf in
theorem trVal_sqr' (f a m : Nat) (hF : FrobFix f m) (ha : a < 2 ^ m) (hm : 1 ≤ m) :
    gf2TrVal f m (gfSqr f a) = gf2TrVal f m a := by
  have : Fact (f ≠ 0) := ⟨hF.1⟩
  have ha' : a < 2 ^ f.log2 := by rw [hF.2.1]; exact ha
  have h := gf2TrVal_eq ((mk a ha') ^ 2) m hm
  rw [trSum_sq, trSum_idem hF, val_sq] at h
  rw [trVal_nat a ha' m hm]
  exact h

omit hf in
theorem trVal_bit' (f a m : Nat) (hF : FrobFix f m) (hZ : NoZeroDiv f m) (ha : a < 2 ^ m)
    (hm : 1 ≤ m) : gf2TrVal f m a = 0 ∨ gf2TrVal f m a = 1 := by
  have : Fact (f ≠ 0) := ⟨hF.1⟩
  have hlog := hF.2.1
  have ha' : a < 2 ^ f.log2 := by rw [hlog]; exact ha
  rw [trVal_nat a ha' m hm]
  have hT := trSum_idem hF (mk a ha')
  generalize trSum (mk a ha') m = T at *
  have h0 : T * (T + 1) = 0 := by linear_combination hT + add_self T
  have h1 := congrArg Subtype.val h0
  rw [val_mul, val_zero] at h1
  have hone : pmod 1 f = 1 := pmod_of_lt hF.1 (by
    rw [hlog]
    calc 1 < 2 ^ 1 := by decide
      _ ≤ 2 ^ m := Nat.pow_le_pow_right (by decide) hm)
  rcases hZ _ _ (by rw [← hlog]; exact T.2) (by rw [← hlog]; exact (T + 1).2) h1 with h | h
  · exact Or.inl h
  · right
    rw [val_add, val_one, hone] at h
    exact xor_eq_zero_iff.1 h

/-! ## gf2QSolve -/

/-- the Nat-level left-hand side `x^2 + a x + b` is the ring expression -/
theorem qeq_val (X A B : R f) :
    gfSqr f X.1 ^^^ gfMul f A.1 X.1 ^^^ B.1 = (X ^ 2 + A * X + B).1 := by
  rw [val_add, val_add, val_sq, val_mul]

/-- the quotient computed by ppDivModV, in ring terms -/
theorem div_ring (hfo : f % 2 = 1) (dv s : R f) (hg : pgcd s.1 f = 1) :
    ∃ T : R f, T.1 = ppDivModV dv.1 s.1 f ∧ T * s = dv := by
  have h := (divModV_spec dv.1 s.1 f hfo
    (Nat.lt_of_lt_of_le dv.2 (Nat.pow_le_pow_right (by decide) (Nat.le_succ _)))).1 hg
  rw [pmod_of_lt hf.out dv.2] at h
  exact ⟨⟨ppDivModV dv.1 s.1 f, h.2⟩, rfl, R.ext h.1⟩

theorem htr_eq {m : Nat} (hF : FrobFix f m) (hodd : m % 2 = 1) (T : R f) (h0 : trSum T m = 0) :
    (htrSum T ((m - 1) / 2 + 1)) ^ 2 + htrSum T ((m - 1) / 2 + 1) = T := by
  rw [htrSum_sq_add]
  have e : 2 * ((m - 1) / 2 + 1) = m + 1 := by omega
  rw [e]
  have : trSum T (m + 1) = trSum T m + T ^ 2 ^ m := rfl
  rw [this, h0, frobFix_ring hF, zero_add]

omit hf in
theorem qsolve_sound' (f m a b x : Nat) (hF : FrobFix f m) (hodd : m % 2 = 1) (hfo : f % 2 = 1)
    (ha : a < 2 ^ m) (hb : b < 2 ^ m) (hg : a ≠ 0 → pgcd (gfSqr f a) f = 1)
    (h : gf2QSolveV f m a b = some x) :
    x < 2 ^ m ∧ gfSqr f x ^^^ gfMul f a x ^^^ b = 0 := by
  have : Fact (f ≠ 0) := ⟨hF.1⟩
  have hlog := hF.2.1
  have ha' : a < 2 ^ f.log2 := by rw [hlog]; exact ha
  have hb' : b < 2 ^ f.log2 := by rw [hlog]; exact hb
  suffices hs : ∃ X : R f, X.1 = x ∧ X ^ 2 + mk a ha' * X + mk b hb' = 0 by
    obtain ⟨X, hX, hq⟩ := hs
    have := qeq_val X (mk a ha') (mk b hb')
    rw [hq, hX] at this
    exact ⟨by rw [← hX, ← hlog]; exact X.2, this⟩
  unfold gf2QSolveV at h
  by_cases ha0 : a = 0
  · rw [if_pos ha0] at h
    injection h with h
    refine ⟨(mk b hb') ^ 2 ^ (m - 1), by rw [← h]; exact (gf2SqrN_eq (mk b hb') (m - 1)).symm, ?_⟩
    have e : ((mk b hb') ^ 2 ^ (m - 1)) ^ 2 = mk b hb' := by
      rw [← pow_two_pow_succ, show m - 1 + 1 = m by omega, frobFix_ring hF]
    have ez : mk a ha' = 0 := R.ext ha0
    rw [e, ez]
    linear_combination add_self (mk b hb')
  · rw [if_neg ha0] at h
    by_cases hb0 : b = 0
    · rw [if_pos hb0] at h
      injection h with h
      refine ⟨0, h, ?_⟩
      have ez : mk b hb' = 0 := R.ext hb0
      rw [ez]; ring
    · rw [if_neg hb0] at h
      simp only [] at h
      obtain ⟨T, hT1, hT2⟩ := div_ring hfo (mk b hb') ((mk a ha') ^ 2)
        (by rw [val_sq]; exact hg ha0)
      rw [val_sq] at hT1
      change T.1 = ppDivModV b (gfSqr f a) f at hT1
      rw [← hT1] at h
      by_cases htr : gf2TrV f m T.1 = true
      · rw [if_pos htr] at h; cases h
      · rw [if_neg htr] at h
        injection h with h
        have hm1 : 1 ≤ m := by omega
        have h0 : trSum T m = 0 := by
          apply R.ext
          rw [← gf2TrVal_eq T m hm1, val_zero]
          unfold gf2TrV at htr
          simpa using htr
        have hH := htr_eq hF hodd T h0
        have hl := gf2HtrLoop_eq T ((m - 1) / 2) 0
        have e1 : htrSum T (0 + 1) = T := by simp [htrSum]
        rw [e1, show 0 + 1 + (m - 1) / 2 = (m - 1) / 2 + 1 by omega] at hl
        rw [hl] at h
        generalize htrSum T ((m - 1) / 2 + 1) = H at *
        refine ⟨H * mk a ha', h, ?_⟩
        linear_combination (mk a ha') ^ 2 * hH + hT2 + add_self (mk b hb')

omit hf in
theorem qsolve_none' (f m a b : Nat) (hF : FrobFix f m) (hodd : m % 2 = 1) (hfo : f % 2 = 1)
    (ha : a < 2 ^ m) (hb : b < 2 ^ m) (hg : a ≠ 0 → pgcd (gfSqr f a) f = 1)
    (h : gf2QSolveV f m a b = none) :
    a ≠ 0 ∧ b ≠ 0 ∧ gf2TrVal f m (ppDivModV b (gfSqr f a) f) ≠ 0
      ∧ ∀ x, x < 2 ^ m → gfSqr f x ^^^ gfMul f a x ^^^ b ≠ 0 := by
  have : Fact (f ≠ 0) := ⟨hF.1⟩
  have hlog := hF.2.1
  have ha' : a < 2 ^ f.log2 := by rw [hlog]; exact ha
  have hb' : b < 2 ^ f.log2 := by rw [hlog]; exact hb
  have hm1 : 1 ≤ m := by omega
  unfold gf2QSolveV at h
  by_cases ha0 : a = 0
  · rw [if_pos ha0] at h; cases h
  · rw [if_neg ha0] at h
    by_cases hb0 : b = 0
    · rw [if_pos hb0] at h; cases h
    · rw [if_neg hb0] at h
      simp only [] at h
      have hgs : pgcd ((mk a ha') ^ 2).1 f = 1 := by rw [val_sq]; exact hg ha0
      obtain ⟨T, hT1, hT2⟩ := div_ring hfo (mk b hb') ((mk a ha') ^ 2) hgs
      obtain ⟨U, _, hU2⟩ := div_ring hfo (1 : R f) ((mk a ha') ^ 2) hgs
      rw [val_sq] at hT1
      change T.1 = ppDivModV b (gfSqr f a) f at hT1
      rw [← hT1] at h ⊢
      by_cases htr : gf2TrV f m T.1 = true
      · have hne : gf2TrVal f m T.1 ≠ 0 := by
          unfold gf2TrV at htr
          simpa using htr
        refine ⟨ha0, hb0, hne, ?_⟩
        intro x hx hq
        have hx' : x < 2 ^ f.log2 := by rw [hlog]; exact hx
        have hq' : (mk x hx') ^ 2 + mk a ha' * mk x hx' + mk b hb' = 0 := by
          apply R.ext
          rw [← qeq_val]
          exact hq
        generalize mk x hx' = X at hq'
        generalize mk a ha' = A at *
        generalize mk b hb' = B at *
        have hY : (X * U * A) ^ 2 + X * U * A = T := by
          linear_combination (X ^ 2 * U + T) * hU2 - U * hT2 + U * hq' - add_self (U * B)
        apply hne
        rw [gf2TrVal_eq T m hm1, ← hY, trSum_add, trSum_sq, trSum_idem hF, add_self]
        rfl
      · rw [if_neg htr] at h; cases h

/-! ## ppMinPoly -/

/-- invariant of the Euclid loop of ppMinPoly (a' = the trimmed sequence word, X = x^(2l)) -/
structure MPInv (l a' aa bb da db : Nat) : Prop where
  c1 : Cong (2 ^ (2 * l)) (clmul da a') aa
  c2 : Cong (2 ^ (2 * l)) (clmul db a') bb
  da0 : da ≠ 0
  bb0 : bb ≠ 0
  deg : da.log2 + bb.log2 = 2 * l
  dbl : db < 2 ^ da.log2
  aal : aa < 2 ^ bb.log2
  bbl : l ≤ bb.log2
  det : clmul da bb ^^^ clmul db aa = 2 ^ (2 * l)

omit hf in
theorem cong_mul_left {md x y : Nat} (c : Nat) (h : Cong md x y) :
    Cong md (clmul c x) (clmul c y) := by
  rw [clmul_comm c x, clmul_comm c y]; exact cong_mul_right c h

omit hf in
theorem mpInv_step {l a' aa bb da db : Nat} (h : MPInv l a' aa bb da db) (haa : aa ≠ 0)
    (hdeg : aa.log2 + 1 > l) :
    MPInv l a' (pdivmod bb aa).2 aa (db ^^^ clmul (pdivmod bb aa).1 da) da := by
  obtain ⟨c1, c2, da0, bb0, deg, dbl, aal, bbl, det⟩ := h
  obtain ⟨hq, hr⟩ := pdivmod_spec bb aa haa
  generalize (pdivmod bb aa).1 = q at *
  generalize (pdivmod bb aa).2 = r at *
  -- q ≠ 0 and deg q = deg bb - deg aa
  have hq0 : q ≠ 0 := by
    rintro rfl
    rw [zero_clmul, Nat.zero_xor] at hq
    subst hq
    have : 2 ^ aa.log2 ≤ 2 ^ r.log2 :=
      Nat.pow_le_pow_right (by decide) (Nat.le_of_lt ((Nat.log2_lt haa).2 aal))
    have := Nat.log2_self_le bb0
    omega
  have hqa0 := clmul_ne_zero hq0 haa
  have hlq := log2_clmul hq0 haa
  have hrl : r < 2 ^ (clmul q aa).log2 := by
    rw [hlq]
    exact Nat.lt_of_lt_of_le hr (Nat.pow_le_pow_right (by decide) (Nat.le_add_left _ _))
  have hbbl : bb.log2 = q.log2 + aa.log2 := by
    have := (log2_xor_of_lt hqa0 hrl).2
    rw [Nat.xor_comm, hq, hlq] at this
    exact this
  have hqd0 := clmul_ne_zero hq0 da0
  have hlqd := log2_clmul hq0 da0
  have hq1 : 1 ≤ q.log2 := by
    have := (Nat.log2_lt haa).2 aal
    omega
  have hdbl' : db < 2 ^ (clmul q da).log2 := by
    rw [hlqd]
    exact Nat.lt_of_lt_of_le dbl (Nat.pow_le_pow_right (by decide) (Nat.le_add_left _ _))
  obtain ⟨hn0, hnl⟩ := log2_xor_of_lt hqd0 hdbl'
  refine ⟨?_, c1, hn0, haa, ?_, ?_, hr, by omega, ?_⟩
  · -- (db + q da) a' ≡ bb + q aa = r
    rw [xor_clmul]
    have h1 : Cong (2 ^ (2 * l)) (clmul (clmul q da) a') (clmul q aa) := by
      rw [clmul_assoc]; exact cong_mul_left q c1
    have h2 := cong_xor c2 h1
    have e : bb ^^^ clmul q aa = r := by
      rw [← hq, Nat.xor_comm (clmul q aa) r, Nat.xor_assoc, Nat.xor_self, Nat.xor_zero]
    rw [e] at h2
    exact h2
  · rw [hnl, hlqd]; omega
  · rw [hnl, hlqd]
    calc da < 2 ^ (da.log2 + 1) := Nat.lt_log2_self
      _ ≤ 2 ^ (q.log2 + da.log2) := Nat.pow_le_pow_right (by decide) (by omega)
  · -- determinant
    have e : clmul q (clmul da aa) = clmul da (clmul q aa) := by
      rw [← clmul_assoc, clmul_comm q da, clmul_assoc]
    rw [xor_clmul, ← det, ← hq, clmul_xor, clmul_assoc, e]
    apply Nat.eq_of_testBit_eq; intro i; simp only [Nat.testBit_xor]
    cases (clmul db aa).testBit i <;> cases (clmul da (clmul q aa)).testBit i <;>
      cases (clmul da r).testBit i <;> rfl

omit hf in
theorem mpLoop_spec (l a' : Nat) : ∀ (fu aa bb da db : Nat), MPInv l a' aa bb da db →
    (aa = 0 ∨ aa.log2 + 1 ≤ fu) →
    ∃ aa' bb' db', MPInv l a' aa' bb' (ppMinPolyLoop l fu aa bb da db) db'
      ∧ (aa' = 0 ∨ aa'.log2 + 1 ≤ l) := by
  intro fu
  induction fu with
  | zero =>
    intro aa bb da db h hfu
    exact ⟨aa, bb, db, h, Or.inl (by omega)⟩
  | succ fu ih =>
    intro aa bb da db h hfu
    unfold ppMinPolyLoop
    by_cases hc : aa ≠ 0 ∧ aa.log2 + 1 > l
    · rw [if_pos hc]
      simp only []
      have hs := mpInv_step h hc.1 hc.2
      apply ih _ _ _ _ hs
      have hr := (pdivmod_spec bb aa hc.1).2
      by_cases h0 : (pdivmod bb aa).2 = 0
      · exact Or.inl h0
      · right
        have := (Nat.log2_lt h0).2 hr
        omega
    · rw [if_neg hc]
      refine ⟨aa, bb, db, h, ?_⟩
      by_cases h0 : aa = 0
      · exact Or.inl h0
      · right
        have : ¬ aa.log2 + 1 > l := fun h' => hc ⟨h0, h'⟩
        omega

omit hf in
theorem cong_two_pow_mod {k u r : Nat} (h : Cong (2 ^ k) u r) (hr : r < 2 ^ k) : u % 2 ^ k = r := by
  obtain ⟨j, hj⟩ := h
  rw [clmul_two_pow, Nat.shiftLeft_eq] at hj
  have hu : u = r ^^^ j * 2 ^ k := by
    rw [← hj]
    apply Nat.eq_of_testBit_eq; intro i; simp only [Nat.testBit_xor]
    cases u.testBit i <;> cases r.testBit i <;> rfl
  rw [hu, Nat.xor_mod_two_pow, Nat.mul_mod_left, Nat.xor_zero, Nat.mod_eq_of_lt hr]

omit hf in
theorem minPolyV_spec' (a l : Nat) (hl : 1 ≤ l) :
    ppMinPolyV a l ≠ 0 ∧ (ppMinPolyV a l).log2 ≤ l
      ∧ clmul (ppMinPolyV a l) (a % 2 ^ (2 * l)) % 2 ^ (2 * l) < 2 ^ l := by
  have hX0 : (2 : Nat) ^ (2 * l) ≠ 0 := Nat.pos_iff_ne_zero.1 (Nat.two_pow_pos _)
  have hinit : MPInv l (a % 2 ^ (2 * l)) (a % 2 ^ (2 * l)) (2 ^ (2 * l)) 1 0 :=
    ⟨by rw [one_clmul]; exact cong_refl _ _,
     ⟨1, by rw [zero_clmul, one_clmul, Nat.zero_xor]⟩,
     by decide, hX0, by rw [Nat.log2_two_pow, show Nat.log2 1 = 0 by decide]; simp,
     by rw [show Nat.log2 1 = 0 by decide]; decide,
     by rw [Nat.log2_two_pow]; exact Nat.mod_lt _ (Nat.two_pow_pos _),
     by rw [Nat.log2_two_pow]; omega,
     by rw [one_clmul, zero_clmul, Nat.xor_zero]⟩
  have hfu : a % 2 ^ (2 * l) = 0 ∨ (a % 2 ^ (2 * l)).log2 + 1 ≤ 2 * l + 1 := by
    by_cases h0 : a % 2 ^ (2 * l) = 0
    · exact Or.inl h0
    · right
      have := (Nat.log2_lt h0).2 (Nat.mod_lt a (Nat.two_pow_pos (2 * l)))
      omega
  obtain ⟨aa', bb', db', hI, hex⟩ := mpLoop_spec l _ _ _ _ _ _ hinit hfu
  change MPInv l _ aa' bb' (ppMinPolyV a l) db' at hI
  have haal : aa' < 2 ^ l := by
    rcases hex with h | h
    · rw [h]; exact Nat.two_pow_pos _
    · by_cases h0 : aa' = 0
      · rw [h0]; exact Nat.two_pow_pos _
      · exact (Nat.log2_lt h0).1 (by omega)
  refine ⟨hI.da0, by have := hI.deg; have := hI.bbl; omega, ?_⟩
  have hlt : aa' < 2 ^ (2 * l) :=
    Nat.lt_of_lt_of_le haal (Nat.pow_le_pow_right (by decide) (by omega))
  rw [cong_two_pow_mod hI.c1 hlt]
  exact haal

/-! ## ppIsIrred = Spec.pIsIrred -/

/-- one Ben-Or test of the specification: from y to y' = y^2 mod a, gcd(a, y' + x) = 1 -/
def specStep (a x : Nat) (st : Nat × Bool) : Nat × Bool :=
  if !st.2 then st else
  let y := pmod (psqr st.1) a
  (y, pgcd a (y ^^^ x) == 1)

/-- the specification loop as a recursion: k tests starting after y -/
def specLoop (a x : Nat) : Nat → Nat → Bool
  | 0, _ => true
  | k + 1, y =>
    let y' := pmod (psqr y) a
    if pgcd a (y' ^^^ x) = 1 then specLoop a x k y' else false

omit hf in
theorem foldl_const {σ : Type} (g : σ → σ) (l : List Nat) (s : σ) :
    l.foldl (fun st _ => g st) s = Nat.iterate g l.length s := by
  induction l generalizing s with
  | nil => rfl
  | cons x xs ih => simp only [List.foldl_cons, List.length_cons, Function.iterate_succ, Function.comp]; exact ih _

omit hf in
theorem iterate_false (a x : Nat) (k y : Nat) : (Nat.iterate (specStep a x) k (y, false)).2 = false := by
  induction k with
  | zero => rfl
  | succ k ih => rw [Function.iterate_succ, Function.comp]; exact ih

omit hf in
theorem iterate_spec (a x : Nat) (k y : Nat) :
    (Nat.iterate (specStep a x) k (y, true)).2 = specLoop a x k y := by
  induction k generalizing y with
  | zero => rfl
  | succ k ih =>
    rw [Function.iterate_succ, Function.comp]
    unfold specLoop
    have e : specStep a x (y, true) = (pmod (psqr y) a, pgcd a (pmod (psqr y) a ^^^ x) == 1) := rfl
    rw [e]
    by_cases hc : pgcd a (pmod (psqr y) a ^^^ x) = 1
    · simp only [hc, beq_self_eq_true, if_true]; exact ih _
    · have hb : (pgcd a (pmod (psqr y) a ^^^ x) == 1) = false := by simpa using hc
      simp only [hb, hc, if_false]; exact iterate_false a x k _

omit hf in
theorem isPGcd_cong {g a u v : Nat} (h : Cong a u v) (hg : IsPGcd g u a) : IsPGcd g a v := by
  obtain ⟨k, hk⟩ := h
  have hv : v = u ^^^ clmul k a := by
    rw [← hk]; apply Nat.eq_of_testBit_eq; intro i; simp only [Nat.testBit_xor]
    cases u.testBit i <;> cases v.testBit i <;> rfl
  have hu : u = v ^^^ clmul k a := by
    rw [← hk]; apply Nat.eq_of_testBit_eq; intro i; simp only [Nat.testBit_xor]
    cases u.testBit i <;> cases v.testBit i <;> rfl
  obtain ⟨g1, g2, g3⟩ := hg
  refine ⟨g2, by rw [hv]; exact pdvd_xor g1 (pdvd_mul k g2), fun d da dv => g3 d ?_ da⟩
  rw [hu]; exact pdvd_xor dv (pdvd_mul k da)

omit hf in
/-- the test of one turn of the C loop equals the test of the specification -/
theorem irred_test (a h : Nat) (ha : 1 < a) :
    (¬ (h ^^^ 2 = 0) ∧ ¬ (ppGCDV (h ^^^ 2) a ≠ 1)) ↔ pgcd a (pmod h a ^^^ pmod 2 a) = 1 := by
  have ha0 : a ≠ 0 := by omega
  have hc : Cong a (h ^^^ 2) (pmod h a ^^^ pmod 2 a) :=
    cong_xor (cong_symm (cong_pmod ha0 h)) (cong_symm (cong_pmod ha0 2))
  by_cases h0 : h ^^^ 2 = 0
  · have hI : IsPGcd a a (pmod h a ^^^ pmod 2 a) := by
      have : IsPGcd a (h ^^^ 2) a := by
        rw [h0]; exact ⟨pdvd_zero a, pdvd_refl a, fun d _ h2 => h2⟩
      exact isPGcd_cong hc this
    have := isPGcd_unique (pgcd_spec a (pmod h a ^^^ pmod 2 a)) hI
    constructor
    · intro hh; exact absurd h0 hh.1
    · intro hh; omega
  · have h1 := gcdV_eq_pgcd h0 ha0
    have hI := isPGcd_cong hc (pgcd_spec (h ^^^ 2) a)
    have := isPGcd_unique (pgcd_spec a (pmod h a ^^^ pmod 2 a)) hI
    rw [h1, ← this]
    constructor
    · intro hh; exact not_not.1 hh.2
    · intro hh; exact ⟨h0, not_not.2 hh⟩

omit hf in
theorem irredLoop_eq (a : Nat) (ha : 1 < a) : ∀ (k h y : Nat), pmod h a = pmod (psqr y) a →
    ppIsIrredLoop a k h = specLoop a (pmod 2 a) k y := by
  have ha0 : a ≠ 0 := by omega
  intro k
  induction k with
  | zero => intro h y _; rfl
  | succ k ih =>
    intro h y hy
    unfold ppIsIrredLoop specLoop
    simp only []
    have ht := irred_test a h ha
    rw [hy] at ht
    by_cases hc : pgcd a (pmod (psqr y) a ^^^ pmod 2 a) = 1
    · obtain ⟨t1, t2⟩ := ht.2 hc
      rw [if_neg t1, if_neg t2, if_pos hc]
      have hh : h ^^^ 2 ^^^ 2 = h := by rw [Nat.xor_assoc, Nat.xor_self, Nat.xor_zero]
      rw [hh]
      cases k with
      | zero => rfl
      | succ k' =>
        apply ih
        rw [if_pos (by omega), pmod_of_lt ha0 (pmod_lt ha0 _), ← hy]
        unfold psqr
        rw [pmod_mul_left ha0, pmod_mul_right ha0]
    · rw [if_neg hc]
      by_cases t1 : h ^^^ 2 = 0
      · rw [if_pos t1]
      · rw [if_neg t1]
        have t2 : ppGCDV (h ^^^ 2) a ≠ 1 := by
          intro h'
          exact hc (ht.1 ⟨t1, not_not.2 h'⟩)
        rw [if_pos t2]

omit hf in
theorem isIrredV_eq' (a : Nat) : ppIsIrredV a = pIsIrred a := by
  unfold ppIsIrredV pIsIrred pdeg
  by_cases h0 : a = 0
  · subst h0; rfl
  · rw [if_neg h0]
    by_cases h1 : a = 1
    · subst h1; rfl
    · have ha : 1 < a := by omega
      rw [if_neg (by omega)]
      have hl : a.log2 ≠ 0 := by
        have := (Nat.le_log2 h0 (k := 1)).2 (by omega)
        omega
      obtain ⟨n, hn⟩ := Nat.exists_eq_succ_of_ne_zero hl
      rw [hn]
      simp only []
      have := foldl_const (specStep a (pmod 2 a)) (List.range ((n + 1) / 2)) (pmod 2 a, true)
      rw [List.length_range] at this
      change _ = ((List.range ((n + 1) / 2)).foldl (fun st _ => specStep a (pmod 2 a) st) (pmod 2 a, true)).2
      rw [this, iterate_spec]
      apply irredLoop_eq a ha
      unfold psqr
      have ha0 : a ≠ 0 := h0
      rw [pmod_mul_left ha0, pmod_mul_right ha0]
      rfl

/-! ### minimality of the result of ppMinPoly -/

omit hf in
theorem clmul_lt_pow {u v s : Nat} (h : u = 0 ∨ v = 0 ∨ u.log2 + v.log2 < s) : clmul u v < 2 ^ s := by
  rcases h with h | h | h
  · subst h; rw [zero_clmul]; exact Nat.two_pow_pos _
  · subst h; rw [clmul_zero]; exact Nat.two_pow_pos _
  · by_cases hu : u = 0
    · subst hu; rw [zero_clmul]; exact Nat.two_pow_pos _
    by_cases hv : v = 0
    · subst hv; rw [clmul_zero]; exact Nat.two_pow_pos _
    exact (Nat.log2_lt (clmul_ne_zero hu hv)).1 (by rw [log2_clmul hu hv]; exact h)

omit hf in
theorem log2_lt_of_lt_pow {x l : Nat} (h : x < 2 ^ l) (hx : x ≠ 0) : x.log2 < l :=
  (Nat.log2_lt hx).2 h

omit hf in
/-- a multiple of x^k below x^k is 0 -/
theorem eq_of_cong_lt {k u v : Nat} (h : Cong (2 ^ k) u v) (hu : u < 2 ^ k) (hv : v < 2 ^ k) : u = v := by
  obtain ⟨j, hj⟩ := h
  rw [clmul_two_pow, Nat.shiftLeft_eq] at hj
  have hlt : u ^^^ v < 2 ^ k := Nat.xor_lt_two_pow hu hv
  have hj0 : j = 0 := by
    rcases Nat.eq_zero_or_pos j with h0 | h0
    · exact h0
    · have : 2 ^ k ≤ j * 2 ^ k := Nat.le_mul_of_pos_left _ h0
      omega
  subst hj0
  rw [Nat.zero_mul] at hj
  exact xor_eq_zero_iff.1 hj

omit hf in
theorem clmul_right_cancel {u v c : Nat} (hc : c ≠ 0) (h : clmul u c = clmul v c) : u = v := by
  have : clmul (u ^^^ v) c = 0 := by rw [xor_clmul, h, Nat.xor_self]
  rcases clmul_eq_zero this with h1 | h1
  · exact xor_eq_zero_iff.1 h1
  · exact absurd h1 hc

omit hf in
/-- uniqueness for the final row of the Euclid scheme: every g with deg g ≤ l and
    g·a' = r + k·x^{2l}, deg r < l, is a polynomial multiple of da -/
theorem mp_minimal {l a' aa bb da db g r : Nat} (hI : MPInv l a' aa bb da db) (haa : aa < 2 ^ l)
    (_hg0 : g ≠ 0) (hgl : g.log2 ≤ l) (hr : r < 2 ^ l) (hc : Cong (2 ^ (2 * l)) (clmul g a') r) :
    ∃ h', g = clmul h' da := by
  obtain ⟨c1, c2, da0, bb0, deg, dbl, aal, bbl, det⟩ := hI
  have hdal : da.log2 ≤ l := by omega
  have hX0 : (2 : Nat) ^ (2 * l) ≠ 0 := Nat.pos_iff_ne_zero.1 (Nat.two_pow_pos _)
  -- A: g·aa = da·r
  have hA : clmul g aa = clmul da r := by
    apply eq_of_cong_lt (k := 2 * l)
    · have h1 : Cong (2 ^ (2 * l)) (clmul g aa) (clmul g (clmul da a')) :=
        cong_mul_left g (cong_symm c1)
      have h2 : Cong (2 ^ (2 * l)) (clmul da (clmul g a')) (clmul da r) := cong_mul_left da hc
      have e : clmul g (clmul da a') = clmul da (clmul g a') := by
        rw [← clmul_assoc, clmul_comm g da, clmul_assoc]
      rw [e] at h1
      exact cong_trans h1 h2
    · apply clmul_lt_pow
      by_cases h0 : aa = 0
      · exact Or.inr (Or.inl h0)
      · have := log2_lt_of_lt_pow haa h0
        exact Or.inr (Or.inr (by omega))
    · apply clmul_lt_pow
      by_cases h0 : r = 0
      · exact Or.inr (Or.inl h0)
      · have := log2_lt_of_lt_pow hr h0
        exact Or.inr (Or.inr (by omega))
  -- C: h = g·bb + db·r is a multiple of x^{2l}
  have hC : Cong (2 ^ (2 * l)) (clmul g bb ^^^ clmul db r) 0 := by
    have h1 : Cong (2 ^ (2 * l)) (clmul g bb) (clmul g (clmul db a')) :=
      cong_mul_left g (cong_symm c2)
    have h2 : Cong (2 ^ (2 * l)) (clmul db r) (clmul db (clmul g a')) :=
      cong_mul_left db (cong_symm hc)
    have e : clmul g (clmul db a') = clmul db (clmul g a') := by
      rw [← clmul_assoc, clmul_comm g db, clmul_assoc]
    rw [e] at h1
    have := cong_xor h1 h2
    rwa [Nat.xor_self] at this
  obtain ⟨h', hh'⟩ := hC
  rw [Nat.xor_zero] at hh'
  -- D: da·h = g·X
  have hD : clmul da (clmul g bb ^^^ clmul db r) = clmul g (2 ^ (2 * l)) := by
    rw [← det, clmul_xor, clmul_xor]
    have e1 : clmul da (clmul g bb) = clmul g (clmul da bb) := by
      rw [← clmul_assoc, clmul_comm da g, clmul_assoc]
    have e2 : clmul da (clmul db r) = clmul g (clmul db aa) := by
      rw [← clmul_assoc, clmul_comm da db, clmul_assoc, ← hA, ← clmul_assoc, clmul_comm db g,
        clmul_assoc]
    rw [e1, e2]
  rw [hh', ← clmul_assoc] at hD
  have := clmul_right_cancel hX0 hD
  exact ⟨h', by rw [← this, clmul_comm]⟩

omit hf in
theorem minPolyV_minimal' (a l g r : Nat) (hl : 1 ≤ l) (hg0 : g ≠ 0) (hgl : g.log2 ≤ l)
    (hr : r < 2 ^ l) (hc : Cong (2 ^ (2 * l)) (clmul g (a % 2 ^ (2 * l))) r) :
    (∃ h', g = clmul h' (ppMinPolyV a l)) ∧ (ppMinPolyV a l).log2 ≤ g.log2 := by
  have hX0 : (2 : Nat) ^ (2 * l) ≠ 0 := Nat.pos_iff_ne_zero.1 (Nat.two_pow_pos _)
  have hinit : MPInv l (a % 2 ^ (2 * l)) (a % 2 ^ (2 * l)) (2 ^ (2 * l)) 1 0 :=
    ⟨by rw [one_clmul]; exact cong_refl _ _,
     ⟨1, by rw [zero_clmul, one_clmul, Nat.zero_xor]⟩,
     by decide, hX0, by rw [Nat.log2_two_pow, show Nat.log2 1 = 0 by decide]; simp,
     by rw [show Nat.log2 1 = 0 by decide]; decide,
     by rw [Nat.log2_two_pow]; exact Nat.mod_lt _ (Nat.two_pow_pos _),
     by rw [Nat.log2_two_pow]; omega,
     by rw [one_clmul, zero_clmul, Nat.xor_zero]⟩
  have hfu : a % 2 ^ (2 * l) = 0 ∨ (a % 2 ^ (2 * l)).log2 + 1 ≤ 2 * l + 1 := by
    by_cases h0 : a % 2 ^ (2 * l) = 0
    · exact Or.inl h0
    · right
      have := (Nat.log2_lt h0).2 (Nat.mod_lt a (Nat.two_pow_pos (2 * l)))
      omega
  obtain ⟨aa', bb', db', hI, hex⟩ := mpLoop_spec l _ _ _ _ _ _ hinit hfu
  change MPInv l _ aa' bb' (ppMinPolyV a l) db' at hI
  have haal : aa' < 2 ^ l := by
    rcases hex with h | h
    · rw [h]; exact Nat.two_pow_pos _
    · by_cases h0 : aa' = 0
      · rw [h0]; exact Nat.two_pow_pos _
      · exact (Nat.log2_lt h0).1 (by omega)
  obtain ⟨h', hh'⟩ := mp_minimal hI haal hg0 hgl hr hc
  refine ⟨⟨h', hh'⟩, ?_⟩
  have hh0 : h' ≠ 0 := by
    rintro rfl
    rw [zero_clmul] at hh'
    exact hg0 hh'
  rw [hh', log2_clmul hh0 hI.da0]
  omega

end Bee2V.C05.Gf2

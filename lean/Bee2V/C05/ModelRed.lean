/-
C05 — code-shaped word-level models of the two remaining special reductions of
src/math/zz/zz_red.c:
  zzRedCrandMont (SAFE and FAST editions), zzRedBarrStart, zzRedBarr (SAFE and FAST editions).

Same conventions as ModelMul.lean (little-endian `List Nat` of words below 2^w, generic w,
`f_safe` / `f_fast` = SAFE(f) / FAST(f); FAST editions call the default names of their helpers:
`wwCmp2`, `zzSub2`, `zzSubW2`, `zzMul` are the SAFE editions / regular bodies in the default build).

zzRedCrandMont: the loop `for (i = 0; i < n; ++i)` reads a[i] and updates a[i + n] and a[i + 1]
of the same array in one pass; it is modelled on the window `a + i` (2n - i words): the window's
word n, then its word 1, are replaced (`List.set`; n ≥ 2 so the two positions differ), the head
word is emitted and the window moves on, exactly like ModelMul.zzRedMontLoop.  The two editions
differ only in the word-level add / subtract-with-carry bodies (`cmAddS`/`cmSubS` resp.
`cmAddF`/`cmSubF`), which are passed to the common loop.

zzRedBarrStart calls zzDiv (Knuth D): that routine is modelled and proved in ModelDiv / PropsDiv
by another agent; here its specified result is used: barr_param = B^{2n} div mod as n + 2 words.
zzRedBarr is literal: two zzMul, zzSub2 on n + 1 words, then
  SAFE: two rounds of compare-mask (`w |= a[n]; w = WORD_0 - w`) + zzSubAndW,
  FAST: `while (wwCmp2(a, n + 1, mod, n) >= 0) a[n] -= zzSub2(a, mod, n)` (fuel 2^(2w): every
        iteration subtracts mod ≥ B^{n-1} from a value below B^{n+1}).
NOTE (finding): SAFE(zzRedBarr) ORed the whole word a[n] into the 0/1 flag; a[n] can be 2
(n ≥ 3, mod close to B^n), then the mask is not all-ones and the result is wrong.
`zzRedBarr_safe` models the repaired code (docs/C05.fix-11.diff: `w |= wordNeq01(a[n], 0)`),
`zzRedBarr_safe_old` keeps the old mask (counterexample in PropsRed.lean).

No Mathlib (imported by the native driver).
-/
import Bee2V.C05.ModelAdd
import Bee2V.C05.ModelMul
namespace Bee2V.C05

/-! ## zzRedCrandMont -/

/-- SAFE: `w += carry; carry = wordLess01(w, carry); a[i+n] += w; carry |= wordLess01(a[i+n], w)`
    (`x` = a[i+n], `t1` = w); returns (a[i+n], carry) -/
def cmAddS (w x t1 carry : Nat) : Nat × Nat :=
  let t := wadd w t1 carry
  let c1 := wless01 t carry
  let x' := wadd w x t
  (x', c1 ||| wless01 x' t)

/-- SAFE: `w += borrow; borrow = wordLess01(w, borrow); borrow |= wordLess01(a[i+1], w);
    a[i+1] -= w` (`y` = a[i+1], `t2` = w); returns (a[i+1], borrow) -/
def cmSubS (w y t2 borrow : Nat) : Nat × Nat :=
  let t := wadd w t2 borrow
  let b1 := wless01 t borrow
  let b2 := b1 ||| wless01 y t
  (wsub w y t, b2)

/-- FAST: `w += carry; if (w >= carry) a[i+n] += w, carry = a[i+n] < w;` -/
def cmAddF (w x t1 carry : Nat) : Nat × Nat :=
  let t := wadd w t1 carry
  if t ≥ carry then
    let x' := wadd w x t
    (x', wless01 x' t)
  else (x, carry)

/-- FAST: `w += borrow; if (w >= borrow) borrow = a[i+1] < w, a[i+1] -= w;` -/
def cmSubF (w y t2 borrow : Nat) : Nat × Nat :=
  let t := wadd w t2 borrow
  if t ≥ borrow then (wsub w y t, wless01 y t)
  else (y, borrow)

/-- the main loop of zzRedCrandMont on the window `a + i`; `k` = iterations left, `c` = WORD_0 - mod[0],
    `n` = length of mod.  One iteration:
    `_MUL_LO(w, a[i], mont_param); _MUL(prod, w, WORD_0 - mod[0]);` add `w` (+ carry) to a[i + n],
    subtract `prod >> B_PER_W` (+ borrow) from a[i + 1].  Returns (array, carry, borrow). -/
def zzRedCrandMontLoop (w : Nat) (addf subf : Nat → Nat → Nat → Nat → Nat × Nat) (c mp n : Nat) :
    Nat → List Nat → Nat → Nat → List Nat × Nat × Nat
  | 0, a, carry, borrow => (a, carry, borrow)
  | k + 1, a, carry, borrow =>
    match a with
    | [] => ([], carry, borrow)
    | ai :: _ =>
      let t1 := wmul w ai mp
      let prod := dmul w t1 c
      let r1 := addf w (a.getD n 0) t1 carry
      let a1 := a.set n r1.1
      let r2 := subf w (a1.getD 1 0) (dhi w prod) borrow
      let a2 := a1.set 1 r2.1
      match a2 with
      | [] => ([], r1.2, r2.2)
      | z :: rest =>
        let r := zzRedCrandMontLoop w addf subf c mp n k rest r1.2 r2.2
        (z :: r.1, r.2)

/-- loop + `carry -= zzSubW2(a + n + 1, n - 1, borrow)`: returns (a[n..2n), carry) -/
def zzRedCrandMontCore (w : Nat) (addf subf : Nat → Nat → Nat → Nat → Nat × Nat)
    (a mod : List Nat) (mp : Nat) : List Nat × Nat :=
  let n := mod.length
  let r := zzRedCrandMontLoop w addf subf (wneg w (mod.getD 0 0)) mp n n a 0 0
  let hi := r.1.drop n
  let s := zzSubW2 w (hi.drop 1) r.2.2
  (hi.take 1 ++ s.1, wsub w r.2.1 s.2)

/-- SAFE(zzRedCrandMont)(a, mod, n, mont_param): result = a[0..n) -/
def zzRedCrandMont_safe (w : Nat) (a mod : List Nat) (mp : Nat) : List Nat :=
  let r := zzRedCrandMontCore w cmAddS cmSubS a mod mp
  let c := zzRedMontCmp r.1 mod 1
  let mask := wneg w (c.2 ||| r.2)
  (zzSubAndW w c.1 mod mask).1

/-- FAST(zzRedCrandMont): `wwCopy(a, a + n, n); a[n] = carry;
    if (wwCmp2(a, n + 1, mod, n) >= 0) zzSub2(a, mod, n);` -/
def zzRedCrandMont_fast (w : Nat) (a mod : List Nat) (mp : Nat) : List Nat :=
  let r := zzRedCrandMontCore w cmAddF cmSubF a mod mp
  if wwCmp2_safe (r.1 ++ [r.2]) mod ≥ 0 then (zzSub2 w r.1 mod).1 else r.1

/-! ## zzRedBarr -/

/-- zzRedBarrStart(barr_param, mod, n): `barr_param <- B^{2n} div mod` (n + 2 words; computed by
    zzDiv in the C code) -/
def zzRedBarrStart (w : Nat) (mod : List Nat) : List Nat :=
  toWords w (mod.length + 2) (2 ^ (w * (2 * mod.length)) / val w mod)

/-- common part of both editions: `q <- a[n-1..2n) * param; qm <- q[n+1..2n+3) * mod;
    a <- [n+1]a - [n+1]qm`; returns the n + 1 low words of a -/
def zzRedBarrCommon (w : Nat) (a mod param : List Nat) : List Nat :=
  let n := mod.length
  let q := zzMul w (a.drop (n - 1)) param
  let qm := zzMul w (q.drop (n + 1)) mod
  (zzSub2 w (a.take (n + 1)) (qm.take (n + 1))).1

/-- `while (wwCmp2(a, n + 1, mod, n) >= 0) a[n] -= zzSub2(a, mod, n);` on the n + 1 words -/
def zzRedBarrFastLoop (w : Nat) (mod : List Nat) : Nat → List Nat → List Nat
  | 0, a => a
  | f + 1, a =>
    if wwCmp2_safe a mod ≥ 0 then
      let n := mod.length
      let r := zzSub2 w (a.take n) mod
      zzRedBarrFastLoop w mod f (r.1 ++ [wsub w (a.getD n 0) r.2])
    else a

/-- FAST(zzRedBarr)(a, mod, n, barr_param): result = a[0..n) -/
def zzRedBarr_fast (w : Nat) (a mod param : List Nat) : List Nat :=
  (zzRedBarrFastLoop w mod (2 ^ (2 * w)) (zzRedBarrCommon w a mod param)).take mod.length

/-- SAFE(zzRedBarr), as repaired by docs/C05.fix-11.diff: two rounds of
    `for (i = 0, w = 1; i < n; ++i) { w &= wordEq01(mod[i], a[i]); w |= wordLess01(mod[i], a[i]); }
     w |= wordNeq01(a[n], 0), w = WORD_0 - w;` then `a[n] -= zzSubAndW(a, mod, n, w)` resp.
    `zzSubAndW(a, mod, n, w)` (the compare loop is the mask part of zzRedMontCmp, which also
    returns its input unchanged) -/
def zzRedBarr_safe (w : Nat) (a mod param : List Nat) : List Nat :=
  let n := mod.length
  let a1 := zzRedBarrCommon w a mod param
  let lo := a1.take n
  let top := a1.getD n 0
  let m1 := wneg w ((zzRedMontCmp lo mod 1).2 ||| wneq01 top 0)
  let s := zzSubAndW w lo mod m1
  let top1 := wsub w top s.2
  let m2 := wneg w ((zzRedMontCmp s.1 mod 1).2 ||| wneq01 top1 0)
  (zzSubAndW w s.1 mod m2).1

/-- SAFE(zzRedBarr) before the repair: `w |= a[n], w = WORD_0 - w;` ORs the whole word a[n]
    (which can be 2) into the 0/1 flag -/
def zzRedBarr_safe_old (w : Nat) (a mod param : List Nat) : List Nat :=
  let n := mod.length
  let a1 := zzRedBarrCommon w a mod param
  let lo := a1.take n
  let top := a1.getD n 0
  let m1 := wneg w ((zzRedMontCmp lo mod 1).2 ||| top)
  let s := zzSubAndW w lo mod m1
  let top1 := wsub w top s.2
  let m2 := wneg w ((zzRedMontCmp s.1 mod 1).2 ||| top1)
  (zzSubAndW w s.1 mod m2).1

end Bee2V.C05
